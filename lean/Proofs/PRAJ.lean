/-
P_RAJ pipeline of the FKM-nonlinear assessment (`Model/PRAJ.lean`) - extension of the C09 (curves / damage) and
C10 (assessment) slices.  Carrier ℝ.

What is assumed about the closure-stress iteration: `RootSolver` - whatever `S_close` the solver returns solves
`delta_strain(S_max − S_close) = ε_max − ε_open` (the code's Newton iteration stops within `1.48e-8` of it; its
convergence is measured by the correspondence check, not proved).  `Masing r`: the recorded hysteresis lies on the
doubled Ramberg-Osgood branch (`ε_max − ε_min = delta_strain(S_max − S_min)`), which is how the HCM model produces
stresses and strains with the Seeger-Beste / extended Neuber laws (up to the binning of the look-up table).
-/
import Proofs.Lemmas.PRAJ
import Proofs.C10

namespace PylifeVerif.PRAJ
open PylifeVerif.FkmNl PylifeVerif.HCM

/-! ## P_RAJ of one hysteresis -/

/-- the solver returns a root of the closure equation -/
def RootSolver (m : Mat ℝ) (sc : Solver ℝ) : Prop :=
  ∀ sMin sMax eMax eOpen x, sc sMin sMax eMax eOpen = some x → deltaStrain m (sMax - x) = eMax - eOpen

/-- the recorded hysteresis lies on the Masing branch -/
def Masing (m : Mat ℝ) (r : HRow ℝ) : Prop := deltaStrain m (r.sMax - r.sMin) = r.eMax - r.eMin

/-- **Value of `P_RAJ`.**  With the crack opening strain `eOpen` and a root `x` of the closure equation, the parameter of
a hysteresis is `0` when the crack stays closed (case 1) and otherwise `g(|ΔS_eff|)`,
`g(t) = 1.24 t²/E + 1.02/√n' · t · 2 (t/2K')^(1/n')`, in BOTH closure states (`ε_open < ε_min`: fully open,
`ΔS_eff = S_max − S_min`; else `ΔS_eff = S_max − S_close`). -/
theorem hystP_value (m : Mat ℝ) (closedCrack : Bool) (eOpen x : ℝ) (r : HRow ℝ)
    (hroot : ¬ eOpen < r.eMin → deltaStrain m (r.sMax - x) = r.eMax - eOpen)
    (hmas : eOpen < r.eMin → Masing m r) :
    (hystP m closedCrack eOpen x r).2.2.2 =
      if closedCrack then 0 else gOf m |(hystP m closedCrack eOpen x r).2.1| := by
  simp only [hystP]
  cases closedCrack
  · simp only [Bool.false_eq_true, if_false]
    by_cases h : eOpen < r.eMin
    · simp only [if_pos h]; rw [← hmas h, prajValue_masing]
    · simp only [if_neg h]; rw [← hroot h, prajValue_masing]
  · simp [lit_0]

/-- **`P_RAJ ≥ 0`, zero exactly for a closed crack or a vanishing effective range.** -/
theorem hystP_nonneg_zero_iff (m : Mat ℝ) (hm : m.Adm) (closedCrack : Bool) (eOpen x : ℝ) (r : HRow ℝ)
    (hroot : ¬ eOpen < r.eMin → deltaStrain m (r.sMax - x) = r.eMax - eOpen)
    (hmas : eOpen < r.eMin → Masing m r) :
    0 ≤ (hystP m closedCrack eOpen x r).2.2.2 ∧
    ((hystP m closedCrack eOpen x r).2.2.2 = 0 ↔ closedCrack = true ∨ (hystP m closedCrack eOpen x r).2.1 = 0) := by
  rw [hystP_value m closedCrack eOpen x r hroot hmas]
  cases closedCrack
  · simp only [Bool.false_eq_true, if_false, false_or]
    exact ⟨gOf_nonneg m hm (abs_nonneg _), by rw [gOf_eq_zero_iff m hm (abs_nonneg _), abs_eq_zero]⟩
  · simp

/-- The same for the row the loop writes (`stepRow`, the model of one iteration of `_compute_crack_opening_loop`):
`P_RAJ ≥ 0`; `P_RAJ = 0` iff case 1 ("crack stays closed") or `ΔS_eff = 0`; value `g(|ΔS_eff|)` otherwise. -/
theorem stepRow_P (m : Mat ℝ) (hm : m.Adm) (c : PrajCurve ℝ) (k : Crack ℝ) (sc : Solver ℝ) (hsc : RootSolver m sc)
    (st st' : LoopSt ℝ) (r : HRow ℝ) (hmas : Masing m r) (o : ORow ℝ) (h : stepRow m c k sc st r = some (st', o)) :
    0 ≤ o.P ∧ (o.P = 0 ↔ o.case = 1 ∨ o.dS = 0) ∧ o.P = if o.case = 1 then 0 else gOf m |o.dS| := by
  unfold stepRow at h
  simp only at h
  split at h
  · exact absurd h (by simp)
  · rename_i x hx
    have hroot := hsc _ _ _ _ x hx
    simp only [Option.some.injEq, Prod.mk.injEq] at h
    obtain ⟨_, rfl⟩ := h
    have hv := hystP_value m ((caseOf m st r).1 == 1) (eOpenOf m st r) x r (fun _ => hroot) (fun _ => hmas)
    have hz := hystP_nonneg_zero_iff m hm ((caseOf m st r).1 == 1) (eOpenOf m st r) x r (fun _ => hroot) (fun _ => hmas)
    simp only [beq_iff_eq] at hv hz ⊢
    exact ⟨hz.1, hz.2, hv⟩

/-- **Monotone and continuous in the effective stress range at fixed closure state**: `g` is strictly increasing and
continuous on `[0, ∞)`, `g(0) = 0`. -/
theorem praj_strictMono_continuous_in_range (m : Mat ℝ) (hm : m.Adm) :
    StrictMonoOn (gOf m) (Set.Ici 0) ∧ Continuous (gOf m) ∧ gOf m 0 = 0 ∧
    ∀ x, prajValue m x (deltaStrain m x) = gOf m |x| :=
  ⟨gOf_strictMonoOn m hm, gOf_continuous m hm, gOf_zero m hm, prajValue_masing m⟩

/-! ## the classes -/

/-- **Every value in `(P_RAJ_D_e, P_RAJ_klass_max]` lies in exactly one of the `n_bins` classes**
`(edge (i+1), edge i]`, and `n_bins − searchsorted(flip(edges), P)` is the number of that class.  Values `≤ P_RAJ_D_e` get
the index `n_bins` (counted in `n_not_in_bin`), values `> P_RAJ_klass_max` the index `−1` (numpy then addresses the last
column, which is cut off: such a hysteresis would be dropped from `H_0`). -/
theorem class_exists_unique (n : Nat) (hn : 0 < n) {kmax PDe : ℝ} (hp : 0 < PDe) (hk : PDe < kmax) (P : ℝ) :
    (PDe < P → P ≤ kmax →
      ∃! i, i < n ∧ edgeAt n kmax PDe (i + 1) < P ∧ P ≤ edgeAt n kmax PDe i ∧ classIdx n (edges n kmax PDe) P = (i : Int)) ∧
    (P ≤ PDe → classIdx n (edges n kmax PDe) P = (n : Int)) ∧
    (kmax < P → classIdx n (edges n kmax PDe) P = -1) ∧
    edgeAt n kmax PDe 0 = kmax ∧ edgeAt n kmax PDe n = PDe ∧ StrictAnti (edgeAt n kmax PDe) := by
  refine ⟨fun h1 h2 => ?_, classIdx_below n hn hp hk P, classIdx_above n hn hp hk P,
    edgeAt_zero n hn PDe (lt_trans hp hk), edgeAt_last n hn kmax hp, edgeAt_strictAnti n hn hp hk⟩
  obtain ⟨i, hi, ha, hb⟩ := exists_class n hn hp hk P h1 h2
  refine ⟨i, ⟨hi, ha, hb, classIdx_of_mem n hn hp hk P i hi ha hb⟩, ?_⟩
  rintro j ⟨_, _, _, hj⟩
  have := classIdx_of_mem n hn hp hk P i hi ha hb
  omega

/-- **Class-wise damage sum = hysteresis-wise sum with class representatives.**  The damage of one pass that the x-bar
summation accumulates, `Σ_{i<n} h_i / N(P_m,i)` over the classes above the final endurance value, equals the sum over the
second-run hystereses of `1 / N` of the REPRESENTATIVE of the hysteresis' class.  The representative the code uses is the
ARITHMETIC middle of the class edges, `P_m,i = (edge i + edge (i+1)) / 2` (`mids`, eq. 2.9-131) - not the hysteresis' own
`P_RAJ`, not the geometric middle of the logarithmic class.  A hysteresis counts 1 whether closed or half (Memory 3 does
not occur in the second run); values `≤ P_RAJ_D_e` and `> P_RAJ_klass_max` contribute nothing. -/
theorem classwise_damage_eq_hysteresiswise (c : PrajCurve ℝ) (lastPD : ℝ) (n : Nat) (es : List ℝ) (PDe : ℝ) (Ps : List ℝ) :
    addRange (dmOf c (some lastPD) (mids es) (binnedH n es PDe Ps)) (0.0 : ℝ) 0 n =
      (Ps.map fun P => if Counted n es PDe P then
          (if lastPD < (mids es).getD (classIdx n es P).toNat 0.0 then 1 / prajN c ((mids es).getD (classIdx n es P).toNat 0.0) else 0)
        else 0).sum := by
  rw [addRange_eq_sum, ← classwise_sum n es PDe
    (fun i => if lastPD < (mids es).getD i 0.0 then 1 / prajN c ((mids es).getD i 0.0) else 0) Ps]
  apply Finset.sum_congr rfl
  intro i _
  simp only [dmOf, classDamage, natTo_eq]
  split_ifs
  · ring
  · simp [lit_0]

/-! ## the x-bar summation -/

/-- **Closed form of the loop of `_compute_xbar_minus_2`** (with `previous_j = j + 1`): started at any `jmin ≤ q` it returns
`Σ_{j=q}^{n−2} (f(j+1) − f(j)) / Σ_{i=0}^{j} dm(i)` (`inf` as soon as one denominator is `≤ 1e-13`) - every class enters
every denominator ONCE, and the result does not depend on where the loop starts. -/
theorem xbar_loop_closed_form (dm fd : Nat → ℝ) (q jmin n : Nat) (h : jmin ≤ q) :
    xbarLoop dm fd q jmin n =
      (List.range' q (n - 1 - q)).foldl (fun acc j => Life.add acc (xTerm fd (∑ i ∈ Finset.range (j + 1), dm i) j)) (.finite 0.0) ∧
    xbarLoop dm fd q jmin n = xbarLoop dm fd q q n := by
  refine ⟨?_, by rw [xbarLoop_eq_xbarSum dm fd q jmin n h, xbarLoop_eq_xbarSum dm fd q q n le_rfl]⟩
  rw [xbarLoop_eq_xbarSum dm fd q jmin n h]
  unfold xbarSum
  congr 1
  funext acc j
  rw [addRange_eq_sum]

/-- The unrepaired loop (`previous_j = j`) is correct when it starts at `q` itself (a point assessed alone) and wrong when
it starts below (`min(q)` of a batch): with unit class damages, `q = 1`, three classes, it gives `1/3` from `jmin = 0`
and `1/2` from `jmin = 1`. -/
theorem xbarOld_depends_on_start :
    xbarLoopOld (fun _ => (1 : ℝ)) (fun _ => 1) 1 0 3 = .finite (0.0 + 0.0 + 1 / (0.0 + 1 + 1 + 1)) ∧
    xbarLoopOld (fun _ => (1 : ℝ)) (fun _ => 1) 1 1 3 = .finite (0.0 + 1 / (0.0 + 1 + 1)) ∧
    xbarLoop (fun _ => (1 : ℝ)) (fun _ => 1) 1 0 3 = xbarLoop (fun _ => (1 : ℝ)) (fun _ => 1) 1 1 3 := by
  refine ⟨?_, ?_, by rw [xbarLoop_eq_xbarSum _ _ 1 0 3 (by omega), xbarLoop_eq_xbarSum _ _ 1 1 3 le_rfl]⟩
  · simp only [xbarLoopOld, List.range', List.foldl, xStepOld, xInit, addRange, xTerm, Life.add, transc_abs, lit_0]
    norm_num [Life.add]
  · simp only [xbarLoopOld, List.range', List.foldl, xStepOld, xInit, addRange, xTerm, Life.add, transc_abs, lit_0]
    norm_num [Life.add]

/-! ## batch independence of the P_RAJ lifetime -/

theorem hrowOf_eq_of_proj (conv : Int → ℝ) (k k' : Nat) (h h' : Hyst)
    (hp : C05.proj k h = C05.proj k' h') (hl : C05.projLF k h = C05.projLF k' h') : hrowOf conv k h = hrowOf conv k' h' := by
  simp only [C05.proj, C05.projLF, Prod.mk.injEq, List.cons.injEq, and_true] at hp hl
  obtain ⟨⟨_, _, h3, h4, h5, h6⟩, h7, h8, h9⟩ := hp
  obtain ⟨h10, h11⟩ := hl
  simp only [hrowOf, h3, h4, h5, h6, h7, h8, h9, h10, h11]

theorem map_hrowOf_eq (conv : Int → ℝ) (k k' : Nat) : ∀ (l l' : List Hyst),
    l.map (C05.proj k) = l'.map (C05.proj k') → l.map (C05.projLF k) = l'.map (C05.projLF k') →
    l.map (hrowOf conv k) = l'.map (hrowOf conv k')
  | [], [], _, _ => rfl
  | [], _ :: _, h, _ => by simp at h
  | _ :: _, [], h, _ => by simp at h
  | a :: l, b :: l', h1, h2 => by
    simp only [List.map_cons, List.cons.injEq] at h1 h2 ⊢
    exact ⟨hrowOf_eq_of_proj conv k k' a b h1.1 h2.1, map_hrowOf_eq conv k k' l l' h1.2 h2.2⟩

theorem xb_start (dm fd : Nat → ℝ) (q : Int) (jmin n : Nat) (h : q < 0 ∨ (jmin : Int) ≤ q) :
    (if q < 0 then (Life.inf : Life ℝ) else xbarLoop dm fd q.toNat jmin n) =
      (if q < 0 then (Life.inf : Life ℝ) else xbarLoop dm fd q.toNat q.toNat n) := by
  by_cases hq : q < 0
  · simp [hq]
  · simp only [if_neg hq]
    rw [xbarLoop_eq_xbarSum dm fd q.toNat jmin n (by omega), xbarLoop_eq_xbarSum dm fd q.toNat q.toNat n le_rfl]

/-- the lifetime logic does not depend on the start `jmin` of the x-bar loop as long as `jmin ≤ q` -/
theorem damageCore_start (c : PrajCurve ℝ) (k : Crack ℝ) (n : Nat) (kmax : ℝ) (es : List ℝ) (jmin : Nat) (out : List (ORow ℝ))
    (h : qOf n es (lastPDOf out) < 0 ∨ (jmin : Int) ≤ qOf n es (lastPDOf out)) :
    damageCore c k n kmax es (some jmin) out = damageCore c k n kmax es none out := by
  simp only [damageCore, xb_start _ _ _ jmin n h]

theorem damageCore_q (c : PrajCurve ℝ) (k : Crack ℝ) (n : Nat) (kmax : ℝ) (es : List ℝ) (jm : Option Nat) (out : List (ORow ℝ)) :
    (damageCore c k n kmax es jm out).q = qOf n es (lastPDOf out) := rfl

/-- statement of `C05.hcm_batch_eq_single_code` + `C05.hcm_batch_eq_single_LF_code`: recorder columns and running strain
extremes of every point of a batch with proportional loads are those the point gets alone -/
def HcmBatchEqSingleLF : Prop :=
  ∀ (law : Law), C05.SignPreserving law → ∀ (L cs : List Int), (∀ c ∈ cs, 0 < c) → ∀ k : Nat, k < cs.length →
    ((twoPass law (L.map fun l => cs.map (· * l))).recs.map (C05.proj k)) =
      ((twoPass law (L.map fun l => [cs.getD k 1 * l])).recs.map (C05.proj 0)) ∧
    ((twoPass law (L.map fun l => cs.map (· * l))).recs.map (C05.projLF k)) =
      ((twoPass law (L.map fun l => [cs.getD k 1 * l])).recs.map (C05.projLF 0))

/-- **Batch independence of the P_RAJ assessment (composition).**  Points with proportional load sequences `c·l` (`c > 0`)
in one call with per-point load maxima: per-point look-up tables (binned Seeger-Beste law), class selection and every HCM
decision on the FIRST point, the crack opening loop with per-point state (`ε_open,alt`, `ε_min/max,alt,SP`, `D_akt`,
`P_RAJ_D`), the per-point class grid (`P_RAJ_klass_max` from the point's own largest stress), and the x-bar loop started at
the batch-wide `jmin = min(q)`.  Point `k` gets the verdict, the lifetime, and every intermediate quantity of `Result` it gets
alone, provided `jmin` does not exceed the point's own class `q` (true for the minimum over the batch).
From: the HCM statement (hypothesis), `classQ_first_eq_own`, `maxAbsI_scale`, `xbarLoop_eq_xbarSum`. -/
theorem praj_batch_independent_of_hcm_batch (hb : HcmBatchEqSingleLF) (conv : Int → ℝ) (nb : Nat) (m : Mat ℝ)
    (c : PrajCurve ℝ) (sc : Solver ℝ) (n jmin : Nat) (t : Assess.Tables) (ht : t.SecPos) (L cs : List Int)
    (hc : ∀ c ∈ cs, 0 < c) (k : Nat) (hk : k < cs.length)
    (hj : ∀ r, assessSingle conv nb m c sc n t L (cs.getD k 1) = some r → r.q < 0 ∨ (jmin : Int) ≤ r.q) :
    assessBatch conv nb m c sc n jmin t L cs k = assessSingle conv nb m c sc n t L (cs.getD k 1) := by
  have hk0 : 0 < cs.getD k 1 := by
    rw [List.getD_eq_getElem?_getD, List.getElem?_eq_getElem hk]
    exact hc _ (List.getElem_mem hk)
  have h00 : 0 < cs.headD 1 := by
    cases cs with
    | nil => simp at hk
    | cons c0 rest => exact hc c0 List.mem_cons_self
  have hlaw : Assess.lawBatch nb (Assess.maxAbsI (L.map (cs.headD 1 * ·))) (cs.headD 1) (cs.getD k 1) t
      = Assess.lawOwn nb (Assess.maxAbsI (L.map (cs.getD k 1 * ·))) t := by
    rw [Assess.maxAbsI_scale _ h00.le, Assess.maxAbsI_scale _ hk0.le]
    exact Assess.lawBatch_eq_lawOwn nb (Assess.maxAbsI L) _ _ t h00 hk0
  obtain ⟨hrecs, hlf⟩ := hb (Assess.lawOwn nb (Assess.maxAbsI (L.map (cs.getD k 1 * ·))) t)
    (C10.signPreserving_lawOwn _ _ t ht) L cs hc k hk
  have hsingle : ((L.map (cs.getD k 1 * ·)).map fun l => [l]) = L.map fun l => [cs.getD k 1 * l] := by
    rw [List.map_map]; rfl
  have hrows := map_hrowOf_eq conv k 0 _ _ hrecs hlf
  unfold assessBatch assessSingle assessRecs at *
  simp only [hlaw, hsingle, Assess.batchLoads] at hj ⊢
  rw [hrows] at *
  unfold assessRows at *
  cases hout : prajRows m c sc
      ((twoPass (Assess.lawOwn nb (Assess.maxAbsI (L.map (cs.getD k 1 * ·))) t) (L.map fun l => [cs.getD k 1 * l])).recs.map
        (hrowOf conv 0)) with
  | none => simp
  | some out =>
    rw [hout] at hj
    simp only [Option.map_some, Option.some.injEq] at hj ⊢
    have := hj _ rfl
    unfold damageCalc at this ⊢
    rw [damageCore_q] at this
    exact damageCore_start _ _ _ _ _ jmin out this

theorem hcmBatchEqSingleLF : HcmBatchEqSingleLF :=
  fun law hl L cs hc k hk => ⟨C05.hcm_batch_eq_single_code law hl L cs hc k hk, C05.hcm_batch_eq_single_LF_code law hl L cs hc k hk⟩

/-- **Batch independence of the P_RAJ assessment, unconditional**: with `C05.hcm_batch_eq_single_code` and
`C05.hcm_batch_eq_single_LF_code` (theorems about `twoPass`, the code, incl. the running strain extremes). -/
theorem praj_batch_independent (conv : Int → ℝ) (nb : Nat) (m : Mat ℝ)
    (c : PrajCurve ℝ) (sc : Solver ℝ) (n jmin : Nat) (t : Assess.Tables) (ht : t.SecPos) (L cs : List Int)
    (hc : ∀ c ∈ cs, 0 < c) (k : Nat) (hk : k < cs.length)
    (hj : ∀ r, assessSingle conv nb m c sc n t L (cs.getD k 1) = some r → r.q < 0 ∨ (jmin : Int) ≤ r.q) :
    assessBatch conv nb m c sc n jmin t L cs k = assessSingle conv nb m c sc n t L (cs.getD k 1) :=
  praj_batch_independent_of_hcm_batch hcmBatchEqSingleLF conv nb m c sc n jmin t ht L cs hc k hk hj

/-- **Batch independence of the P_RAJ assessment including the construction of the look-up tables** (`tab M`: the table
`Binned(SeegerBeste)` builds for a point with maximum absolute load `M`; in the batch from the maximum of column `k` of the
load sequence, alone from the point's own sequence - the same number, `C10.colMaxAbs_batchLoads`).  See
`C10.assessment_batch_independent_PRAM_tables`. -/
theorem praj_batch_independent_tables (conv : Int → ℝ) (nb : Nat) (m : Mat ℝ)
    (c : PrajCurve ℝ) (sc : Solver ℝ) (n jmin : Nat) (tab : Int → Assess.Tables) (htab : ∀ M, (tab M).SecPos) (L cs : List Int)
    (hc : ∀ c ∈ cs, 0 < c) (k : Nat) (hk : k < cs.length)
    (hj : ∀ r, assessSingle conv nb m c sc n (tab (Assess.maxAbsI (L.map (cs.getD k 1 * ·)))) L (cs.getD k 1) = some r →
      r.q < 0 ∨ (jmin : Int) ≤ r.q) :
    assessBatch conv nb m c sc n jmin (tab (Assess.colMaxAbs (Assess.batchLoads L cs) k)) L cs k
      = assessSingle conv nb m c sc n (tab (Assess.maxAbsI (L.map (cs.getD k 1 * ·)))) L (cs.getD k 1) := by
  rw [C10.colMaxAbs_batchLoads L cs k hk]
  exact praj_batch_independent conv nb m c sc n jmin _ (htab _) L cs hc k hk hj

/-! ## insensitivity to samples that are no reversals -/

/-- **Sample insensitivity of the P_RAJ assessment.**  A sample between its neighbours (an intermediate point, a repeated
value), a sample appended at the end between the last and the first sample, and a sample put in front between the first
sample and both the initial load 0 and the last sample change nothing: the maximum absolute load (hence the class grid of
the binned Seeger-Beste law) is unchanged and the recorded hystereses INCLUDING the running strain extremes
`epsilon_min_LF / epsilon_max_LF` (fields of `Hyst`) are unchanged (`C04.hcm_insert_nonreversal_interior_code`,
`C04.hcm_append_nonreversal_code`, `C04.hcm_prepend_nonreversal_code`: equalities of `.recs`), so every quantity of `Result`
(crack opening states, P_RAJ of every hysteresis, classes, x-bar, lifetime, verdict) is the same. -/
theorem praj_sample_insensitive (conv : Int → ℝ) (nb : Nat) (m : Mat ℝ) (c : PrajCurve ℝ) (sc : Solver ℝ) (n : Nat)
    (t : Assess.Tables) :
    (∀ (pre post : List Int) (x y v : Int), ((x ≤ v ∧ v ≤ y) ∨ (y ≤ v ∧ v ≤ x)) →
      assessSingle conv nb m c sc n t (pre ++ x :: v :: y :: post) 1 = assessSingle conv nb m c sc n t (pre ++ x :: y :: post) 1) ∧
    (∀ (s : List Int) (a z v : Int), s.head? = some a → s.getLast? = some z →
      ((a ≤ v ∧ v ≤ z) ∨ (z ≤ v ∧ v ≤ a)) → (v ≠ a ∨ v = z) →
      assessSingle conv nb m c sc n t (s ++ [v]) 1 = assessSingle conv nb m c sc n t s 1) ∧
    (∀ (s : List Int) (a z v : Int), s.head? = some a → s.getLast? = some z →
      ((0 ≤ v ∧ v ≤ a) ∨ (a ≤ v ∧ v ≤ 0)) → ((z ≤ v ∧ v ≤ a) ∨ (a ≤ v ∧ v ≤ z)) →
      assessSingle conv nb m c sc n t (v :: s) 1 = assessSingle conv nb m c sc n t s 1) := by
  have hid : ∀ L : List Int, L.map (1 * ·) = L := by
    intro L; simp
  refine ⟨?_, ?_, ?_⟩
  · intro pre post x y v hv
    have h1 := C04.hcm_insert_nonreversal_interior_code (Assess.lawOwn nb (Assess.maxAbsI (pre ++ x :: y :: post)) t) pre post x y v hv
    simp only [assessSingle, hid, Assess.maxAbsI_insert pre post x y v hv]
    simp only [C04.one] at h1
    rw [h1]
  · intro s a z v hs hz hv hne
    have h1 := C04.hcm_append_nonreversal_code (Assess.lawOwn nb (Assess.maxAbsI s) t) s a z v hs hz hv hne
    simp only [assessSingle, hid, Assess.maxAbsI_append s a z v hs hz hv]
    simp only [C04.one] at h1
    rw [h1]
  · intro s a z v hs hz h0 hl
    have h1 := C04.hcm_prepend_nonreversal_code (Assess.lawOwn nb (Assess.maxAbsI s) t) s a z v hs hz h0 hl
    simp only [assessSingle, hid, C10.maxAbsI_prepend s a v hs h0]
    simp only [C04.one] at h1
    rw [h1]

/-! ## N_10 ≤ N_50 ≤ N_90 -/

/-- **N_10 ≤ N_50 ≤ N_90 for P_RAJ** (`N_max_bearable(P_A) = lifetime · 10^((log10 f_2.5% − (0.8 β − 2)·0.155)·|1/d|)`,
`β(P_A) = −Φ⁻¹(P_A)` for a strictly increasing `Φ`), for a finite non-negative lifetime; an infinite lifetime stays infinite.
Full statement: without `hl`.  Missing: `0 ≤ lifetime`, i.e. `0 ≤ xbar − 2`, which needs `f(j+1) ≥ f(j)` for the classes
`j ≥ q` - true only while the bracket of eq. (2.9-139) is positive (class middles below `P_RAJ_D_0 (1 + a_0/l*)`); not proved. -/
theorem N10_le_N50_le_N90_PRAJ_partial (Φ : ℝ → ℝ) (hΦ : StrictMono Φ) (b10 b50 b90 : ℝ)
    (h10 : Φ (-b10) = 0.1) (h50 : Φ (-b50) = 0.5) (h90 : Φ (-b90) = 0.9) (f25 d l : ℝ) (hl : 0 ≤ l) :
    (∃ n10 n50 n90 : ℝ, nMaxBearable (.finite l) f25 d b10 = .finite n10 ∧ nMaxBearable (.finite l) f25 d b50 = .finite n50 ∧
      nMaxBearable (.finite l) f25 d b90 = .finite n90 ∧ n10 ≤ n50 ∧ n50 ≤ n90) ∧
    (∀ b, nMaxBearable (Life.inf : Life ℝ) f25 d b = .inf) := by
  have hb1 : b50 < b10 := by
    have : Φ (-b10) < Φ (-b50) := by rw [h10, h50]; norm_num
    have := hΦ.lt_iff_lt.mp this
    linarith
  have hb2 : b90 < b50 := by
    have : Φ (-b50) < Φ (-b90) := by rw [h50, h90]; norm_num
    have := hΦ.lt_iff_lt.mp this
    linarith
  have key : ∀ b b' : ℝ, b' ≤ b →
      l * (10.0 : ℝ) ^ ((Real.log f25 / Real.log 10 - (0.8 * b - 2.0) * 0.155) * |1.0 / d|) ≤
      l * (10.0 : ℝ) ^ ((Real.log f25 / Real.log 10 - (0.8 * b' - 2.0) * 0.155) * |1.0 / d|) := by
    intro b b' hb
    apply mul_le_mul_of_nonneg_left _ hl
    apply Real.rpow_le_rpow_of_exponent_le (by norm_num)
    apply mul_le_mul_of_nonneg_right _ (abs_nonneg _)
    nlinarith
  refine ⟨⟨_, _, _, rfl, rfl, rfl, ?_, ?_⟩, fun _ => rfl⟩
  · simpa only [transc_pow, transc_log10, transc_abs] using key b10 b50 hb1.le
  · simpa only [transc_pow, transc_log10, transc_abs] using key b50 b90 hb2.le

/-! ## non-vacuity -/

/-- admissible material data; a row on the Masing branch; a solver that returns roots (the trivial one that never answers,
and the exact one for a linear-elastic limit are not needed: `RootSolver` only constrains what IS returned) -/
example : (⟨206000, 1184, 0.187, 600, 0.11⟩ : Mat ℝ).Adm ∧ RootSolver ⟨206000, 1184, 0.187, 600, 0.11⟩ (fun _ _ _ _ => none) :=
  ⟨⟨by norm_num, by norm_num, by norm_num⟩, fun _ _ _ _ _ h => by simp at h⟩

/-- a degenerate hysteresis (zero range) lies on the Masing branch -/
example : Masing ⟨206000, 1184, 0.187, 600, 0.11⟩ ⟨100, 100, 0.001, 0.001, 0, 0.001, true, false, 2⟩ := by
  simp [Masing, deltaStrain, roStrain, lit_2]

/-- grid hypotheses -/
example : (0 : ℝ) < 0.08 ∧ (0.08 : ℝ) < 4.2 ∧ (0.08 : ℝ) < 1 ∧ (1 : ℝ) ≤ 4.2 ∧ 0 < 200 := by norm_num

/-- a start of the loop below `q` -/
example : (0 : Nat) ≤ 1 := by omega

/-- hypotheses of `N10_le_N50_le_N90_PRAJ_partial`: `Φ = id` -/
example : StrictMono (id : ℝ → ℝ) ∧ id (-(-0.1 : ℝ)) = (0.1 : ℝ) ∧ (0 : ℝ) ≤ 1000 := ⟨strictMono_id, by simp, by norm_num⟩

/-- ratios `[2, 3]`, point 1, positive secondary-branch tables -/
example : (⟨[5], [7], [9, 11], [2, 3]⟩ : Assess.Tables).SecPos ∧ (∀ c ∈ [(2 : Int), 3], 0 < c) ∧ 1 < [(2 : Int), 3].length := by
  refine ⟨⟨by simp, by simp, ?_, ?_⟩, ?_, by simp⟩ <;> intro v hv <;> simp at hv <;> omega

end PylifeVerif.PRAJ
