/-
C09 — FKM-nonlinear damage curves, damage parameter P_RAM, damage accumulation / lifetime, safety index
and load safety factors.  Theorems about `Model/FkmNonlinear.lean` at the carrier ℝ.

Admissible curve (`PramCurve.Adm`, `PrajCurve.Adm`): what `_validate` of the accessor accepts
(`P_Z > P_D`, negative slopes) plus `P_D > 0`, which the code does not test (a non-positive endurance value
makes `np.power` of a non-positive base return NaN / inf in the finite-life range).
-/
import Proofs.Lemmas.FkmNonlinear

namespace PylifeVerif.C09
open PylifeVerif.FkmNl

/-! ## P_RAM component Wöhler curve -/

/-- `calc_P_RAM` and `calc_N` are mutual inverses: `P(N(P)) = P` for every `P` above the endurance value
(below it `N = ∞` and `P(∞) = P_RAM_D`), and `N(P(N)) = N` for every `0 < N < N_D`. -/
theorem pram_curve_inverse (c : PramCurve ℝ) (h : c.Adm) :
    (∀ P, c.PD < P → pramCalcPLife c (pramCalcN c P) = P) ∧
    (∀ N, 0 < N → N < pramLifeLimit c → pramCalcN c (pramCalcP c N) = .finite N) := by
  refine ⟨fun P hP => ?_, fun N hN0 hN => ?_⟩
  · simp only [pramCalcN, if_pos hP, pramCalcPLife]
    exact pramCalcP_pramN h hP
  · have hP : c.PD < pramCalcP c N := by
      rcases lt_or_ge N 1000 with hlt | hge
      · exact lt_trans h.2.1 (pramCalcP_lo h hN0 hlt).2
      · exact (pramCalcP_mid h hge hN).2.1
    simp only [pramCalcN, if_pos hP, pramN_pramCalcP h hN0 hN]

example : (⟨-0.3, -0.2, 400, 100⟩ : PramCurve ℝ).Adm := by
  unfold PramCurve.Adm; norm_num

/-- Branch consistency: the two branches of `calc_N` / `calc_P_RAM` are selected consistently
(`P > P_Z ⇔ N < 10³`, `P = P_Z ⇔ N = 10³`), and so is the endurance branch (`P > P_D ⇔ N < N_D`);
the knee `N = 10³` lies strictly inside the finite range. -/
theorem pram_branch_consistency (c : PramCurve ℝ) (h : c.Adm) :
    (∀ P, c.PD < P → (pramN c P < 1000 ↔ c.PZ < P) ∧ (pramN c P = 1000 ↔ P = c.PZ) ∧
      0 < pramN c P ∧ pramN c P < pramLifeLimit c) ∧
    (∀ N, 0 < N → N < pramLifeLimit c → (c.PZ < pramCalcP c N ↔ N < 1000) ∧ (pramCalcP c N = c.PZ ↔ N = 1000) ∧
      c.PD < pramCalcP c N) ∧
    1000 < pramLifeLimit c := by
  refine ⟨fun P hP => ?_, fun N hN0 hN => ?_, h.knee_lt_limit⟩
  · have hP0 : 0 < P := lt_trans h.1 hP
    refine ⟨?_, ?_, pramN_pos h hP0, pramN_lt_limit' h hP⟩
    · constructor
      · intro hn
        by_contra hcon
        rcases eq_or_lt_of_le (not_lt.mp hcon) with heq | hlt
        · rw [heq, pramN_at_PZ h] at hn; exact lt_irrefl _ hn
        · have := (pramN_below h hP0 hlt).2; linarith
      · exact fun hgt => (pramN_above h hgt).2.1
    · constructor
      · intro hn
        rcases lt_trichotomy P c.PZ with hlt | heq | hgt
        · have := (pramN_below h hP0 hlt).2; linarith
        · exact heq
        · have := (pramN_above h hgt).2.1; linarith
      · intro heq; rw [heq]; exact pramN_at_PZ h
  · have hinv := pramN_pramCalcP h hN0 hN
    rcases lt_or_ge N 1000 with hlt | hge
    · have h1 := (pramCalcP_lo h hN0 hlt).2
      exact ⟨⟨fun _ => hlt, fun _ => h1⟩, ⟨fun he => by rw [he, pramN_at_PZ h] at hinv; exact hinv.symm,
        fun he => by linarith⟩, lt_trans h.2.1 h1⟩
    · obtain ⟨_, h1, h2⟩ := pramCalcP_mid h hge hN
      refine ⟨⟨fun hgt => by linarith, fun hlt => by linarith⟩, ⟨fun he => ?_, fun he => ?_⟩, h1⟩
      · rw [he, pramN_at_PZ h] at hinv; exact hinv.symm
      · rw [he, pramCalcP_eq, if_neg (lt_irrefl _), if_pos h.knee_lt_limit, div_self (by norm_num),
          Real.one_rpow, mul_one]

/-- Continuity: both branch formulas agree at `N = 10³` (value `P_RAM_Z`) and the `d_2` branch reaches
exactly `P_RAM_D` at the life limit, so `calc_P_RAM` is continuous on `N > 0`; `N(P)` is continuous on
`P > 0` (the branch formulas agree at `P_RAM_Z` with value `10³`). -/
theorem pram_continuous (c : PramCurve ℝ) (h : c.Adm) :
    ContinuousOn (pramCalcP c) (Set.Ioi 0) ∧ ContinuousOn (pramN c) (Set.Ioi 0) ∧
    c.PZ * ((1000 : ℝ) / 1000) ^ c.d1 = c.PZ ∧ c.PZ * ((1000 : ℝ) / 1000) ^ c.d2 = c.PZ ∧
    pramCalcP c 1000 = c.PZ ∧
    c.PZ * (pramLifeLimit c / 1000) ^ c.d2 = c.PD ∧ pramCalcP c (pramLifeLimit c) = c.PD ∧
    1000 * (c.PZ / c.PZ) ^ (c.d1)⁻¹ = 1000 ∧ 1000 * (c.PZ / c.PZ) ^ (c.d2)⁻¹ = 1000 ∧
    pramN c c.PZ = 1000 ∧ pramN c c.PD = pramLifeLimit c := by
  have hz := h.PZ_pos
  refine ⟨pramCalcP_continuousOn h, pramN_continuousOn h, ?_, ?_, ?_, pramCalcP_branch_at_limit h,
    pramCalcP_hi le_rfl h, ?_, ?_, pramN_at_PZ h, ?_⟩
  · rw [div_self (by norm_num), Real.one_rpow, mul_one]
  · rw [div_self (by norm_num), Real.one_rpow, mul_one]
  · rw [pramCalcP_eq, if_neg (lt_irrefl _), if_pos h.knee_lt_limit, div_self (by norm_num), Real.one_rpow, mul_one]
  · rw [div_self hz.ne', Real.one_rpow, mul_one]
  · rw [div_self hz.ne', Real.one_rpow, mul_one]
  · rw [(pramN_below h h.1 h.2.1).1, pramLifeLimit_eq]

/-- Strictly decreasing in the finite-life range: `P(N)` on `0 < N ≤ N_D`, `N(P)` on `P > 0`
(in particular on `P > P_RAM_D`). -/
theorem pram_strictAnti_finite (c : PramCurve ℝ) (h : c.Adm) :
    StrictAntiOn (pramCalcP c) (Set.Ioc 0 (pramLifeLimit c)) ∧ StrictAntiOn (pramN c) (Set.Ioi 0) :=
  ⟨fun _ ha _ hb hab => pramCalcP_strictAnti h ha.1 hab hb.2,
   fun _ ha _ _ hab => pramN_strictAnti h ha hab⟩

/-- Infinite life exactly at and below the endurance value; beyond the life limit the curve is
horizontal at `P_RAM_D`. -/
theorem pram_infinite_below_endurance (c : PramCurve ℝ) (h : c.Adm) :
    (∀ P, P ≤ c.PD → pramCalcN c P = .inf) ∧
    (∀ P, c.PD < P → pramCalcN c P = .finite (pramN c P) ∧ 0 < pramN c P ∧ pramN c P < pramLifeLimit c) ∧
    (∀ N, pramLifeLimit c ≤ N → pramCalcP c N = c.PD) ∧ pramCalcPLife c .inf = c.PD := by
  refine ⟨fun P hP => ?_, fun P hP => ?_, fun N hN => pramCalcP_hi hN h, rfl⟩
  · simp only [pramCalcN, if_neg (not_lt.mpr hP)]
  · exact ⟨by simp only [pramCalcN, if_pos hP], pramN_pos h (lt_trans h.1 hP), pramN_lt_limit' h hP⟩

/-! ## P_RAJ component Wöhler curve

`calc_N` uses the current `_P_RAJ_D` (field `PD`, lowered by `update_P_RAJ_D` during the assessment),
`calc_P_RAJ` the initial `P_RAJ_D_0` (field `PD0`).  The inverse statements therefore speak about
parameter values above both. -/

theorem praj_curve_inverse (c : PrajCurve ℝ) (h : c.Adm) :
    (∀ P, c.PD < P → c.PD0 < P → prajCalcPLife c (prajCalcN c P) = P) ∧
    (∀ N, 0 < N → N < prajLifeLimit c → c.PD ≤ c.PD0 → prajCalcN c (prajCalcP c N) = .finite N) := by
  refine ⟨fun P hP hP0 => ?_, fun N hN0 hN hle => ?_⟩
  · simp only [prajCalcN, if_pos hP, prajCalcPLife]
    exact prajCalcP_prajN h hP0
  · have hP : c.PD < prajCalcP c N := lt_of_le_of_lt hle (prajCalcP_lo h hN0 hN).2
    simp only [prajCalcN, if_pos hP, prajN_prajCalcP h hN0 hN]

example : (⟨-0.6, 500, 0.3, 0.3⟩ : PrajCurve ℝ).Adm := by
  unfold PrajCurve.Adm; norm_num

theorem praj_branch_consistency (c : PrajCurve ℝ) (h : c.Adm) :
    (∀ P, c.PD0 < P → 0 < prajN c P ∧ prajN c P < prajLifeLimit c) ∧
    (∀ N, 0 < N → N < prajLifeLimit c → c.PD0 < prajCalcP c N) ∧
    prajN c c.PZ = 1 ∧ 1 < prajLifeLimit c := by
  exact ⟨fun P hP => ⟨prajN_pos h (lt_trans h.1 hP), prajN_lt_limit h hP⟩,
    fun N hN0 hN => (prajCalcP_lo h hN0 hN).2, prajN_at_PZ h, h.one_lt_limit⟩

theorem praj_continuous (c : PrajCurve ℝ) (h : c.Adm) :
    ContinuousOn (prajCalcP c) (Set.Ioi 0) ∧ ContinuousOn (prajN c) (Set.Ioi 0) ∧
    c.PZ * (prajLifeLimit c) ^ c.d = c.PD0 ∧ prajCalcP c (prajLifeLimit c) = c.PD0 ∧
    prajN c c.PD0 = prajLifeLimit c ∧ prajN c c.PD = prajLifeLimitFinal c := by
  refine ⟨prajCalcP_continuousOn h, prajN_continuousOn h, prajCalcP_branch_at_limit h, prajCalcP_hi le_rfl, ?_, ?_⟩
  · rw [prajN_eq, prajLifeLimit_eq]
  · rw [prajN_eq]; simp only [prajLifeLimitFinal, transc_pow, lit_1, one_div]

theorem praj_strictAnti_finite (c : PrajCurve ℝ) (h : c.Adm) :
    StrictAntiOn (prajCalcP c) (Set.Ioc 0 (prajLifeLimit c)) ∧ StrictAntiOn (prajN c) (Set.Ioi 0) :=
  ⟨fun _ ha _ hb hab => prajCalcP_strictAnti h ha.1 hab hb.2,
   fun _ ha _ _ hab => prajN_strictAnti h ha hab⟩

theorem praj_infinite_below_endurance (c : PrajCurve ℝ) (h : c.Adm) :
    (∀ P, P ≤ c.PD → prajCalcN c P = .inf) ∧
    (∀ P, c.PD < P → prajCalcN c P = .finite (prajN c P)) ∧
    (∀ P, c.PD0 < P → 0 < prajN c P ∧ prajN c P < prajLifeLimit c) ∧
    (∀ N, prajLifeLimit c ≤ N → prajCalcP c N = c.PD0) ∧ prajCalcPLife c .inf = c.PD0 := by
  refine ⟨fun P hP => ?_, fun P hP => ?_, fun P hP => ⟨prajN_pos h (lt_trans h.1 hP), prajN_lt_limit h hP⟩,
    fun N hN => prajCalcP_hi hN, rfl⟩
  · simp only [prajCalcN, if_neg (not_lt.mpr hP)]
  · simp only [prajCalcN, if_pos hP]

/-! ## the damage parameter P_RAM -/

/-- the guideline's mean stress factor, eq. (2.6-83) -/
noncomputable def Spec.k (M Sm : ℝ) : ℝ := if 0 ≤ Sm then M * (M + 2) else M / 3 * (M / 3 + 2)

/-- `P_RAM = sqrt((S_a + k S_m) ε_a E)` when the factor `S_a + k S_m` is non-negative, and zero when it
is negative (the code tests this FACTOR, not the product).  Strain amplitude and Young's modulus are
non-negative for every real hysteresis (for a negative product under a non-negative factor numpy's
`sqrt` would return NaN, ℝ's `sqrt` returns 0: excluded by the guards). -/
theorem pRAM_formula (M E Sa Sm ea : ℝ) (hea : 0 ≤ ea) (hE : 0 ≤ E) :
    (0 ≤ Sa + Spec.k M Sm * Sm →
      pRAM M E Sa Sm ea = Real.sqrt ((Sa + Spec.k M Sm * Sm) * ea * E) ∧
      pRAM M E Sa Sm ea ^ 2 = (Sa + Spec.k M Sm * Sm) * ea * E ∧ 0 ≤ pRAM M E Sa Sm ea) ∧
    (Sa + Spec.k M Sm * Sm < 0 → pRAM M E Sa Sm ea = 0) ∧
    ((Sa + Spec.k M Sm * Sm) * ea * E < 0 → pRAM M E Sa Sm ea = 0) := by
  have hk : kFactor M Sm = Spec.k M Sm := by rw [kFactor_eq, Spec.k]
  rw [pRAM_eq, hk]
  refine ⟨fun h => ?_, fun h => ?_, fun h => ?_⟩
  · rw [if_pos h]
    have hnn : 0 ≤ (Sa + Spec.k M Sm * Sm) * ea * E := mul_nonneg (mul_nonneg h hea) hE
    exact ⟨rfl, Real.sq_sqrt hnn, Real.sqrt_nonneg _⟩
  · rw [if_neg (not_le.mpr h)]
  · have : Sa + Spec.k M Sm * Sm < 0 := by
      by_contra hcon
      have := mul_nonneg (mul_nonneg (not_lt.mp hcon) hea) hE
      linarith
    rw [if_neg (not_le.mpr this)]

example : (0:ℝ) ≤ 100 + Spec.k 0.25 (-50) * (-50) := by
  unfold Spec.k; norm_num

/-- The guideline's constants that enter C09 (FKM nonlinear, tables 2.7, 2.10, 2.14, 2.33 with the
authors' correction of the P_RAJ values), restated as rationals:
`[E, a_M, b_M, d_1, d_2, a_PZ_RAM, b_PZ_RAM, a_PD_RAM, b_PD_RAM, d_RAJ, a_PZ_RAJ, b_PZ_RAJ, a_PD_RAJ, b_PD_RAJ]`. -/
def Guideline.row : Group → List ℚ
  | .Steel => [206000, 35/100, -1/10, -302/1000, -197/1000, 20, 587/1000, 82/100, 92/100,
      -63/100, 10, 826/1000, 333/10000000, 155/100]
  | .SteelCast => [206000, 35/100, 5/100, -289/1000, -189/1000, 2556/100, 519/1000, 46/100, 96/100,
      -66/100, 1003/100, 695/1000, 515/100000000, 163/100]
  | .AlWrought => [70000, 1, -4/100, -238/1000, -167/1000, 1671/100, 537/1000, 30/100, 1,
      -61/100, 1017/10, 26/100, 518/1000000000, 204/100]

/-- the model's copy of `all_constants` carries the guideline values -/
theorem constants_eq_guideline (g : Group) :
    [(consts g : Consts ℝ).E, (consts g).a_M, (consts g).b_M, (consts g).d_1, (consts g).d_2,
      (consts g).a_PZ_RAM, (consts g).b_PZ_RAM, (consts g).a_PD_RAM, (consts g).b_PD_RAM,
      (consts g).d_RAJ, (consts g).a_PZ_RAJ, (consts g).b_PZ_RAJ, (consts g).a_PD_RAJ, (consts g).b_PD_RAJ]
      = (Guideline.row g).map (fun q : ℚ => (q : ℝ)) := by
  cases g <;> simp only [consts, Guideline.row, List.map_cons, List.map_nil] <;> norm_num

/-- `M_σ = a_M · 10⁻³ · R_m + b_M` with the guideline's `(a_M, b_M)` of the material group, and `P_RAM` of a
row of the collective is the formula above with this `M_σ`. -/
theorem pRAM_group_formula (g : Group) (Rm E Sa Sm ea : ℝ) :
    mSigmaOf g Rm = (match g with
      | .Steel => 0.35 / 1000 * Rm - 0.1
      | .SteelCast => 0.35 / 1000 * Rm + 0.05
      | .AlWrought => 1 / 1000 * Rm - 0.04) ∧
    pRAMOf g Rm E Sa Sm ea = pRAM (mSigmaOf g Rm) E Sa Sm ea := by
  refine ⟨?_, rfl⟩
  cases g <;> simp only [mSigmaOf, mSigma_eq, consts] <;> norm_num <;> ring

/-! ## damage accumulation and lifetime (`DamageCalculatorPRAM`) -/

/-- damages are non-negative for non-negative parameter values (`P = 0`: the code has `N = ∞`, `D = 0`;
over ℝ `0 ^ (1/d) = 0` and `1 / 0 = 0` give `D = 0` as well) -/
theorem rowD_nonneg (c : PramCurve ℝ) (h : c.Adm) (r : Row ℝ) (hP : 0 ≤ r.P) : 0 ≤ rowD c r := by
  have hN : 0 ≤ pramN c r.P := by
    rcases eq_or_lt_of_le hP with h0 | h0
    · have hz : (0:ℝ) / c.PZ = 0 := zero_div _
      rw [← h0, pramN_eq, hz]
      split_ifs <;> exact mul_nonneg (by norm_num) (Real.rpow_nonneg le_rfl _)
    · exact (pramN_pos h h0).le
  simp only [rowD, lit_1, lit_05]
  split_ifs <;> positivity

/-- **Early failure index** (a statement about lists of damages): `_n_cycles_until_damage`
(`searchsorted(cumsum(D), 1)`) is the first index whose prefix sum reaches one: all earlier prefix sums
are below one, and if it is an index of the table its own prefix sum is at least one.  With non-negative
damages it is an index of the table exactly when the total damage of the two passes reaches one. -/
theorem early_failure_index (ds : List (ℝ × Nat)) :
    let r := lifetimeOfDamages ds
    let D := ds.map (·.1)
    r.idx ≤ ds.length ∧
    (∀ j, j < r.idx → (D.take (j + 1)).sum < 1) ∧
    (r.idx < ds.length → 1 ≤ (D.take (r.idx + 1)).sum) ∧
    (r.early = true ↔ r.idx < ds.length) ∧
    ((∀ p ∈ ds, 0 ≤ p.1) → (r.early = true ↔ 1 ≤ D.sum)) ∧
    (r.early = true → r.nSeq = 0 ∧ r.nCycles = (r.idx : ℝ)) := by
  intro r D
  have hlen : D.length = ds.length := by simp [D]
  have hidx : r.idx = firstGe 1 (cumsumFrom 0 D) := by
    simp only [r, lifetimeOfDamages, lit_1, lit_0, D]
  have hearly : r.early = true ↔ r.idx < ds.length := by
    simp only [r, lifetimeOfDamages, decide_eq_true_eq]
  refine ⟨?_, ?_, ?_, hearly, ?_, ?_⟩
  · rw [hidx, ← hlen]; exact firstGe_cumsum_le 1 D 0
  · intro j hj
    have := firstGe_cumsum_before 1 D 0 j (hidx ▸ hj)
    linarith
  · intro hj
    have := firstGe_cumsum_at 1 D 0 (by rw [← hidx, hlen]; exact hj)
    rw [← hidx] at this
    linarith
  · intro hnn
    have hD : ∀ d ∈ D, 0 ≤ d := by
      intro d hd
      obtain ⟨p, hp, rfl⟩ := List.mem_map.mp hd
      exact hnn p hp
    have := firstGe_cumsum_lt_iff 1 D 0 (by norm_num) hD
    rw [hearly, hidx, ← hlen, this, zero_add]
  · intro he
    have he' : decide (firstGe (1:ℝ) (cumsumFrom (0:ℝ) (ds.map (·.1))) < ds.length) = true := by
      simpa only [r, lifetimeOfDamages, lit_1, lit_0] using he
    constructor
    · simp only [r, lifetimeOfDamages, lit_1, lit_0, he', if_true]
    · simp only [r, lifetimeOfDamages, lit_1, lit_0, he', if_true, firstGeNum_eq]

/-- **Lifetime = literal accumulation.**  `D₁`, `D₂` are the damage sums of the first and second pass (a
half hysteresis enters with half its damage through `rowD`).  If the damage sum does not reach one within
the two recorded passes (`D₁ + D₂ < 1`) and the second pass damages at all (`D₂ > 0`; for `D₂ = 0` the code
returns `inf`), then `x = (1 − D₁)/D₂` is the unique `t` with `D₁ + t·D₂ = 1`, it is larger than one, the
damage accumulated after the first pass and `k` repetitions of the second stays below one exactly for
`k < x`, and the reported lifetime is `1 + x` passes, i.e. `(1 + x)·(number of hystereses of pass 2)`
cycles. -/
theorem lifetime_eq_accumulation (ds : List (ℝ × Nat))
    (hnn : ∀ p ∈ ds, 0 ≤ p.1) (hrun : ∀ p ∈ ds, p.2 = 1 ∨ p.2 = 2)
    (hlt : sumRun 1 ds + sumRun 2 ds < 1) (hD2 : 0 < sumRun 2 ds) :
    let r := lifetimeOfDamages ds
    let D₁ := sumRun 1 ds
    let D₂ := sumRun 2 ds
    r.early = false ∧ r.x = (1 - D₁) / D₂ ∧ D₁ + r.x * D₂ = 1 ∧ (∀ t : ℝ, D₁ + t * D₂ = 1 → t = r.x) ∧
    1 < r.x ∧ (∀ k : ℕ, D₁ + k * D₂ < 1 ↔ (k : ℝ) < r.x) ∧
    r.nSeq = 1 + r.x ∧
    r.nCycles = (1 + r.x) * ((ds.filter (fun p => p.2 = 2)).length : ℝ) := by
  intro r D₁ D₂
  have hx : r.x = (1 - D₁) / D₂ := by simp only [r, lifetimeOfDamages, xOf_eq, D₁, D₂]
  have hne : D₂ ≠ 0 := ne_of_gt hD2
  have hnot : ¬ (r.early = true) := by
    rw [(early_failure_index ds).2.2.2.2.1 hnn, sumRun_split ds hrun]
    exact not_le.mpr hlt
  have hearly : r.early = false := by simpa using hnot
  have he' : decide (firstGe (1:ℝ) (cumsumFrom (0:ℝ) (ds.map (·.1))) < ds.length) = false := by
    simpa only [r, lifetimeOfDamages, lit_1, lit_0] using hearly
  refine ⟨hearly, hx, ?_, ?_, ?_, ?_, ?_, ?_⟩
  · rw [hx]; field_simp; ring
  · intro t ht
    rw [hx, eq_div_iff hne]; linarith
  · rw [hx, lt_div_iff₀ hD2]; linarith
  · intro k
    rw [hx, lt_div_iff₀ hD2]
    constructor <;> intro hk <;> linarith
  · simp only [r, lifetimeOfDamages, lit_1, lit_0, he', Bool.false_eq_true, if_false]
    ring
  · simp only [r, lifetimeOfDamages, lit_1, lit_0, he', Bool.false_eq_true, if_false, countRun_eq]
    ring

example : let ds : List (ℝ × Nat) := [(1/4, 1), (1/8, 2), (1/8, 2)]
    (∀ p ∈ ds, 0 ≤ p.1) ∧ (∀ p ∈ ds, p.2 = 1 ∨ p.2 = 2) ∧ sumRun 1 ds + sumRun 2 ds < 1 ∧ 0 < sumRun 2 ds := by
  simp only [sumRun, lit_0]
  norm_num

/-- the same for the calculator fed with a collective: non-negative `P_RAM` values and run indices 1, 2 -/
theorem lifetime_eq_accumulation_rows (c : PramCurve ℝ) (h : c.Adm) (rows : List (Row ℝ))
    (hP : ∀ r ∈ rows, 0 ≤ r.P) (hrun : ∀ r ∈ rows, r.run = 1 ∨ r.run = 2) :
    let ds := rows.map fun r => (rowD c r, r.run)
    damagePRAM c rows = lifetimeOfDamages ds ∧ (∀ p ∈ ds, 0 ≤ p.1) ∧ (∀ p ∈ ds, p.2 = 1 ∨ p.2 = 2) := by
  intro ds
  refine ⟨rfl, ?_, ?_⟩
  · intro p hp
    obtain ⟨r, hr, rfl⟩ := List.mem_map.mp hp
    exact rowD_nonneg c h r (hP r hr)
  · intro p hp
    obtain ⟨r, hr, rfl⟩ := List.mem_map.mp hp
    exact hrun r hr

/-- kernel-checked instance: half a damage in pass 1, one hysteresis with damage 1/8 in pass 2: four
repetitions of pass 2 are needed, the lifetime is five passes = five cycles -/
example : (lifetimeOfDamages [((1/2 : ℝ), 1), (1/8, 2)]).x = 4 ∧
    (lifetimeOfDamages [((1/2 : ℝ), 1), (1/8, 2)]).nSeq = 5 ∧
    (lifetimeOfDamages [((1/2 : ℝ), 1), (1/8, 2)]).nCycles = 5 := by
  have h := lifetime_eq_accumulation [((1/2 : ℝ), 1), (1/8, 2)]
    (by simp) (by simp) (by simp only [sumRun, lit_0]; norm_num) (by simp only [sumRun, lit_0]; norm_num)
  simp only [sumRun, lit_0] at h
  obtain ⟨-, hx, -, -, -, -, hs, hc⟩ := h
  norm_num at hx hs hc
  refine ⟨hx, ?_, ?_⟩
  · rw [hs, hx]; norm_num
  · rw [hc, hx]; norm_num

/-- `is_life_infinite` (largest `P_RAM` of the second pass `≤ P_RAM_D`) holds exactly when the component
Wöhler curve gives infinite life for every hysteresis of the second pass. -/
theorem isLifeInfinite_iff (c : PramCurve ℝ) (rows : List (Row ℝ)) :
    isLifeInfinite c rows = true ↔ ∀ r ∈ rows, r.run = 2 → pramCalcN c r.P = .inf := by
  simp only [isLifeInfinite, List.all_eq_true, Bool.or_eq_true, bne_iff_ne, ne_eq, decide_eq_true_eq]
  constructor
  · intro h r hr h2
    rcases h r hr with hne | hle
    · exact absurd h2 hne
    · simp only [pramCalcN, if_neg (not_lt.mpr hle)]
  · intro h r hr
    by_cases h2 : r.run = 2
    · right
      by_contra hcon
      have := h r hr h2
      simp only [pramCalcN, if_pos (not_le.mp hcon)] at this
      cases this
    · left; exact h2

/-! ## load safety factors -/

/-- `P_L` of the guideline: 2.5 % or 50 % -/
inductive Spec.PL | p2_5 | p50

noncomputable def Spec.PL.val : Spec.PL → ℝ
  | .p2_5 => 2.5
  | .p50 => 50

/-- eq. (2.3-4) / (2.3-6) -/
noncomputable def Spec.alpha (beta : ℝ) (pl : Spec.PL) (s : ℝ) : ℝ :=
  match pl with
  | .p2_5 => (0.7 * beta - 2) * s
  | .p50 => 0.7 * beta * s

/-- the guideline's safety indices for the tabulated failure probabilities -/
theorem getBeta_table :
    getBeta (1.0e-7 : ℝ) = some 5.2 ∧ getBeta (1.0e-6 : ℝ) = some 4.75 ∧ getBeta (1.0e-5 : ℝ) = some 4.27 ∧
    getBeta (7.2e-5 : ℝ) = some 3.8 ∧ getBeta (1.0e-3 : ℝ) = some 3.09 ∧ getBeta (2.3e-1 : ℝ) = some 0.739 ∧
    getBeta (0.5 : ℝ) = some 0 ∧ getBeta (0.3 : ℝ) = none := by
  refine ⟨?_, ?_, ?_, ?_, ?_, ?_, ?_, ?_⟩ <;> simp only [getBeta, betaTable, getBetaIn] <;>
    norm_num [isclose_num]

/-- The three `gamma_L` bodies are the guideline formulas (2.3-4)…(2.3-8): normal
`(L_max + α_L)/L_max`, log-normal `max(1, 10^α)`, blanket `1.1` / `1`. -/
theorem gammaL_formulas (PA beta s Lmax : ℝ) (pl : Spec.PL) (hb : getBeta PA = some beta) :
    gammaLNormal PA pl.val s Lmax = some ((Lmax + Spec.alpha beta pl s) / Lmax) ∧
    gammaLLognormal PA pl.val s = some (max 1 ((10:ℝ) ^ Spec.alpha beta pl s)) ∧
    gammaLBlanket pl.val = some (match pl with | .p2_5 => 1.1 | .p50 => 1) ∧
    gammaLBlanket (10:ℝ) = none := by
  have ha : alphaL beta pl.val s = Spec.alpha beta pl s := by
    cases pl <;> simp only [alphaL, Spec.PL.val, Spec.alpha] <;> norm_num [isclose_num]
  refine ⟨?_, ?_, ?_, ?_⟩
  · simp only [gammaLNormal, hb, Option.map_some, ha]
  · simp only [gammaLLognormal, hb, Option.map_some, ha, transc_pow, lit_1]
    congr 1
    norm_num
    rcases lt_or_ge 1 ((10:ℝ) ^ Spec.alpha beta pl s) with hlt | hge
    · rw [if_pos hlt, max_eq_right hlt.le]
    · rw [if_neg (not_lt.mpr hge), max_eq_left hge]
  · cases pl <;> simp only [gammaLBlanket, Spec.PL.val] <;> norm_num [isclose_num]
  · simp only [gammaLBlanket]; norm_num [isclose_num]

/-! ## safety index -/

/-- **Partial.**  Full statement: `compute_beta P_A = −Φ⁻¹(P_A)` for the standard normal distribution
function `Φ` and every `P_A ∈ (0, 0.5]`.  Proved: for ANY strictly increasing `Φ`, the function the code
hands to the root finder, `x ↦ |Φ(x) − P_A|`, vanishes exactly at the solutions of `Φ(x) = P_A`, there is at most
one, and for a root `x` the returned value is `β = −x`; with the symmetry `Φ(−x) = 1 − Φ(x)` this gives
`Φ(β) = 1 − P_A` and `β ≥ 0` for `P_A ≤ 1/2`.  Missing: that `scipy.optimize.root` (hybrid Powell from
`x₀ = −0.6` on a non-smooth residual) returns a root — a runtime fact, measured by the correspondence check
against an independent quantile. -/
theorem beta_is_neg_quantile_partial (Φ : ℝ → ℝ) (hΦ : StrictMono Φ) (PA x : ℝ) :
    (|Φ x - PA| = 0 ↔ Φ x = PA) ∧
    (Φ x = PA → (∀ y, Φ y = PA → y = x) ∧ betaOfRoot x = -x ∧
      ((∀ t, Φ (-t) = 1 - Φ t) → Φ (betaOfRoot x) = 1 - PA ∧ (PA ≤ 1 / 2 → 0 ≤ betaOfRoot x))) := by
  have hb : betaOfRoot x = -x := by simp only [betaOfRoot, lit_1, div_one]
  refine ⟨by rw [abs_eq_zero, sub_eq_zero], fun hx => ⟨fun y hy => hΦ.injective (hy.trans hx.symm), hb, fun hsym => ?_⟩⟩
  rw [hb, hsym x, hx]
  refine ⟨rfl, fun hPA => ?_⟩
  by_contra hcon
  have hxpos : 0 < x := by linarith
  have h0 : Φ 0 = 1 / 2 := by have := hsym 0; rw [neg_zero] at this; linarith
  have := hΦ hxpos
  linarith

example : StrictMono (fun x : ℝ => x / 4 + 1 / 2) ∧ ∀ t : ℝ, (fun x : ℝ => x / 4 + 1 / 2) (-t) = 1 - (fun x : ℝ => x / 4 + 1 / 2) t := by
  constructor
  · intro a b hab; simp only; linarith
  · intro t; simp only; ring

end PylifeVerif.C09
