/-
C09 — FKM-nonlinear damage curves, damage parameter P_RAM, damage accumulation / lifetime, safety index
and load safety factors.  Theorems about `Model/FkmNonlinear.lean` at the carrier ℝ.

Admissible curve (`PramCurve.Adm`, `PrajCurve.Adm`): what `_validate` of the accessor accepts
(`P_Z > P_D`, negative slopes) plus `P_D > 0`, which the code does not test (a non-positive endurance value
makes `np.power` of a non-positive base return NaN / inf in the finite-life range).
-/
import Proofs.Lemmas.FkmNonlinear

namespace PylifeVerif.C09
open PylifeVerif.FkmNl

/-! ## P_RAM component Wöhler curve -/

/-- `calc_P_RAM` and `calc_N` are mutual inverses: `P(N(P)) = P` for every `P` above the endurance value
(below it `N = ∞` and `P(∞) = P_RAM_D`), and `N(P(N)) = N` for every `0 < N < N_D`. -/
theorem pram_curve_inverse (c : PramCurve ℝ) (h : c.Adm) :
    (∀ P, c.PD < P → pramCalcPLife c (pramCalcN c P) = P) ∧
    (∀ N, 0 < N → N < pramLifeLimit c → pramCalcN c (pramCalcP c N) = .finite N) := by
  refine ⟨fun P hP => ?_, fun N hN0 hN => ?_⟩
  · simp only [pramCalcN, if_pos hP, pramCalcPLife]
    exact pramCalcP_pramN h hP
  · have hP : c.PD < pramCalcP c N := by
      rcases lt_or_ge N 1000 with hlt | hge
      · exact lt_trans h.2.1 (pramCalcP_lo h hN0 hlt).2
      · exact (pramCalcP_mid h hge hN).2.1
    simp only [pramCalcN, if_pos hP, pramN_pramCalcP h hN0 hN]

example : (⟨-0.3, -0.2, 400, 100⟩ : PramCurve ℝ).Adm := by
  unfold PramCurve.Adm; norm_num

/-- Branch consistency: the two branches of `calc_N` / `calc_P_RAM` are selected consistently
(`P > P_Z ⇔ N < 10³`, `P = P_Z ⇔ N = 10³`), and so is the endurance branch (`P > P_D ⇔ N < N_D`);
the knee `N = 10³` lies strictly inside the finite range. -/
theorem pram_branch_consistency (c : PramCurve ℝ) (h : c.Adm) :
    (∀ P, c.PD < P → (pramN c P < 1000 ↔ c.PZ < P) ∧ (pramN c P = 1000 ↔ P = c.PZ) ∧
      0 < pramN c P ∧ pramN c P < pramLifeLimit c) ∧
    (∀ N, 0 < N → N < pramLifeLimit c → (c.PZ < pramCalcP c N ↔ N < 1000) ∧ (pramCalcP c N = c.PZ ↔ N = 1000) ∧
      c.PD < pramCalcP c N) ∧
    1000 < pramLifeLimit c := by
  refine ⟨fun P hP => ?_, fun N hN0 hN => ?_, h.knee_lt_limit⟩
  · have hP0 : 0 < P := lt_trans h.1 hP
    refine ⟨?_, ?_, pramN_pos h hP0, pramN_lt_limit' h hP⟩
    · constructor
      · intro hn
        by_contra hcon
        rcases eq_or_lt_of_le (not_lt.mp hcon) with heq | hlt
        · rw [heq, pramN_at_PZ h] at hn; exact lt_irrefl _ hn
        · have := (pramN_below h hP0 hlt).2; linarith
      · exact fun hgt => (pramN_above h hgt).2.1
    · constructor
      · intro hn
        rcases lt_trichotomy P c.PZ with hlt | heq | hgt
        · have := (pramN_below h hP0 hlt).2; linarith
        · exact heq
        · have := (pramN_above h hgt).2.1; linarith
      · intro heq; rw [heq]; exact pramN_at_PZ h
  · have hinv := pramN_pramCalcP h hN0 hN
    rcases lt_or_ge N 1000 with hlt | hge
    · have h1 := (pramCalcP_lo h hN0 hlt).2
      exact ⟨⟨fun _ => hlt, fun _ => h1⟩, ⟨fun he => by rw [he, pramN_at_PZ h] at hinv; exact hinv.symm,
        fun he => by linarith⟩, lt_trans h.2.1 h1⟩
    · obtain ⟨_, h1, h2⟩ := pramCalcP_mid h hge hN
      refine ⟨⟨fun hgt => by linarith, fun hlt => by linarith⟩, ⟨fun he => ?_, fun he => ?_⟩, h1⟩
      · rw [he, pramN_at_PZ h] at hinv; exact hinv.symm
      · rw [he, pramCalcP_eq, if_neg (lt_irrefl _), if_pos h.knee_lt_limit, div_self (by norm_num),
          Real.one_rpow, mul_one]

/-- Continuity: both branch formulas agree at `N = 10³` (value `P_RAM_Z`) and the `d_2` branch reaches
exactly `P_RAM_D` at the life limit, so `calc_P_RAM` is continuous on `N > 0`; `N(P)` is continuous on
`P > 0` (the branch formulas agree at `P_RAM_Z` with value `10³`). -/
theorem pram_continuous (c : PramCurve ℝ) (h : c.Adm) :
    ContinuousOn (pramCalcP c) (Set.Ioi 0) ∧ ContinuousOn (pramN c) (Set.Ioi 0) ∧
    c.PZ * ((1000 : ℝ) / 1000) ^ c.d1 = c.PZ ∧ c.PZ * ((1000 : ℝ) / 1000) ^ c.d2 = c.PZ ∧
    pramCalcP c 1000 = c.PZ ∧
    c.PZ * (pramLifeLimit c / 1000) ^ c.d2 = c.PD ∧ pramCalcP c (pramLifeLimit c) = c.PD ∧
    1000 * (c.PZ / c.PZ) ^ (c.d1)⁻¹ = 1000 ∧ 1000 * (c.PZ / c.PZ) ^ (c.d2)⁻¹ = 1000 ∧
    pramN c c.PZ = 1000 ∧ pramN c c.PD = pramLifeLimit c := by
  have hz := h.PZ_pos
  refine ⟨pramCalcP_continuousOn h, pramN_continuousOn h, ?_, ?_, ?_, pramCalcP_branch_at_limit h,
    pramCalcP_hi le_rfl h, ?_, ?_, pramN_at_PZ h, ?_⟩
  · rw [div_self (by norm_num), Real.one_rpow, mul_one]
  · rw [div_self (by norm_num), Real.one_rpow, mul_one]
  · rw [pramCalcP_eq, if_neg (lt_irrefl _), if_pos h.knee_lt_limit, div_self (by norm_num), Real.one_rpow, mul_one]
  · rw [div_self hz.ne', Real.one_rpow, mul_one]
  · rw [div_self hz.ne', Real.one_rpow, mul_one]
  · rw [(pramN_below h h.1 h.2.1).1, pramLifeLimit_eq]

/-- Strictly decreasing in the finite-life range: `P(N)` on `0 < N ≤ N_D`, `N(P)` on `P > 0`
(in particular on `P > P_RAM_D`). -/
theorem pram_strictAnti_finite (c : PramCurve ℝ) (h : c.Adm) :
    StrictAntiOn (pramCalcP c) (Set.Ioc 0 (pramLifeLimit c)) ∧ StrictAntiOn (pramN c) (Set.Ioi 0) :=
  ⟨fun _ ha _ hb hab => pramCalcP_strictAnti h ha.1 hab hb.2,
   fun _ ha _ _ hab => pramN_strictAnti h ha hab⟩

/-- Infinite life exactly at and below the endurance value; beyond the life limit the curve is
horizontal at `P_RAM_D`. -/
theorem pram_infinite_below_endurance (c : PramCurve ℝ) (h : c.Adm) :
    (∀ P, P ≤ c.PD → pramCalcN c P = .inf) ∧
    (∀ P, c.PD < P → pramCalcN c P = .finite (pramN c P) ∧ 0 < pramN c P ∧ pramN c P < pramLifeLimit c) ∧
    (∀ N, pramLifeLimit c ≤ N → pramCalcP c N = c.PD) ∧ pramCalcPLife c .inf = c.PD := by
  refine ⟨fun P hP => ?_, fun P hP => ?_, fun N hN => pramCalcP_hi hN h, rfl⟩
  · simp only [pramCalcN, if_neg (not_lt.mpr hP)]
  · exact ⟨by simp only [pramCalcN, if_pos hP], pramN_pos h (lt_trans h.1 hP), pramN_lt_limit' h hP⟩

/-! ## P_RAJ component Wöhler curve

`calc_N` uses the current `_P_RAJ_D` (field `PD`, lowered by `update_P_RAJ_D` during the assessment),
`calc_P_RAJ` the initial `P_RAJ_D_0` (field `PD0`).  The inverse statements therefore speak about
parameter values above both. -/

/-- **Partial.**  Full statement: `P(N(P)) = P` for every `P` above the endurance value the curve uses in `calc_N`
(the current `_P_RAJ_D`).  Proved: for every `P` above BOTH endurance values.  The guard `c.PD0 < P` excludes exactly the
band `(P_RAJ_D, P_RAJ_D_0]` of a curve whose endurance value has been lowered by `update_P_RAJ_D`; there the full statement
is FALSE for the code (`praj_updated_band`, `praj_updated_band_refuted`; open finding `praj-updated-endurance-band`). -/
theorem praj_curve_inverse_partial (c : PrajCurve ℝ) (h : c.Adm) :
    (∀ P, c.PD < P → c.PD0 < P → prajCalcPLife c (prajCalcN c P) = P) ∧
    (∀ N, 0 < N → N < prajLifeLimit c → c.PD ≤ c.PD0 → prajCalcN c (prajCalcP c N) = .finite N) := by
  refine ⟨fun P hP hP0 => ?_, fun N hN0 hN hle => ?_⟩
  · simp only [prajCalcN, if_pos hP, prajCalcPLife]
    exact prajCalcP_prajN h hP0
  · have hP : c.PD < prajCalcP c N := lt_of_le_of_lt hle (prajCalcP_lo h hN0 hN).2
    simp only [prajCalcN, if_pos hP, prajN_prajCalcP h hN0 hN]

/-- The full inverse statement for a curve whose endurance value has not been changed (`_P_RAJ_D = P_RAJ_D_0`, the state
after construction): no guard besides admissibility. -/
theorem praj_curve_inverse_fresh (c : PrajCurve ℝ) (h : c.Adm) (hf : c.PD = c.PD0) :
    (∀ P, c.PD < P → prajCalcPLife c (prajCalcN c P) = P) ∧
    (∀ P, P ≤ c.PD → prajCalcPLife c (prajCalcN c P) = c.PD) ∧
    (∀ N, 0 < N → N < prajLifeLimit c → prajCalcN c (prajCalcP c N) = .finite N) := by
  refine ⟨fun P hP => (praj_curve_inverse_partial c h).1 P hP (hf ▸ hP), fun P hP => ?_,
    fun N hN0 hN => (praj_curve_inverse_partial c h).2 N hN0 hN hf.le⟩
  rw [prajCalcN, if_neg (not_lt.mpr hP)]
  simp only [prajCalcPLife, hf]

example : (⟨-0.6, 500, 0.3, 0.3⟩ : PrajCurve ℝ).Adm ∧ (⟨-0.6, 500, 0.3, 0.3⟩ : PrajCurve ℝ).PD = (⟨-0.6, 500, 0.3, 0.3⟩ : PrajCurve ℝ).PD0 := by
  unfold PrajCurve.Adm; norm_num

/-- **The band `(P_RAJ_D, P_RAJ_D_0]` of a curve with lowered endurance value** (what the code does there): `calc_N` is
finite (it tests the current `_P_RAJ_D`) and at least the life limit `N_D` of the initial endurance value, `calc_P_RAJ` of
that number of cycles is the INITIAL endurance value `P_RAJ_D_0` (it tests `fatigue_life_limit`, computed from
`P_RAJ_D_0`); so `P(N(P)) ≠ P` for every `P` strictly inside the band, `calc_P_RAJ` is constant on
`[N_D, N_D,final)` although `calc_N` takes all these values as finite lives, and `N_D < N_D,final`. -/
theorem praj_updated_band (c : PrajCurve ℝ) (h : c.Adm) (hPD : 0 < c.PD) (hlow : c.PD < c.PD0) :
    (∀ P, c.PD < P → P ≤ c.PD0 →
      prajCalcN c P = .finite (prajN c P) ∧ prajLifeLimit c ≤ prajN c P ∧ prajN c P < prajLifeLimitFinal c ∧
      prajCalcPLife c (prajCalcN c P) = c.PD0 ∧ (P < c.PD0 → prajCalcPLife c (prajCalcN c P) ≠ P)) ∧
    (∀ N, prajLifeLimit c ≤ N → prajCalcP c N = c.PD0) ∧
    prajLifeLimit c < prajLifeLimitFinal c := by
  have hlim : prajN c c.PD0 = prajLifeLimit c := by rw [prajN_eq, prajLifeLimit_eq]
  have hfin : prajN c c.PD = prajLifeLimitFinal c := by
    rw [prajN_eq]; simp only [prajLifeLimitFinal, transc_pow, lit_1, one_div]
  refine ⟨fun P hP hle => ?_, fun N hN => prajCalcP_hi hN, ?_⟩
  · have hP0 : 0 < P := lt_trans hPD hP
    have hge : prajLifeLimit c ≤ prajN c P := by
      rcases eq_or_lt_of_le hle with heq | hlt
      · rw [heq, hlim]
      · rw [← hlim]; exact (prajN_strictAnti h hP0 hlt).le
    have hback : prajCalcPLife c (prajCalcN c P) = c.PD0 := by
      simp only [prajCalcN, if_pos hP, prajCalcPLife]
      exact prajCalcP_hi hge
    refine ⟨by simp only [prajCalcN, if_pos hP], hge, ?_, hback, fun hlt => ?_⟩
    · rw [← hfin]; exact prajN_strictAnti h hPD hP
    · rw [hback]; exact ne_of_gt hlt
  · rw [← hlim, ← hfin]; exact prajN_strictAnti h hPD hlow

/-- kernel-checked refutation of the full inverse / strict monotonicity statements at the auditor's witness
(`P_RAJ_Z = 150`, `P_RAJ_D_0 = 10`, `d = −1/2`, `update_P_RAJ_D(9)`): `calc_P_RAJ(calc_N(9.5)) = 10`. -/
theorem praj_updated_band_refuted :
    let c : PrajCurve ℝ := ⟨-1/2, 150, 10, 9⟩
    c.Adm ∧ (∃ n, prajCalcN c (19/2) = .finite n) ∧ prajCalcPLife c (prajCalcN c (19/2)) = 10 ∧
    prajCalcPLife c (prajCalcN c (19/2)) ≠ 19/2 ∧
    ¬ (∀ P, c.PD < P → prajCalcPLife c (prajCalcN c P) = P) ∧
    ¬ StrictAntiOn (prajCalcP c) (Set.Ioo 0 (prajLifeLimitFinal c)) := by
  intro c
  have hA : c.Adm := by unfold PrajCurve.Adm; norm_num [c]
  have hB := praj_updated_band c hA (by norm_num [c]) (by norm_num [c])
  obtain ⟨h1, h2, h3, h4, h5⟩ := hB.1 (19/2) (by norm_num [c]) (by norm_num [c])
  have h10 : c.PD0 = 10 := rfl
  refine ⟨hA, ⟨_, h1⟩, by rw [h4, h10], by rw [h4, h10]; norm_num, fun hall => ?_, fun hanti => ?_⟩
  · exact h5 (by norm_num [c]) (hall (19/2) (by norm_num [c]))
  · -- two different finite lives in [N_D, N_D,final) with the same parameter value
    have hpos : 0 < prajLifeLimit c := hA.limit_pos
    have hlt := hB.2.2
    set a := prajLifeLimit c
    set b := prajLifeLimitFinal c
    have hm : a < (a + b) / 2 := by linarith
    have hm2 : (a + b) / 2 < b := by linarith
    have := hanti (a := a) ⟨hpos, hlt⟩ (b := (a + b) / 2) ⟨by linarith, hm2⟩ hm
    rw [hB.2.1 a le_rfl, hB.2.1 _ hm.le] at this
    exact lt_irrefl _ this

theorem praj_branch_consistency (c : PrajCurve ℝ) (h : c.Adm) :
    (∀ P, c.PD0 < P → 0 < prajN c P ∧ prajN c P < prajLifeLimit c) ∧
    (∀ N, 0 < N → N < prajLifeLimit c → c.PD0 < prajCalcP c N) ∧
    prajN c c.PZ = 1 ∧ 1 < prajLifeLimit c := by
  exact ⟨fun P hP => ⟨prajN_pos h (lt_trans h.1 hP), prajN_lt_limit h hP⟩,
    fun N hN0 hN => (prajCalcP_lo h hN0 hN).2, prajN_at_PZ h, h.one_lt_limit⟩

theorem praj_continuous (c : PrajCurve ℝ) (h : c.Adm) :
    ContinuousOn (prajCalcP c) (Set.Ioi 0) ∧ ContinuousOn (prajN c) (Set.Ioi 0) ∧
    c.PZ * (prajLifeLimit c) ^ c.d = c.PD0 ∧ prajCalcP c (prajLifeLimit c) = c.PD0 ∧
    prajN c c.PD0 = prajLifeLimit c ∧ prajN c c.PD = prajLifeLimitFinal c := by
  refine ⟨prajCalcP_continuousOn h, prajN_continuousOn h, prajCalcP_branch_at_limit h, prajCalcP_hi le_rfl, ?_, ?_⟩
  · rw [prajN_eq, prajLifeLimit_eq]
  · rw [prajN_eq]; simp only [prajLifeLimitFinal, transc_pow, lit_1, one_div]

theorem praj_strictAnti_finite (c : PrajCurve ℝ) (h : c.Adm) :
    StrictAntiOn (prajCalcP c) (Set.Ioc 0 (prajLifeLimit c)) ∧ StrictAntiOn (prajN c) (Set.Ioi 0) :=
  ⟨fun _ ha _ hb hab => prajCalcP_strictAnti h ha.1 hab hb.2,
   fun _ ha _ _ hab => prajN_strictAnti h ha hab⟩

theorem praj_infinite_below_endurance (c : PrajCurve ℝ) (h : c.Adm) :
    (∀ P, P ≤ c.PD → prajCalcN c P = .inf) ∧
    (∀ P, c.PD < P → prajCalcN c P = .finite (prajN c P)) ∧
    (∀ P, c.PD0 < P → 0 < prajN c P ∧ prajN c P < prajLifeLimit c) ∧
    (∀ N, prajLifeLimit c ≤ N → prajCalcP c N = c.PD0) ∧ prajCalcPLife c .inf = c.PD0 := by
  refine ⟨fun P hP => ?_, fun P hP => ?_, fun P hP => ⟨prajN_pos h (lt_trans h.1 hP), prajN_lt_limit h hP⟩,
    fun N hN => prajCalcP_hi hN, rfl⟩
  · simp only [prajCalcN, if_neg (not_lt.mpr hP)]
  · simp only [prajCalcN, if_pos hP]

/-! ## the damage parameter P_RAM -/

/-- the guideline's mean stress factor, eq. (2.6-83) -/
noncomputable def Spec.k (M Sm : ℝ) : ℝ := if 0 ≤ Sm then M * (M + 2) else M / 3 * (M / 3 + 2)

/-- `P_RAM = sqrt((S_a + k S_m) ε_a E)` when the factor `S_a + k S_m` is non-negative, and zero when it
is negative (the code tests this FACTOR, not the product).  Strain amplitude and Young's modulus are
non-negative for every real hysteresis (for a negative product under a non-negative factor numpy's
`sqrt` would return NaN, ℝ's `sqrt` returns 0: excluded by the guards). -/
theorem pRAM_formula (M E Sa Sm ea : ℝ) (hea : 0 ≤ ea) (hE : 0 ≤ E) :
    (0 ≤ Sa + Spec.k M Sm * Sm →
      pRAM M E Sa Sm ea = Real.sqrt ((Sa + Spec.k M Sm * Sm) * ea * E) ∧
      pRAM M E Sa Sm ea ^ 2 = (Sa + Spec.k M Sm * Sm) * ea * E ∧ 0 ≤ pRAM M E Sa Sm ea) ∧
    (Sa + Spec.k M Sm * Sm < 0 → pRAM M E Sa Sm ea = 0) ∧
    ((Sa + Spec.k M Sm * Sm) * ea * E < 0 → pRAM M E Sa Sm ea = 0) := by
  have hk : kFactor M Sm = Spec.k M Sm := by rw [kFactor_eq, Spec.k]
  rw [pRAM_eq, hk]
  refine ⟨fun h => ?_, fun h => ?_, fun h => ?_⟩
  · rw [if_pos h]
    have hnn : 0 ≤ (Sa + Spec.k M Sm * Sm) * ea * E := mul_nonneg (mul_nonneg h hea) hE
    exact ⟨rfl, Real.sq_sqrt hnn, Real.sqrt_nonneg _⟩
  · rw [if_neg (not_le.mpr h)]
  · have : Sa + Spec.k M Sm * Sm < 0 := by
      by_contra hcon
      have := mul_nonneg (mul_nonneg (not_lt.mp hcon) hea) hE
      linarith
    rw [if_neg (not_le.mpr this)]

example : (0:ℝ) ≤ 100 + Spec.k 0.25 (-50) * (-50) := by
  unfold Spec.k; norm_num

/-- The guideline's constants that enter C09 (FKM nonlinear, tables 2.7, 2.10, 2.14, 2.33 with the
authors' correction of the P_RAJ values), restated as rationals:
`[E, a_M, b_M, d_1, d_2, a_PZ_RAM, b_PZ_RAM, a_PD_RAM, b_PD_RAM, d_RAJ, a_PZ_RAJ, b_PZ_RAJ, a_PD_RAJ, b_PD_RAJ]`. -/
def Guideline.row : Group → List ℚ
  | .Steel => [206000, 35/100, -1/10, -302/1000, -197/1000, 20, 587/1000, 82/100, 92/100,
      -63/100, 10, 826/1000, 333/10000000, 155/100]
  | .SteelCast => [206000, 35/100, 5/100, -289/1000, -189/1000, 2556/100, 519/1000, 46/100, 96/100,
      -66/100, 1003/100, 695/1000, 515/100000000, 163/100]
  | .AlWrought => [70000, 1, -4/100, -238/1000, -167/1000, 1671/100, 537/1000, 30/100, 1,
      -61/100, 1017/10, 26/100, 518/1000000000, 204/100]

/-- the model's copy of `all_constants` carries the guideline values -/
theorem constants_eq_guideline (g : Group) :
    [(consts g : Consts ℝ).E, (consts g).a_M, (consts g).b_M, (consts g).d_1, (consts g).d_2,
      (consts g).a_PZ_RAM, (consts g).b_PZ_RAM, (consts g).a_PD_RAM, (consts g).b_PD_RAM,
      (consts g).d_RAJ, (consts g).a_PZ_RAJ, (consts g).b_PZ_RAJ, (consts g).a_PD_RAJ, (consts g).b_PD_RAJ]
      = (Guideline.row g).map (fun q : ℚ => (q : ℝ)) := by
  cases g <;> simp only [consts, Guideline.row, List.map_cons, List.map_nil] <;> norm_num

/-- `M_σ = a_M · 10⁻³ · R_m + b_M` with the guideline's `(a_M, b_M)` of the material group, and `P_RAM` of a
row of the collective is the formula above with this `M_σ`. -/
theorem pRAM_group_formula (g : Group) (Rm E Sa Sm ea : ℝ) :
    mSigmaOf g Rm = (match g with
      | .Steel => 0.35 / 1000 * Rm - 0.1
      | .SteelCast => 0.35 / 1000 * Rm + 0.05
      | .AlWrought => 1 / 1000 * Rm - 0.04) ∧
    pRAMOf g Rm E Sa Sm ea = pRAM (mSigmaOf g Rm) E Sa Sm ea := by
  refine ⟨?_, rfl⟩
  cases g <;> simp only [mSigmaOf, mSigma_eq, consts] <;> norm_num <;> ring

/-! ## damage accumulation and lifetime (`DamageCalculatorPRAM`) -/

/-- damages are non-negative for non-negative parameter values (`P = 0`: the code has `N = ∞`, `D = 0`;
over ℝ `0 ^ (1/d) = 0` and `1 / 0 = 0` give `D = 0` as well) -/
theorem rowD_nonneg (c : PramCurve ℝ) (h : c.Adm) (r : Row ℝ) (hP : 0 ≤ r.P) : 0 ≤ rowD c r := by
  have hN : 0 ≤ pramN c r.P := by
    rcases eq_or_lt_of_le hP with h0 | h0
    · have hz : (0:ℝ) / c.PZ = 0 := zero_div _
      rw [← h0, pramN_eq, hz]
      split_ifs <;> exact mul_nonneg (by norm_num) (Real.rpow_nonneg le_rfl _)
    · exact (pramN_pos h h0).le
  simp only [rowD, lit_1, lit_05]
  split_ifs <;> positivity

/-- **Early failure index** (a statement about lists of damages): `_n_cycles_until_damage`
(`searchsorted(cumsum(D), 1)`) is the first index whose prefix sum reaches one: all earlier prefix sums
are below one, and if it is an index of the table its own prefix sum is at least one.  With non-negative
damages it is an index of the table exactly when the total damage of the two passes reaches one. -/
theorem early_failure_index (ds : List (ℝ × Nat)) :
    let r := lifetimeOfDamages ds
    let D := ds.map (·.1)
    r.idx ≤ ds.length ∧
    (∀ j, j < r.idx → (D.take (j + 1)).sum < 1) ∧
    (r.idx < ds.length → 1 ≤ (D.take (r.idx + 1)).sum) ∧
    (r.early = true ↔ r.idx < ds.length) ∧
    ((∀ p ∈ ds, 0 ≤ p.1) → (r.early = true ↔ 1 ≤ D.sum)) ∧
    (r.early = true → r.nSeq = 0 ∧ r.nCycles = (r.idx : ℝ)) := by
  intro r D
  have hlen : D.length = ds.length := by simp [D]
  have hidx : r.idx = firstGe 1 (cumsumFrom 0 D) := by
    simp only [r, lifetimeOfDamages, lit_1, lit_0, D]
  have hearly : r.early = true ↔ r.idx < ds.length := by
    simp only [r, lifetimeOfDamages, decide_eq_true_eq]
  refine ⟨?_, ?_, ?_, hearly, ?_, ?_⟩
  · rw [hidx, ← hlen]; exact firstGe_cumsum_le 1 D 0
  · intro j hj
    have := firstGe_cumsum_before 1 D 0 j (hidx ▸ hj)
    linarith
  · intro hj
    have := firstGe_cumsum_at 1 D 0 (by rw [← hidx, hlen]; exact hj)
    rw [← hidx] at this
    linarith
  · intro hnn
    have hD : ∀ d ∈ D, 0 ≤ d := by
      intro d hd
      obtain ⟨p, hp, rfl⟩ := List.mem_map.mp hd
      exact hnn p hp
    have := firstGe_cumsum_lt_iff 1 D 0 (by norm_num) hD
    rw [hearly, hidx, ← hlen, this, zero_add]
  · intro he
    have he' : decide (firstGe (1:ℝ) (cumsumFrom (0:ℝ) (ds.map (·.1))) < ds.length) = true := by
      simpa only [r, lifetimeOfDamages, lit_1, lit_0] using he
    constructor
    · simp only [r, lifetimeOfDamages, lit_1, lit_0, he', if_true]
    · simp only [r, lifetimeOfDamages, lit_1, lit_0, he', if_true, firstGeNum_eq]

/-- **Lifetime = literal accumulation.**  `D₁`, `D₂` are the damage sums of the first and second pass (a
half hysteresis enters with half its damage through `rowD`).  If the damage sum does not reach one within
the two recorded passes (`D₁ + D₂ < 1`) and the second pass damages at all (`D₂ > 0`; for `D₂ = 0` the code
returns `inf`), then `x = (1 − D₁)/D₂` is the unique `t` with `D₁ + t·D₂ = 1`, it is larger than one, the
damage accumulated after the first pass and `k` repetitions of the second stays below one exactly for
`k < x`, and the reported lifetime is `1 + x` passes, i.e. `(1 + x)·(number of hystereses of pass 2)`
cycles. -/
theorem lifetime_eq_accumulation (ds : List (ℝ × Nat))
    (hnn : ∀ p ∈ ds, 0 ≤ p.1) (hrun : ∀ p ∈ ds, p.2 = 1 ∨ p.2 = 2)
    (hlt : sumRun 1 ds + sumRun 2 ds < 1) (hD2 : 0 < sumRun 2 ds) :
    let r := lifetimeOfDamages ds
    let D₁ := sumRun 1 ds
    let D₂ := sumRun 2 ds
    r.early = false ∧ r.x = (1 - D₁) / D₂ ∧ D₁ + r.x * D₂ = 1 ∧ (∀ t : ℝ, D₁ + t * D₂ = 1 → t = r.x) ∧
    1 < r.x ∧ (∀ k : ℕ, D₁ + k * D₂ < 1 ↔ (k : ℝ) < r.x) ∧
    r.nSeq = 1 + r.x ∧
    r.nCycles = (1 + r.x) * ((ds.filter (fun p => p.2 = 2)).length : ℝ) := by
  intro r D₁ D₂
  have hx : r.x = (1 - D₁) / D₂ := by simp only [r, lifetimeOfDamages, xOf_eq, D₁, D₂]
  have hne : D₂ ≠ 0 := ne_of_gt hD2
  have hnot : ¬ (r.early = true) := by
    rw [(early_failure_index ds).2.2.2.2.1 hnn, sumRun_split ds hrun]
    exact not_le.mpr hlt
  have hearly : r.early = false := by simpa using hnot
  have he' : decide (firstGe (1:ℝ) (cumsumFrom (0:ℝ) (ds.map (·.1))) < ds.length) = false := by
    simpa only [r, lifetimeOfDamages, lit_1, lit_0] using hearly
  refine ⟨hearly, hx, ?_, ?_, ?_, ?_, ?_, ?_⟩
  · rw [hx]; field_simp; ring
  · intro t ht
    rw [hx, eq_div_iff hne]; linarith
  · rw [hx, lt_div_iff₀ hD2]; linarith
  · intro k
    rw [hx, lt_div_iff₀ hD2]
    constructor <;> intro hk <;> linarith
  · simp only [r, lifetimeOfDamages, lit_1, lit_0, he', Bool.false_eq_true, if_false]
    ring
  · simp only [r, lifetimeOfDamages, lit_1, lit_0, he', Bool.false_eq_true, if_false, countRun_eq]
    ring

example : let ds : List (ℝ × Nat) := [(1/4, 1), (1/8, 2), (1/8, 2)]
    (∀ p ∈ ds, 0 ≤ p.1) ∧ (∀ p ∈ ds, p.2 = 1 ∨ p.2 = 2) ∧ sumRun 1 ds + sumRun 2 ds < 1 ∧ 0 < sumRun 2 ds := by
  simp only [sumRun, lit_0]
  norm_num

/-- **Partial** (same statement as `lifetime_eq_accumulation`, which keeps its name because `Proofs/Lemmas/Assessment.lean`
uses it).  Full statement of the clause: the reported numbers of passes / cycles equal the literal accumulation for EVERY
table.  The guard `hlt : D₁ + D₂ < 1` excludes exactly the tables whose damage sum reaches one within the two recorded
passes; for those see `lifetime_early_failure` (what the code reports) and `lifetime_vs_literal_passes` (where that differs
from the literal accumulation: open finding `early-failure-zero-repetitions`).  `hD2 : 0 < D₂`: for `D₂ = 0` the code
returns `inf`, see `zero_second_pass_damage_is_infinite`. -/
theorem lifetime_eq_accumulation_partial (ds : List (ℝ × Nat))
    (hnn : ∀ p ∈ ds, 0 ≤ p.1) (hrun : ∀ p ∈ ds, p.2 = 1 ∨ p.2 = 2)
    (hlt : sumRun 1 ds + sumRun 2 ds < 1) (hD2 : 0 < sumRun 2 ds) :
    let r := lifetimeOfDamages ds
    let D₁ := sumRun 1 ds
    let D₂ := sumRun 2 ds
    r.early = false ∧ r.x = (1 - D₁) / D₂ ∧ D₁ + r.x * D₂ = 1 ∧ (∀ t : ℝ, D₁ + t * D₂ = 1 → t = r.x) ∧
    1 < r.x ∧ (∀ k : ℕ, D₁ + k * D₂ < 1 ↔ (k : ℝ) < r.x) ∧
    r.nSeq = 1 + r.x ∧
    r.nCycles = (1 + r.x) * ((ds.filter (fun p => p.2 = 2)).length : ℝ) :=
  lifetime_eq_accumulation ds hnn hrun hlt hD2

/-- **Early failure** (`D₁ + D₂ ≥ 1`: the damage sum reaches one within the two recorded passes) - what the code reports:
the early-failure branch is taken, `_n_cycles_until_damage` is an index of the table and is the literal hysteresis count
(every shorter prefix of the recorded table stays below one, the prefix ending at this hysteresis reaches one),
`lifetime_n_cycles` is that count and `lifetime_n_times_load_sequence` is `0`. -/
theorem lifetime_early_failure (ds : List (ℝ × Nat))
    (hnn : ∀ p ∈ ds, 0 ≤ p.1) (hrun : ∀ p ∈ ds, p.2 = 1 ∨ p.2 = 2)
    (hge : 1 ≤ sumRun 1 ds + sumRun 2 ds) :
    let r := lifetimeOfDamages ds
    let D := ds.map (·.1)
    r.early = true ∧ r.idx < ds.length ∧ (∀ j, j < r.idx → (D.take (j + 1)).sum < 1) ∧
    1 ≤ (D.take (r.idx + 1)).sum ∧ r.nSeq = 0 ∧ r.nCycles = (r.idx : ℝ) := by
  intro r D
  obtain ⟨-, hbefore, hat, hiff, hsum, hres⟩ := early_failure_index ds
  have he : r.early = true := (hsum hnn).mpr (by rw [sumRun_split ds hrun]; exact hge)
  have hidx : r.idx < ds.length := hiff.mp he
  exact ⟨he, hidx, hbefore, hat hidx, (hres he).1, (hres he).2⟩

/-- The literal reading of the property text for the number of passes: the first pass once, then the second pass `t`
times (`t` real: a started pass counts with the fraction of its damage that is still bearable, exactly as the fractional
part of `x` in eq. (2.6-90)) until `D₁ + t·D₂ = 1`; the lifetime is `1 + t` passes. -/
noncomputable def Spec.literalPasses (D1 D2 : ℝ) : ℝ := 1 + (1 - D1) / D2

/-- **Code versus literal accumulation on the whole range `D₁ < 1`, `D₂ > 0`** (failure not within the first pass).
`Spec.literalPasses` is the unique solution of the accumulation equation and exceeds one.  If the two recorded passes stay
below one the code reports exactly it (and it exceeds two).  If the damage sum reaches one within the SECOND recorded pass
(`D₁ < 1 ≤ D₁ + D₂`) the literal value lies in `(1, 2]` but the code reports `0`: the clause "lifetime = literal
accumulation" is FALSE for the code there (open finding `early-failure-zero-repetitions`; the reported value jumps from
`2` to `0` at `D₁ + D₂ = 1`).  For `D₁ ≥ 1` (failure within the first pass) the property text does not say which
fraction of a pass is meant; the code's `0` (no complete pass) is taken as conforming (ASSUMPTIONS). -/
theorem lifetime_vs_literal_passes (ds : List (ℝ × Nat))
    (hnn : ∀ p ∈ ds, 0 ≤ p.1) (hrun : ∀ p ∈ ds, p.2 = 1 ∨ p.2 = 2)
    (hD1 : sumRun 1 ds < 1) (hD2 : 0 < sumRun 2 ds) :
    let r := lifetimeOfDamages ds
    let D₁ := sumRun 1 ds
    let D₂ := sumRun 2 ds
    let L := Spec.literalPasses D₁ D₂
    D₁ + (L - 1) * D₂ = 1 ∧ (∀ t : ℝ, D₁ + t * D₂ = 1 → 1 + t = L) ∧ 1 < L ∧
    (D₁ + D₂ < 1 → r.early = false ∧ r.nSeq = L ∧ 2 < L) ∧
    (1 ≤ D₁ + D₂ → r.early = true ∧ L ≤ 2 ∧ r.nSeq = 0 ∧ r.nSeq ≠ L) := by
  intro r D₁ D₂ L
  have hne : D₂ ≠ 0 := ne_of_gt hD2
  have hL : L = 1 + (1 - D₁) / D₂ := rfl
  have hpos : 0 < (1 - D₁) / D₂ := div_pos (by linarith) hD2
  have h1L : 1 < L := by rw [hL]; linarith
  refine ⟨?_, ?_, h1L, fun hlt => ?_, fun hge => ?_⟩
  · rw [hL]; field_simp; ring
  · intro t ht
    rw [hL]
    have : t = (1 - D₁) / D₂ := by rw [eq_div_iff hne]; linarith
    rw [this]
  · obtain ⟨he, hx, -, -, hx1, -, hs, -⟩ := lifetime_eq_accumulation ds hnn hrun hlt hD2
    refine ⟨he, ?_, ?_⟩
    · rw [hs, hx]; rfl
    · have : (1:ℝ) < (1 - D₁) / D₂ := by rw [← hx]; exact hx1
      rw [hL]; linarith
  · obtain ⟨he, -, -, -, hs, -⟩ := lifetime_early_failure ds hnn hrun hge
    have hle : (1 - D₁) / D₂ ≤ 1 := by rw [div_le_one hD2]; linarith
    refine ⟨he, by rw [hL]; linarith, hs, ?_⟩
    rw [hs]; exact ne_of_lt (by linarith)

/-- kernel-checked instance of the finding (the auditor's witness `D₁ = 1/2`, `D₂ = 3/4`): literally `1 + 2/3` passes,
the code reports `0` passes and `1` cycle (the index of the failing hysteresis). -/
theorem lifetime_early_pass2_refuted :
    let ds : List (ℝ × Nat) := [(1/2, 1), (3/4, 2)]
    Spec.literalPasses (sumRun 1 ds) (sumRun 2 ds) = 5/3 ∧ (lifetimeOfDamages ds).nSeq = 0 ∧
    (lifetimeOfDamages ds).nCycles = 1 ∧ (lifetimeOfDamages ds).nSeq ≠ Spec.literalPasses (sumRun 1 ds) (sumRun 2 ds) := by
  intro ds
  have h1 : sumRun 1 ds = 1/2 := by simp only [ds, sumRun, lit_0]; norm_num
  have h2 : sumRun 2 ds = 3/4 := by simp only [ds, sumRun, lit_0]; norm_num
  have hnn : ∀ p ∈ ds, 0 ≤ p.1 := by
    intro p hp
    simp only [ds, List.mem_cons, List.mem_nil_iff, or_false] at hp
    rcases hp with rfl | rfl <;> norm_num
  have hrun : ∀ p ∈ ds, p.2 = 1 ∨ p.2 = 2 := by simp [ds]
  have H := lifetime_vs_literal_passes ds hnn hrun (by rw [h1]; norm_num) (by rw [h2]; norm_num)
  obtain ⟨-, -, hs, hne⟩ := H.2.2.2.2 (by rw [h1, h2]; norm_num)
  obtain ⟨-, hidx, hbefore, -, -, hc⟩ := lifetime_early_failure ds hnn hrun (by rw [h1, h2]; norm_num)
  have hL : Spec.literalPasses (sumRun 1 ds) (sumRun 2 ds) = 5/3 := by rw [h1, h2, Spec.literalPasses]; norm_num
  refine ⟨hL, hs, ?_, hne⟩
  -- the failing hysteresis is the second one (index 1): index 0 would need 1/2 ≥ 1, index < 2
  have hlen : ds.length = 2 := rfl
  have hi : (lifetimeOfDamages ds).idx = 1 := by
    have hlt : (lifetimeOfDamages ds).idx < 2 := hlen ▸ hidx
    rcases Nat.lt_or_ge 0 (lifetimeOfDamages ds).idx with hpos | hz
    · omega
    · exfalso
      have h0 : (lifetimeOfDamages ds).idx = 0 := by omega
      obtain ⟨-, -, -, hat, -, -⟩ := lifetime_early_failure ds hnn hrun (by rw [h1, h2]; norm_num)
      rw [h0] at hat
      norm_num [ds] at hat
  rw [hc, hi]; norm_num

/-- **The two cycle conventions of the code.**  In the regular case the code reports `(1 + x)·n₂` cycles (eq. (2.6-91):
passes times the number `n₂ = H₀` of hystereses of the repeated pass - the reading the guideline's worked example 2.7.1
pins: 14618 cycles for `n₁ = 3`, `n₂ = 4`, `1 + x = 3654.5`), NOT the count `n₁ + x·n₂` of the hystereses literally
accumulated; the two differ by the constant `n₂ − n₁` and agree exactly when both passes recorded the same number of
hystereses.  (In the early-failure case the code reports the hysteresis count, `lifetime_early_failure`.) -/
theorem lifetime_cycles_convention (ds : List (ℝ × Nat))
    (hnn : ∀ p ∈ ds, 0 ≤ p.1) (hrun : ∀ p ∈ ds, p.2 = 1 ∨ p.2 = 2)
    (hlt : sumRun 1 ds + sumRun 2 ds < 1) (hD2 : 0 < sumRun 2 ds) :
    let r := lifetimeOfDamages ds
    let n₁ : ℝ := ((ds.filter (fun p => p.2 = 1)).length : ℝ)
    let n₂ : ℝ := ((ds.filter (fun p => p.2 = 2)).length : ℝ)
    r.nCycles = r.nSeq * n₂ ∧ r.nCycles - (n₁ + r.x * n₂) = n₂ - n₁ ∧ (r.nCycles = n₁ + r.x * n₂ ↔ n₁ = n₂) := by
  intro r n₁ n₂
  obtain ⟨-, -, -, -, -, -, hs, hc⟩ := lifetime_eq_accumulation ds hnn hrun hlt hD2
  have hc' : r.nCycles = (1 + r.x) * n₂ := hc
  refine ⟨by rw [hc', hs], by rw [hc']; ring, ?_⟩
  rw [hc']
  constructor <;> intro h <;> linarith

example : let ds : List (ℝ × Nat) := [(1/8, 1), (1/8, 1), (1/8, 1), (1/8, 2)]
    (∀ p ∈ ds, 0 ≤ p.1) ∧ (∀ p ∈ ds, p.2 = 1 ∨ p.2 = 2) ∧ sumRun 1 ds + sumRun 2 ds < 1 ∧ 0 < sumRun 2 ds ∧
    ((ds.filter (fun p => p.2 = 1)).length : ℝ) ≠ ((ds.filter (fun p => p.2 = 2)).length : ℝ) := by
  simp only [sumRun, lit_0]
  norm_num

/-- a run whose damage sum is zero has no damaging hysteresis -/
theorem sumRun_eq_zero (run : Nat) : ∀ ds : List (ℝ × Nat), (∀ p ∈ ds, 0 ≤ p.1) → sumRun run ds = 0 →
    ∀ p ∈ ds, p.2 = run → p.1 = 0
  | [], _, _ => by simp
  | (d, q) :: rest, hnn, hs => by
    intro p hp hr
    have hd : 0 ≤ d := hnn (d, q) List.mem_cons_self
    have hnn' : ∀ p ∈ rest, 0 ≤ p.1 := fun p hp => hnn p (List.mem_cons_of_mem _ hp)
    have hrest := sumRun_nonneg run rest hnn'
    simp only [sumRun] at hs
    by_cases hq : q = run
    · rw [if_pos hq] at hs
      rcases List.mem_cons.mp hp with rfl | hp'
      · show d = 0; linarith
      · exact sumRun_eq_zero run rest hnn' (by linarith) p hp' hr
    · rw [if_neg hq] at hs
      rcases List.mem_cons.mp hp with rfl | hp'
      · exact absurd hr hq
      · exact sumRun_eq_zero run rest hnn' hs p hp' hr

/-- the same for the calculator fed with a collective: non-negative `P_RAM` values and run indices 1, 2 -/
theorem lifetime_eq_accumulation_rows (c : PramCurve ℝ) (h : c.Adm) (rows : List (Row ℝ))
    (hP : ∀ r ∈ rows, 0 ≤ r.P) (hrun : ∀ r ∈ rows, r.run = 1 ∨ r.run = 2) :
    let ds := rows.map fun r => (rowD c r, r.run)
    damagePRAM c rows = lifetimeOfDamages ds ∧ (∀ p ∈ ds, 0 ≤ p.1) ∧ (∀ p ∈ ds, p.2 = 1 ∨ p.2 = 2) := by
  intro ds
  refine ⟨rfl, ?_, ?_⟩
  · intro p hp
    obtain ⟨r, hr, rfl⟩ := List.mem_map.mp hp
    exact rowD_nonneg c h r (hP r hr)
  · intro p hp
    obtain ⟨r, hr, rfl⟩ := List.mem_map.mp hp
    exact hrun r hr

/-- kernel-checked instance: half a damage in pass 1, one hysteresis with damage 1/8 in pass 2: four
repetitions of pass 2 are needed, the lifetime is five passes = five cycles -/
example : (lifetimeOfDamages [((1/2 : ℝ), 1), (1/8, 2)]).x = 4 ∧
    (lifetimeOfDamages [((1/2 : ℝ), 1), (1/8, 2)]).nSeq = 5 ∧
    (lifetimeOfDamages [((1/2 : ℝ), 1), (1/8, 2)]).nCycles = 5 := by
  have h := lifetime_eq_accumulation [((1/2 : ℝ), 1), (1/8, 2)]
    (by simp) (by simp) (by simp only [sumRun, lit_0]; norm_num) (by simp only [sumRun, lit_0]; norm_num)
  simp only [sumRun, lit_0] at h
  obtain ⟨-, hx, -, -, -, -, hs, hc⟩ := h
  norm_num at hx hs hc
  refine ⟨hx, ?_, ?_⟩
  · rw [hs, hx]; norm_num
  · rw [hc, hx]; norm_num

/-- `is_life_infinite` (largest `P_RAM` of the second pass `≤ P_RAM_D`) holds exactly when the component
Wöhler curve gives infinite life for every hysteresis of the second pass. -/
theorem isLifeInfinite_iff (c : PramCurve ℝ) (rows : List (Row ℝ)) :
    isLifeInfinite c rows = true ↔ ∀ r ∈ rows, r.run = 2 → pramCalcN c r.P = .inf := by
  simp only [isLifeInfinite, List.all_eq_true, Bool.or_eq_true, bne_iff_ne, ne_eq, decide_eq_true_eq]
  constructor
  · intro h r hr h2
    rcases h r hr with hne | hle
    · exact absurd h2 hne
    · simp only [pramCalcN, if_neg (not_lt.mpr hle)]
  · intro h r hr
    by_cases h2 : r.run = 2
    · right
      by_contra hcon
      have := h r hr h2
      simp only [pramCalcN, if_pos (not_le.mp hcon)] at this
      cases this
    · left; exact h2

/-- **`D₂ = 0`** (the guard `hD2` of the theorems above; over ℝ the model's `x/0 = 0` would give one pass, the code - and
the model at `Float` - gives `inf`): no damage in the second pass means that every hysteresis of the second pass has
`P_RAM = 0`, hence the verdict `is_life_infinite` is true: the lifetime numbers of such a table are never the verdict. -/
theorem zero_second_pass_damage_is_infinite (c : PramCurve ℝ) (h : c.Adm) (rows : List (Row ℝ))
    (hP : ∀ r ∈ rows, 0 ≤ r.P) (hD2 : sumRun 2 (rows.map fun r => (rowD c r, r.run)) = 0) :
    (∀ r ∈ rows, r.run = 2 → r.P = 0) ∧ isLifeInfinite c rows = true := by
  have hnn : ∀ p ∈ rows.map (fun r => (rowD c r, r.run)), 0 ≤ p.1 := by
    intro p hp
    obtain ⟨r, hr, rfl⟩ := List.mem_map.mp hp
    exact rowD_nonneg c h r (hP r hr)
  have hz : ∀ r ∈ rows, r.run = 2 → r.P = 0 := by
    intro r hr h2
    have hd := sumRun_eq_zero 2 _ hnn hD2 (rowD c r, r.run) (List.mem_map.mpr ⟨r, hr, rfl⟩) h2
    rcases eq_or_lt_of_le (hP r hr) with h0 | hpos
    · exact h0.symm
    · exfalso
      have hN := pramN_pos h hpos
      have : 0 < rowD c r := by
        simp only [rowD, lit_1, lit_05]
        split_ifs <;> positivity
      have hd' : rowD c r = 0 := hd
      linarith
  refine ⟨hz, (isLifeInfinite_iff c rows).mpr fun r hr h2 => ?_⟩
  have : r.P ≤ c.PD := by rw [hz r hr h2]; exact h.1.le
  simp only [pramCalcN, if_neg (not_lt.mpr this)]

/-! ## several assessment points in one table -/

/-- cutting the flat table of the recorder (hysteresis blocks of `n` rows each) gives the blocks back -/
theorem chunk_flatten {β : Type} (n : Nat) (hn : 0 < n) : ∀ (blocks : List (List β)) (fuel : Nat),
    (∀ b ∈ blocks, b.length = n) → blocks.length ≤ fuel → chunk n fuel blocks.flatten = blocks
  | [], fuel, _, _ => by cases fuel <;> simp [chunk]
  | b :: bs, 0, _, hf => by simp at hf
  | b :: bs, fuel+1, hb, hf => by
    have hbl : b.length = n := hb b List.mem_cons_self
    have hfl : (b :: bs).flatten = b ++ bs.flatten := by simp
    rw [hfl]
    have ih := chunk_flatten n hn bs fuel (fun c hc => hb c (List.mem_cons_of_mem _ hc))
      (by simp only [List.length_cons] at hf; omega)
    match hl : b ++ bs.flatten with
    | [] =>
      exfalso
      have := congrArg List.length hl
      simp only [List.length_append, List.length_nil] at this
      omega
    | x :: xs =>
      simp only [chunk]
      rw [← hl, List.take_left' hbl, List.drop_left' hbl, ih]

theorem length_le_length_flatten {β : Type} (n : Nat) (hn : 0 < n) : ∀ (blocks : List (List β)),
    (∀ b ∈ blocks, b.length = n) → blocks.length ≤ blocks.flatten.length
  | [], _ => by simp
  | b :: bs, hb => by
    have := length_le_length_flatten n hn bs (fun c hc => hb c (List.mem_cons_of_mem _ hc))
    have hbl : b.length = n := hb b List.mem_cons_self
    simp only [List.flatten_cons, List.length_append, List.length_cons]
    omega

/-- no hysteresis of a point is lost: point `k < n` has one row in every block -/
theorem pointRows_length {β : Type} (n k : Nat) (hk : k < n) : ∀ (blocks : List (List β)),
    (∀ b ∈ blocks, b.length = n) → (pointRows k blocks).length = blocks.length
  | [], _ => by simp [pointRows]
  | b :: bs, hb => by
    have ih := pointRows_length n k hk bs (fun c hc => hb c (List.mem_cons_of_mem _ hc))
    have hbl : b.length = n := hb b List.mem_cons_self
    have hsome : b[k]? = some (b[k]'(by omega)) := List.getElem?_eq_getElem (by omega)
    simp only [pointRows, List.filterMap_cons, hsome, List.length_cons] at ih ⊢
    omega

/-- **A table with several assessment points is assessed point by point**: for the flat table the recorder delivers
(hysteresis blocks with one row per point) the result for point `k` is `DamageCalculatorPRAM`'s result for the table that
holds the `k`-th row of every block, with the `k`-th curve - every statement above about one point therefore holds for
every point of a multi-point table, whatever the other points are. -/
theorem damagePRAMBatch_eq_single (curves : List (PramCurve ℝ)) (blocks : List (List (Row ℝ)))
    (hn : 0 < curves.length) (hb : ∀ b ∈ blocks, b.length = curves.length) :
    damagePRAMBatch curves blocks.flatten =
      curves.zipIdx.map (fun ck => (damagePRAM ck.1 (pointRows ck.2 blocks), isLifeInfinite ck.1 (pointRows ck.2 blocks))) ∧
    (damagePRAMBatch curves blocks.flatten).length = curves.length := by
  have hc := chunk_flatten curves.length hn blocks blocks.flatten.length hb
    (length_le_length_flatten curves.length hn blocks hb)
  constructor
  · simp only [damagePRAMBatch, hc]
  · simp only [damagePRAMBatch, List.length_map, List.length_zipIdx]

example : damagePRAMBatch [(⟨-1, -1, 1, 1/2⟩ : PramCurve ℝ), ⟨-1, -1, 2, 1⟩]
      ([[⟨1000, true, 1⟩, ⟨500, true, 1⟩], [⟨250, false, 2⟩, ⟨4000, true, 2⟩]] : List (List (Row ℝ))).flatten =
    [(damagePRAM ⟨-1, -1, 1, 1/2⟩ [⟨1000, true, 1⟩, ⟨250, false, 2⟩], isLifeInfinite (⟨-1, -1, 1, 1/2⟩ : PramCurve ℝ) [⟨1000, true, 1⟩, ⟨250, false, 2⟩]),
     (damagePRAM ⟨-1, -1, 2, 1⟩ [⟨500, true, 1⟩, ⟨4000, true, 2⟩], isLifeInfinite (⟨-1, -1, 2, 1⟩ : PramCurve ℝ) [⟨500, true, 1⟩, ⟨4000, true, 2⟩])] := by
  rw [(damagePRAMBatch_eq_single _ _ (by simp) (by simp)).1]
  simp [List.zipIdx, pointRows]

/-! ## load safety factors -/

/-- `P_L` of the guideline: 2.5 % or 50 % -/
inductive Spec.PL | p2_5 | p50

noncomputable def Spec.PL.val : Spec.PL → ℝ
  | .p2_5 => 2.5
  | .p50 => 50

/-- eq. (2.3-4) / (2.3-6) -/
noncomputable def Spec.alpha (beta : ℝ) (pl : Spec.PL) (s : ℝ) : ℝ :=
  match pl with
  | .p2_5 => (0.7 * beta - 2) * s
  | .p50 => 0.7 * beta * s

/-- the guideline's safety indices for the tabulated failure probabilities -/
theorem getBeta_table :
    getBeta (1.0e-7 : ℝ) = some 5.2 ∧ getBeta (1.0e-6 : ℝ) = some 4.75 ∧ getBeta (1.0e-5 : ℝ) = some 4.27 ∧
    getBeta (7.2e-5 : ℝ) = some 3.8 ∧ getBeta (1.0e-3 : ℝ) = some 3.09 ∧ getBeta (2.3e-1 : ℝ) = some 0.739 ∧
    getBeta (0.5 : ℝ) = some 0 ∧ getBeta (0.3 : ℝ) = none := by
  refine ⟨?_, ?_, ?_, ?_, ?_, ?_, ?_, ?_⟩ <;> simp only [getBeta, betaTable, getBetaIn] <;>
    norm_num [isclose_num]

/-- The three `gamma_L` bodies are the guideline formulas (2.3-4)…(2.3-8): normal
`(L_max + α_L)/L_max`, log-normal `max(1, 10^α)`, blanket `1.1` / `1`. -/
theorem gammaL_formulas (PA beta s Lmax : ℝ) (pl : Spec.PL) (hb : getBeta PA = some beta) :
    gammaLNormal PA pl.val s Lmax = some ((Lmax + Spec.alpha beta pl s) / Lmax) ∧
    gammaLLognormal PA pl.val s = some (max 1 ((10:ℝ) ^ Spec.alpha beta pl s)) ∧
    gammaLBlanket pl.val = some (match pl with | .p2_5 => 1.1 | .p50 => 1) ∧
    gammaLBlanket (10:ℝ) = none := by
  have ha : alphaL beta pl.val s = Spec.alpha beta pl s := by
    cases pl <;> simp only [alphaL, Spec.PL.val, Spec.alpha] <;> norm_num [isclose_num]
  refine ⟨?_, ?_, ?_, ?_⟩
  · simp only [gammaLNormal, hb, Option.map_some, ha]
  · simp only [gammaLLognormal, hb, Option.map_some, ha, transc_pow, lit_1]
    congr 1
    norm_num
    rcases lt_or_ge 1 ((10:ℝ) ^ Spec.alpha beta pl s) with hlt | hge
    · rw [if_pos hlt, max_eq_right hlt.le]
    · rw [if_neg (not_lt.mpr hge), max_eq_left hge]
  · cases pl <;> simp only [gammaLBlanket, Spec.PL.val] <;> norm_num [isclose_num]
  · simp only [gammaLBlanket]; norm_num [isclose_num]

/-- `maxAbsFrom` keeps a running maximum of absolute values -/
theorem maxAbsFrom_spec : ∀ (l : List ℝ) (m : ℝ),
    m ≤ maxAbsFrom m l ∧ (∀ x ∈ l, |x| ≤ maxAbsFrom m l) ∧ (maxAbsFrom m l = m ∨ ∃ x ∈ l, maxAbsFrom m l = |x|)
  | [], m => by simp [maxAbsFrom]
  | y :: ys, m => by
    simp only [maxAbsFrom, transc_abs]
    obtain ⟨h1, h2, h3⟩ := maxAbsFrom_spec ys (if m < |y| then |y| else m)
    have hm : m ≤ (if m < |y| then |y| else m) := by split_ifs with h <;> linarith
    have hy : |y| ≤ (if m < |y| then |y| else m) := by split_ifs with h <;> linarith
    refine ⟨le_trans hm h1, ?_, ?_⟩
    · intro x hx
      rcases List.mem_cons.mp hx with rfl | hx'
      · exact le_trans hy h1
      · exact h2 x hx'
    · rcases h3 with h3 | ⟨x, hx, h3⟩
      · by_cases h : m < |y|
        · right; exact ⟨y, List.mem_cons_self, by rw [h3, if_pos h]⟩
        · left; rw [h3, if_neg h]
      · right; exact ⟨x, List.mem_cons_of_mem _ hx, h3⟩

/-- `maximum_absolute_load` of a plain load series (`max(abs(load))`) is the greatest absolute load: an upper bound of all
`|L_i|` that is attained. -/
theorem maxAbs_spec (l : List ℝ) (hne : l ≠ []) :
    (∀ x ∈ l, |x| ≤ maxAbs l) ∧ ∃ x ∈ l, maxAbs l = |x| := by
  match l, hne with
  | y :: ys, _ =>
    simp only [maxAbs, transc_abs]
    obtain ⟨h1, h2, h3⟩ := maxAbsFrom_spec ys |y|
    refine ⟨fun x hx => ?_, ?_⟩
    · rcases List.mem_cons.mp hx with rfl | hx'
      · exact h1
      · exact h2 x hx'
    · rcases h3 with h3 | ⟨x, hx, h3⟩
      · exact ⟨y, List.mem_cons_self, h3⟩
      · exact ⟨x, List.mem_cons_of_mem _ hx, h3⟩

/-- `gamma_L` of the normal case with `L_max` computed from the load series (one assessment point, or one node of a mesh
with `max_load_independently_for_nodes`, or all values of the mesh without it): eq. (2.3-5) with the greatest absolute
load. -/
theorem gammaL_normal_of_loads (PA beta s : ℝ) (pl : Spec.PL) (loads : List ℝ) (hne : loads ≠ [])
    (hb : getBeta PA = some beta) :
    ∃ Lmax, (∀ x ∈ loads, |x| ≤ Lmax) ∧ (∃ x ∈ loads, Lmax = |x|) ∧
      gammaLNormal PA pl.val s (maxAbs loads) = some ((Lmax + Spec.alpha beta pl s) / Lmax) :=
  ⟨maxAbs loads, (maxAbs_spec loads hne).1, (maxAbs_spec loads hne).2, (gammaL_formulas PA beta s (maxAbs loads) pl hb).1⟩

example : maxAbs ([100, -300, 120] : List ℝ) = 300 := by
  simp only [maxAbs, maxAbsFrom, transc_abs]; norm_num [abs_of_nonneg, abs_of_neg]

/-- `maximum_absolute_load` of a mesh without `max_load_independently_for_nodes` (`abs().groupby("node_id").max().max()`)
is the greatest absolute load over all nodes and load steps; with it, node `k` gets `maxAbs` of its own history
(`maxAbs_spec`). -/
theorem maxAbsMesh_spec (cols : List (List ℝ)) (hne : cols ≠ []) (hcol : ∀ c ∈ cols, c ≠ []) :
    (∀ c ∈ cols, ∀ x ∈ c, |x| ≤ maxAbsMesh cols) ∧ (∃ c ∈ cols, ∃ x ∈ c, maxAbsMesh cols = |x|) ∧
    (maxAbsPerNode cols).length = cols.length := by
  have hne' : cols.map maxAbs ≠ [] := by simpa using hne
  obtain ⟨hub, m, hm, hM⟩ := maxAbs_spec (cols.map maxAbs) hne'
  have hnonneg : ∀ c ∈ cols, 0 ≤ maxAbs c := by
    intro c hc
    obtain ⟨x, -, hx⟩ := (maxAbs_spec c (hcol c hc)).2
    rw [hx]; exact abs_nonneg x
  refine ⟨fun c hc x hx => ?_, ?_, by simp [maxAbsPerNode]⟩
  · have h1 := (maxAbs_spec c (hcol c hc)).1 x hx
    have h2 := hub (maxAbs c) (List.mem_map.mpr ⟨c, hc, rfl⟩)
    rw [abs_of_nonneg (hnonneg c hc)] at h2
    exact le_trans h1 h2
  · obtain ⟨c, hc, rfl⟩ := List.mem_map.mp hm
    obtain ⟨x, hx, hx'⟩ := (maxAbs_spec c (hcol c hc)).2
    refine ⟨c, hc, x, hx, ?_⟩
    show maxAbs (cols.map maxAbs) = |x|
    rw [hM, abs_of_nonneg (hnonneg c hc), hx']

/-! ## safety index -/

/-- **Partial.**  Full statement: `compute_beta P_A = −Φ⁻¹(P_A)` for the standard normal distribution
function `Φ` and every `P_A ∈ (0, 0.5]`.  Proved: for ANY strictly increasing `Φ`, the function the code
hands to the root finder, `x ↦ |Φ(x) − P_A|`, vanishes exactly at the solutions of `Φ(x) = P_A`, there is at most
one, and for a root `x` the returned value is `β = −x`; with the symmetry `Φ(−x) = 1 − Φ(x)` this gives
`Φ(β) = 1 − P_A` and `β ≥ 0` for `P_A ≤ 1/2`.  Missing: that the `x` the code obtains IS the root for the standard
normal `Φ`.  The code before the repair /repo commit 763ab65 ran `scipy.optimize.root` (hybrid
Powell from `x₀ = −0.6`) on that non-smooth residual, which does NOT return a root for every `P_A ∈ (0, 0.5]`
(`RuntimeError` at `P_A = 0.4915868354632816`: finding `beta-root-search-fails`); the repaired code (the one modelled)
takes `scipy.stats.norm.ppf(P_A)`.  That this special-function routine is `Φ⁻¹` is a runtime fact, measured by the
correspondence check against an independent quantile. -/
theorem beta_is_neg_quantile_partial (Φ : ℝ → ℝ) (hΦ : StrictMono Φ) (PA x : ℝ) :
    (|Φ x - PA| = 0 ↔ Φ x = PA) ∧
    (Φ x = PA → (∀ y, Φ y = PA → y = x) ∧ betaOfRoot x = -x ∧
      ((∀ t, Φ (-t) = 1 - Φ t) → Φ (betaOfRoot x) = 1 - PA ∧ (PA ≤ 1 / 2 → 0 ≤ betaOfRoot x))) := by
  have hb : betaOfRoot x = -x := by simp only [betaOfRoot, lit_1, div_one]
  refine ⟨by rw [abs_eq_zero, sub_eq_zero], fun hx => ⟨fun y hy => hΦ.injective (hy.trans hx.symm), hb, fun hsym => ?_⟩⟩
  rw [hb, hsym x, hx]
  refine ⟨rfl, fun hPA => ?_⟩
  by_contra hcon
  have hxpos : 0 < x := by linarith
  have h0 : Φ 0 = 1 / 2 := by have := hsym 0; rw [neg_zero] at this; linarith
  have := hΦ hxpos
  linarith

example : StrictMono (fun x : ℝ => x / 4 + 1 / 2) ∧ ∀ t : ℝ, (fun x : ℝ => x / 4 + 1 / 2) (-t) = 1 - (fun x : ℝ => x / 4 + 1 / 2) t := by
  constructor
  · intro a b hab; simp only; linarith
  · intro t; simp only; ring

end PylifeVerif.C09
