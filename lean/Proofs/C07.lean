/-
C07 — the binned notch law is the wrapped law sampled at the upper class edge.

Theorems about `Model/Notch.lean` (section `binned`) over an arbitrary linearly ordered field `α`
(so in particular over ℚ and ℝ).  Throughout: `n ≥ 1` bins, maximum load `maxL > 0`, a table of `m ≥ 1` classes
(`m = n`: primary branch, range `maxL`; `m = 2n`: secondary branch, range `2·maxL`), `law` the wrapped law's
stress or strain as a function of the load (arbitrary unless stated).  `binned n maxL m law x = none` models the
`ValueError` of the code.  What the code rejects and the theorems therefore exclude: `number_of_bins = 0`
(division by zero), a non-positive maximum (edges not increasing: `searchsorted` precondition).

Per-point tables: `lookupMulti` is the per-point look-up as REPAIRED by /repo commit 3047e0d
(every point selects the class in its own column and is checked against its own range): `binned_multi_eq_single` and
`binned_multi_out_of_range` hold for EVERY per-point Series.  `lookupMultiFirst` is the code before the repair (class
and range check of the first point for all points); for it the property fails
(`first_point_selection_ignores_range_of_other_points`, `first_point_selection_wrong_class`) and only the partial
statement for proportional loads holds (`binned_multi_first_point_eq_single_partial`).
The hypotheses "odd, monotone wrapped law" of the consequence clauses are discharged for the extended Neuber law in
`Proofs/C07Neuber.lean`.
-/
import Proofs.Lemmas.Binned

set_option linter.unusedSectionVars false

namespace PylifeVerif.C07
open PylifeVerif.Notch

variable {α : Type} [Field α] [LinearOrder α] [IsStrictOrderedRing α]

/-- **Upper-edge rule.**  For every load inside the initialised range, `|x| ≤ edge m`, the look-up succeeds and returns
`sign x · law(eᵢ)` for the class `i ∈ 1..m` with `eᵢ₋₁ < |x| ≤ eᵢ` (for `x = 0`: class 1, `e₀ = 0 = |x|`);
consecutive edges are `maxL / n` apart, `e_n = maxL`, `e_2n = 2·maxL`. -/
theorem binned_upper_edge {n : ℕ} (hn : 0 < n) {maxL : α} (hM : 0 < maxL) {m : ℕ} (hm : 1 ≤ m) (law : α → α)
    (x : α) (hx : |x| ≤ edge n maxL m) :
    ∃ i, 1 ≤ i ∧ i ≤ m ∧
      (edge n maxL (i - 1) < |x| ∨ (x = 0 ∧ i = 1)) ∧ |x| ≤ edge n maxL i ∧
      edge n maxL i - edge n maxL (i - 1) = maxL / n ∧
      binned n maxL m law x = some (signM x * law (edge n maxL i)) := by
  obtain ⟨i, hi1, him, hle, hge, hlt⟩ := exists_class hn hM hm (abs_nonneg x) hx
  refine ⟨i, hi1, him, ?_, hle, ?_, ?_⟩
  · rcases Nat.eq_or_lt_of_le hi1 with h1 | h1
    · rcases eq_or_ne x 0 with h0 | h0
      · exact Or.inr ⟨h0, h1.symm⟩
      · left; rw [← h1, Nat.sub_self, edge_zero]; exact abs_pos.mpr h0
    · exact Or.inl (hlt (i - 1) (by omega) (by omega))
  · obtain ⟨k, rfl⟩ : ∃ k, i = k + 1 := ⟨i - 1, by omega⟩
    rw [Nat.add_sub_cancel]; exact edge_succ_sub hn maxL k
  · rw [binned, lookup, absM_eq, lookupAbs_table_some law hi1 him hle hlt]; rfl

/-- the ranges: the primary table (`m = n`) ends at `maxL`, the secondary (`m = 2n`) at `2·maxL` -/
theorem binned_range {n : ℕ} (hn : 0 < n) (maxL : α) :
    edge n maxL n = maxL ∧ edge n maxL (2 * n) = 2 * maxL := ⟨edge_top hn maxL, edge_two_top hn maxL⟩

example : ∃ i, 1 ≤ i ∧ i ≤ 3 ∧ binned 3 (3 : ℚ) 3 (fun e => 10 * e) (-1.5) = some (signM (-1.5 : ℚ) * (10 * edge 3 3 i)) := by
  obtain ⟨i, h1, h2, _, _, _, h⟩ := binned_upper_edge (n := 3) (by norm_num) (maxL := (3 : ℚ)) (by norm_num)
    (m := 3) (by norm_num) (fun e => 10 * e) (-1.5) (by rw [edge_top (by norm_num)]; norm_num [abs_le])
  exact ⟨i, h1, h2, h⟩

/-- **On an edge the edge's own value** (not the next class): `x = ± eᵢ` gives `± law(eᵢ)`. -/
theorem binned_on_edge {n : ℕ} (hn : 0 < n) {maxL : α} (hM : 0 < maxL) {m : ℕ} (law : α → α)
    {i : ℕ} (hi1 : 1 ≤ i) (him : i ≤ m) :
    binned n maxL m law (edge n maxL i) = some (law (edge n maxL i)) ∧
    binned n maxL m law (-edge n maxL i) = some (-law (edge n maxL i)) := by
  have hmono := edge_strictMono hn hM
  have hpos : 0 < edge n maxL i := by rw [← edge_zero n maxL]; exact hmono (by omega)
  have hlk : lookupAbs (table n maxL m law) (edge n maxL i) = some (law (edge n maxL i)) :=
    lookupAbs_table_some law hi1 him le_rfl (fun j _ hji => hmono hji)
  constructor
  · rw [binned, lookup, absM_eq, abs_of_pos hpos, hlk, signM_pos hpos]; simp
  · rw [binned, lookup, absM_eq, abs_neg, abs_of_pos hpos, hlk, signM_neg (neg_neg_of_pos hpos)]; simp

/-- **Zero load**: class 1 with sign 0, i.e. the value `0 · law(e₁) = 0`. -/
theorem binned_zero {n : ℕ} (hn : 0 < n) {maxL : α} (hM : 0 < maxL) {m : ℕ} (hm : 1 ≤ m) (law : α → α) :
    binned n maxL m law 0 = some 0 := by
  have hmono := edge_strictMono hn hM
  have hpos : (0 : α) ≤ edge n maxL 1 := by rw [← edge_zero n maxL]; exact (hmono (by omega)).le
  rw [binned, lookup, absM_eq, abs_zero,
    lookupAbs_table_some law (le_refl 1) hm hpos (fun j h1 h2 => by omega), signM_zero]
  simp

/-- **Out of range ⇒ error, never a value**, and conversely every load inside the range gets a value:
the look-up fails exactly for `|x| > edge m` (`> maxL` on the primary, `> 2·maxL` on the secondary table). -/
theorem binned_out_of_range {n : ℕ} (hn : 0 < n) {maxL : α} (hM : 0 < maxL) {m : ℕ} (hm : 1 ≤ m) (law : α → α)
    (x : α) : binned n maxL m law x = none ↔ edge n maxL m < |x| := by
  have hmono := edge_strictMono hn hM
  constructor
  · intro h
    by_contra hcon
    obtain ⟨i, _, _, _, _, _, hb⟩ := binned_upper_edge hn hM hm law x (not_lt.mp hcon)
    rw [hb] at h; exact Option.some_ne_none _ h
  · intro h
    rw [binned, lookup, absM_eq, lookupAbs_table_none law (fun j _ hjm =>
      lt_of_le_of_lt (hmono.monotone hjm) h)]
    rfl

example : binned 3 (3 : ℚ) 3 (fun e => 10 * e) (3 + 1 / 1000) = none := by
  rw [binned_out_of_range (by norm_num) (by norm_num) (by norm_num), edge_top (by norm_num)]
  norm_num [abs_of_pos]

/-! ### consequences for a monotone odd wrapped law -/

/-- **Never under-estimates the magnitude**: `|law x| ≤ |binned x|`; with the sign of the load
(`law x ≤ binned x` for `x ≥ 0`, `binned x ≤ law x` for `x ≤ 0`). -/
theorem binned_never_underestimates {n : ℕ} (hn : 0 < n) {maxL : α} (hM : 0 < maxL) {m : ℕ} (hm : 1 ≤ m)
    {law : α → α} (hodd : ∀ x, law (-x) = -law x) (hmon : Monotone law) {x y : α}
    (h : binned n maxL m law x = some y) :
    |law x| ≤ |y| ∧ (0 ≤ x → law x ≤ y) ∧ (x ≤ 0 → y ≤ law x) := by
  have hx : |x| ≤ edge n maxL m := by
    by_contra hcon
    rw [(binned_out_of_range hn hM hm law x).mpr (not_le.mp hcon)] at h; exact Option.some_ne_none _ h.symm
  obtain ⟨i, _, _, _, hle, _, hb⟩ := binned_upper_edge hn hM hm law x hx
  rw [hb] at h
  have hy : y = signM x * law (edge n maxL i) := (Option.some.inj h).symm
  have h0 : law 0 = 0 := by have := hodd 0; rw [neg_zero] at this; linarith
  rcases lt_trichotomy x 0 with hneg | rfl | hpos
  · rw [signM_neg hneg] at hy
    rw [abs_of_neg hneg] at hle
    have h1 : law (-x) ≤ law (edge n maxL i) := hmon hle
    rw [hodd] at h1
    have h2 : law x ≤ 0 := by rw [← h0]; exact hmon hneg.le
    refine ⟨?_, fun h => absurd h (not_le.mpr hneg), fun _ => by rw [hy]; linarith⟩
    rw [abs_of_nonpos h2, hy, abs_of_nonpos (by linarith)]; linarith
  · rw [signM_zero, zero_mul] at hy
    subst hy; rw [h0]; simp
  · rw [signM_pos hpos, one_mul] at hy
    rw [abs_of_pos hpos] at hle
    have h1 : law x ≤ law (edge n maxL i) := hmon hle
    have h2 : 0 ≤ law x := by rw [← h0]; exact hmon hpos.le
    refine ⟨?_, fun _ => by rw [hy]; exact h1, fun h => absurd h (not_le.mpr hpos)⟩
    rw [abs_of_nonneg h2, hy, abs_of_nonneg (by linarith)]; exact h1

/-- **Monotone**: `x ≤ x'` (both inside the range) gives `binned x ≤ binned x'`. -/
theorem binned_monotone {n : ℕ} (hn : 0 < n) {maxL : α} (hM : 0 < maxL) {m : ℕ} (hm : 1 ≤ m)
    {law : α → α} (hodd : ∀ x, law (-x) = -law x) (hmon : Monotone law) {x x' y y' : α}
    (h : binned n maxL m law x = some y) (h' : binned n maxL m law x' = some y') (hxx : x ≤ x') : y ≤ y' := by
  have hmono := edge_strictMono hn hM
  have inrange : ∀ {x y : α}, binned n maxL m law x = some y → |x| ≤ edge n maxL m := by
    intro x y h
    by_contra hcon
    rw [(binned_out_of_range hn hM hm law x).mpr (not_le.mp hcon)] at h; exact Option.some_ne_none _ h.symm
  obtain ⟨i, hi1, _, hlo, hle, _, hb⟩ := binned_upper_edge hn hM hm law x (inrange h)
  obtain ⟨i', hi1', _, hlo', hle', _, hb'⟩ := binned_upper_edge hn hM hm law x' (inrange h')
  rw [hb] at h; rw [hb'] at h'
  have hy : y = signM x * law (edge n maxL i) := (Option.some.inj h).symm
  have hy' : y' = signM x' * law (edge n maxL i') := (Option.some.inj h').symm
  have h0 : law 0 = 0 := by have := hodd 0; rw [neg_zero] at this; linarith
  have hepos : ∀ j, 0 ≤ law (edge n maxL j) := fun j => by
    rw [← h0]; apply hmon; rw [← edge_zero n maxL]; exact hmono.monotone (Nat.zero_le _)
  -- index comparison from `a ≤ a'`
  have idx : ∀ {a a' : α} {i i' : ℕ}, 1 ≤ i → (edge n maxL (i - 1) < a) → a ≤ a' → a' ≤ edge n maxL i' → i ≤ i' := by
    intro a a' i i' hi hlo haa hle'
    have : edge n maxL (i - 1) < edge n maxL i' := lt_of_lt_of_le hlo (le_trans haa hle')
    have := hmono.lt_iff_lt.mp this
    omega
  rcases lt_trichotomy x 0 with hneg | rfl | hpos
  · rw [signM_neg hneg] at hy
    rcases lt_trichotomy x' 0 with hneg' | rfl | hpos'
    · rw [signM_neg hneg'] at hy'
      rw [abs_of_neg hneg] at hlo hle
      rw [abs_of_neg hneg'] at hlo' hle'
      have hlo'' : edge n maxL (i' - 1) < -x' := by
        rcases hlo' with h | ⟨h, _⟩
        · exact h
        · exact absurd h hneg'.ne
      have : i' ≤ i := idx hi1' hlo'' (by linarith) hle
      have := hmon (hmono.monotone this)
      rw [hy, hy']; linarith
    · rw [signM_zero, zero_mul] at hy'
      rw [hy, hy']; have := hepos i; linarith
    · rw [signM_pos hpos', one_mul] at hy'
      rw [hy, hy']; have := hepos i; have := hepos i'; linarith
  · rw [signM_zero, zero_mul] at hy
    rcases lt_or_eq_of_le hxx with hpos' | rfl
    · rw [signM_pos hpos', one_mul] at hy'
      rw [hy, hy']; exact hepos i'
    · rw [signM_zero, zero_mul] at hy'; rw [hy, hy']
  · have hpos' : 0 < x' := lt_of_lt_of_le hpos hxx
    rw [signM_pos hpos, one_mul] at hy
    rw [signM_pos hpos', one_mul] at hy'
    rw [abs_of_pos hpos] at hlo hle
    rw [abs_of_pos hpos'] at hlo' hle'
    have hlo'' : edge n maxL (i - 1) < x := by
      rcases hlo with h | ⟨h, _⟩
      · exact h
      · exact absurd h hpos.ne'
    have : i ≤ i' := idx hi1 hlo'' hxx hle'
    rw [hy, hy']; exact hmon (hmono.monotone this)

/-- **Less than one class off**: the deviation from the exact law is at most the law's increase over the class the load
lies in, `|binned x − law x| ≤ law(eᵢ) − law(eᵢ − maxL/n)` with `eᵢ − maxL/n < |x| ≤ eᵢ`; strictly less for a
strictly increasing law and `x ≠ 0` (for `x = 0` both are zero). -/
theorem binned_deviation_lt_one_class {n : ℕ} (hn : 0 < n) {maxL : α} (hM : 0 < maxL) {m : ℕ} (hm : 1 ≤ m)
    {law : α → α} (hodd : ∀ x, law (-x) = -law x) (hmon : Monotone law) {x y : α}
    (h : binned n maxL m law x = some y) :
    ∃ e, e - maxL / n ≤ |x| ∧ |x| ≤ e ∧ |y - law x| ≤ law e - law (e - maxL / n) ∧
      (StrictMono law → x ≠ 0 → |y - law x| < law e - law (e - maxL / n)) := by
  have hx : |x| ≤ edge n maxL m := by
    by_contra hcon
    rw [(binned_out_of_range hn hM hm law x).mpr (not_le.mp hcon)] at h; exact Option.some_ne_none _ h.symm
  obtain ⟨i, hi1, _, hlo, hle, hw, hb⟩ := binned_upper_edge hn hM hm law x hx
  rw [hb] at h
  have hy : y = signM x * law (edge n maxL i) := (Option.some.inj h).symm
  have h0 : law 0 = 0 := by have := hodd 0; rw [neg_zero] at this; linarith
  have hprev : edge n maxL i - maxL / n = edge n maxL (i - 1) := by rw [← hw]; ring
  have hlo' : edge n maxL (i - 1) ≤ |x| := by
    rcases hlo with h | ⟨h, h1⟩
    · exact h.le
    · rw [h1, Nat.sub_self, edge_zero]; exact abs_nonneg x
  refine ⟨edge n maxL i, by rw [hprev]; exact hlo', hle, ?_, ?_⟩
  · -- y − law x = sign x · (law e − law |x|)
    have key : y - law x = signM x * (law (edge n maxL i) - law |x|) := by
      rcases lt_trichotomy x 0 with hneg | rfl | hpos
      · rw [hy, signM_neg hneg, abs_of_neg hneg, hodd]; ring
      · rw [hy, signM_zero, h0]; ring
      · rw [hy, signM_pos hpos, abs_of_pos hpos]; ring
    have h1 : law |x| ≤ law (edge n maxL i) := hmon hle
    have h2 : law (edge n maxL (i - 1)) ≤ law |x| := hmon hlo'
    rw [key, hprev, abs_mul, abs_of_nonneg (by linarith : 0 ≤ law (edge n maxL i) - law |x|)]
    have hs : |signM x| ≤ 1 := by
      rcases lt_trichotomy x 0 with hneg | rfl | hpos
      · rw [signM_neg hneg]; simp
      · rw [signM_zero]; simp
      · rw [signM_pos hpos]; simp
    calc |signM x| * (law (edge n maxL i) - law |x|) ≤ 1 * (law (edge n maxL i) - law |x|) :=
          mul_le_mul_of_nonneg_right hs (by linarith)
      _ ≤ law (edge n maxL i) - law (edge n maxL (i - 1)) := by linarith
  · intro hs hx0
    have hlo'' : edge n maxL (i - 1) < |x| := by
      rcases hlo with h | ⟨h, _⟩
      · exact h
      · exact absurd h hx0
    have key : |y - law x| = law (edge n maxL i) - law |x| := by
      have h1 : law |x| ≤ law (edge n maxL i) := hmon hle
      rcases lt_or_gt_of_ne hx0 with hneg | hpos
      · rw [hy, signM_neg hneg, abs_of_neg hneg, hodd] at *
        rw [show -1 * law (edge n maxL i) - law x = -(law (edge n maxL i) - -law x) by ring, abs_neg,
          abs_of_nonneg (by linarith)]
      · rw [hy, signM_pos hpos, abs_of_pos hpos] at *
        rw [one_mul, abs_of_nonneg (by linarith)]
    rw [key, hprev]
    have := hs hlo''
    linarith

example : Monotone (fun e : ℚ => 10 * e) ∧ ∀ x : ℚ, (fun e : ℚ => 10 * e) (-x) = -((fun e : ℚ => 10 * e) x) :=
  ⟨fun a b h => by simp only; linarith, fun x => by ring⟩

/-! ### per-point tables -/

/-- **Per-point tables equal the tables each point gets alone**: row `i` of the per-point table holds, for point `j`
with its own maximum `M_j`, exactly row `i` of the single table built with `M_j` (load and value). -/
theorem binned_multi_table_eq_single (n : ℕ) (maxLs : List α) (m : ℕ) (law : α → α) (j : ℕ) (M : α)
    (hj : maxLs[j]? = some M) :
    (tableMulti n maxLs m law).map (fun r => (r.1[j]?, r.2[j]?))
      = (table n M m law).map (fun r => (some r.1, some r.2)) := by
  simp only [tableMulti, table, List.map_map]
  apply List.map_congr_left
  intro k _
  simp [List.getElem?_map, hj]

/-- **Per-point look-up = the single look-ups, for every per-point Series** (no proportionality needed): with one
load per point the result is the list of the results every point gets from its own single table, and it is an error
exactly when the single look-up of some point is an error; a Series that does not hold exactly one load per point is
rejected. -/
theorem binned_multi_eq_single (n : ℕ) (m : ℕ) (law : α → α) (maxLs xs : List α) :
    lookupMulti maxLs.length (tableMulti n maxLs m law) xs
      = if xs.length = maxLs.length then (maxLs.zip xs).mapM (fun p => binned n p.1 m law p.2) else none := by
  unfold lookupMulti
  split_ifs with h
  · exact lookupFrom_tableMulti n m law xs [] maxLs h.symm
  · rfl

/-- **Per-point range check**: the per-point look-up raises exactly when some point's load is above that point's OWN
initialised range (`|x_j| > edge m` of `M_j`, i.e. `> M_j` on the primary and `> 2·M_j` on the secondary table);
otherwise every point gets `sign x_j · law(upper edge of x_j's class in the grid of M_j)` (by `binned_multi_eq_single`
and `binned_upper_edge`). -/
theorem binned_multi_out_of_range {n : ℕ} (hn : 0 < n) {m : ℕ} (hm : 1 ≤ m) (law : α → α) (maxLs xs : List α)
    (hM : ∀ M ∈ maxLs, 0 < M) (hlen : xs.length = maxLs.length) :
    lookupMulti maxLs.length (tableMulti n maxLs m law) xs = none
      ↔ ∃ p ∈ maxLs.zip xs, edge n p.1 m < |p.2| := by
  rw [binned_multi_eq_single, if_pos hlen, mapM_option_eq_none_iff]
  constructor
  · rintro ⟨p, hp, hnone⟩
    exact ⟨p, hp, (binned_out_of_range hn (hM p.1 (List.of_mem_zip hp).1) hm law p.2).mp hnone⟩
  · rintro ⟨p, hp, hlt⟩
    exact ⟨p, hp, (binned_out_of_range hn (hM p.1 (List.of_mem_zip hp).1) hm law p.2).mpr hlt⟩

/-- the Series look-up on a single table (`fillna(0)` first) is the scalar look-up of every entry -/
theorem binned_series_eq_scalar (tbl : List (α × α)) (x : α) : lookupSeries tbl x = lookup tbl x :=
  lookupSeries_eq tbl x

-- the per-point look-up of loads that are not proportional to the maxima, through the theorem
example : lookupMulti 2 (tableMulti 2 [(4 : ℚ), 2] 2 (fun e => 10 * e)) [3, -1 / 2]
    = some [signM (3 : ℚ) * (10 * edge 2 4 2), signM (-1 / 2 : ℚ) * (10 * edge 2 2 1)] := by
  rw [show (2 : ℕ) = [(4 : ℚ), 2].length from rfl]
  rw [binned_multi_eq_single]
  decide +kernel

-- non-proportional loads: point 2 (maximum 2) in its own class 1, point 1 (maximum 4) in its class 2
example : lookupMulti 2 (tableMulti 2 [(4 : ℚ), 2] 2 (fun e => 10 * e)) [3, -1 / 2] = some [40, -10] := by
  decide +kernel

-- the second point is above its own maximum: error, although the first point is inside its range
example : lookupMulti 2 (tableMulti 2 [(4 : ℚ), 2] 2 (fun e => 10 * e)) [1, 100] = none := by
  exact (binned_multi_out_of_range (n := 2) (by norm_num) (m := 2) (by norm_num) (fun e => 10 * e) [(4 : ℚ), 2] [1, 100]
    (by simp) rfl).mpr ⟨((2 : ℚ), (100 : ℚ)), by simp, by norm_num [edge_top]⟩

/-! ### the per-point look-up as coded before the repair (class of the first point for all points)

`lookupMultiFirst` is the code before /repo commit 3047e0d.  It agrees with the single look-ups
for proportional loads only (`binned_multi_first_point_eq_single_partial`, the hypothesis `hprop` is what is missing
for the property), and it returns a value for a point above its own maximum
(`first_point_selection_ignores_range_of_other_points`): the property's clauses "any load above the initialised
maximum raises an error" and "with the upper edge of the load's class" fail for it. -/

/-- **(pre-repair code) per-point look-up with proportional loads = the single look-ups.**  Points with maxima `M_j = c_j · M₀ > 0` and
loads `x_j = c_j · x₀` (`c_j > 0`: the same load history scaled per point; `M₀`, `x₀` belong to the first point): the
class selected with the first point is the class every point would select alone, so the per-point result is the
list of the single-table results - and it is an error exactly when the single look-up of a point is an error.
For loads that are not proportional the statement is false, see the refutation below. -/
theorem binned_multi_first_point_eq_single_partial {n : ℕ} (hn : 0 < n) {M0 : α} (hM : 0 < M0) {m : ℕ} (hm : 1 ≤ m) (law : α → α)
    (maxLs xs : List α) (x0 : α) (hM0 : maxLs.head? = some M0) (hx0 : xs.head? = some x0)
    (hlen : maxLs.length = xs.length)
    (hprop : ∀ p ∈ maxLs.zip xs, ∃ c, 0 < c ∧ p.1 = c * M0 ∧ p.2 = c * x0) :
    lookupMultiFirst (tableMulti n maxLs m law) xs = (maxLs.zip xs).mapM (fun p => binned n p.1 m law p.2) := by
  obtain ⟨Ms, rfl⟩ : ∃ Ms, maxLs = M0 :: Ms := by
    cases maxLs with
    | nil => simp at hM0
    | cons a l => simp at hM0; exact ⟨l, by rw [hM0]⟩
  obtain ⟨xs', rfl⟩ : ∃ xs', xs = x0 :: xs' := by
    cases xs with
    | nil => simp at hx0
    | cons a l => simp at hx0; exact ⟨l, by rw [hx0]⟩
  have htbl : (tableMulti n (M0 :: Ms) m law).map (fun r => (r.1.headD 0, r.2))
      = (List.range' 0 m).map fun k => (edge n M0 (k + 1), (M0 :: Ms).map fun M => law (edge n M (k + 1))) := by
    simp [tableMulti, List.range_eq_range']
  rcases le_or_gt |x0| (edge n M0 m) with hin | hout
  · obtain ⟨i, hi1, him, hle, _, hlt⟩ := exists_class hn hM hm (abs_nonneg x0) hin
    obtain ⟨k, rfl⟩ : ∃ k, i = k + 1 := ⟨i - 1, by omega⟩
    have hsel := lookupAbs_range'_some (fun k => edge n M0 (k + 1))
      (fun k => (M0 :: Ms).map fun M => law (edge n M (k + 1))) |x0| m 0 k (Nat.zero_le _) (by omega) hle
      (fun j _ hjk => hlt (j + 1) (by omega) (by omega))
    have hsingle : ∀ p ∈ (M0 :: Ms).zip (x0 :: xs'),
        binned n p.1 m law p.2 = some (signM p.2 * law (edge n p.1 (k + 1))) := by
      intro p hp
      obtain ⟨c, hc, h1, h2⟩ := hprop p hp
      rw [h1, h2]
      exact binned_scaled_some law hc hi1 him hle hlt
    rw [mapM_option_eq_some _ _ _ hsingle]
    simp only [lookupMultiFirst, htbl, absM_eq, hsel, Option.map_some]
    congr 1
    exact zipWith_map_eq_map_zip _ _ _ _
  · have h1 : lookupAbs ((List.range' 0 m).map fun k =>
        (edge n M0 (k + 1), (M0 :: Ms).map fun M => law (edge n M (k + 1)))) |x0| = none :=
      lookupAbs_range'_none _ _ _ m 0 (fun j _ hjm =>
        lt_of_le_of_lt ((edge_strictMono hn hM).monotone (by omega)) hout)
    have h2 : binned n M0 m law x0 = none := (binned_out_of_range hn hM hm law x0).mpr hout
    simp only [lookupMultiFirst, htbl, absM_eq, h1, Option.map_none, List.zip_cons_cons, List.mapM_cons, h2]
    rfl

example : lookupMultiFirst (tableMulti 2 [(4 : ℚ), 2, 6] 2 (fun e => 10 * e)) [-1, -1 / 2, -3 / 2]
    = some [-20, -10, -30] := by
  rw [binned_multi_first_point_eq_single_partial (n := 2) (by norm_num) (M0 := (4 : ℚ)) (by norm_num) (m := 2) (by norm_num)
    (fun e => 10 * e) [(4 : ℚ), 2, 6] [-1, -1 / 2, -3 / 2] (-1) rfl rfl rfl]
  · decide +kernel
  · intro p hp
    simp only [List.zip_cons_cons, List.zip_nil_right, List.mem_cons, List.not_mem_nil, or_false] at hp
    rcases hp with rfl | rfl | rfl
    · exact ⟨1, by norm_num, by norm_num, by norm_num⟩
    · exact ⟨1 / 2, by norm_num, by norm_num, by norm_num⟩
    · exact ⟨3 / 2, by norm_num, by norm_num, by norm_num⟩


/-- **Refutation for the pre-repair code**: with the class of the first point for all points there are a table and a
per-point Series such that the look-up returns values although a point's load is above that point's own initialised
maximum (maxima 4 and 2, two classes, loads 1 and 100: the second point is at 50 times its maximum and gets the value
of its class 1) - and the value is not the one of the load's own class for a load inside the range either
(loads 3 and 1/2: point 2 gets class 2 of its grid, its own class is 1). -/
theorem first_point_selection_ignores_range_of_other_points :
    ∃ (n m : ℕ) (maxLs xs : List ℚ) (law : ℚ → ℚ) (r : List ℚ), 0 < n ∧ 1 ≤ m ∧ (∀ M ∈ maxLs, 0 < M) ∧
      xs.length = maxLs.length ∧
      lookupMultiFirst (tableMulti n maxLs m law) xs = some r ∧
      (∃ p ∈ maxLs.zip xs, edge n p.1 m < |p.2|) ∧
      lookupMulti maxLs.length (tableMulti n maxLs m law) xs = none := by
  refine ⟨2, 2, [4, 2], [1, 100], fun e => 10 * e, [20, 10], by norm_num, by norm_num, by simp, rfl,
    by decide +kernel, ⟨((2 : ℚ), (100 : ℚ)), by simp, by norm_num [edge_top]⟩, by decide +kernel⟩

/-- the same for a load inside its range: the pre-repair look-up gives point 2 the value of the wrong class -/
theorem first_point_selection_wrong_class :
    lookupMultiFirst (tableMulti 2 [(4 : ℚ), 2] 2 (fun e => 10 * e)) [3, 1 / 2] = some [40, 20] ∧
    lookupMulti 2 (tableMulti 2 [(4 : ℚ), 2] 2 (fun e => 10 * e)) [3, 1 / 2] = some [40, 10] ∧
    binned 2 (2 : ℚ) 2 (fun e => 10 * e) (1 / 2) = some 10 := by
  refine ⟨by decide +kernel, by decide +kernel, by decide +kernel⟩

end PylifeVerif.C07
