/- C02: detectors realise the counting rules. -/
import Proofs.C02FourPoint
import Proofs.C02Fkm
import Proofs.ThreePointC02
import Proofs.RainflowCorollaries
import Proofs.RainflowLiteral
