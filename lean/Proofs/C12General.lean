/-
C12 — mean stress transformation, general gap-free Haigh diagrams (five-segment diagram included).

`Proofs/C12.lean` proves path independence / fixed target for arbitrary diagrams only under two hypotheses:
an iso-damage potential exists (`Compat`) and the run arrives at the target R.  This file removes both for every
diagram in STANDARD FORM (`Meanstress.diagram Minf M0 r1 bs Mn`, helper file `Proofs/Lemmas/MeanstressPotential.lean`):

    (1, ∞] ↦ Minf,  (-∞, r₁] ↦ M0,  (r₁, r₂] ↦ M₁, …, (r_n, 1] ↦ M_n      with  r₁ < r₂ < … < r_n < 1   (`SortedR`)

i.e. gap-free, exactly one segment beyond R = 1 (see the finding `split-beyond-R1` for why), at least one border
below 1 (n ≥ 1, at least three segments).  `HaighDiagram.fkm_goodman` is `diagram 0 M 0 [] M2`,
`HaighDiagram.five_segment` is `diagram M4 M0 0 [(M1, R12), (M2, R23)] M3`.  The theorems of section 2 hold for every
PERMUTATION of such a list (`StdDiagram`; `transform_perm`: the listing order of the segments does not matter).

* ARRIVAL (`transform_arrives_at_target`, `transform_arrives`): every run ends at the target R — all admissible targets
  (real ≠ 1, -∞), all admissible cycles, no condition on the slopes.
* POTENTIAL (`hD`, `diagram_has_potential`): the continuous piecewise function `k_i·(1 + M_i·x)` with `k_{i+1}` fixed by
  continuity at the border `x = (1+r)/(1-r)`, normalised to `h(0) = 1`, is an iso-damage potential (`CompatPos`, which
  implies `Compat`) as soon as the diagram is non-degenerate (`GoodD`: at each kink both adjacent iso-damage lines
  have positive amplitude; implied by `Minf < 1`, `0 ≤ M_i < 1`).
* Consequences, under the same positivity guard `TransformGuard` as for FKM-Goodman: the potential is positive at the
  cycle's ray and at the target, amplitude formula `a' = a·h(m/a)/h(x_target)`, path independence, idempotence,
  fixed target; non-decreasing and Lipschitz (continuous) in the amplitude at fixed mean stress; linear on a fixed ray.

Not covered: the two-segment diagram `{(1,∞], (-∞,1]}` (no border below 1); diagrams with several segments beyond
R = 1 (finding `split-beyond-R1`: the code does not follow the iso-damage lines there).
-/
import Proofs.C12
import Proofs.Lemmas.MeanstressPotential

namespace PylifeVerif.C12
open PylifeVerif.Meanstress ExtR

/-! ### 1. Diagrams in standard form: arrival, potential, amplitude formula -/

section Std
variable (Minf M0 r1 : ℝ) (bs : List (ℝ × ℝ)) (Mn : ℝ)

/-- The run of `HaighDiagram.transform` ends at the target R (any slopes). -/
theorem transform_arrives_at_target (hs : SortedR r1 bs) (g : ExtR ℝ) (c : Cyc ℝ) (hg : ValidR g) (hR : ValidR c.R) :
    (transform (diagram Minf M0 r1 bs Mn) g c).R = g :=
  diagram_arrives Minf M0 r1 bs Mn hs c hg hR

/-- The explicit continuous piecewise potential `hD` is an iso-damage potential of the diagram for every admissible
target (with a positive factor on every segment), it is normalised to 1 at R = -1, and on the outermost segments it is
`(1-M0)/(1-Minf)·(1 + Minf·x)` resp. `1 + M0·x`. -/
theorem diagram_has_potential (hs : SortedR r1 bs) (hgood : GoodD Minf M0 r1 bs Mn) :
    (∀ g, ValidR g → CompatPos (hD Minf M0 r1 bs Mn) (diagram Minf M0 r1 bs Mn) g) ∧
    (∀ g, ValidR g → Compat (hD Minf M0 r1 bs Mn) (diagram Minf M0 r1 bs Mn) g) ∧
    hD Minf M0 r1 bs Mn (-1) = 1 - M0 ∧
    (∀ x, x ≤ -1 → hD Minf M0 r1 bs Mn x = (1 - M0) / (1 - Minf) * (1 + Minf * x)) ∧
    (∀ x, -1 ≤ x → x ≤ px r1 → hD Minf M0 r1 bs Mn x = 1 + M0 * x) ∧
    Continuous (hD Minf M0 r1 bs Mn) := by
  have h1 := sortedR_lt1 hs
  refine ⟨fun g hg => diagram_compat Minf M0 r1 bs Mn hs hgood hg,
    fun g hg => (diagram_compat Minf M0 r1 bs Mn hs hgood hg).compat, ?_, fun x hx => hD_inf Minf M0 r1 bs Mn hx,
    fun x hx1 hx2 => by rw [hD_0 Minf M0 r1 bs Mn hgood.1 h1 hx1 hx2, one_mul],
    hD_continuous Minf M0 r1 bs Mn hs hgood⟩
  rw [hD_0 Minf M0 r1 bs Mn hgood.1 h1 (le_refl _) (px_gt_m1 h1).le]; ring

/-- Under the guard the potential is positive at the target. -/
theorem potential_pos_at_target (hs : SortedR r1 bs) (hgood : GoodD Minf M0 r1 bs Mn) (g : ExtR ℝ) (c : Cyc ℝ)
    (hg : ValidR g) (hR : ValidR c.R) (hG : TransformGuard (diagram Minf M0 r1 bs Mn) g c) :
    0 < hD Minf M0 r1 bs Mn (pos g) := by
  have := guard_goal_pos (diagram_compat Minf M0 r1 bs Mn hs hgood hg) hG
    (by rw [afterRight_R]; exact diagram_fires Minf M0 r1 bs Mn hs hg hR)
  rwa [normGoal_valid hg] at this

/-- Under the guard the potential is positive at the cycle's own ray. -/
theorem potential_pos_at_cycle (hs : SortedR r1 bs) (hgood : GoodD Minf M0 r1 bs Mn) (g : ExtR ℝ) (c : Cyc ℝ)
    (hg : ValidR g) (hR : ValidR c.R) (hG : TransformGuard (diagram Minf M0 r1 bs Mn) g c) :
    0 < hD Minf M0 r1 bs Mn (pos c.R) :=
  guard_cycle_pos (diagram_compat Minf M0 r1 bs Mn hs hgood hg) hG
    (by rw [afterRight_R]; exact diagram_fires Minf M0 r1 bs Mn hs hg hR)

/-- The transformed amplitude: `a' = a·h(m/a) / h(x_target)`. -/
theorem transform_amp (hs : SortedR r1 bs) (hgood : GoodD Minf M0 r1 bs Mn) (g : ExtR ℝ) (c : Cyc ℝ)
    (hg : ValidR g) (hR : ValidR c.R) (hG : TransformGuard (diagram Minf M0 r1 bs Mn) g c) :
    (transform (diagram Minf M0 r1 bs Mn) g c).amp
      = c.amp * hD Minf M0 r1 bs Mn (pos c.R) / hD Minf M0 r1 bs Mn (pos g) := by
  have hp := transform_potential _ _ g c (diagram_compat Minf M0 r1 bs Mn hs hgood hg).compat hG
  unfold potential at hp
  rw [transform_arrives_at_target Minf M0 r1 bs Mn hs g c hg hR] at hp
  rw [eq_div_iff (potential_pos_at_target Minf M0 r1 bs Mn hs hgood g c hg hR hG).ne']; exact hp

end Std

/-! ### 2. Path independence, idempotence, fixed target for every diagram in standard form -/

section StdOrder
variable (Minf M0 r1 : ℝ) (bs : List (ℝ × ℝ)) (Mn : ℝ)

theorem diagram_fixes_target (hs : SortedR r1 bs) (hgood : GoodD Minf M0 r1 bs Mn) (c : Cyc ℝ) (hR : ValidR c.R)
    (hG' : TransformGuard (diagram Minf M0 r1 bs Mn) c.R c) : transform (diagram Minf M0 r1 bs Mn) c.R c = c := by
  have ha := transform_amp Minf M0 r1 bs Mn hs hgood c.R c hR hR hG'
  have hr := transform_arrives_at_target Minf M0 r1 bs Mn hs c.R c hR hR
  rw [mul_div_assoc, div_self (potential_pos_at_target Minf M0 r1 bs Mn hs hgood c.R c hR hR hG').ne', mul_one] at ha
  cases hc : transform (diagram Minf M0 r1 bs Mn) c.R c with
  | mk a R => rw [hc] at ha hr; cases c; simp_all

theorem diagram_path_independent (hs : SortedR r1 bs) (hgood : GoodD Minf M0 r1 bs Mn) (g₁ g₂ : ExtR ℝ) (c : Cyc ℝ)
    (hg1 : ValidR g₁) (hg2 : ValidR g₂) (hR : ValidR c.R)
    (hGa : TransformGuard (diagram Minf M0 r1 bs Mn) g₁ c)
    (hGb : TransformGuard (diagram Minf M0 r1 bs Mn) g₂ (transform (diagram Minf M0 r1 bs Mn) g₁ c))
    (hGc : TransformGuard (diagram Minf M0 r1 bs Mn) g₂ c) :
    transform (diagram Minf M0 r1 bs Mn) g₂ (transform (diagram Minf M0 r1 bs Mn) g₁ c)
      = transform (diagram Minf M0 r1 bs Mn) g₂ c := by
  have r1' := transform_arrives_at_target Minf M0 r1 bs Mn hs g₁ c hg1 hR
  have a1 := transform_amp Minf M0 r1 bs Mn hs hgood g₁ c hg1 hR hGa
  have hv1 : ValidR (transform (diagram Minf M0 r1 bs Mn) g₁ c).R := by rw [r1']; exact hg1
  have r12 := transform_arrives_at_target Minf M0 r1 bs Mn hs g₂ _ hg2 hv1
  have a12 := transform_amp Minf M0 r1 bs Mn hs hgood g₂ _ hg2 hv1 hGb
  have r2 := transform_arrives_at_target Minf M0 r1 bs Mn hs g₂ c hg2 hR
  have a2 := transform_amp Minf M0 r1 bs Mn hs hgood g₂ c hg2 hR hGc
  rw [r1', a1, div_mul_cancel₀ _ (potential_pos_at_target Minf M0 r1 bs Mn hs hgood g₁ c hg1 hR hGa).ne'] at a12
  cases hx : transform (diagram Minf M0 r1 bs Mn) g₂ (transform (diagram Minf M0 r1 bs Mn) g₁ c) with
  | mk a R =>
    cases hy : transform (diagram Minf M0 r1 bs Mn) g₂ c with
    | mk a' R' => rw [hx] at r12 a12; rw [hy] at r2 a2; simp_all

end StdOrder

/-- Gap-free diagram with exactly one segment beyond R = 1, namely `(1, ∞]`, at least one border below 1,
non-degenerate (`GoodD`); the segments may be listed in ANY order (`from_dict` accepts every rotation of the
standard order). -/
def StdDiagram (D : List (Seg ℝ)) : Prop :=
  ∃ Minf M0 r1 bs Mn, D.Perm (diagram Minf M0 r1 bs Mn) ∧ SortedR r1 bs ∧ GoodD Minf M0 r1 bs Mn

/-- Arrival for every such diagram. -/
theorem transform_arrives (D : List (Seg ℝ)) (hD : StdDiagram D) (g : ExtR ℝ) (c : Cyc ℝ) (hg : ValidR g)
    (hR : ValidR c.R) : (transform D g c).R = g := by
  obtain ⟨Minf, M0, r1, bs, Mn, hp, hs, _⟩ := hD
  rw [transform_perm Minf M0 r1 bs Mn hs hp hg]
  exact transform_arrives_at_target Minf M0 r1 bs Mn hs g c hg hR

/-- EXISTENCE OF THE POTENTIAL: every such diagram has a continuous iso-damage potential (the hypothesis `Compat` of
`transform_conserves_potential`, `transform_path_independent_partial`, `transform_fixes_target_partial`). -/
theorem stdDiagram_has_potential (D : List (Seg ℝ)) (hD : StdDiagram D) :
    ∃ h : ℝ → ℝ, Continuous h ∧ ∀ g, ValidR g → Compat h D g := by
  obtain ⟨Minf, M0, r1, bs, Mn, hp, hs, hgood⟩ := hD
  refine ⟨Meanstress.hD Minf M0 r1 bs Mn, hD_continuous Minf M0 r1 bs Mn hs hgood, fun g hg s hsD => ?_⟩
  have hc := (diagram_compat Minf M0 r1 bs Mn hs hgood hg).compat s (hp.subset hsD)
  rw [segsContaining_perm Minf M0 r1 bs Mn hs hp hg]
  exact hc

/-- Every such diagram has an iso-damage potential `h` (positive factor on each segment), and under the guard the
transformed amplitude is `a·h(m/a) / h(x_target)`. -/
theorem transform_amp_of_potential (D : List (Seg ℝ)) (hD : StdDiagram D) :
    ∃ h : ℝ → ℝ, ∀ g c, ValidR g → ValidR c.R → TransformGuard D g c →
      0 < h (pos g) ∧ 0 < h (pos c.R) ∧ (transform D g c).amp = c.amp * h (pos c.R) / h (pos g) := by
  obtain ⟨Minf, M0, r1, bs, Mn, hp, hs, hgood⟩ := hD
  refine ⟨Meanstress.hD Minf M0 r1 bs Mn, fun g c hg hR hG => ?_⟩
  rw [transformGuard_perm Minf M0 r1 bs Mn hs hp hg] at hG
  rw [transform_perm Minf M0 r1 bs Mn hs hp hg]
  exact ⟨potential_pos_at_target Minf M0 r1 bs Mn hs hgood g c hg hR hG,
    potential_pos_at_cycle Minf M0 r1 bs Mn hs hgood g c hg hR hG,
    transform_amp Minf M0 r1 bs Mn hs hgood g c hg hR hG⟩

/-- A cycle that already is at the target R is unchanged. -/
theorem transform_fixes_target (D : List (Seg ℝ)) (hD : StdDiagram D) (c : Cyc ℝ) (hR : ValidR c.R)
    (hG' : TransformGuard D c.R c) : transform D c.R c = c := by
  obtain ⟨Minf, M0, r1, bs, Mn, hp, hs, hgood⟩ := hD
  rw [transformGuard_perm Minf M0 r1 bs Mn hs hp hR] at hG'
  rw [transform_perm Minf M0 r1 bs Mn hs hp hR]
  exact diagram_fixes_target Minf M0 r1 bs Mn hs hgood c hR hG'

/-- Transforming twice to the same R changes nothing. -/
theorem transform_idempotent (D : List (Seg ℝ)) (hD : StdDiagram D) (g : ExtR ℝ) (c : Cyc ℝ)
    (hg : ValidR g) (hR : ValidR c.R) (hG2 : TransformGuard D g (transform D g c)) :
    transform D g (transform D g c) = transform D g c := by
  have hr := transform_arrives D hD g c hg hR
  have := transform_fixes_target D hD (transform D g c) (by rw [hr]; exact hg) (by rw [hr]; exact hG2)
  rw [hr] at this; exact this

/-- Path independence: to `g₁` and then to `g₂` equals to `g₂` directly. -/
theorem transform_path_independent (D : List (Seg ℝ)) (hD : StdDiagram D) (g₁ g₂ : ExtR ℝ) (c : Cyc ℝ)
    (hg1 : ValidR g₁) (hg2 : ValidR g₂) (hR : ValidR c.R)
    (hGa : TransformGuard D g₁ c) (hGb : TransformGuard D g₂ (transform D g₁ c)) (hGc : TransformGuard D g₂ c) :
    transform D g₂ (transform D g₁ c) = transform D g₂ c := by
  obtain ⟨Minf, M0, r1, bs, Mn, hp, hs, hgood⟩ := hD
  rw [transformGuard_perm Minf M0 r1 bs Mn hs hp hg1] at hGa
  rw [transformGuard_perm Minf M0 r1 bs Mn hs hp hg2] at hGb hGc
  rw [transform_perm Minf M0 r1 bs Mn hs hp hg1] at hGb
  rw [transform_perm Minf M0 r1 bs Mn hs hp hg2, transform_perm Minf M0 r1 bs Mn hs hp hg1,
    transform_perm Minf M0 r1 bs Mn hs hp hg2]
  exact diagram_path_independent Minf M0 r1 bs Mn hs hgood g₁ g₂ c hg1 hg2 hR hGa hGb hGc

/-! ### 3. Monotone and continuous in the amplitude -/

section Mono
variable (Minf M0 r1 : ℝ) (bs : List (ℝ × ℝ)) (Mn : ℝ)

/-- `a ↦ a·h(m/a)` (the damage potential of the cycle with amplitude `a` and mean stress `m`) is non-decreasing
and Lipschitz on `a > 0`, for every mean stress `m`, with one constant `L` for the whole diagram. -/
theorem potential_monotone_continuous_in_amplitude (hs : SortedR r1 bs) (hgood : GoodD Minf M0 r1 bs Mn) :
    ∃ L, 0 ≤ L ∧ ∀ m a₁ a₂ : ℝ, 0 < a₁ → a₁ ≤ a₂ →
      a₁ * hD Minf M0 r1 bs Mn (m / a₁) ≤ a₂ * hD Minf M0 r1 bs Mn (m / a₂) ∧
      a₂ * hD Minf M0 r1 bs Mn (m / a₂) - a₁ * hD Minf M0 r1 bs Mn (m / a₁) ≤ L * (a₂ - a₁) := by
  obtain ⟨L, hL, H⟩ := hD_persp Minf M0 r1 bs Mn hs hgood
  exact ⟨L, hL, fun m a₁ a₂ h1 h2 => H m a₁ a₂ h1 h2 trivial trivial⟩

/-- At a fixed mean stress the transformed amplitude is non-decreasing and Lipschitz in the amplitude
(hence continuous); the constant depends on the diagram and the target only. -/
theorem transform_monotone_continuous_fixed_mean (hs : SortedR r1 bs) (hgood : GoodD Minf M0 r1 bs Mn)
    (g : ExtR ℝ) (hg : ValidR g) :
    ∃ L, 0 ≤ L ∧ ∀ c₁ c₂ : Cyc ℝ, ValidR c₁.R → ValidR c₂.R → 0 < c₁.amp → c₁.amp ≤ c₂.amp →
      c₁.amp * pos c₁.R = c₂.amp * pos c₂.R →
      TransformGuard (diagram Minf M0 r1 bs Mn) g c₁ → TransformGuard (diagram Minf M0 r1 bs Mn) g c₂ →
      (transform (diagram Minf M0 r1 bs Mn) g c₁).amp ≤ (transform (diagram Minf M0 r1 bs Mn) g c₂).amp ∧
      (transform (diagram Minf M0 r1 bs Mn) g c₂).amp - (transform (diagram Minf M0 r1 bs Mn) g c₁).amp
        ≤ L * (c₂.amp - c₁.amp) := by
  obtain ⟨L0, hL0, H⟩ := potential_monotone_continuous_in_amplitude Minf M0 r1 bs Mn hs hgood
  by_cases hp : 0 < hD Minf M0 r1 bs Mn (pos g)
  · refine ⟨L0 / hD Minf M0 r1 bs Mn (pos g), div_nonneg hL0 hp.le, ?_⟩
    intro c₁ c₂ hR1 hR2 ha1 ha12 hm hG1 hG2
    have ha2 : 0 < c₂.amp := lt_of_lt_of_le ha1 ha12
    rw [transform_amp Minf M0 r1 bs Mn hs hgood g c₁ hg hR1 hG1, transform_amp Minf M0 r1 bs Mn hs hgood g c₂ hg hR2 hG2]
    have e1 : pos c₁.R = (c₂.amp * pos c₂.R) / c₁.amp := by rw [← hm]; field_simp
    have e2 : pos c₂.R = (c₂.amp * pos c₂.R) / c₂.amp := by field_simp
    obtain ⟨A, B⟩ := H (c₂.amp * pos c₂.R) c₁.amp c₂.amp ha1 ha12
    rw [← e1, ← e2] at A B
    constructor
    · exact div_le_div_of_nonneg_right A hp.le
    · rw [← sub_div, div_mul_eq_mul_div]
      exact div_le_div_of_nonneg_right B hp.le
  · exact ⟨0, le_refl _, fun c₁ c₂ hR1 _ _ _ _ hG1 _ =>
      absurd (potential_pos_at_target Minf M0 r1 bs Mn hs hgood g c₁ hg hR1 hG1) hp⟩

/-- On a fixed ray the result is linear in the amplitude with a positive factor. -/
theorem transform_monotone_in_amplitude_fixed_R (hs : SortedR r1 bs) (hgood : GoodD Minf M0 r1 bs Mn)
    (g R : ExtR ℝ) (a₁ a₂ : ℝ) (hg : ValidR g) (hR : ValidR R) (h12 : a₁ ≤ a₂)
    (hGa : TransformGuard (diagram Minf M0 r1 bs Mn) g ⟨a₁, R⟩)
    (hGb : TransformGuard (diagram Minf M0 r1 bs Mn) g ⟨a₂, R⟩) :
    (transform (diagram Minf M0 r1 bs Mn) g ⟨a₁, R⟩).amp ≤ (transform (diagram Minf M0 r1 bs Mn) g ⟨a₂, R⟩).amp ∧
    (transform (diagram Minf M0 r1 bs Mn) g ⟨a₂, R⟩).amp - (transform (diagram Minf M0 r1 bs Mn) g ⟨a₁, R⟩).amp
      = (a₂ - a₁) * (hD Minf M0 r1 bs Mn (pos R) / hD Minf M0 r1 bs Mn (pos g)) := by
  rw [transform_amp Minf M0 r1 bs Mn hs hgood g ⟨a₁, R⟩ hg hR hGa, transform_amp Minf M0 r1 bs Mn hs hgood g ⟨a₂, R⟩ hg hR hGb]
  have hp := potential_pos_at_target Minf M0 r1 bs Mn hs hgood g ⟨a₁, R⟩ hg hR hGa
  have hq := potential_pos_at_cycle Minf M0 r1 bs Mn hs hgood g ⟨a₁, R⟩ hg hR hGa
  have hpq : 0 < hD Minf M0 r1 bs Mn (pos R) / hD Minf M0 r1 bs Mn (pos g) := div_pos hq hp
  constructor
  · simp only [mul_div_assoc]; nlinarith
  · ring

end Mono

/-- … for every diagram in standard form, in any listing order. -/
theorem transform_monotone_continuous_fixed_mean_std (D : List (Seg ℝ)) (hD : StdDiagram D) (g : ExtR ℝ) (hg : ValidR g) :
    ∃ L, 0 ≤ L ∧ ∀ c₁ c₂ : Cyc ℝ, ValidR c₁.R → ValidR c₂.R → 0 < c₁.amp → c₁.amp ≤ c₂.amp →
      c₁.amp * pos c₁.R = c₂.amp * pos c₂.R → TransformGuard D g c₁ → TransformGuard D g c₂ →
      (transform D g c₁).amp ≤ (transform D g c₂).amp ∧
      (transform D g c₂).amp - (transform D g c₁).amp ≤ L * (c₂.amp - c₁.amp) := by
  obtain ⟨Minf, M0, r1, bs, Mn, hp, hs, hgood⟩ := hD
  obtain ⟨L, hL, H⟩ := transform_monotone_continuous_fixed_mean Minf M0 r1 bs Mn hs hgood g hg
  refine ⟨L, hL, fun c₁ c₂ h1 h2 h3 h4 h5 hG1 hG2 => ?_⟩
  rw [transformGuard_perm Minf M0 r1 bs Mn hs hp hg] at hG1 hG2
  rw [transform_perm Minf M0 r1 bs Mn hs hp hg, transform_perm Minf M0 r1 bs Mn hs hp hg]
  exact H c₁ c₂ h1 h2 h3 h4 h5 hG1 hG2

/-! ### 4. The five-segment diagram `HaighDiagram.five_segment` -/

section Five
variable (M0 M1 M2 M3 M4 R12 R23 : ℝ)

/-- Admissible five-segment parameters: `0 < R12 < R23 < 1`, and at each kink of the Haigh line (R = ±∞, 0, R12, R23,
i.e. `x = -1, 1, px R12, px R23`) both adjacent iso-damage lines have positive amplitude. -/
def FiveSegOK : Prop :=
  0 < R12 ∧ R12 < R23 ∧ R23 < 1 ∧ M4 < 1 ∧ M0 < 1 ∧ 0 < 1 + M0 ∧ 0 < 1 + M1 ∧ 0 < 1 + M1 * px R12 ∧
    0 < 1 + M2 * px R12 ∧ 0 < 1 + M2 * px R23 ∧ 0 < 1 + M3 * px R23

/-- The usual parameter range is admissible: `M4 < 1`, `0 ≤ M0 < 1`, `0 ≤ M1, M2, M3`. -/
theorem fiveSegOK_of_slopes (hR1 : 0 < R12) (hR2 : R12 < R23) (hR3 : R23 < 1) (h4 : M4 < 1) (h0 : 0 ≤ M0) (h0' : M0 < 1)
    (h1 : 0 ≤ M1) (h2 : 0 ≤ M2) (h3 : 0 ≤ M3) : FiveSegOK M0 M1 M2 M3 M4 R12 R23 := by
  have p1 : 1 ≤ px R12 := one_le_pos hR1.le (by linarith)
  have p2 : 1 ≤ px R23 := one_le_pos (by linarith) hR3
  refine ⟨hR1, hR2, hR3, h4, h0', by linarith, by linarith, ?_, ?_, ?_, ?_⟩ <;> nlinarith

theorem px0 : px 0 = 1 := by simp [px]

variable {M0 M1 M2 M3 M4 R12 R23}

theorem FiveSegOK.sorted (h : FiveSegOK M0 M1 M2 M3 M4 R12 R23) : SortedR 0 [(M1, R12), (M2, R23)] :=
  ⟨h.1, h.2.1, h.2.2.1⟩

theorem FiveSegOK.good (h : FiveSegOK M0 M1 M2 M3 M4 R12 R23) : GoodD M4 M0 0 [(M1, R12), (M2, R23)] M3 := by
  obtain ⟨_, _, _, a4, a0, b0, b1, c1, c2, d2, d3⟩ := h
  simp only [GoodD, GoodC, px0, mul_one]
  exact ⟨a4, a0, b0, b1, c1, c2, d2, d3⟩

theorem FiveSegOK.std (h : FiveSegOK M0 M1 M2 M3 M4 R12 R23) : StdDiagram (fiveSegment M0 M1 M2 M3 M4 R12 R23) :=
  ⟨M4, M0, 0, [(M1, R12), (M2, R23)], M3, by rw [fiveSegment_diagram], h.sorted, h.good⟩

variable (M0 M1 M2 M3 M4 R12 R23)

/-- The iso-damage potential of the five-segment diagram (normalised to 1 at R = -1). -/
noncomputable def h5 (x : ℝ) : ℝ := hD M4 M0 0 [(M1, R12), (M2, R23)] M3 x

/-- … written out: continuous, on each segment `k_i·(1 + M_i·x)`; kinks at `x = -1` (R = ±∞), `1` (R = 0),
`px R12`, `px R23`. -/
theorem h5_explicit (x : ℝ) : h5 M0 M1 M2 M3 M4 R12 R23 x =
    if x ≤ -1 then (1 - M0) * (1 + M4 * x) / (1 - M4)
    else if x ≤ 1 then 1 + M0 * x
    else if x ≤ px R12 then (1 + M0) * (1 + M1 * x) / (1 + M1)
    else if x ≤ px R23 then (1 + M0) * (1 + M1 * px R12) / (1 + M1) * (1 + M2 * x) / (1 + M2 * px R12)
    else (1 + M0) * (1 + M1 * px R12) / (1 + M1) * (1 + M2 * px R23) / (1 + M2 * px R12) * (1 + M3 * x)
      / (1 + M3 * px R23) := by
  simp only [h5, hD, hC, px0, mul_one]

theorem h5_continuous {M0 M1 M2 M3 M4 R12 R23 : ℝ} (h : FiveSegOK M0 M1 M2 M3 M4 R12 R23) :
    Continuous (h5 M0 M1 M2 M3 M4 R12 R23) :=
  hD_continuous M4 M0 0 _ M3 h.sorted h.good

/-- ARRIVAL for the five-segment diagram: no condition on the slopes. -/
theorem fiveSegment_arrives_at_target (hR1 : 0 < R12) (hR2 : R12 < R23) (hR3 : R23 < 1) (g : ExtR ℝ) (c : Cyc ℝ)
    (hg : ValidR g) (hR : ValidR c.R) : (transform (fiveSegment M0 M1 M2 M3 M4 R12 R23) g c).R = g := by
  rw [fiveSegment_diagram]
  exact transform_arrives_at_target M4 M0 0 [(M1, R12), (M2, R23)] M3 ⟨hR1, hR2, hR3⟩ g c hg hR

variable {M0 M1 M2 M3 M4 R12 R23}

/-- `h5` is an iso-damage potential of the five-segment diagram for every admissible target. -/
theorem fiveSegment_compat (h : FiveSegOK M0 M1 M2 M3 M4 R12 R23) (g : ExtR ℝ) (hg : ValidR g) :
    Compat (h5 M0 M1 M2 M3 M4 R12 R23) (fiveSegment M0 M1 M2 M3 M4 R12 R23) g := by
  rw [fiveSegment_diagram]
  exact (diagram_compat M4 M0 0 _ M3 h.sorted h.good hg).compat

/-- The transformed amplitude: `a' = a·h5(m/a) / h5(x_target)`. -/
theorem fiveSegment_amp (h : FiveSegOK M0 M1 M2 M3 M4 R12 R23) (g : ExtR ℝ) (c : Cyc ℝ) (hg : ValidR g) (hR : ValidR c.R)
    (hG : TransformGuard (fiveSegment M0 M1 M2 M3 M4 R12 R23) g c) :
    (transform (fiveSegment M0 M1 M2 M3 M4 R12 R23) g c).amp
      = c.amp * h5 M0 M1 M2 M3 M4 R12 R23 (pos c.R) / h5 M0 M1 M2 M3 M4 R12 R23 (pos g) := by
  rw [fiveSegment_diagram] at hG ⊢
  exact transform_amp M4 M0 0 _ M3 h.sorted h.good g c hg hR hG

/-- A cycle that already is at the target R is unchanged. -/
theorem fiveSegment_fixes_target_R (h : FiveSegOK M0 M1 M2 M3 M4 R12 R23) (c : Cyc ℝ) (hR : ValidR c.R)
    (hG' : TransformGuard (fiveSegment M0 M1 M2 M3 M4 R12 R23) c.R c) :
    transform (fiveSegment M0 M1 M2 M3 M4 R12 R23) c.R c = c :=
  transform_fixes_target _ h.std c hR hG'

/-- Transforming twice to the same R changes nothing. -/
theorem fiveSegment_idempotent (h : FiveSegOK M0 M1 M2 M3 M4 R12 R23) (g : ExtR ℝ) (c : Cyc ℝ)
    (hg : ValidR g) (hR : ValidR c.R)
    (hG2 : TransformGuard (fiveSegment M0 M1 M2 M3 M4 R12 R23) g (transform (fiveSegment M0 M1 M2 M3 M4 R12 R23) g c)) :
    transform (fiveSegment M0 M1 M2 M3 M4 R12 R23) g (transform (fiveSegment M0 M1 M2 M3 M4 R12 R23) g c)
      = transform (fiveSegment M0 M1 M2 M3 M4 R12 R23) g c :=
  transform_idempotent _ h.std g c hg hR hG2

/-- Path independence: to `g₁` and then to `g₂` equals to `g₂` directly. -/
theorem fiveSegment_path_independent (h : FiveSegOK M0 M1 M2 M3 M4 R12 R23) (g₁ g₂ : ExtR ℝ) (c : Cyc ℝ)
    (hg1 : ValidR g₁) (hg2 : ValidR g₂) (hR : ValidR c.R)
    (hGa : TransformGuard (fiveSegment M0 M1 M2 M3 M4 R12 R23) g₁ c)
    (hGb : TransformGuard (fiveSegment M0 M1 M2 M3 M4 R12 R23) g₂ (transform (fiveSegment M0 M1 M2 M3 M4 R12 R23) g₁ c))
    (hGc : TransformGuard (fiveSegment M0 M1 M2 M3 M4 R12 R23) g₂ c) :
    transform (fiveSegment M0 M1 M2 M3 M4 R12 R23) g₂ (transform (fiveSegment M0 M1 M2 M3 M4 R12 R23) g₁ c)
      = transform (fiveSegment M0 M1 M2 M3 M4 R12 R23) g₂ c :=
  transform_path_independent _ h.std g₁ g₂ c hg1 hg2 hR hGa hGb hGc

/-- At a fixed mean stress the five-segment result is non-decreasing and Lipschitz (hence continuous) in the amplitude. -/
theorem fiveSegment_monotone_continuous_fixed_mean (h : FiveSegOK M0 M1 M2 M3 M4 R12 R23) (g : ExtR ℝ) (hg : ValidR g) :
    ∃ L, 0 ≤ L ∧ ∀ c₁ c₂ : Cyc ℝ, ValidR c₁.R → ValidR c₂.R → 0 < c₁.amp → c₁.amp ≤ c₂.amp →
      c₁.amp * pos c₁.R = c₂.amp * pos c₂.R →
      TransformGuard (fiveSegment M0 M1 M2 M3 M4 R12 R23) g c₁ → TransformGuard (fiveSegment M0 M1 M2 M3 M4 R12 R23) g c₂ →
      (transform (fiveSegment M0 M1 M2 M3 M4 R12 R23) g c₁).amp ≤ (transform (fiveSegment M0 M1 M2 M3 M4 R12 R23) g c₂).amp ∧
      (transform (fiveSegment M0 M1 M2 M3 M4 R12 R23) g c₂).amp - (transform (fiveSegment M0 M1 M2 M3 M4 R12 R23) g c₁).amp
        ≤ L * (c₂.amp - c₁.amp) := by
  rw [fiveSegment_diagram]
  exact transform_monotone_continuous_fixed_mean M4 M0 0 _ M3 h.sorted h.good g hg

/-- The potential of a cycle `a·h5(m/a)` is non-decreasing and Lipschitz in `a > 0` at every fixed mean stress `m`. -/
theorem h5_monotone_continuous_in_amplitude (h : FiveSegOK M0 M1 M2 M3 M4 R12 R23) :
    ∃ L, 0 ≤ L ∧ ∀ m a₁ a₂ : ℝ, 0 < a₁ → a₁ ≤ a₂ →
      a₁ * h5 M0 M1 M2 M3 M4 R12 R23 (m / a₁) ≤ a₂ * h5 M0 M1 M2 M3 M4 R12 R23 (m / a₂) ∧
      a₂ * h5 M0 M1 M2 M3 M4 R12 R23 (m / a₂) - a₁ * h5 M0 M1 M2 M3 M4 R12 R23 (m / a₁) ≤ L * (a₂ - a₁) :=
  potential_monotone_continuous_in_amplitude M4 M0 0 _ M3 h.sorted h.good

/-- On a fixed ray the five-segment result is linear in the amplitude with a positive factor. -/
theorem fiveSegment_monotone_in_amplitude_fixed_R (h : FiveSegOK M0 M1 M2 M3 M4 R12 R23) (g R : ExtR ℝ) (a₁ a₂ : ℝ)
    (hg : ValidR g) (hR : ValidR R) (h12 : a₁ ≤ a₂)
    (hGa : TransformGuard (fiveSegment M0 M1 M2 M3 M4 R12 R23) g ⟨a₁, R⟩)
    (hGb : TransformGuard (fiveSegment M0 M1 M2 M3 M4 R12 R23) g ⟨a₂, R⟩) :
    (transform (fiveSegment M0 M1 M2 M3 M4 R12 R23) g ⟨a₁, R⟩).amp ≤ (transform (fiveSegment M0 M1 M2 M3 M4 R12 R23) g ⟨a₂, R⟩).amp ∧
    (transform (fiveSegment M0 M1 M2 M3 M4 R12 R23) g ⟨a₂, R⟩).amp - (transform (fiveSegment M0 M1 M2 M3 M4 R12 R23) g ⟨a₁, R⟩).amp
      = (a₂ - a₁) * (h5 M0 M1 M2 M3 M4 R12 R23 (pos R) / h5 M0 M1 M2 M3 M4 R12 R23 (pos g)) := by
  rw [fiveSegment_diagram] at hGa hGb ⊢
  exact transform_monotone_in_amplitude_fixed_R M4 M0 0 _ M3 h.sorted h.good g R a₁ a₂ hg hR h12 hGa hGb

end Five

/-! ### 5. Consistency with the FKM-Goodman results of `Proofs/C12.lean` -/

/-- For `fkm_goodman` the general potential is the Goodman potential `hG`. -/
theorem hD_goodman (M M2 : ℝ) (x : ℝ) : hD 0 M 0 [] M2 x = hG M M2 x := by
  simp only [hD, hC, hG, px0, mul_one]
  split_ifs <;> ring

theorem goodman_std (M M2 : ℝ) (h0 : -1 < M2) (h1 : -1 < M) (h2 : M < 1) : StdDiagram (goodman M M2) :=
  ⟨0, M, 0, [], M2, by rw [goodman_diagram], by simp [SortedR], by
    simp only [GoodD, GoodC, px0, mul_one]; exact ⟨by norm_num, h2, by linarith, by linarith⟩⟩

/-! ### 6. Non-vacuity -/

/-- Parameters `M0 … M4 = 1/2, 1/3, 1/5, 1/10, -2`, `R12 = 1/5`, `R23 = 3/5` (the shape used in pyLife's tests). -/
theorem five_ok : FiveSegOK (1/2) (1/3) (1/5) (1/10) (-2) (1/5) (3/5) :=
  fiveSegOK_of_slopes _ _ _ _ _ _ _ (by norm_num) (by norm_num) (by norm_num) (by norm_num) (by norm_num) (by norm_num)
    (by norm_num) (by norm_num) (by norm_num)

/-- Guard for the cycle of amplitude 1 at R = 7/10 (in `(R23, 1]`) and the target R = -1: the run crosses R23, R12 and 0. -/
theorem guard5_example :
    TransformGuard (fiveSegment (1/2) (1/3) (1/5) (1/10) (-2) (1/5) (3/5)) (fin (-1)) ⟨1, fin (7/10)⟩ := by
  norm_num [TransformGuard, afterRight, afterLeft, segsLeft, segsRight, segsContaining, fiveSegment, segKey, mid, fake,
    goalKey, List.filter, insertAsc, insertDesc, ExtR.lt, ExtR.le, FoldGuard, StepGuard, step, push, memSeg, leftBoundary,
    normGoal, ExtR.isOne, pos, transAmp, fillna0, List.foldl]

example : (transform (fiveSegment (1/2) (1/3) (1/5) (1/10) (-2) (1/5) (3/5)) (fin (-1)) (⟨1, fin (7/10)⟩ : Cyc ℝ)).R = fin (-1) :=
  fiveSegment_arrives_at_target _ _ _ _ _ _ _ (by norm_num) (by norm_num) (by norm_num) _ _ (by norm_num [ValidR]) (by norm_num [ValidR])

/-- … and its transformed amplitude is `27/16 · 18/13 · 47/42 = 3807/1456`. -/
example : (transform (fiveSegment (1/2) (1/3) (1/5) (1/10) (-2) (1/5) (3/5)) (fin (-1)) (⟨1, fin (7/10)⟩ : Cyc ℝ)).amp
    = 3807/1456 := by
  rw [fiveSegment_amp five_ok _ _ (by norm_num [ValidR]) (by norm_num [ValidR]) guard5_example]
  norm_num [h5_explicit, pos, px]

/-- Path independence is not vacuous: first to R = 1/10 (the cycle moves from `(R23, 1]` into `(0, R12]`), then to R = -1. -/
theorem guard5_example_a :
    TransformGuard (fiveSegment (1/2) (1/3) (1/5) (1/10) (-2) (1/5) (3/5)) (fin (1/10)) ⟨1, fin (7/10)⟩ := by
  norm_num [TransformGuard, afterRight, afterLeft, segsLeft, segsRight, segsContaining, fiveSegment, segKey, mid, fake,
    goalKey, List.filter, insertAsc, insertDesc, ExtR.lt, ExtR.le, FoldGuard, StepGuard, step, push, memSeg, leftBoundary,
    normGoal, ExtR.isOne, pos, transAmp, fillna0, List.foldl]

theorem transform5_example_a :
    transform (fiveSegment (1/2) (1/3) (1/5) (1/10) (-2) (1/5) (3/5)) (fin (1/10)) (⟨1, fin (7/10)⟩ : Cyc ℝ)
      = ⟨11421/6916, fin (1/10)⟩ := by
  norm_num [transform, segsLeft, segsRight, segsContaining, fiveSegment, segKey, mid, fake,
    goalKey, List.filter, insertAsc, insertDesc, ExtR.lt, ExtR.le, step, push, leftBoundary,
    ExtR.isOne, transAmp, fillna0, List.foldl]

theorem guard5_example_b :
    TransformGuard (fiveSegment (1/2) (1/3) (1/5) (1/10) (-2) (1/5) (3/5)) (fin (-1)) ⟨11421/6916, fin (1/10)⟩ := by
  norm_num [TransformGuard, afterRight, afterLeft, segsLeft, segsRight, segsContaining, fiveSegment, segKey, mid, fake,
    goalKey, List.filter, insertAsc, insertDesc, ExtR.lt, ExtR.le, FoldGuard, StepGuard, step, push, memSeg, leftBoundary,
    normGoal, ExtR.isOne, pos, transAmp, fillna0, List.foldl]

example :
    transform (fiveSegment (1/2) (1/3) (1/5) (1/10) (-2) (1/5) (3/5)) (fin (-1))
      (transform (fiveSegment (1/2) (1/3) (1/5) (1/10) (-2) (1/5) (3/5)) (fin (1/10)) (⟨1, fin (7/10)⟩ : Cyc ℝ))
    = transform (fiveSegment (1/2) (1/3) (1/5) (1/10) (-2) (1/5) (3/5)) (fin (-1)) (⟨1, fin (7/10)⟩ : Cyc ℝ) := by
  have hb : TransformGuard (fiveSegment (1/2) (1/3) (1/5) (1/10) (-2) (1/5) (3/5)) (fin (-1))
      (transform (fiveSegment (1/2) (1/3) (1/5) (1/10) (-2) (1/5) (3/5)) (fin (1/10)) (⟨1, fin (7/10)⟩ : Cyc ℝ)) := by
    rw [transform5_example_a]; exact guard5_example_b
  have v1 : ValidR (fin (1/10) : ExtR ℝ) := by norm_num [ValidR]
  have v2 : ValidR (fin (-1) : ExtR ℝ) := by norm_num [ValidR]
  have v3 : ValidR (⟨1, fin (7/10)⟩ : Cyc ℝ).R := by norm_num [ValidR]
  exact fiveSegment_path_independent five_ok (fin (1/10)) (fin (-1)) ⟨1, fin (7/10)⟩ v1 v2 v3 guard5_example_a hb guard5_example

/-- A `from_dict` diagram with six segments, listed in a rotated order (`(0,1/3], (1/3,2/3], (2/3,1], (1,∞], (-∞,-1/2], (-1/2,0]`). -/
example : StdDiagram [⟨fin 0, fin (1/3), 1/10⟩, ⟨fin (1/3), fin (2/3), 1/20⟩, ⟨fin (2/3), fin 1, 1/50⟩, ⟨fin 1, pinf, 0⟩,
    ⟨ninf, fin (-1/2), 3/10⟩, ⟨fin (-1/2), fin 0, 1/5⟩] :=
  ⟨0, 3/10, -1/2, [(1/5, 0), (1/10, 1/3), (1/20, 2/3)], 1/50, by
    simp only [diagram, chainR, Sinf, S0]
    exact (List.perm_append_comm (l₁ := [_, _, _]) (l₂ := [_, _, _])), by norm_num [SortedR], by norm_num [GoodD, GoodC, px]⟩

example : StdDiagram (diagram 0 (3/10) (-1/2) [(1/5, 0), (1/10, 1/3), (1/20, 2/3)] (1/50)) :=
  ⟨_, _, _, _, _, List.Perm.refl _, by norm_num [SortedR], by norm_num [GoodD, GoodC, px]⟩

end PylifeVerif.C12
