/-
C06 — the Newton iteration of the REPAIRED backward functions of the extended Neuber law
(`ExtendedNeuber.load` / `load_secondary_branch`, repo commits c6e709f (derivative) and
ba2ed2a (start of the Newton iteration)).

`f(L) = _load_implicit(L, σ) = ε(σ) − (L/σ)·K_p·e*(L)` for a fixed stress `σ > 0`.

* `neuber_dload_is_derivative`: the derivative the repaired code hands to Newton's method,
  `_d_load_implicit = −(1/σ)·K_p·e*(L) − (L/σ)·K_p·(tangential_compliance(L/K_p)/K_p)`, IS `f'(L)`;
  `neuber_dload_unrepaired_is_not`: the expression of the unrepaired tree (`_d_e_star` adds `1/(K_p·E)` although
  `tangential_compliance` already contains `1/E`) is not.
* `neuberProduct_convexOn`: `L·K_p·e*(L)` is convex on `L ≥ 0`, so `f` is concave there.
* `neuber_backward_newton_monotone`: started at the upper end `K_p·σ` of the bracket every iterate stays above the root
  and the iterates decrease: the iteration cannot overshoot (which is what it does when started at `σ`, where `f` is
  nearly flat as long as the plastic strain is small).

`roCompliance` / `dLoadImplicit` / `newtonLoad` are written here from the source of the repaired tree; they are NOT part of
the model the correspondence check runs (the derivative is not an observable of the property, and on the unrepaired tree the
code's derivative differs by design).  What the solver returns stays a measured fact (oracle + correspondence of `load`).
-/
import Proofs.C06
import Mathlib.Analysis.Convex.SpecificFunctions.Basic
import Mathlib.Analysis.Convex.Deriv
import Mathlib.Analysis.Convex.Mul
import Mathlib.Analysis.SpecialFunctions.Pow.Deriv

namespace PylifeVerif.C06
open PylifeVerif.Notch Set

variable {m : Mat ℝ}

/-- `RambergOsgood.tangential_compliance` for a positive stress: `1/E + 1/(n' K') · (σ/K')^(1/n' − 1)` -/
noncomputable def roCompliance (m : Mat ℝ) (s : ℝ) : ℝ := 1 / m.E + 1 / (m.n * m.K) * (s / m.K) ^ (1 / m.n - 1)

/-- `ExtendedNeuber._d_load_implicit(L, σ)` of the repaired tree (`σ ≠ 0`), `_d_e_star(L) = tangential_compliance(L/K_p)/K_p` -/
noncomputable def dLoadImplicit (m : Mat ℝ) (L s : ℝ) : ℝ :=
  -(1 / s) * m.Kp * eStar m L - L / s * m.Kp * (roCompliance m (L / m.Kp) / m.Kp)

/-- the same with `_d_e_star` of the unrepaired tree: `1/(K_p·E) + tangential_compliance(L/K_p)/K_p` -/
noncomputable def dLoadImplicitUnrepaired (m : Mat ℝ) (L s : ℝ) : ℝ :=
  -(1 / s) * m.Kp * eStar m L - L / s * m.Kp * (1 / (m.Kp * m.E) + roCompliance m (L / m.Kp) / m.Kp)

/-- Newton's method for `f(L) = 0` started at `K_p·σ` (the repaired `load`) -/
noncomputable def newtonLoad (m : Mat ℝ) (s : ℝ) : ℕ → ℝ
  | 0 => m.Kp * s
  | k + 1 => newtonLoad m s k - stressImplicit m s (newtonLoad m s k) / dLoadImplicit m (newtonLoad m s k) s

theorem roStrain_hasDerivAt (h : m.Adm) {x : ℝ} (hx : 0 < x) : HasDerivAt (roStrain m) (roCompliance m x) x := by
  have hK := h.K_pos
  have h1 : HasDerivAt (fun s : ℝ => s / m.E) (1 / m.E) x := (hasDerivAt_id x).div_const m.E
  have h2 : HasDerivAt (fun s : ℝ => (s / m.K) ^ (1 / m.n)) (1 / m.K * (1 / m.n) * (x / m.K) ^ (1 / m.n - 1)) x :=
    ((hasDerivAt_id x).div_const m.K).rpow_const (Or.inl (div_pos hx hK).ne')
  have h3 := h1.add h2
  have hev : roStrain m =ᶠ[nhds x] fun s => s / m.E + (s / m.K) ^ (1 / m.n) := by
    filter_upwards [Ioi_mem_nhds hx] with s hs
    exact roStrain_of_nonneg h (le_of_lt hs)
  have h4 := h3.congr_of_eventuallyEq hev
  have e : roCompliance m x = 1 / m.E + 1 / m.K * (1 / m.n) * (x / m.K) ^ (1 / m.n - 1) := by
    unfold roCompliance
    have := h.n_pos
    field_simp
  rw [e]; exact h4

theorem roCompliance_pos (h : m.Adm) {x : ℝ} (hx : 0 < x) : 0 < roCompliance m x := by
  unfold roCompliance
  have h1 : 0 < 1 / m.E := one_div_pos.mpr h.E_pos
  have h2 : 0 < 1 / (m.n * m.K) := one_div_pos.mpr (mul_pos h.n_pos h.K_pos)
  have h3 : 0 < (x / m.K) ^ (1 / m.n - 1) := Real.rpow_pos_of_pos (div_pos hx h.K_pos) _
  positivity

theorem neuberProduct_hasDerivAt (h : m.Adm) {L : ℝ} (hL : 0 < L) :
    HasDerivAt (neuberProduct m) (m.Kp * eStar m L + L * m.Kp * (roCompliance m (L / m.Kp) / m.Kp)) L := by
  have hKp := h.Kp_pos
  have h1 : HasDerivAt (fun L : ℝ => L * m.Kp) m.Kp L := by
    simpa using (hasDerivAt_id L).mul_const m.Kp
  have h2 : HasDerivAt (fun L : ℝ => L / m.Kp) (1 / m.Kp) L := (hasDerivAt_id L).div_const m.Kp
  have h3 : HasDerivAt (roStrain m ∘ fun L : ℝ => L / m.Kp) (roCompliance m (L / m.Kp) * (1 / m.Kp)) L :=
    HasDerivAt.comp L (roStrain_hasDerivAt h (div_pos hL hKp)) h2
  have h4 := h1.mul h3
  have e : m.Kp * eStar m L + L * m.Kp * (roCompliance m (L / m.Kp) / m.Kp)
      = m.Kp * roStrain m (L / m.Kp) + L * m.Kp * (roCompliance m (L / m.Kp) * (1 / m.Kp)) := by
    rw [eStar_eq]; ring
  rw [e]
  exact h4

/-- **The repaired `_d_load_implicit` is the derivative of `_load_implicit`** (`σ > 0`, `L > 0`). -/
theorem neuber_dload_is_derivative (h : m.Adm) {s L : ℝ} (hs : 0 < s) (hL : 0 < L) :
    HasDerivAt (fun L' => stressImplicit m s L') (dLoadImplicit m L s) L := by
  have hg := (neuberProduct_hasDerivAt h hL).div_const s
  have hc : HasDerivAt (fun _ : ℝ => roStrain m s) 0 L := hasDerivAt_const L _
  have hd := hc.sub hg
  have hfun : (fun L' => stressImplicit m s L') = fun L' => roStrain m s - neuberProduct m L' / s := by
    funext L'; exact stressImplicit_of_ne m hs.ne' L'
  rw [hfun]
  have e : dLoadImplicit m L s = 0 - (m.Kp * eStar m L + L * m.Kp * (roCompliance m (L / m.Kp) / m.Kp)) / s := by
    unfold dLoadImplicit; field_simp; ring
  rw [e]; exact hd

/-- **The unrepaired expression is not the derivative**: it is off by `−L/(σ·E)`. -/
theorem neuber_dload_unrepaired_is_not (h : m.Adm) {s L : ℝ} (hs : 0 < s) (hL : 0 < L) :
    dLoadImplicitUnrepaired m L s = dLoadImplicit m L s - L / (s * m.E) ∧
    ¬ HasDerivAt (fun L' => stressImplicit m s L') (dLoadImplicitUnrepaired m L s) L := by
  have hKp := h.Kp_pos
  have hE := h.E_pos
  have e : dLoadImplicitUnrepaired m L s = dLoadImplicit m L s - L / (s * m.E) := by
    unfold dLoadImplicitUnrepaired dLoadImplicit; field_simp; ring
  refine ⟨e, fun hd => ?_⟩
  have := hd.unique (neuber_dload_is_derivative h hs hL)
  rw [e] at this
  have hpos : 0 < L / (s * m.E) := div_pos hL (mul_pos hs hE)
  linarith

theorem dLoadImplicit_neg (h : m.Adm) {s L : ℝ} (hs : 0 < s) (hL : 0 < L) : dLoadImplicit m L s < 0 := by
  have hKp := h.Kp_pos
  have he := eStar_pos h hL
  have hc := roCompliance_pos h (div_pos hL hKp)
  have e : dLoadImplicit m L s = -((m.Kp * eStar m L + L * roCompliance m (L / m.Kp)) / s) := by
    unfold dLoadImplicit; field_simp; ring
  rw [e, neg_lt_zero]
  have : 0 < m.Kp * eStar m L + L * roCompliance m (L / m.Kp) := by positivity
  positivity

/-- `L·K_p·e*(L)` is convex on `L ≥ 0` -/
theorem neuberProduct_convexOn (h : m.Adm) : ConvexOn ℝ (Ici 0) (neuberProduct m) := by
  have hKp := h.Kp_pos
  have hK := h.K_pos
  have hp : 1 ≤ 1 + 1 / m.n := by linarith [h.p_pos]
  have hc1 : ConvexOn ℝ (Ici (0 : ℝ)) fun x : ℝ => (1 / m.E) • x ^ (2 : ℕ) :=
    ((convexOn_pow 2).smul (one_div_pos.mpr h.E_pos).le)
  have hb : 0 ≤ m.Kp / (m.Kp * m.K) ^ (1 / m.n) := div_nonneg hKp.le (Real.rpow_nonneg (mul_pos hKp hK).le _)
  have hc2 : ConvexOn ℝ (Ici (0 : ℝ)) fun x : ℝ => (m.Kp / (m.Kp * m.K) ^ (1 / m.n)) • x ^ (1 + 1 / m.n) :=
    (convexOn_rpow hp).smul hb
  refine (hc1.add hc2).congr ?_
  intro L hL
  have hL0 : 0 ≤ L := hL
  show (1 / m.E) • L ^ (2 : ℕ) + (m.Kp / (m.Kp * m.K) ^ (1 / m.n)) • L ^ (1 + 1 / m.n) = neuberProduct m L
  unfold neuberProduct
  rw [eStar_eq, roStrain_of_nonneg h (div_nonneg hL0 hKp.le)]
  have e1 : L / m.Kp / m.K = L / (m.Kp * m.K) := by rw [div_div]
  rw [e1, Real.div_rpow hL0 (mul_pos hKp hK).le, Real.rpow_one_add' hL0 (by linarith [h.p_pos] : 1 + 1 / m.n ≠ 0)]
  have hden : 0 < (m.Kp * m.K) ^ (1 / m.n) := Real.rpow_pos_of_pos (mul_pos hKp hK) _
  simp only [smul_eq_mul]
  field_simp

/-- one Newton step for `g(L) = c` with a convex `g` from a point right of the root: stays right of the root, moves left -/
theorem newton_step_convex {g : ℝ → ℝ} {S : Set ℝ} (hconv : ConvexOn ℝ S g) {r x g' c : ℝ} (hr : r ∈ S) (hx : x ∈ S)
    (hrx : r ≤ x) (hroot : g r = c) (hd : HasDerivAt g g' x) (hpos : 0 < g') (hge : c ≤ g x) :
    r ≤ x - (g x - c) / g' ∧ x - (g x - c) / g' ≤ x := by
  constructor
  · rcases hrx.eq_or_lt with rfl | hlt
    · rw [hroot]; simp
    · have hs := hconv.slope_le_of_hasDerivAt hr hx hlt hd
      rw [slope_def_field, div_le_iff₀ (sub_pos.mpr hlt), hroot] at hs
      have : (g x - c) / g' ≤ x - r := by rw [div_le_iff₀ hpos]; linarith
      linarith
  · have : 0 ≤ (g x - c) / g' := div_nonneg (sub_nonneg.mpr hge) hpos.le
    linarith

/-- **Newton's method of the repaired backward function is monotone**: started at `K_p·σ` all iterates stay in
`[root, K_p·σ]` and decrease. -/
theorem neuber_backward_newton_monotone (h : m.Adm) {s : ℝ} (hs : 0 < s) :
    ∃ r, s ≤ r ∧ r ≤ m.Kp * s ∧ stressImplicit m s r = 0 ∧
      ∀ k, r ≤ newtonLoad m s (k + 1) ∧ newtonLoad m s (k + 1) ≤ newtonLoad m s k ∧ newtonLoad m s k ≤ m.Kp * s := by
  obtain ⟨⟨r, hr1, hr2, hroot⟩, _⟩ := neuber_load_inverse h hs
  have hr0 : 0 < r := lt_of_lt_of_le hs hr1
  have hrootG : neuberProduct m r = s * roStrain m s := ((stressImplicit_eq_zero_iff m hs.ne' r).mp hroot).symm
  refine ⟨r, hr1, hr2, hroot, ?_⟩
  -- invariant: r ≤ x_k ≤ K_p σ
  have key : ∀ x, r ≤ x →
      r ≤ x - stressImplicit m s x / dLoadImplicit m x s ∧ x - stressImplicit m s x / dLoadImplicit m x s ≤ x := by
    intro x hx
    have hx0 : 0 < x := lt_of_lt_of_le hr0 hx
    have hd := neuberProduct_hasDerivAt h hx0
    have hg'pos : 0 < m.Kp * eStar m x + x * m.Kp * (roCompliance m (x / m.Kp) / m.Kp) := by
      have := eStar_pos h hx0
      have := roCompliance_pos h (div_pos hx0 h.Kp_pos)
      have := h.Kp_pos
      positivity
    have hge : s * roStrain m s ≤ neuberProduct m x := by
      rcases hx.eq_or_lt with rfl | hlt
      · exact hrootG.ge
      · exact hrootG ▸ ((neuberProduct_strictMonoOn h) (mem_Ioi.mpr hr0) (mem_Ioi.mpr hx0) hlt).le
    have hstep := newton_step_convex (neuberProduct_convexOn h) (mem_Ici.mpr hr0.le) (mem_Ici.mpr hx0.le) hx hrootG hd
      hg'pos hge
    have e : stressImplicit m s x / dLoadImplicit m x s
        = (neuberProduct m x - s * roStrain m s) / (m.Kp * eStar m x + x * m.Kp * (roCompliance m (x / m.Kp) / m.Kp)) := by
      rw [stressImplicit_of_ne m hs.ne']
      have hne : dLoadImplicit m x s ≠ 0 := (dLoadImplicit_neg h hs hx0).ne
      have e2 : dLoadImplicit m x s = -((m.Kp * eStar m x + x * m.Kp * (roCompliance m (x / m.Kp) / m.Kp)) / s) := by
        unfold dLoadImplicit; field_simp; ring
      rw [e2, div_neg, div_div_eq_mul_div, ← neg_div]
      congr 1
      field_simp
      ring
    rw [e]; exact hstep
  have inv : ∀ k, r ≤ newtonLoad m s k ∧ newtonLoad m s k ≤ m.Kp * s := by
    intro k
    induction k with
    | zero => exact ⟨hr2, le_refl _⟩
    | succ k ih =>
      obtain ⟨h1, h2⟩ := key _ ih.1
      exact ⟨h1, le_trans h2 ih.2⟩
  intro k
  obtain ⟨h1, h2⟩ := key _ (inv k).1
  exact ⟨h1, h2, (inv k).2⟩

example : (⟨206000, 383.84, 0.176, 3.5⟩ : Mat ℝ).Adm ∧ (0 : ℝ) < 333.42 := by
  refine ⟨by constructor <;> norm_num, by norm_num⟩

end PylifeVerif.C06
