/-
C16 — closed-form material laws are invertible and differentiate consistently.

Every theorem below is about the definitions in `Generated/MaterialLaws.lean`, which
/verif/translate/translate.py regenerates from the CURRENT source of
  src/pylife/materiallaws/{rambgood.py, hookeslaw.py, true_stress_strain.py}
on every `./check C16` (instantiated at `α := ℝ` through `Proofs.RealNum`).  Editing a coefficient in the
Python source changes the generated definition and these proofs stop compiling.  The proofs reach the generated
definitions only through the interface lemmas of `Proofs/Lemmas/MaterialLawsGen.lean` (`gen_bridge`: unfold everything
generated, normalise spellings, close as an identity of fields), so a harmless respelling of the source keeps them valid.
`Generated.MaterialLawsStatus` fails to build when the translator could not translate a whitelisted
function (a broken proof obligation).

Parameter range of the property: E > 0, K > 0, 0 < n < 1, -1 < ν < 1/2.

`RambergOsgood.stress` / `delta_stress` are a Newton iteration (scipy) in the source.  The theorems are about
the EXACT inverse: existence and uniqueness (`ro_stress_exists_unique`), the total function `roStress` with both
round trips, and `ro_stress_unique` (whatever exact root a solver returns IS `roStress ε`).  `delta_stress`
is translated with the solver as a function parameter `stress_fn`; `masing_inverse` holds for every exact
inverse `stress_fn`.  Convergence of the Newton iteration is runtime behaviour, measured by the harness.
-/
import Proofs.Lemmas.MaterialLawsGen
import Generated.MaterialLawsStatus

-- fall-back alternatives (`<;> ring`, `first | … | …`) keep the proofs stable under harmless re-orderings of the
-- translated source; on the current source some of them are not reached
set_option linter.unusedTactic false
set_option linter.unreachableTactic false
set_option linter.unusedVariables false
set_option linter.unnecessarySeqFocus false
set_option linter.unusedSimpArgs false

namespace PylifeVerif.C16
open PylifeVerif.Generated PylifeVerif.C16L

/-! ## Ramberg-Osgood -/

/-- strain is odd -/
theorem ro_strain_odd (E K n σ : ℝ) :
    RambergOsgood.strain E K n (-σ) = -RambergOsgood.strain E K n σ := by
  rw [ro_strain_eq_curve]; exact curve_neg_arg _ _ _ _

example : RambergOsgood.strain (206000:ℝ) 1184 0.187 (-400) = -RambergOsgood.strain 206000 1184 0.187 400 :=
  ro_strain_odd _ _ _ _

/-- strain is strictly increasing in the stress -/
theorem ro_strain_strictMono {E K n : ℝ} (hE : 0 < E) (hK : 0 < K) (hn0 : 0 < n) (hn1 : n < 1) :
    StrictMono (RambergOsgood.strain E K n) := by
  rw [ro_strain_eq_curve]; exact curve_strictMono hE hK (one_lt_one_div hn0 hn1)

example : StrictMono (RambergOsgood.strain (206000:ℝ) 1184 0.187) :=
  ro_strain_strictMono (by norm_num) (by norm_num) (by norm_num) (by norm_num)

/-- strain is continuous and a bijection ℝ → ℝ: for every strain there is exactly one stress -/
theorem ro_strain_bijective {E K n : ℝ} (hE : 0 < E) (hK : 0 < K) (hn0 : 0 < n) (hn1 : n < 1) :
    Continuous (RambergOsgood.strain E K n) ∧ Function.Bijective (RambergOsgood.strain E K n) := by
  rw [ro_strain_eq_curve]
  exact ⟨curve_continuous hK (one_lt_one_div hn0 hn1), curve_bijective hE hK (one_lt_one_div hn0 hn1)⟩

example : Function.Bijective (RambergOsgood.strain (206000:ℝ) 1184 0.187) :=
  (ro_strain_bijective (by norm_num) (by norm_num) (by norm_num) (by norm_num)).2

theorem ro_stress_exists_unique {E K n : ℝ} (hE : 0 < E) (hK : 0 < K) (hn0 : 0 < n) (hn1 : n < 1) (ε : ℝ) :
    ∃! σ, RambergOsgood.strain E K n σ = ε :=
  (ro_strain_bijective hE hK hn0 hn1).2.existsUnique ε

example : ∃! σ, RambergOsgood.strain (206000:ℝ) 1184 0.187 σ = 0.1378 :=
  ro_stress_exists_unique (by norm_num) (by norm_num) (by norm_num) (by norm_num) _

/-- The exact inverse of `strain` (what `RambergOsgood.stress` approximates by Newton's method). -/
noncomputable def roStress (E K n : ℝ) : ℝ → ℝ := Function.invFun (RambergOsgood.strain E K n)

theorem roStress_eq_curveInv (E K n : ℝ) : roStress E K n = curveInv E K (1 / n) := by
  unfold roStress curveInv; rw [ro_strain_eq_curve]

/-- `strain(stress(e)) = e` and `stress(strain(s)) = s` for the exact inverse; it is odd, strictly
increasing and continuous; and every exact root of `strain σ = ε` equals it (so a converged solver can only
return this value). -/
theorem ro_stress_strain_inverse {E K n : ℝ} (hE : 0 < E) (hK : 0 < K) (hn0 : 0 < n) (hn1 : n < 1) :
    (∀ ε, RambergOsgood.strain E K n (roStress E K n ε) = ε) ∧
    (∀ σ, roStress E K n (RambergOsgood.strain E K n σ) = σ) ∧
    (∀ σ ε, RambergOsgood.strain E K n σ = ε → σ = roStress E K n ε) ∧
    (∀ ε, roStress E K n (-ε) = -roStress E K n ε) ∧
    StrictMono (roStress E K n) ∧ Continuous (roStress E K n) := by
  have hp := one_lt_one_div hn0 hn1
  rw [roStress_eq_curveInv, ro_strain_eq_curve]
  exact ⟨curve_curveInv hE hK hp, curveInv_curve hE hK hp, fun σ ε h => curveInv_unique hE hK hp h,
    curveInv_neg_arg hE hK hp, curveInv_strictMono hE hK hp, curveInv_continuous hE hK hp⟩

example : RambergOsgood.strain (206000:ℝ) 1184 0.187 (roStress 206000 1184 0.187 0.1378) = 0.1378 :=
  (ro_stress_strain_inverse (by norm_num) (by norm_num) (by norm_num) (by norm_num)).1 _

/-- The tangential compliance is the derivative of the strain at EVERY stress: σ ≠ 0 and σ = 0
(where it equals 1/E because 1/n > 1). -/
theorem ro_hasDerivAt_compliance {E K n : ℝ} (hK : 0 < K) (hn0 : 0 < n) (hn1 : n < 1) (σ : ℝ) :
    HasDerivAt (RambergOsgood.strain E K n) (RambergOsgood.tangential_compliance E K n σ) σ := by
  rw [ro_strain_eq_curve, ro_compliance_eq_compl hK.ne' hn0.ne']
  exact curve_hasDerivAt hK (one_lt_one_div hn0 hn1) σ

theorem ro_compliance_at_zero {E K n : ℝ} (hK : 0 < K) (hn0 : 0 < n) (hn1 : n < 1) :
    RambergOsgood.tangential_compliance E K n 0 = 1 / E := by
  rw [ro_compliance_eq_compl hK.ne' hn0.ne']; exact compl_zero (one_lt_one_div hn0 hn1)

example : HasDerivAt (RambergOsgood.strain (206000:ℝ) 1184 0.187)
    (RambergOsgood.tangential_compliance 206000 1184 0.187 (-400)) (-400) :=
  ro_hasDerivAt_compliance (by norm_num) (by norm_num) (by norm_num) _
example : HasDerivAt (RambergOsgood.strain (206000:ℝ) 1184 0.187) (1 / 206000) 0 := by
  have := ro_hasDerivAt_compliance (E := (206000:ℝ)) (K := 1184) (n := 0.187) (by norm_num) (by norm_num) (by norm_num) 0
  rwa [ro_compliance_at_zero (by norm_num) (by norm_num) (by norm_num)] at this

/-- The tangential modulus is the reciprocal of the (positive) compliance, and it is the derivative of the
exact inverse (stress w.r.t. strain) at the corresponding point. -/
theorem ro_modulus_is_reciprocal {E K n : ℝ} (hE : 0 < E) (hK : 0 < K) (hn0 : 0 < n) (σ : ℝ) :
    0 < RambergOsgood.tangential_compliance E K n σ ∧
    RambergOsgood.tangential_modulus E K n σ = (RambergOsgood.tangential_compliance E K n σ)⁻¹ ∧
    RambergOsgood.tangential_modulus E K n σ * RambergOsgood.tangential_compliance E K n σ = 1 := by
  have hpos : 0 < RambergOsgood.tangential_compliance E K n σ := by
    rw [ro_compliance_eq_compl hK.ne' hn0.ne']; exact compl_pos hE hK (by positivity)
  have hm := ro_modulus_eq E K n σ
  exact ⟨hpos, hm, by rw [hm, inv_mul_cancel₀ hpos.ne']⟩

theorem ro_modulus_is_derivative_of_stress {E K n : ℝ} (hE : 0 < E) (hK : 0 < K) (hn0 : 0 < n) (hn1 : n < 1)
    (ε : ℝ) :
    HasDerivAt (roStress E K n) (RambergOsgood.tangential_modulus E K n (roStress E K n ε)) ε := by
  rw [(ro_modulus_is_reciprocal hE hK hn0 _).2.1, ro_compliance_eq_compl hK.ne' hn0.ne', roStress_eq_curveInv]
  exact curveInv_hasDerivAt hE hK (one_lt_one_div hn0 hn1) ε

example : RambergOsgood.tangential_modulus (206000:ℝ) 1184 0.187 300
    * RambergOsgood.tangential_compliance 206000 1184 0.187 300 = 1 :=
  (ro_modulus_is_reciprocal (by norm_num) (by norm_num) (by norm_num) _).2.2
example : HasDerivAt (roStress (206000:ℝ) 1184 0.187)
    (RambergOsgood.tangential_modulus 206000 1184 0.187 (roStress 206000 1184 0.187 0.01)) 0.01 :=
  ro_modulus_is_derivative_of_stress (by norm_num) (by norm_num) (by norm_num) (by norm_num) _

/-- Masing: the range function is the doubled curve. -/
theorem masing_delta_is_doubled (E K n Δσ : ℝ) :
    RambergOsgood.delta_strain E K n Δσ = 2 * RambergOsgood.strain E K n (Δσ / 2) := by
  exact ro_delta_strain_eq _ _ _ _

example : RambergOsgood.delta_strain (206000:ℝ) 1184 0.187 800 = 2 * RambergOsgood.strain 206000 1184 0.187 (800 / 2) :=
  masing_delta_is_doubled _ _ _ _

/-- Masing: `delta_stress` (translated with the solver as parameter `stress_fn`) and `delta_strain` are
mutual inverses for EVERY exact inverse `stress_fn` of `strain`; and `delta_stress` is the doubled inverse. -/
theorem masing_inverse {E K n : ℝ} (hE : 0 < E) (hK : 0 < K) (hn0 : 0 < n) (hn1 : n < 1)
    (stress_fn : ℝ → ℝ) (hinv : ∀ ε, RambergOsgood.strain E K n (stress_fn ε) = ε) :
    (∀ Δε, RambergOsgood.delta_strain E K n (RambergOsgood.delta_stress E K n stress_fn Δε) = Δε) ∧
    (∀ Δσ, RambergOsgood.delta_stress E K n stress_fn (RambergOsgood.delta_strain E K n Δσ) = Δσ) ∧
    (∀ Δε, RambergOsgood.delta_stress E K n stress_fn Δε = 2 * roStress E K n (Δε / 2)) := by
  have hinj := (ro_strain_bijective hE hK hn0 hn1).2.1
  have hleft : ∀ σ, stress_fn (RambergOsgood.strain E K n σ) = σ := fun σ => hinj (hinv _)
  refine ⟨fun Δε => ?_, fun Δσ => ?_, fun Δε => ?_⟩
  · rw [ro_delta_strain_eq, ro_delta_stress_eq, mul_div_cancel_left₀ _ (two_ne_zero), hinv]; ring
  · rw [ro_delta_strain_eq, ro_delta_stress_eq, mul_div_cancel_left₀ _ (two_ne_zero), hleft]; ring
  · rw [ro_delta_stress_eq, (ro_stress_strain_inverse hE hK hn0 hn1).2.2.1 _ _ (hinv (Δε / 2))]

example : RambergOsgood.delta_strain (206000:ℝ) 1184 0.187
    (RambergOsgood.delta_stress 206000 1184 0.187 (roStress 206000 1184 0.187) 0.02) = 0.02 :=
  (masing_inverse (by norm_num) (by norm_num) (by norm_num) (by norm_num) _
    (ro_stress_strain_inverse (by norm_num) (by norm_num) (by norm_num) (by norm_num)).1).1 _

/-- The lower hysteresis branch meets the curve at the reversal point (stress = max_stress), which the code
accepts (it raises exactly for stress > max_stress); the branch ends on the mirrored curve at -max_stress. -/
theorem lower_hysteresis_meets_curve (E K n σmax : ℝ) :
    RambergOsgood.lower_hysteresis E K n σmax σmax = RambergOsgood.strain E K n σmax ∧
    RambergOsgood.lower_hysteresis E K n (-σmax) σmax = -RambergOsgood.strain E K n σmax ∧
    (∀ σ, RambergOsgood.lower_hysteresis_raises E K n σ σmax = false ↔ σ ≤ σmax) := by
  refine ⟨?_, ?_, fun σ => ro_lower_hysteresis_guard E K n σ σmax⟩
  · rw [ro_lower_hysteresis_eq, masing_delta_is_doubled, ro_strain_eq_curve]
    simp
  · rw [ro_lower_hysteresis_eq, masing_delta_is_doubled, ro_strain_eq_curve]
    rw [show (σmax - -σmax) / 2 = σmax by ring]; ring

example : RambergOsgood.lower_hysteresis (206000:ℝ) 1184 0.187 400 400 = RambergOsgood.strain 206000 1184 0.187 400 :=
  (lower_hysteresis_meets_curve _ _ _ _).1
example : RambergOsgood.lower_hysteresis_raises (206000:ℝ) 1184 0.187 400 400 = false :=
  ((lower_hysteresis_meets_curve _ _ _ _).2.2 400).mpr le_rfl

/-! ## Hooke's law.  Parameter range: E > 0, -1 < ν < 1/2 (open interval: at ν = -1 the shear modulus and
at ν = 1/2 the bulk modulus divide by zero; the constructor accepts the closed interval).

The proofs rewrite the generated functions into the textbook model (`Model/MaterialLaws.lean`) with the interface
lemmas and then compute in the textbook model. -/

open PylifeVerif.MaterialLaws in
/-- 1D: both round trips -/
theorem hooke1d_stress_strain_id {E : ℝ} (hE : 0 < E) (x : ℝ) :
    HookesLaw1d.stress E (HookesLaw1d.strain E x) = x ∧ HookesLaw1d.strain E (HookesLaw1d.stress E x) = x := by
  have := hE.ne'
  simp only [hooke1d_stress_eq, hooke1d_strain_eq, hooke1dStress, hooke1dStrain]
  constructor <;> field_simp

example : HookesLaw1d.stress (206000:ℝ) (HookesLaw1d.strain 206000 350) = 350 :=
  (hooke1d_stress_strain_id (by norm_num) _).1

/-- the constructor guard: it raises exactly outside -1 ≤ ν ≤ 1/2 -/
theorem hooke_init_guard (E nu : ℝ) :
    (HookesLaw3d.init_raises E nu = false ↔ (-1 ≤ nu ∧ nu ≤ 1 / 2)) ∧
    (HookesLaw2dPlaneStress.init_raises E nu = false ↔ (-1 ≤ nu ∧ nu ≤ 1 / 2)) ∧
    (HookesLaw2dPlaneStrain.init_raises E nu = false ↔ (-1 ≤ nu ∧ nu ≤ 1 / 2)) :=
  hooke_init_guard_eq E nu

example : HookesLaw3d.init_raises (206000:ℝ) 0.3 = false :=
  (hooke_init_guard _ _).1.mpr (by norm_num)

open PylifeVerif.MaterialLaws in
/-- shear and bulk modulus follow from E and ν (all three classes) -/
theorem hooke_moduli (E nu : ℝ) :
    HookesLaw3d.attr_G E nu = E / (2 * (1 + nu)) ∧ HookesLaw3d.attr_K E nu = E / (3 * (1 - 2 * nu)) ∧
    HookesLaw2dPlaneStress.attr_G E nu = E / (2 * (1 + nu)) ∧ HookesLaw2dPlaneStress.attr_K E nu = E / (3 * (1 - 2 * nu)) ∧
    HookesLaw2dPlaneStrain.attr_G E nu = E / (2 * (1 + nu)) ∧ HookesLaw2dPlaneStrain.attr_K E nu = E / (3 * (1 - 2 * nu)) := by
  obtain ⟨g1, g2, g3⟩ := hooke_G_eq E nu
  obtain ⟨k1, k2, k3⟩ := hooke_K_eq E nu
  simp only [g1, g2, g3, k1, k2, k3, shearModulus, bulkModulus, lit_one, lit_two, lit_three, and_self]

example : HookesLaw3d.attr_G (206000:ℝ) 0.3 = 206000 / (2 * (1 + 0.3)) := (hooke_moduli _ _).1

/-- closes the components of a Hooke identity in the textbook model -/
macro "hooke_textbook" : tactic => `(tactic|
  ((repeat' apply And.intro) <;> first | trivial | (field_simp; done) | (field_simp; ring)))

open PylifeVerif.MaterialLaws in
/-- 3D: stress(strain(s)) = s and strain(stress(e)) = e, componentwise -/
theorem hooke3d_stress_strain_id {E nu : ℝ} (hE : 0 < E) (h1 : -1 < nu) (h2 : nu < 1 / 2)
    (a b c d e f : ℝ) :
    (let ε := HookesLaw3d.strain E nu a b c d e f
     HookesLaw3d.stress E nu ε.1 ε.2.1 ε.2.2.1 ε.2.2.2.1 ε.2.2.2.2.1 ε.2.2.2.2.2 = (a, b, c, d, e, f)) ∧
    (let σ := HookesLaw3d.stress E nu a b c d e f
     HookesLaw3d.strain E nu σ.1 σ.2.1 σ.2.2.1 σ.2.2.2.1 σ.2.2.2.2.1 σ.2.2.2.2.2 = (a, b, c, d, e, f)) := by
  have s := hookeSide hE h1 h2
  obtain ⟨hE', h3, h4, h6, h6', h5, h5', h7, h8, h9, h10⟩ := hookeSide hE h1 h2
  simp only [hooke3d_strain_eq s, hooke3d_stress_eq s, hooke3dStrain, hooke3dStress, shearModulus,
    lit_one, lit_two, Prod.mk.injEq]
  hooke_textbook

example : (let ε := HookesLaw3d.strain (206000:ℝ) 0.3 100 (-50) 20 10 0 5
     HookesLaw3d.stress 206000 0.3 ε.1 ε.2.1 ε.2.2.1 ε.2.2.2.1 ε.2.2.2.2.1 ε.2.2.2.2.2 = (100, -50, 20, 10, 0, 5)) :=
  (hooke3d_stress_strain_id (by norm_num) (by norm_num) (by norm_num) _ _ _ _ _ _).1

open PylifeVerif.MaterialLaws in
/-- 3D: mean stress = bulk modulus × volumetric strain; a pure shear state written in rotated axes
(s11 = τ, s22 = -τ) strains with the SAME shear modulus (isotropy: G = E/(2(1+ν)) is consistent). -/
theorem hooke3d_moduli_consistent {E nu : ℝ} (hE : 0 < E) (h1 : -1 < nu) (h2 : nu < 1 / 2)
    (a b c d e f τ : ℝ) :
    (let σ := HookesLaw3d.stress E nu a b c d e f
     (σ.1 + σ.2.1 + σ.2.2.1) / 3 = HookesLaw3d.attr_K E nu * (a + b + c)) ∧
    (let ε := HookesLaw3d.strain E nu τ (-τ) 0 0 0 0
     ε.1 - ε.2.1 = τ / HookesLaw3d.attr_G E nu) := by
  have s := hookeSide hE h1 h2
  obtain ⟨hE', h3, h4, h6, h6', h5, h5', h7, h8, h9, h10⟩ := hookeSide hE h1 h2
  simp only [hooke3d_strain_eq s, hooke3d_stress_eq s, (hooke_G_eq E nu).1, (hooke_K_eq E nu).1, hooke3dStrain,
    hooke3dStress, shearModulus, bulkModulus, lit_one, lit_two, lit_three]
  hooke_textbook

example : (let σ := HookesLaw3d.stress (206000:ℝ) 0.3 1 2 3 0 0 0
     (σ.1 + σ.2.1 + σ.2.2.1) / 3 = HookesLaw3d.attr_K 206000 0.3 * (1 + 2 + 3)) :=
  (hooke3d_moduli_consistent (by norm_num) (by norm_num) (by norm_num) _ _ _ 0 0 0 0).1

open PylifeVerif.MaterialLaws in
/-- plane stress: stress(strain(s)) = s; strain(stress(e)) = e with the out-of-plane strain
e33 = -ν/(1-ν)·(e11+e22) -/
theorem hooke_plane_stress_stress_strain_id {E nu : ℝ} (hE : 0 < E) (h1 : -1 < nu) (h2 : nu < 1 / 2)
    (a b c : ℝ) :
    (let ε := HookesLaw2dPlaneStress.strain E nu a b c
     HookesLaw2dPlaneStress.stress E nu ε.1 ε.2.1 ε.2.2.2 = (a, b, c)) ∧
    (let σ := HookesLaw2dPlaneStress.stress E nu a b c
     HookesLaw2dPlaneStress.strain E nu σ.1 σ.2.1 σ.2.2 = (a, b, -nu / (1 - nu) * (a + b), c)) := by
  have s := hookeSide hE h1 h2
  obtain ⟨hE', h3, h4, h6, h6', h5, h5', h7, h8, h9, h10⟩ := hookeSide hE h1 h2
  simp only [planeStress_strain_eq s, planeStress_stress_eq s, planeStressStrain, planeStressStress, shearModulus,
    lit_one, lit_two, Prod.mk.injEq]
  hooke_textbook

example : (let ε := HookesLaw2dPlaneStress.strain (206000:ℝ) 0.3 100 (-50) 10
     HookesLaw2dPlaneStress.stress 206000 0.3 ε.1 ε.2.1 ε.2.2.2 = (100, -50, 10)) :=
  (hooke_plane_stress_stress_strain_id (by norm_num) (by norm_num) (by norm_num) _ _ _).1

open PylifeVerif.MaterialLaws in
/-- plane strain: stress(strain(s)) = s (in-plane components; s33 = ν(s11+s22)) and strain(stress(e)) = e -/
theorem hooke_plane_strain_stress_strain_id {E nu : ℝ} (hE : 0 < E) (h1 : -1 < nu) (h2 : nu < 1 / 2)
    (a b c : ℝ) :
    (let ε := HookesLaw2dPlaneStrain.strain E nu a b c
     HookesLaw2dPlaneStrain.stress E nu ε.1 ε.2.1 ε.2.2 = (a, b, nu * (a + b), c)) ∧
    (let σ := HookesLaw2dPlaneStrain.stress E nu a b c
     HookesLaw2dPlaneStrain.strain E nu σ.1 σ.2.1 σ.2.2.2 = (a, b, c)) := by
  have s := hookeSide hE h1 h2
  obtain ⟨hE', h3, h4, h6, h6', h5, h5', h7, h8, h9, h10⟩ := hookeSide hE h1 h2
  simp only [planeStrain_strain_eq s, planeStrain_stress_eq s, planeStrainStrain, planeStrainStress, shearModulus,
    lit_one, lit_two, Prod.mk.injEq]
  hooke_textbook

example : (let σ := HookesLaw2dPlaneStrain.stress (206000:ℝ) 0.3 0.001 (-0.0005) 0.0002
     HookesLaw2dPlaneStrain.strain 206000 0.3 σ.1 σ.2.1 σ.2.2.2 = (0.001, -0.0005, 0.0002)) :=
  (hooke_plane_strain_stress_strain_id (by norm_num) (by norm_num) (by norm_num) _ _ _).2

open PylifeVerif.MaterialLaws in
/-- plane strain = 3D law at zero out-of-plane strain (e33 = g13 = g23 = 0), including s33; and the 3D
strain of the plane-strain stress state has e33 = 0 -/
theorem plane_strain_eq_3d_at_e33_0 {E nu : ℝ} (hE : 0 < E) (h1 : -1 < nu) (h2 : nu < 1 / 2) (a b c : ℝ) :
    (let σ := HookesLaw2dPlaneStrain.stress E nu a b c
     HookesLaw3d.stress E nu a b 0 c 0 0 = (σ.1, σ.2.1, σ.2.2.1, σ.2.2.2, 0, 0)) ∧
    (let ε := HookesLaw2dPlaneStrain.strain E nu a b c
     HookesLaw3d.strain E nu a b (nu * (a + b)) c 0 0 = (ε.1, ε.2.1, 0, ε.2.2, 0, 0)) := by
  have s := hookeSide hE h1 h2
  obtain ⟨hE', h3, h4, h6, h6', h5, h5', h7, h8, h9, h10⟩ := hookeSide hE h1 h2
  simp only [planeStrain_strain_eq s, planeStrain_stress_eq s, hooke3d_strain_eq s, hooke3d_stress_eq s,
    planeStrainStrain, planeStrainStress, hooke3dStrain, hooke3dStress, shearModulus, lit_one, lit_two, Prod.mk.injEq]
  hooke_textbook

example : (let σ := HookesLaw2dPlaneStrain.stress (206000:ℝ) 0.3 0.001 (-0.0005) 0.0002
     HookesLaw3d.stress 206000 0.3 0.001 (-0.0005) 0 0.0002 0 0 = (σ.1, σ.2.1, σ.2.2.1, σ.2.2.2, 0, 0)) :=
  (plane_strain_eq_3d_at_e33_0 (by norm_num) (by norm_num) (by norm_num) _ _ _).1

open PylifeVerif.MaterialLaws in
/-- plane stress = 3D law at zero out-of-plane stress (s33 = s13 = s23 = 0), including e33; and the 3D
stress of the plane-stress strain state (with its e33) has s33 = 0 -/
theorem plane_stress_eq_3d_at_s33_0 {E nu : ℝ} (hE : 0 < E) (h1 : -1 < nu) (h2 : nu < 1 / 2) (a b c : ℝ) :
    (let ε := HookesLaw2dPlaneStress.strain E nu a b c
     HookesLaw3d.strain E nu a b 0 c 0 0 = (ε.1, ε.2.1, ε.2.2.1, ε.2.2.2, 0, 0)) ∧
    (let σ := HookesLaw2dPlaneStress.stress E nu a b c
     HookesLaw3d.stress E nu a b (-nu / (1 - nu) * (a + b)) c 0 0 = (σ.1, σ.2.1, 0, σ.2.2, 0, 0)) := by
  have s := hookeSide hE h1 h2
  obtain ⟨hE', h3, h4, h6, h6', h5, h5', h7, h8, h9, h10⟩ := hookeSide hE h1 h2
  simp only [planeStress_strain_eq s, planeStress_stress_eq s, hooke3d_strain_eq s, hooke3d_stress_eq s,
    planeStressStrain, planeStressStress, hooke3dStrain, hooke3dStress, shearModulus, lit_one, lit_two, Prod.mk.injEq]
  hooke_textbook

example : (let ε := HookesLaw2dPlaneStress.strain (206000:ℝ) 0.3 100 (-50) 10
     HookesLaw3d.strain 206000 0.3 100 (-50) 0 10 0 0 = (ε.1, ε.2.1, ε.2.2.1, ε.2.2.2, 0, 0)) :=
  (plane_stress_eq_3d_at_s33_0 (by norm_num) (by norm_num) (by norm_num) _ _ _).1

/-! ## true stress / strain -/

/-- true strain ↔ engineering strain: `exp ε − 1` is the exact inverse -/
theorem true_strain_inverse :
    (∀ e : ℝ, -1 < e → Real.exp (true_strain e) - 1 = e) ∧
    (∀ ε : ℝ, true_strain (Real.exp ε - 1) = ε) := by
  constructor
  · intro e he
    rw [true_strain_eq, Real.exp_log (by linarith)]; ring
  · intro ε
    rw [true_strain_eq, show (1:ℝ) + (Real.exp ε - 1) = Real.exp ε by ring, Real.log_exp]

example : Real.exp (true_strain (0.2:ℝ)) - 1 = 0.2 := true_strain_inverse.1 _ (by norm_num)

/-- true stress ↔ engineering stress: `σ/(1+ε)` is the exact inverse -/
theorem true_stress_inverse (e : ℝ) (he : e ≠ -1) :
    (∀ s : ℝ, true_stress s e / (1 + e) = s) ∧ (∀ σ : ℝ, true_stress (σ / (1 + e)) e = σ) := by
  have h : 1 + e ≠ 0 := fun h => he (by linarith)
  simp only [true_stress_eq]
  constructor <;> intro x <;> field_simp

example : true_stress (500:ℝ) 0.2 / (1 + 0.2) = 500 := (true_stress_inverse _ (by norm_num)).1 _

/-- fracture variants: true fracture strain ↔ reduction of area (`Z = 1 − exp(−ε)`), and it is the true
strain of the equivalent engineering strain `1/(1−Z) − 1`; true fracture stress is the force over the
reduced cross section and the true stress of `F/A₀` at that engineering strain. -/
theorem true_fracture_inverse :
    (∀ Z : ℝ, Z < 1 → 1 - Real.exp (-(true_fracture_strain Z)) = Z) ∧
    (∀ ε : ℝ, true_fracture_strain (1 - Real.exp (-ε)) = ε) ∧
    (∀ Z : ℝ, Z ≠ 1 → true_fracture_strain Z = true_strain (1 / (1 - Z) - 1)) ∧
    (∀ F A Z : ℝ, A ≠ 0 → Z ≠ 1 → true_fracture_stress F A Z * (A * (1 - Z)) = F) ∧
    (∀ F A Z : ℝ, A ≠ 0 → Z ≠ 1 → true_fracture_stress F A Z = true_stress (F / A) (1 / (1 - Z) - 1)) := by
  refine ⟨fun Z hZ => ?_, fun ε => ?_, fun Z hZ => ?_, fun F A Z hA hZ => ?_, fun F A Z hA hZ => ?_⟩
  · rw [true_fracture_strain_eq, neg_neg, Real.exp_log (by linarith)]; ring
  · rw [true_fracture_strain_eq, show (1:ℝ) - (1 - Real.exp (-ε)) = Real.exp (-ε) by ring, Real.log_exp, neg_neg]
  · rw [true_fracture_strain_eq, true_strain_eq, show (1:ℝ) + (1 / (1 - Z) - 1) = (1 - Z)⁻¹ by ring, Real.log_inv]
  · have h : 1 - Z ≠ 0 := fun h => hZ (by linarith)
    rw [true_fracture_stress_eq]; field_simp
  · have h : 1 - Z ≠ 0 := fun h => hZ (by linarith)
    rw [true_fracture_stress_eq, true_stress_eq]; field_simp; ring

example : 1 - Real.exp (-(true_fracture_strain (0.6:ℝ))) = 0.6 := true_fracture_inverse.1 _ (by norm_num)
example : true_fracture_stress (1000:ℝ) 50 0.6 * (50 * (1 - 0.6)) = 1000 :=
  true_fracture_inverse.2.2.2.1 _ _ _ (by norm_num) (by norm_num)

/-! ## the translated definitions agree with the hand-written textbook model (`Model/MaterialLaws.lean`) -/

open PylifeVerif.MaterialLaws in
/-- Cross-check of the translator (and of the plane-strain substitution E' = E/(1-ν²), ν' = ν/(1-ν)): every
translated function equals the hand-written textbook form over ℝ. -/
theorem translated_eq_hand_model {E K n nu : ℝ} (hE : 0 < E) (hK : 0 < K) (hn0 : 0 < n) (h1 : -1 < nu)
    (h2 : nu < 1 / 2) :
    (∀ σ, RambergOsgood.strain E K n σ = roStrain E K n σ) ∧
    (∀ σ, RambergOsgood.tangential_compliance E K n σ = roCompliance E K n σ) ∧
    (∀ σ, RambergOsgood.tangential_modulus E K n σ = roModulus E K n σ) ∧
    (∀ σ, RambergOsgood.delta_strain E K n σ = roDeltaStrain E K n σ) ∧
    (∀ σ m, RambergOsgood.lower_hysteresis E K n σ m = roLowerHysteresis E K n σ m) ∧
    (∀ x, HookesLaw1d.stress E x = hooke1dStress E x ∧ HookesLaw1d.strain E x = hooke1dStrain E x) ∧
    (HookesLaw3d.attr_G E nu = shearModulus E nu ∧ HookesLaw3d.attr_K E nu = bulkModulus E nu) ∧
    (∀ a b c d e f, HookesLaw3d.strain E nu a b c d e f = hooke3dStrain E nu a b c d e f) ∧
    (∀ a b c d e f, HookesLaw3d.stress E nu a b c d e f = hooke3dStress E nu a b c d e f) ∧
    (∀ a b c, HookesLaw2dPlaneStress.strain E nu a b c = planeStressStrain E nu a b c) ∧
    (∀ a b c, HookesLaw2dPlaneStress.stress E nu a b c = planeStressStress E nu a b c) ∧
    (∀ a b c, HookesLaw2dPlaneStrain.strain E nu a b c = planeStrainStrain E nu a b c) ∧
    (∀ a b c, HookesLaw2dPlaneStrain.stress E nu a b c = planeStrainStress E nu a b c) ∧
    (∀ e : ℝ, true_strain e = trueStrain e) ∧ (∀ s e : ℝ, true_stress s e = trueStress s e) ∧
    (∀ Z : ℝ, true_fracture_strain Z = trueFractureStrain Z) ∧
    (∀ F A Z : ℝ, true_fracture_stress F A Z = trueFractureStress F A Z) := by
  have hK' := hK.ne'
  have hn' := hn0.ne'
  have s := hookeSide hE h1 h2
  have hs : ∀ σ, RambergOsgood.strain E K n σ = roStrain E K n σ := fun σ => by
    rw [ro_strain_eq_curve]; simp only [curve, plast, roStrain, rsign_eq, transc_abs, transc_pow, lit_one]
  have hc : ∀ σ, RambergOsgood.tangential_compliance E K n σ = roCompliance E K n σ := fun σ => by
    rw [ro_compliance_eq_compl hK' hn']
    simp only [C16L.compl, roCompliance, transc_abs, transc_pow, lit_one]; rw [div_div]
  have hd : ∀ σ, RambergOsgood.delta_strain E K n σ = roDeltaStrain E K n σ := fun σ => by
    rw [ro_delta_strain_eq, hs]; simp only [roDeltaStrain, lit_two]
  refine ⟨hs, hc, fun σ => ?_, hd, fun σ m => ?_, fun x => ⟨hooke1d_stress_eq E x, hooke1d_strain_eq E x⟩,
    ⟨(hooke_G_eq E nu).1, (hooke_K_eq E nu).1⟩, hooke3d_strain_eq s, hooke3d_stress_eq s, planeStress_strain_eq s,
    planeStress_stress_eq s, planeStrain_strain_eq s, planeStrain_stress_eq s,
    fun e => ?_, fun s e => ?_, fun Z => ?_, fun F A Z => ?_⟩
  · rw [(ro_modulus_is_reciprocal hE hK hn0 σ).2.1, hc]; simp only [roModulus, lit_one, one_div]
  · rw [ro_lower_hysteresis_eq, hs, hd]; rfl
  · rw [true_strain_eq]; simp only [trueStrain, transc_log, lit_one]
  · rw [true_stress_eq]; simp only [trueStress, lit_one]
  · rw [true_fracture_strain_eq]; simp only [trueFractureStrain, transc_log, lit_one, one_div, Real.log_inv]
  · rw [true_fracture_stress_eq]; simp only [trueFractureStress, lit_one]

open PylifeVerif.MaterialLaws in
example : HookesLaw2dPlaneStrain.stress (206000:ℝ) 0.3 0.001 (-0.0005) 0.0002
    = planeStrainStress 206000 0.3 0.001 (-0.0005) 0.0002 :=
  (translated_eq_hand_model (K := 1184) (n := 0.187) (by norm_num) (by norm_num) (by norm_num) (by norm_num)
    (by norm_num)).2.2.2.2.2.2.2.2.2.2.2.2.1 _ _ _

end PylifeVerif.C16
