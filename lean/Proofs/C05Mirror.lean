import Proofs.Lemmas.HCMBasic
import Proofs.Lemmas.HCMFed

namespace PylifeVerif
open HCM Rainflow
namespace C05

def OddLaw (law : Law) : Prop :=
  (∀ l, law.sigma (-l) = -law.sigma l) ∧ (∀ s l, law.eps (-s) (-l) = -law.eps s l) ∧
  (∀ d, law.dsigma (-d) = -law.dsigma d) ∧ (∀ s d, law.deps (-s) (-d) = -law.deps s d)

/-- negating the loads mirrors all stresses and strains (odd law) -/
def mirror (h : Hyst) : Hyst :=
  { h with loadMin := vneg h.loadMax, loadMax := vneg h.loadMin, sMin := vneg h.sMax, sMax := vneg h.sMin,
           eMin := vneg h.eMax, eMax := vneg h.eMin, eMinLF := vneg h.eMaxLF, eMaxLF := vneg h.eMinLF }

/-! ### the simulation relation, as a map on states -/

def negP (p : HPoint) : HPoint := { load := vneg p.load, stress := vneg p.stress, strain := vneg p.strain }

def negSt (st : State) : State :=
  { ts := { tail := st.ts.tail.map (- ·), head := st.ts.head },
    res := st.res.map negP, iz := st.iz, ir := st.ir, loadMax := st.loadMax, run := st.run,
    eMinLF := vneg st.eMaxLF, eMaxLF := vneg st.eMinLF, started := st.started,
    lastSample := vneg st.lastSample, prevLoad := - st.prevLoad,
    strainValues := st.strainValues.map (- ·), nFirst := st.nFirst,
    recs := st.recs.map mirror, fed := st.fed.map fun f => (f.1, vneg f.2) }

theorem primary_neg {law : Law} (ho : OddLaw law) (load : Vec) :
    primary law (vneg load) = negP (primary law load) := by
  simp only [primary, negP, map_vneg _ ho.1, vzip_vneg _ ho.2.1]

theorem secondary_neg {law : Law} (ho : OddLaw law) (prev : HPoint) (load : Vec) :
    secondary law (negP prev) (vneg load) = negP (secondary law prev load) := by
  simp only [secondary, negP, vzip_vneg (· - ·) (fun a b => by omega),
    vzip_vneg (· + ·) (fun a b => by omega), map_vneg _ ho.2.2.1, vzip_vneg _ ho.2.2.2]

theorem noteStrain_neg (st : State) (p : HPoint) :
    noteStrain (negSt st) (negP p) = negSt (noteStrain st p) := by
  simp [noteStrain, negSt, negP, rep_vneg]
  rfl

theorem pick_lt (a b x y : Vec) :
    (if rep (vneg a) < rep (vneg b) then vneg x else vneg y) = vneg (if rep a > rep b then x else y) := by
  rw [rep_vneg, rep_vneg]; split_ifs <;> first | rfl | omega

theorem closedHyst_neg (st : State) (p0 p1 : HPoint) :
    closedHyst (negSt st) (negP p0) (negP p1) = mirror (closedHyst st p0 p1) := by
  simp only [closedHyst, mirror, negP, negSt, if_true, Bool.false_eq_true, if_false]
  congr 1 <;> exact pick_lt _ _ _ _

theorem halfHyst_neg (st : State) (prev : HPoint) :
    halfHyst (negSt st) (negP prev) = mirror (halfHyst st prev) := by
  simp only [halfHyst, mirror, negP, negSt, vabs_vneg, vneg_vneg]


theorem processSample_neg {law : Law} (ho : OddLaw law) (load : Vec) (fuel : Nat) (st : State) :
    processSample law (vneg load) fuel (negSt st) =
      (negSt (processSample law load fuel st).1, negP (processSample law load fuel st).2) := by
  fun_induction processSample law load fuel st with
  | case1 st => simp [processSample, primary_neg ho]
  | case2 fuel st cur hiz prev rest hres hgt p st' =>
    rw [processSample]
    have hres' : (negSt st).res = negP prev :: rest.map negP := by simp [negSt, hres]
    have hcur : (rep (vneg load)).natAbs = (rep load).natAbs := by rw [rep_vneg, Int.natAbs_neg]
    have hgt' : (rep load).natAbs > st.loadMax := hgt
    simp only [show (negSt st).iz = st.iz from rfl, show (negSt st).ir = st.ir from rfl,
      show (negSt st).loadMax = st.loadMax from rfl, hres', hcur, hiz, if_true, hgt']
    rw [primary_neg ho, ← noteStrain_neg]
    refine Prod.ext ?_ rfl
    show noteStrain _ _ = noteStrain _ _
    congr 1
    simp [negSt, st', hres, ← halfHyst_neg, hiz]
  | case3 fuel st cur hiz prev rest hres hgt p =>
    rw [processSample]
    have hres' : (negSt st).res = negP prev :: rest.map negP := by simp [negSt, hres]
    have hcur : (rep (vneg load)).natAbs = (rep load).natAbs := by rw [rep_vneg, Int.natAbs_neg]
    have hgt' : ¬ (rep load).natAbs > st.loadMax := hgt
    simp only [show (negSt st).iz = st.iz from rfl, show (negSt st).ir = st.ir from rfl,
      show (negSt st).loadMax = st.loadMax from rfl, hres', hcur, hiz, if_true, hgt', if_false]
    rw [secondary_neg ho, noteStrain_neg]
  | case4 fuel st hiz hres =>
    rw [processSample]
    have hres' : (negSt st).res = [] := by simp [negSt, hres]
    simp only [show (negSt st).iz = st.iz from rfl, show (negSt st).ir = st.ir from rfl,
      hres', hiz, if_true]
    rw [primary_neg ho]
  | case5 fuel st hne hlt p =>
    rw [processSample]
    simp only [show (negSt st).iz = st.iz from rfl, show (negSt st).ir = st.ir from rfl,
      hne, hlt, if_true, if_false]
    rw [primary_neg ho, noteStrain_neg]
  | case6 fuel st cur hne hlt p1 p0 rest hres curExt prevExt hlt2 p =>
    rw [processSample]
    have hres' : (negSt st).res = negP p1 :: negP p0 :: rest.map negP := by simp [negSt, hres]
    have hc : (rep (vneg load) - rep (negP p1).load).natAbs = (rep load - rep p1.load).natAbs := by
      simp only [negP, rep_vneg]; omega
    have hp : (rep (negP p1).load - rep (negP p0).load).natAbs = (rep p1.load - rep p0.load).natAbs := by
      simp only [negP, rep_vneg]; omega
    have hlt2' : (rep load - rep p1.load).natAbs < (rep p1.load - rep p0.load).natAbs := hlt2
    simp only [show (negSt st).iz = st.iz from rfl, show (negSt st).ir = st.ir from rfl,
      hres', hne, hlt, if_true, if_false, hc, hp, hlt2']
    rw [secondary_neg ho, noteStrain_neg]
  | case7 fuel st cur hne hlt p1 p0 rest hres curExt prevExt hge st' hge2 ih =>
    rw [processSample]
    have hres' : (negSt st).res = negP p1 :: negP p0 :: rest.map negP := by simp [negSt, hres]
    have hc : (rep (vneg load) - rep (negP p1).load).natAbs = (rep load - rep p1.load).natAbs := by
      simp only [negP, rep_vneg]; omega
    have hp : (rep (negP p1).load - rep (negP p0).load).natAbs = (rep p1.load - rep p0.load).natAbs := by
      simp only [negP, rep_vneg]; omega
    have hge' : ¬ (rep load - rep p1.load).natAbs < (rep p1.load - rep p0.load).natAbs := hge
    have hge2' : st.iz - 2 ≥ st.ir := hge2
    simp only [show (negSt st).iz = st.iz from rfl, show (negSt st).ir = st.ir from rfl,
      hres', hne, hlt, if_true, if_false, hc, hp, hge', hge2']
    rw [← ih]
    congr 1
    simp [negSt, st', ← closedHyst_neg]
  | case8 fuel st cur hne hlt p1 p0 rest hres curExt prevExt hge st' hlt2 p =>
    rw [processSample]
    have hres' : (negSt st).res = negP p1 :: negP p0 :: rest.map negP := by simp [negSt, hres]
    have hc : (rep (vneg load) - rep (negP p1).load).natAbs = (rep load - rep p1.load).natAbs := by
      simp only [negP, rep_vneg]; omega
    have hp : (rep (negP p1).load - rep (negP p0).load).natAbs = (rep p1.load - rep p0.load).natAbs := by
      simp only [negP, rep_vneg]; omega
    have hge' : ¬ (rep load - rep p1.load).natAbs < (rep p1.load - rep p0.load).natAbs := hge
    have hlt2' : ¬ st.iz - 2 ≥ st.ir := hlt2
    simp only [show (negSt st).iz = st.iz from rfl, show (negSt st).ir = st.ir from rfl,
      hres', hne, hlt, if_false, hc, hp, hge', hlt2']
    rw [primary_neg ho, ← noteStrain_neg]
    refine Prod.ext ?_ rfl
    show noteStrain _ _ = noteStrain _ _
    congr 1
    simp [negSt, st', ← closedHyst_neg]
  | case9 fuel st hne hlt hres =>
    rw [processSample]
    simp only [show (negSt st).iz = st.iz from rfl, show (negSt st).ir = st.ir from rfl,
      hne, hlt, if_false]
    have hres' : ∀ (p1 p0 : HPoint) (rest : List HPoint), (negSt st).res = p1 :: p0 :: rest → False := by
      intro p1 p0 rest h
      simp only [negSt] at h
      rcases hr : st.res with _ | ⟨a, _ | ⟨b, r⟩⟩
      · rw [hr] at h; simp at h
      · rw [hr] at h; simp at h
      · exact hres a b r hr
    split
    · rename_i h; exact (hres' _ _ _ h).elim
    · rw [primary_neg ho]


theorem vzip_vneg2 (f g : Int → Int → Int) (hf : ∀ a b, f (-a) (-b) = - g a b) (a : Vec) :
    ∀ b : Vec, vzip f (vneg a) (vneg b) = vneg (vzip g a b) := by
  induction a with
  | nil => intro b; simp [vzip, vneg]
  | cons x a ih =>
    intro b
    cases b with
    | nil => simp [vzip, vneg]
    | cons y b =>
      have := ih b
      simp only [vzip, vneg, List.map_cons, List.zipWith_cons_cons] at this ⊢
      rw [this, hf]

theorem updateLF_neg (st : State) (a b : Int) (p : HPoint) (hne : a ≠ b) :
    updateLF (negSt st) (-a) (-b) (negP p) = negSt (updateLF st a b p) := by
  unfold updateLF
  by_cases h : a < b
  · have h' : ¬ (-a < -b) := by omega
    rw [if_pos h, if_neg h']
    simp only [negSt, negP]
    congr 1
    exact vzip_vneg2 min max (fun a b => by omega) _ _
  · have h' : -a < -b := by omega
    rw [if_neg h, if_pos h']
    simp only [negSt, negP]
    congr 1
    exact vzip_vneg2 max min (fun a b => by omega) _ _

theorem turnStep_neg {law : Law} (ho : OddLaw law) (st : State) (prev : Int) (load : Vec)
    (hne : prev ≠ rep load) :
    turnStep law (negSt st, -prev) (vneg load) =
      (negSt (turnStep law (st, prev) load).1, - (turnStep law (st, prev) load).2) := by
  unfold turnStep
  have h1 : ({ negSt st with fed := (negSt st).fed ++ [((negSt st).run, vneg load)] } : State) =
      negSt { st with fed := st.fed ++ [(st.run, load)] } := by simp [negSt]
  have h2 : (negSt st).res.length = st.res.length := by simp [negSt]
  simp only [h1, h2]
  rw [processSample_neg ho]
  generalize processSample law load (st.res.length / 2 + 2) { st with fed := st.fed ++ [(st.run, load)] } = r
  obtain ⟨st2, p⟩ := r
  simp only [rep_vneg, Int.natAbs_neg, show (negSt st2).loadMax = st2.loadMax from rfl]
  rw [← updateLF_neg _ _ _ _ hne]
  refine Prod.ext ?_ rfl
  show updateLF _ _ _ _ = updateLF _ _ _ _
  congr 1
  by_cases h : (rep load).natAbs > st2.loadMax <;> simp [h, negSt]


/-- consecutive loads (starting from the previous load) have distinct first-node values -/
def ChainNe : Int → List Vec → Prop
  | _, [] => True
  | prev, l :: ls => prev ≠ rep l ∧ ChainNe (rep l) ls

instance : ∀ (prev : Int) (ls : List Vec), Decidable (ChainNe prev ls)
  | _, [] => isTrue trivial
  | prev, l :: ls =>
    have := instDecidableChainNe (rep l) ls
    inferInstanceAs (Decidable (prev ≠ rep l ∧ ChainNe (rep l) ls))

theorem turnStep_snd (law : Law) (acc : State × Int) (load : Vec) :
    (turnStep law acc load).2 = rep load := rfl

theorem foldl_turnStep_neg {law : Law} (ho : OddLaw law) (loads : List Vec) :
    ∀ (st : State) (prev : Int), ChainNe prev loads →
    (loads.map vneg).foldl (turnStep law) (negSt st, -prev) =
      (negSt (loads.foldl (turnStep law) (st, prev)).1, - (loads.foldl (turnStep law) (st, prev)).2) := by
  induction loads with
  | nil => intro st prev _; rfl
  | cons l ls ih =>
    intro st prev hc
    simp only [List.map_cons, List.foldl_cons]
    rw [turnStep_neg ho st prev l hc.1]
    have := ih (turnStep law (st, prev) l).1 (turnStep law (st, prev) l).2 (by rw [turnStep_snd]; exact hc.2)
    exact this

theorem getElem!_map_vneg (samples : List Vec) (i : Nat) :
    (samples.map vneg).toArray[i]! = vneg (samples.toArray[i]!) := by
  simp only [List.getElem!_toArray, List.getElem!_eq_getElem?_getD, List.getElem?_map]
  cases samples[i]? <;> rfl

theorem rep_map_vneg (samples : List Vec) :
    (samples.map vneg).map rep = (samples.map rep).map (- ·) := by
  simp [List.map_map, Function.comp_def, rep_vneg]

theorem procLoads_neg (st : State) (samples : List Vec) (flush : Bool) :
    procLoads (negSt st) (samples.map vneg) flush = (procLoads st samples flush).map vneg := by
  unfold procLoads
  rw [rep_map_vneg]
  have : (negSt st).ts = { tail := st.ts.tail.map (- ·), head := st.ts.head } := rfl
  rw [this, newTurns_neg]
  simp only [List.map_map]
  apply List.map_congr_left
  intro p _
  simp only [Function.comp_def, getElem!_map_vneg, show (negSt st).lastSample = vneg st.lastSample from rfl]
  split_ifs <;> rfl

theorem procInit_neg (st : State) (samples : List Vec) (flush : Bool) :
    procInit (negSt st) (samples.map vneg) flush = negSt (procInit st samples flush) := by
  unfold procInit
  have hl : ((samples.map vneg).headD []).length = (samples.headD []).length := by
    cases samples <;> simp [length_vneg]
  have hg : (samples.map vneg).getLastD (vneg st.lastSample) = vneg (samples.getLastD st.lastSample) := by
    simp only [List.getLastD_eq_getLast?, List.getLast?_map]
    cases samples.getLast? <;> rfl
  rw [rep_map_vneg, hl]
  generalize samples.map rep = xs
  have hn := newTurns_neg st.ts xs flush
  by_cases h : st.started
  · simp [h, negSt, hn]
  · simp [h, negSt, hn, vneg_replicate_zero]


theorem process_neg {law : Law} (ho : OddLaw law) (st : State) (samples : List Vec) (flush : Bool)
    (hc : ChainNe st.prevLoad (procLoads st samples flush)) :
    process law (negSt st) (samples.map vneg) flush = negSt (process law st samples flush) := by
  rw [process_eq, process_eq, procLoads_neg, procInit_neg,
    show (negSt st).prevLoad = - st.prevLoad from rfl, foldl_turnStep_neg ho _ _ _ hc]
  simp [negSt]

theorem findTurns_neg_idx (xs : List Int) :
    (findTurns (xs.map (- ·))).map (·.1) = (findTurns xs).map (·.1) := by
  rw [findTurns_neg]; simp [Function.comp_def]

theorem dropTrailing_aux (o : Option Nat) (s : List Vec) (n : Nat) :
    (match o with
      | none => s.map vneg
      | some t => if t = n - 1 ∨ t = 0 then s.map vneg else (s.map vneg).take (t + 1)) =
    (match o with
      | none => s
      | some t => if t = n - 1 ∨ t = 0 then s else s.take (t + 1)).map vneg := by
  cases o with
  | none => rfl
  | some t =>
    simp only
    split_ifs
    · rfl
    · rw [List.map_take]

theorem dropTrailing_neg (s : List Vec) :
    dropTrailingNonReversals (s.map vneg) = (dropTrailingNonReversals s).map vneg := by
  unfold dropTrailingNonReversals
  simp only [rep_map_vneg, ← List.map_append, findTurns_neg_idx, List.length_map]
  exact dropTrailing_aux _ _ _

theorem adjustFirstRun_neg (s : List Vec) :
    adjustFirstRunR (s.map vneg) = ((adjustFirstRunR s).1.map vneg, (adjustFirstRunR s).2) := by
  unfold adjustFirstRunR
  have hl : ((s.map vneg).headD []).length = (s.headD []).length := by
    cases s <;> simp [length_vneg]
  have h0 : List.replicate (s.headD []).length (0 : Int) :: s.map vneg =
      (List.replicate (s.headD []).length (0 : Int) :: s).map vneg := by
    simp [vneg_replicate_zero]
  simp only [hl, h0, rep_map_vneg, ← List.map_tail, ← List.map_append, findTurns_neg_idx,
    List.length_map]

theorem negSt_init : negSt {} = {} := rfl

/-- No two consecutive turning points handed to the HCM loop have the same first-node load (the
very first one is compared with the initial previous load `0`). -/
def NoTie (law : Law) (s : List Vec) : Prop :=
  ChainNe 0 (procLoads {} (adjustFirstRunR (dropTrailingNonReversals s)).1
      (adjustFirstRunR (dropTrailingNonReversals s)).2) ∧
  ChainNe (process law {} (adjustFirstRunR (dropTrailingNonReversals s)).1
        (adjustFirstRunR (dropTrailingNonReversals s)).2).prevLoad
    (procLoads (process law {} (adjustFirstRunR (dropTrailingNonReversals s)).1
        (adjustFirstRunR (dropTrailingNonReversals s)).2) (dropTrailingNonReversals s) true)

instance (law : Law) (s : List Vec) : Decidable (NoTie law s) := by
  unfold NoTie; infer_instance

theorem twoPass_neg {law : Law} (ho : OddLaw law) (s : List Vec) (ht : NoTie law s) :
    twoPassR law (s.map vneg) = negSt (twoPassR law s) := by
  unfold twoPassR
  simp only [dropTrailing_neg, adjustFirstRun_neg]
  have h1 := process_neg ho {} _ _ ht.1
  rw [negSt_init] at h1
  rw [h1, process_neg ho _ _ _ ht.2]

/-- Version under the explicit no-tie hypothesis: here the complete final states are mirrored
(`twoPass_neg`).  Superseded by `hcm_neg_mirror` below, which needs no hypothesis. -/
theorem hcm_neg_mirror_partial (law : Law) (ho : OddLaw law) (s : List Vec) (ht : NoTie law s) :
    (twoPassR law (s.map vneg)).recs = (twoPassR law s).recs.map mirror ∧
    (twoPassR law (s.map vneg)).strainValues = (twoPassR law s).strainValues.map (- ·) := by
  rw [twoPass_neg ho s ht]; exact ⟨rfl, rfl⟩


/-! ### non-vacuity -/

theorem oddLaw_linear : OddLaw lawLinear := by
  refine ⟨?_, ?_, ?_, ?_⟩ <;> intros <;> simp only [lawLinear] <;> omega

example : NoTie lawLinear [[100], [-200], [0], [200], [-100], [100]] := by decide +kernel


/-! ### the full theorem: a tie at the very last turning point is harmless -/

theorem chainNe_iff (loads : List Vec) : ∀ prev : Int, ChainNe prev loads ↔ chainNe prev (loads.map rep) := by
  induction loads with
  | nil => intro prev; simp [ChainNe, chainNe]
  | cons l ls ih => intro prev; simp only [ChainNe, chainNe, List.map_cons, ih]

theorem updateLF_recs (st : State) (a b : Int) (p : HPoint) :
    (updateLF st a b p).recs = st.recs ∧ (updateLF st a b p).strainValues = st.strainValues := by
  unfold updateLF; split_ifs <;> exact ⟨rfl, rfl⟩

/-- without the no-tie hypothesis the records and strain values are still mirrored -/
theorem turnStep_neg_weak {law : Law} (ho : OddLaw law) (st : State) (prev : Int) (load : Vec) :
    (turnStep law (negSt st, -prev) (vneg load)).1.recs =
      (negSt (turnStep law (st, prev) load).1).recs ∧
    (turnStep law (negSt st, -prev) (vneg load)).1.strainValues =
      (negSt (turnStep law (st, prev) load).1).strainValues := by
  unfold turnStep
  have h1 : ({ negSt st with fed := (negSt st).fed ++ [((negSt st).run, vneg load)] } : State) =
      negSt { st with fed := st.fed ++ [(st.run, load)] } := by simp [negSt]
  have h2 : (negSt st).res.length = st.res.length := by simp [negSt]
  simp only [h1, h2]
  rw [processSample_neg ho]
  generalize processSample law load (st.res.length / 2 + 2) { st with fed := st.fed ++ [(st.run, load)] } = r
  obtain ⟨st2, p⟩ := r
  simp only [rep_vneg, Int.natAbs_neg, show (negSt st2).loadMax = st2.loadMax from rfl]
  simp only [(updateLF_recs _ _ _ _).1, (updateLF_recs _ _ _ _).2,
    show ∀ x : State, (negSt x).recs = x.recs.map mirror from fun _ => rfl,
    show ∀ x : State, (negSt x).strainValues = x.strainValues.map (- ·) from fun _ => rfl]
  by_cases h : (rep load).natAbs > st2.loadMax <;> simp [h, negSt]

theorem process_neg_weak {law : Law} (ho : OddLaw law) (st : State) (samples : List Vec) (flush : Bool)
    (hc : ChainNe st.prevLoad (procLoads st samples flush).dropLast) :
    (process law (negSt st) (samples.map vneg) flush).recs =
      (process law st samples flush).recs.map mirror ∧
    (process law (negSt st) (samples.map vneg) flush).strainValues =
      (process law st samples flush).strainValues.map (- ·) := by
  rw [process_eq, process_eq, procLoads_neg, procInit_neg,
    show (negSt st).prevLoad = - st.prevLoad from rfl]
  by_cases hl : procLoads st samples flush = []
  · rw [hl]; exact ⟨rfl, rfl⟩
  · rw [← List.dropLast_append_getLast hl] at hc ⊢
    generalize (procLoads st samples flush).dropLast = init at hc ⊢
    generalize (procLoads st samples flush).getLast hl = l
    rw [List.dropLast_concat] at hc
    simp only [List.map_append, List.map_cons, List.map_nil, List.foldl_append, List.foldl_cons,
      List.foldl_nil]
    rw [foldl_turnStep_neg ho init _ _ hc]
    exact turnStep_neg_weak ho _ _ l

/-- **C05, negation mirror** (full statement).  Ties (`previousLoad = load` in `updateLF`, where both
runs take the same branch) occur only at the very last turning point of pass 2 (constant sequences);
there the running strain extremes may differ from the mirror image but nothing is recorded any more. -/
theorem hcm_neg_mirror (law : Law) (ho : OddLaw law) (s : List Vec) :
    (twoPassR law (s.map vneg)).recs = (twoPassR law s).recs.map mirror ∧
    (twoPassR law (s.map vneg)).strainValues = (twoPassR law s).strainValues.map (- ·) := by
  have chains : ChainNe 0 (procLoads {} (adjustFirstRunR (dropTrailingNonReversals s)).1
        (adjustFirstRunR (dropTrailingNonReversals s)).2) ∧
      ChainNe (process law {} (adjustFirstRunR (dropTrailingNonReversals s)).1
          (adjustFirstRunR (dropTrailingNonReversals s)).2).prevLoad
        (procLoads (process law {} (adjustFirstRunR (dropTrailingNonReversals s)).1
          (adjustFirstRunR (dropTrailingNonReversals s)).2) (dropTrailingNonReversals s) true).dropLast := by
    by_cases h2 : ∃ a ∈ s.map rep, ∃ b ∈ s.map rep, a ≠ b
    · have hf := flush_of_twoDistinct s h2
      have := chains_of_flush law (dropTrailingNonReversals s) hf
      rw [hf]
      rw [chainNe_iff, chainNe_iff, List.map_dropLast]
      exact this
    · have hc : ∀ x ∈ s.map rep, x = (s.map rep).headD 0 := by
        intro x hx
        cases hs : s.map rep with
        | nil => rw [hs] at hx; simp at hx
        | cons y ys =>
          rw [hs] at hx
          by_contra hne
          exact h2 ⟨x, by rw [hs]; exact hx, y, by rw [hs]; exact List.mem_cons_self, hne⟩
      obtain ⟨l1, l2⟩ := loads_of_const law s _ hc
      rw [l1]
      refine ⟨trivial, ?_⟩
      have : (procLoads (process law {} (adjustFirstRunR (dropTrailingNonReversals s)).1
          (adjustFirstRunR (dropTrailingNonReversals s)).2) (dropTrailingNonReversals s) true).dropLast = [] := by
        apply List.eq_nil_of_length_eq_zero
        rw [List.length_dropLast]; omega
      rw [this]; trivial
  rw [twoPass_eq, twoPass_eq, dropTrailing_neg, adjustFirstRun_neg]
  have h1 := process_neg ho {} _ _ chains.1
  rw [negSt_init] at h1
  simp only [h1]
  exact process_neg_weak ho _ _ true chains.2

/-- the theorem applies to the linear stub law (and to constant and all-zero sequences, which the
partial version excludes) -/
example (s : List Vec) :
    (twoPassR lawLinear (s.map vneg)).recs = (twoPassR lawLinear s).recs.map mirror :=
  (hcm_neg_mirror lawLinear oddLaw_linear s).1

end C05
end PylifeVerif
