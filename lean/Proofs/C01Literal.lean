/-
C01, audit item C01-3: the stack model `fpProcess` (continues from the stored residual stack) and the
LITERAL model of `FourPointDetector.process` + `fourpoint_loop` (`Model/Rainflow/Literal.lean`:
array indices, `ri` cursor, re-scan of `residuals[:-1] ++ new turns ++ [last sample]` from `i = 2`
on every chunk) agree on everything observable, for every list of non-empty chunks.

Why the re-scan is harmless (`Proofs/Lemmas/FpLiteral.lean`): the stack model only ever stores
IRREDUCIBLE stacks (`Lit.Irr`: no window of four consecutive points satisfies the closing rule;
`fpClose_irr`), and feeding an irreducible stack again, oldest point first, records nothing and
rebuilds it (`fpFeed_rescan`).
-/
import Proofs.Lemmas.FpLiteral
import Proofs.C01Core

namespace PylifeVerif.C01
open PylifeVerif.Rainflow PylifeVerif.Rainflow.Lit

/-- **Literal four-point model = stack model**, all observable attributes: recorded cycles with
their indices (in order), `residuals`, the `residual_index` property, the recorder's chunk sizes,
and the `_new_turns` bookkeeping (`_sample_tail`, `_head_index`). -/
theorem fourPoint_literal_eq (cs : List (List Int)) (hne : ∀ c ∈ cs, c ≠ []) :
    (fpRunLit cs).cycles = (fpRun cs).cycles ∧
      (fpRunLit cs).residuals = (fpRun cs).residuals ∧
      (fpRunLit cs).residualIndexProp = (fpRun cs).residualIndex ∧
      (fpRunLit cs).chunks = (fpRun cs).chunks ∧
      (fpRunLit cs).ts = (fpRun cs).ts := by
  obtain ⟨hts, hcy, hch, hres⟩ := litRel_run cs hne {} {} litRel_init
  change (fpRunLit cs).ts = (fpRun cs).ts at hts
  change (fpRunLit cs).cycles = (fpRun cs).cycles at hcy
  change (fpRunLit cs).chunks = (fpRun cs).chunks at hch
  refine ⟨hcy, ?_, ?_, hch, hts⟩
  · change match (fpRun cs).last with
      | none => (fpRunLit cs).residuals = [] ∧ (fpRunLit cs).residualIndex = [0] ∧ (fpRun cs).ts.head = 0 ∧
          (fpRun cs).stack = []
      | some l => (fpRunLit cs).residuals = (fpRun cs).stack.reverse.map (·.2) ++ [l] ∧
          (fpRunLit cs).residualIndex = (fpRun cs).stack.reverse.map (·.1) ∧ (fpRun cs).stack ≠ [] ∧
          Irr (fpRun cs).stack at hres
    cases hl : (fpRun cs).last with
    | none => rw [hl] at hres; simp [DetState.residuals, hl, hres.1]
    | some l => rw [hl] at hres; simp [DetState.residuals, hl, hres.1]
  · change match (fpRun cs).last with
      | none => (fpRunLit cs).residuals = [] ∧ (fpRunLit cs).residualIndex = [0] ∧ (fpRun cs).ts.head = 0 ∧
          (fpRun cs).stack = []
      | some l => (fpRunLit cs).residuals = (fpRun cs).stack.reverse.map (·.2) ++ [l] ∧
          (fpRunLit cs).residualIndex = (fpRun cs).stack.reverse.map (·.1) ∧ (fpRun cs).stack ≠ [] ∧
          Irr (fpRun cs).stack at hres
    cases hl : (fpRun cs).last with
    | none =>
      rw [hl] at hres
      simp [FpLitState.residualIndexProp, DetState.residualIndex, hl, hres.2.1, hts, hres.2.2.1]
    | some l =>
      rw [hl] at hres
      simp [FpLitState.residualIndexProp, DetState.residualIndex, hl, hres.2.1, hts]

/-- Consequence: the literal model is chunk independent (everything but the recorder's chunk sizes). -/
theorem fourPointLit_chunk_independent (cs : List (List Int)) (hne : ∀ c ∈ cs, c ≠ []) (h0 : cs ≠ []) :
    let a := fpRunLit cs; let b := fpRunLit [cs.flatten]
    a.cycles = b.cycles ∧ a.residuals = b.residuals ∧ a.residualIndexProp = b.residualIndexProp ∧
      a.ts = b.ts ∧ a.chunks = cs.map List.length := by
  have hs : cs.flatten ≠ [] := by
    cases cs with
    | nil => exact absurd rfl h0
    | cons c cs => have := hne c (by simp); simp [this]
  intro a b
  obtain ⟨a1, a2, a3, a4, a5⟩ := fourPoint_literal_eq cs hne
  obtain ⟨b1, b2, b3, _, b5⟩ := fourPoint_literal_eq [cs.flatten] (by simpa using hs)
  obtain ⟨c1, _, _, c4, c5, c6, c7⟩ := fourPoint_chunk_independent cs hne h0
  exact ⟨a1.trans (c1.trans b1.symm), a2.trans (c5.trans b2.symm), a3.trans (c6.trans b3.symm),
    a5.trans (c4.trans b5.symm), a4.trans c7⟩

/-- The invariant behind the equality, for the audited list: every stack the four-point model ever
stores is irreducible - re-examining it, as the code does on every chunk, finds nothing. -/
theorem fourPoint_stack_irreducible (cs : List (List Int)) (hne : ∀ c ∈ cs, c ≠ []) :
    Irr (fpRun cs).stack ∧ fpFeed [] (fpRun cs).stack.reverse = ([], (fpRun cs).stack) := by
  have hres := (litRel_run cs hne {} {} litRel_init).2.2.2
  change match (fpRun cs).last with
      | none => (fpRunLit cs).residuals = [] ∧ (fpRunLit cs).residualIndex = [0] ∧ (fpRun cs).ts.head = 0 ∧
          (fpRun cs).stack = []
      | some l => (fpRunLit cs).residuals = (fpRun cs).stack.reverse.map (·.2) ++ [l] ∧
          (fpRunLit cs).residualIndex = (fpRun cs).stack.reverse.map (·.1) ∧ (fpRun cs).stack ≠ [] ∧
          Irr (fpRun cs).stack at hres
  have hI : Irr (fpRun cs).stack := by
    cases hl : (fpRun cs).last with
    | none => rw [hl] at hres; rw [hres.2.2.2]; simp [Irr]
    | some l => rw [hl] at hres; exact hres.2.2.2
  exact ⟨hI, fpFeed_rescan _ hI⟩

/-! ### Non-vacuity -/

/-- three chunks; the cycle `(3,1)-(4,2)` is closed provisionally at the end of chunk 2, and the
stored residuals are re-scanned by chunk 3 -/
example : (fpRunLit [[0, 3, 3], [1, 2], [2, -1, 4]]).cycles = [((3, 1), (4, 2))] := by decide +kernel
example : (fpRunLit [[0, 3, 3], [1, 2], [2, -1, 4]]).residuals = [0, 3, -1, 4] := by decide +kernel
example : (fpRunLit [[0, 3, 3], [1, 2], [2, -1, 4]]).residualIndexProp = [0, 1, 6, 7] := by decide +kernel
example := fourPoint_literal_eq [[0, 3, 3], [1, 2], [2, -1, 4]] (by decide)
example := fourPointLit_chunk_independent [[0, 3, 3], [1, 2], [2, -1, 4]] (by decide) (by decide)
/-- a longer stored residual (four points) that is re-scanned -/
example : (fpRunLit [[0, 8, -9, 7, -6], [5, -4, 3]]).residuals = [0, 8, -9, 7, -6, 5, -4, 3] := by
  decide +kernel
example : (fpRunLit [[0, 5, 5, 2], [4, 4, 1, 6], [6, 0]]).cycles = [((3, 2), (4, 4)), ((1, 5), (6, 1))] := by
  decide +kernel
/-- outside the quantifier (audit C01-4): on an empty chunk the code - and the literal model - drop the
provisional last sample, the stack model leaves the state unchanged -/
example : (fpRunLit [[1, 3, 2], []]).residuals = [1, 3] ∧ (fpRun [[1, 3, 2], []]).residuals = [1, 3, 2] := by
  decide +kernel

end PylifeVerif.C01

section AxiomCheck
#print axioms PylifeVerif.C01.fourPoint_literal_eq
#print axioms PylifeVerif.C01.fourPointLit_chunk_independent
#print axioms PylifeVerif.C01.fourPoint_stack_irreducible
end AxiomCheck
