/-
C06 — (a) the strains the laws return, (b) bisection on the bracket, the iteration of the REPAIRED Seeger-Beste solver.

(a) `law.strain(σ, L)` / `law.strain_secondary_branch(Δσ, ΔL)` (`Model/Notch.lean: lawStrain, lawStrainSec`) are the
Ramberg-Osgood strain of the stress (Masing-doubled on the secondary branch).  At a root of the law's defining equation
this strain IS the right-hand side of the equation (`L/σ · K_p · e*(L)`, for Seeger-Beste times the middle term): the
stress / strain pair the law returns satisfies the defining equation "with the Ramberg-Osgood strain".  The strain is odd and
strictly increasing in the stress, so it inherits oddness and monotonicity in the load from the root.

(b) `Model/Notch.lean: bisect` is the halving loop of `SeegerBeste._root_in_bracket`
(repo commit b50f603; stopping rule - interval below 5 % of `tol + rtol·|root|` - and analytic end values for the
interpolation since repo commit 8e3c607) without its stopping rule and without the final linear interpolation
(which is clipped to the last interval and therefore obeys the same bound): the function is evaluated at interior points only,
never at the bracket ends (where the coded quotient form takes its `np.divide` fall-back values).  `bisect_encloses_root` is
about any function with the sign structure `f x < 0 ↔ x < r` INSIDE the interval; `seegerBeste_bisection_converges` /
`seegerBeste_backward_bisection_converges` instantiate it with the coded Seeger-Beste quotient form on `(L/K_p, L)` resp.
`(σ, K_p σ)`: after `n` halvings the value is within `(width of the bracket) / 2^(n+1)` of THE root in the bracket.  An
iteration of this kind cannot leave the bracket, cannot land on one of the spurious roots outside of it and reaches every
tolerance - the three recorded defects of the secant iteration.
-/
import Proofs.C06
import Proofs.C06SeegerBeste

namespace PylifeVerif.C06
open PylifeVerif.Notch Set

variable {m : Mat ℝ}

/-! ## (a) the strains -/

/-- what `strain` / `strain_secondary_branch` compute: the Ramberg-Osgood strain of the stress, `2·ε(Δσ/2)` on the secondary
branch; the load argument does not enter -/
theorem law_strain_rambergOsgood (m : Mat ℝ) (s L L' ds dL dL' : ℝ) :
    lawStrain m s L = roStrain m s ∧ lawStrain m s L = lawStrain m s L' ∧
    lawStrainSec m ds dL = 2 * roStrain m (ds / 2) ∧ lawStrainSec m ds dL = lawStrainSec m ds dL' := by
  refine ⟨rfl, rfl, ?_, rfl⟩
  unfold lawStrainSec roDeltaStrain
  rw [lit2]

/-- **extended Neuber: at a root the returned strain is the right-hand side of the defining equation** (all arguments) -/
theorem neuber_strain_at_root (m : Mat ℝ) (s L ds dL : ℝ) :
    (stressImplicit m s L = 0 ↔ lawStrain m s L = neuberStrain m s L) ∧
    (stressSecImplicit m ds dL = 0 ↔ lawStrainSec m ds dL = neuberStrainSec m ds dL) := by
  unfold stressImplicit stressSecImplicit lawStrain lawStrainSec
  exact ⟨sub_eq_zero, sub_eq_zero⟩

/-- **Seeger-Beste: at a root in the open bracket the returned strain is middle term × Neuber term** (eq. 2.8-42 / 2.8-43) -/
theorem seegerBeste_strain_at_root (h : m.Adm) (hKp : 1 < m.Kp) :
    (∀ {s L : ℝ}, 0 < L → L / m.Kp < s → s < L →
      (sbStressImplicit m s L = 0 ↔ lawStrain m s L = middleTerm m s L * neuberStrain m s L)) ∧
    (∀ {ds dL : ℝ}, 0 < dL → dL / m.Kp < ds → ds < dL →
      (sbStressSecImplicit m ds dL = 0 ↔ lawStrainSec m ds dL = middleTerm m ds dL * neuberStrainSec m ds dL)) := by
  constructor
  · intro s L hL h1 h2
    exact (seegerBeste_root_iff_partial h hKp hL h1 h2).2.2.2
  · intro ds dL hL h1 h2
    have h1' : dL / 2 / m.Kp < ds / 2 := by rw [div_right_comm]; linarith
    have key := (seegerBeste_root_iff_partial h hKp (by positivity : 0 < dL / 2) h1' (by linarith : ds / 2 < dL / 2)).2.2.2
    have hA : lawStrainSec m ds dL = 2 * roStrain m (ds / 2) := by
      unfold lawStrainSec roDeltaStrain; rw [lit2]
    have hB : middleTerm m ds dL * neuberStrainSec m ds dL
        = 2 * (middleTerm m (ds / 2) (dL / 2) * neuberStrain m (ds / 2) (dL / 2)) := by
      unfold neuberStrainSec neuberStrain deltaEStar roDeltaStrain eStar
      rw [lit2, middleTerm_half, ratio_half, div_right_comm dL m.Kp 2]; ring
    rw [seegerBeste_secondary_masing, key, hA, hB]
    exact (mul_right_inj' two_ne_zero).symm

/-- **the strain is odd and strictly increasing in the stress** (both branches) -/
theorem law_strain_odd_strictMono (h : m.Adm) (L : ℝ) :
    (∀ s, lawStrain m (-s) (-L) = -lawStrain m s L) ∧ StrictMono (fun s => lawStrain m s L) ∧
    (∀ ds, lawStrainSec m (-ds) (-L) = -lawStrainSec m ds L) ∧ StrictMono (fun ds => lawStrainSec m ds L) := by
  have hodd : ∀ s, roStrain m (-s) = -roStrain m s := roStrain_neg m
  have hmono : StrictMono (roStrain m) := by
    intro a b hab
    rcases le_or_gt 0 a with ha | ha
    · exact roStrain_strictMonoOn h (mem_Ici.mpr ha) (mem_Ici.mpr (le_trans ha hab.le)) hab
    · rcases le_or_gt 0 b with hb | hb
      · have h1 : 0 < roStrain m (-a) := roStrain_pos h (by linarith)
        have h2 : 0 ≤ roStrain m b := by
          rcases hb.eq_or_lt with rfl | hb'
          · rw [roStrain_zero]
          · exact (roStrain_pos h hb').le
        rw [hodd] at h1
        linarith
      · have := roStrain_strictMonoOn h (mem_Ici.mpr (by linarith : (0 : ℝ) ≤ -b)) (mem_Ici.mpr (by linarith : (0 : ℝ) ≤ -a))
          (by linarith : -b < -a)
        rw [hodd, hodd] at this
        linarith
  refine ⟨fun s => hodd s, fun a b hab => hmono hab, fun ds => ?_, fun a b hab => ?_⟩
  · unfold lawStrainSec roDeltaStrain
    rw [lit2, neg_div, hodd]; ring
  · show lawStrainSec m a L < lawStrainSec m b L
    unfold lawStrainSec roDeltaStrain
    rw [lit2]
    have := hmono (by linarith : a / 2 < b / 2)
    linarith

example : (⟨206000, 1184, 0.187, 3.5⟩ : Mat ℝ).Adm ∧ (1 : ℝ) < (⟨206000, 1184, 0.187, 3.5⟩ : Mat ℝ).Kp ∧
    (400 : ℝ) / 3.5 < 300 ∧ (300 : ℝ) < 400 := by
  refine ⟨by constructor <;> norm_num, by norm_num, by norm_num, by norm_num⟩

/-! ## (b) bisection on the bracket -/

/-- **Bisection encloses the root**: if inside `(lo, hi)` the function is negative exactly below `r ∈ [lo, hi]`, the value
after `n` halvings is within `(hi − lo) / 2^(n+1)` of `r`.  The function is only evaluated at interior points. -/
theorem bisect_encloses_root (f : ℝ → ℝ) (r : ℝ) (n : ℕ) :
    ∀ lo hi : ℝ, lo < hi → lo ≤ r → r ≤ hi → (∀ x, lo < x → x < hi → (f x < 0 ↔ x < r)) →
      |bisect f n lo hi - r| ≤ (hi - lo) / 2 ^ (n + 1) := by
  induction n with
  | zero =>
    intro lo hi _ h1 h2 _
    simp only [bisect, lit2]
    rw [abs_le]
    constructor <;> norm_num <;> linarith
  | succ n ih =>
    intro lo hi hlt h1 h2 hs
    have hm1 : lo < (lo + hi) / 2 := by linarith
    have hm2 : (lo + hi) / 2 < hi := by linarith
    have hsign := hs _ hm1 hm2
    simp only [bisect, lit2, lit0]
    split_ifs with hneg
    · have hr : (lo + hi) / 2 < r := hsign.mp hneg
      have := ih ((lo + hi) / 2) hi hm2 hr.le h2 (fun x hx1 hx2 => hs x (by linarith) hx2)
      calc |bisect f n ((lo + hi) / 2) hi - r| ≤ (hi - (lo + hi) / 2) / 2 ^ (n + 1) := this
        _ = (hi - lo) / 2 ^ (n + 1 + 1) := by rw [pow_succ 2 (n + 1)]; field_simp; ring
    · have hr : r ≤ (lo + hi) / 2 := not_lt.mp (fun hc => hneg (hsign.mpr hc))
      have := ih lo ((lo + hi) / 2) hm1 h1 hr (fun x hx1 hx2 => hs x hx1 (by linarith))
      calc |bisect f n lo ((lo + hi) / 2) - r| ≤ ((lo + hi) / 2 - lo) / 2 ^ (n + 1) := this
        _ = (hi - lo) / 2 ^ (n + 1 + 1) := by rw [pow_succ 2 (n + 1)]; field_simp; ring

/-- the sign of the coded quotient form is the sign of `ε(σ) − middle term · Neuber term` on the open bracket -/
theorem seegerBeste_sign_iff (h : m.Adm) (hKp : 1 < m.Kp) {s L : ℝ} (hL : 0 < L) (h1 : L / m.Kp < s) (h2 : s < L) :
    (sbStressImplicit m s L < 0 ↔ sbG m s L < 0) ∧ (0 < sbStressImplicit m s L ↔ 0 < sbG m s L) := by
  obtain ⟨hM, hN, _, _⟩ := seegerBeste_root_iff_partial h hKp hL h1 h2
  have hMN := mul_pos hM hN
  unfold sbStressImplicit sbG
  rw [lit1]
  constructor
  · rw [sub_neg, div_lt_one hMN, sub_neg]
  · rw [sub_pos, one_lt_div hMN, sub_pos]

/-- **Forward direction of the repaired Seeger-Beste solver**: bisection of the coded quotient form on `[L/K_p, L]` converges
to the root in the open bracket, with the error bound `(L − L/K_p) / 2^(n+1)` after `n` halvings. -/
theorem seegerBeste_bisection_converges (h : m.Adm) (hKp : 1 < m.Kp) {L : ℝ} (hL : 0 < L) :
    ∃ r, L / m.Kp < r ∧ r < L ∧ sbStressImplicit m r L = 0 ∧
      ∀ n, |bisect (fun s => sbStressImplicit m s L) n (L / m.Kp) L - r| ≤ (L - L / m.Kp) / 2 ^ (n + 1) := by
  obtain ⟨r, hr1, hr2, hroot, _⟩ := seegerBeste_exists_unique_root h hKp hL
  refine ⟨r, hr1, hr2, hroot, fun n => ?_⟩
  have hmono := (seegerBeste_strictMono_in_stress h hKp hL).2
  refine bisect_encloses_root _ r n _ _ (bracket_lt hKp hL) hr1.le hr2.le (fun x hx1 hx2 => ?_)
  constructor
  · intro hneg
    by_contra hc
    have hle : r ≤ x := not_lt.mp hc
    have := hmono.monotoneOn ⟨hr1, hr2⟩ ⟨hx1, hx2⟩ hle
    simp only [hroot] at this
    linarith
  · intro hlt
    have := hmono ⟨hx1, hx2⟩ ⟨hr1, hr2⟩ hlt
    simp only [hroot] at this
    exact this

/-- **Backward direction**: bisection of `L ↦ −F(σ, L)` on `[σ, K_p σ]` converges to the load whose root is `σ`. -/
theorem seegerBeste_backward_bisection_converges (h : m.Adm) (hKp : 1 < m.Kp) {s : ℝ} (hs : 0 < s) :
    ∃ L, s < L ∧ L < m.Kp * s ∧ sbStressImplicit m s L = 0 ∧
      ∀ n, |bisect (fun L' => -sbStressImplicit m s L') n s (m.Kp * s) - L| ≤ (m.Kp * s - s) / 2 ^ (n + 1) := by
  obtain ⟨hanti, _, _, _, ⟨L, hL1, hL2, hroot⟩, _⟩ := seegerBeste_load_inverse h hKp hs
  refine ⟨L, hL1, hL2, hroot, fun n => ?_⟩
  have hb := (load_mem_iff hKp).mp ⟨hL1, hL2⟩
  have hG0 : sbG m s L = 0 := (seegerBeste_root_iff_G h hKp (lt_trans hs hL1) hb.1 hb.2).mp hroot
  refine bisect_encloses_root _ L n _ _ (load_bracket_lt hKp hs) hL1.le hL2.le (fun x hx1 hx2 => ?_)
  have hxb := (load_mem_iff hKp).mp ⟨hx1, hx2⟩
  have hsign := seegerBeste_sign_iff h hKp (lt_trans hs hx1) hxb.1 hxb.2
  rw [neg_lt_zero, hsign.2]
  constructor
  · intro hpos
    by_contra hc
    have hle : L ≤ x := not_lt.mp hc
    have := hanti.antitoneOn ⟨hL1, hL2⟩ ⟨hx1, hx2⟩ hle
    simp only [hG0] at this
    linarith
  · intro hlt
    have := hanti ⟨hx1, hx2⟩ ⟨hL1, hL2⟩ hlt
    simp only [hG0] at this
    exact this

/-- **The end value the repaired solver uses at `σ = L`** (`SeegerBeste._stress_implicit_limit`,
repo commit 8e3c607): the coded quotient form tends to `ε(L) / (K_p·e*(L)) − 1` for
`σ → L⁻` (the middle term tends to 1, `seegerBeste_middleTerm_limit`), and this limit is `≥ 0`: the sign the bisection
assumes above the root.  (The VALUE of the coded function at `σ = L` is `ε/0 − 1`, not this limit.) -/
theorem seegerBeste_implicit_limit_at_load (h : m.Adm) (hKp : 1 < m.Kp) {L : ℝ} (hL : 0 < L) :
    Filter.Tendsto (fun s => sbStressImplicit m s L) (nhdsWithin L (Set.Iio L))
      (nhds (roStrain m L / (m.Kp * eStar m L) - 1)) ∧
    0 ≤ roStrain m L / (m.Kp * eStar m L) - 1 := by
  have he := eStar_pos h hL
  have hden : 0 < m.Kp * eStar m L := mul_pos h.Kp_pos he
  constructor
  · have hM := (seegerBeste_middleTerm_limit (m := m) hKp hL).1
    have hid : Filter.Tendsto (fun s : ℝ => s) (nhdsWithin L (Set.Iio L)) (nhds L) :=
      Filter.tendsto_id.mono_left nhdsWithin_le_nhds
    have hro : Filter.Tendsto (fun s => roStrain m s) (nhdsWithin L (Set.Iio L)) (nhds (roStrain m L)) :=
      ((roStrain_continuousOn h).continuousAt (Ici_mem_nhds hL)).tendsto.mono_left nhdsWithin_le_nhds
    have hN : Filter.Tendsto (fun s => L / s * m.Kp * eStar m L) (nhdsWithin L (Set.Iio L)) (nhds (L / L * m.Kp * eStar m L)) :=
      ((tendsto_const_nhds.div hid hL.ne').mul tendsto_const_nhds).mul tendsto_const_nhds
    have hMN := hM.mul hN
    have e1 : (1 : ℝ) * (L / L * m.Kp * eStar m L) = m.Kp * eStar m L := by rw [div_self hL.ne']; ring
    rw [e1] at hMN
    have hq := (hro.div hMN hden.ne').sub (tendsto_const_nhds (x := (1 : ℝ)))
    refine hq.congr' ?_
    filter_upwards [Ioo_mem_nhdsLT hL] with s hs
    have hs0 : s ≠ 0 := hs.1.ne'
    unfold sbStressImplicit neuberStrain
    rw [ratio_of_ne hs0, lit1]
    rfl
  · rw [sub_nonneg, le_div_iff₀ hden, one_mul, eStar_eq]
    exact kp_mul_estar_le h hL.le

/-- non-vacuity: the bound at a concrete material, load and number of halvings -/
example : ∃ r : ℝ, 400 / 3.5 < r ∧ r < 400 ∧
    |bisect (fun s => sbStressImplicit (⟨206000, 1184, 0.187, 3.5⟩ : Mat ℝ) s 400) 30 (400 / 3.5) 400 - r|
      ≤ (400 - 400 / 3.5) / 2 ^ 31 := by
  have hA : (⟨206000, 1184, 0.187, 3.5⟩ : Mat ℝ).Adm := by constructor <;> norm_num
  obtain ⟨r, h1, h2, _, hb⟩ := seegerBeste_bisection_converges hA (by norm_num) (by norm_num : (0 : ℝ) < 400)
  exact ⟨r, h1, h2, hb 30⟩

end PylifeVerif.C06
