/-
C02/C03, FKM part: on a single chunk the FKM detector model is the Clormann–Seeger HCM rule on
the turning-point values; closed pairs and residual partition the turning points; flipping the
sign of the signal flips the sign of every recorded value and nothing else.
-/
import Proofs.Lemmas.Fkm
import Proofs.C02FourPoint

namespace PylifeVerif.C02
open PylifeVerif.Rainflow PylifeVerif.Rainflow.Fkm

/-- General form on an arbitrary strictly alternating list of turning-point values: the model
loop (with its running maximum `maxTurn`) and the reference HCM rule (which looks at the top
residual) produce the same residual stack, the same `ir` and the same cycles.  Alternation is
necessary: `[-2, -2, -1, -2]` is a counterexample without it. -/
theorem fkmFold_eq_hcm (turns : List Int) (h : Alternating turns) :
    (turns.foldl fkmTurn {}).res = (Spec.hcm turns).res ∧
    (turns.foldl fkmTurn {}).ir = (Spec.hcm turns).ir ∧
    (turns.foldl fkmTurn {}).cycles = (Spec.hcm turns).cycles :=
  Fkm.fkmFold_eq_hcm {} turns h

/-- The alternation hypothesis cannot be dropped. -/
example : (([-2, -2, -1, -2] : List Int).foldl fkmTurn {}).ir ≠ (Spec.hcm [-2, -2, -1, -2]).ir := by
  decide

/-- General form of the partition property, for an arbitrary list of values (no alternation
needed). -/
theorem fkmFold_partition (turns : List Int) :
    (((turns.foldl fkmTurn {}).cycles.flatMap fun c => [c.1, c.2]) ++
      (turns.foldl fkmTurn {}).res).Perm turns := by
  simpa using Fkm.fkmFold_perm turns {}

/-- The turn values found by the scan strictly alternate. -/
theorem findTurns_alternating (s : List Int) : Alternating ((findTurns s).map (·.2)) :=
  Fkm.findTurns_alternating s

/-- `fkm_eq_spec` relative to the correctness of the scan. -/
theorem fkm_eq_spec_of_turns (s : List Int) (h : findTurns s = Spec.reversals s) :
    ((fkmRun [s]).cycles, (fkmRun [s]).res) =
      ((Spec.hcm ((Spec.reversals s).map (·.2))).cycles,
        (Spec.hcm ((Spec.reversals s).map (·.2))).res) := by
  rw [← h, fkmRun_single]
  obtain ⟨h1, _, h3⟩ := Fkm.fkmFold_eq_hcm (newTurns {} s).1 ((findTurns s).map (·.2))
    (Fkm.findTurns_alternating s)
  rw [h1, h3]

/-- `fkm_partition` relative to the correctness of the scan. -/
theorem fkm_partition_of_turns (s : List Int) (h : findTurns s = Spec.reversals s) :
    (((fkmRun [s]).cycles.flatMap fun c => [c.1, c.2]) ++ (fkmRun [s]).res).Perm
      ((Spec.reversals s).map (·.2)) := by
  rw [← h]
  exact fkmRun_single_perm s

theorem fkm_eq_spec (s : List Int) :
    ((fkmRun [s]).cycles, (fkmRun [s]).res) =
      ((Spec.hcm ((Spec.reversals s).map (·.2))).cycles, (Spec.hcm ((Spec.reversals s).map (·.2))).res) :=
  fkm_eq_spec_of_turns s (findTurns_eq_reversals s)

theorem fkm_partition (s : List Int) :
    (((fkmRun [s]).cycles.flatMap fun c => [c.1, c.2]) ++ (fkmRun [s]).res).Perm ((Spec.reversals s).map (·.2)) :=
  fkm_partition_of_turns s (findTurns_eq_reversals s)

/-- Non-vacuity: a signal with closings on and off the primary path (the F-1 witness). -/
example : (fkmRun [[3, -3, 3, -2, 4, -4, 5]]).cycles = [(3, -2)] ∧
    (fkmRun [[3, -3, 3, -2, 4, -4, 5]]).res = [-4, 4, -3] := by decide

example : Alternating ((findTurns [3, -3, 3, -2, 4, -4, 5]).map (·.2)) := by decide

end PylifeVerif.C02

namespace PylifeVerif.C03
open PylifeVerif.Rainflow PylifeVerif.Rainflow.Fkm

theorem fkm_neg (cs : List (List Int)) :
    let r := fkmRun (cs.map (List.map (- ·))); let r0 := fkmRun cs
    r.cycles = r0.cycles.map (fun c => (-c.1, -c.2)) ∧ r.res = r0.res.map (- ·) ∧ r.ir = r0.ir ∧ r.ts.head = r0.ts.head := by
  intro r r0
  have h : r = negSt r0 := fkmRun_neg cs
  rw [h]
  exact ⟨rfl, rfl, rfl, rfl⟩

example : (fkmRun [[-3, 3], [-3, 2, -4], [4, -5]]).cycles = [(-3, 2)] := by decide

end PylifeVerif.C03

section AxiomCheck
#print axioms PylifeVerif.C02.fkmFold_eq_hcm
#print axioms PylifeVerif.C02.fkmFold_partition
#print axioms PylifeVerif.C02.findTurns_alternating
#print axioms PylifeVerif.C02.fkm_eq_spec_of_turns
#print axioms PylifeVerif.C02.fkm_partition_of_turns
#print axioms PylifeVerif.C02.fkm_eq_spec
#print axioms PylifeVerif.C02.fkm_partition
#print axioms PylifeVerif.C03.fkm_neg
end AxiomCheck
