/-
C17 — equivalent stresses are rotation invariant and match the principal stresses.

Model: `Model/Equistress.lean` (each function as `equistress.py` computes it, generic carrier; here at ℝ).
`tensor v` is the symmetric matrix `eigenval` assembles from the six components; `IsEigTriple A w` is
the contract of `numpy.linalg.eigvalsh`: `w` ascending and `charpoly A = (X-w0)(X-w1)(X-w2)`.
The eigenvalue based functions take that triple as input (`eigvalsh` itself is modelled, not verified).
-/
import Proofs.Lemmas.Equistress

namespace PylifeVerif.C17
open Matrix PylifeVerif.Equistress

/-! ## 1. The Mises radicand (finding F-13) -/

/-- Over ℝ the expanded polynomial of the unrepaired code equals the sum-of-squares radicand of the
repaired code. -/
theorem misesRadicandExpanded_eq_sum_of_squares (v : Voigt ℝ) :
    misesRadicandExpanded v =
      ((v.s11 - v.s22) ^ 2 + (v.s22 - v.s33) ^ 2 + (v.s33 - v.s11) ^ 2) / 2
        + 3 * (v.s12 ^ 2 + v.s13 ^ 2 + v.s23 ^ 2) := by
  rw [misesRadicandExpanded_real]; ring

example : misesRadicandExpanded (⟨3.3, 3.3, 3.3, 0, 0, 0⟩ : Voigt ℝ) = 0 := by
  rw [misesRadicandExpanded_eq_sum_of_squares]; norm_num

/-- The radicand of the expanded formula is non-negative over ℝ: a NaN of `mises` on finite input
(F-13) is a floating-point cancellation artefact, never a property of the formula. -/
theorem misesRadicandExpanded_nonneg (v : Voigt ℝ) : 0 ≤ misesRadicandExpanded v := by
  rw [misesRadicandExpanded_eq_sum_of_squares]; positivity

/-- Expanded (unrepaired) and sum-of-squares (repaired) formula are the same real function. -/
theorem misesExpanded_eq_mises (v : Voigt ℝ) : misesExpanded v = mises v := by
  rw [misesExpanded, mises, misesRadicandExpanded_eq_sum_of_squares, misesRadicand_real]

example : misesExpanded exS = mises exS := misesExpanded_eq_mises _

/-! ## 2. Mises in terms of the trace invariants; rotation invariance -/

/-- `mises² = (3 tr(A²) − (tr A)²)/2` for the symmetric tensor built from the six components. -/
theorem mises_sq_eq_invariants (v : Voigt ℝ) :
    mises v ^ 2 = (3 * (tensor v * tensor v).trace - (tensor v).trace ^ 2) / 2 := by
  rw [mises, transc_sqrt, Real.sq_sqrt (misesRadicand_nonneg v), misesRadicand_real,
    trace_tensor, trace_tensor_sq]
  ring

theorem mises_eq_sqrt_invariants (v : Voigt ℝ) :
    mises v = Real.sqrt ((3 * (tensor v * tensor v).trace - (tensor v).trace ^ 2) / 2) := by
  rw [← mises_sq_eq_invariants, Real.sqrt_sq (mises_nonneg v)]

example : mises exS ^ 2 = 234 := by
  rw [mises_sq_eq_invariants, trace_tensor, trace_tensor_sq]; norm_num [exS]

/-- Rotation invariance of von Mises: if `t` holds the components of the tensor `s` expressed in a
basis rotated by any orthogonal `Q` (`QᵀQ = 1`; proper rotations and reflections), Mises is the same. -/
theorem mises_rotation_invariant (s t : Voigt ℝ) (Q : Matrix (Fin 3) (Fin 3) ℝ) (hQ : Qᵀ * Q = 1)
    (h : tensor t = Q * tensor s * Qᵀ) : mises t = mises s := by
  rw [mises_eq_sqrt_invariants t, mises_eq_sqrt_invariants s, h, trace_sq_conj hQ, trace_conj hQ]

example : mises exT = mises exS := mises_rotation_invariant exS exT exQ exQ_orth exT_eq

/-! ## 3. The eigenvalue contract: existence, uniqueness, rotation invariance -/

/-- Every tensor built from six components has an ascending eigenvalue triple (spectral theorem), so
the hypothesis `IsEigTriple (tensor v) w` of the theorems below is satisfiable for every input. -/
theorem eigTriple_exists (v : Voigt ℝ) : ∃ w, IsEigTriple (tensor v) w :=
  exists_eigTriple (tensor_isHermitian v)

/-- The ascending eigenvalue triple does not change under an orthogonal change of basis, hence no
function of it does (`tresca`, `max/min/abs_max_principal`, the sign indicators). -/
theorem eigTriple_rotation_invariant (s t : Voigt ℝ) (Q : Matrix (Fin 3) (Fin 3) ℝ)
    (hQ : Qᵀ * Q = 1) (h : tensor t = Q * tensor s * Qᵀ) {w w' : Principal ℝ}
    (hw : IsEigTriple (tensor s) w) (hw' : IsEigTriple (tensor t) w') : w' = w := by
  rw [h] at hw'
  exact hw'.unique (hw.conj hQ)

/-- The triple consists exactly of the eigenvalues in the usual sense (`A x = μ x` with `x ≠ 0`). -/
theorem eigTriple_are_eigenvalues (v : Voigt ℝ) (w : Principal ℝ) (h : IsEigTriple (tensor v) w) (μ : ℝ) :
    (∃ x : Fin 3 → ℝ, x ≠ 0 ∧ tensor v *ᵥ x = μ • x) ↔ μ = w.w0 ∨ μ = w.w1 ∨ μ = w.w2 :=
  h.eigenvalue_iff μ

example : IsEigTriple (tensor ⟨1, 2, 3, 0, 0, 0⟩) ⟨1, 2, 3⟩ :=
  isEigTriple_diag (by norm_num) (by norm_num)

example {w w' : Principal ℝ} (hw : IsEigTriple (tensor exS) w) (hw' : IsEigTriple (tensor exT) w') :
    w' = w := eigTriple_rotation_invariant exS exT exQ exQ_orth exT_eq hw hw'

/-! ## 4. Principal forms -/

/-- Mises equals its principal form `√(((λ₁−λ₂)²+(λ₂−λ₃)²+(λ₃−λ₁)²)/2)` (via the spectral theorem:
`tr A = Σλ`, `tr A² = Σλ²`). -/
theorem mises_eq_principal_form (v : Voigt ℝ) (w : Principal ℝ) (h : IsEigTriple (tensor v) w) :
    mises v = principalMises w := by
  rw [mises_eq_sqrt_invariants, h.trace_eq (tensor_isHermitian v),
    h.trace_sq_eq (tensor_isHermitian v), principalMises]
  congr 1; ring

example : mises (⟨1, 2, 3, 0, 0, 0⟩ : Voigt ℝ) = principalMises ⟨1, 2, 3⟩ :=
  mises_eq_principal_form _ _ (isEigTriple_diag (by norm_num) (by norm_num))

/-- Tresca = largest minus smallest eigenvalue (for any order of the three values) … -/
theorem tresca_eq_max_sub_min (w : Principal ℝ) :
    tresca w = max (max w.w0 w.w1) w.w2 - min (min w.w0 w.w1) w.w2 := by
  rw [tresca, amax3_real]
  simp only [transc_abs]
  rw [← max_sub_min_eq_abs' w.w0 w.w1, ← max_sub_min_eq_abs' w.w0 w.w2, ← max_sub_min_eq_abs' w.w1 w.w2]
  rcases le_total w.w0 w.w1 with h01 | h01 <;> rcases le_total w.w1 w.w2 with h12 | h12 <;>
    rcases le_total w.w0 w.w2 with h02 | h02 <;>
    simp only [max_def, min_def] <;> split_ifs <;> linarith

/-- … in particular `w₂ − w₀` on the ascending triple `eigvalsh` returns. -/
theorem tresca_def (w : Principal ℝ) (h1 : w.w0 ≤ w.w1) (h2 : w.w1 ≤ w.w2) :
    tresca w = w.w2 - w.w0 := tresca_asc h1 h2

theorem maxPrincipal_def (w : Principal ℝ) (h1 : w.w0 ≤ w.w1) (h2 : w.w1 ≤ w.w2) :
    maxPrincipal w = w.w2 := maxPrincipal_asc h1 h2

theorem minPrincipal_def (w : Principal ℝ) (h1 : w.w0 ≤ w.w1) (h2 : w.w1 ≤ w.w2) :
    minPrincipal w = w.w0 := minPrincipal_asc h1 h2

/-- Absolute maximum principal stress = the eigenvalue of largest magnitude with its sign (the
positive one when `|w₀| = |w₂|`); its magnitude is the largest `|λ|`. -/
theorem absMaxPrincipal_def (w : Principal ℝ) (h1 : w.w0 ≤ w.w1) (h2 : w.w1 ≤ w.w2) :
    absMaxPrincipal w = (if |w.w0| ≤ |w.w2| then w.w2 else w.w0) ∧
      |absMaxPrincipal w| = max (max |w.w0| |w.w1|) |w.w2| := by
  rw [absMaxPrincipal_real, maxPrincipal_asc h1 h2, minPrincipal_asc h1 h2]
  by_cases h : 0 ≤ w.w2 + w.w0
  · have hc : |w.w0| ≤ |w.w2| := by
      rw [abs_le]; constructor <;> cases abs_cases w.w2 <;> linarith
    have h1' : |w.w1| ≤ |w.w2| := by
      rw [abs_le]; constructor <;> cases abs_cases w.w2 <;> linarith
    rw [if_pos h, if_pos hc, max_eq_right (le_trans (max_le hc h1') le_rfl)]
    exact ⟨rfl, rfl⟩
  · have h' : w.w2 + w.w0 < 0 := not_le.mp h
    have h1' : |w.w1| ≤ |w.w0| := by
      rw [abs_le]; constructor <;> cases abs_cases w.w0 <;> linarith
    have h2' : |w.w2| ≤ |w.w0| := by
      rw [abs_le]; constructor <;> cases abs_cases w.w0 <;> linarith
    rw [if_neg h, max_eq_left h1', max_eq_left h2']
    refine ⟨?_, rfl⟩
    by_cases hc : |w.w0| ≤ |w.w2|
    · rw [if_pos hc]
      cases abs_cases w.w0 <;> cases abs_cases w.w2 <;> linarith
    · rw [if_neg hc]

example : absMaxPrincipal (⟨-5, 1, 3⟩ : Principal ℝ) = -5 := by
  rw [(absMaxPrincipal_def ⟨-5, 1, 3⟩ (by norm_num) (by norm_num)).1]; norm_num
example : absMaxPrincipal (⟨-3, 1, 3⟩ : Principal ℝ) = 3 := by
  rw [(absMaxPrincipal_def ⟨-3, 1, 3⟩ (by norm_num) (by norm_num)).1]; norm_num
example : tresca (⟨-5, 1, 3⟩ : Principal ℝ) = 8 := by rw [tresca_def _ (by norm_num) (by norm_num)]; norm_num

/-! ## 5. Mises ≤ Tresca ≤ 2/√3 · Mises -/

theorem principalMises_le_tresca_le (w : Principal ℝ) (h1 : w.w0 ≤ w.w1) (h2 : w.w1 ≤ w.w2) :
    principalMises w ≤ tresca w ∧ tresca w ≤ 2 / Real.sqrt 3 * principalMises w := by
  rw [tresca_asc h1 h2]
  have hx : 0 ≤ w.w1 - w.w0 := by linarith
  have hy : 0 ≤ w.w2 - w.w1 := by linarith
  have hxy := mul_nonneg hx hy
  have hr : 0 ≤ ((w.w0 - w.w1) ^ 2 + (w.w1 - w.w2) ^ 2 + (w.w2 - w.w0) ^ 2) / 2 := by positivity
  constructor
  · rw [principalMises, Real.sqrt_le_iff]
    exact ⟨by linarith, by nlinarith⟩
  · have h3 : 0 < Real.sqrt 3 := Real.sqrt_pos.mpr (by norm_num)
    have h33 : Real.sqrt 3 ^ 2 = 3 := Real.sq_sqrt (by norm_num)
    have hP := principalMises_nonneg w
    have hPP : principalMises w ^ 2 =
        ((w.w0 - w.w1) ^ 2 + (w.w1 - w.w2) ^ 2 + (w.w2 - w.w0) ^ 2) / 2 := Real.sq_sqrt hr
    rw [div_mul_eq_mul_div, le_div_iff₀ h3]
    have hT : 0 ≤ (w.w2 - w.w0) * Real.sqrt 3 := mul_nonneg (by linarith) h3.le
    rw [← sq_le_sq₀ hT (by positivity)]
    rw [mul_pow, mul_pow, h33, hPP]
    nlinarith [sq_nonneg ((w.w1 - w.w0) - (w.w2 - w.w1))]

/-- The inequality chain for the functions of the code, on every tensor. -/
theorem mises_le_tresca_le (v : Voigt ℝ) (w : Principal ℝ) (h : IsEigTriple (tensor v) w) :
    mises v ≤ tresca w ∧ tresca w ≤ 2 / Real.sqrt 3 * mises v := by
  rw [mises_eq_principal_form v w h]
  exact principalMises_le_tresca_le w h.1 h.2.1

example : mises (⟨1, 2, 3, 0, 0, 0⟩ : Voigt ℝ) ≤ tresca (⟨1, 2, 3⟩ : Principal ℝ) ∧
    tresca (⟨1, 2, 3⟩ : Principal ℝ) ≤ 2 / Real.sqrt 3 * mises (⟨1, 2, 3, 0, 0, 0⟩ : Voigt ℝ) :=
  mises_le_tresca_le _ _ (isEigTriple_diag (by norm_num) (by norm_num))

/-! ## 6. Signed variants: magnitude and sign (+1 for a zero indicator) -/

/-- `_sign_trace`: the sign of the trace of the tensor, `+1` when the trace is zero. -/
theorem signTrace_def (v : Voigt ℝ) : signTrace v = if 0 ≤ (tensor v).trace then 1 else -1 := by
  rw [signTrace_real, trace_tensor]

/-- `_sign_abs_max_principal`: the sign of the absolute maximum principal stress, `+1` when that is
zero; equivalently `+1` iff `w₂ + w₀ ≥ 0`. -/
theorem signAbsMax_def (w : Principal ℝ) (h1 : w.w0 ≤ w.w1) (h2 : w.w1 ≤ w.w2) :
    signAbsMax w = (if 0 ≤ absMaxPrincipal w then 1 else -1) ∧
      signAbsMax w = (if 0 ≤ w.w2 + w.w0 then 1 else -1) := by
  rw [signAbsMax_real, absMaxPrincipal_real, maxPrincipal_asc h1 h2, minPrincipal_asc h1 h2]
  refine ⟨?_, rfl⟩
  by_cases h : 0 ≤ w.w2 + w.w0
  · have : 0 ≤ w.w2 := by linarith
    rw [if_pos h, if_pos h, if_pos this]
  · have : ¬ 0 ≤ w.w0 := by intro h0; exact h (by linarith)
    rw [if_neg h, if_neg h, if_neg this]

example : signAbsMax (⟨-5, 1, 3⟩ : Principal ℝ) = -1 := by
  rw [(signAbsMax_def _ (by norm_num) (by norm_num)).2, if_neg (by norm_num)]
example : signAbsMax (⟨0, 0, 0⟩ : Principal ℝ) = 1 := by
  rw [(signAbsMax_def _ le_rfl le_rfl).2, if_pos (by norm_num)]
example : signTrace (⟨0, 0, 0, 5, 0, 0⟩ : Voigt ℝ) = 1 := by
  rw [signTrace_real, if_pos (by norm_num)]

theorem signedMisesTrace_def (v : Voigt ℝ) :
    signedMisesTrace v = (if 0 ≤ v.s11 + v.s22 + v.s33 then mises v else - mises v) ∧
      |signedMisesTrace v| = mises v := by
  rw [signedMisesTrace, signTrace_real]
  split_ifs <;> simp [abs_of_nonneg (mises_nonneg v)]

theorem signedTrescaTrace_def (v : Voigt ℝ) (w : Principal ℝ) (h1 : w.w0 ≤ w.w1) (h2 : w.w1 ≤ w.w2) :
    signedTrescaTrace v w = (if 0 ≤ v.s11 + v.s22 + v.s33 then tresca w else - tresca w) ∧
      |signedTrescaTrace v w| = tresca w := by
  have ht : 0 ≤ tresca w := by rw [tresca_asc h1 h2]; linarith
  rw [signedTrescaTrace, signTrace_real]
  split_ifs <;> simp [abs_of_nonneg ht]

/-- sign from the absolute maximum principal stress: `+` iff `w₂ + w₀ ≥ 0` (i.e. `|w₀| ≤ |w₂|`). -/
theorem signedMisesAbsMax_def (v : Voigt ℝ) (w : Principal ℝ) (h1 : w.w0 ≤ w.w1) (h2 : w.w1 ≤ w.w2) :
    signedMisesAbsMax v w = (if 0 ≤ w.w2 + w.w0 then mises v else - mises v) ∧
      |signedMisesAbsMax v w| = mises v := by
  rw [signedMisesAbsMax, signAbsMax_real, maxPrincipal_asc h1 h2, minPrincipal_asc h1 h2]
  split_ifs <;> simp [abs_of_nonneg (mises_nonneg v)]

theorem signedTrescaAbsMax_def (w : Principal ℝ) (h1 : w.w0 ≤ w.w1) (h2 : w.w1 ≤ w.w2) :
    signedTrescaAbsMax w = (if 0 ≤ w.w2 + w.w0 then tresca w else - tresca w) ∧
      |signedTrescaAbsMax w| = tresca w := by
  have ht : 0 ≤ tresca w := by rw [tresca_asc h1 h2]; linarith
  rw [signedTrescaAbsMax, signAbsMax_real, maxPrincipal_asc h1 h2, minPrincipal_asc h1 h2]
  split_ifs <;> simp [abs_of_nonneg ht]

/-- `+1` for a zero indicator: zero trace, resp. `w₂ = −w₀` (in particular the zero tensor). -/
theorem signed_zero_indicator (v : Voigt ℝ) (w : Principal ℝ) (h1 : w.w0 ≤ w.w1) (h2 : w.w1 ≤ w.w2) :
    (v.s11 + v.s22 + v.s33 = 0 → signedMisesTrace v = mises v ∧ signedTrescaTrace v w = tresca w) ∧
    (w.w2 + w.w0 = 0 → signedMisesAbsMax v w = mises v ∧ signedTrescaAbsMax w = tresca w ∧
      absMaxPrincipal w = w.w2) := by
  constructor
  · intro h0
    rw [(signedMisesTrace_def v).1, (signedTrescaTrace_def v w h1 h2).1, if_pos h0.ge, if_pos h0.ge]
    exact ⟨rfl, rfl⟩
  · intro h0
    rw [(signedMisesAbsMax_def v w h1 h2).1, (signedTrescaAbsMax_def w h1 h2).1, if_pos h0.ge,
      if_pos h0.ge, absMaxPrincipal_real, maxPrincipal_asc h1 h2, minPrincipal_asc h1 h2, if_pos h0.ge]
    exact ⟨rfl, rfl, rfl⟩

example : signedMisesTrace (⟨1, -1, 0, 2, 0, 0⟩ : Voigt ℝ) = mises ⟨1, -1, 0, 2, 0, 0⟩ :=
  ((signed_zero_indicator ⟨1, -1, 0, 2, 0, 0⟩ ⟨0, 0, 0⟩ le_rfl le_rfl).1 (by norm_num)).1
example : signedMisesTrace (⟨1, -3, 0, 2, 0, 0⟩ : Voigt ℝ) = - mises ⟨1, -3, 0, 2, 0, 0⟩ := by
  rw [(signedMisesTrace_def _).1, if_neg (by norm_num)]
example : signedTrescaAbsMax (⟨-5, 1, 3⟩ : Principal ℝ) = - tresca ⟨-5, 1, 3⟩ := by
  rw [(signedTrescaAbsMax_def _ (by norm_num) (by norm_num)).1, if_neg (by norm_num)]

/-! ## 6b. The tie set of the sign indicators

The signed variants and `abs_max_principal` jump by twice their magnitude where their indicator (the trace,
resp. `w₂ + w₀`) passes through zero.  Over ℝ they are rotation invariant on every tensor (section 8); a
floating-point evaluation receives a rotated tensor `Q S Qᵀ` that carries rounding, i.e. a NEIGHBOUR of the
exact rotation.  The theorems below say exactly when the sign survives going to a neighbour: iff the
indicator is non-zero, with the margin stated; on the tie set (pure shear, every zero-trace tensor, every
`w₂ = −w₀`) an arbitrarily small hydrostatic perturbation flips the sign while Mises and Tresca stay the same.
The harness therefore compares the SIGN across rotation / scaling only outside a rounding window around the
tie set (c17.py `SIGN_WINDOW`) and counts the comparisons reduced to magnitudes. -/

/-- The trace indicator keeps its sign on every tensor whose normal components are within `δ`, provided
`|trace| > 3δ`. -/
theorem signTrace_stable (s t : Voigt ℝ) (δ : ℝ) (h11 : |t.s11 - s.s11| ≤ δ) (h22 : |t.s22 - s.s22| ≤ δ)
    (h33 : |t.s33 - s.s33| ≤ δ) (hm : 3 * δ < |s.s11 + s.s22 + s.s33|) : signTrace t = signTrace s := by
  rw [signTrace_real, signTrace_real]
  rw [abs_le] at h11 h22 h33
  by_cases h : 0 ≤ s.s11 + s.s22 + s.s33
  · rw [abs_of_nonneg h] at hm
    rw [if_pos h, if_pos (by linarith [h11.1, h22.1, h33.1])]
  · rw [abs_of_neg (not_le.mp h)] at hm
    rw [if_neg h, if_neg (by linarith [h11.2, h22.2, h33.2])]

/-- The abs-max indicator keeps its sign on every ascending triple whose extreme members are within `δ`,
provided `|w₂ + w₀| > 2δ`; `abs_max_principal` then moves by at most `δ`. -/
theorem signAbsMax_stable (w w' : Principal ℝ) (h1 : w.w0 ≤ w.w1) (h2 : w.w1 ≤ w.w2)
    (h1' : w'.w0 ≤ w'.w1) (h2' : w'.w1 ≤ w'.w2) (δ : ℝ) (d0 : |w'.w0 - w.w0| ≤ δ) (d2 : |w'.w2 - w.w2| ≤ δ)
    (hm : 2 * δ < |w.w2 + w.w0|) :
    signAbsMax w' = signAbsMax w ∧ |absMaxPrincipal w' - absMaxPrincipal w| ≤ δ := by
  rw [(signAbsMax_def w h1 h2).2, (signAbsMax_def w' h1' h2').2, absMaxPrincipal_real, absMaxPrincipal_real,
    maxPrincipal_asc h1 h2, minPrincipal_asc h1 h2, maxPrincipal_asc h1' h2', minPrincipal_asc h1' h2']
  have e0 := abs_le.mp d0
  have e2 := abs_le.mp d2
  by_cases h : 0 ≤ w.w2 + w.w0
  · rw [abs_of_nonneg h] at hm
    have h' : 0 ≤ w'.w2 + w'.w0 := by linarith [e0.1, e2.1]
    rw [if_pos h, if_pos h', if_pos h, if_pos h']
    exact ⟨rfl, d2⟩
  · rw [abs_of_neg (not_le.mp h)] at hm
    have h' : ¬ 0 ≤ w'.w2 + w'.w0 := by
      intro hh; linarith [e0.2, e2.2]
    rw [if_neg h, if_neg h', if_neg h, if_neg h']
    exact ⟨rfl, d0⟩

/-- A superposed hydrostatic pressure `p` lowers the eigenvalue triple by `p` and changes neither Mises nor
Tresca. -/
theorem hydroShift_invariants (p : ℝ) (s : Voigt ℝ) (w : Principal ℝ) (h : IsEigTriple (tensor s) w) :
    IsEigTriple (tensor (hydroShift p s)) (shiftW p w) ∧ mises (hydroShift p s) = mises s ∧
      tresca (shiftW p w) = tresca w := by
  have hs : IsEigTriple (tensor (hydroShift p s)) (shiftW p w) := by
    rw [tensor_hydroShift]; exact h.sub_scalar p
  refine ⟨hs, ?_, ?_⟩
  · rw [mises_real, mises_real]
    congr 1
    simp only [hydroShift]; ring
  · rw [tresca_asc hs.1 hs.2.1, tresca_asc h.1 h.2.1]
    simp only [shiftW]; ring

/-- On the tie set of the trace indicator (trace = 0: pure shear, every deviatoric tensor) the variants signed
by the trace are `+`, and on the neighbour with an arbitrarily small hydrostatic pressure `p > 0` superposed
they are `−` of the SAME magnitude: a jump of `2·mises` resp. `2·tresca`. -/
theorem signedTrace_jump_at_tie (s : Voigt ℝ) (w : Principal ℝ) (h : IsEigTriple (tensor s) w)
    (htr : s.s11 + s.s22 + s.s33 = 0) (p : ℝ) (hp : 0 < p) :
    signedMisesTrace s = mises s ∧ signedMisesTrace (hydroShift p s) = - mises s ∧
    signedTrescaTrace s w = tresca w ∧ signedTrescaTrace (hydroShift p s) (shiftW p w) = - tresca w := by
  obtain ⟨hs, hM, hT⟩ := hydroShift_invariants p s w h
  have hneg : ¬ 0 ≤ (hydroShift p s).s11 + (hydroShift p s).s22 + (hydroShift p s).s33 := by
    simp only [hydroShift]; intro hh; linarith
  rw [(signedMisesTrace_def s).1, (signedMisesTrace_def _).1, (signedTrescaTrace_def s w h.1 h.2.1).1,
    (signedTrescaTrace_def _ _ hs.1 hs.2.1).1, if_pos htr.ge, if_neg hneg, if_pos htr.ge, if_neg hneg, hM, hT]
  exact ⟨rfl, rfl, rfl, rfl⟩

/-- On the tie set of the abs-max indicator (`w₂ = −w₀`: pure shear, …) `abs_max_principal` is `w₂` and the
variants signed by it are `+`; on the neighbour with an arbitrarily small hydrostatic pressure `p > 0`
superposed `abs_max_principal` is `w₀ − p` and the signed variants are `−` of the SAME magnitude. -/
theorem signedAbsMax_jump_at_tie (s : Voigt ℝ) (w : Principal ℝ) (h : IsEigTriple (tensor s) w)
    (htie : w.w2 + w.w0 = 0) (p : ℝ) (hp : 0 < p) :
    absMaxPrincipal w = w.w2 ∧ absMaxPrincipal (shiftW p w) = w.w0 - p ∧
    signedMisesAbsMax s w = mises s ∧ signedMisesAbsMax (hydroShift p s) (shiftW p w) = - mises s ∧
    signedTrescaAbsMax w = tresca w ∧ signedTrescaAbsMax (shiftW p w) = - tresca w := by
  obtain ⟨hs, hM, hT⟩ := hydroShift_invariants p s w h
  have hneg : ¬ 0 ≤ (shiftW p w).w2 + (shiftW p w).w0 := by
    simp only [shiftW]; intro hh; linarith
  obtain ⟨z1, z2, z3⟩ := (signed_zero_indicator s w h.1 h.2.1).2 htie
  refine ⟨z3, ?_, z1, ?_, z2, ?_⟩
  · rw [absMaxPrincipal_real, maxPrincipal_asc hs.1 hs.2.1, minPrincipal_asc hs.1 hs.2.1, if_neg hneg]
    rfl
  · rw [(signedMisesAbsMax_def _ _ hs.1 hs.2.1).1, if_neg hneg, hM]
  · rw [(signedTrescaAbsMax_def _ hs.1 hs.2.1).1, if_neg hneg, hT]

/-- The sign of the trace indicator is determined (the same on all tensors close enough) iff the trace is
not zero. -/
theorem signTrace_determined_iff (s : Voigt ℝ) :
    (∃ δ : ℝ, 0 < δ ∧ ∀ t : Voigt ℝ, |t.s11 - s.s11| ≤ δ → |t.s22 - s.s22| ≤ δ → |t.s33 - s.s33| ≤ δ →
      |t.s12 - s.s12| ≤ δ → |t.s13 - s.s13| ≤ δ → |t.s23 - s.s23| ≤ δ → signTrace t = signTrace s) ↔
    s.s11 + s.s22 + s.s33 ≠ 0 := by
  constructor
  · rintro ⟨δ, hδ, hall⟩ h0
    have := hall (hydroShift δ s) (by simp [hydroShift, abs_of_pos hδ]) (by simp [hydroShift, abs_of_pos hδ])
      (by simp [hydroShift, abs_of_pos hδ]) (by simp [hydroShift, hδ.le]) (by simp [hydroShift, hδ.le])
      (by simp [hydroShift, hδ.le])
    rw [signTrace_real, signTrace_real, if_pos h0.ge, if_neg (by simp only [hydroShift]; intro hh; linarith)] at this
    norm_num at this
  · intro hne
    refine ⟨|s.s11 + s.s22 + s.s33| / 4, by positivity, fun t a b c _ _ _ => ?_⟩
    exact signTrace_stable s t _ a b c (by linarith [abs_pos.mpr hne])

/-- The sign of the abs-max indicator (hence which eigenvalue `abs_max_principal` returns) is determined iff
`w₂ + w₀ ≠ 0`. -/
theorem signAbsMax_determined_iff (w : Principal ℝ) (h1 : w.w0 ≤ w.w1) (h2 : w.w1 ≤ w.w2) :
    (∃ δ : ℝ, 0 < δ ∧ ∀ w' : Principal ℝ, w'.w0 ≤ w'.w1 → w'.w1 ≤ w'.w2 → |w'.w0 - w.w0| ≤ δ →
      |w'.w1 - w.w1| ≤ δ → |w'.w2 - w.w2| ≤ δ → signAbsMax w' = signAbsMax w) ↔ w.w2 + w.w0 ≠ 0 := by
  constructor
  · rintro ⟨δ, hδ, hall⟩ h0
    have := hall (shiftW δ w) (by simp only [shiftW]; linarith) (by simp only [shiftW]; linarith)
      (by simp [shiftW, abs_of_pos hδ]) (by simp [shiftW, abs_of_pos hδ]) (by simp [shiftW, abs_of_pos hδ])
    rw [(signAbsMax_def w h1 h2).2, (signAbsMax_def (shiftW δ w) (by simp only [shiftW]; linarith)
      (by simp only [shiftW]; linarith)).2, if_pos h0.ge,
      if_neg (by simp only [shiftW]; intro hh; linarith)] at this
    norm_num at this
  · intro hne
    refine ⟨|w.w2 + w.w0| / 4, by positivity, fun w' a b c _ e => ?_⟩
    exact (signAbsMax_stable w w' h1 h2 a b _ c e (by linarith [abs_pos.mpr hne])).1

-- the auditor's witness: pure shear 5 in the 1-2 plane (principal stresses −5, 0, 5) and its neighbour with
-- a hydrostatic pressure of 10⁻⁹ superposed
example : signedTrescaAbsMax (⟨-5, 0, 5⟩ : Principal ℝ) = tresca ⟨-5, 0, 5⟩ ∧
    signedTrescaAbsMax (shiftW (1 / 10 ^ 9) ⟨-5, 0, 5⟩) = - tresca (⟨-5, 0, 5⟩ : Principal ℝ) ∧
    signedMisesTrace (hydroShift (1 / 10 ^ 9) ⟨0, 0, 0, 5, 0, 0⟩) = - mises (⟨0, 0, 0, 5, 0, 0⟩ : Voigt ℝ) := by
  have h := pureShear_eigTriple 5 (by norm_num)
  have a := signedAbsMax_jump_at_tie ⟨0, 0, 0, 5, 0, 0⟩ ⟨-5, 0, 5⟩ h (by norm_num) (1 / 10 ^ 9) (by positivity)
  have b := signedTrace_jump_at_tie ⟨0, 0, 0, 5, 0, 0⟩ ⟨-5, 0, 5⟩ h (by norm_num) (1 / 10 ^ 9) (by positivity)
  exact ⟨a.2.2.2.2.1, a.2.2.2.2.2, b.2.1⟩

example : signTrace (⟨1 + 1 / 10, 2, 3 - 1 / 10, 9, 9, 9⟩ : Voigt ℝ) = signTrace ⟨1, 2, 3, 4, 5, 6⟩ :=
  signTrace_stable _ _ (1 / 10) (by norm_num) (by norm_num) (by norm_num) (by norm_num)

example : signAbsMax (⟨-5 - 1 / 10, 1, 3 + 1 / 10⟩ : Principal ℝ) = signAbsMax ⟨-5, 1, 3⟩ :=
  (signAbsMax_stable ⟨-5, 1, 3⟩ _ (by norm_num) (by norm_num) (by norm_num) (by norm_num) (1 / 10)
    (by norm_num) (by norm_num) (by norm_num)).1

example : IsEigTriple (tensor (hydroShift 2 ⟨1, 2, 3, 0, 0, 0⟩)) (shiftW 2 ⟨1, 2, 3⟩) ∧
    mises (hydroShift 2 ⟨1, 2, 3, 0, 0, 0⟩) = mises (⟨1, 2, 3, 0, 0, 0⟩ : Voigt ℝ) ∧
    tresca (shiftW 2 ⟨1, 2, 3⟩) = tresca (⟨1, 2, 3⟩ : Principal ℝ) :=
  hydroShift_invariants 2 _ _ (isEigTriple_diag (by norm_num) (by norm_num))

-- compressive tensor: the sign of the abs-max indicator is determined; pure shear: it is not
example : ∃ δ : ℝ, 0 < δ ∧ ∀ w' : Principal ℝ, w'.w0 ≤ w'.w1 → w'.w1 ≤ w'.w2 → |w'.w0 - (-5)| ≤ δ →
    |w'.w1 - 1| ≤ δ → |w'.w2 - 3| ≤ δ → signAbsMax w' = signAbsMax ⟨-5, 1, 3⟩ :=
  (signAbsMax_determined_iff ⟨-5, 1, 3⟩ (by norm_num) (by norm_num)).mpr (by norm_num)

example : ¬ ∃ δ : ℝ, 0 < δ ∧ ∀ w' : Principal ℝ, w'.w0 ≤ w'.w1 → w'.w1 ≤ w'.w2 → |w'.w0 - (-5)| ≤ δ →
    |w'.w1 - 0| ≤ δ → |w'.w2 - 5| ≤ δ → signAbsMax w' = signAbsMax ⟨-5, 0, 5⟩ := by
  intro h
  exact ((signAbsMax_determined_iff ⟨-5, 0, 5⟩ (by norm_num) (by norm_num)).mp h) (by norm_num)

example : ¬ ∃ δ : ℝ, 0 < δ ∧ ∀ t : Voigt ℝ, |t.s11 - 0| ≤ δ → |t.s22 - 0| ≤ δ → |t.s33 - 0| ≤ δ →
    |t.s12 - 5| ≤ δ → |t.s13 - 0| ≤ δ → |t.s23 - 0| ≤ δ → signTrace t = signTrace ⟨0, 0, 0, 5, 0, 0⟩ := by
  intro h
  exact ((signTrace_determined_iff ⟨0, 0, 0, 5, 0, 0⟩).mp h) (by norm_num)

/-! ## 7. Positive homogeneity -/

theorem mises_smul (c : ℝ) (hc : 0 ≤ c) (v : Voigt ℝ) : mises (smulV c v) = c * mises v := by
  rw [mises_real, mises_real]
  have : ∀ r : ℝ, Real.sqrt (c ^ 2 * r) = c * Real.sqrt r := fun r => by
    rw [Real.sqrt_mul (sq_nonneg c), Real.sqrt_sq hc]
  rw [← this]
  congr 1
  simp only [smulV]; ring

/-- Scaling the tensor by `c ≥ 0` scales the eigenvalue triple `eigvalsh` must return by `c`. -/
theorem eigTriple_smul (c : ℝ) (hc : 0 ≤ c) (v : Voigt ℝ) (w : Principal ℝ)
    (h : IsEigTriple (tensor v) w) : IsEigTriple (tensor (smulV c v)) (smulW c w) := by
  rw [tensor_smulV]
  exact h.smul (tensor_isHermitian v) hc

theorem principal_functions_smul (c : ℝ) (hc : 0 ≤ c) (w : Principal ℝ)
    (h1 : w.w0 ≤ w.w1) (h2 : w.w1 ≤ w.w2) :
    tresca (smulW c w) = c * tresca w ∧ maxPrincipal (smulW c w) = c * maxPrincipal w ∧
      minPrincipal (smulW c w) = c * minPrincipal w := by
  have g1 : (smulW c w).w0 ≤ (smulW c w).w1 := mul_le_mul_of_nonneg_left h1 hc
  have g2 : (smulW c w).w1 ≤ (smulW c w).w2 := mul_le_mul_of_nonneg_left h2 hc
  rw [tresca_asc g1 g2, tresca_asc h1 h2, maxPrincipal_asc g1 g2, maxPrincipal_asc h1 h2,
    minPrincipal_asc g1 g2, minPrincipal_asc h1 h2]
  refine ⟨?_, ?_, ?_⟩
  · simp only [smulW]; ring
  · simp only [smulW]
  · simp only [smulW]

/-- For a positive factor the sign indicators keep their sign, so `abs_max_principal` and all signed
variants scale with the factor as well. -/
theorem signed_functions_smul (c : ℝ) (hc : 0 < c) (v : Voigt ℝ) (w : Principal ℝ)
    (h1 : w.w0 ≤ w.w1) (h2 : w.w1 ≤ w.w2) :
    absMaxPrincipal (smulW c w) = c * absMaxPrincipal w ∧
    signedMisesTrace (smulV c v) = c * signedMisesTrace v ∧
    signedMisesAbsMax (smulV c v) (smulW c w) = c * signedMisesAbsMax v w ∧
    signedTrescaTrace (smulV c v) (smulW c w) = c * signedTrescaTrace v w ∧
    signedTrescaAbsMax (smulW c w) = c * signedTrescaAbsMax w := by
  have g1 : (smulW c w).w0 ≤ (smulW c w).w1 := mul_le_mul_of_nonneg_left h1 hc.le
  have g2 : (smulW c w).w1 ≤ (smulW c w).w2 := mul_le_mul_of_nonneg_left h2 hc.le
  have hT := (principal_functions_smul c hc.le w h1 h2).1
  have hM := mises_smul c hc.le v
  have hw : (0 ≤ (smulW c w).w2 + (smulW c w).w0) ↔ 0 ≤ w.w2 + w.w0 := by
    simp only [smulW]; rw [← mul_add]; exact mul_nonneg_iff_of_pos_left hc
  have hv : (0 ≤ (smulV c v).s11 + (smulV c v).s22 + (smulV c v).s33) ↔ 0 ≤ v.s11 + v.s22 + v.s33 := by
    simp only [smulV]; rw [← mul_add, ← mul_add]; exact mul_nonneg_iff_of_pos_left hc
  refine ⟨?_, ?_, ?_, ?_, ?_⟩
  · rw [absMaxPrincipal_real, absMaxPrincipal_real, maxPrincipal_asc g1 g2, minPrincipal_asc g1 g2,
      maxPrincipal_asc h1 h2, minPrincipal_asc h1 h2]
    simp only [hw]; split_ifs <;> rfl
  · rw [(signedMisesTrace_def _).1, (signedMisesTrace_def _).1, hM]
    simp only [hv]; split_ifs <;> ring
  · rw [(signedMisesAbsMax_def _ _ g1 g2).1, (signedMisesAbsMax_def _ _ h1 h2).1, hM]
    simp only [hw]; split_ifs <;> ring
  · rw [(signedTrescaTrace_def _ _ g1 g2).1, (signedTrescaTrace_def _ _ h1 h2).1, hT]
    simp only [hv]; split_ifs <;> ring
  · rw [(signedTrescaAbsMax_def _ g1 g2).1, (signedTrescaAbsMax_def _ h1 h2).1, hT]
    simp only [hw]; split_ifs <;> ring

/-- Positive homogeneity of all functions, stated like the rotation theorem: `w` / `w'` are what
`eigvalsh` must return for the tensor and for the tensor scaled by `c > 0`. -/
theorem equistress_positively_homogeneous (c : ℝ) (hc : 0 < c) (s : Voigt ℝ) (w w' : Principal ℝ)
    (hw : IsEigTriple (tensor s) w) (hw' : IsEigTriple (tensor (smulV c s)) w') :
    mises (smulV c s) = c * mises s ∧ tresca w' = c * tresca w ∧
    maxPrincipal w' = c * maxPrincipal w ∧ minPrincipal w' = c * minPrincipal w ∧
    absMaxPrincipal w' = c * absMaxPrincipal w ∧
    signedMisesTrace (smulV c s) = c * signedMisesTrace s ∧
    signedMisesAbsMax (smulV c s) w' = c * signedMisesAbsMax s w ∧
    signedTrescaTrace (smulV c s) w' = c * signedTrescaTrace s w ∧
    signedTrescaAbsMax w' = c * signedTrescaAbsMax w := by
  have e : w' = smulW c w := hw'.unique (eigTriple_smul c hc.le s w hw)
  subst e
  obtain ⟨p1, p2, p3⟩ := principal_functions_smul c hc.le w hw.1 hw.2.1
  obtain ⟨q1, q2, q3, q4, q5⟩ := signed_functions_smul c hc s w hw.1 hw.2.1
  exact ⟨mises_smul c hc.le s, p1, p2, p3, q1, q2, q3, q4, q5⟩

example (w' : Principal ℝ) (hw' : IsEigTriple (tensor (smulV 2 ⟨1, 2, 3, 0, 0, 0⟩)) w') :
    tresca w' = 2 * tresca (⟨1, 2, 3⟩ : Principal ℝ) :=
  (equistress_positively_homogeneous 2 (by norm_num) ⟨1, 2, 3, 0, 0, 0⟩ ⟨1, 2, 3⟩ w'
    (isEigTriple_diag (by norm_num) (by norm_num)) hw').2.1

example : mises (smulV 2 exS) = 2 * mises exS := mises_smul 2 (by norm_num) _
example : IsEigTriple (tensor (smulV 2 ⟨1, 2, 3, 0, 0, 0⟩)) (smulW 2 ⟨1, 2, 3⟩) :=
  eigTriple_smul 2 (by norm_num) _ _ (isEigTriple_diag (by norm_num) (by norm_num))
example : absMaxPrincipal (smulW 2 ⟨-5, 1, 3⟩) = 2 * absMaxPrincipal (⟨-5, 1, 3⟩ : Principal ℝ) :=
  (signed_functions_smul 2 (by norm_num) exS ⟨-5, 1, 3⟩ (by norm_num) (by norm_num)).1

/-! ## 8. All nine functions are rotation invariant -/

/-- If `t` are the components of `s` in a basis rotated by an orthogonal `Q`, and `w`, `w'` are what
`eigvalsh` must return for the two matrices, every equivalent stress has the same value. -/
theorem equistress_rotation_invariant (s t : Voigt ℝ) (Q : Matrix (Fin 3) (Fin 3) ℝ)
    (hQ : Qᵀ * Q = 1) (h : tensor t = Q * tensor s * Qᵀ) (w w' : Principal ℝ)
    (hw : IsEigTriple (tensor s) w) (hw' : IsEigTriple (tensor t) w') :
    mises t = mises s ∧ tresca w' = tresca w ∧ maxPrincipal w' = maxPrincipal w ∧
    minPrincipal w' = minPrincipal w ∧ absMaxPrincipal w' = absMaxPrincipal w ∧
    signedMisesTrace t = signedMisesTrace s ∧ signedMisesAbsMax t w' = signedMisesAbsMax s w ∧
    signedTrescaTrace t w' = signedTrescaTrace s w ∧ signedTrescaAbsMax w' = signedTrescaAbsMax w := by
  have e := eigTriple_rotation_invariant s t Q hQ h hw hw'
  have m := mises_rotation_invariant s t Q hQ h
  have tr : t.s11 + t.s22 + t.s33 = s.s11 + s.s22 + s.s33 := by
    rw [← trace_tensor, ← trace_tensor, h, trace_conj hQ]
  subst e
  refine ⟨m, rfl, rfl, rfl, rfl, ?_, ?_, ?_, rfl⟩
  · rw [signedMisesTrace, signedMisesTrace, signTrace_real, signTrace_real, tr, m]
  · rw [signedMisesAbsMax, signedMisesAbsMax, m]
  · rw [signedTrescaTrace, signedTrescaTrace, signTrace_real, signTrace_real, tr]

example (w w' : Principal ℝ) (hw : IsEigTriple (tensor exS) w) (hw' : IsEigTriple (tensor exT) w') :
    signedTrescaTrace exT w' = signedTrescaTrace exS w :=
  (equistress_rotation_invariant exS exT exQ exQ_orth exT_eq w w' hw hw').2.2.2.2.2.2.2.1

/-! ## 9. The accessor -/

/-- `df.equistress.f()` is the plain function applied row by row: row `i` of the result is `f` of
row `i`, and the number of rows is kept. -/
theorem accessor_rowwise {β γ : Type} (f : β → γ) (rows : List β) :
    (column f rows).length = rows.length ∧
      ∀ i (hi : i < rows.length), (column f rows)[i]? = some (f rows[i]) := by
  refine ⟨by simp [column], fun i hi => ?_⟩
  simp [column, hi]

example : column (fun v : Voigt ℝ => mises v) [exS, exT] = [mises exS, mises exT] := rfl

end PylifeVerif.C17
