/-
C13 — signal broadcasting aligns operands without altering data.

Theorems about the relational model `Model/Broadcast.lean`.  Honest scope: the model *is* a relational join,
so these statements are close to its definition (they show that the operational join — nested loops, kept /
dropped / rejected partner-less rows, key construction over the result level order — has the declarative
look-up reading the property asks for).  The decisive part of C13 is the correspondence of this model with the
real pandas-based code (`./check C13`), and "neither operand is modified" is about Python aliasing and is
checked on the real code only (deep copies before / after).

The model describes the code after the repairs (repo commits b3ce47d, c67dac2, 20f8491, 83030b7, 190635a, bc2cb7f):
for a pandas parameter the Broadcaster always returns (`broadcast_total`); the only modelled error is the documented `ValueError` for an array
of a wrong length, so the theorems about the result are stated under `broadcast … = .ok out`.

Hypothesis `Tbl.KeysNodup`: no two rows of an operand have the same key (the quantifier speaks of key SETS; with
duplicate keys pandas refuses to join, the model is validated on distinct keys only).

Completeness (section 3): which rows of the operands are represented in the result is characterised exactly
(`obj_row_represented_iff`, `prm_row_represented_iff`): a row is lost iff it has no partner and its operand is a
flat (one-level) index joined with a MultiIndex that has this level - pandas' join "on a level" - or no level is
shared at all (then it has no partner only if the other operand is empty).
-/
import Proofs.Lemmas.Broadcast
import Mathlib.Data.List.Nodup

namespace PylifeVerif.C13
open PylifeVerif.Broadcast

variable {V : Type}

/-! ### 1. both returned objects have the same index (level names, keys, order)

This holds by construction of `split` (both returned tables are projections of ONE list of joined rows - in the
real code both are reindexed to one joined index); that the real outputs carry the identical index, order included,
is checked on the real code by the oracle. -/

theorem broadcast_same_index (obj : Tbl V) (p : Prm V) (out : Out V)
    (h : broadcast obj p = .ok out) :
    out.obj.names = out.prm.names ∧ out.obj.rows.map Prod.fst = out.prm.rows.map Prod.fst := by
  unfold broadcast at h
  split at h
  · cases h
  · cases h
    simp [split, List.map_map, Function.comp_def]

/-- the result levels are exactly the levels of the two operands -/
theorem broadcast_levels (obj prm : Tbl V) (out : Out V) (h : broadcast obj (.tbl prm) = .ok out)
    (n : Name) : n ∈ out.obj.names ↔ n ∈ obj.names ∨ n ∈ prm.names := by
  simp only [broadcast, prmTbl, broadcastTbl] at h
  cases h
  exact mem_resultNames

/-! ### 2. every row carries the originals' payloads at the restricted key, or NaN -/

/-- The joined rows: the object payload is what the object holds at the row's key restricted to the object's
levels (`none` = NaN = the object has no such key), and likewise for the parameter. -/
theorem joinRows_lookup (obj prm : Tbl V) (hko : obj.KeysNodup) (hkp : prm.KeysNodup)
    (r : Row V) (hr : r ∈ joinRows obj prm) :
    r.obj = obj.at (restrict (resultNames obj.names prm.names) r.key obj.names) ∧
    r.prm = prm.at (restrict (resultNames obj.names prm.names) r.key prm.names) := by
  have hfo := hko.functional
  have hfp := hkp.functional
  have hon : ∀ n ∈ obj.names, n ∈ resultNames obj.names prm.names :=
    fun n hn => mem_resultNames.mpr (Or.inl hn)
  have hpn : ∀ n ∈ prm.names, n ∈ resultNames obj.names prm.names :=
    fun n hn => mem_resultNames.mpr (Or.inr hn)
  cases mem_joinRows hr with
  | pair ro rp hro hrp hag hr =>
    subst hr
    simp only
    rw [restrict_pairKey_obj _ _ _ _ _ hon, restrict_pairKey_prm _ _ _ _ _ hpn hag,
      at_of_mem hfo hro, at_of_mem hfp hrp]
    exact ⟨rfl, rfl⟩
  | objOnly ro hro hno hsub hr =>
    subst hr
    simp only
    rw [prm_at_objOnly _ hpn hno, restrict_map _ _ _ hon]
    exact ⟨(at_of_mem hfo hro).symm, rfl⟩
  | prmOnly rp hrp hno hsub hr =>
    subst hr
    simp only
    rw [obj_at_prmOnly _ hon hno, restrict_map _ _ _ hpn]
    exact ⟨rfl, (at_of_mem hfp hrp).symm⟩

/-- The property's look-up clause for the two returned tables. -/
theorem broadcast_lookup (obj prm : Tbl V) (hko : obj.KeysNodup) (hkp : prm.KeysNodup)
    (out : Out V) (h : broadcast obj (.tbl prm) = .ok out) :
    (∀ kv ∈ out.obj.rows, kv.2 = obj.at (restrict out.obj.names kv.1 obj.names)) ∧
    (∀ kv ∈ out.prm.rows, kv.2 = prm.at (restrict out.prm.names kv.1 prm.names)) := by
  simp only [broadcast, prmTbl, broadcastTbl] at h
  cases h
  simp only [split, List.mem_map]
  constructor
  · rintro kv ⟨r, hr, rfl⟩
    exact (joinRows_lookup obj prm hko hkp r hr).1
  · rintro kv ⟨r, hr, rfl⟩
    exact (joinRows_lookup obj prm hko hkp r hr).2

/-- A scalar parameter comes back as that scalar on every row. -/
theorem broadcast_scalar (obj : Tbl V) (v : V) (out : Out V)
    (hko : obj.KeysNodup) (h : broadcast obj (.scalar v) = .ok out) :
    (∀ kv ∈ out.prm.rows, kv.2 = some v) ∧
    (∀ kv ∈ out.obj.rows, kv.2 = obj.at (restrict out.obj.names kv.1 obj.names)) := by
  have hkp : (⟨[], [([], v)]⟩ : Tbl V).KeysNodup := by
    simp [Tbl.KeysNodup]
  have h' : broadcast obj (.tbl ⟨[], [([], v)]⟩) = .ok out := by
    simpa [broadcast, prmTbl] using h
  have := broadcast_lookup obj _ hko hkp out h'
  refine ⟨fun kv hkv => ?_, this.1⟩
  rw [this.2 kv hkv]
  simp [restrict, Tbl.at, ownKey]

/-- An array parameter is positional: against a table of equal length its i-th element sits at the object's
i-th key; any other length than 1 is rejected; against a record it gets a fresh range level. -/
theorem prmTbl_array (obj : Tbl V) (vs : List V) :
    (obj.names = [] → prmTbl obj (.array vs) = .ok ⟨[.anon 1 0], enumFrom 0 vs⟩) ∧
    (obj.names ≠ [] → vs.length = obj.rows.length →
      prmTbl obj (.array vs) = .ok ⟨obj.names, List.zipWith (fun r v => (r.1, v)) obj.rows vs⟩) ∧
    (obj.names ≠ [] → vs.length ≠ obj.rows.length → vs.length ≠ 1 →
      prmTbl obj (.array vs) = .error .valueError) := by
  refine ⟨fun h => by simp [prmTbl, h], fun h1 h2 => by simp [prmTbl, h1, h2], fun h1 h2 h3 => ?_⟩
  simp only [prmTbl, h1, h2, if_false]
  match vs, h3 with
  | [], _ => rfl
  | [_], h3 => simp at h3
  | _ :: _ :: _, _ => rfl


/-! ### 3. nothing is invented, nothing is lost - except a flat operand's partner-less rows -/

/-- Every row of the result stems from a row of the object, a row of the parameter, or a pair of rows that
agree on all shared levels; its key holds, level by level, the object's code where the object has the level
and the parameter's code elsewhere (NaN where the row's only operand does not have the level). -/
theorem broadcast_nothing_invented (obj prm : Tbl V) (r : Row V) (hr : r ∈ (broadcastTbl obj prm).rows) :
    RowOrigin obj prm (broadcastTbl obj prm).names r :=
  mem_joinRows hr

/-- Every pair of rows that agree on the shared levels is in the result, with both payloads. -/
theorem broadcast_pairs_complete (obj prm : Tbl V) (ro rp : Key × V) (hro : ro ∈ obj.rows) (hrp : rp ∈ prm.rows)
    (hag : agree obj.names ro.1 prm.names rp.1 = true) :
    (⟨pairKey (broadcastTbl obj prm).names obj.names ro.1 prm.names rp.1, some ro.2, some rp.2⟩ : Row V)
      ∈ (broadcastTbl obj prm).rows := by
  simp only [broadcastTbl, joinRows, List.mem_append]
  exact Or.inl (Or.inl (mem_matched.mpr ⟨ro, hro, rp, hrp, hag, rfl⟩))

/-- A partner-less row of the object is kept (NaN for the parameter; NaN in the levels the object has not) unless
the object is a flat index joined with a MultiIndex, or no level is shared. -/
theorem unmatched_obj_kept (obj prm : Tbl V) (ro : Key × V) (hro : ro ∈ obj.rows)
    (hno : ∀ rp ∈ prm.rows, agree obj.names ro.1 prm.names rp.1 = false)
    (hk : keepsUnmatched obj.names prm.names = true) :
    (⟨(broadcastTbl obj prm).names.map (get obj.names ro.1), some ro.2, none⟩ : Row V)
      ∈ (broadcastTbl obj prm).rows := by
  simp only [broadcastTbl, joinRows, List.mem_append, hk, if_true]
  exact Or.inl (Or.inr (List.mem_map.mpr ⟨ro, mem_unmatchedObj.mpr ⟨hro, hno⟩, rfl⟩))

theorem unmatched_prm_kept (obj prm : Tbl V) (rp : Key × V) (hrp : rp ∈ prm.rows)
    (hno : ∀ ro ∈ obj.rows, agree obj.names ro.1 prm.names rp.1 = false)
    (hk : keepsUnmatched prm.names obj.names = true) :
    (⟨(broadcastTbl obj prm).names.map (get prm.names rp.1), none, some rp.2⟩ : Row V)
      ∈ (broadcastTbl obj prm).rows := by
  simp only [broadcastTbl, joinRows, List.mem_append, hk, if_true]
  exact Or.inr (List.mem_map.mpr ⟨rp, mem_unmatchedPrm.mpr ⟨hrp, hno⟩, rfl⟩)

/-- the object's row `ro` is represented in the result: some result row carries its payload at a key whose
restriction to the object's levels is the row's own key -/
def ObjRepresented (obj prm : Tbl V) (ro : Key × V) : Prop :=
  ∃ r ∈ (broadcastTbl obj prm).rows, r.obj = some ro.2 ∧
    restrict (broadcastTbl obj prm).names r.key obj.names = ownKey obj.names ro.1

def PrmRepresented (obj prm : Tbl V) (rp : Key × V) : Prop :=
  ∃ r ∈ (broadcastTbl obj prm).rows, r.prm = some rp.2 ∧
    restrict (broadcastTbl obj prm).names r.key prm.names = ownKey prm.names rp.1

/-- COMPLETENESS, exactly: a row of the object is represented in the result iff it has a partner or partner-less
rows of the object are kept. -/
theorem obj_row_represented_iff (obj prm : Tbl V) (ro : Key × V) (hro : ro ∈ obj.rows) :
    ObjRepresented obj prm ro ↔
      (∃ rp ∈ prm.rows, agree obj.names ro.1 prm.names rp.1 = true) ∨
        keepsUnmatched obj.names prm.names = true := by
  have hon : ∀ n ∈ obj.names, n ∈ resultNames obj.names prm.names :=
    fun n hn => mem_resultNames.mpr (Or.inl hn)
  constructor
  · rintro ⟨r, hr, hobj, hkey⟩
    cases mem_joinRows hr with
    | pair ro' rp' hro' hrp' hag hr' =>
      subst hr'
      left
      refine ⟨rp', hrp', ?_⟩
      simp only [broadcastTbl] at hkey
      rw [restrict_pairKey_obj _ _ _ _ _ hon] at hkey
      exact agree_congr_obj hkey hag
    | objOnly ro' hro' hno hkeep hr' => exact Or.inr hkeep
    | prmOnly rp' hrp' hno hkeep hr' =>
      subst hr'
      cases hobj
  · intro h
    by_cases hp : ∃ rp ∈ prm.rows, agree obj.names ro.1 prm.names rp.1 = true
    · obtain ⟨rp, hrp, hag⟩ := hp
      refine ⟨_, broadcast_pairs_complete obj prm ro rp hro hrp hag, rfl, ?_⟩
      exact restrict_pairKey_obj _ _ _ _ _ hon
    · have hk : keepsUnmatched obj.names prm.names = true := h.resolve_left hp
      have hno : ∀ rp ∈ prm.rows, agree obj.names ro.1 prm.names rp.1 = false := by
        intro rp hrp
        cases hb : agree obj.names ro.1 prm.names rp.1 with
        | false => rfl
        | true => exact absurd ⟨rp, hrp, hb⟩ hp
      refine ⟨_, unmatched_obj_kept obj prm ro hro hno hk, rfl, ?_⟩
      exact restrict_map _ _ _ hon

theorem prm_row_represented_iff (obj prm : Tbl V) (rp : Key × V) (hrp : rp ∈ prm.rows) :
    PrmRepresented obj prm rp ↔
      (∃ ro ∈ obj.rows, agree obj.names ro.1 prm.names rp.1 = true) ∨
        keepsUnmatched prm.names obj.names = true := by
  have hpn : ∀ n ∈ prm.names, n ∈ resultNames obj.names prm.names :=
    fun n hn => mem_resultNames.mpr (Or.inr hn)
  constructor
  · rintro ⟨r, hr, hprm, hkey⟩
    cases mem_joinRows hr with
    | pair ro' rp' hro' hrp' hag hr' =>
      subst hr'
      left
      refine ⟨ro', hro', ?_⟩
      simp only [broadcastTbl] at hkey
      rw [restrict_pairKey_prm _ _ _ _ _ hpn hag] at hkey
      exact agree_congr_prm hkey hag
    | objOnly ro' hro' hno hkeep hr' =>
      subst hr'
      cases hprm
    | prmOnly rp' hrp' hno hkeep hr' => exact Or.inr hkeep
  · intro h
    by_cases hp : ∃ ro ∈ obj.rows, agree obj.names ro.1 prm.names rp.1 = true
    · obtain ⟨ro, hro, hag⟩ := hp
      refine ⟨_, broadcast_pairs_complete obj prm ro rp hro hrp hag, rfl, ?_⟩
      exact restrict_pairKey_prm _ _ _ _ _ hpn hag
    · have hk : keepsUnmatched prm.names obj.names = true := h.resolve_left hp
      have hno : ∀ ro ∈ obj.rows, agree obj.names ro.1 prm.names rp.1 = false := by
        intro ro hro
        cases hb : agree obj.names ro.1 prm.names rp.1 with
        | false => rfl
        | true => exact absurd ⟨ro, hro, hb⟩ hp
      refine ⟨_, unmatched_prm_kept obj prm rp hrp hno hk, rfl, ?_⟩
      exact restrict_map _ _ _ hpn

/-- the quantifier's side condition: every shared-level key of one operand is present in the other -/
def AllPresent (obj prm : Tbl V) : Prop :=
  (∀ ro ∈ obj.rows, ∃ rp ∈ prm.rows, agree obj.names ro.1 prm.names rp.1 = true) ∧
  (∀ rp ∈ prm.rows, ∃ ro ∈ obj.rows, agree obj.names ro.1 prm.names rp.1 = true)

/-- NO ROW IS LOST on the property's quantifier domain, with one exception.  Guard, per operand: every shared key
is present in the other operand (this covers "overlapping" as the quantifier restricts it, and disjoint names with
non-empty operands), or a level is shared and the operand is not a flat index against a MultiIndex
(this covers equal level sets and the operand with MORE levels of a containment, with any key sets, and after the
repair also the operand with fewer levels when two or more levels are shared).
The exception - `obj_row_lost_iff` below - is the finding-like behaviour D13-12: containment with ONE shared level, the
flat operand's partner-less rows vanish. -/
theorem broadcast_no_row_lost_partial (obj prm : Tbl V)
    (hgo : (∀ ro ∈ obj.rows, ∃ rp ∈ prm.rows, agree obj.names ro.1 prm.names rp.1 = true) ∨
      keepsUnmatched obj.names prm.names = true)
    (hgp : (∀ rp ∈ prm.rows, ∃ ro ∈ obj.rows, agree obj.names ro.1 prm.names rp.1 = true) ∨
      keepsUnmatched prm.names obj.names = true) :
    (∀ ro ∈ obj.rows, ObjRepresented obj prm ro) ∧ (∀ rp ∈ prm.rows, PrmRepresented obj prm rp) := by
  constructor
  · intro ro hro
    apply (obj_row_represented_iff obj prm ro hro).mpr
    rcases hgo with h | h
    · exact Or.inl (h ro hro)
    · exact Or.inr h
  · intro rp hrp
    apply (prm_row_represented_iff obj prm rp hrp).mpr
    rcases hgp with h | h
    · exact Or.inl (h rp hrp)
    · exact Or.inr h

/-- A row of the object is LOST (not represented) iff it has no partner and either no level is shared or the
object is a flat index joined with a MultiIndex that has its level. -/
theorem obj_row_lost_iff (obj prm : Tbl V) (ro : Key × V) (hro : ro ∈ obj.rows) :
    ¬ ObjRepresented obj prm ro ↔
      (∀ rp ∈ prm.rows, agree obj.names ro.1 prm.names rp.1 = false) ∧
        (shared obj.names prm.names = [] ∨
          (obj.names.length = 1 ∧ 2 ≤ prm.names.length ∧ subset obj.names prm.names = true)) := by
  rw [obj_row_represented_iff obj prm ro hro, not_or]
  constructor
  · rintro ⟨h1, h2⟩
    refine ⟨fun rp hrp => ?_, ?_⟩
    · cases hb : agree obj.names ro.1 prm.names rp.1 with
      | false => rfl
      | true => exact absurd ⟨rp, hrp, hb⟩ h1
    · by_cases hs : shared obj.names prm.names = []
      · exact Or.inl hs
      · right
        simp only [keepsUnmatched, dropsUnmatched, Bool.and_eq_true, Bool.not_eq_true', List.isEmpty_eq_false_iff,
          decide_eq_true_eq, not_and, Bool.not_eq_false] at h2
        simpa [Bool.and_eq_true, and_assoc] using h2 hs
  · rintro ⟨h1, h2⟩
    refine ⟨fun ⟨rp, hrp, hag⟩ => ?_, ?_⟩
    · rw [h1 rp hrp] at hag
      cases hag
    · rcases h2 with hs | ⟨ha, hb, hc⟩
      · simp [keepsUnmatched, hs]
      · simp [keepsUnmatched, dropsUnmatched, ha, hb, hc]

/-- Disjoint level names: no row of the object is lost as soon as the parameter has a row. -/
theorem obj_represented_of_disjoint (obj prm : Tbl V) (hd : shared obj.names prm.names = [])
    (hp : prm.rows ≠ []) (ro : Key × V) (hro : ro ∈ obj.rows) : ObjRepresented obj prm ro := by
  apply (obj_row_represented_iff obj prm ro hro).mpr
  obtain ⟨rp, hrp⟩ := List.exists_mem_of_ne_nil _ hp
  exact Or.inl ⟨rp, hrp, by simp [agree, hd]⟩

/-! ### 4. no key twice: the result's index is a key set again -/

/-- Two rows of the result with the same key are the same row (no key carries two different payload pairs). -/
theorem joinRows_key_inj (obj prm : Tbl V) (hko : obj.KeysNodup) (hkp : prm.KeysNodup)
    (r r' : Row V) (hr : r ∈ joinRows obj prm) (hr' : r' ∈ joinRows obj prm) (hk : r.key = r'.key) : r = r' := by
  have hon : ∀ n ∈ obj.names, n ∈ resultNames obj.names prm.names :=
    fun n hn => mem_resultNames.mpr (Or.inl hn)
  have hpn : ∀ n ∈ prm.names, n ∈ resultNames obj.names prm.names :=
    fun n hn => mem_resultNames.mpr (Or.inr hn)
  -- the key of a row determines the own keys of the operand rows it stems from
  have hO : restrict (resultNames obj.names prm.names) r.key obj.names =
      restrict (resultNames obj.names prm.names) r'.key obj.names := by rw [hk]
  have hP : restrict (resultNames obj.names prm.names) r.key prm.names =
      restrict (resultNames obj.names prm.names) r'.key prm.names := by rw [hk]
  cases mem_joinRows hr with
  | pair ro rp hro hrp hag h =>
    subst h
    cases mem_joinRows hr' with
    | pair ro' rp' hro' hrp' hag' h' =>
      subst h'
      simp only [restrict_pairKey_obj _ _ _ _ _ hon] at hO
      simp only [restrict_pairKey_prm _ _ _ _ _ hpn hag, restrict_pairKey_prm _ _ _ _ _ hpn hag'] at hP
      rw [hko.row_eq hro hro' hO, hkp.row_eq hrp hrp' hP]
    | objOnly ro' hro' hno hkeep h' =>
      subst h'
      exfalso
      simp only [restrict_pairKey_prm _ _ _ _ _ hpn hag, restrict_map _ _ _ hpn] at hP
      have : agree obj.names ro'.1 prm.names rp.1 = true := by
        apply agree_iff.mpr
        intro n _ h2
        unfold ownKey at hP
        exact ((List.map_inj_left.mp hP) n h2).symm
      rw [hno rp hrp] at this
      cases this
    | prmOnly rp' hrp' hno hkeep h' =>
      subst h'
      exfalso
      simp only [restrict_pairKey_obj _ _ _ _ _ hon, restrict_map _ _ _ hon] at hO
      have : agree obj.names ro.1 prm.names rp'.1 = true := by
        apply agree_iff.mpr
        intro n h1 _
        unfold ownKey at hO
        exact (List.map_inj_left.mp hO) n h1
      rw [hno ro hro] at this
      cases this
  | objOnly ro hro hno hkeep h =>
    subst h
    cases mem_joinRows hr' with
    | pair ro' rp' hro' hrp' hag' h' =>
      subst h'
      exfalso
      simp only [restrict_pairKey_prm _ _ _ _ _ hpn hag', restrict_map _ _ _ hpn] at hP
      have : agree obj.names ro.1 prm.names rp'.1 = true := by
        apply agree_iff.mpr
        intro n _ h2
        unfold ownKey at hP
        exact (List.map_inj_left.mp hP) n h2
      rw [hno rp' hrp'] at this
      cases this
    | objOnly ro' hro' hno' hkeep' h' =>
      subst h'
      simp only [restrict_map _ _ _ hon] at hO
      rw [hko.row_eq hro hro' hO]
    | prmOnly rp' hrp' hno' hkeep' h' =>
      subst h'
      exfalso
      simp only [restrict_map _ _ _ hon] at hO
      have : agree obj.names ro.1 prm.names rp'.1 = true := by
        apply agree_iff.mpr
        intro n h1 _
        exact (List.map_inj_left.mp hO) n h1
      rw [hno rp' hrp'] at this
      cases this
  | prmOnly rp hrp hno hkeep h =>
    subst h
    cases mem_joinRows hr' with
    | pair ro' rp' hro' hrp' hag' h' =>
      subst h'
      exfalso
      simp only [restrict_pairKey_obj _ _ _ _ _ hon, restrict_map _ _ _ hon] at hO
      have : agree obj.names ro'.1 prm.names rp.1 = true := by
        apply agree_iff.mpr
        intro n h1 _
        unfold ownKey at hO
        exact ((List.map_inj_left.mp hO) n h1).symm
      rw [hno ro' hro'] at this
      cases this
    | objOnly ro' hro' hno' hkeep' h' =>
      subst h'
      exfalso
      simp only [restrict_map _ _ _ hon] at hO
      have : agree obj.names ro'.1 prm.names rp.1 = true := by
        apply agree_iff.mpr
        intro n h1 _
        exact ((List.map_inj_left.mp hO) n h1).symm
      rw [hno ro' hro'] at this
      cases this
    | prmOnly rp' hrp' hno' hkeep' h' =>
      subst h'
      simp only [restrict_map _ _ _ hpn] at hP
      rw [hkp.row_eq hrp hrp' hP]

/-- The joined rows contain no row twice. -/
theorem joinRows_nodup (obj prm : Tbl V) (hko : obj.KeysNodup) (hkp : prm.KeysNodup) :
    (joinRows obj prm).Nodup := by
  have hon : ∀ n ∈ obj.names, n ∈ resultNames obj.names prm.names :=
    fun n hn => mem_resultNames.mpr (Or.inl hn)
  have hpn : ∀ n ∈ prm.names, n ∈ resultNames obj.names prm.names :=
    fun n hn => mem_resultNames.mpr (Or.inr hn)
  have hmatched : (matched (resultNames obj.names prm.names) obj prm).Nodup := by
    unfold matched
    apply List.nodup_flatMap.mpr
    constructor
    · intro ro hro
      apply List.Nodup.map_on _ (hkp.rows_nodup.filter _)
      intro rp hrp rp' hrp' he
      have hrp1 := List.mem_filter.mp hrp
      have hrp2 := List.mem_filter.mp hrp'
      have hag : agree obj.names ro.1 prm.names rp.1 = true := by simpa using hrp1.2
      have hag' : agree obj.names ro.1 prm.names rp'.1 = true := by simpa using hrp2.2
      have hk := congrArg (fun r : Row V => restrict (resultNames obj.names prm.names) r.key prm.names) he
      simp only [restrict_pairKey_prm _ _ _ _ _ hpn hag, restrict_pairKey_prm _ _ _ _ _ hpn hag'] at hk
      exact hkp.row_eq hrp1.1 hrp2.1 hk
    · apply List.Pairwise.imp_of_mem _ hko.rows_nodup
      intro ro ro' hro hro' hne
      simp only [Function.onFun]
      intro l h1 h2
      obtain ⟨rp, _, e1⟩ := List.mem_map.mp h1
      obtain ⟨rp', _, e2⟩ := List.mem_map.mp h2
      have he := e1.trans e2.symm
      have hk := congrArg (fun r : Row V => restrict (resultNames obj.names prm.names) r.key obj.names) he
      simp only [restrict_pairKey_obj _ _ _ _ _ hon] at hk
      exact absurd (hko.row_eq hro hro' hk) hne
  have hinj := joinRows_key_inj obj prm hko hkp
  -- the three parts are duplicate free, and rows of different parts differ in their payload pattern
  unfold joinRows at hinj ⊢
  simp only
  apply List.Nodup.append
  · apply List.Nodup.append hmatched
    · split
      · apply List.Nodup.map_on _ (hko.rows_nodup.filter _)
        intro ro hro ro' hro' he
        have hk := congrArg (fun r : Row V => restrict (resultNames obj.names prm.names) r.key obj.names) he
        simp only [restrict_map _ _ _ hon] at hk
        exact hko.row_eq (List.mem_filter.mp hro).1 (List.mem_filter.mp hro').1 hk
      · exact List.nodup_nil
    · intro r h1 h2
      obtain ⟨_, _, _, _, _, e⟩ := mem_matched.mp h1
      split at h2
      · obtain ⟨ro, _, e2⟩ := List.mem_map.mp h2
        rw [e] at e2
        have := congrArg Row.prm e2
        cases this
      · cases h2
  · split
    · apply List.Nodup.map_on _ (hkp.rows_nodup.filter _)
      intro rp hrp rp' hrp' he
      have hk := congrArg (fun r : Row V => restrict (resultNames obj.names prm.names) r.key prm.names) he
      simp only [restrict_map _ _ _ hpn] at hk
      exact hkp.row_eq (List.mem_filter.mp hrp).1 (List.mem_filter.mp hrp').1 hk
    · exact List.nodup_nil
  · intro r h1 h2
    split at h2
    · obtain ⟨rp, _, e2⟩ := List.mem_map.mp h2
      rcases List.mem_append.mp h1 with h1 | h1
      · obtain ⟨_, _, _, _, _, e⟩ := mem_matched.mp h1
        rw [e] at e2
        have := congrArg Row.obj e2
        cases this
      · split at h1
        · obtain ⟨ro, _, e⟩ := List.mem_map.mp h1
          rw [← e] at e2
          have := congrArg Row.obj e2
          cases this
        · cases h1
    · cases h2

/-- NO KEY TWICE: the keys of the returned objects are pairwise distinct (both carry the same key list,
`broadcast_same_index`). -/
theorem broadcast_keys_nodup (obj prm : Tbl V) (hko : obj.KeysNodup) (hkp : prm.KeysNodup)
    (out : Out V) (h : broadcast obj (.tbl prm) = .ok out) :
    (out.obj.rows.map Prod.fst).Nodup ∧ (out.prm.rows.map Prod.fst).Nodup := by
  simp only [broadcast, prmTbl, broadcastTbl] at h
  cases h
  have hn : ((joinRows obj prm).map fun r => r.key).Nodup :=
    List.Nodup.map_on (fun r hr r' hr' hk => joinRows_key_inj obj prm hko hkp r r' hr hr' hk)
      (joinRows_nodup obj prm hko hkp)
  simpa [split, List.map_map, Function.comp_def] using hn

/-! ### 5. disjoint level names: cross join with |obj|·|prm| rows -/

theorem agree_of_disjoint {on pn : List Name} (hd : shared on pn = []) (ko kp : Key) :
    agree on ko pn kp = true := by
  simp [agree, hd]

theorem matched_length_of_disjoint (ns : List Name) (obj prm : Tbl V)
    (hd : shared obj.names prm.names = []) :
    (matched ns obj prm).length = obj.rows.length * prm.rows.length := by
  unfold matched
  have hf : ∀ ro : Key × V,
      (prm.rows.filter fun rp => agree obj.names ro.1 prm.names rp.1) = prm.rows := by
    intro ro
    apply List.filter_eq_self.mpr
    intro rp _
    exact agree_of_disjoint hd _ _
  simp only [hf]
  induction obj.rows with
  | nil => simp
  | cons ro rest ih =>
    simp only [List.flatMap_cons, List.length_append, List.length_map, ih, List.length_cons]
    rw [Nat.add_mul, Nat.one_mul, Nat.add_comm]

/-- Disjoint level names: the result has exactly |obj|·|prm| rows (also when an operand is empty). -/
theorem broadcast_cross_join_card (obj prm : Tbl V) (hd : shared obj.names prm.names = []) :
    (broadcastTbl obj prm).rows.length = obj.rows.length * prm.rows.length := by
  have hd' : shared prm.names obj.names = [] := by
    apply List.eq_nil_iff_forall_not_mem.mpr
    intro n hn
    have := mem_shared.mp hn
    have hm : n ∈ shared obj.names prm.names := mem_shared.mpr ⟨this.2, this.1⟩
    rw [hd] at hm
    cases hm
  simp only [broadcastTbl, joinRows, keepsUnmatched, hd, hd', List.isEmpty_nil, Bool.not_true, Bool.false_and,
    Bool.false_eq_true, if_false, List.append_nil]
  exact matched_length_of_disjoint _ obj prm hd

/-! ### 6. arrays are positional; the Broadcaster always returns for a pandas parameter -/

theorem resultNames_self (on : List Name) : resultNames on on = on := by
  unfold resultNames
  split
  · next h => omega
  · simp [total]

theorem pairKey_self (on : List Name) (k : Key) : pairKey on on k on k = ownKey on k := by
  unfold pairKey ownKey
  apply List.map_congr_left
  intro n hn
  simp [hn]

theorem agree_self (on : List Name) (k : Key) : agree on k on k = true := by
  simp [agree]

/-- An array of the object's length against a table object: in both returned tables the object's i-th key
carries the object's i-th payload and the array's i-th element. -/
theorem broadcast_array (obj : Tbl V) (vs : List V) (out : Out V) (hn : obj.names ≠ [])
    (hl : vs.length = obj.rows.length) (h : broadcast obj (.array vs) = .ok out)
    (i : Nat) (hi : i < obj.rows.length) :
    (ownKey obj.names obj.rows[i].1, some obj.rows[i].2) ∈ out.obj.rows ∧
    (ownKey obj.names obj.rows[i].1, some (vs[i]'(hl ▸ hi))) ∈ out.prm.rows := by
  simp only [broadcast, prmTbl, hn, hl, if_false, if_true] at h
  cases h
  have hro : obj.rows[i] ∈ obj.rows := List.getElem_mem hi
  have hrp : (obj.rows[i].1, vs[i]'(hl ▸ hi)) ∈ List.zipWith (fun r v => (r.1, v)) obj.rows vs := by
    apply List.mem_iff_getElem.mpr
    refine ⟨i, by simp [hl, hi], ?_⟩
    simp
  have hm := broadcast_pairs_complete obj ⟨obj.names, List.zipWith (fun r v => (r.1, v)) obj.rows vs⟩
    obj.rows[i] (obj.rows[i].1, vs[i]'(hl ▸ hi)) hro hrp (agree_self _ _)
  simp only [broadcastTbl, resultNames_self, pairKey_self] at hm
  simp only [split, broadcastTbl, resultNames_self, List.mem_map]
  exact ⟨⟨_, hm, rfl⟩, ⟨_, hm, rfl⟩⟩

/-- A pandas parameter is never rejected (after the repairs b3ce47d, 83030b7, 190635a, bc2cb7f): for EVERY layout of
level names and every key sets the two aligned tables are returned, with the look-up reading of section 2 and
pairwise distinct keys. -/
theorem broadcast_total (obj prm : Tbl V) (hko : obj.KeysNodup) (hkp : prm.KeysNodup) :
    ∃ out, broadcast obj (.tbl prm) = .ok out ∧
      out.obj.names = out.prm.names ∧ out.obj.rows.map Prod.fst = out.prm.rows.map Prod.fst ∧
      (out.obj.rows.map Prod.fst).Nodup ∧
      (∀ kv ∈ out.obj.rows, kv.2 = obj.at (restrict out.obj.names kv.1 obj.names)) ∧
      (∀ kv ∈ out.prm.rows, kv.2 = prm.at (restrict out.prm.names kv.1 prm.names)) := by
  have hb : broadcast obj (.tbl prm) = .ok (split (broadcastTbl obj prm)) := by
    simp [broadcast, prmTbl]
  refine ⟨_, hb, ?_⟩
  have hs := broadcast_same_index obj (.tbl prm) _ hb
  have hl := broadcast_lookup obj prm hko hkp _ hb
  have hn := broadcast_keys_nodup obj prm hko hkp _ hb
  exact ⟨hs.1, hs.2, hn.1, hl.1, hl.2⟩

/-! ### non-vacuity and witnesses -/

def x : Name := .named "x"
def y : Name := .named "y"
def z : Name := .named "z"

/-- F-6 layout `(x,z)` against `(y,z)`, 2 × 2, every shared key present -/
def wObj : Tbl Int := ⟨[x, z], [([10, 0], 1), ([11, 1], 2)]⟩
def wPrm : Tbl Int := ⟨[y, z], [([20, 0], 5), ([21, 1], 6)]⟩

example : AllPresent wObj wPrm := by
  constructor <;> decide

example : broadcastTbl wObj wPrm = ⟨[x, z, y],
    [⟨[some 10, some 0, some 20], some 1, some 5⟩, ⟨[some 11, some 1, some 21], some 2, some 6⟩]⟩ := by
  decide

example : wObj.KeysNodup ∧ wPrm.KeysNodup := by
  constructor <;> (unfold Tbl.KeysNodup; decide)

/-- the guard of `broadcast_no_row_lost_partial` on this pair: every shared key is present -/
example : (∀ ro ∈ wObj.rows, ObjRepresented wObj wPrm ro) ∧ (∀ rp ∈ wPrm.rows, PrmRepresented wObj wPrm rp) :=
  broadcast_no_row_lost_partial wObj wPrm (Or.inl (by decide)) (Or.inl (by decide))

/-- the former finding class contained-multi-shared-missing-key: `(x,y,z)` against `(y,z)` where the parameter
holds a key `(y,z) = (1,1)` that the object has not - after the repair the row is kept, `x` is NaN -/
def fObj : Tbl Int := ⟨[x, y, z], [([0, 0, 0], 1), ([1, 0, 0], 2)]⟩
def fPrm : Tbl Int := ⟨[y, z], [([0, 0], 5), ([1, 1], 6)]⟩

theorem nan_level_at_witness : broadcastTbl fObj fPrm = ⟨[x, y, z],
    [⟨[some 0, some 0, some 0], some 1, some 5⟩, ⟨[some 1, some 0, some 0], some 2, some 5⟩,
     ⟨[none, some 1, some 1], none, some 6⟩]⟩ := by decide

example : keepsUnmatched fPrm.names fObj.names = true ∧ keepsUnmatched fObj.names fPrm.names = true := by decide

/-- D13-12: a flat signal `a = 1, 2, 3` against a parameter on `(a, b)` without `a = 3`: the signal's third row is
not in the result (3 rows), and no guard of `broadcast_no_row_lost_partial` holds for the object -/
def a : Name := .named "a"
def b : Name := .named "b"
def lObj : Tbl Int := ⟨[a], [([1], 1), ([2], 2), ([3], 3)]⟩
def lPrm : Tbl Int := ⟨[a, b], [([1, 7], 5), ([1, 8], 6), ([2, 7], 7)]⟩

theorem row_lost_at_witness :
    broadcastTbl lObj lPrm = ⟨[a, b],
      [⟨[some 1, some 7], some 1, some 5⟩, ⟨[some 1, some 8], some 1, some 6⟩, ⟨[some 2, some 7], some 2, some 7⟩]⟩ ∧
    ¬ ObjRepresented lObj lPrm ([3], 3) := by
  refine ⟨by decide, ?_⟩
  apply (obj_row_lost_iff lObj lPrm ([3], 3) (by decide)).mpr
  exact ⟨by decide, Or.inr (by decide)⟩

/-- equal level names, different keys: outer join with NaN payloads -/
example : broadcastTbl (⟨[x], [([0], 1), ([1], 2)]⟩ : Tbl Int) ⟨[x], [([1], 5), ([2], 6)]⟩ =
    ⟨[x], [⟨[some 1], some 2, some 5⟩, ⟨[some 0], some 1, none⟩, ⟨[some 2], none, some 6⟩]⟩ := by
  decide

/-- disjoint level names: 2 · 3 rows -/
example : (joinRows (⟨[x], [([0], 1), ([1], 2)]⟩ : Tbl Int) ⟨[y], [([0], 5), ([1], 6), ([2], 7)]⟩).length = 6 := by
  decide

/-- scalar and array parameters -/
example : (broadcast (⟨[x], [([0], 1), ([1], 2)]⟩ : Tbl Int) (.scalar 7)).toOption.map (·.prm.rows) =
    some [([some 0], some 7), ([some 1], some 7)] := by decide

example : prmTbl (⟨[x], [([0], 1), ([1], 2)]⟩ : Tbl Int) (.array [7, 8, 9]) = .error .valueError := by
  decide

example : (broadcast (⟨[x], [([0], 1), ([1], 2)]⟩ : Tbl Int) (.array [7, 8])).toOption.map (·.prm.rows) =
    some [([some 0], some 7), ([some 1], some 8)] := by decide

end PylifeVerif.C13
