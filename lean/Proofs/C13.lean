/-
C13 — signal broadcasting aligns operands without altering data.

Theorems about the relational model `Model/Broadcast.lean`.  Honest scope: the model *is* a relational join,
so these statements are close to its definition (they show that the operational join — nested loops, kept /
dropped / rejected partner-less rows, key construction over the result level order — has the declarative
look-up reading the property asks for).  The decisive part of C13 is the correspondence of this model with the
real pandas-based code (`./check C13`), and "neither operand is modified" is about Python aliasing and is
checked on the real code only (deep copies before / after).

The real code raises on some operand pairs (`raises`, see the model file); every theorem about the result is
therefore stated under `broadcast … = .ok out`, and `raises_false_of_present` / `raises_false_of_same_levels` /
`raises_false_of_disjoint` show that this guard is met on the property's whole quantifier domain except the
finding class `contained-multi-shared-missing-key` (witness: `raises_at_witness`).
-/
import Proofs.Lemmas.Broadcast

namespace PylifeVerif.C13
open PylifeVerif.Broadcast

variable {V : Type}

/-! ### 1. both returned objects have the same index (level names, keys, order) -/

theorem broadcast_same_index (obj : Tbl V) (p : Prm V) (out : Out V)
    (h : broadcast obj p = .ok out) :
    out.obj.names = out.prm.names ∧ out.obj.rows.map Prod.fst = out.prm.rows.map Prod.fst := by
  unfold broadcast at h
  split at h
  · cases h
  · split at h
    · cases h
    · cases h
      simp [split, List.map_map, Function.comp_def]

/-- the result levels are exactly the levels of the two operands -/
theorem broadcast_levels (obj prm : Tbl V) (out : Out V) (h : broadcast obj (.tbl prm) = .ok out)
    (n : Name) : n ∈ out.obj.names ↔ n ∈ obj.names ∨ n ∈ prm.names := by
  simp only [broadcast, prmTbl, broadcastTbl] at h
  split at h
  · cases h
  · next j hj =>
    split at hj
    · cases hj
    · cases hj; cases h
      exact mem_resultNames

/-! ### 2. every row carries the originals' payloads at the restricted key, or NaN -/

/-- The joined rows: the object payload is what the object holds at the row's key restricted to the object's
levels (`none` = NaN = the object has no such key), and likewise for the parameter. -/
theorem joinRows_lookup (obj prm : Tbl V) (hfo : obj.Functional) (hfp : prm.Functional)
    (r : Row V) (hr : r ∈ joinRows obj prm) :
    r.obj = obj.at (restrict (resultNames obj.names prm.names) r.key obj.names) ∧
    r.prm = prm.at (restrict (resultNames obj.names prm.names) r.key prm.names) := by
  have hon : ∀ n ∈ obj.names, n ∈ resultNames obj.names prm.names :=
    fun n hn => mem_resultNames.mpr (Or.inl hn)
  have hpn : ∀ n ∈ prm.names, n ∈ resultNames obj.names prm.names :=
    fun n hn => mem_resultNames.mpr (Or.inr hn)
  cases mem_joinRows hr with
  | pair ro rp hro hrp hag hr =>
    subst hr
    simp only
    rw [restrict_pairKey_obj _ _ _ _ _ hon, restrict_pairKey_prm _ _ _ _ _ hpn hag,
      at_of_mem hfo hro, at_of_mem hfp hrp]
    exact ⟨rfl, rfl⟩
  | objOnly ro hro hno hsub hr =>
    subst hr
    simp only
    rw [prm_at_objOnly _ hpn hno, restrict_map _ _ _ hon]
    exact ⟨(at_of_mem hfo hro).symm, rfl⟩
  | prmOnly rp hrp hno hsub hr =>
    subst hr
    simp only
    rw [obj_at_prmOnly _ hon hno, restrict_map _ _ _ hpn]
    exact ⟨rfl, (at_of_mem hfp hrp).symm⟩

/-- The property's look-up clause for the two returned tables. -/
theorem broadcast_lookup (obj prm : Tbl V) (hfo : obj.Functional) (hfp : prm.Functional)
    (out : Out V) (h : broadcast obj (.tbl prm) = .ok out) :
    (∀ kv ∈ out.obj.rows, kv.2 = obj.at (restrict out.obj.names kv.1 obj.names)) ∧
    (∀ kv ∈ out.prm.rows, kv.2 = prm.at (restrict out.prm.names kv.1 prm.names)) := by
  simp only [broadcast, prmTbl, broadcastTbl] at h
  split at h
  · cases h
  · next j hj =>
    split at hj
    · cases hj
    · cases hj; cases h
      simp only [split, List.mem_map]
      constructor
      · rintro kv ⟨r, hr, rfl⟩
        exact (joinRows_lookup obj prm hfo hfp r hr).1
      · rintro kv ⟨r, hr, rfl⟩
        exact (joinRows_lookup obj prm hfo hfp r hr).2

/-- A scalar parameter comes back as that scalar on every row. -/
theorem broadcast_scalar (obj : Tbl V) (v : V) (out : Out V)
    (hfo : obj.Functional) (h : broadcast obj (.scalar v) = .ok out) :
    (∀ kv ∈ out.prm.rows, kv.2 = some v) ∧
    (∀ kv ∈ out.obj.rows, kv.2 = obj.at (restrict out.obj.names kv.1 obj.names)) := by
  have hfp : (⟨[], [([], v)]⟩ : Tbl V).Functional := by
    intro r hr r' hr' _
    simp only [List.mem_singleton] at hr hr'
    rw [hr, hr']
  have h' : broadcast obj (.tbl ⟨[], [([], v)]⟩) = .ok out := by
    simpa [broadcast, prmTbl] using h
  have := broadcast_lookup obj _ hfo hfp out h'
  refine ⟨fun kv hkv => ?_, this.1⟩
  rw [this.2 kv hkv]
  simp [restrict, Tbl.at, ownKey]

/-- An array parameter is positional: against a table of equal length its i-th element sits at the object's
i-th key; any other length than 1 is rejected; against a record it gets a fresh range level. -/
theorem prmTbl_array (obj : Tbl V) (vs : List V) :
    (obj.names = [] → prmTbl obj (.array vs) = .ok ⟨[.anon 1 0], enumFrom 0 vs⟩) ∧
    (obj.names ≠ [] → vs.length = obj.rows.length →
      prmTbl obj (.array vs) = .ok ⟨obj.names, List.zipWith (fun r v => (r.1, v)) obj.rows vs⟩) ∧
    (obj.names ≠ [] → vs.length ≠ obj.rows.length → vs.length ≠ 1 →
      prmTbl obj (.array vs) = .error .valueError) := by
  refine ⟨fun h => by simp [prmTbl, h], fun h1 h2 => by simp [prmTbl, h1, h2], fun h1 h2 h3 => ?_⟩
  simp only [prmTbl, h1, h2, if_false]
  match vs, h3 with
  | [], _ => rfl
  | [_], h3 => simp at h3
  | _ :: _ :: _, _ => rfl

/-! ### 3. nothing is invented, nothing that pairs is lost -/

/-- Every row of the result stems from a row of the object, a row of the parameter, or a pair of rows that
agree on all shared levels; its key holds, level by level, the object's code where the object has the level
and the parameter's code elsewhere. -/
theorem broadcast_nothing_invented (obj prm : Tbl V) (j : Joined V)
    (h : broadcastTbl obj prm = .ok j) (r : Row V) (hr : r ∈ j.rows) :
    RowOrigin obj prm j.names r := by
  unfold broadcastTbl at h
  split at h
  · cases h
  · cases h
    exact mem_joinRows hr

/-- Every pair of rows that agree on the shared levels is in the result, with both payloads. -/
theorem broadcast_pairs_complete (obj prm : Tbl V) (j : Joined V)
    (h : broadcastTbl obj prm = .ok j) (ro rp : Key × V) (hro : ro ∈ obj.rows) (hrp : rp ∈ prm.rows)
    (hag : agree obj.names ro.1 prm.names rp.1 = true) :
    (⟨pairKey j.names obj.names ro.1 prm.names rp.1, some ro.2, some rp.2⟩ : Row V) ∈ j.rows := by
  unfold broadcastTbl at h
  split at h
  · cases h
  · cases h
    simp only [joinRows, List.mem_append]
    exact Or.inl (Or.inl (mem_matched.mpr ⟨ro, hro, rp, hrp, hag, rfl⟩))

/-! ### 4. disjoint level names: cross join with |obj|·|prm| rows -/

theorem agree_of_disjoint {on pn : List Name} (hd : shared on pn = []) (ko kp : Key) :
    agree on ko pn kp = true := by
  simp [agree, hd]

theorem matched_length_of_disjoint (ns : List Name) (obj prm : Tbl V)
    (hd : shared obj.names prm.names = []) :
    (matched ns obj prm).length = obj.rows.length * prm.rows.length := by
  unfold matched
  have hin : ∀ ro : Key × V,
      (prm.rows.filterMap fun rp =>
        if agree obj.names ro.1 prm.names rp.1 then
          some (⟨pairKey ns obj.names ro.1 prm.names rp.1, some ro.2, some rp.2⟩ : Row V)
        else none).length = prm.rows.length := by
    intro ro
    induction prm.rows with
    | nil => rfl
    | cons rp rest ih =>
      simp only [agree_of_disjoint hd, if_true] at ih
      simp only [List.filterMap_cons, agree_of_disjoint hd, if_true, List.length_cons, ih]
  induction obj.rows with
  | nil => simp
  | cons ro rest ih =>
    simp only [List.flatMap_cons, List.length_append, hin, ih, List.length_cons]
    rw [Nat.add_mul, Nat.one_mul, Nat.add_comm]

theorem broadcast_cross_join_card (obj prm : Tbl V) (j : Joined V)
    (hd : shared obj.names prm.names = []) (ho : obj.rows ≠ []) (hp : prm.rows ≠ [])
    (h : broadcastTbl obj prm = .ok j) :
    j.rows.length = obj.rows.length * prm.rows.length := by
  unfold broadcastTbl at h
  split at h
  · cases h
  · cases h
    have huo : unmatchedObj obj prm = [] := by
      apply List.eq_nil_iff_forall_not_mem.mpr
      intro ro hro
      obtain ⟨_, hno⟩ := mem_unmatchedObj.mp hro
      obtain ⟨rp, hrp⟩ := List.exists_mem_of_ne_nil _ hp
      have := hno rp hrp
      rw [agree_of_disjoint hd] at this
      cases this
    have hup : unmatchedPrm obj prm = [] := by
      apply List.eq_nil_iff_forall_not_mem.mpr
      intro rp hrp
      obtain ⟨_, hno⟩ := mem_unmatchedPrm.mp hrp
      obtain ⟨ro, hro⟩ := List.exists_mem_of_ne_nil _ ho
      have := hno ro hro
      rw [agree_of_disjoint hd] at this
      cases this
    simp only [joinRows, huo, hup, List.map_nil, ite_self, List.append_nil]
    exact matched_length_of_disjoint _ obj prm hd

/-! ### 5. which operand pairs the real code rejects -/

/-- the quantifier's side condition: every shared-level key of one operand is present in the other -/
def AllPresent (obj prm : Tbl V) : Prop :=
  (∀ ro ∈ obj.rows, ∃ rp ∈ prm.rows, agree obj.names ro.1 prm.names rp.1 = true) ∧
  (∀ rp ∈ prm.rows, ∃ ro ∈ obj.rows, agree obj.names ro.1 prm.names rp.1 = true)

theorem unmatched_nil_of_present (obj prm : Tbl V) (h : AllPresent obj prm) :
    unmatchedObj obj prm = [] ∧ unmatchedPrm obj prm = [] := by
  constructor
  · apply List.eq_nil_iff_forall_not_mem.mpr
    intro ro hro
    obtain ⟨h1, hno⟩ := mem_unmatchedObj.mp hro
    obtain ⟨rp, hrp, hag⟩ := h.1 ro h1
    rw [hno rp hrp] at hag
    cases hag
  · apply List.eq_nil_iff_forall_not_mem.mpr
    intro rp hrp
    obtain ⟨h1, hno⟩ := mem_unmatchedPrm.mp hrp
    obtain ⟨ro, hro, hag⟩ := h.2 rp h1
    rw [hno ro hro] at hag
    cases hag

/-- With every shared-level key present in both operands (any layout of level names) the code returns. -/
theorem raises_false_of_present (obj prm : Tbl V) (h : AllPresent obj prm) : raises obj prm = false := by
  obtain ⟨h1, h2⟩ := unmatched_nil_of_present obj prm h
  simp [raises, h1, h2]

/-- Equal level-name sets (any level order, any key sets): the code returns (outer join). -/
theorem raises_false_of_same_levels (obj prm : Tbl V)
    (h1 : subset obj.names prm.names = true) (h2 : subset prm.names obj.names = true) :
    raises obj prm = false := by
  simp [raises, h1, h2]

/-- Disjoint level names, both operands non-empty: the code returns (cross join). -/
theorem raises_false_of_disjoint (obj prm : Tbl V) (hd : shared obj.names prm.names = [])
    (ho : obj.rows ≠ []) (hp : prm.rows ≠ []) : raises obj prm = false := by
  apply raises_false_of_present
  constructor
  · intro ro _
    obtain ⟨rp, hrp⟩ := List.exists_mem_of_ne_nil _ hp
    exact ⟨rp, hrp, agree_of_disjoint hd _ _⟩
  · intro rp _
    obtain ⟨ro, hro⟩ := List.exists_mem_of_ne_nil _ ho
    exact ⟨ro, hro, agree_of_disjoint hd _ _⟩

/-- One operand's levels contained in the other's and at most one level shared: the code returns
(partner-less rows of the operand with fewer levels are dropped). -/
theorem raises_false_of_contained_single (obj prm : Tbl V)
    (hc : subset obj.names prm.names = true ∨ subset prm.names obj.names = true)
    (h1 : (shared obj.names prm.names).length ≤ 1) : raises obj prm = false := by
  have hm : decide (2 ≤ (shared obj.names prm.names).length) = false := by
    simp; omega
  rcases hc with hc | hc <;> simp [raises, hc, hm]

/-- Summary: the full statement "for every layout of the quantifier the two returned tables exist and have the
look-up reading" holds except where `raises` is true inside the quantifier.  That happens exactly for
"one name set contained in the other, ≥ 2 shared levels, the smaller operand holds a key the bigger has not"
(finding class `contained-multi-shared-missing-key`; the real code raises IndexError). -/
theorem broadcast_total_partial (obj prm : Tbl V) (hfo : obj.Functional) (hfp : prm.Functional)
    (hguard : AllPresent obj prm ∨
      (subset obj.names prm.names = true ∧ subset prm.names obj.names = true) ∨
      ((subset obj.names prm.names = true ∨ subset prm.names obj.names = true) ∧
        (shared obj.names prm.names).length ≤ 1)) :
    ∃ out, broadcast obj (.tbl prm) = .ok out ∧
      out.obj.names = out.prm.names ∧ out.obj.rows.map Prod.fst = out.prm.rows.map Prod.fst ∧
      (∀ kv ∈ out.obj.rows, kv.2 = obj.at (restrict out.obj.names kv.1 obj.names)) ∧
      (∀ kv ∈ out.prm.rows, kv.2 = prm.at (restrict out.prm.names kv.1 prm.names)) := by
  have hr : raises obj prm = false := by
    rcases hguard with h | ⟨h1, h2⟩ | ⟨hc, h1⟩
    · exact raises_false_of_present obj prm h
    · exact raises_false_of_same_levels obj prm h1 h2
    · exact raises_false_of_contained_single obj prm hc h1
  have hb : broadcast obj (.tbl prm) =
      .ok (split ⟨resultNames obj.names prm.names, joinRows obj prm⟩) := by
    simp [broadcast, prmTbl, broadcastTbl, hr]
  refine ⟨_, hb, ?_⟩
  have hs := broadcast_same_index obj (.tbl prm) _ hb
  have hl := broadcast_lookup obj prm hfo hfp _ hb
  exact ⟨hs.1, hs.2, hl.1, hl.2⟩

/-! ### non-vacuity and witnesses -/

def x : Name := .named "x"
def y : Name := .named "y"
def z : Name := .named "z"

/-- F-6 layout `(x,z)` against `(y,z)`, 2 × 2, every shared key present -/
def wObj : Tbl Int := ⟨[x, z], [([10, 0], 1), ([11, 1], 2)]⟩
def wPrm : Tbl Int := ⟨[y, z], [([20, 0], 5), ([21, 1], 6)]⟩

example : AllPresent wObj wPrm := by
  constructor <;> decide

example : broadcastTbl wObj wPrm = .ok ⟨[x, z, y],
    [⟨[some 10, some 0, some 20], some 1, some 5⟩, ⟨[some 11, some 1, some 21], some 2, some 6⟩]⟩ := by
  decide

example : wObj.Functional ∧ wPrm.Functional := by
  constructor <;> (intro r hr r' hr' h; revert h; revert r r'; decide)

/-- the finding class: `(x,y,z)` against `(y,z)` where the parameter holds a key `(y,z) = (1,1)` that the
object has not — the model (like the real code) rejects the pair -/
def fObj : Tbl Int := ⟨[x, y, z], [([0, 0, 0], 1), ([1, 0, 0], 2)]⟩
def fPrm : Tbl Int := ⟨[y, z], [([0, 0], 5), ([1, 1], 6)]⟩

theorem raises_at_witness : broadcastTbl fObj fPrm = .error .indexError := by decide

/-- equal level names, different keys: outer join with NaN payloads -/
example : broadcastTbl (⟨[x], [([0], 1), ([1], 2)]⟩ : Tbl Int) ⟨[x], [([1], 5), ([2], 6)]⟩ =
    .ok ⟨[x], [⟨[some 1], some 2, some 5⟩, ⟨[some 0], some 1, none⟩, ⟨[some 2], none, some 6⟩]⟩ := by
  decide

/-- disjoint level names: 2 · 3 rows -/
example : (joinRows (⟨[x], [([0], 1), ([1], 2)]⟩ : Tbl Int) ⟨[y], [([0], 5), ([1], 6), ([2], 7)]⟩).length = 6 := by
  decide

/-- scalar and array parameters -/
example : (broadcast (⟨[x], [([0], 1), ([1], 2)]⟩ : Tbl Int) (.scalar 7)).toOption.map (·.prm.rows) =
    some [([some 0], some 7), ([some 1], some 7)] := by decide

example : prmTbl (⟨[x], [([0], 1), ([1], 2)]⟩ : Tbl Int) (.array [7, 8, 9]) = .error .valueError := by
  decide

end PylifeVerif.C13
