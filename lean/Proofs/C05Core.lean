/-
C05: the HCM detector on one assessment point equals the FKM guideline procedure; several
proportionally loaded points give every point what it gets alone.
-/
import Proofs.Lemmas.HCMC05
import Proofs.C04Basic

namespace PylifeVerif
open HCM
namespace C05

/-- the law's secondary branch follows the sign of the load range (true for every monotone law) -/
def SignPreserving (law : Law) : Prop :=
  ∀ d : Int, (0 < d → 0 < law.dsigma d ∧ 0 < law.deps (law.dsigma d) d) ∧
             (d < 0 → law.dsigma d < 0 ∧ law.deps (law.dsigma d) d < 0) ∧
             (d = 0 → law.dsigma d = 0 ∧ law.deps (law.dsigma d) d = 0)

/-- columns of one point of a recorded hysteresis, without the running strain extremes -/
def proj (k : Nat) (h : Hyst) : List Int × Bool × Bool × Nat :=
  ([h.loadMin.getD k 0, h.loadMax.getD k 0, h.sMin.getD k 0, h.sMax.getD k 0, h.eMin.getD k 0, h.eMax.getD k 0],
   h.closed, h.zeroMean, h.run)

def projLF (k : Nat) (h : Hyst) : Int × Int := (h.eMinLF.getD k 0, h.eMaxLF.getD k 0)

/-- the guideline record of one point, from the model's record -/
def toG (h : Hyst) : Spec.GHyst :=
  { loadMin := rep h.loadMin, loadMax := rep h.loadMax, sMin := rep h.sMin, sMax := rep h.sMax,
    eMin := rep h.eMin, eMax := rep h.eMax, eMinLF := rep h.eMinLF, eMaxLF := rep h.eMaxLF,
    closed := h.closed, run := h.run }

def fedOf (st : State) (run : Nat) : List Int := (st.fed.filter (·.1 = run)).map fun f => rep f.2

theorem filter_ctrue {α : Type} (l : List α) : l.filter (fun _ => true) = l := by
  induction l with
  | nil => rfl
  | cons a l ih => simp [List.filter, ih]

theorem filter_cfalse {α : Type} (l : List α) : l.filter (fun _ => false) = [] := by
  induction l with
  | nil => rfl
  | cons a l ih => simp [List.filter, ih]

set_option linter.unusedSimpArgs false in
theorem fedOf_split (st : State) (ls1 ls2 : List Int)
    (h : st.fed = ls1.map (fun x => (1, [x])) ++ ls2.map (fun x => (2, [x]))) :
    fedOf st 1 = ls1 ∧ fedOf st 2 = ls2 := by
  unfold fedOf
  rw [h]
  constructor <;>
    simp [List.filter_append, List.filter_map, Function.comp_def, filter_ctrue, filter_cfalse]

set_option linter.unusedVariables false in
/-- The detector's records and visited strains equal those of the guideline procedure run on the
reversal sequences that the two passes are fed.  (`SignPreserving` is not needed for one point: the
hypothesis of the given statement is kept but not used.) -/
theorem hcm_model_eq_guideline (law : Law) (hl : SignPreserving law) (s : List Int) :
    let st := twoPassR law (C04.one s)
    st.recs.map toG = (Spec.guideline law (fedOf st 1) (fedOf st 2)).recs ∧
    st.strainValues = (Spec.guideline law (fedOf st 1) (fedOf st 2)).strains := by
  intro st
  obtain ⟨ls1, ls2, hrel, hfed⟩ := C05L.twoPass_one law s
  obtain ⟨h1, h2⟩ := fedOf_split st ls1 ls2 hfed
  rw [h1, h2]
  exact ⟨hrel.rel.recs, hrel.strains⟩

/-- Points with proportional load histories: every point gets what it gets alone. -/
theorem hcm_batch_eq_single (law : Law) (hl : SignPreserving law) (L : List Int) (cs : List Int)
    (hc : ∀ c ∈ cs, 0 < c) (k : Nat) (hk : k < cs.length) :
    ((twoPassR law (L.map fun l => cs.map (· * l))).recs.map (proj k)) =
      ((twoPassR law (L.map fun l => [cs.getD k 1 * l])).recs.map (proj 0)) :=
  C05L.twoPass_sim law hl cs hc k hk L

/-- The running strain extremes (kept per assessment point) of every point of a batch with
proportional load histories are those the point gets alone (repaired variant `twoPassR`). -/
theorem hcm_batch_eq_single_LF (law : Law) (hl : SignPreserving law) (L : List Int) (cs : List Int)
    (hc : ∀ c ∈ cs, 0 < c) (k : Nat) (hk : k < cs.length) :
    ((twoPassR law (L.map fun l => cs.map (· * l))).recs.map (projLF k)) =
      ((twoPassR law (L.map fun l => [cs.getD k 1 * l])).recs.map (projLF 0)) :=
  C05L.twoPass_simLF law hl cs hc k hk L

/-! ### non-vacuity -/

/-- the linear stub law of the correspondence check is sign preserving (the saturating one is as well, being odd and monotone; only
the linear one is proved here) -/
theorem signPreserving_lawLinear : SignPreserving lawLinear := by
  intro d
  simp only [lawLinear]
  refine ⟨fun h => ⟨by omega, by omega⟩, fun h => ⟨by omega, by omega⟩, fun h => ⟨by omega, by omega⟩⟩

example : ((twoPassR lawLinear ([0, 100, -200, 100, -100, 200].map fun l => [1, 3, 2].map (· * l))).recs.map (proj 1)) =
    ((twoPassR lawLinear ([0, 100, -200, 100, -100, 200].map fun l => [[1, 3, 2].getD 1 1 * l])).recs.map (proj 0)) :=
  hcm_batch_eq_single lawLinear signPreserving_lawLinear _ [1, 3, 2] (by decide) 1 (by decide)

example : (twoPassR lawLinear ([0, 100, -200, 100, -100, 200].map fun l => [1, 3, 2].map (· * l))).recs.length = 5 := by
  decide +kernel

example :
    let st := twoPassR lawLinear (C04.one [0, 100, -200, 100, -100, 200])
    st.recs.map toG = (Spec.guideline lawLinear (fedOf st 1) (fedOf st 2)).recs ∧
    st.strainValues = (Spec.guideline lawLinear (fedOf st 1) (fedOf st 2)).strains :=
  hcm_model_eq_guideline lawLinear signPreserving_lawLinear _

example : (twoPassR lawLinear (C04.one [0, 100, -200, 100, -100, 200])).recs.length = 5 ∧
    fedOf (twoPassR lawLinear (C04.one [0, 100, -200, 100, -100, 200])) 2 = [0, 100, -200, 100, -100, 200] := by
  decide +kernel

end C05
end PylifeVerif
