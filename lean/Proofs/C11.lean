/-
C11 - Miner damage is linear and agrees with the predicted Gassner lifetime.  Property theorems only
(helper lemmas: Proofs/Lemmas/Miner.lean, Proofs/Lemmas/MinerHard.lean; model: Model/Miner.lean).

All statements are over ℝ (`Transc.pow = Real.rpow`, `x / 0 = 0`, `0 ^ (-k) = 0`).  Preconditions:
  * `ValidCurve c`  : `0 < SD`, `0 < ND`          (the code divides by both)
  * `ValidColl l`   : amplitudes and counts `≥ 0` (a negative amplitude is NaN in `np.power`)
  * `Loaded l`      : some occupied class has a positive amplitude (otherwise `S[hi > 0].max()` is NaN or 0 and the
                      code returns NaN/inf; there is no lifetime to predict)
The linearity theorems need none of them.  An amplitude of exactly 0 is covered: the code gets `N = inf`, damage 0;
the real-number model gets `N = 0`, `n / 0 = 0` - the same damage.
-/
import Proofs.Lemmas.MinerHard

set_option linter.unusedSimpArgs false

namespace PylifeVerif.C11
open PylifeVerif PylifeVerif.Miner

/-! ## damage is additive, proportional to the counts, independent of the member order -/

/-- additive over the members: the damage of two collectives put together is the sum of their damages -/
theorem damage_additive (c : Curve ℝ) (a b : Coll ℝ) :
    damageSum c (a ++ b) = damageSum c a + damageSum c b := by
  simp [damageSum_eq]

/-- ... and class by class the values of `Fatigue.damage` are those of the parts -/
theorem damage_classwise_append (c : Curve ℝ) (a b : Coll ℝ) :
    damage c (a ++ b) = damage c a ++ damage c b := by
  simp [damage]

example : damageSum (⟨1, none, 1, 1⟩ : Curve ℝ) ([(2, 3)] ++ [(4, 5)]) =
    damageSum ⟨1, none, 1, 1⟩ [(2, 3)] + damageSum ⟨1, none, 1, 1⟩ [(4, 5)] := damage_additive _ _ _

/-- proportional to the cycle counts (any real factor; no precondition) -/
theorem damage_scales_with_counts (c : Curve ℝ) (t : ℝ) (l : Coll ℝ) :
    damageSum c (scaleCounts t l) = t * damageSum c l := by
  rw [damageSum_eq, damageSum_eq, scaleCounts, List.map_map, ← List.sum_map_mul_left]
  congr 1
  apply List.map_congr_left
  intro p _
  simp only [Function.comp_apply, damageTerm]
  cases cycles c p.1 with
  | none => norm_num
  | some N => simp only []; ring

example : damageSum (⟨1, none, 1, 1⟩ : Curve ℝ) (scaleCounts 7 [(2, 3), (1/2, 9)]) =
    7 * damageSum ⟨1, none, 1, 1⟩ [(2, 3), (1/2, 9)] := damage_scales_with_counts _ _ _

/-- independent of the member order -/
theorem damage_perm_invariant (c : Curve ℝ) {l₁ l₂ : Coll ℝ} (h : l₁.Perm l₂) :
    damageSum c l₁ = damageSum c l₂ := by
  rw [damageSum_eq, damageSum_eq]
  exact (h.map _).sum_eq

example : damageSum (⟨5, some 9, 100, 1000000⟩ : Curve ℝ) [(150, 10), (80, 1000), (200, 0)] =
    damageSum ⟨5, some 9, 100, 1000000⟩ [(200, 0), (150, 10), (80, 1000)] :=
  damage_perm_invariant _ (List.perm_append_comm (l₁ := [(150, 10), (80, 1000)]) (l₂ := [(200, 0)]))

/-! ## original ≤ Haibach ≤ elementary (needs `k_1 ≥ 1`: for `k_1 < 1` the Haibach slope `2 k_1 - 1` is flatter than `k_1`) -/

/-- class by class: original ≤ Haibach ≤ elementary -/
theorem damage_order_termwise (c : Curve ℝ) (hc : ValidCurve c) (hk : 1 ≤ c.k1) (p : ℝ × ℝ)
    (hS : 0 ≤ p.1) (hn : 0 ≤ p.2) :
    damageTerm (minerOriginal c) p ≤ damageTerm (minerHaibach c) p ∧
    damageTerm (minerHaibach c) p ≤ damageTerm (minerElementary c) p := by
  have hSD := hc.SD_pos
  have hND := hc.ND_pos
  by_cases h : p.1 < c.SD
  · have hx0 : 0 ≤ p.1 / c.SD := div_nonneg hS hSD.le
    have hx1 : p.1 / c.SD ≤ 1 := by rw [div_le_one hSD]; exact h.le
    rw [damageTerm_original_lt c p h, damageTerm_haibach_lt c p h, damageTerm_elementary_lt c p h,
      div_basquin _ _ _ _ hx0, div_basquin _ _ _ _ hx0]
    constructor
    · exact div_nonneg (mul_nonneg hn (Real.rpow_nonneg hx0 _)) hND.le
    · apply div_le_div_of_nonneg_right _ hND.le
      apply mul_le_mul_of_nonneg_left _ hn
      exact Real.rpow_le_rpow_of_exponent_ge' hx0 hx1 (by linarith) (by linarith)
  · rw [damageTerm_ge (minerOriginal c) p h, damageTerm_ge (minerHaibach c) p h,
      damageTerm_ge (minerElementary c) p h]
    exact ⟨le_refl _, le_refl _⟩

theorem damage_order_original_le_haibach_le_elementary (c : Curve ℝ) (hc : ValidCurve c) (hk : 1 ≤ c.k1)
    (l : Coll ℝ) (hl : ValidColl l) :
    damageSum (minerOriginal c) l ≤ damageSum (minerHaibach c) l ∧
    damageSum (minerHaibach c) l ≤ damageSum (minerElementary c) l := by
  simp only [damageSum_eq]
  constructor
  · exact List.sum_le_sum fun p hp => (damage_order_termwise c hc hk p (hl p hp).1 (hl p hp).2).1
  · exact List.sum_le_sum fun p hp => (damage_order_termwise c hc hk p (hl p hp).1 (hl p hp).2).2

example : ValidCurve (⟨5, none, 100, 1000000⟩ : Curve ℝ) ∧ (1 : ℝ) ≤ (⟨5, none, 100, 1000000⟩ : Curve ℝ).k1 ∧
    ValidColl ([(150, 10), (80, 1000), (0, 5)] : Coll ℝ) := by
  refine ⟨⟨by norm_num, by norm_num⟩, by norm_num, ?_⟩
  intro p hp
  simp only [List.mem_cons, List.not_mem_nil, or_false] at hp
  rcases hp with rfl | rfl | rfl <;> norm_num

/-- The guard `1 ≤ k_1` of the ordering clause is sharp: for `1/2 ≤ k_1 ≤ 1` (accepted by `WoehlerCurve._validate`, no
    physical Wöhler line) the Haibach slope `2 k_1 - 1` is flatter than `k_1` and the order is the other way round,
    class by class.  (Not a property theorem: it documents why the clause is stated for `k_1 ≥ 1` only.) -/
theorem damage_order_reversed_below_k1_one (c : Curve ℝ) (hc : ValidCurve c) (hk : 1 / 2 ≤ c.k1) (hk1 : c.k1 ≤ 1)
    (p : ℝ × ℝ) (hS : 0 ≤ p.1) (hn : 0 ≤ p.2) :
    damageTerm (minerElementary c) p ≤ damageTerm (minerHaibach c) p := by
  have hSD := hc.SD_pos
  have hND := hc.ND_pos
  by_cases h : p.1 < c.SD
  · have hx0 : 0 ≤ p.1 / c.SD := div_nonneg hS hSD.le
    have hx1 : p.1 / c.SD ≤ 1 := by rw [div_le_one hSD]; exact h.le
    rw [damageTerm_haibach_lt c p h, damageTerm_elementary_lt c p h,
      div_basquin _ _ _ _ hx0, div_basquin _ _ _ _ hx0]
    apply div_le_div_of_nonneg_right _ hND.le
    apply mul_le_mul_of_nonneg_left _ hn
    exact Real.rpow_le_rpow_of_exponent_ge' hx0 hx1 (by linarith) (by linarith)
  · rw [damageTerm_ge (minerHaibach c) p h, damageTerm_ge (minerElementary c) p h]
    exact le_refl _

/-! ## Gassner cycles give damage one (repaired code: largest OCCUPIED amplitude, `k_1` line) -/

/-- Applying the collective for the Miner-elementary Gassner cycles gives damage 1 under the elementary rule,
    whichever classes are empty and wherever `SD` lies. -/
theorem gassner_elementary_damage_one (c : Curve ℝ) (hc : ValidCurve c) (l : Coll ℝ) (hl : ValidColl l)
    (hload : Loaded l) :
    damageSum (minerElementary c) (applyFor (gassnerCyclesElementary c l) l) = 1 := by
  have hM := maxOcc_pos hload
  have hT : 0 < total l := total_pos hl (by obtain ⟨p, hp, hp2, _⟩ := hload; exact ⟨p, hp, hp2⟩)
  have hE := esum_pos c.k1 l hl hload
  have hD : 0 < c.ND * (maxOcc l / c.SD) ^ (-c.k1) :=
    mul_pos hc.ND_pos (Real.rpow_pos_of_pos (div_pos hM hc.SD_pos) _)
  rw [applyFor, damageSum_elementary_scaleCounts c hc hM l hl]
  simp only [gassnerCyclesElementary, gassnerCycles, lifetimeMultipleElementary, solidityHaibach_eq,
    basquin, transc_pow, one_lit]
  field_simp
  exact div_self hD.ne'

/-- Applying the collective for the Miner-Haibach Gassner cycles gives damage 1 under the Haibach rule. -/
theorem gassner_haibach_damage_one (c : Curve ℝ) (hc : ValidCurve c) (l : Coll ℝ) (hl : ValidColl l)
    (hload : Loaded l) :
    damageSum (minerHaibach c) (applyFor (gassnerCyclesHaibach c l) l) = 1 := by
  have hM := maxOcc_pos hload
  have hT : 0 < total l := total_pos hl (by obtain ⟨p, hp, hp2, _⟩ := hload; exact ⟨p, hp, hp2⟩)
  have hH := hsum_pos c hc l hl hload
  have hD : 0 < c.ND * (maxOcc l / c.SD) ^ (-c.k1) :=
    mul_pos hc.ND_pos (Real.rpow_pos_of_pos (div_pos hM hc.SD_pos) _)
  rw [applyFor, damageSum_haibach_scaleCounts c hc hM l hl]
  simp only [gassnerCyclesHaibach, gassnerCycles, lifetimeMultipleHaibach,
    lifetimeMultipleHaibachAt_eq, basquin, transc_pow]
  field_simp
  exact div_self hD.ne'

/-- non-vacuity: the hypotheses are satisfiable on a collective straddling `SD` with an empty top class -/
example : ValidCurve (⟨5, none, 100, 1000000⟩ : Curve ℝ) ∧
    ValidColl ([(150, 10), (80, 1000), (200, 0), (0, 5)] : Coll ℝ) ∧
    Loaded ([(150, 10), (80, 1000), (200, 0), (0, 5)] : Coll ℝ) := by
  refine ⟨⟨by norm_num, by norm_num⟩, ?_, ⟨(150, 10), by simp, by norm_num, by norm_num⟩⟩
  intro p hp
  simp only [List.mem_cons, List.not_mem_nil, or_false] at hp
  rcases hp with rfl | rfl | rfl | rfl <;> norm_num

/-- `MinerElementary.gassner`: the shifted curve reads the Gassner cycles at the largest occupied amplitude
    (above and below `SD`; no precondition). -/
theorem gassner_curve_cycles (c : Curve ℝ) (l : Coll ℝ) :
    cycles (gassnerCurve c l) (maxOcc l) = some (gassnerCyclesElementary c l) := by
  unfold cycles gassnerCurve gassnerCyclesElementary gassnerCycles basquin
  split_ifs <;> simp only [Option.map_some, Option.some.injEq] <;> ring

/-- "scaled to any load level": both statements hold for the collective scaled by any `t > 0`. -/
theorem gassner_damage_one_at_any_level (c : Curve ℝ) (hc : ValidCurve c) (l : Coll ℝ) (hl : ValidColl l)
    (hload : Loaded l) (t : ℝ) (ht : 0 < t) :
    damageSum (minerElementary c) (applyFor (gassnerCyclesElementary c (scaleAmps t l)) (scaleAmps t l)) = 1 ∧
    damageSum (minerHaibach c) (applyFor (gassnerCyclesHaibach c (scaleAmps t l)) (scaleAmps t l)) = 1 :=
  ⟨gassner_elementary_damage_one c hc _ (validColl_scaleAmps hl ht) (loaded_scaleAmps hload ht),
   gassner_haibach_damage_one c hc _ (validColl_scaleAmps hl ht) (loaded_scaleAmps hload ht)⟩

/-! ## curves given for a native failure probability with scatter (`TN`, `TS`, `failure_probability`)

`Fatigue.damage`, `cycles()` and `gassner_cycles` evaluate the curve transformed to 50 % (`Model/Woehler.lean`,
`transform`; `ppf` = `scipy.stats.norm.ppf`, arbitrary here), `MinerHaibach.lifetime_multiple` (repaired) reads the
knee of that curve.  Every statement above therefore holds for such curves; the native parameters only have to be
positive. -/

/-- linearity for native curves: additive, proportional, order independent (no precondition) -/
theorem damage_linear_native (ppf : ℝ → ℝ) (w : Woehler.Curve ℝ) (a b : Coll ℝ) (t : ℝ) :
    damageSumW ppf w (a ++ b) = damageSumW ppf w a + damageSumW ppf w b ∧
    damageSumW ppf w (scaleCounts t a) = t * damageSumW ppf w a ∧
    (∀ a', a.Perm a' → damageSumW ppf w a = damageSumW ppf w a') :=
  ⟨damage_additive _ a b, damage_scales_with_counts _ t a, fun _ h => damage_perm_invariant _ h⟩

/-- original ≤ Haibach ≤ elementary for native curves -/
theorem damage_order_native (ppf : ℝ → ℝ) (w : Woehler.Curve ℝ) (hTS : 0 < w.TS) (hTN : 0 < w.TN)
    (hSD : 0 < w.SD) (hND : 0 < w.ND) (hk : 1 ≤ w.k1) (l : Coll ℝ) (hl : ValidColl l) :
    damageSumW ppf (Woehler.minerOriginal w) l ≤ damageSumW ppf (Woehler.minerHaibach w) l ∧
    damageSumW ppf (Woehler.minerHaibach w) l ≤ damageSumW ppf (Woehler.minerElementary w) l := by
  unfold damageSumW
  rw [at50_minerOriginal, at50_minerHaibach, at50_minerElementary]
  exact damage_order_original_le_haibach_le_elementary _ (validCurve_at50 ppf w hTS hTN hSD hND) hk l hl

/-- Gassner cycles give damage one, both rules, for every native failure probability and scatter -/
theorem gassner_damage_one_native (ppf : ℝ → ℝ) (w : Woehler.Curve ℝ) (hTS : 0 < w.TS) (hTN : 0 < w.TN)
    (hSD : 0 < w.SD) (hND : 0 < w.ND) (l : Coll ℝ) (hl : ValidColl l) (hload : Loaded l) :
    damageSumW ppf (Woehler.minerElementary w) (applyFor (gassnerCyclesElementaryW ppf w l) l) = 1 ∧
    damageSumW ppf (Woehler.minerHaibach w) (applyFor (gassnerCyclesHaibachW ppf w l) l) = 1 := by
  have hc := validCurve_at50 ppf w hTS hTN hSD hND
  unfold damageSumW
  rw [at50_minerElementary, at50_minerHaibach, gassnerCyclesElementaryW_eq, gassnerCyclesHaibachW_eq]
  exact ⟨gassner_elementary_damage_one _ hc l hl hload, gassner_haibach_damage_one _ hc l hl hload⟩

/-- `MinerElementary.gassner` on a native curve: the shifted curve, evaluated at 50 % like every curve, reads the
    Gassner cycles at the largest occupied amplitude (no precondition) -/
theorem gassner_curve_cycles_native (ppf : ℝ → ℝ) (w : Woehler.Curve ℝ) (l : Coll ℝ) :
    cycles (at50 ppf (gassnerCurveW w l)) (maxOcc l) = some (gassnerCyclesElementaryW ppf w l) := by
  rw [at50_gassnerCurveW]
  unfold cycles gassnerCyclesElementaryW gassnerCycles basquin
  split_ifs <;> simp only [Option.map_some, Option.some.injEq, at50_k1] <;> ring

example : (0 : ℝ) < (⟨5, Woehler.Life.inf, 200, 1000000, 4, 5 / 4, 1 / 10⟩ : Woehler.Curve ℝ).TS ∧
    (0 : ℝ) < (⟨5, Woehler.Life.inf, 200, 1000000, 4, 5 / 4, 1 / 10⟩ : Woehler.Curve ℝ).TN := by
  constructor <;> norm_num

/-! ## effective damage sum -/

/-- `effective_damage_sum(A)` lies in `[0.3, 1]`.  Stated for every real `A` because over ℝ `2 / 0 = 0` and `rpow` is
    total; the CODE is only defined for `A > 0` (`A = 0`: ZeroDivisionError, `A < 0`: complex number, TypeError in
    `max`) - `effective_damage_sum_of_collective` below shows that the lifetime multiples of a loaded collective are
    positive, `effective_damage_sum_piecewise` pins the expression between the two clips. -/
theorem effective_damage_sum_bounds (A : ℝ) :
    (3 / 10 : ℝ) ≤ effectiveDamageSum A ∧ effectiveDamageSum A ≤ 1 := by
  unfold effectiveDamageSum pyMin pyMax
  split_ifs <;> constructor <;> norm_num at * <;> linarith

example : (3 / 10 : ℝ) ≤ effectiveDamageSum (lifetimeMultipleElementary ⟨5, none, 100, 1000000⟩ [(150, 10), (80, 1000)]) :=
  (effective_damage_sum_bounds _).1

/-! ## lifetime multiples are positive; the effective damage sum as a function of the lifetime multiple

`effective_damage_sum_bounds` alone would hold for any expression clipped to `[0.3, 1]`.  The three theorems below pin
the expression: for a loaded collective both lifetime multiples are positive (the code raises `ZeroDivisionError` for
`A = 0` and returns a complex number for `A < 0`; neither occurs), `D_m = 1` up to `A = 16`, `D_m = 2 / A^(1/4)` between
`16` and `(20/3)^4 ≈ 1975.3`, `D_m = 0.3` beyond. -/

theorem lifetime_multiple_elementary_pos (c : Curve ℝ) (l : Coll ℝ) (hl : ValidColl l) (hload : Loaded l) :
    0 < lifetimeMultipleElementary c l := by
  have hT : 0 < total l := total_pos hl (by obtain ⟨p, hp, hp2, _⟩ := hload; exact ⟨p, hp, hp2⟩)
  have hE := esum_pos c.k1 l hl hload
  simp only [lifetimeMultipleElementary, solidityHaibach_eq, one_lit]
  exact div_pos one_pos (div_pos hE hT)

theorem lifetime_multiple_haibach_pos (c : Curve ℝ) (hc : ValidCurve c) (l : Coll ℝ) (hl : ValidColl l)
    (hload : Loaded l) : 0 < lifetimeMultipleHaibach c l := by
  have hT : 0 < total l := total_pos hl (by obtain ⟨p, hp, hp2, _⟩ := hload; exact ⟨p, hp, hp2⟩)
  have hH := hsum_pos c hc l hl hload
  simp only [lifetimeMultipleHaibach, lifetimeMultipleHaibachAt_eq]
  exact div_pos hT hH

private theorem rpow_quarter_le_iff {A b : ℝ} (hA : 0 < A) (hb : 0 < b) : A ^ (1 / 4 : ℝ) ≤ b ↔ A ≤ b ^ (4 : ℕ) := by
  have h4 : (A ^ (1 / 4 : ℝ)) ^ (4 : ℕ) = A := by
    rw [← Real.rpow_natCast, ← Real.rpow_mul hA.le]; norm_num
  have hq : 0 < A ^ (1 / 4 : ℝ) := Real.rpow_pos_of_pos hA _
  constructor
  · intro h; rw [← h4]; exact pow_le_pow_left₀ hq.le h 4
  · intro h; rw [← h4] at h; exact le_of_pow_le_pow_left₀ (by norm_num) hb.le h

/-- the effective damage sum of a positive lifetime multiple, piece by piece -/
theorem effective_damage_sum_piecewise (A : ℝ) (hA : 0 < A) :
    (A ≤ 16 → effectiveDamageSum A = 1) ∧
    (16 ≤ A → A ≤ (20 / 3) ^ (4 : ℕ) → effectiveDamageSum A = 2 / A ^ (1 / 4 : ℝ)) ∧
    ((20 / 3) ^ (4 : ℕ) ≤ A → effectiveDamageSum A = 3 / 10) := by
  have hq : 0 < A ^ (1 / 4 : ℝ) := Real.rpow_pos_of_pos hA _
  have h16 : A ^ (1 / 4 : ℝ) ≤ 2 ↔ A ≤ 16 := by
    rw [rpow_quarter_le_iff hA (by norm_num)]; norm_num
  have hbig : A ^ (1 / 4 : ℝ) ≤ 20 / 3 ↔ A ≤ (20 / 3) ^ (4 : ℕ) := rpow_quarter_le_iff hA (by norm_num)
  have hform : effectiveDamageSum A =
      (if 1 < (if (3 / 10 : ℝ) < 2 / A ^ (1 / 4 : ℝ) then 2 / A ^ (1 / 4 : ℝ) else 3 / 10) then 1
       else (if (3 / 10 : ℝ) < 2 / A ^ (1 / 4 : ℝ) then 2 / A ^ (1 / 4 : ℝ) else 3 / 10)) := by
    unfold effectiveDamageSum pyMin pyMax
    simp only [transc_pow, one_lit, two_lit]
    norm_num
  rw [hform]
  have h16' : (16 : ℝ) ^ (1 / 4 : ℝ) = 2 := by
    rw [show (16 : ℝ) = 2 ^ (4 : ℕ) by norm_num, ← Real.rpow_natCast, ← Real.rpow_mul (by norm_num)]; norm_num
  have hbig' : (((20 : ℝ) / 3) ^ (4 : ℕ)) ^ (1 / 4 : ℝ) = 20 / 3 := by
    rw [← Real.rpow_natCast, ← Real.rpow_mul (by norm_num)]; norm_num
  refine ⟨fun h => ?_, fun h1 h2 => ?_, fun h => ?_⟩
  · have h2 : A ^ (1 / 4 : ℝ) ≤ 2 := h16.mpr h
    have h3 : 1 ≤ 2 / A ^ (1 / 4 : ℝ) := by rw [le_div_iff₀ hq]; linarith
    generalize 2 / A ^ (1 / 4 : ℝ) = x at *
    split_ifs <;> linarith
  · have h3 : 2 ≤ A ^ (1 / 4 : ℝ) := by
      rw [← h16']; exact Real.rpow_le_rpow (by norm_num) h1 (by norm_num)
    have h4 : A ^ (1 / 4 : ℝ) ≤ 20 / 3 := hbig.mpr h2
    have h5 : 2 / A ^ (1 / 4 : ℝ) ≤ 1 := by rw [div_le_iff₀ hq]; linarith
    have h6 : (3 / 10 : ℝ) ≤ 2 / A ^ (1 / 4 : ℝ) := by rw [le_div_iff₀ hq]; linarith
    generalize 2 / A ^ (1 / 4 : ℝ) = x at *
    split_ifs <;> linarith
  · have h3 : 20 / 3 ≤ A ^ (1 / 4 : ℝ) := by
      rw [← hbig']; exact Real.rpow_le_rpow (by positivity) h (by norm_num)
    have h4 : 2 / A ^ (1 / 4 : ℝ) ≤ 3 / 10 := by rw [div_le_iff₀ hq]; linarith
    generalize 2 / A ^ (1 / 4 : ℝ) = x at *
    split_ifs <;> linarith

example : effectiveDamageSum (81 : ℝ) = 2 / (81 : ℝ) ^ (1 / 4 : ℝ) :=
  (effective_damage_sum_piecewise 81 (by norm_num)).2.1 (by norm_num) (by norm_num)

/-- `obj.effective_damage_sum(collective)` of both Miner rules lies in `[0.3, 1]`, and its argument is a positive
    lifetime multiple (so the code neither divides by zero nor leaves the reals) -/
theorem effective_damage_sum_of_collective (c : Curve ℝ) (hc : ValidCurve c) (l : Coll ℝ) (hl : ValidColl l)
    (hload : Loaded l) :
    (0 < lifetimeMultipleElementary c l ∧ (3 / 10 : ℝ) ≤ effectiveDamageSum (lifetimeMultipleElementary c l) ∧
      effectiveDamageSum (lifetimeMultipleElementary c l) ≤ 1) ∧
    (0 < lifetimeMultipleHaibach c l ∧ (3 / 10 : ℝ) ≤ effectiveDamageSum (lifetimeMultipleHaibach c l) ∧
      effectiveDamageSum (lifetimeMultipleHaibach c l) ≤ 1) :=
  ⟨⟨lifetime_multiple_elementary_pos c l hl hload, effective_damage_sum_bounds _⟩,
   ⟨lifetime_multiple_haibach_pos c hc l hl hload, effective_damage_sum_bounds _⟩⟩

/-- non-vacuity: a collective straddling `SD` with an empty top class and a class of amplitude 0 -/
example : (0 : ℝ) < lifetimeMultipleHaibach ⟨5, none, 100, 1000000⟩ [(150, 10), (80, 1000), (200, 0), (0, 5)] := by
  refine (effective_damage_sum_of_collective ⟨5, none, 100, 1000000⟩ ⟨by norm_num, by norm_num⟩ _ ?_
    ⟨(150, 10), by simp, by norm_num, by norm_num⟩).2.1
  intro p hp
  simp only [List.mem_cons, List.not_mem_nil, or_false] at hp
  rcases hp with rfl | rfl | rfl | rfl <;> norm_num

/-! ## the accessor objects: a used object answers like a fresh one (`Model/Miner.lean`, state machine)

Object state is part of the model: `run` threads the state of ONE object through a sequence of calls.  The theorems
hold for every carrier (in particular for the `Float` instance the driver runs). -/

section objects
variable {α : Type} [Add α] [Sub α] [Mul α] [Div α] [Neg α] [OfScientific α]
  [LT α] [LE α] [DecidableLT α] [DecidableLE α] [Transc α]

/-- no call changes what the object holds -/
theorem object_step_keeps_state (ppf : α → α) (o : Obj α) (op : Op α) : (step ppf o op).1 = o := rfl

/-- a sequence of calls on one object: the state at the end is the state at the start and every answer is the answer
    a fresh object (same class, same curve) gives to that call alone -/
theorem object_sequence_eq_fresh (ppf : α → α) (o : Obj α) (ops : List (Op α)) :
    (run ppf o ops).1 = o ∧ (run ppf o ops).2 = ops.map (fun op => (step ppf o op).2) := by
  induction ops with
  | nil => exact ⟨rfl, rfl⟩
  | cons op ops ih =>
    simp only [run, List.map_cons, object_step_keeps_state]
    exact ⟨ih.1, by rw [ih.2]⟩

/-- whatever was asked before (`pre`), the answer to `op` is the answer of a fresh object -/
theorem object_answer_independent_of_history (ppf : α → α) (o : Obj α) (pre : List (Op α)) (op : Op α) :
    (run ppf o (pre ++ [op])).2.getLast? = some (answer ppf o op) := by
  rw [(object_sequence_eq_fresh ppf o _).2, List.map_append]
  simp [step]

end objects

example : (run (fun x => x) (⟨Kind.elementary, ⟨5, Woehler.Life.inf, 100, 1000000, 1, 1, 1 / 2⟩⟩ : Obj ℝ)
    ([Op.lifetimeMultiple [(150, 10), (80, 1000)]] ++ [Op.gassnerCycles [(300, 1), (40, 7)]])).2.getLast? =
    some (answer (fun x => x) ⟨Kind.elementary, ⟨5, Woehler.Life.inf, 100, 1000000, 1, 1, 1 / 2⟩⟩
      (Op.gassnerCycles [(300, 1), (40, 7)])) :=
  object_answer_independent_of_history _ _ _ _

example : (run (fun x => x) (⟨Kind.fatigue, ⟨5, Woehler.Life.inf, 100, 1000000, 1, 1, 1 / 2⟩⟩ : Obj ℝ)
    [Op.damageSum Variant.own [(150, 10)], Op.lifetimeMultiple [(150, 10)], Op.damageSum Variant.haibach [(80, 7)]]).2 =
    [Op.damageSum Variant.own [(150, 10)], Op.lifetimeMultiple [(150, 10)], Op.damageSum Variant.haibach [(80, 7)]].map
      (fun op => (step (fun x => x) ⟨Kind.fatigue, ⟨5, Woehler.Life.inf, 100, 1000000, 1, 1, 1 / 2⟩⟩ op).2) :=
  (object_sequence_eq_fresh _ _ _).2

/-- the property on a USED object: after any sequence of earlier calls (other collectives, other methods) the Gassner
    cycles a Miner-elementary / Miner-Haibach object returns for `l` give damage one under its rule -/
theorem object_gassner_damage_one_after_any_history (ppf : ℝ → ℝ) (w : Woehler.Curve ℝ) (hTS : 0 < w.TS)
    (hTN : 0 < w.TN) (hSD : 0 < w.SD) (hND : 0 < w.ND) (l : Coll ℝ) (hl : ValidColl l) (hload : Loaded l)
    (pre : List (Op ℝ)) :
    (∃ NG, (run ppf ⟨Kind.elementary, w⟩ (pre ++ [Op.gassnerCycles l])).2.getLast? = some (some NG) ∧
      damageSumW ppf (Woehler.minerElementary w) (applyFor NG l) = 1) ∧
    (∃ NG, (run ppf ⟨Kind.haibach, w⟩ (pre ++ [Op.gassnerCycles l])).2.getLast? = some (some NG) ∧
      damageSumW ppf (Woehler.minerHaibach w) (applyFor NG l) = 1) := by
  have h := gassner_damage_one_native ppf w hTS hTN hSD hND l hl hload
  exact ⟨⟨_, object_answer_independent_of_history ppf _ pre _, h.1⟩,
         ⟨_, object_answer_independent_of_history ppf _ pre _, h.2⟩⟩

/-- non-vacuity: a curve given for 10 % with scatter, a collective with an empty top class, two earlier calls -/
example : ∃ NG : ℝ, (run (fun x => x) (⟨Kind.haibach, ⟨5, Woehler.Life.inf, 200, 1000000, 4, 5 / 4, 1 / 10⟩⟩ : Obj ℝ)
      ([Op.lifetimeMultiple [(300, 1), (40, 7)], Op.gassnerCycles [(20, 3)]] ++
        [Op.gassnerCycles [(150, 10), (80, 1000), (200, 0)]])).2.getLast? = some (some NG) ∧
    damageSumW (fun x => x) (Woehler.minerHaibach ⟨5, Woehler.Life.inf, 200, 1000000, 4, 5 / 4, 1 / 10⟩)
      (applyFor NG [(150, 10), (80, 1000), (200, 0)]) = 1 := by
  refine (object_gassner_damage_one_after_any_history (fun x => x) ⟨5, Woehler.Life.inf, 200, 1000000, 4, 5 / 4, 1 / 10⟩
    (by norm_num) (by norm_num) (by norm_num) (by norm_num) [(150, 10), (80, 1000), (200, 0)] ?_
    ⟨(150, 10), by simp, by norm_num, by norm_num⟩ _).2
  intro p hp
  simp only [List.mem_cons, List.not_mem_nil, or_false] at hp
  rcases hp with rfl | rfl | rfl <;> norm_num

/-! ## the code before the repair (findings F-3, F-10), refuted in the kernel.  Documentation of the two fixed
defects; NOT counted as proof obligations of the property (audit D11-6). -/

/-- F-3: with an empty top class the unrepaired `gassner_cycles` (largest amplitude of ALL classes) predicts
    a cycle number that gives damage 1/2, not 1 (curve `k_1 = 1, SD = ND = 1`, classes `(1, 1)` and the empty `(2, 0)`). -/
theorem gassner_unrepaired_fails_empty_top_class :
    gassnerCyclesOld (⟨1, none, 1, 1⟩ : Curve ℝ) [(1, 1), (2, 0)]
        (lifetimeMultipleElementary ⟨1, none, 1, 1⟩ [(1, 1), (2, 0)]) = some (1 / 2) ∧
    damageSum (minerElementary (⟨1, none, 1, 1⟩ : Curve ℝ)) (applyFor (1 / 2) [(1, 1), (2, 0)]) = 1 / 2 := by
  have hocc : occupied ([(1, 1), (2, 0)] : Coll ℝ) = [(1, 1)] := by
    simp [occupied, List.filter, zero_lit]
  have hmo : maxOcc ([(1, 1), (2, 0)] : Coll ℝ) = 1 := by simp [maxOcc, hocc, maxL]
  have hma : maxAll ([(1, 1), (2, 0)] : Coll ℝ) = 2 := by simp [maxAll, maxL]
  have htot : total ([(1, 1), (2, 0)] : Coll ℝ) = 1 := by simp [total, sumL, zero_lit]
  constructor
  · simp [gassnerCyclesOld, cycles, hma, basquin, lifetimeMultipleElementary, solidityHaibach, hmo, htot,
      sumL, zero_lit, one_lit, Real.rpow_neg_one]
  · simp [damageSum, damage, damageTerm, cycles, minerElementary, applyFor, scaleCounts, htot, basquin, sumL,
      zero_lit, Real.rpow_neg_one]

/-- F-10 (default `k_2 = ∞`): when every amplitude is below `SD` the unrepaired `gassner_cycles` is `inf`
    for both rules, although Miner-elementary and Miner-Haibach give a finite life. -/
theorem gassner_unrepaired_infinite_below_SD (c : Curve ℝ) (l : Coll ℝ) (A : ℝ) (hk : c.k2 = none)
    (hbelow : maxAll l < c.SD) : gassnerCyclesOld c l A = none := by
  simp [gassnerCyclesOld, cycles, hbelow, hk]

example : maxAll ([(1, 1), (2, 3)] : Coll ℝ) < (⟨5, none, 4, 1⟩ : Curve ℝ).SD := by
  simp [maxAll, maxL]; norm_num

end PylifeVerif.C11
