/-
C11 - Miner damage is linear and agrees with the predicted Gassner lifetime.  Property theorems only
(helper lemmas: Proofs/Lemmas/Miner.lean, Proofs/Lemmas/MinerHard.lean; model: Model/Miner.lean).

All statements are over ℝ (`Transc.pow = Real.rpow`, `x / 0 = 0`, `0 ^ (-k) = 0`).  Preconditions:
  * `ValidCurve c`  : `0 < SD`, `0 < ND`          (the code divides by both)
  * `ValidColl l`   : amplitudes and counts `≥ 0` (a negative amplitude is NaN in `np.power`)
  * `Loaded l`      : some occupied class has a positive amplitude (otherwise `S[hi > 0].max()` is NaN or 0 and the
                      code returns NaN/inf; there is no lifetime to predict)
The linearity theorems need none of them.  An amplitude of exactly 0 is covered: the code gets `N = inf`, damage 0;
the real-number model gets `N = 0`, `n / 0 = 0` - the same damage.
-/
import Proofs.Lemmas.MinerHard

set_option linter.unusedSimpArgs false

namespace PylifeVerif.C11
open PylifeVerif PylifeVerif.Miner

/-! ## damage is additive, proportional to the counts, independent of the member order -/

/-- additive over the members: the damage of two collectives put together is the sum of their damages -/
theorem damage_additive (c : Curve ℝ) (a b : Coll ℝ) :
    damageSum c (a ++ b) = damageSum c a + damageSum c b := by
  simp [damageSum_eq]

/-- ... and class by class the values of `Fatigue.damage` are those of the parts -/
theorem damage_classwise_append (c : Curve ℝ) (a b : Coll ℝ) :
    damage c (a ++ b) = damage c a ++ damage c b := by
  simp [damage]

example : damageSum (⟨1, none, 1, 1⟩ : Curve ℝ) ([(2, 3)] ++ [(4, 5)]) =
    damageSum ⟨1, none, 1, 1⟩ [(2, 3)] + damageSum ⟨1, none, 1, 1⟩ [(4, 5)] := damage_additive _ _ _

/-- proportional to the cycle counts (any real factor; no precondition) -/
theorem damage_scales_with_counts (c : Curve ℝ) (t : ℝ) (l : Coll ℝ) :
    damageSum c (scaleCounts t l) = t * damageSum c l := by
  rw [damageSum_eq, damageSum_eq, scaleCounts, List.map_map, ← List.sum_map_mul_left]
  congr 1
  apply List.map_congr_left
  intro p _
  simp only [Function.comp_apply, damageTerm]
  cases cycles c p.1 with
  | none => norm_num
  | some N => simp only []; ring

example : damageSum (⟨1, none, 1, 1⟩ : Curve ℝ) (scaleCounts 7 [(2, 3), (1/2, 9)]) =
    7 * damageSum ⟨1, none, 1, 1⟩ [(2, 3), (1/2, 9)] := damage_scales_with_counts _ _ _

/-- independent of the member order -/
theorem damage_perm_invariant (c : Curve ℝ) {l₁ l₂ : Coll ℝ} (h : l₁.Perm l₂) :
    damageSum c l₁ = damageSum c l₂ := by
  rw [damageSum_eq, damageSum_eq]
  exact (h.map _).sum_eq

example : damageSum (⟨5, some 9, 100, 1000000⟩ : Curve ℝ) [(150, 10), (80, 1000), (200, 0)] =
    damageSum ⟨5, some 9, 100, 1000000⟩ [(200, 0), (150, 10), (80, 1000)] :=
  damage_perm_invariant _ (List.perm_append_comm (l₁ := [(150, 10), (80, 1000)]) (l₂ := [(200, 0)]))

/-! ## original ≤ Haibach ≤ elementary (needs `k_1 ≥ 1`: for `k_1 < 1` the Haibach slope `2 k_1 - 1` is flatter than `k_1`) -/

/-- class by class: original ≤ Haibach ≤ elementary -/
theorem damage_order_termwise (c : Curve ℝ) (hc : ValidCurve c) (hk : 1 ≤ c.k1) (p : ℝ × ℝ)
    (hS : 0 ≤ p.1) (hn : 0 ≤ p.2) :
    damageTerm (minerOriginal c) p ≤ damageTerm (minerHaibach c) p ∧
    damageTerm (minerHaibach c) p ≤ damageTerm (minerElementary c) p := by
  have hSD := hc.SD_pos
  have hND := hc.ND_pos
  by_cases h : p.1 < c.SD
  · have hx0 : 0 ≤ p.1 / c.SD := div_nonneg hS hSD.le
    have hx1 : p.1 / c.SD ≤ 1 := by rw [div_le_one hSD]; exact h.le
    rw [damageTerm_original_lt c p h, damageTerm_haibach_lt c p h, damageTerm_elementary_lt c p h,
      div_basquin _ _ _ _ hx0, div_basquin _ _ _ _ hx0]
    constructor
    · exact div_nonneg (mul_nonneg hn (Real.rpow_nonneg hx0 _)) hND.le
    · apply div_le_div_of_nonneg_right _ hND.le
      apply mul_le_mul_of_nonneg_left _ hn
      exact Real.rpow_le_rpow_of_exponent_ge' hx0 hx1 (by linarith) (by linarith)
  · rw [damageTerm_ge (minerOriginal c) p h, damageTerm_ge (minerHaibach c) p h,
      damageTerm_ge (minerElementary c) p h]
    exact ⟨le_refl _, le_refl _⟩

theorem damage_order_original_le_haibach_le_elementary (c : Curve ℝ) (hc : ValidCurve c) (hk : 1 ≤ c.k1)
    (l : Coll ℝ) (hl : ValidColl l) :
    damageSum (minerOriginal c) l ≤ damageSum (minerHaibach c) l ∧
    damageSum (minerHaibach c) l ≤ damageSum (minerElementary c) l := by
  simp only [damageSum_eq]
  constructor
  · exact List.sum_le_sum fun p hp => (damage_order_termwise c hc hk p (hl p hp).1 (hl p hp).2).1
  · exact List.sum_le_sum fun p hp => (damage_order_termwise c hc hk p (hl p hp).1 (hl p hp).2).2

example : ValidCurve (⟨5, none, 100, 1000000⟩ : Curve ℝ) ∧ (1 : ℝ) ≤ (⟨5, none, 100, 1000000⟩ : Curve ℝ).k1 ∧
    ValidColl ([(150, 10), (80, 1000), (0, 5)] : Coll ℝ) := by
  refine ⟨⟨by norm_num, by norm_num⟩, by norm_num, ?_⟩
  intro p hp
  simp only [List.mem_cons, List.not_mem_nil, or_false] at hp
  rcases hp with rfl | rfl | rfl <;> norm_num

/-! ## Gassner cycles give damage one (repaired code: largest OCCUPIED amplitude, `k_1` line) -/

/-- Applying the collective for the Miner-elementary Gassner cycles gives damage 1 under the elementary rule,
    whichever classes are empty and wherever `SD` lies. -/
theorem gassner_elementary_damage_one (c : Curve ℝ) (hc : ValidCurve c) (l : Coll ℝ) (hl : ValidColl l)
    (hload : Loaded l) :
    damageSum (minerElementary c) (applyFor (gassnerCyclesElementary c l) l) = 1 := by
  have hM := maxOcc_pos hload
  have hT : 0 < total l := total_pos hl (by obtain ⟨p, hp, hp2, _⟩ := hload; exact ⟨p, hp, hp2⟩)
  have hE := esum_pos c.k1 l hl hload
  have hD : 0 < c.ND * (maxOcc l / c.SD) ^ (-c.k1) :=
    mul_pos hc.ND_pos (Real.rpow_pos_of_pos (div_pos hM hc.SD_pos) _)
  rw [applyFor, damageSum_elementary_scaleCounts c hc hM l hl]
  simp only [gassnerCyclesElementary, gassnerCycles, lifetimeMultipleElementary, solidityHaibach_eq,
    basquin, transc_pow, one_lit]
  field_simp
  exact div_self hD.ne'

/-- Applying the collective for the Miner-Haibach Gassner cycles gives damage 1 under the Haibach rule. -/
theorem gassner_haibach_damage_one (c : Curve ℝ) (hc : ValidCurve c) (l : Coll ℝ) (hl : ValidColl l)
    (hload : Loaded l) :
    damageSum (minerHaibach c) (applyFor (gassnerCyclesHaibach c l) l) = 1 := by
  have hM := maxOcc_pos hload
  have hT : 0 < total l := total_pos hl (by obtain ⟨p, hp, hp2, _⟩ := hload; exact ⟨p, hp, hp2⟩)
  have hH := hsum_pos c hc l hl hload
  have hD : 0 < c.ND * (maxOcc l / c.SD) ^ (-c.k1) :=
    mul_pos hc.ND_pos (Real.rpow_pos_of_pos (div_pos hM hc.SD_pos) _)
  rw [applyFor, damageSum_haibach_scaleCounts c hc hM l hl]
  simp only [gassnerCyclesHaibach, gassnerCycles, lifetimeMultipleHaibach,
    lifetimeMultipleHaibachAt_eq, basquin, transc_pow]
  field_simp
  exact div_self hD.ne'

/-- non-vacuity: the hypotheses are satisfiable on a collective straddling `SD` with an empty top class -/
example : ValidCurve (⟨5, none, 100, 1000000⟩ : Curve ℝ) ∧
    ValidColl ([(150, 10), (80, 1000), (200, 0), (0, 5)] : Coll ℝ) ∧
    Loaded ([(150, 10), (80, 1000), (200, 0), (0, 5)] : Coll ℝ) := by
  refine ⟨⟨by norm_num, by norm_num⟩, ?_, ⟨(150, 10), by simp, by norm_num, by norm_num⟩⟩
  intro p hp
  simp only [List.mem_cons, List.not_mem_nil, or_false] at hp
  rcases hp with rfl | rfl | rfl | rfl <;> norm_num

/-- `MinerElementary.gassner`: the shifted curve reads the Gassner cycles at the largest occupied amplitude
    (above and below `SD`; no precondition). -/
theorem gassner_curve_cycles (c : Curve ℝ) (l : Coll ℝ) :
    cycles (gassnerCurve c l) (maxOcc l) = some (gassnerCyclesElementary c l) := by
  unfold cycles gassnerCurve gassnerCyclesElementary gassnerCycles basquin
  split_ifs <;> simp only [Option.map_some, Option.some.injEq] <;> ring

/-- "scaled to any load level": both statements hold for the collective scaled by any `t > 0`. -/
theorem gassner_damage_one_at_any_level (c : Curve ℝ) (hc : ValidCurve c) (l : Coll ℝ) (hl : ValidColl l)
    (hload : Loaded l) (t : ℝ) (ht : 0 < t) :
    damageSum (minerElementary c) (applyFor (gassnerCyclesElementary c (scaleAmps t l)) (scaleAmps t l)) = 1 ∧
    damageSum (minerHaibach c) (applyFor (gassnerCyclesHaibach c (scaleAmps t l)) (scaleAmps t l)) = 1 :=
  ⟨gassner_elementary_damage_one c hc _ (validColl_scaleAmps hl ht) (loaded_scaleAmps hload ht),
   gassner_haibach_damage_one c hc _ (validColl_scaleAmps hl ht) (loaded_scaleAmps hload ht)⟩

/-! ## curves given for a native failure probability with scatter (`TN`, `TS`, `failure_probability`)

`Fatigue.damage`, `cycles()` and `gassner_cycles` evaluate the curve transformed to 50 % (`Model/Woehler.lean`,
`transform`; `ppf` = `scipy.stats.norm.ppf`, arbitrary here), `MinerHaibach.lifetime_multiple` (repaired) reads the
knee of that curve.  Every statement above therefore holds for such curves; the native parameters only have to be
positive. -/

/-- linearity for native curves: additive, proportional, order independent (no precondition) -/
theorem damage_linear_native (ppf : ℝ → ℝ) (w : Woehler.Curve ℝ) (a b : Coll ℝ) (t : ℝ) :
    damageSumW ppf w (a ++ b) = damageSumW ppf w a + damageSumW ppf w b ∧
    damageSumW ppf w (scaleCounts t a) = t * damageSumW ppf w a ∧
    (∀ a', a.Perm a' → damageSumW ppf w a = damageSumW ppf w a') :=
  ⟨damage_additive _ a b, damage_scales_with_counts _ t a, fun _ h => damage_perm_invariant _ h⟩

/-- original ≤ Haibach ≤ elementary for native curves -/
theorem damage_order_native (ppf : ℝ → ℝ) (w : Woehler.Curve ℝ) (hTS : 0 < w.TS) (hTN : 0 < w.TN)
    (hSD : 0 < w.SD) (hND : 0 < w.ND) (hk : 1 ≤ w.k1) (l : Coll ℝ) (hl : ValidColl l) :
    damageSumW ppf (Woehler.minerOriginal w) l ≤ damageSumW ppf (Woehler.minerHaibach w) l ∧
    damageSumW ppf (Woehler.minerHaibach w) l ≤ damageSumW ppf (Woehler.minerElementary w) l := by
  unfold damageSumW
  rw [at50_minerOriginal, at50_minerHaibach, at50_minerElementary]
  exact damage_order_original_le_haibach_le_elementary _ (validCurve_at50 ppf w hTS hTN hSD hND) hk l hl

/-- Gassner cycles give damage one, both rules, for every native failure probability and scatter -/
theorem gassner_damage_one_native (ppf : ℝ → ℝ) (w : Woehler.Curve ℝ) (hTS : 0 < w.TS) (hTN : 0 < w.TN)
    (hSD : 0 < w.SD) (hND : 0 < w.ND) (l : Coll ℝ) (hl : ValidColl l) (hload : Loaded l) :
    damageSumW ppf (Woehler.minerElementary w) (applyFor (gassnerCyclesElementaryW ppf w l) l) = 1 ∧
    damageSumW ppf (Woehler.minerHaibach w) (applyFor (gassnerCyclesHaibachW ppf w l) l) = 1 := by
  have hc := validCurve_at50 ppf w hTS hTN hSD hND
  unfold damageSumW
  rw [at50_minerElementary, at50_minerHaibach, gassnerCyclesElementaryW_eq, gassnerCyclesHaibachW_eq]
  exact ⟨gassner_elementary_damage_one _ hc l hl hload, gassner_haibach_damage_one _ hc l hl hload⟩

/-- `MinerElementary.gassner` on a native curve: the shifted curve, evaluated at 50 % like every curve, reads the
    Gassner cycles at the largest occupied amplitude (no precondition) -/
theorem gassner_curve_cycles_native (ppf : ℝ → ℝ) (w : Woehler.Curve ℝ) (l : Coll ℝ) :
    cycles (at50 ppf (gassnerCurveW w l)) (maxOcc l) = some (gassnerCyclesElementaryW ppf w l) := by
  rw [at50_gassnerCurveW]
  unfold cycles gassnerCyclesElementaryW gassnerCycles basquin
  split_ifs <;> simp only [Option.map_some, Option.some.injEq, at50_k1] <;> ring

example : (0 : ℝ) < (⟨5, Woehler.Life.inf, 200, 1000000, 4, 5 / 4, 1 / 10⟩ : Woehler.Curve ℝ).TS ∧
    (0 : ℝ) < (⟨5, Woehler.Life.inf, 200, 1000000, 4, 5 / 4, 1 / 10⟩ : Woehler.Curve ℝ).TN := by
  constructor <;> norm_num

/-! ## effective damage sum -/

/-- `effective_damage_sum(A)` lies in `[0.3, 1]` for every `A` (no precondition) -/
theorem effective_damage_sum_bounds (A : ℝ) :
    (3 / 10 : ℝ) ≤ effectiveDamageSum A ∧ effectiveDamageSum A ≤ 1 := by
  unfold effectiveDamageSum pyMin pyMax
  split_ifs <;> constructor <;> norm_num at * <;> linarith

example : (3 / 10 : ℝ) ≤ effectiveDamageSum (lifetimeMultipleElementary ⟨5, none, 100, 1000000⟩ [(150, 10), (80, 1000)]) :=
  (effective_damage_sum_bounds _).1

/-! ## the code before the repair (findings F-3, F-10), refuted in the kernel -/

/-- F-3: with an empty top class the unrepaired `gassner_cycles` (largest amplitude of ALL classes) predicts
    a cycle number that gives damage 1/2, not 1 (curve `k_1 = 1, SD = ND = 1`, classes `(1, 1)` and the empty `(2, 0)`). -/
theorem gassner_unrepaired_fails_empty_top_class :
    gassnerCyclesOld (⟨1, none, 1, 1⟩ : Curve ℝ) [(1, 1), (2, 0)]
        (lifetimeMultipleElementary ⟨1, none, 1, 1⟩ [(1, 1), (2, 0)]) = some (1 / 2) ∧
    damageSum (minerElementary (⟨1, none, 1, 1⟩ : Curve ℝ)) (applyFor (1 / 2) [(1, 1), (2, 0)]) = 1 / 2 := by
  have hocc : occupied ([(1, 1), (2, 0)] : Coll ℝ) = [(1, 1)] := by
    simp [occupied, List.filter, zero_lit]
  have hmo : maxOcc ([(1, 1), (2, 0)] : Coll ℝ) = 1 := by simp [maxOcc, hocc, maxL]
  have hma : maxAll ([(1, 1), (2, 0)] : Coll ℝ) = 2 := by simp [maxAll, maxL]
  have htot : total ([(1, 1), (2, 0)] : Coll ℝ) = 1 := by simp [total, sumL, zero_lit]
  constructor
  · simp [gassnerCyclesOld, cycles, hma, basquin, lifetimeMultipleElementary, solidityHaibach, hmo, htot,
      sumL, zero_lit, one_lit, Real.rpow_neg_one]
  · simp [damageSum, damage, damageTerm, cycles, minerElementary, applyFor, scaleCounts, htot, basquin, sumL,
      zero_lit, Real.rpow_neg_one]

/-- F-10 (default `k_2 = ∞`): when every amplitude is below `SD` the unrepaired `gassner_cycles` is `inf`
    for both rules, although Miner-elementary and Miner-Haibach give a finite life. -/
theorem gassner_unrepaired_infinite_below_SD (c : Curve ℝ) (l : Coll ℝ) (A : ℝ) (hk : c.k2 = none)
    (hbelow : maxAll l < c.SD) : gassnerCyclesOld c l A = none := by
  simp [gassnerCyclesOld, cycles, hbelow, hk]

example : maxAll ([(1, 1), (2, 3)] : Coll ℝ) < (⟨5, none, 4, 1⟩ : Curve ℝ).SD := by
  simp [maxAll, maxL]; norm_num

end PylifeVerif.C11
