/-
Corollaries that close the gaps between the C01–C03 theorems of the rainflow detectors and the full
text of the properties.

A (C01)  `recorder_chunk_local_index_addresses_sample`(`_threePoint`): the recorder's chunk
         bookkeeping maps every reported global index back to the chunk and the chunk-local position
         that holds the sample with the reported value.
B (C02)  `fourPoint_eq_spec_chunked`, `threePoint_eq_spec_chunked`, `fkm_eq_spec_chunked`: for EVERY
         chunking of a signal the detectors compute the declarative rule on the declarative turning
         points (plus partition / index validity for every chunking).
C (C03)  `fourPoint_insert_nonreversal`, `threePoint_insert_nonreversal`, `fkm_insert_nonreversal`
         (and `_chunked` forms): inserting a sample weakly between its neighbours changes nothing
         but the reported indices, which move by the explicit map `bump (insPos …)`.
D (C03)  `findTurns_eq_numpy`: the scan `findTurns` equals the literal transcription of the numpy
         formulation of `find_turns` (`findTurnsNumpy`) on every signal.
-/
import Proofs.Lemmas.RainflowCor
import Proofs.Lemmas.RainflowNumpy

namespace PylifeVerif
open Rainflow RainflowCor

/-! ## A (C01) -/
namespace C01
open C02 ThreePoint

/-- For every list `cs` of non-empty chunks and every point `p = (global index, value)` reported by
the four-point detector run on `cs` (an end point of a recorded cycle or a residual point, including
the last sample), `chunk_local_index` applied to the recorder's chunk sizes yields a chunk number
`k` and a position `j` such that `cs[k][j]` exists and is the reported value. -/
theorem recorder_chunk_local_index_addresses_sample (cs : List (List Int))
    (hne : ∀ c ∈ cs, c ≠ []) (h0 : cs ≠ []) :
    ∀ p ∈ ((fpRun cs).cycles.flatMap fun c => [c.1, c.2]) ++ residualPts (fpRun cs),
      ∃ c, cs[(chunkLocalIndex (fpRun cs).chunks p.1).1]? = some c ∧
        c[(chunkLocalIndex (fpRun cs).chunks p.1).2]? = some p.2 :=
  chunk_addresses cs hne h0

/-- the same for the three-point detector -/
theorem recorder_chunk_local_index_addresses_sample_threePoint (cs : List (List Int))
    (hne : ∀ c ∈ cs, c ≠ []) (h0 : cs ≠ []) :
    ∀ p ∈ ((tpRun cs).cycles.flatMap fun c => [c.1, c.2]) ++ residualPts (tpRun cs),
      ∃ c, cs[(chunkLocalIndex (tpRun cs).chunks p.1).1]? = some c ∧
        c[(chunkLocalIndex (tpRun cs).chunks p.1).2]? = some p.2 := by
  rw [tpRun_eq_fpRun]
  exact chunk_addresses cs hne h0

/-- every reported global index addresses the reported value in the concatenated signal, for every
chunking and also for one-sample signals (extends `C02.fourPoint_index_valid`) -/
theorem fourPoint_index_valid_chunked (cs : List (List Int))
    (hne : ∀ c ∈ cs, c ≠ []) (h0 : cs ≠ []) :
    ∀ p ∈ ((fpRun cs).cycles.flatMap fun c => [c.1, c.2]) ++ residualPts (fpRun cs),
      cs.flatten[p.1]? = some p.2 := by
  obtain ⟨hc, hr, _⟩ := fpRun_chunked cs hne h0
  rw [hc, hr]
  exact fourPoint_index_valid_ne cs.flatten (flatten_ne_nil cs hne h0)

end C01

/-! ## B (C02) -/
namespace C02
open C01 ThreePoint

/-- For every chunking `cs` (non-empty chunks) of a signal `s` with at least two samples, the cycles
(in order of detection) and the residual points of the four-point detector are those of the textbook
four-point rule on the declarative turning-point sequence of `s`. -/
theorem fourPoint_eq_spec_chunked (s : List Int) (cs : List (List Int)) (hcs : cs.flatten = s)
    (hne : ∀ c ∈ cs, c ≠ []) (h : 2 ≤ s.length) :
    ((fpRun cs).cycles, residualPts (fpRun cs)) = Spec.fourPoint (Spec.turningPoints s) := by
  have h0 : cs ≠ [] := cs_ne_nil_of_flatten cs s hcs (by intro e; rw [e] at h; simp at h)
  obtain ⟨hc, hr, _⟩ := fpRun_chunked cs hne h0
  rw [hc, hr, hcs]
  exact fourPoint_eq_spec s h

theorem threePoint_eq_spec_chunked (s : List Int) (cs : List (List Int)) (hcs : cs.flatten = s)
    (hne : ∀ c ∈ cs, c ≠ []) (h : 2 ≤ s.length) :
    ((tpRun cs).cycles, residualPts (tpRun cs)) = Spec.fourPoint (Spec.turningPoints s) := by
  rw [tpRun_eq_fpRun]
  exact fourPoint_eq_spec_chunked s cs hcs hne h

/-- For every chunking of a signal `s` the FKM detector computes the Clormann–Seeger HCM rule on the
values of the declarative reversals of `s`. -/
theorem fkm_eq_spec_chunked (s : List Int) (cs : List (List Int)) (hcs : cs.flatten = s)
    (hne : ∀ c ∈ cs, c ≠ []) :
    ((fkmRun cs).cycles, (fkmRun cs).res) =
      ((Spec.hcm ((Spec.reversals s).map (·.2))).cycles, (Spec.hcm ((Spec.reversals s).map (·.2))).res) := by
  rw [fkm_chunk_independent cs hne, hcs]
  exact fkm_eq_spec s

/-- cycles and residual partition the turning points, for every chunking -/
theorem fourPoint_partition_chunked (s : List Int) (cs : List (List Int)) (hcs : cs.flatten = s)
    (hne : ∀ c ∈ cs, c ≠ []) (h : 2 ≤ s.length) :
    (((fpRun cs).cycles.flatMap fun c => [c.1, c.2]) ++ residualPts (fpRun cs)).Perm
      (Spec.turningPoints s) := by
  have h0 : cs ≠ [] := cs_ne_nil_of_flatten cs s hcs (by intro e; rw [e] at h; simp at h)
  obtain ⟨hc, hr, _⟩ := fpRun_chunked cs hne h0
  rw [hc, hr, hcs]
  exact fourPoint_partition s h

theorem fkm_partition_chunked (s : List Int) (cs : List (List Int)) (hcs : cs.flatten = s)
    (hne : ∀ c ∈ cs, c ≠ []) :
    (((fkmRun cs).cycles.flatMap fun c => [c.1, c.2]) ++ (fkmRun cs).res).Perm
      ((Spec.reversals s).map (·.2)) := by
  rw [fkm_chunk_independent cs hne, hcs]
  exact fkm_partition s

end C02

/-! ## C (C03) -/
namespace C03
open C01 C02 ThreePoint HCM.Insert

/-- `find_turns`: the turning points of `s' = pre ++ x :: v :: y :: post` (with `v` weakly between
`x` and `y`) are those of `s = pre ++ x :: y :: post` with the indices moved by
`bumpN k j = if j < k then j else j + 1`, `k = insPos pre v y post`. -/
theorem findTurns_insert_nonreversal_index (pre post : List Int) (x y v : Int)
    (hv : (x ≤ v ∧ v ≤ y) ∨ (y ≤ v ∧ v ≤ x)) :
    findTurns (pre ++ x :: v :: y :: post) =
      (findTurns (pre ++ x :: y :: post)).map (bump (insPos pre v y post)) :=
  findTurns_insert_bump pre post x y v hv

/-- The index map in words: reported positions up to `x` (`j ≤ |pre|`) stay, positions behind `y`
(`j > |pre| + 1`) move by one, and the position of `y` itself (`j = |pre| + 1`) moves by one EXCEPT
when `v = y` and `y` is not the last sample: then `v` takes over as the first sample of the plateau
`v, y` and sits at the old position of `y`. -/
theorem insert_index_map (pre post : List Int) (v y : Int) (j : Nat) :
    (j ≤ pre.length → bumpN (insPos pre v y post) j = j) ∧
    (pre.length + 1 < j → bumpN (insPos pre v y post) j = j + 1) ∧
    (j = pre.length + 1 → bumpN (insPos pre v y post) j = if v = y ∧ post ≠ [] then j else j + 1) :=
  bumpN_insPos pre post v y j

/-- **The four-point closing rule looks at values only.**  Feeding two point lists with pairwise
equal values and arbitrary indices (`R p q → p.2 = q.2`) into two stacks that correspond in the same
way yields cycle lists and stacks that correspond point by point. -/
theorem fpFeed_values_only (R : Pt → Pt → Prop) (hR : ∀ p q, R p q → p.2 = q.2)
    (ps ps' st st' : List Pt) (hps : List.Forall₂ R ps ps') (hst : List.Forall₂ R st st') :
    List.Forall₂ (fun c c' => R c.1 c'.1 ∧ R c.2 c'.2) (fpFeed st ps).1 (fpFeed st' ps').1 ∧
      List.Forall₂ R (fpFeed st ps).2 (fpFeed st' ps').2 :=
  fpFeed_rel R hR ps ps' hps st st' hst

/-- **Refinement insensitivity of the four-point detector.**  For `s = pre ++ x :: y :: post` and
`s' = pre ++ x :: v :: y :: post` with `v` weakly between `x` and `y`, and for arbitrary chunkings
`cs` of `s` and `cs'` of `s'`: the cycles (in order) and the residual points (incl. last sample) of
the run on `s'` are those of the run on `s` with every point `(i, value)` replaced by
`(bumpN (insPos pre v y post) i, value)`. -/
theorem fourPoint_insert_nonreversal_chunked (pre post : List Int) (x y v : Int)
    (hv : (x ≤ v ∧ v ≤ y) ∨ (y ≤ v ∧ v ≤ x)) (cs cs' : List (List Int))
    (hcs : cs.flatten = pre ++ x :: y :: post) (hcs' : cs'.flatten = pre ++ x :: v :: y :: post)
    (hne : ∀ c ∈ cs, c ≠ []) (hne' : ∀ c ∈ cs', c ≠ []) :
    (fpRun cs').cycles = (fpRun cs).cycles.map (mapC (bump (insPos pre v y post))) ∧
      residualPts (fpRun cs') = (residualPts (fpRun cs)).map (bump (insPos pre v y post)) := by
  obtain ⟨hc, hr, _⟩ := fpRun_chunked cs hne (cs_ne_nil_of_flatten cs _ hcs (by simp))
  obtain ⟨hc', hr', _⟩ := fpRun_chunked cs' hne' (cs_ne_nil_of_flatten cs' _ hcs' (by simp))
  rw [hc, hr, hc', hr', hcs, hcs']
  exact fp_insert_single pre post x y v hv

/-- one-piece form -/
theorem fourPoint_insert_nonreversal (pre post : List Int) (x y v : Int)
    (hv : (x ≤ v ∧ v ≤ y) ∨ (y ≤ v ∧ v ≤ x)) :
    (fpRun [pre ++ x :: v :: y :: post]).cycles =
        (fpRun [pre ++ x :: y :: post]).cycles.map (mapC (bump (insPos pre v y post))) ∧
      residualPts (fpRun [pre ++ x :: v :: y :: post]) =
        (residualPts (fpRun [pre ++ x :: y :: post])).map (bump (insPos pre v y post)) :=
  fp_insert_single pre post x y v hv

/-- value form: same cycle values (from, to) in the same order, same `residuals` -/
theorem fourPoint_insert_nonreversal_values (pre post : List Int) (x y v : Int)
    (hv : (x ≤ v ∧ v ≤ y) ∨ (y ≤ v ∧ v ≤ x)) (cs cs' : List (List Int))
    (hcs : cs.flatten = pre ++ x :: y :: post) (hcs' : cs'.flatten = pre ++ x :: v :: y :: post)
    (hne : ∀ c ∈ cs, c ≠ []) (hne' : ∀ c ∈ cs', c ≠ []) :
    (fpRun cs').cycles.map (fun c => (c.1.2, c.2.2)) = (fpRun cs).cycles.map (fun c => (c.1.2, c.2.2)) ∧
      (fpRun cs').residuals = (fpRun cs).residuals := by
  obtain ⟨h1, h2⟩ := fourPoint_insert_nonreversal_chunked pre post x y v hv cs cs' hcs hcs' hne hne'
  rw [residuals_eq_map, residuals_eq_map, h1, h2]
  simp [mapC, bump, Function.comp_def]

theorem threePoint_insert_nonreversal_chunked (pre post : List Int) (x y v : Int)
    (hv : (x ≤ v ∧ v ≤ y) ∨ (y ≤ v ∧ v ≤ x)) (cs cs' : List (List Int))
    (hcs : cs.flatten = pre ++ x :: y :: post) (hcs' : cs'.flatten = pre ++ x :: v :: y :: post)
    (hne : ∀ c ∈ cs, c ≠ []) (hne' : ∀ c ∈ cs', c ≠ []) :
    (tpRun cs').cycles = (tpRun cs).cycles.map (mapC (bump (insPos pre v y post))) ∧
      residualPts (tpRun cs') = (residualPts (tpRun cs)).map (bump (insPos pre v y post)) := by
  rw [tpRun_eq_fpRun, tpRun_eq_fpRun]
  exact fourPoint_insert_nonreversal_chunked pre post x y v hv cs cs' hcs hcs' hne hne'

theorem threePoint_insert_nonreversal (pre post : List Int) (x y v : Int)
    (hv : (x ≤ v ∧ v ≤ y) ∨ (y ≤ v ∧ v ≤ x)) :
    (tpRun [pre ++ x :: v :: y :: post]).cycles =
        (tpRun [pre ++ x :: y :: post]).cycles.map (mapC (bump (insPos pre v y post))) ∧
      residualPts (tpRun [pre ++ x :: v :: y :: post]) =
        (residualPts (tpRun [pre ++ x :: y :: post])).map (bump (insPos pre v y post)) := by
  rw [tpRun_eq_fpRun, tpRun_eq_fpRun]
  exact fp_insert_single pre post x y v hv

/-- **Refinement insensitivity of the FKM detector** (it reports values only): closed cycles,
residuals, `ir` and the running maximum do not change, for arbitrary chunkings of both signals. -/
theorem fkm_insert_nonreversal_chunked (pre post : List Int) (x y v : Int)
    (hv : (x ≤ v ∧ v ≤ y) ∨ (y ≤ v ∧ v ≤ x)) (cs cs' : List (List Int))
    (hcs : cs.flatten = pre ++ x :: y :: post) (hcs' : cs'.flatten = pre ++ x :: v :: y :: post)
    (hne : ∀ c ∈ cs, c ≠ []) (hne' : ∀ c ∈ cs', c ≠ []) :
    (fkmRun cs').cycles = (fkmRun cs).cycles ∧ (fkmRun cs').res = (fkmRun cs).res ∧
      (fkmRun cs').ir = (fkmRun cs).ir ∧ (fkmRun cs').maxTurn = (fkmRun cs).maxTurn := by
  obtain ⟨a1, a2, a3, a4⟩ := fkmRun_vals cs hne
  obtain ⟨b1, b2, b3, b4⟩ := fkmRun_vals cs' hne'
  rw [a1, a2, a3, a4, b1, b2, b3, b4, hcs, hcs', findTurns_insert_nonreversal pre post x y v hv]
  exact ⟨rfl, rfl, rfl, rfl⟩

theorem fkm_insert_nonreversal (pre post : List Int) (x y v : Int)
    (hv : (x ≤ v ∧ v ≤ y) ∨ (y ≤ v ∧ v ≤ x)) :
    (fkmRun [pre ++ x :: v :: y :: post]).cycles = (fkmRun [pre ++ x :: y :: post]).cycles ∧
      (fkmRun [pre ++ x :: v :: y :: post]).res = (fkmRun [pre ++ x :: y :: post]).res ∧
      (fkmRun [pre ++ x :: v :: y :: post]).ir = (fkmRun [pre ++ x :: y :: post]).ir ∧
      (fkmRun [pre ++ x :: v :: y :: post]).maxTurn = (fkmRun [pre ++ x :: y :: post]).maxTurn :=
  fkm_insert_nonreversal_chunked pre post x y v hv _ _ (by simp) (by simp) (by simp) (by simp)

/-! ### D: the numpy formulation of `find_turns` -/

/-- **The scan equals the numpy formulation.**  `findTurnsNumpy` is the literal transcription of
`find_turns` (differences, peak turns by the product of the SIGNS of neighbouring differences - the code as repaired by c6242ee;
`findTurnsNumpyProd`, the product of the differences themselves, is the formulation before the repair and equal over the integers -, plateau
turns by matching the start and end edges of the zero-difference pattern with the `cut_ends` /
`cut_starts` rules); it reports exactly the points of the scan `findTurns`, on every signal. -/
theorem findTurns_eq_numpy (s : List Int) : findTurns s = findTurnsNumpy s := by
  rw [findTurns_eq_revList, Numpy.findTurnsNumpy_eq_revList]

/-- the numpy formulation computes the declarative reversals -/
theorem findTurnsNumpy_eq_reversals (s : List Int) : findTurnsNumpy s = Spec.reversals s := by
  rw [← findTurns_eq_numpy, findTurns_eq_reversals]

end C03

/-! ## Non-vacuity / sanity -/

-- D: leading plateau (`cut_ends`), plateau turn, plateau without turn, peak turns, trailing plateau
-- (`cut_starts`)
example : findTurnsNumpy [1, 1, 3, 3, 2, 2, 0, 4, 1, 1] = [(2, 3), (6, 0), (7, 4)] := by decide +kernel
example : findTurns [1, 1, 3, 3, 2, 2, 0, 4, 1, 1] = [(2, 3), (6, 0), (7, 4)] := by decide

-- A: the cycle end point (4, 2) lies in chunk 1 at position 1, the last sample (7, 4) in chunk 2 at 2
example := C01.recorder_chunk_local_index_addresses_sample [[0, 3, 3], [1, 2], [2, -1, 4]]
  (by decide) (by decide)
example : (fpRun [[0, 3, 3], [1, 2], [2, -1, 4]]).chunks = [3, 2, 3] := by decide +kernel
example : chunkLocalIndex [3, 2, 3] 4 = (1, 1) ∧ chunkLocalIndex [3, 2, 3] 7 = (2, 2) := by decide
-- one-sample signal
example := C01.recorder_chunk_local_index_addresses_sample [[5]] (by decide) (by decide)

-- B
example := C02.fourPoint_eq_spec_chunked [0, 5, 5, 2, 4, 4, 1, 6, 6, 0] [[0, 5, 5, 2], [4, 4, 1, 6], [6, 0]]
  (by decide) (by decide) (by decide)
example := C02.fkm_eq_spec_chunked [3, -3, 3, -2, 4, -4, 5] [[3, -3], [3, -2, 4], [-4, 5]]
  (by decide) (by decide)

-- C: the exception is real: `v = y = 2` takes over as first sample of the plateau; the reversal
-- stays at index 1 although it lies behind the insertion point
example : findTurns ([] ++ 0 :: 2 :: 1 :: []) = [(1, 2)] ∧
    findTurns ([] ++ 0 :: 2 :: 2 :: 1 :: []) = [(1, 2)] ∧ RainflowCor.insPos [] 2 2 [1] = 2 := by decide
-- ordinary case: strictly between, indices behind the insertion point move
example : findTurns ([0] ++ 3 :: 1 :: [2]) = [(1, 3), (2, 1)] ∧
    findTurns ([0] ++ 3 :: 2 :: 1 :: [2]) = [(1, 3), (3, 1)] ∧ RainflowCor.insPos [0] 2 1 [2] = 2 := by decide
example := C03.fourPoint_insert_nonreversal [0, 5] [4, 1, 6, 0] 2 4 4 (by decide)
example : (fpRun [[0, 5] ++ 2 :: 4 :: [4, 1, 6, 0]]).cycles = [((2, 2), (3, 4)), ((1, 5), (5, 1))] := by
  decide +kernel
example : (fpRun [[0, 5] ++ 2 :: 4 :: 4 :: [4, 1, 6, 0]]).cycles = [((2, 2), (3, 4)), ((1, 5), (6, 1))] := by
  decide +kernel

end PylifeVerif

section AxiomCheck
open PylifeVerif
#print axioms C01.recorder_chunk_local_index_addresses_sample
#print axioms C01.recorder_chunk_local_index_addresses_sample_threePoint
#print axioms C01.fourPoint_index_valid_chunked
#print axioms C02.fourPoint_eq_spec_chunked
#print axioms C02.threePoint_eq_spec_chunked
#print axioms C02.fkm_eq_spec_chunked
#print axioms C02.fourPoint_partition_chunked
#print axioms C02.fkm_partition_chunked
#print axioms C03.findTurns_insert_nonreversal_index
#print axioms C03.insert_index_map
#print axioms C03.fpFeed_values_only
#print axioms C03.fourPoint_insert_nonreversal_chunked
#print axioms C03.fourPoint_insert_nonreversal
#print axioms C03.fourPoint_insert_nonreversal_values
#print axioms C03.threePoint_insert_nonreversal_chunked
#print axioms C03.threePoint_insert_nonreversal
#print axioms C03.fkm_insert_nonreversal_chunked
#print axioms C03.fkm_insert_nonreversal
#print axioms C03.findTurns_eq_numpy
#print axioms C03.findTurnsNumpy_eq_reversals
end AxiomCheck
