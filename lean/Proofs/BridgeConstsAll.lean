/-
Bridge for the WHOLE constants table of `src/pylife/strength/fkm_nonlinear/constants.py`: the generated copy
(Generated/FkmConstants.lean, regenerated from the current source) equals the hand model `FkmNl.consts` entry by entry, and
no key of the source is left out.  C09 uses only `Bridge.constants_eq_c09` (the keys C09 reads); the remaining keys are read
by the assessment model (`Model/Assessment.lean`, property C10), which should list this module.
-/
import Proofs.BridgeC09

set_option linter.unusedTactic false
set_option linter.unreachableTactic false
set_option linter.unusedVariables false
set_option linter.unnecessarySeqFocus false
set_option linter.unusedSimpArgs false

namespace PylifeVerif.Bridge
open PylifeVerif PylifeVerif.FkmNl

/-- the generated copy of `all_constants` (what `constants.py` says now) is the hand model's table, entry by entry -/
theorem constants_eq (g : Group) :
    constKeys.map (entry Generated.all_constants (groupName g)) = (consts g : Consts ℝ).toList := by
  cases g <;>
    simp [constKeys, groupName, entry, Generated.all_constants, consts, Consts.toList, List.lookup] <;>
    norm_num

/-- … and every key of the source table is one of these keys (no entry of the source is left out of the comparison) -/
theorem constants_keys_complete (g : Group) :
    ((Generated.all_constants (α := ℝ)).lookup (groupName g)).map
      (fun rows => (rows.map Prod.fst).all (fun k => constKeys.contains k)) = some true := by
  cases g <;> simp [groupName, Generated.all_constants, List.lookup, constKeys]

end PylifeVerif.Bridge
