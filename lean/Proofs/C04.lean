/- C04: second HCM pass = steady-state hystereses of the repeated sequence. -/
import Model.HCMSpec
import Proofs.C04Basic
import Proofs.C04Periodic
import Proofs.C04Insert
import Proofs.C04Pass2
import Proofs.C04Code
import Proofs.C04InsertCode
