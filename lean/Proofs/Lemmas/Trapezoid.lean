/-
The model's list trapezoid (`np.trapezoid`) versus Mathlib's `trapezoidal_integral` (property C15,
`pf_arbitrary_load`): identification on uniform nodes, error bound, convergence under refinement.
-/
import Proofs.RealNum
import Model.FailureProb
import Mathlib.MeasureTheory.Integral.IntervalIntegral.TrapezoidalRule
import Mathlib.Analysis.SpecificLimits.Basic

namespace PylifeVerif.TrapezoidLemmas

open PylifeVerif.FailureProb

/-- the uniform nodes a + k (b-a)/N, k = 0..N -/
noncomputable def uniformNodes (a b : ℝ) (N : ℕ) : List ℝ :=
  (List.range (N + 1)).map fun k : ℕ => a + (k : ℝ) * (b - a) / N

theorem trapezoid_range' (x y : ℕ → ℝ) (n i : ℕ) :
    trapezoid ((List.range' i (n + 1)).map fun k => (x k, y k))
      = ∑ k ∈ Finset.range n, (x (i + k + 1) - x (i + k)) * (y (i + k + 1) + y (i + k)) / 2 := by
  induction n generalizing i with
  | zero => simp [List.range'_succ, trapezoid]; norm_num
  | succ n ih =>
    have h := ih (i + 1)
    rw [List.range'_succ] at h
    rw [List.range'_succ, List.range'_succ, List.map_cons, List.map_cons, trapezoid,
      ← List.map_cons (f := fun k => (x k, y k)), h, Finset.sum_range_succ', add_comm]
    congr 1
    · apply Finset.sum_congr rfl
      intro k _
      have e1 : i + 1 + k + 1 = i + (k + 1) + 1 := by omega
      have e2 : i + 1 + k = i + (k + 1) := by omega
      rw [e1, e2]
    · norm_num

/-- the model's list trapezoid on arbitrary nodes x 0, …, x n is the sum of the single trapezoids -/
theorem trapezoid_range (x y : ℕ → ℝ) (n : ℕ) :
    trapezoid ((List.range (n + 1)).map fun k => (x k, y k))
      = ∑ k ∈ Finset.range n, (x (k + 1) - x k) * (y (k + 1) + y k) / 2 := by
  rw [List.range_eq_range', trapezoid_range']
  simp

/-- on uniform nodes it is Mathlib's `trapezoidal_integral` -/
theorem trapezoid_uniform (g : ℝ → ℝ) (a b : ℝ) {N : ℕ} (hN : 0 < N) :
    trapezoid ((uniformNodes a b N).map fun x => (x, g x)) = trapezoidal_integral g N a b := by
  have hN' : (N : ℝ) ≠ 0 := by exact_mod_cast hN.ne'
  have hb : a + (N : ℝ) * ((b - a) / N) = b := by field_simp; ring
  have key := sum_trapezoidal_integral_adjacent_intervals (f := g) (N := N) (a := a)
    (h := (b - a) / N) hN
  rw [hb] at key
  rw [← key, uniformNodes, List.map_map]
  have := trapezoid_range (fun k : ℕ => a + (k : ℝ) * (b - a) / N)
    (fun k : ℕ => g (a + (k : ℝ) * (b - a) / N)) N
  simp only [Function.comp_def]
  rw [this]
  apply Finset.sum_congr rfl
  intro k _
  rw [trapezoidal_integral_one]
  push_cast
  simp only [mul_div_assoc]
  ring

theorem pfArbitraryLoad_uniform (Φ pdf : ℝ → ℝ) (sm ss a b : ℝ) {N : ℕ} (hN : 0 < N) :
    pfArbitraryLoad Φ sm ss ((uniformNodes a b N).map fun x => (x, pdf x))
      = trapezoidal_integral (fun x => pdf x * normCdf Φ x (Transc.log10 sm) ss) N a b := by
  rw [← trapezoid_uniform (fun x => pdf x * normCdf Φ x (Transc.log10 sm) ss) a b hN,
    pfArbitraryLoad, List.map_map]
  rfl

/-- error bound (second-order convergence) for a C² integrand -/
theorem pfArbitraryLoad_error_le (Φ pdf : ℝ → ℝ) (sm ss a b : ℝ)
    (hc2 : ContDiffOn ℝ 2 (fun x => pdf x * normCdf Φ x (Transc.log10 sm) ss) (Set.uIcc a b))
    {ζ : ℝ}
    (hζ : ∀ x, |iteratedDerivWithin 2 (fun x => pdf x * normCdf Φ x (Transc.log10 sm) ss)
      (Set.uIcc a b) x| ≤ ζ)
    {N : ℕ} (hN : 0 < N) :
    |pfArbitraryLoad Φ sm ss ((uniformNodes a b N).map fun x => (x, pdf x))
        - ∫ x in a..b, pdf x * normCdf Φ x (Transc.log10 sm) ss|
      ≤ |b - a| ^ 3 * ζ / (12 * N ^ 2) := by
  rw [pfArbitraryLoad_uniform Φ pdf sm ss a b hN]
  exact trapezoidal_error_le_of_c2 hc2 hζ hN

/-- convergence under refinement -/
theorem pfArbitraryLoad_tendsto (Φ pdf : ℝ → ℝ) (sm ss a b : ℝ)
    (hc2 : ContDiffOn ℝ 2 (fun x => pdf x * normCdf Φ x (Transc.log10 sm) ss) (Set.uIcc a b))
    {ζ : ℝ}
    (hζ : ∀ x, |iteratedDerivWithin 2 (fun x => pdf x * normCdf Φ x (Transc.log10 sm) ss)
      (Set.uIcc a b) x| ≤ ζ) :
    Filter.Tendsto
      (fun N : ℕ => pfArbitraryLoad Φ sm ss ((uniformNodes a b N).map fun x => (x, pdf x)))
      Filter.atTop (nhds (∫ x in a..b, pdf x * normCdf Φ x (Transc.log10 sm) ss)) := by
  rw [tendsto_iff_dist_tendsto_zero]
  have hlim : Filter.Tendsto (fun N : ℕ => |b - a| ^ 3 * ζ / (12 * (N : ℝ) ^ 2))
      Filter.atTop (nhds 0) := by
    have h1 : Filter.Tendsto (fun N : ℕ => (12 * (N : ℝ) ^ 2)) Filter.atTop Filter.atTop := by
      apply Filter.Tendsto.const_mul_atTop (by norm_num)
      exact (Filter.tendsto_pow_atTop (two_ne_zero)).comp tendsto_natCast_atTop_atTop
    exact h1.const_div_atTop _
  refine squeeze_zero' (Filter.Eventually.of_forall fun _ => dist_nonneg) ?_ hlim
  filter_upwards [Filter.eventually_gt_atTop 0] with N hN
  rw [Real.dist_eq]
  exact pfArbitraryLoad_error_le Φ pdf sm ss a b hc2 hζ hN

/-- non-vacuity: three concrete (non-uniform) nodes -/
example : trapezoid [((0 : ℝ), (1 : ℝ)), (1, 3), (3, 2)] = 7 := by
  norm_num [trapezoid]

/-- non-vacuity of the uniform identification: `g = id` on `[0, 2]` with two trapezoids -/
example : trapezoid ((uniformNodes 0 2 2).map fun x => (x, x)) = 2 := by
  rw [trapezoid_uniform (fun x => x) 0 2 (by norm_num)]
  norm_num [trapezoidal_integral]

/-- non-vacuity of the hypotheses of the error bound (constant integrand, `ζ = 0`: the rule is exact) -/
example {N : ℕ} (hN : 0 < N) :
    |pfArbitraryLoad (fun _ => 1 / 2) 1 1 ((uniformNodes 0 1 N).map fun x => (x, (1 : ℝ)))
        - ∫ x in (0 : ℝ)..1, (1 : ℝ) * normCdf (fun _ => 1 / 2) x (Transc.log10 1) 1|
      ≤ |(1 : ℝ) - 0| ^ 3 * 0 / (12 * N ^ 2) :=
  pfArbitraryLoad_error_le (fun _ => 1 / 2) (fun _ => 1) 1 1 0 1
    (by simp only [normCdf]; exact contDiffOn_const)
    (by intro x; simp [normCdf, iteratedDerivWithin_const]) hN

end PylifeVerif.TrapezoidLemmas
