/-
Common upstream module of all HCM lemma files.  Its only purpose is to make Lean generate the
auxiliary declarations (functional induction principles, equation / match-congruence lemmas) of
`HCM.processSample` and `HCM.Spec.gStep` ONCE, here, so that independent lemma files that are later
imported together do not each generate (and then clash on) their own copies.
-/
import Model.HCMSpec

namespace PylifeVerif.HCM.Common
open PylifeVerif.HCM

/-- `processSample` never changes the load of the returned point. -/
theorem processSample_load (law : Law) (load : Vec) (fuel : Nat) (st : State) :
    (processSample law load fuel st).2.load = load := by
  fun_induction processSample law load fuel st <;> first | rfl | assumption

/-- `gStep` never changes the load of the returned point. -/
theorem gStep_load (law : Law) (run : Nat) (l : Int) (fuel : Nat) (st : Spec.GState) :
    (Spec.gStep law run l fuel st).2.load = l := by
  fun_induction Spec.gStep law run l fuel st <;> first | rfl | assumption

end PylifeVerif.HCM.Common
