/-
Helper lemmas for C04 (`periodicRainflow`): the four-point rule as a rewriting system on strictly
alternating words.

* `Step w e w'`: remove an inner pair `c b` of a window `d c b a` of `w` that satisfies the
  four-point condition, emitting `e = (min b c, max b c)`.  `Steps`: several steps.
* `Step.diamond`: on alternating words two different steps commute (or coincide) – hence normal forms
  and the multiset of emitted cycles are unique (`nf_unique`).
* `reduce4v` / the fold of `periodicRainflow` compute a normal form (`run_steps`, `run_irred`).
* `collapse`: an irreducible alternating word that starts and ends at an element of largest
  absolute value has at most three elements.
* `core`: the closed words of a cyclic alternating word started at two positions of largest
  absolute value are counted to the same multiset.
-/
import Proofs.Lemmas.PeriodicDefs
import Mathlib.Data.List.Rotate

namespace PylifeVerif.C04
open PylifeVerif.Rainflow PylifeVerif.HCM PylifeVerif.HCM.Spec

/-! ### Alternation -/

theorem alt_tl (up : Bool) (a : Int) (w : List Int) (h : Alt up (a :: w)) : Alt (!up) w := by
  cases w with
  | nil => trivial
  | cons b r => exact h.2

theorem alt_prefix (A B : List Int) : ∀ up, Alt up (A ++ B) → Alt up A := by
  induction A with
  | nil => intro up _; trivial
  | cons a A' ih =>
    intro up h
    cases A' with
    | nil => trivial
    | cons a1 A2 =>
      exact ⟨h.1, ih (!up) h.2⟩

theorem alt_suffix (A B : List Int) : ∀ up, Alt up (A ++ B) → Zig B := by
  induction A with
  | nil => intro up h; exact ⟨up, h⟩
  | cons a A' ih =>
    intro up h
    exact ih (!up) (alt_tl up a _ h)

theorem zig_infix (A B C : List Int) (h : Zig (A ++ B ++ C)) : Zig B := by
  obtain ⟨up, h⟩ := h
  obtain ⟨up', h'⟩ := alt_suffix A (B ++ C) up (by simpa using h)
  exact ⟨up', alt_prefix B C up' h'⟩

/-! ### The rewriting system -/

/-- four-point condition on the window `d c b a`, in the order of `reduce4v` -/
def C4 (d c b a : Int) : Prop := absDiff b c ≤ absDiff a b ∧ absDiff b c ≤ absDiff c d

inductive Step : List Int → (Int × Int) → List Int → Prop
  | here (d c b a : Int) (rest : List Int) : C4 d c b a →
      Step (d :: c :: b :: a :: rest) (min b c, max b c) (d :: a :: rest)
  | cons (x : Int) {w : List Int} {e : Int × Int} {w' : List Int} : Step w e w' → Step (x :: w) e (x :: w')

inductive Steps : List Int → List (Int × Int) → List Int → Prop
  | refl (w : List Int) : Steps w [] w
  | head {w : List Int} {e : Int × Int} {w' : List Int} {E : List (Int × Int)} {w'' : List Int} :
      Step w e w' → Steps w' E w'' → Steps w (e :: E) w''

def Irred (w : List Int) : Prop := ∀ e w', ¬ Step w e w'

theorem Step.prefix {w w' : List Int} {e : Int × Int} (u : List Int) (h : Step w e w') :
    Step (u ++ w) e (u ++ w') := by
  induction u with
  | nil => exact h
  | cons x u ih => exact Step.cons x ih

theorem Step.suffix {w w' : List Int} {e : Int × Int} (v : List Int) (h : Step w e w') :
    Step (w ++ v) e (w' ++ v) := by
  induction h with
  | here d c b a rest hc => exact Step.here d c b a (rest ++ v) hc
  | cons x _ ih => exact Step.cons x ih

theorem Step.reverse {w w' : List Int} {e : Int × Int} (h : Step w e w') :
    Step w.reverse e w'.reverse := by
  induction h with
  | here d c b a rest hc =>
    have h1 : (d :: c :: b :: a :: rest).reverse = rest.reverse ++ [a, b, c, d] := by simp
    have h2 : (d :: a :: rest).reverse = rest.reverse ++ [a, d] := by simp
    rw [h1, h2]
    apply Step.prefix
    have hc' : C4 a b c d := by
      unfold C4 absDiff at *; omega
    have := Step.here a b c d [] hc'
    rwa [Int.min_comm c b, Int.max_comm c b] at this
  | cons x _ ih =>
    simp only [List.reverse_cons]
    exact Step.suffix _ ih

theorem Steps.trans {w w' w'' : List Int} {E F : List (Int × Int)} (h : Steps w E w') (h' : Steps w' F w'') :
    Steps w (E ++ F) w'' := by
  induction h with
  | refl w => exact h'
  | head s _ ih => exact Steps.head s (ih h')

theorem Steps.prefix {w w' : List Int} {E : List (Int × Int)} (u : List Int) (h : Steps w E w') :
    Steps (u ++ w) E (u ++ w') := by
  induction h with
  | refl w => exact Steps.refl _
  | head s _ ih => exact Steps.head (s.prefix u) ih

theorem Steps.suffix {w w' : List Int} {E : List (Int × Int)} (v : List Int) (h : Steps w E w') :
    Steps (w ++ v) E (w' ++ v) := by
  induction h with
  | refl w => exact Steps.refl _
  | head s _ ih => exact Steps.head (s.suffix v) ih

theorem Steps.reverse {w w' : List Int} {E : List (Int × Int)} (h : Steps w E w') :
    Steps w.reverse E w'.reverse := by
  induction h with
  | refl w => exact Steps.refl _
  | head s _ ih => exact Steps.head s.reverse ih

theorem Irred.reverse {w : List Int} (h : Irred w) : Irred w.reverse := by
  intro e w' s
  have := s.reverse
  rw [List.reverse_reverse] at this
  exact h _ _ this

/-- a step keeps the first element -/
theorem Step.head_eq {w w' : List Int} {e : Int × Int} (h : Step w e w') :
    ∃ x t t', w = x :: t ∧ w' = x :: t' := by
  cases h with
  | here d c b a rest hc => exact ⟨d, _, _, rfl, rfl⟩
  | cons x s => exact ⟨x, _, _, rfl, rfl⟩

theorem Steps.head_eq {w N : List Int} {E : List (Int × Int)} (h : Steps w E N) (x : Int) (t : List Int)
    (hw : w = x :: t) : ∃ N', N = x :: N' := by
  induction h generalizing t with
  | refl w => exact ⟨t, hw⟩
  | head s _ ih =>
    obtain ⟨x', t1, t2, h1, h2⟩ := s.head_eq
    rw [hw] at h1
    injection h1 with h1 h1'
    subst h1
    exact ih t2 h2

theorem Steps.last_eq {N : List Int} {E : List (Int × Int)} (t : List Int) (y : Int)
    (h : Steps (t ++ [y]) E N) : ∃ N', N = N' ++ [y] := by
  have := h.reverse
  obtain ⟨N', hN⟩ := this.head_eq y t.reverse (by simp)
  refine ⟨N'.reverse, ?_⟩
  have := congrArg List.reverse hN
  simpa using this

theorem Step.mem {w w' : List Int} {e : Int × Int} (h : Step w e w') : ∀ z ∈ w', z ∈ w := by
  induction h with
  | here d c b a rest hc =>
    intro z hz
    simp only [List.mem_cons] at hz ⊢
    tauto
  | cons x _ ih =>
    intro z hz
    simp only [List.mem_cons] at hz ⊢
    rcases hz with hz | hz
    · exact Or.inl hz
    · exact Or.inr (ih z hz)

theorem Steps.mem {w w' : List Int} {E : List (Int × Int)} (h : Steps w E w') : ∀ z ∈ w', z ∈ w := by
  induction h with
  | refl w => exact fun z hz => hz
  | head s _ ih => exact fun z hz => s.mem z (ih z hz)

theorem Step.length {w w' : List Int} {e : Int × Int} (h : Step w e w') : w.length = w'.length + 2 := by
  induction h with
  | here d c b a rest hc => simp
  | cons x _ ih => simp [ih]

theorem Step.four_le {w w' : List Int} {e : Int × Int} (h : Step w e w') : 4 ≤ w.length := by
  induction h with
  | here d c b a rest hc => simp
  | cons x _ ih => simp; omega

theorem Step.alt {w w' : List Int} {e : Int × Int} (h : Step w e w') : ∀ up, Alt up w → Alt up w' := by
  induction h with
  | here d c b a rest hc =>
    intro up hA
    obtain ⟨h1, h2, h3, h4⟩ := hA
    refine ⟨?_, ?_⟩
    · unfold C4 absDiff at hc
      cases up <;> simp at h1 h2 h3 ⊢ <;> omega
    · simpa only [Bool.not_not] using h4
  | cons x s ih =>
    intro up hA
    obtain ⟨y, t, t', h1, h2⟩ := s.head_eq
    subst h1 h2
    exact ⟨hA.1, ih _ hA.2⟩

theorem Steps.alt {w w' : List Int} {E : List (Int × Int)} (h : Steps w E w') : ∀ up, Alt up w → Alt up w' := by
  induction h with
  | refl w => exact fun _ h => h
  | head s _ ih => exact fun up h => ih up (s.alt up h)

theorem Steps.zig {w w' : List Int} {E : List (Int × Int)} (h : Steps w E w') (hz : Zig w) : Zig w' := by
  obtain ⟨up, hz⟩ := hz
  exact ⟨up, h.alt up hz⟩

/-! ### Diamond property and uniqueness of normal forms -/

theorem diamond_here (d c b a : Int) (rest : List Int) (hc : C4 d c b a) {e2 : Int × Int} {w2 : List Int}
    (h2 : Step (d :: c :: b :: a :: rest) e2 w2) (up : Bool) (hA : Alt up (d :: c :: b :: a :: rest)) :
    ((min b c, max b c) = e2 ∧ d :: a :: rest = w2) ∨
      ∃ w3, Step (d :: a :: rest) e2 w3 ∧ Step w2 (min b c, max b c) w3 := by
  obtain ⟨h1, h2', h3, h4⟩ := hA
  cases h2 with
  | here _ _ _ _ _ _ => exact Or.inl ⟨rfl, rfl⟩
  | cons _ s2 =>
    cases s2 with
    | here _ _ _ a' rest' hc2 =>
      left
      have h5 := h4.1
      have hac : a = c := by
        unfold C4 absDiff at hc hc2
        cases up <;> simp at h1 h2' h3 h5 <;> omega
      subst hac
      refine ⟨?_, rfl⟩
      rw [Int.min_comm, Int.max_comm]
    | cons _ s3 =>
      cases s3 with
      | here _ _ a' a'' rest'' hc3 =>
        right
        have h5 := h4.1
        have h6 := h4.2.1
        refine ⟨d :: a'' :: rest'', ?_, ?_⟩
        · apply Step.here
          unfold C4 absDiff at *
          cases up <;> simp at h1 h2' h3 h5 h6 <;> omega
        · apply Step.here
          unfold C4 absDiff at *
          cases up <;> simp at h1 h2' h3 h5 h6 <;> omega
      | cons _ s4 =>
        right
        obtain ⟨x, t, t', h5, h6⟩ := s4.head_eq
        injection h5 with h5 h5'
        subst h5 h5' h6
        exact ⟨d :: a :: t', Step.cons d s4, Step.here d c b a t' hc⟩

theorem Step.diamond {w w1 : List Int} {e1 : Int × Int} (h1 : Step w e1 w1) :
    ∀ {e2 : Int × Int} {w2 : List Int}, Step w e2 w2 → ∀ up, Alt up w →
      (e1 = e2 ∧ w1 = w2) ∨ ∃ w3, Step w1 e2 w3 ∧ Step w2 e1 w3 := by
  induction h1 with
  | here d c b a rest hc =>
    intro e2 w2 h2 up hA
    exact diamond_here d c b a rest hc h2 up hA
  | cons x s1 ih =>
    intro e2 w2 h2 up hA
    cases h2 with
    | here d c b a rest hc =>
      rcases diamond_here _ c b a rest hc (Step.cons _ s1) up hA with ⟨h, h'⟩ | ⟨w3, h, h'⟩
      · exact Or.inl ⟨h.symm, h'.symm⟩
      · exact Or.inr ⟨w3, h', h⟩
    | cons _ s2 =>
      rcases ih s2 (!up) (alt_tl up x _ hA) with ⟨h, h'⟩ | ⟨w3, h, h'⟩
      · exact Or.inl ⟨h, by rw [h']⟩
      · exact Or.inr ⟨x :: w3, Step.cons x h, Step.cons x h'⟩

theorem exists_nf : ∀ (n : Nat) (w : List Int), w.length ≤ n → ∃ E N, Steps w E N ∧ Irred N := by
  intro n
  induction n with
  | zero =>
    intro w hw
    refine ⟨[], w, Steps.refl w, ?_⟩
    intro e w' s
    have := s.length
    omega
  | succ n ih =>
    intro w hw
    by_cases hI : Irred w
    · exact ⟨[], w, Steps.refl w, hI⟩
    · unfold Irred at hI
      push Not at hI
      obtain ⟨e, w', s⟩ := hI
      have := s.length
      obtain ⟨E, N, hS, hN⟩ := ih w' (by omega)
      exact ⟨e :: E, N, Steps.head s hS, hN⟩

theorem nf_unique : ∀ (n : Nat) (w : List Int), w.length ≤ n → ∀ up, Alt up w →
    ∀ E1 N1 E2 N2, Steps w E1 N1 → Irred N1 → Steps w E2 N2 → Irred N2 → N1 = N2 ∧ E1.Perm E2 := by
  intro n
  induction n with
  | zero =>
    intro w hw up hA E1 N1 E2 N2 h1 hI1 h2 hI2
    cases h1 with
    | refl _ =>
      cases h2 with
      | refl _ => exact ⟨rfl, List.Perm.refl _⟩
      | head s _ => exact absurd s (hI1 _ _)
    | head s _ => have := s.length; omega
  | succ n ih =>
    intro w hw up hA E1 N1 E2 N2 h1 hI1 h2 hI2
    cases h1 with
    | refl _ =>
      cases h2 with
      | refl _ => exact ⟨rfl, List.Perm.refl _⟩
      | head s _ => exact absurd s (hI1 _ _)
    | head s1 S1 =>
      cases h2 with
      | refl _ => exact absurd s1 (hI2 _ _)
      | head s2 S2 =>
        have l1 := s1.length
        have l2 := s2.length
        rcases s1.diamond s2 up hA with ⟨he, hw'⟩ | ⟨w3, s12, s21⟩
        · subst he hw'
          obtain ⟨hN, hE⟩ := ih _ (by omega) up (s1.alt up hA) _ _ _ _ S1 hI1 S2 hI2
          exact ⟨hN, hE.cons _⟩
        · obtain ⟨G, N3, hG, hI3⟩ := exists_nf w3.length w3 (Nat.le_refl _)
          obtain ⟨hN1, hE1⟩ := ih _ (by omega) up (s1.alt up hA) _ _ _ _ S1 hI1 (Steps.head s12 hG) hI3
          obtain ⟨hN2, hE2⟩ := ih _ (by omega) up (s2.alt up hA) _ _ _ _ S2 hI2 (Steps.head s21 hG) hI3
          refine ⟨hN1.trans hN2.symm, ?_⟩
          exact ((hE1.cons _).trans (List.Perm.swap _ _ _)).trans (hE2.cons _).symm

/-! ### `reduce4v` and the fold compute a normal form -/

theorem steps_reduce4v (st : List Int) : Steps st (reduce4v st).1 (reduce4v st).2 := by
  fun_induction reduce4v st with
  | case1 d c b a rest h r ih => exact Steps.head (Step.here d c b a rest h) ih
  | case2 d c b a rest h => exact Steps.refl _
  | case3 st h => exact Steps.refl _

theorem irred_cons (x : Int) (w : List Int) (hw : Irred w)
    (hx : ∀ c b a rest, w = c :: b :: a :: rest → ¬ C4 x c b a) : Irred (x :: w) := by
  intro e w' s
  cases s with
  | here _ c b a rest hc => exact hx c b a rest rfl hc
  | cons _ s' => exact hw _ _ s'

theorem Irred.tail {x : Int} {w : List Int} (h : Irred (x :: w)) : Irred w :=
  fun e w' s => h e (x :: w') (Step.cons x s)

theorem irred_reduce4v (st : List Int) (h : Irred st.tail) : Irred (reduce4v st).2 := by
  fun_induction reduce4v st with
  | case1 d c b a rest hc r ih =>
    apply ih
    exact h.tail.tail
  | case2 d c b a rest hc =>
    apply irred_cons _ _ h
    intro c' b' a' rest' heq
    injection heq with h1 heq
    injection heq with h2 heq
    injection heq with h3 heq
    subst h1 h2 h3
    exact hc
  | case3 st hst =>
    cases st with
    | nil => intro e w' s; cases s
    | cons x w =>
      apply irred_cons _ _ h
      intro c b a rest heq
      simp only [List.tail_cons] at heq
      exact (hst x c b a rest (by rw [heq])).elim

/-- the fold of `periodicRainflow`, as a recursion -/
def run : List Int → List Int → List (Int × Int) × List Int
  | S, [] => ([], S)
  | S, p :: rem =>
    let r := reduce4v (p :: S)
    let r' := run r.2 rem
    (r.1 ++ r'.1, r'.2)

theorem foldl_eq_run (word : List Int) : ∀ (E0 : List (Int × Int)) (S : List Int),
    word.foldl (fun (acc : List (Int × Int) × List Int) p =>
      let r := reduce4v (p :: acc.2)
      (acc.1 ++ r.1, r.2)) (E0, S) = (E0 ++ (run S word).1, (run S word).2) := by
  induction word with
  | nil => intro E0 S; simp [run]
  | cons p rem ih =>
    intro E0 S
    simp only [List.foldl_cons, run]
    rw [ih]
    simp

theorem run_steps (rem : List Int) : ∀ S : List Int,
    Steps (S.reverse ++ rem) (run S rem).1 (run S rem).2.reverse := by
  induction rem with
  | nil => intro S; simpa [run] using Steps.refl S.reverse
  | cons p rem ih =>
    intro S
    have h1 := ((steps_reduce4v (p :: S)).reverse).suffix rem
    have h2 := ih (reduce4v (p :: S)).2
    have := h1.trans h2
    simpa [run] using this

theorem run_irred (rem : List Int) : ∀ S : List Int, Irred S → Irred (run S rem).2 := by
  induction rem with
  | nil => intro S h; simpa [run] using h
  | cons p rem ih =>
    intro S h
    simp only [run]
    exact ih _ (irred_reduce4v (p :: S) h)

/-- the closing part of `periodicRainflow` on the closed word `c` -/
def outOf (c : List Int) : List (Int × Int) :=
  let r := c.foldl (fun (acc : List (Int × Int) × List Int) p =>
      let r := reduce4v (p :: acc.2)
      (acc.1 ++ r.1, r.2)) ([], [])
  match r.2 with
  | [c, b, _] => r.1 ++ [(min b c, max b c)]
  | _ => r.1

def prf (rev : List Int) : List (Int × Int) :=
  if rev.length < 2 then [] else
  let k := argmaxAbs rev
  outOf (rev.drop k ++ rev.take k ++ [rev.getD k 0])

theorem periodicRainflow_eq (s : List Int) : periodicRainflow s = prf (cyclicReversals s) := rfl

theorem irred_nil : Irred [] := fun e w' s => by cases s

/-- Whatever way an alternating closed word is reduced to a three-element word: `outOf` is the
emitted cycles plus the closing cycle, as a multiset. -/
theorem outOf_perm (c : List Int) (hz : Zig c) (E : List (Int × Int)) (x m y : Int)
    (h : Steps c E [x, m, y]) : (outOf c).Perm (E ++ [(min m y, max m y)]) := by
  obtain ⟨up, hA⟩ := hz
  have hs := run_steps c []
  have hi := (run_irred c [] irred_nil).reverse
  simp only [List.reverse_nil, List.nil_append] at hs
  have h3 : Irred [x, m, y] := fun e w' s => by have := s.four_le; simp at this
  obtain ⟨hN, hE⟩ := nf_unique c.length c (Nat.le_refl _) up hA _ _ _ _ hs hi h h3
  have hN' : (run [] c).2 = [y, m, x] := by
    have := congrArg List.reverse hN
    simpa using this
  unfold outOf
  rw [foldl_eq_run]
  simp only [List.nil_append, hN']
  exact hE.append_right _

/-! ### Irreducible words between two elements of largest absolute value -/

theorem between (rest : List Int) : ∀ (a b c : Int) (up : Bool), Irred (a :: b :: c :: rest) →
    Alt up (a :: b :: c :: rest) → absDiff b c ≤ absDiff a b → ∀ z ∈ rest, min b c < z ∧ z < max b c := by
  induction rest with
  | nil => intro _ _ _ _ _ _ _ z hz; cases hz
  | cons d rest ih =>
    intro a b c up hI hA h z hz
    have hn : ¬ C4 a b c d := fun hc => hI _ _ (Step.here a b c d rest hc)
    obtain ⟨h1, h2, h3, h4⟩ := hA
    have hd : min b c < d ∧ d < max b c ∧ absDiff c d ≤ absDiff b c := by
      unfold C4 absDiff at *
      cases up <;> simp at h1 h2 h3 <;> omega
    rcases List.mem_cons.1 hz with rfl | hz
    · exact ⟨hd.1, hd.2.1⟩
    · have := ih b c d (!up) hI.tail ⟨h2, h3, h4⟩ hd.2.2 z hz
      omega

theorem collapse (x y : Int) (N' : List Int) (hI : Irred (x :: (N' ++ [y]))) (hz : Zig (x :: (N' ++ [y])))
    (hmax : ∀ z ∈ N', z.natAbs ≤ x.natAbs) (hxy : y.natAbs = x.natAbs) : N'.length ≤ 1 := by
  match N', hI, hz, hmax with
  | [], _, _, _ => simp
  | [_], _, _, _ => simp
  | b :: c :: rest, hI, ⟨up, hA⟩, hmax =>
    exfalso
    have hb := hmax b (by simp)
    have hc := hmax c (by simp)
    simp only [List.cons_append] at hI hA
    have h0 : absDiff b c ≤ absDiff x b := by
      have h1 := hA.1
      have h2 := hA.2.1
      unfold absDiff
      cases up <;> simp at h1 h2 <;> omega
    have := between (rest ++ [y]) x b c up hI hA h0 y (by simp)
    omega

theorem len_le_one (l : List Int) (h : l.length ≤ 1) : l = [] ∨ ∃ m, l = [m] := by
  match l, h with
  | [], _ => exact Or.inl rfl
  | [m], _ => exact Or.inr ⟨m, rfl⟩
  | _ :: _ :: _, h => simp at h

theorem Step.ends {x y : Int} {t w' : List Int} {e : Int × Int} (h : Step (x :: (t ++ [y])) e w') :
    ∃ t', w' = x :: (t' ++ [y]) := by
  obtain ⟨x', t1, t2, h1, h2⟩ := h.head_eq
  obtain ⟨y', r1, r2, h3, h4⟩ := h.reverse.head_eq
  have hl := h.length
  have h4l := h.four_le
  injection h1 with h1 _
  subst h1
  have h3' : y' = y := by
    simp only [List.reverse_cons, List.reverse_append, List.reverse_nil, List.nil_append,
      List.cons_append] at h3
    injection h3 with h3 _
    exact h3.symm
  subst h3'
  have hw : w' = r2.reverse ++ [y'] := by
    have := congrArg List.reverse h4
    simpa using this
  cases hr : r2.reverse with
  | nil =>
    rw [hr] at hw
    subst hw
    simp at hl h4l
    omega
  | cons z s' =>
    rw [hr] at hw
    rw [hw] at h2
    injection h2 with h2 _
    subst h2
    exact ⟨s', hw⟩

theorem Steps.ends {w N : List Int} {E : List (Int × Int)} (h : Steps w E N) (x y : Int) (t : List Int)
    (hw : w = x :: (t ++ [y])) : ∃ N', N = x :: (N' ++ [y]) := by
  induction h generalizing t with
  | refl w => exact ⟨t, hw⟩
  | head s _ ih =>
    subst hw
    obtain ⟨t', ht⟩ := s.ends
    exact ih t' ht

theorem five_nf (x m m' : Int) : ∃ E u, Steps [x, m, x, m', x] E [x, u, x] ∧
    (E ++ [(min u x, max u x)]).Perm [(min m x, max m x), (min m' x, max m' x)] := by
  by_cases h : absDiff x m ≤ absDiff m' x
  · refine ⟨[(min x m, max x m)], m', Steps.head (Step.here x m x m' [x] ⟨h, ?_⟩) (Steps.refl _), ?_⟩
    · unfold absDiff; omega
    · rw [Int.min_comm x m, Int.max_comm x m]
      exact List.Perm.refl _
  · refine ⟨[(min m' x, max m' x)], m,
      Steps.head (Step.cons x (Step.here m x m' x [] ⟨?_, ?_⟩)) (Steps.refl _), ?_⟩
    · unfold absDiff; omega
    · unfold absDiff at *; omega
    · exact List.Perm.swap _ _ _

/-- The core: two closed words of the same cyclic alternating word, both started at an element of
largest absolute value, are counted to the same multiset of cycles. -/
theorem core (x y : Int) (P Q : List Int)
    (hz1 : Zig (x :: (P ++ y :: (Q ++ [x])))) (hz2 : Zig (y :: (Q ++ x :: (P ++ [y]))))
    (hmax : ∀ z ∈ P ++ Q, z.natAbs ≤ x.natAbs) (hxy : y.natAbs = x.natAbs) :
    (outOf (x :: (P ++ y :: (Q ++ [x])))).Perm (outOf (y :: (Q ++ x :: (P ++ [y])))) := by
  have hzP : Zig (x :: (P ++ [y])) := zig_infix [] (x :: (P ++ [y])) (Q ++ [x]) (by simpa using hz1)
  have hzQ : Zig (y :: (Q ++ [x])) := zig_infix (x :: P) (y :: (Q ++ [x])) [] (by simpa using hz1)
  obtain ⟨EP, NP, hSP, hIP⟩ := exists_nf _ (x :: (P ++ [y])) (Nat.le_refl _)
  obtain ⟨EQ, NQ, hSQ, hIQ⟩ := exists_nf _ (y :: (Q ++ [x])) (Nat.le_refl _)
  obtain ⟨NP', rfl⟩ := hSP.ends x y P rfl
  obtain ⟨NQ', rfl⟩ := hSQ.ends y x Q rfl
  have hmP : ∀ z ∈ NP', z.natAbs ≤ x.natAbs := by
    intro z hz
    have := hSP.mem z (by simp [hz])
    simp only [List.mem_cons, List.mem_append, List.not_mem_nil, or_false] at this
    rcases this with rfl | h | rfl
    · omega
    · exact hmax z (by simp [h])
    · omega
  have hmQ : ∀ z ∈ NQ', z.natAbs ≤ x.natAbs := by
    intro z hz
    have := hSQ.mem z (by simp [hz])
    simp only [List.mem_cons, List.mem_append, List.not_mem_nil, or_false] at this
    rcases this with rfl | h | rfl
    · omega
    · exact hmax z (by simp [h])
    · omega
  have hlP := collapse x y NP' hIP (hSP.zig hzP) hmP hxy
  have hlQ := collapse y x NQ' hIQ (hSQ.zig hzQ) (fun z hz => by have := hmQ z hz; omega) hxy.symm
  have a1 : Steps (x :: (P ++ y :: (Q ++ [x]))) EP (x :: (NP' ++ y :: (Q ++ [x]))) := by
    simpa using hSP.suffix (Q ++ [x])
  have a2 : Steps (x :: (NP' ++ y :: (Q ++ [x]))) EQ (x :: (NP' ++ y :: (NQ' ++ [x]))) := by
    simpa using hSQ.prefix (x :: NP')
  have b1 : Steps (y :: (Q ++ x :: (P ++ [y]))) EQ (y :: (NQ' ++ x :: (P ++ [y]))) := by
    simpa using hSQ.suffix (P ++ [y])
  have b2 : Steps (y :: (NQ' ++ x :: (P ++ [y]))) EP (y :: (NQ' ++ x :: (NP' ++ [y]))) := by
    simpa using hSP.prefix (y :: NQ')
  have A := a1.trans a2
  have B := b1.trans b2
  have zA := A.zig hz1
  rcases len_le_one _ hlP with rfl | ⟨m, rfl⟩ <;> rcases len_le_one _ hlQ with rfl | ⟨m', rfl⟩
  · -- [x, y, x] and [y, x, y]
    have oA := outOf_perm _ hz1 _ x y x (by simpa using A)
    have oB := outOf_perm _ hz2 _ y x y (by simpa using B)
    refine oA.trans (List.Perm.trans ?_ oB.symm)
    rw [Int.min_comm y x, Int.max_comm y x]
    exact List.Perm.append_right _ List.perm_append_comm
  · exfalso
    obtain ⟨up, hA⟩ := zA
    have hm := hmQ m' (by simp)
    obtain ⟨h1, h2, h3, _⟩ := hA
    cases up <;> simp at h1 h2 h3 <;> omega
  · exfalso
    obtain ⟨up, hA⟩ := zA
    have hm := hmP m (by simp)
    obtain ⟨h1, h2, h3, _⟩ := hA
    cases up <;> simp at h1 h2 h3 <;> omega
  · have hxy' : y = x := by
      obtain ⟨up, hA⟩ := zA
      have hm := hmP m (by simp)
      obtain ⟨h1, h2, _⟩ := hA
      cases up <;> simp at h1 h2 <;> omega
    subst hxy'
    obtain ⟨E5, u, hS5, hP5⟩ := five_nf y m m'
    obtain ⟨E5', u', hS5', hP5'⟩ := five_nf y m' m
    have oA := outOf_perm _ hz1 _ y u y (A.trans (by simpa using hS5))
    have oB := outOf_perm _ hz2 _ y u' y (B.trans (by simpa using hS5'))
    refine oA.trans (List.Perm.trans ?_ oB.symm)
    have e1 : (EP ++ EQ ++ E5 ++ [(min u y, max u y)]).Perm ((EP ++ EQ) ++ [(min m y, max m y), (min m' y, max m' y)]) := by
      rw [List.append_assoc (EP ++ EQ)]
      exact List.Perm.append_left _ hP5
    have e2 : (EQ ++ EP ++ E5' ++ [(min u' y, max u' y)]).Perm ((EQ ++ EP) ++ [(min m' y, max m' y), (min m y, max m y)]) := by
      rw [List.append_assoc (EQ ++ EP)]
      exact List.Perm.append_left _ hP5'
    refine e1.trans (List.Perm.trans ?_ e2.symm)
    exact List.Perm.append List.perm_append_comm (List.Perm.swap _ _ _)

/-! ### `argmaxAbs` -/

def amStep (acc : Option (Int × Nat)) (x : Int × Nat) : Option (Int × Nat) :=
  match acc with
  | none => some x
  | some a => if x.1 > a.1 then some x else some a

theorem argmax_eq (l : List Int) : argmax l = ((l.zipIdx.foldl amStep none).map (·.2)).getD 0 := rfl

theorem amFold (L : List (Int × Nat)) : ∀ a : Int × Nat, ∃ b, L.foldl amStep (some a) = some b ∧
    (b = a ∨ b ∈ L) ∧ a.1 ≤ b.1 ∧ ∀ z ∈ L, z.1 ≤ b.1 := by
  induction L with
  | nil => intro a; exact ⟨a, rfl, Or.inl rfl, Int.le_refl _, fun z hz => by cases hz⟩
  | cons x L ih =>
    intro a
    by_cases hx : x.1 > a.1
    · obtain ⟨b, h1, h2, h3, h4⟩ := ih x
      refine ⟨b, by simp [amStep, hx, h1], ?_, by omega, ?_⟩
      · rcases h2 with rfl | h2
        · exact Or.inr (by simp)
        · exact Or.inr (by simp [h2])
      · intro z hz
        rcases List.mem_cons.1 hz with rfl | hz
        · exact h3
        · exact h4 z hz
    · obtain ⟨b, h1, h2, h3, h4⟩ := ih a
      refine ⟨b, by simp [amStep, hx, h1], ?_, h3, ?_⟩
      · rcases h2 with rfl | h2
        · exact Or.inl rfl
        · exact Or.inr (by simp [h2])
      · intro z hz
        rcases List.mem_cons.1 hz with rfl | hz
        · omega
        · exact h4 z hz

theorem argmax_spec' (l : List Int) (hl : l ≠ []) :
    ∃ h : argmax l < l.length, ∀ z ∈ l, z ≤ l[argmax l] := by
  obtain ⟨v, l', rfl⟩ := List.exists_cons_of_ne_nil hl
  obtain ⟨b, h1, h2, h3, h4⟩ := amFold ((v :: l').zipIdx).tail ((v :: l').zipIdx).head!
  have hb : b ∈ (v :: l').zipIdx := by
    rcases h2 with rfl | h2
    · simp [List.zipIdx_cons]
    · exact List.mem_of_mem_tail h2
  have ha : argmax (v :: l') = b.2 := by
    rw [argmax_eq]
    have : (v :: l').zipIdx.foldl amStep none = some b := by
      rw [← h1]
      simp [List.zipIdx_cons, amStep]
    rw [this]; rfl
  obtain ⟨bv, bi⟩ := b
  obtain ⟨_, hi, hv⟩ := List.mem_zipIdx hb
  simp only [Nat.zero_add, Nat.sub_zero] at hi hv
  simp only at ha
  refine ⟨by rw [ha]; exact hi, ?_⟩
  intro z hz
  obtain ⟨j, hj, rfl⟩ := List.getElem_of_mem hz
  have hm : ((v :: l')[j], j) ∈ (v :: l').zipIdx := by
    rw [List.mem_zipIdx_iff_getElem?]; simp
  have hle : (v :: l')[j] ≤ bv := by
    rw [List.zipIdx_cons] at hm
    rcases List.mem_cons.1 hm with h | h
    · have : ((v :: l').zipIdx).head! = ((v :: l')[j], j) := by rw [h]; simp [List.zipIdx_cons]
      rw [this] at h3
      exact h3
    · exact h4 _ (by simpa [List.zipIdx_cons] using h)
  simp only [ha]
  rw [← hv]
  exact hle

theorem argmaxAbs_spec (W : List Int) (hW : W ≠ []) :
    ∃ h : argmaxAbs W < W.length, ∀ z ∈ W, z.natAbs ≤ (W[argmaxAbs W]).natAbs := by
  obtain ⟨h, hm⟩ := argmax_spec' (W.map fun x => (x.natAbs : Int)) (by simpa using hW)
  have h' : argmaxAbs W < W.length := by simpa [argmaxAbs] using h
  refine ⟨h', ?_⟩
  intro z hz
  have := hm (z.natAbs : Int) (List.mem_map.2 ⟨z, hz, rfl⟩)
  simp only [List.getElem_map] at this
  unfold argmaxAbs
  omega

/-! ### Closed words of a cyclic word -/

def cw (W : List Int) (p : Nat) : List Int := W.drop p ++ W.take p ++ [W.getD p 0]

theorem cw_mid (A B : List Int) (z : Int) : cw (A ++ z :: B) A.length = z :: (B ++ (A ++ [z])) := by
  simp [cw]

theorem cw_eq_rotate (W : List Int) (p : Nat) (hp : p < W.length) : cw W p = W.rotate p ++ [W[p]] := by
  unfold cw
  rw [List.rotate_eq_drop_append_take (Nat.le_of_lt hp)]
  simp [hp]

theorem split_two (W : List Int) (p q : Nat) (hpq : p < q) (hq : q < W.length) :
    ∃ U V T, W = U ++ W[p] :: (V ++ W[q] :: T) ∧ U.length = p ∧ U.length + 1 + V.length = q := by
  refine ⟨W.take p, (W.drop (p + 1)).take (q - p - 1), W.drop (q + 1), ?_, ?_, ?_⟩
  · have h1 : W.drop p = W[p] :: W.drop (p + 1) := List.drop_eq_getElem_cons (by omega)
    have h2 : W.drop q = W[q] :: W.drop (q + 1) := List.drop_eq_getElem_cons hq
    have h3 : (W.drop (p + 1)).drop (q - p - 1) = W.drop q := by
      rw [List.drop_drop]; congr 1; omega
    calc W = W.take p ++ W.drop p := (List.take_append_drop p W).symm
      _ = W.take p ++ W[p] :: W.drop (p + 1) := by rw [h1]
      _ = W.take p ++ W[p] :: ((W.drop (p + 1)).take (q - p - 1) ++ (W.drop (p + 1)).drop (q - p - 1)) := by
          rw [List.take_append_drop]
      _ = _ := by rw [h3, h2]
  · simp; omega
  · simp; omega

theorem cw_perm_aux (U V T : List Int) (x y : Int) (W : List Int) (hW : W = U ++ x :: (V ++ y :: T))
    (hz : Zig (W ++ W)) (hmx : ∀ z ∈ W, z.natAbs ≤ x.natAbs) (hmy : ∀ z ∈ W, z.natAbs ≤ y.natAbs) :
    (outOf (cw W U.length)).Perm (outOf (cw W (U.length + 1 + V.length))) := by
  subst hW
  have e1 : cw (U ++ x :: (V ++ y :: T)) U.length = x :: (V ++ y :: ((T ++ U) ++ [x])) := by
    rw [cw_mid]; simp
  have e2 : cw (U ++ x :: (V ++ y :: T)) (U.length + 1 + V.length) = y :: ((T ++ U) ++ x :: (V ++ [y])) := by
    have : U ++ x :: (V ++ y :: T) = (U ++ x :: V) ++ y :: T := by simp
    rw [this]
    have hl : U.length + 1 + V.length = (U ++ x :: V).length := by simp; omega
    rw [hl, cw_mid]; simp
  rw [e1, e2]
  apply core
  · apply zig_infix U _ (V ++ y :: T)
    simpa using hz
  · apply zig_infix (U ++ x :: V) _ T
    simpa using hz
  · intro z hz'
    apply hmx
    simp only [List.mem_append, List.mem_cons] at hz' ⊢
    tauto
  · have := hmx y (by simp)
    have := hmy x (by simp)
    omega

theorem cw_perm (W : List Int) (hz : Zig (W ++ W)) (p q : Nat) (hp : p < W.length) (hq : q < W.length)
    (hmp : ∀ z ∈ W, z.natAbs ≤ (W[p]).natAbs) (hmq : ∀ z ∈ W, z.natAbs ≤ (W[q]).natAbs) :
    (outOf (cw W p)).Perm (outOf (cw W q)) := by
  rcases Nat.lt_trichotomy p q with h | h | h
  · obtain ⟨U, V, T, hW, hU, hV⟩ := split_two W p q h hq
    have := cw_perm_aux U V T W[p] W[q] W hW hz hmp hmq
    rw [hU] at hV this
    rwa [hV] at this
  · subst h; exact List.Perm.refl _
  · obtain ⟨U, V, T, hW, hU, hV⟩ := split_two W q p h hp
    have := cw_perm_aux U V T W[q] W[p] W hW hz hmq hmp
    rw [hU] at hV this
    rw [hV] at this
    exact this.symm

theorem prf_rotate (W : List Int) (hz : 2 ≤ W.length → Zig (W ++ W)) (j : Nat) :
    (prf (W.rotate j)).Perm (prf W) := by
  unfold prf
  simp only [List.length_rotate]
  split
  · exact List.Perm.refl _
  · rename_i hn
    have hn : 2 ≤ W.length := by omega
    have hW : W ≠ [] := by intro h; simp [h] at hn
    have hW' : W.rotate j ≠ [] := by
      intro h; exact hW (List.rotate_eq_nil_iff.1 h)
    obtain ⟨hk, hmk⟩ := argmaxAbs_spec W hW
    obtain ⟨hk', hmk'⟩ := argmaxAbs_spec (W.rotate j) hW'
    have hk'' : argmaxAbs (W.rotate j) < W.length := by simpa using hk'
    have hq : (argmaxAbs (W.rotate j) + j) % W.length < W.length := Nat.mod_lt _ (by omega)
    have e1 : cw (W.rotate j) (argmaxAbs (W.rotate j)) = cw W ((argmaxAbs (W.rotate j) + j) % W.length) := by
      rw [cw_eq_rotate _ _ hk', cw_eq_rotate _ _ hq, List.rotate_rotate, List.getElem_rotate,
        List.rotate_mod, Nat.add_comm j]
    show (outOf (cw (W.rotate j) (argmaxAbs (W.rotate j)))).Perm (outOf (cw W (argmaxAbs W)))
    rw [e1]
    apply cw_perm W (hz hn) _ _ hq hk _ hmk
    intro z hz'
    have := hmk' z (List.mem_rotate.2 hz')
    rw [List.getElem_rotate] at this
    exact this

end PylifeVerif.C04
