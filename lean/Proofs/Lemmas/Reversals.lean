/-
Helper lemmas for C02 (1): the scan `findTurns` computes the declarative `Spec.reversals`.
-/
import Proofs.Lemmas.Common
import Model.Rainflow.Spec

namespace PylifeVerif.C02
open PylifeVerif.Rainflow

/-- List-level form of `Spec.isReversal` for the sample `v` with predecessor `p` and the samples
`post` behind it. -/
def isRevLocal (p v : Int) (post : List Int) : Bool :=
  if p = v then false else
  match post.find? (· ≠ v) with
  | none => false
  | some n => (p < v ∧ n < v) ∨ (p > v ∧ n > v)

/-- Declarative reversals of `p :: rest`, where `i` is the index of the head of `rest`. -/
def revList : Nat → List Int → List Pt
  | i, p :: v :: post =>
    (if isRevLocal p v post then [(i, v)] else []) ++ revList (i+1) (v :: post)
  | _, _ => []

/-- The candidate held by the scan is emitted iff a direction has been seen and the next
different sample reverses it. -/
def nextReverses (dir prev : Int) (xs : List Int) : Bool :=
  match xs.find? (· ≠ prev) with
  | none => false
  | some n => decide (sgn (n - prev) ≠ dir)

def pending (dir : Int) (cand : Pt) (prev : Int) (xs : List Int) : List Pt :=
  if dir ≠ 0 ∧ nextReverses dir prev xs = true then [cand] else []

theorem sgn_eq_zero_iff (x : Int) : sgn x = 0 ↔ x = 0 := by
  unfold sgn; split
  · omega
  · split <;> omega

theorem findTurnsAux_eq (xs : List Int) : ∀ (dir : Int) (cand : Pt) (i : Nat) (prev : Int),
    findTurnsAux dir cand i prev xs = pending dir cand prev xs ++ revList i (prev :: xs) := by
  induction xs with
  | nil => intro dir cand i prev; simp [findTurnsAux, pending, nextReverses, revList]
  | cons x xs ih =>
    intro dir cand i prev
    unfold findTurnsAux
    simp only []
    by_cases hx : x = prev
    · subst hx
      have h0 : sgn (x - x) = 0 := by rw [sgn_eq_zero_iff]; omega
      rw [if_pos h0, ih]
      simp [pending, nextReverses, revList, isRevLocal]
    · have h0 : sgn (x - prev) ≠ 0 := by rw [Ne, sgn_eq_zero_iff]; omega
      rw [if_neg h0]
      have hp : pending dir cand prev (x :: xs) =
          if dir ≠ 0 ∧ sgn (x - prev) ≠ dir then [cand] else [] := by
        simp [pending, nextReverses, hx]
      have hq : pending (sgn (x - prev)) (i, x) x xs =
          if isRevLocal prev x xs then [(i, x)] else [] := by
        unfold pending nextReverses isRevLocal
        rw [if_neg (Ne.symm hx)]
        cases hf : xs.find? (· ≠ x) with
        | none => simp
        | some n =>
          have hn : n ≠ x := by simpa using List.find?_some hf
          have : (sgn (n - x) ≠ sgn (x - prev)) ↔ ((prev < x ∧ n < x) ∨ (prev > x ∧ n > x)) := by
            unfold sgn; split <;> split <;> (try split) <;> (try split) <;> omega
          simp [h0, this]
      rw [hp, ih, hq]
      simp only [revList]
      split <;> simp

theorem findTurns_eq_revList (s : List Int) : findTurns s = revList 1 s := by
  cases s with
  | nil => simp [findTurns, revList]
  | cons x xs => simp [findTurns, findTurnsAux_eq, pending]

/-- `Spec.isReversal` at position `|pre| + 1` of `pre ++ p :: v :: post`. -/
theorem isReversal_append (pre : List Int) (p v : Int) (post : List Int) :
    Spec.isReversal (pre ++ p :: v :: post).toArray (pre.length + 1) = isRevLocal p v post := by
  have hd : (pre ++ p :: v :: post).drop (pre.length + 1 + 1) = post := by
    have : pre ++ p :: v :: post = (pre ++ [p, v]) ++ post := by simp
    rw [this, List.drop_left']; simp
  unfold Spec.isReversal isRevLocal
  cases post with
  | nil => simp
  | cons q post =>
    simp only [hd]
    have h1 : ¬ (pre.length + 1 = 0 ∨ pre.length + 1 + 1 ≥ (pre ++ p :: v :: q :: post).toArray.size) := by
      simp; omega
    rw [if_neg h1]
    have hv : (pre ++ p :: v :: q :: post).toArray[pre.length + 1]! = v := by
      simp
    have hp : (pre ++ p :: v :: q :: post).toArray[pre.length + 1 - 1]! = p := by
      simp
    simp only [hv, hp]
    by_cases hpv : p = v
    · simp only [if_pos hpv]
    · simp only [if_neg hpv]
      cases (q :: post).find? (· ≠ v) <;> rfl

theorem getElem!_append (pre : List Int) (v : Int) (post : List Int) :
    (pre ++ v :: post).toArray[pre.length]! = v := by
  simp

theorem reversals_range' (rest : List Int) : ∀ (pre : List Int) (p : Int),
    ((List.range' (pre.length + 1) rest.length).filter
        (Spec.isReversal (pre ++ p :: rest).toArray)).map
      (fun i => (i, (pre ++ p :: rest).toArray[i]!)) = revList (pre.length + 1) (p :: rest) := by
  induction rest with
  | nil => intro pre p; simp [revList]
  | cons v post ih =>
    intro pre p
    have ih' := ih (pre ++ [p]) v
    simp only [List.length_append, List.length_cons, List.length_nil, List.append_assoc,
      List.cons_append, List.nil_append, Nat.zero_add] at ih'
    simp only [List.length_cons, List.range'_succ, List.filter_cons, isReversal_append, revList]
    rw [← ih']
    split <;> simp

theorem reversals_eq_revList (s : List Int) : Spec.reversals s = revList 1 s := by
  cases s with
  | nil => simp [Spec.reversals, revList]
  | cons x xs =>
    have h := reversals_range' xs [] x
    simp only [List.length_nil, Nat.zero_add, List.nil_append] at h
    rw [← h]
    unfold Spec.reversals
    simp only [List.length_cons, List.range_eq_range', List.range'_succ, List.filter_cons]
    have : Spec.isReversal (x :: xs).toArray 0 = false := by simp [Spec.isReversal]
    simp [this]

end PylifeVerif.C02
