/-
Helper lemmas for C02 (3)-(5): the four-point detector model against `Spec.fourPoint`.
-/
import Proofs.Lemmas.Common
import Model.Rainflow.Spec

namespace PylifeVerif.C02
open PylifeVerif.Rainflow

/-- End points of a cycle. -/
abbrev endpoints (c : Cycle) : List Pt := [c.1, c.2]

/-- The spec reduces with the new point on top, the model closes before pushing. -/
theorem reduce4_cons' (st : List Pt) (dv : Int) (i : Nat) :
    Spec.reduce4 ((i, dv) :: st) = ((fpClose st dv).1, (i, dv) :: (fpClose st dv).2) := by
  fun_induction fpClose st dv with
  | case1 c b a rest d h r ih =>
    rw [Spec.reduce4, if_pos h]
    simp only [ih]
    rfl
  | case2 c b a rest d h =>
    rw [Spec.reduce4, if_neg h]
  | case3 st d hst =>
    unfold Spec.reduce4
    split
    · rename_i heq
      simp at heq
      exact absurd heq.2 (hst _ _ _ _)
    · rfl

theorem reduce4_cons (st : List Pt) (d : Pt) :
    Spec.reduce4 (d :: st) = ((fpClose st d.2).1, d :: (fpClose st d.2).2) :=
  reduce4_cons' st d.2 d.1

/-- The step function of `Spec.fourPoint`. -/
def specStep (acc : List Cycle × List Pt) (p : Pt) : List Cycle × List Pt :=
  let r := Spec.reduce4 (p :: acc.2)
  (acc.1 ++ r.1, r.2)

theorem foldl_specStep (ps : List Pt) : ∀ (cyc : List Cycle) (st : List Pt),
    ps.foldl specStep (cyc, st) = (cyc ++ (fpFeed st ps).1, (fpFeed st ps).2) := by
  induction ps with
  | nil => intro cyc st; simp [fpFeed]
  | cons p ps ih =>
    intro cyc st
    simp only [List.foldl_cons, specStep, reduce4_cons, ih, fpFeed, fpPush, List.append_assoc]

/-- `Spec.fourPoint` on `first :: turns ++ [lastp]` in terms of the model's functions. -/
theorem fourPoint_spec_eq (first : Pt) (turns : List Pt) (lastp : Pt) :
    Spec.fourPoint (first :: turns ++ [lastp]) =
      ((fpFeed [first] turns).1 ++ (fpClose (fpFeed [first] turns).2 lastp.2).1,
       (fpClose (fpFeed [first] turns).2 lastp.2).2.reverse ++ [lastp]) := by
  unfold Spec.fourPoint
  change (let r := List.foldl specStep ([], []) (first :: turns ++ [lastp]); (r.1, r.2.reverse)) = _
  simp only [List.cons_append, List.foldl_cons, List.foldl_append, List.foldl_nil]
  have h1 : specStep ([], []) first = ([], [first]) := by
    simp [specStep, reduce4_cons, fpClose]
  rw [h1, foldl_specStep]
  simp [specStep, reduce4_cons]

/-- Each closing removes exactly the pair it reports. -/
theorem fpClose_perm (st : List Pt) (d : Int) :
    (((fpClose st d).1.flatMap endpoints) ++ (fpClose st d).2).Perm st := by
  fun_induction fpClose st d with
  | case1 c b a rest d h r ih =>
    simp only [List.flatMap_cons, endpoints, List.cons_append, List.nil_append]
    -- b :: c :: (r.1.flatMap ++ r.2) ~ c :: b :: a :: rest
    exact (List.Perm.swap c b _).trans ((ih.cons b).cons c)
  | case2 c b a rest d h => simp
  | case3 st d hst => simp

theorem fpFeed_perm (ps : List Pt) : ∀ (st : List Pt),
    (((fpFeed st ps).1.flatMap endpoints) ++ (fpFeed st ps).2.reverse).Perm (st.reverse ++ ps) := by
  induction ps with
  | nil => intro st; simp [fpFeed]
  | cons p ps ih =>
    intro st
    simp only [fpFeed, fpPush, List.flatMap_append, List.append_assoc]
    have h1 := ih (p :: (fpClose st p.2).2)
    have h2 := fpClose_perm st p.2
    -- A ++ (B ++ S'.reverse) ~ A ++ ((p :: C).reverse ++ ps)
    refine (List.Perm.append_left _ h1).trans ?_
    simp only [List.reverse_cons, List.append_assoc, List.singleton_append]
    rw [← List.append_assoc]
    refine List.Perm.append_right _ ?_
    refine (List.Perm.append_left _ (List.reverse_perm _)).trans ?_
    exact h2.trans (List.reverse_perm _).symm

end PylifeVerif.C02
