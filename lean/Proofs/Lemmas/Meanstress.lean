import Model.Meanstress
import Mathlib.Tactic.Ring
import Mathlib.Tactic.Linarith
import Mathlib.Tactic.FieldSimp
import Mathlib.Tactic.NormNum
import Mathlib.Data.Real.Basic

namespace PylifeVerif.Meanstress
open ExtR

/-- Abscissa of the ray `R` in the normalised Haigh diagram (mean stress / amplitude). -/
noncomputable def pos : ExtR ℝ → ℝ
  | fin r => (1 + r) / (1 - r)
  | _ => -1

/-- The goal as it is stored: `1.0 ↦ -inf`. -/
noncomputable def normGoal (g : ExtR ℝ) : ExtR ℝ := if g.isOne then ninf else g

@[simp] theorem lit1 : (1.0 : ℝ) = 1 := by norm_num
@[simp] theorem lit0 : (0.0 : ℝ) = 0 := by norm_num
@[simp] theorem lit05 : (0.5 : ℝ) = 1/2 := by norm_num

theorem pos_push (R g : ExtR ℝ) : pos (push R g) = pos R := by
  cases R <;> simp only [push] <;> (try split) <;> simp [pos]

/-- Membership of an R value in the closed test interval of a segment. -/
def memSeg (R : ExtR ℝ) (s : Seg ℝ) : Prop := (ExtR.le s.lo R && ExtR.le R s.hi) = true

/-- What a fired step needs so that the exact iso-damage amplitude exists and stays positive:
the cycle is not at `R = 1`/`+inf`/`nan`, the (stored) goal is a real number ≠ 1 or `-inf`, and the
iso-damage line of the segment has positive amplitude at both ends of the move. -/
def StepGuard (s : Seg ℝ) (g : ExtR ℝ) (c : Cyc ℝ) : Prop :=
  (match c.R with | fin r => r ≠ 1 | ninf => True | _ => False) ∧
  (match normGoal g with | fin q => q ≠ 1 | ninf => True | _ => False) ∧
  0 < 1 + s.M * pos c.R ∧ 0 < 1 + s.M * pos (normGoal g)

theorem transAmp_mul (M : ℝ) (c : Cyc ℝ) (g' : ExtR ℝ)
    (hR : match c.R with | fin r => r ≠ 1 | ninf => True | _ => False)
    (hg : match g' with | fin q => q ≠ 1 | ninf => True | _ => False)
    (h2 : 0 < 1 + M * pos g') :
    transAmp M c g' * (1 + M * pos g') = c.amp * (1 + M * pos c.R) := by
  obtain ⟨a, R⟩ := c
  cases R with
  | pinf => exact absurd hR (by simp)
  | nan => exact absurd hR (by simp)
  | ninf =>
    cases g' with
    | pinf => exact absurd hg (by simp)
    | nan => exact absurd hg (by simp)
    | ninf =>
      simp only [pos] at h2 ⊢
      have : (1 - M) ≠ 0 := by intro h; rw [show 1 + M * -1 = 1 - M by ring, h] at h2; exact lt_irrefl _ h2
      simp only [transAmp, fillna0, lit1, le_refl, if_true]
      field_simp
      try ring
    | fin q =>
      simp only [pos] at h2 ⊢ hg
      have hq : (1 - q) ≠ 0 := fun h => hg (by linarith)
      have hd : 1 - q + M * (1 + q) ≠ 0 := by
        intro h
        have : 1 + M * ((1 + q) / (1 - q)) = (1 - q + M * (1 + q)) / (1 - q) := by field_simp
        rw [this, h, zero_div] at h2; exact lt_irrefl _ h2
      simp only [transAmp, fillna0, lit1, le_refl, if_true]
      field_simp
      try ring
  | fin r =>
    simp only at hR
    have hr : (1 - r) ≠ 0 := fun h => hR (by linarith)
    have hne : ¬ (r ≤ 1 ∧ 1 ≤ r) := fun h => hR (le_antisymm h.1 h.2)
    cases g' with
    | pinf => exact absurd hg (by simp)
    | nan => exact absurd hg (by simp)
    | ninf =>
      simp only [pos] at h2 ⊢
      have : (1 - M) ≠ 0 := by intro h; rw [show 1 + M * -1 = 1 - M by ring, h] at h2; exact lt_irrefl _ h2
      simp only [transAmp, fillna0, lit1, le_refl, if_true, hne, if_false]
      field_simp
      try ring
    | fin q =>
      simp only [pos] at h2 ⊢ hg
      have hq : (1 - q) ≠ 0 := fun h => hg (by linarith)
      have hd : 1 - q + M * (1 + q) ≠ 0 := by
        intro h
        have : 1 + M * ((1 + q) / (1 - q)) = (1 - q + M * (1 + q)) / (1 - q) := by field_simp
        rw [this, h, zero_div] at h2; exact lt_irrefl _ h2
      simp only [transAmp, fillna0, lit1, le_refl, if_true, hne, if_false]
      field_simp
      try ring


/-- `h` restricted to the segment `s` is the iso-damage line `k·(1 + M·x)`, also at the goal `g`. -/
def SegPot (h : ℝ → ℝ) (s : Seg ℝ) (g : ExtR ℝ) : Prop :=
  ∃ k : ℝ, (∀ R, memSeg R s → R.isOne = false → h (pos R) = k * (1 + s.M * pos R)) ∧
    h (pos (normGoal g)) = k * (1 + s.M * pos (normGoal g))

/-- The damage potential `amplitude · h(mean/amplitude)` of a cycle. -/
noncomputable def potential (h : ℝ → ℝ) (c : Cyc ℝ) : ℝ := c.amp * h (pos c.R)

theorem isOne_false_of_guard {R : ExtR ℝ} (hR : match R with | fin r => r ≠ 1 | ninf => True | _ => False) :
    R.isOne = false := by
  cases R <;> simp [ExtR.isOne] at hR ⊢
  intro h1; exact lt_of_le_of_ne h1 hR

theorem isOne_push (R g : ExtR ℝ) : (push R g).isOne = R.isOne := by
  cases R <;> simp only [push] <;> (try split) <;> simp [ExtR.isOne]

theorem step_potential (h : ℝ → ℝ) (s : Seg ℝ) (g : ExtR ℝ) (c : Cyc ℝ) (hp : SegPot h s g)
    (hg : memSeg (push c.R g) s → StepGuard s g c) :
    potential h (step s g c) = potential h c := by
  unfold potential step
  by_cases hf : (ExtR.le s.lo (push c.R g) && ExtR.le (push c.R g) s.hi) = true
  · obtain ⟨hR, hG, h1, h2⟩ := hg hf
    obtain ⟨k, hk, hkg⟩ := hp
    have e1 : h (pos c.R) = k * (1 + s.M * pos c.R) := by
      have := hk (push c.R g) hf (by rw [isOne_push]; exact isOne_false_of_guard hR)
      rwa [pos_push] at this
    simp only [hf, if_true]
    change transAmp s.M c (normGoal g) * h (pos (normGoal g)) = _
    rw [hkg, e1]
    have := transAmp_mul s.M c (normGoal g) hR hG h2
    calc transAmp s.M c (normGoal g) * (k * (1 + s.M * pos (normGoal g)))
        = k * (transAmp s.M c (normGoal g) * (1 + s.M * pos (normGoal g))) := by ring
      _ = k * (c.amp * (1 + s.M * pos c.R)) := by rw [this]
      _ = c.amp * (k * (1 + s.M * pos c.R)) := by ring
  · simp only [hf]
    rfl

/-- The guard along a run of steps: every step that fires satisfies `StepGuard`. -/
def FoldGuard (goalOf : Seg ℝ → ExtR ℝ) : List (Seg ℝ) → Cyc ℝ → Prop
  | [], _ => True
  | s :: ss, c => (memSeg (push c.R (goalOf s)) s → StepGuard s (goalOf s) c) ∧
      FoldGuard goalOf ss (step s (goalOf s) c)

theorem fold_potential (h : ℝ → ℝ) (goalOf : Seg ℝ → ExtR ℝ) (l : List (Seg ℝ)) (c : Cyc ℝ)
    (hp : ∀ s ∈ l, SegPot h s (goalOf s)) (hg : FoldGuard goalOf l c) :
    potential h (l.foldl (fun c s => step s (goalOf s) c) c) = potential h c := by
  induction l generalizing c with
  | nil => rfl
  | cons s ss ih =>
    simp only [List.foldl_cons]
    rw [ih _ (fun t ht => hp t (List.mem_cons_of_mem _ ht)) hg.2]
    exact step_potential h s (goalOf s) c (hp s List.mem_cons_self) hg.1

theorem mem_insertAsc {x y : Seg ℝ} {l : List (Seg ℝ)} (h : y ∈ insertAsc x l) : y = x ∨ y ∈ l := by
  induction l with
  | nil => simpa [insertAsc] using h
  | cons z zs ih =>
    simp only [insertAsc] at h
    split at h
    · rcases List.mem_cons.1 h with h | h
      · exact Or.inr (h ▸ List.mem_cons_self)
      · rcases ih h with h | h
        · exact Or.inl h
        · exact Or.inr (List.mem_cons_of_mem _ h)
    · rcases List.mem_cons.1 h with h | h
      · exact Or.inl h
      · exact Or.inr h

theorem mem_insertDesc {x y : Seg ℝ} {l : List (Seg ℝ)} (h : y ∈ insertDesc x l) : y = x ∨ y ∈ l := by
  induction l with
  | nil => simpa [insertDesc] using h
  | cons z zs ih =>
    simp only [insertDesc] at h
    split at h
    · rcases List.mem_cons.1 h with h | h
      · exact Or.inr (h ▸ List.mem_cons_self)
      · rcases ih h with h | h
        · exact Or.inl h
        · exact Or.inr (List.mem_cons_of_mem _ h)
    · rcases List.mem_cons.1 h with h | h
      · exact Or.inl h
      · exact Or.inr h

theorem mem_segsLeft {D : List (Seg ℝ)} {g : ExtR ℝ} {s : Seg ℝ} (h : s ∈ segsLeft D g) : s ∈ D := by
  unfold segsLeft at h
  have : ∀ l : List (Seg ℝ), s ∈ l.foldr insertAsc [] → s ∈ l := by
    intro l; induction l with
    | nil => simp
    | cons z zs ih =>
      intro h; rcases mem_insertAsc h with h | h
      · exact h ▸ List.mem_cons_self
      · exact List.mem_cons_of_mem _ (ih h)
  exact (List.mem_filter.1 (this _ h)).1

theorem mem_segsRight {D : List (Seg ℝ)} {g : ExtR ℝ} {s : Seg ℝ} (h : s ∈ segsRight D g) : s ∈ D := by
  unfold segsRight at h
  have : ∀ l : List (Seg ℝ), s ∈ l.foldr insertDesc [] → s ∈ l := by
    intro l; induction l with
    | nil => simp
    | cons z zs ih =>
      intro h; rcases mem_insertDesc h with h | h
      · exact h ▸ List.mem_cons_self
      · exact List.mem_cons_of_mem _ (ih h)
  exact (List.mem_filter.1 (this _ h)).1

/-- `h` is an iso-damage potential of the diagram `D` for the target `g`. -/
def Compat (h : ℝ → ℝ) (D : List (Seg ℝ)) (g : ExtR ℝ) : Prop :=
  ∀ s ∈ D, SegPot h s (leftBoundary s) ∧ SegPot h s s.lo ∧ (s ∈ segsContaining D g → SegPot h s g)

/-- The cycle after the left and after the right phase of `transform`. -/
noncomputable def afterLeft (D : List (Seg ℝ)) (g : ExtR ℝ) (c : Cyc ℝ) : Cyc ℝ :=
  (segsLeft D g).foldl (fun c s => step s (leftBoundary s) c) c
noncomputable def afterRight (D : List (Seg ℝ)) (g : ExtR ℝ) (c : Cyc ℝ) : Cyc ℝ :=
  (segsRight D g).foldl (fun c s => step s s.lo c) (afterLeft D g c)

/-- "The exact iso-damage amplitude stays positive" along the run the code makes: a finite conjunction of
comparisons of real numbers, one `StepGuard` per segment shift that fires. -/
def TransformGuard (D : List (Seg ℝ)) (g : ExtR ℝ) (c : Cyc ℝ) : Prop :=
  FoldGuard leftBoundary (segsLeft D g) c ∧
  FoldGuard (fun s => s.lo) (segsRight D g) (afterLeft D g c) ∧
  FoldGuard (fun _ => g) (segsContaining D g) (afterRight D g c)

theorem transform_eq (D : List (Seg ℝ)) (g : ExtR ℝ) (c : Cyc ℝ) :
    transform D g c = (segsContaining D g).foldl (fun c s => step s g c) (afterRight D g c) := rfl

/-- Every run of `HaighDiagram.transform` conserves the damage potential. -/
theorem transform_potential (h : ℝ → ℝ) (D : List (Seg ℝ)) (g : ExtR ℝ) (c : Cyc ℝ)
    (hc : Compat h D g) (hg : TransformGuard D g c) :
    potential h (transform D g c) = potential h c := by
  rw [transform_eq]
  rw [fold_potential h (fun _ => g) _ _ (fun s hs => ((hc s (by
        unfold segsContaining at hs; simp only at hs; split at hs <;> exact (List.mem_filter.1 hs).1)).2.2 hs)) hg.2.2]
  unfold afterRight
  rw [fold_potential h (fun s => s.lo) _ _ (fun s hs => (hc s (mem_segsRight hs)).2.1) hg.2.1]
  unfold afterLeft
  exact fold_potential h leftBoundary _ _ (fun s hs => (hc s (mem_segsLeft hs)).1) hg.1

end PylifeVerif.Meanstress
