/-
Property C15, `pf_arbitrary_load` with a SAMPLED LOG-NORMAL DENSITY: the integrand `pdf_L · cdf_S` is twice continuously
differentiable, its second derivative is bounded on every compact interval, hence (TrapezoidNonuniform) the trapezoid sum
on ANY increasing sample points converges to the integral over the sampled range as the largest step tends to zero.
-/
import Proofs.Lemmas.GaussianDensity
import Proofs.Lemmas.TrapezoidNonuniform
import Mathlib.Analysis.SpecialFunctions.ExpDeriv
import Mathlib.Analysis.Calculus.ContDiff.Basic

namespace PylifeVerif.GaussianOverlap

open PylifeVerif.FailureProb PylifeVerif.TrapezoidLemmas

theorem contDiff_normPdf (σ : ℝ) {m : WithTop ℕ∞} : ContDiff ℝ m (normPdf σ) := by
  unfold normPdf
  exact contDiff_const.mul (Real.contDiff_exp.comp (((contDiff_id.pow 2).neg).div_const _))

theorem deriv_stdNormalCdf : deriv stdNormalCdf = normPdf 1 :=
  funext fun x => (hasDerivAt_stdNormalCdf x).deriv

theorem contDiff_stdNormalCdf : ContDiff ℝ 2 stdNormalCdf := by
  rw [show (2 : WithTop ℕ∞) = 1 + 1 from rfl, contDiff_succ_iff_deriv]
  refine ⟨fun x => (hasDerivAt_stdNormalCdf x).differentiableAt, ?_, ?_⟩
  · intro h; exact absurd h (by decide)
  · rw [deriv_stdNormalCdf]; exact contDiff_normPdf 1

/-- the integrand of `pf_arbitrary_load` for the sampled normal density `norm.pdf(x, loc = l50, scale = ls)` and the
strength distribution function `norm.cdf(x, loc = s50, scale = ss)` (all in log10 units) -/
theorem contDiff_gaussian_integrand (l50 ls s50 ss : ℝ) :
    ContDiff ℝ 2 (fun x => normPdf ls (x - l50) * stdNormalCdf ((x - s50) / ss)) := by
  refine ContDiff.mul ?_ ?_
  · exact (contDiff_normPdf ls).comp (contDiff_id.sub contDiff_const)
  · exact contDiff_stdNormalCdf.comp ((contDiff_id.sub contDiff_const).div_const _)

theorem exists_bound_gaussian_integrand (l50 ls s50 ss a b : ℝ) :
    ∃ ζ : ℝ, 0 ≤ ζ ∧ ∀ y ∈ Set.Icc a b,
      |iteratedDeriv 2 (fun x => normPdf ls (x - l50) * stdNormalCdf ((x - s50) / ss)) y| ≤ ζ := by
  have hc : Continuous (iteratedDeriv 2
      (fun x => normPdf ls (x - l50) * stdNormalCdf ((x - s50) / ss))) :=
    (contDiff_gaussian_integrand l50 ls s50 ss).continuous_iteratedDeriv 2 (le_refl _)
  obtain ⟨C, hC⟩ := isCompact_Icc.exists_bound_of_continuousOn (s := Set.Icc a b) hc.continuousOn
  refine ⟨max C 0, le_max_right _ _, fun y hy => ?_⟩
  have := hC y hy
  rw [Real.norm_eq_abs] at this
  exact this.trans (le_max_left _ _)

/-- Convergence of `pf_arbitrary_load` for the sampled log-normal density on ARBITRARY refinement sequences of increasing
sample points `x N 0 = a ≤ x N 1 ≤ … ≤ x N (n N) = b` whose largest step `δ N` tends to zero. -/
theorem pfArbitraryLoad_gaussian_tendsto (sm ss lm ls a b : ℝ)
    (x : ℕ → ℕ → ℝ) (n : ℕ → ℕ) (δ : ℕ → ℝ)
    (h0 : ∀ N, x N 0 = a) (hn : ∀ N, x N (n N) = b) (hmono : ∀ N, ∀ k < n N, x N k ≤ x N (k + 1))
    (hstep : ∀ N, ∀ k < n N, x N (k + 1) - x N k ≤ δ N) (hδ : Filter.Tendsto δ Filter.atTop (nhds 0)) :
    Filter.Tendsto
      (fun N => pfArbitraryLoad stdNormalCdf sm ss
        ((List.range (n N + 1)).map fun k => (x N k, normPdf ls (x N k - Transc.log10 lm))))
      Filter.atTop
      (nhds (∫ y in a..b, normPdf ls (y - Transc.log10 lm) * normCdf stdNormalCdf y (Transc.log10 sm) ss)) := by
  set f : ℝ → ℝ := fun y => normPdf ls (y - Transc.log10 lm) * stdNormalCdf ((y - Transc.log10 sm) / ss)
    with hfdef
  have hf : ContDiff ℝ 2 f := contDiff_gaussian_integrand _ ls _ ss
  obtain ⟨ζ, _, hζ⟩ := exists_bound_gaussian_integrand (Transc.log10 lm) ls (Transc.log10 sm) ss a b
  have hbound : ∀ N, |pfArbitraryLoad stdNormalCdf sm ss
        ((List.range (n N + 1)).map fun k => (x N k, normPdf ls (x N k - Transc.log10 lm)))
        - ∫ y in a..b, normPdf ls (y - Transc.log10 lm) * normCdf stdNormalCdf y (Transc.log10 sm) ss|
      ≤ (δ N) ^ 2 * (b - a) * ζ / 12 := by
    intro N
    have key := trapezoid_nonuniform_error_le_mesh f hf (x N) (n N) (hmono N) (ζ := ζ)
      (by rw [h0, hn]; exact hζ) (hstep N)
    rw [h0, hn] at key
    have e : pfArbitraryLoad stdNormalCdf sm ss
        ((List.range (n N + 1)).map fun k => (x N k, normPdf ls (x N k - Transc.log10 lm)))
        = trapezoid ((List.range (n N + 1)).map fun k => (x N k, f (x N k))) := by
      rw [pfArbitraryLoad, List.map_map]
      rfl
    rw [e]
    exact key
  rw [tendsto_iff_dist_tendsto_zero]
  have hlim : Filter.Tendsto (fun N => (δ N) ^ 2 * (b - a) * ζ / 12) Filter.atTop (nhds 0) := by
    have := (((hδ.pow 2).mul_const (b - a)).mul_const ζ).div_const 12
    simpa using this
  refine squeeze_zero (fun _ => dist_nonneg) (fun N => ?_) hlim
  rw [Real.dist_eq]
  exact hbound N

/-- non-vacuity: uniform refinement of `[0, 1]` (`N + 1` steps of length `1/(N+1)`) -/
example (sm ss lm ls : ℝ) :
    Filter.Tendsto
      (fun N : ℕ => pfArbitraryLoad stdNormalCdf sm ss
        ((List.range ((N + 1) + 1)).map fun k : ℕ =>
          ((k : ℝ) / ((N : ℝ) + 1), normPdf ls ((k : ℝ) / ((N : ℝ) + 1) - Transc.log10 lm))))
      Filter.atTop
      (nhds (∫ y in (0 : ℝ)..1,
        normPdf ls (y - Transc.log10 lm) * normCdf stdNormalCdf y (Transc.log10 sm) ss)) := by
  have hpos : ∀ N : ℕ, (0 : ℝ) < (N : ℝ) + 1 := fun N => by positivity
  refine pfArbitraryLoad_gaussian_tendsto sm ss lm ls 0 1
    (fun N k => (k : ℝ) / ((N : ℝ) + 1)) (fun N => N + 1) (fun N => 1 / ((N : ℝ) + 1))
    ?_ ?_ ?_ ?_ ?_
  · intro N; simp
  · intro N; push_cast; exact div_self (hpos N).ne'
  · intro N k _; push_cast
    exact div_le_div_of_nonneg_right (by linarith) (hpos N).le
  · intro N k _; push_cast
    rw [← sub_div]; apply le_of_eq; congr 1; ring
  · exact tendsto_one_div_add_atTop_nhds_zero_nat

end PylifeVerif.GaussianOverlap
