/-
Shared definitions for the periodic-rainflow proofs (C04): strict alternation of a word.
-/
import Model.HCMSpec

namespace PylifeVerif.C04

/-- `Alt up w`: `w` alternates strictly, the first step going up iff `up`. -/
def Alt : Bool → List Int → Prop
  | _, [] => True
  | _, [_] => True
  | up, x :: y :: r => (if up then x < y else y < x) ∧ Alt (!up) (y :: r)

/-- strictly alternating word (either polarity) -/
def Zig (w : List Int) : Prop := ∃ up, Alt up w

instance : ∀ up w, Decidable (Alt up w)
  | _, [] => isTrue trivial
  | _, [_] => isTrue trivial
  | up, x :: y :: r =>
    have := instDecidableAlt (!up) (y :: r)
    by unfold Alt; exact inferInstance

instance (w : List Int) : Decidable (Zig w) := by unfold Zig; exact inferInstance

end PylifeVerif.C04
