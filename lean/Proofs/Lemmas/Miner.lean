/- Helper lemmas for C11 (Miner rule) over ℝ. -/
import Model.Miner
import Proofs.RealNum
import Mathlib.Tactic.Ring
import Mathlib.Tactic.Linarith
import Mathlib.Tactic.Positivity
import Mathlib.Tactic.FieldSimp
import Mathlib.Tactic.NormNum
import Mathlib.Algebra.BigOperators.Group.List.Basic
import Mathlib.Algebra.Order.BigOperators.Group.List

namespace PylifeVerif.Miner
open PylifeVerif

/-- Preconditions on a curve: the real code divides by `SD` and by `N ∝ ND`. -/
structure ValidCurve (c : Curve ℝ) : Prop where
  SD_pos : 0 < c.SD
  ND_pos : 0 < c.ND

/-- Amplitudes and cycle counts are non-negative (negative amplitudes give NaN in `np.power`). -/
def ValidColl (l : Coll ℝ) : Prop := ∀ p ∈ l, 0 ≤ p.1 ∧ 0 ≤ p.2

/-- Some class is occupied and carries load: without it the real code returns NaN/inf
    (`S[hi > 0].max()` of nothing, division by a zero amplitude). -/
def Loaded (l : Coll ℝ) : Prop := ∃ p ∈ l, 0 < p.2 ∧ 0 < p.1

theorem sumL_eq_sum (l : List ℝ) : sumL l = l.sum := by
  induction l with
  | nil => norm_num [sumL]
  | cons x xs ih => simp [sumL, ih]

theorem damageSum_eq (c : Curve ℝ) (l : Coll ℝ) : damageSum c l = (l.map (damageTerm c)).sum := by
  simp [damageSum, damage, sumL_eq_sum]

theorem total_eq (l : Coll ℝ) : total l = (l.map Prod.snd).sum := by
  simp [total, sumL_eq_sum]

/-- the fold behind `maxL` picks an element that bounds all others -/
theorem foldl_max_spec (xs : List ℝ) (x : ℝ) :
    (xs.foldl (fun m y => if m < y then y else m) x = x ∨
      xs.foldl (fun m y => if m < y then y else m) x ∈ xs) ∧
    x ≤ xs.foldl (fun m y => if m < y then y else m) x ∧
    ∀ y ∈ xs, y ≤ xs.foldl (fun m y => if m < y then y else m) x := by
  induction xs generalizing x with
  | nil => simp
  | cons a as ih =>
    simp only [List.foldl_cons]
    obtain ⟨h1, h2, h3⟩ := ih (if x < a then a else x)
    refine ⟨?_, ?_, ?_⟩
    · rcases h1 with h | h
      · by_cases hxa : x < a
        · right; rw [h]; simp [hxa]
        · left; rw [h]; simp [hxa]
      · right; exact List.mem_cons_of_mem _ h
    · by_cases hxa : x < a
      · simp only [hxa, if_true] at h2 ⊢; linarith
      · simpa [hxa] using h2
    · intro y hy
      rcases List.mem_cons.mp hy with rfl | hy
      · by_cases hxa : x < y
        · simpa [hxa] using h2
        · simp only [hxa, if_false] at h2 ⊢; linarith [not_lt.mp hxa]
      · exact h3 y hy

theorem maxL_mem {l : List ℝ} (h : l ≠ []) : maxL l ∈ l := by
  cases l with
  | nil => exact absurd rfl h
  | cons x xs =>
    rcases (foldl_max_spec xs x).1 with h1 | h1
    · simp [maxL, h1]
    · exact List.mem_cons_of_mem _ (by simpa [maxL] using h1)

theorem le_maxL {l : List ℝ} {y : ℝ} (hy : y ∈ l) : y ≤ maxL l := by
  cases l with
  | nil => simp at hy
  | cons x xs =>
    rcases List.mem_cons.mp hy with rfl | hy
    · exact (foldl_max_spec xs y).2.1
    · exact (foldl_max_spec xs x).2.2 y hy

theorem mem_occupied {l : Coll ℝ} {p : ℝ × ℝ} : p ∈ occupied l ↔ p ∈ l ∧ 0 < p.2 := by
  simp only [occupied, List.mem_filter, decide_eq_true_eq]
  norm_num

/-- the largest occupied amplitude is attained by an occupied class and bounds all occupied classes -/
theorem maxOcc_spec {l : Coll ℝ} (h : ∃ p ∈ l, 0 < p.2) :
    (∃ q ∈ l, 0 < q.2 ∧ q.1 = maxOcc l) ∧ ∀ p ∈ l, 0 < p.2 → p.1 ≤ maxOcc l := by
  obtain ⟨p, hp, hp2⟩ := h
  have hne : (occupied l).map Prod.fst ≠ [] := by
    intro h0
    have : p ∈ occupied l := mem_occupied.mpr ⟨hp, hp2⟩
    have : p.1 ∈ (occupied l).map Prod.fst := List.mem_map_of_mem this
    rw [h0] at this; simp at this
  constructor
  · have := maxL_mem hne
    obtain ⟨q, hq, hq1⟩ := List.mem_map.mp this
    obtain ⟨hq, hq2⟩ := mem_occupied.mp hq
    exact ⟨q, hq, hq2, hq1⟩
  · intro r hr hr2
    exact le_maxL (List.mem_map_of_mem (mem_occupied.mpr ⟨hr, hr2⟩))

theorem maxOcc_pos {l : Coll ℝ} (h : Loaded l) : 0 < maxOcc l := by
  obtain ⟨p, hp, hp2, hp1⟩ := h
  exact lt_of_lt_of_le hp1 ((maxOcc_spec ⟨p, hp, hp2⟩).2 p hp hp2)

theorem total_pos {l : Coll ℝ} (hl : ValidColl l) (h : ∃ p ∈ l, 0 < p.2) : 0 < total l := by
  obtain ⟨p, hp, hp2⟩ := h
  rw [total_eq]
  have hnn : ∀ x ∈ l.map Prod.snd, 0 ≤ x := by
    intro x hx
    obtain ⟨q, hq, rfl⟩ := List.mem_map.mp hx
    exact (hl q hq).2
  exact lt_of_lt_of_le hp2 (List.single_le_sum hnn _ (List.mem_map_of_mem hp))

/-- a sum over a list splits along a predicate and its complement -/
theorem sum_filter_split (l : Coll ℝ) (f : ℝ × ℝ → ℝ) (P : ℝ × ℝ → Bool) :
    (l.map f).sum = ((l.filter P).map f).sum + ((l.filter (fun p => !P p)).map f).sum := by
  induction l with
  | nil => simp
  | cons a as ih =>
    by_cases h : P a = true
    · simp [h, ih]; ring
    · simp [h, ih]; ring

end PylifeVerif.Miner
