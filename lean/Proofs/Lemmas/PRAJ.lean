/-
Helper lemmas for the P_RAJ pipeline (`Model/PRAJ.lean`) at the carrier ℝ.
-/
import Model.PRAJ
import Proofs.RealNum
import Proofs.Lemmas.FkmNonlinear
import Mathlib.Analysis.SpecialFunctions.Pow.Real
import Mathlib.Analysis.SpecialFunctions.Pow.Continuity
import Mathlib.Analysis.SpecialFunctions.Sqrt
import Mathlib.Algebra.BigOperators.Group.Finset.Basic
import Mathlib.Algebra.Order.BigOperators.Group.Finset
import Mathlib.Tactic.Linarith
import Mathlib.Tactic.NormNum
import Mathlib.Tactic.Ring
import Mathlib.Tactic.FieldSimp
import Mathlib.Tactic.Positivity

namespace PylifeVerif.PRAJ
open PylifeVerif.FkmNl

/-! ### counts -/

theorem natTo_eq : ∀ k : Nat, (natTo k : ℝ) = (k : ℝ)
  | 0 => by simp [natTo, lit_0]
  | k+1 => by simp only [natTo, natTo_eq k, lit_1]; push_cast; ring

/-! ### `Life` arithmetic -/

theorem Life.add_zero (a : Life ℝ) : Life.add a (.finite (0.0 : ℝ)) = a := by
  cases a with
  | finite x => simp only [Life.add, lit_0, _root_.add_zero]
  | inf => rfl

/-! ### the x-bar loop -/

theorem addRange_succ (dm : Nat → ℝ) : ∀ (cnt : Nat) (d : ℝ) (lo : Nat),
    addRange dm d lo (cnt + 1) = addRange dm d lo cnt + dm (lo + cnt)
  | 0, d, lo => by simp [addRange]
  | cnt+1, d, lo => by
    rw [addRange, addRange_succ dm cnt (d + dm lo) (lo + 1), addRange]
    congr 2; omega

theorem addRange_add (dm : Nat → ℝ) (d : ℝ) (lo a : Nat) : ∀ b : Nat,
    addRange dm (addRange dm d lo a) (lo + a) b = addRange dm d lo (a + b)
  | 0 => by simp [addRange]
  | b+1 => by
    rw [addRange_succ, addRange_add dm d lo a b, ← Nat.add_assoc, addRange_succ]
    congr 2; omega

theorem addRange_eq_sum (dm : Nat → ℝ) : ∀ k : Nat, addRange dm (0.0 : ℝ) 0 k = ∑ i ∈ Finset.range k, dm i
  | 0 => by simp [addRange, lit_0]
  | k+1 => by rw [addRange_succ, addRange_eq_sum dm k, Finset.sum_range_succ, Nat.zero_add]

/-- what one iteration contributes, as a function of `j` alone -/
noncomputable def xT (dm fd : Nat → ℝ) (q j : Nat) : Life ℝ :=
  if q ≤ j then xTerm fd (addRange dm (0.0 : ℝ) 0 (j + 1)) j else .finite 0.0

theorem xStep_fold (dm fd : Nat → ℝ) (q : Nat) : ∀ (cnt j : Nat) (st : XSt ℝ),
    st.den = addRange dm (0.0 : ℝ) 0 st.prev → st.prev ≤ j →
    ((List.range' j cnt).foldl (xStep dm fd q) st).acc =
      (List.range' j cnt).foldl (fun a i => Life.add a (xT dm fd q i)) st.acc
  | 0, _, _, _, _ => rfl
  | cnt+1, j, st, hden, hprev => by
    have hd : addRange dm st.den st.prev (j + 1 - st.prev) = addRange dm (0.0 : ℝ) 0 (j + 1) := by
      rw [hden]
      have := addRange_add dm (0.0 : ℝ) 0 st.prev (j + 1 - st.prev)
      rw [Nat.zero_add] at this
      rw [this]; congr 1; omega
    simp only [List.range'_succ, List.foldl_cons]
    rw [xStep_fold dm fd q cnt (j + 1) (xStep dm fd q st j) (by simp only [xStep]; exact hd) (by simp [xStep])]
    congr 1
    simp only [xStep, xT, hd]

theorem fold_zero_terms (dm fd : Nat → ℝ) (q : Nat) (a : Life ℝ) : ∀ (cnt j : Nat), j + cnt ≤ q →
    (List.range' j cnt).foldl (fun a i => Life.add a (xT dm fd q i)) a = a
  | 0, _, _ => rfl
  | cnt+1, j, h => by
    simp only [List.range'_succ, List.foldl_cons]
    have : xT dm fd q j = .finite 0.0 := by simp only [xT]; rw [if_neg (by omega)]
    rw [this, Life.add_zero]
    exact fold_zero_terms dm fd q a cnt (j + 1) (by omega)

theorem fold_terms_congr (dm fd : Nat → ℝ) (q : Nat) : ∀ (cnt j : Nat) (a : Life ℝ), q ≤ j →
    (List.range' j cnt).foldl (fun a i => Life.add a (xT dm fd q i)) a =
      (List.range' j cnt).foldl (fun acc i => Life.add acc (xTerm fd (addRange dm (0.0 : ℝ) 0 (i + 1)) i)) a
  | 0, _, _, _ => rfl
  | cnt+1, j, a, h => by
    simp only [List.range'_succ, List.foldl_cons]
    have : xT dm fd q j = xTerm fd (addRange dm (0.0 : ℝ) 0 (j + 1)) j := by simp only [xT]; rw [if_pos h]
    rw [this]
    exact fold_terms_congr dm fd q cnt (j + 1) _ (by omega)

/-- The loop of `_compute_xbar_minus_2`, started at any `jmin ≤ q`, is the direct sum over `j = q … n−2` with the
denominator `Σ_{i ≤ j} dm i`: every class is counted once. -/
theorem xbarLoop_eq_xbarSum (dm fd : Nat → ℝ) (q jmin n : Nat) (h : jmin ≤ q) :
    xbarLoop dm fd q jmin n = xbarSum dm fd q n := by
  unfold xbarLoop xbarSum
  rw [xStep_fold dm fd q _ jmin xInit (by simp [xInit, addRange]) (by simp [xInit])]
  simp only [xInit]
  by_cases hq : q ≤ n - 1
  · have hsplit : List.range' jmin (n - 1 - jmin) = List.range' jmin (q - jmin) ++ List.range' q (n - 1 - q) := by
      have := List.range'_append_1 (s := jmin) (m := q - jmin) (n := n - 1 - q)
      rw [show jmin + (q - jmin) = q by omega, show q - jmin + (n - 1 - q) = n - 1 - jmin by omega] at this
      exact this.symm
    rw [hsplit, List.foldl_append, fold_zero_terms dm fd q _ _ jmin (by omega)]
    exact fold_terms_congr dm fd q _ q _ le_rfl
  · rw [show n - 1 - q = 0 by omega, List.range'_zero, List.foldl_nil]
    exact fold_zero_terms dm fd q _ _ jmin (by omega)

/-! ### classes -/

/-- edge `i` of the grid over ℝ -/
noncomputable def edgeAt (n : Nat) (kmax PDe : ℝ) (i : Nat) : ℝ :=
  Transc.pow 10.0 (edgeExp n (Transc.log10 kmax) (Transc.log10 PDe) i)

theorem edges_eq (n : Nat) (kmax PDe : ℝ) : edges n kmax PDe = (List.range (n + 1)).map (edgeAt n kmax PDe) := rfl

theorem edgeExp_eq (n : Nat) (hn : 0 < n) (a b : ℝ) (i : Nat) :
    edgeExp n a b i = a + (i : ℝ) * ((b - a) / (n : ℝ)) := by
  unfold edgeExp
  have hn' : (n : ℝ) ≠ 0 := by exact_mod_cast hn.ne'
  split_ifs with h
  · subst h; field_simp; ring
  · rw [natTo_eq, natTo_eq]; ring

theorem ten_pow_log10 {x : ℝ} (hx : 0 < x) : (10 : ℝ) ^ (Real.log x / Real.log 10) = x := by
  have h10 : (0 : ℝ) < Real.log 10 := Real.log_pos (by norm_num)
  rw [Real.rpow_def_of_pos (by norm_num : (0 : ℝ) < 10), mul_div_cancel₀ _ h10.ne', Real.exp_log hx]

theorem edgeAt_eq (n : Nat) (hn : 0 < n) (kmax PDe : ℝ) (i : Nat) :
    edgeAt n kmax PDe i =
      (10 : ℝ) ^ (Real.log kmax / Real.log 10 + (i : ℝ) * ((Real.log PDe / Real.log 10 - Real.log kmax / Real.log 10) / n)) := by
  simp only [edgeAt, transc_pow, transc_log10, edgeExp_eq n hn]
  norm_num

theorem edgeAt_zero (n : Nat) (hn : 0 < n) {kmax : ℝ} (PDe : ℝ) (hk : 0 < kmax) : edgeAt n kmax PDe 0 = kmax := by
  rw [edgeAt_eq n hn]; simp [ten_pow_log10 hk]

theorem edgeAt_last (n : Nat) (hn : 0 < n) (kmax : ℝ) {PDe : ℝ} (hp : 0 < PDe) : edgeAt n kmax PDe n = PDe := by
  have hn' : (n : ℝ) ≠ 0 := by exact_mod_cast hn.ne'
  rw [edgeAt_eq n hn]
  rw [show Real.log kmax / Real.log 10 + (n : ℝ) * ((Real.log PDe / Real.log 10 - Real.log kmax / Real.log 10) / n)
      = Real.log PDe / Real.log 10 by field_simp; ring]
  exact ten_pow_log10 hp

/-- descending edges: `P_RAJ_D_e < P_RAJ_klass_max` -/
theorem edgeAt_strictAnti (n : Nat) (hn : 0 < n) {kmax PDe : ℝ} (hp : 0 < PDe) (hk : PDe < kmax) :
    StrictAnti (edgeAt n kmax PDe) := by
  intro i j hij
  rw [edgeAt_eq n hn, edgeAt_eq n hn]
  apply Real.rpow_lt_rpow_of_exponent_lt (by norm_num)
  have h10 : (0 : ℝ) < Real.log 10 := Real.log_pos (by norm_num)
  have hlog : Real.log PDe / Real.log 10 - Real.log kmax / Real.log 10 < 0 := by
    rw [← sub_div]; apply div_neg_of_neg_of_pos _ h10
    have := Real.log_lt_log hp hk; linarith
  have hn' : (0 : ℝ) < n := by exact_mod_cast hn
  have hstep : (Real.log PDe / Real.log 10 - Real.log kmax / Real.log 10) / n < 0 := div_neg_of_neg_of_pos hlog hn'
  have hij' : (i : ℝ) < j := by exact_mod_cast hij
  nlinarith

theorem countLt_map_range (f : Nat → ℝ) (P : ℝ) (n i : Nat) (hi : i ≤ n + 1)
    (hlo : ∀ j, j < i → ¬ f j < P) (hhi : ∀ j, i ≤ j → j ≤ n → f j < P) :
    countLt P ((List.range (n + 1)).map f) = n + 1 - i := by
  unfold countLt
  have hsplit : List.range (n + 1) = List.range' 0 i ++ List.range' i (n + 1 - i) := by
    have := List.range'_append_1 (s := 0) (m := i) (n := n + 1 - i)
    rw [Nat.zero_add, show i + (n + 1 - i) = n + 1 by omega] at this
    rw [List.range_eq_range', this]
  rw [hsplit, List.map_append, List.filter_append, List.length_append]
  have h1 : ((List.range' 0 i).map f).filter (fun e => decide (e < P)) = [] := by
    rw [List.filter_eq_nil_iff]
    intro e he
    obtain ⟨j, hj, rfl⟩ := List.mem_map.mp he
    have := (List.mem_range'_1.mp hj).2
    simpa using hlo j (by omega)
  have h2 : ((List.range' i (n + 1 - i)).map f).filter (fun e => decide (e < P)) = (List.range' i (n + 1 - i)).map f := by
    rw [List.filter_eq_self]
    intro e he
    obtain ⟨j, hj, rfl⟩ := List.mem_map.mp he
    have := List.mem_range'_1.mp hj
    simpa using hhi j this.1 (by omega)
  rw [h1, h2]; simp

/-- a value inside class `i` (`edge (i+1) < P ≤ edge i`) gets the class index `i` -/
theorem classIdx_of_mem (n : Nat) (hn : 0 < n) {kmax PDe : ℝ} (hp : 0 < PDe) (hk : PDe < kmax) (P : ℝ) (i : Nat) (hi : i < n)
    (h1 : edgeAt n kmax PDe (i + 1) < P) (h2 : P ≤ edgeAt n kmax PDe i) :
    classIdx n (edges n kmax PDe) P = (i : Int) := by
  have ha := edgeAt_strictAnti n hn hp hk
  unfold classIdx
  rw [edges_eq, countLt_map_range (edgeAt n kmax PDe) P n (i + 1) (by omega)
    (fun j hj => not_lt.mpr (le_trans h2 (ha.antitone (by omega))))
    (fun j hj _ => lt_of_le_of_lt (ha.antitone hj) h1)]
  omega

/-- at or below `P_RAJ_D_e`: index `n_bins` (not counted in a class) -/
theorem classIdx_below (n : Nat) (hn : 0 < n) {kmax PDe : ℝ} (hp : 0 < PDe) (hk : PDe < kmax) (P : ℝ) (h : P ≤ PDe) :
    classIdx n (edges n kmax PDe) P = (n : Int) := by
  have ha := edgeAt_strictAnti n hn hp hk
  unfold classIdx
  rw [edges_eq, countLt_map_range (edgeAt n kmax PDe) P n (n + 1) (by omega)
    (fun j hj => not_lt.mpr (le_trans h (le_trans (le_of_eq (edgeAt_last n hn kmax hp).symm) (ha.antitone (by omega)))))
    (fun j hj hj' => by omega)]
  omega

/-- above `P_RAJ_klass_max`: index `−1` (numpy addresses the last column, which is cut off: the hysteresis is dropped) -/
theorem classIdx_above (n : Nat) (hn : 0 < n) {kmax PDe : ℝ} (hp : 0 < PDe) (hk : PDe < kmax) (P : ℝ) (h : kmax < P) :
    classIdx n (edges n kmax PDe) P = -1 := by
  have ha := edgeAt_strictAnti n hn hp hk
  unfold classIdx
  rw [edges_eq, countLt_map_range (edgeAt n kmax PDe) P n 0 (by omega) (fun j hj => by omega)
    (fun j _ _ => lt_of_le_of_lt (le_trans (ha.antitone (Nat.zero_le j)) (le_of_eq (edgeAt_zero n hn PDe (lt_trans hp hk)))) h)]
  omega

/-- existence of the class of a value in `(P_RAJ_D_e, P_RAJ_klass_max]` -/
theorem exists_class (n : Nat) (hn : 0 < n) {kmax PDe : ℝ} (hp : 0 < PDe) (hk : PDe < kmax) (P : ℝ) (h1 : PDe < P) (h2 : P ≤ kmax) :
    ∃ i, i < n ∧ edgeAt n kmax PDe (i + 1) < P ∧ P ≤ edgeAt n kmax PDe i := by
  classical
  have hex : ∃ j, edgeAt n kmax PDe j < P := ⟨n, by rw [edgeAt_last n hn kmax hp]; exact h1⟩
  have hfind := Nat.find_spec hex
  have hmin := fun j => Nat.find_min hex (m := j)
  have hle : Nat.find hex ≤ n := Nat.find_min' hex (by rw [edgeAt_last n hn kmax hp]; exact h1)
  have hne : Nat.find hex ≠ 0 := by
    intro h0; rw [h0, edgeAt_zero n hn PDe (lt_trans hp hk)] at hfind; linarith
  refine ⟨Nat.find hex - 1, by omega, ?_, ?_⟩
  · rw [show Nat.find hex - 1 + 1 = Nat.find hex by omega]; exact hfind
  · exact not_lt.mp (hmin (Nat.find hex - 1) (by omega))

/-! ### class counts and the class-wise damage sum -/

theorem binnedH_getD (n : Nat) (es : List ℝ) (PDe : ℝ) (Ps : List ℝ) (i : Nat) (hi : i < n) :
    (binnedH n es PDe Ps).getD i 0 = (Ps.filter (inClass n es PDe i)).length := by
  unfold binnedH
  rw [List.getD_eq_getElem?_getD, List.getElem?_map, List.getElem?_range hi]; rfl

theorem binnedH_cons (n : Nat) (es : List ℝ) (PDe P : ℝ) (Ps : List ℝ) (i : Nat) (hi : i < n) :
    (binnedH n es PDe (P :: Ps)).getD i 0 = (if inClass n es PDe i P then 1 else 0) + (binnedH n es PDe Ps).getD i 0 := by
  rw [binnedH_getD n es PDe _ i hi, binnedH_getD n es PDe _ i hi, List.filter_cons]
  split_ifs <;> simp [Nat.add_comm]

/-- the value is counted in one of the `n` classes -/
def Counted (n : Nat) (es : List ℝ) (PDe P : ℝ) : Prop := PDe < P ∧ 0 ≤ classIdx n es P ∧ classIdx n es P < n

noncomputable instance (n : Nat) (es : List ℝ) (PDe P : ℝ) : Decidable (Counted n es PDe P) := by unfold Counted; infer_instance

theorem sum_inClass (n : Nat) (es : List ℝ) (PDe P : ℝ) (w : Nat → ℝ) :
    (∑ i ∈ Finset.range n, (if inClass n es PDe i P then w i else 0)) =
      if Counted n es PDe P then w (classIdx n es P).toNat else 0 := by
  by_cases hc : Counted n es PDe P
  · rw [if_pos hc]
    obtain ⟨h1, h2, h3⟩ := hc
    have hmem : (classIdx n es P).toNat ∈ Finset.range n := by rw [Finset.mem_range]; omega
    rw [Finset.sum_eq_single_of_mem _ hmem]
    · rw [if_pos]; simp only [inClass, Bool.and_eq_true, decide_eq_true_eq]; exact ⟨by omega, h1⟩
    · intro j _ hj
      rw [if_neg]; simp only [inClass, Bool.and_eq_true, decide_eq_true_eq, not_and]
      intro h; exfalso; apply hj; omega
  · rw [if_neg hc]
    apply Finset.sum_eq_zero
    intro j hj
    rw [if_neg]; simp only [inClass, Bool.and_eq_true, decide_eq_true_eq, not_and]
    intro h hP; apply hc; exact ⟨hP, by omega, by rw [Finset.mem_range] at hj; omega⟩

/-- class-wise sum of a weight = hysteresis-wise sum of the weight of the hysteresis' class -/
theorem classwise_sum (n : Nat) (es : List ℝ) (PDe : ℝ) (w : Nat → ℝ) : ∀ Ps : List ℝ,
    (∑ i ∈ Finset.range n, ((binnedH n es PDe Ps).getD i 0 : ℝ) * w i) =
      (Ps.map fun P => if Counted n es PDe P then w (classIdx n es P).toNat else 0).sum
  | [] => by
    simp only [List.map_nil, List.sum_nil]
    apply Finset.sum_eq_zero
    intro i hi
    rw [binnedH_getD n es PDe _ i (Finset.mem_range.mp hi)]; simp
  | P :: Ps => by
    rw [List.map_cons, List.sum_cons, ← classwise_sum n es PDe w Ps, ← sum_inClass, ← Finset.sum_add_distrib]
    apply Finset.sum_congr rfl
    intro i hi
    rw [binnedH_cons n es PDe P Ps i (Finset.mem_range.mp hi)]
    split_ifs <;> push_cast <;> ring

/-! ### `P_RAJ` of a hysteresis on the Masing branch -/

/-- admissible cyclic material data -/
def Mat.Adm (m : Mat ℝ) : Prop := 0 < m.E ∧ 0 < m.K ∧ 0 < m.n

/-- `P_RAJ` as a function of the effective stress range `t ≥ 0` when the effective strain range is the Masing
(doubled Ramberg-Osgood) strain range of `t`: `1.24 t²/E + 1.02/√n' · t · 2 (t/(2K'))^(1/n')` -/
noncomputable def gOf (m : Mat ℝ) (t : ℝ) : ℝ :=
  1.24 * (t * t) / m.E + 1.02 / Real.sqrt m.n * (2 * (t * (t / 2 / m.K) ^ (1 / m.n)))

theorem mul_sign_half (x : ℝ) : x * (Transc.sign (x / 2) : ℝ) = |x| := by
  simp only [transc_sign]
  rcases lt_trichotomy x 0 with h | h | h
  · rw [if_neg (by linarith), if_pos (by linarith), abs_of_neg h]; ring
  · subst h; simp
  · rw [if_pos (by linarith), abs_of_pos h]; ring

theorem deltaStrain_eq (m : Mat ℝ) (x : ℝ) :
    deltaStrain m x = x / m.E + 2 * ((Transc.sign (x / 2) : ℝ) * (|x| / 2 / m.K) ^ (1 / m.n)) := by
  simp only [deltaStrain, roStrain, transc_pow, transc_abs, lit_2, lit_1]
  rw [abs_div, abs_two]; ring

/-- on the Masing branch the parameter depends on `|ΔS_eff|` only -/
theorem prajValue_masing (m : Mat ℝ) (x : ℝ) : prajValue m x (deltaStrain m x) = gOf m |x| := by
  rw [deltaStrain_eq]
  simp only [prajValue, gOf, transc_sqrt]
  have h1 : x * x = |x| * |x| := (abs_mul_abs_self x).symm
  have h2 := mul_sign_half x
  set p := (|x| / 2 / m.K) ^ (1 / m.n)
  set sg := (Transc.sign (x / 2) : ℝ)
  rw [h1]
  have : 1.02 / Real.sqrt m.n * x * (x / m.E + 2 * (sg * p) - x / m.E) = 1.02 / Real.sqrt m.n * (2 * ((x * sg) * p)) := by ring
  rw [this, h2]

theorem gOf_zero (m : Mat ℝ) (hm : m.Adm) : gOf m 0 = 0 := by
  simp [gOf]

theorem gOf_strictMonoOn (m : Mat ℝ) (hm : m.Adm) : StrictMonoOn (gOf m) (Set.Ici 0) := by
  obtain ⟨hE, hK, hn⟩ := hm
  intro s hs t ht hst
  simp only [Set.mem_Ici] at hs ht
  have hc : 0 < 1.02 / Real.sqrt m.n := div_pos (by norm_num) (Real.sqrt_pos.mpr hn)
  have hexp : 0 ≤ 1 / m.n := by positivity
  have h1 : s * s < t * t := by nlinarith
  have h2 : (s / 2 / m.K) ^ (1 / m.n) ≤ (t / 2 / m.K) ^ (1 / m.n) :=
    Real.rpow_le_rpow (by positivity) (by gcongr) hexp
  have h3 : 0 ≤ (s / 2 / m.K) ^ (1 / m.n) := Real.rpow_nonneg (by positivity) _
  have h4 : s * (s / 2 / m.K) ^ (1 / m.n) ≤ t * (t / 2 / m.K) ^ (1 / m.n) := by nlinarith
  simp only [gOf]
  have h5 : 1.24 * (s * s) / m.E < 1.24 * (t * t) / m.E := by
    apply div_lt_div_of_pos_right _ hE; nlinarith
  have h6 : 1.02 / Real.sqrt m.n * (2 * (s * (s / 2 / m.K) ^ (1 / m.n))) ≤ 1.02 / Real.sqrt m.n * (2 * (t * (t / 2 / m.K) ^ (1 / m.n))) := by
    apply mul_le_mul_of_nonneg_left _ hc.le; linarith
  linarith

theorem gOf_nonneg (m : Mat ℝ) (hm : m.Adm) {t : ℝ} (ht : 0 ≤ t) : 0 ≤ gOf m t := by
  rw [← gOf_zero m hm]
  exact (gOf_strictMonoOn m hm).monotoneOn (Set.mem_Ici.mpr le_rfl) (Set.mem_Ici.mpr ht) ht

theorem gOf_eq_zero_iff (m : Mat ℝ) (hm : m.Adm) {t : ℝ} (ht : 0 ≤ t) : gOf m t = 0 ↔ t = 0 := by
  constructor
  · intro h
    by_contra hne
    have hpos : 0 < t := lt_of_le_of_ne ht (Ne.symm hne)
    have := gOf_strictMonoOn m hm (Set.mem_Ici.mpr le_rfl) (Set.mem_Ici.mpr ht) hpos
    rw [gOf_zero m hm, h] at this
    exact lt_irrefl _ this
  · rintro rfl; exact gOf_zero m hm

theorem gOf_continuous (m : Mat ℝ) (hm : m.Adm) : Continuous (gOf m) := by
  obtain ⟨hE, hK, hn⟩ := hm
  have hexp : 0 ≤ 1 / m.n := by positivity
  unfold gOf
  have hp : Continuous fun t : ℝ => (t / 2 / m.K) ^ (1 / m.n) :=
    Continuous.rpow_const (by fun_prop) (fun _ => Or.inr hexp)
  fun_prop

end PylifeVerif.PRAJ
