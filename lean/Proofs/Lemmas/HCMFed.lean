/-
The first-node values of the turning points that the two passes of the HCM detector are fed, and the
fact that consecutive ones differ.
-/
import Proofs.Lemmas.HCMFlush

namespace PylifeVerif.HCM
open PylifeVerif.Rainflow

/-- consecutive values (starting from `a`) differ -/
def chainNe : Int → List Int → Prop
  | _, [] => True
  | a, b :: l => a ≠ b ∧ chainNe b l

theorem chainNe_append_singleton (z : Int) : ∀ (l : List Int) (a : Int),
    chainNe a (l ++ [z]) ↔ chainNe a l ∧ l.getLastD a ≠ z := by
  intro l
  induction l with
  | nil => intro a; simp [chainNe]
  | cons b l ih => intro a; simp only [List.cons_append, chainNe, List.getLastD_cons, ih b, and_assoc]

theorem altEnd_chainNe : ∀ (l : List Int) (up : Bool) (v d nxt : Int), AltEnd up v l d nxt → chainNe v l := by
  intro l
  induction l with
  | nil => intro up v d nxt _; trivial
  | cons w l ih =>
    intro up v d nxt h
    obtain ⟨h1, h2⟩ := h
    refine ⟨?_, ih _ _ _ _ h2⟩
    cases up <;> simp [dlt] at h1 <;> omega

/-- the values of the turning points of a signal alternate, starting from the first sample -/
theorem findTurns_chainNe (x0 : Int) (xs : List Int) :
    chainNe x0 ((findTurns (x0 :: xs)).map (·.2)) := by
  obtain ⟨up, h⟩ := findTurns_altEnd x0 xs []
  exact altEnd_chainNe _ _ _ _ _ h

/-! ### `prevLoad` after a pass -/

theorem foldl_turnStep_snd (law : Law) (loads : List Vec) : ∀ acc : State × Int,
    (loads.foldl (turnStep law) acc).2 = (loads.map rep).getLastD acc.2 := by
  induction loads with
  | nil => intro acc; rfl
  | cons l ls ih => intro acc; simp only [List.foldl_cons, List.map_cons, List.getLastD_cons]; rw [ih]; rfl

theorem process_prevLoad (law : Law) (st : State) (samples : List Vec) (flush : Bool) :
    (process law st samples flush).prevLoad =
      ((procLoads st samples flush).map rep).getLastD st.prevLoad := by
  rw [process_eq]; exact foldl_turnStep_snd law _ _

/-! ### the fed values -/

theorem newTurns_init_flush_fst (xs : List Int) (hne : xs ≠ []) :
    (newTurns {} xs true).1 = { tail := [xs.getLast hne], head := xs.length } := by
  have hemp : xs.isEmpty = false := by cases xs <;> simp_all
  have hk := lastIdx_findTurns_lt xs hne
  have hd : (xs.drop (lastIdx (findTurns xs))).isEmpty = false := by
    rw [List.isEmpty_eq_false_iff]; intro h; rw [List.drop_eq_nil_iff] at h; omega
  have hl : (xs.drop (lastIdx (findTurns xs))).getLast! = xs.getLast hne := by
    rw [List.getLast!_eq_getLast?_getD, List.getLast?_drop, if_neg (by omega),
      List.getLast?_eq_some_getLast hne]; rfl
  unfold newTurns
  simp only [hemp, Bool.false_eq_true, if_false, List.nil_append, Bool.true_and]
  change (if (!(xs.drop (lastIdx (findTurns xs))).isEmpty) = true then
      (({ tail := [(xs.drop (lastIdx (findTurns xs))).getLast!], head := 0 + xs.length } : TurnState),
        (_ : List Pt))
    else (_ : TurnState × List Pt)).1 = _
  rw [hd, hl]
  simp

/-- first pass with flush: the decided turning points of the chunk, then its last sample -/
theorem procLoads_init_flush (samples : List Vec) (hne : samples ≠ []) :
    (procLoads {} samples true).map rep =
      (findTurns (samples.map rep)).map (·.2) ++ [(samples.map rep).getLast (by simpa using hne)] := by
  unfold procLoads
  rw [show ({} : State).ts = {} from rfl, newTurns_init_flush _ (by simpa using hne)]
  simp only [List.map_append, List.map_map, List.map_cons, List.map_nil, Nat.not_lt_zero, if_false,
    Nat.sub_zero, Function.comp_def]
  congr 1
  · apply List.map_congr_left
    intro p hp
    have hv := Sym.findTurns_index_valid _ p hp
    rw [List.getElem?_map] at hv
    cases hs : samples[p.1]? with
    | none => rw [hs] at hv; cases hv
    | some v =>
      rw [hs] at hv
      simp only [Option.map_some, Option.some.injEq] at hv
      rw [getElem!_of_getElem? samples p.1 v hs]; exact hv
  · simp only [List.length_map, List.cons.injEq, and_true]
    rw [getElem!_of_getElem? samples (samples.length - 1) (samples.getLast hne)
      (by rw [List.getLast_eq_getElem, List.getElem?_eq_getElem])]
    simp [List.getLast_map]

theorem newTurns_tail1_flush (d : Int) (h : Nat) (xs : List Int) (hxs : xs ≠ []) :
    (newTurns { tail := [d], head := h } xs true).2 =
      (findTurns (d :: xs)).map (fun p => (p.1 + (h - 1), p.2)) ++ [(h + xs.length - 1, xs.getLast hxs)] := by
  have hemp : xs.isEmpty = false := by cases xs <;> simp_all
  have hk := lastIdx_findTurns_lt (d :: xs) (by simp)
  have hd : ((d :: xs).drop (lastIdx (findTurns (d :: xs)))).isEmpty = false := by
    rw [List.isEmpty_eq_false_iff]; intro h; rw [List.drop_eq_nil_iff] at h; omega
  have hl : ((d :: xs).drop (lastIdx (findTurns (d :: xs)))).getLast! = xs.getLast hxs := by
    rw [List.getLast!_eq_getLast?_getD, List.getLast?_drop, if_neg (by omega)]
    obtain ⟨y, ys, rfl⟩ := List.exists_cons_of_ne_nil hxs
    rw [List.getLast?_cons_cons, List.getLast?_eq_some_getLast (List.cons_ne_nil _ _)]; rfl
  unfold newTurns
  simp only [hemp, Bool.false_eq_true, if_false, Bool.true_and]
  change (if (!((d :: xs).drop (lastIdx (findTurns (d :: xs)))).isEmpty) = true then
      ((_ : TurnState), ((findTurns (d :: xs)).map (fun p => (p.fst + (h - 1), p.snd))) ++
        [(h + xs.length - 1, ((d :: xs).drop (lastIdx (findTurns (d :: xs)))).getLast!)])
    else (_ : TurnState × List Pt)).2 = _
  rw [hd, hl]
  simp

/-- a flushing pass that starts from the one-sample tail `[d]`: the turning points of `d :: chunk`,
then the last sample of the chunk -/
theorem procLoads_tail1_flush (st : State) (d : Int) (h : Nat) (hh : 0 < h)
    (hts : st.ts = { tail := [d], head := h }) (samples : List Vec) (hne : samples ≠ []) :
    (procLoads st samples true).map rep =
      (findTurns (d :: samples.map rep)).map (·.2) ++
        [(samples.map rep).getLast (by simpa using hne)] := by
  unfold procLoads
  rw [hts, newTurns_tail1_flush d h _ (by simpa using hne)]
  simp only [List.map_append, List.map_map, List.map_cons, List.map_nil, Function.comp_def]
  congr 1
  · apply List.map_congr_left
    intro p hp
    have hpos := findTurns_idx_pos _ p hp
    have hv := Sym.findTurns_index_valid _ p hp
    obtain ⟨k, hk⟩ : ∃ k, p.1 = k + 1 := ⟨p.1 - 1, by omega⟩
    rw [hk, List.getElem?_cons_succ, List.getElem?_map] at hv
    rw [if_neg (by omega), show p.1 + (h - 1) - h = k by omega]
    cases hs : samples[k]? with
    | none => rw [hs] at hv; cases hv
    | some v =>
      rw [hs] at hv
      simp only [Option.map_some, Option.some.injEq] at hv
      rw [getElem!_of_getElem? samples k v hs]; exact hv
  · simp only [List.length_map, List.cons.injEq, and_true]
    have hlen : 0 < samples.length := List.length_pos_of_ne_nil hne
    rw [if_neg (by omega), show h + samples.length - 1 - h = samples.length - 1 by omega,
      getElem!_of_getElem? samples (samples.length - 1) (samples.getLast hne)
      (by rw [List.getLast_eq_getElem, List.getElem?_eq_getElem])]
    simp [List.getLast_map]


/-! ### the last turning point differs from the last sample when the last step is not zero -/

theorem last_turn_ne_last (x0 : Int) (xs w0 : List Int) (a l : Int) (hal : a ≠ l)
    (hw : x0 :: xs = w0 ++ [a, l]) :
    ((findTurns (x0 :: xs)).map (·.2)).getLastD x0 ≠ l := by
  intro hcon
  have hlen : (x0 :: xs).length = w0.length + 2 := by rw [hw]; simp
  -- the stretch behind the last turning point has no turning point
  have hrest := findTurns_restart (x0 :: xs) []
  simp only [List.append_nil] at hrest
  have hnil : findTurns ((x0 :: xs).drop (lastIdx (findTurns (x0 :: xs)))) = [] := by
    have : shiftPts (lastIdx (findTurns (x0 :: xs)))
        (findTurns ((x0 :: xs).drop (lastIdx (findTurns (x0 :: xs))))) = [] := by
      have h := congrArg List.length hrest
      simp only [List.length_append] at h
      exact List.eq_nil_of_length_eq_zero (by omega)
    simpa [shiftPts] using this
  -- its first element is the value of the last turning point
  obtain ⟨rest, hdrop, hL⟩ : ∃ rest, (x0 :: xs).drop (lastIdx (findTurns (x0 :: xs))) =
      ((findTurns (x0 :: xs)).map (·.2)).getLastD x0 :: rest ∧
      lastIdx (findTurns (x0 :: xs)) ≤ w0.length := by
    cases hT : (findTurns (x0 :: xs)).getLast? with
    | none =>
      rw [List.getLast?_eq_none_iff] at hT
      rw [hT]; exact ⟨xs, rfl, Nat.zero_le _⟩
    | some p =>
      have hp := List.mem_of_getLast? hT
      have hv := Sym.findTurns_index_valid _ p hp
      have hlt := findTurns_idx_lt _ p hp
      have hLp : lastIdx (findTurns (x0 :: xs)) = p.1 := by unfold lastIdx; rw [hT]
      have hval : ((findTurns (x0 :: xs)).map (·.2)).getLastD x0 = p.2 := by
        rw [List.getLastD_eq_getLast?, List.getLast?_map, hT]; rfl
      rw [hLp, hval]
      have hlt' : p.1 < (x0 :: xs).length := by omega
      refine ⟨(x0 :: xs).drop (p.1 + 1), ?_, by omega⟩
      rw [← List.getElem_cons_drop (h := hlt')]
      congr 1
      rw [List.getElem?_eq_getElem hlt'] at hv
      exact Option.some.inj hv
  rw [hdrop, hcon] at hnil
  have hdrop2 : (x0 :: xs).drop (lastIdx (findTurns (x0 :: xs))) =
      w0.drop (lastIdx (findTurns (x0 :: xs))) ++ [a, l] := by
    generalize lastIdx (findTurns (x0 :: xs)) = L at hL
    rw [hw, List.drop_append_of_le_length hL]
  rw [hdrop, hcon] at hdrop2
  have hlast : rest.getLastD l = l := by
    rw [← getLast_cons_eq_getLastD]
    simp only [hdrop2]
    simp
  have ha : a ∈ l :: rest := by rw [hdrop2]; simp
  simp only [findTurns] at hnil
  obtain ⟨_, _, c⟩ := findTurnsAux_nil_between _ _ _ _ _ hnil
  rw [hlast] at c
  have hall : ∀ x ∈ rest, x = l := by
    intro x hx
    rcases c rfl with h | h
    · have := h.2 x hx; omega
    · have := h.2 x hx; omega
  rcases List.mem_cons.mp ha with h | h
  · exact hal h
  · exact hal (hall a h)


/-! ### no ties when the first pass flushes -/

theorem adjustFirstRun_reps (s' : List Vec) :
    (adjustFirstRunR s').1.map rep = 0 :: s'.map rep := by
  rw [adjustFirstRun_fst, List.map_cons, rep_replicate_zero]

theorem split_last (Q : List Int) (hQ : Q ≠ []) :
    (0 :: Q) ++ Q = (0 :: Q.dropLast) ++ Q.getLast hQ :: Q := by
  have h : 0 :: Q = (0 :: Q.dropLast) ++ [Q.getLast hQ] := by
    rw [List.cons_append, List.dropLast_append_getLast]
  calc (0 :: Q) ++ Q = ((0 :: Q.dropLast) ++ [Q.getLast hQ]) ++ Q := by rw [← h]
    _ = _ := by rw [List.append_assoc]; rfl

theorem split_last2 (Q : List Int) (hQ : Q ≠ []) :
    0 :: Q = (0 :: Q.dropLast).dropLast ++
      [(0 :: Q.dropLast).getLast (List.cons_ne_nil _ _), Q.getLast hQ] := by
  have h1 : 0 :: Q = (0 :: Q.dropLast) ++ [Q.getLast hQ] := by
    rw [List.cons_append, List.dropLast_append_getLast]
  have h2 := List.dropLast_append_getLast (List.cons_ne_nil 0 Q.dropLast)
  calc 0 :: Q = (0 :: Q.dropLast) ++ [Q.getLast hQ] := h1
    _ = ((0 :: Q.dropLast).dropLast ++ [(0 :: Q.dropLast).getLast (List.cons_ne_nil _ _)]) ++
          [Q.getLast hQ] := by rw [h2]
    _ = _ := by rw [List.append_assoc]; rfl

/-- if the first pass flushes, the last step of the zero-prefixed sequence is not zero -/
theorem flag_last_step (s' : List Vec) (hf : (adjustFirstRunR s').2 = true) :
    ∃ w0 a l, a ≠ l ∧ (0 :: s'.map rep) = w0 ++ [a, l] := by
  unfold adjustFirstRunR at hf
  simp only [List.map_cons, rep_replicate_zero, List.tail_cons, List.length_cons,
    Nat.add_sub_cancel] at hf
  rw [List.contains_iff_mem] at hf
  obtain ⟨p, hp, hpk⟩ := List.mem_map.mp hf
  by_cases hq : s'.map rep = []
  · rw [hq] at hp; simp [findTurns, findTurnsAux] at hp
  · have hlen : (0 :: (s'.map rep).dropLast).length = s'.length := by
      have := congrArg List.length (List.dropLast_append_getLast hq)
      simp only [List.length_append, List.length_cons, List.length_nil, List.length_map] at this ⊢
      omega
    rw [show (0 :: List.map rep s' ++ List.map rep s') = (0 :: s'.map rep) ++ s'.map rep from rfl,
      split_last _ hq] at hp
    have := (findTurns_at_iff (0 :: (s'.map rep).dropLast) (List.cons_ne_nil _ _)
      ((s'.map rep).getLast hq) (s'.map rep)).mp ⟨p, hp, by rw [hlen]; exact hpk⟩
    have hne : (0 :: (s'.map rep).dropLast).getLast (List.cons_ne_nil _ _) ≠ (s'.map rep).getLast hq := by
      intro h; apply this.1; rw [h]; exact Rainflow.sgn_self _
    exact ⟨_, _, _, hne, split_last2 _ hq⟩

/-- **No ties.**  If the first pass flushes, then in both passes consecutive fed turning points have
different first-node loads (the check against the last one fed in pass 2 is not needed). -/
theorem chains_of_flush (law : Law) (s' : List Vec) (hf : (adjustFirstRunR s').2 = true) :
    chainNe 0 ((procLoads {} (adjustFirstRunR s').1 true).map rep) ∧
    chainNe (process law {} (adjustFirstRunR s').1 true).prevLoad
      (((procLoads (process law {} (adjustFirstRunR s').1 true) s' true).map rep).dropLast) := by
  obtain ⟨w0, a, l, hal, hw⟩ := flag_last_step s' hf
  have hne1 : (adjustFirstRunR s').1 ≠ [] := by rw [adjustFirstRun_fst]; exact List.cons_ne_nil _ _
  have hq : s' ≠ [] := by
    intro h; rw [h] at hw
    have := congrArg List.length hw
    simp at this
  have hlast : ((adjustFirstRunR s').1.map rep).getLast (by simpa using hne1) = l := by
    simp only [adjustFirstRun_reps, hw]; simp
  have hlast' : (s'.map rep).getLast (by simpa using hq) = l := by
    have h1 : (0 :: s'.map rep).getLast (List.cons_ne_nil _ _) = l := by simp only [hw]; simp
    rw [List.getLast_cons (by simpa using hq)] at h1; exact h1
  have hl1 := procLoads_init_flush (adjustFirstRunR s').1 hne1
  rw [hlast] at hl1
  have hval : ((findTurns ((adjustFirstRunR s').1.map rep)).map (·.2)).getLastD 0 ≠ l := by
    rw [adjustFirstRun_reps]
    exact last_turn_ne_last 0 (s'.map rep) w0 a l hal hw
  refine ⟨?_, ?_⟩
  · rw [hl1, chainNe_append_singleton]
    refine ⟨?_, hval⟩
    rw [adjustFirstRun_reps]; exact findTurns_chainNe 0 _
  · have hprev : (process law {} (adjustFirstRunR s').1 true).prevLoad = l := by
      rw [process_prevLoad, hl1, List.getLastD_eq_getLast?]; simp
    have hts : (process law {} (adjustFirstRunR s').1 true).ts =
        { tail := [l], head := ((adjustFirstRunR s').1.map rep).length } := by
      rw [process_ts, show ({} : State).ts = {} from rfl,
        newTurns_init_flush_fst _ (by simpa using hne1), hlast]
    have hl2 := procLoads_tail1_flush (process law {} (adjustFirstRunR s').1 true) l _
      (by rw [adjustFirstRun_reps]; simp) hts s' hq
    rw [hprev, hl2, List.dropLast_concat]
    exact findTurns_chainNe l _


/-! ### constant sequences: the first pass is fed nothing, the second one load -/

theorem const_no_turns (c : Int) (l : List Int) (hl : ∀ x ∈ l, x = c) :
    ∀ (dir : Int) (cand : Pt) (i : Nat) (prev : Int), (dir = 0 ∨ c = prev ∨ sgn (c - prev) = dir) →
    findTurnsAux dir cand i prev l = [] := by
  induction l with
  | nil => intros; rfl
  | cons y ys ih =>
    intro dir cand i prev h
    have hy : y = c := hl y List.mem_cons_self
    subst hy
    have ih' := ih (fun x hx => hl x (List.mem_cons_of_mem _ hx))
    simp only [findTurnsAux]
    by_cases hd : sgn (y - prev) = 0
    · rw [if_pos hd]
      have := Rainflow.sgn_eq_zero hd
      exact ih' dir cand (i+1) y (Or.inr (Or.inl rfl))
    · rw [if_neg hd]
      have hno : ¬ (dir ≠ 0 ∧ sgn (y - prev) ≠ dir) := by
        rintro ⟨h1, h2⟩
        rcases h with h | h | h
        · exact h1 h
        · apply hd; rw [h]; exact Rainflow.sgn_self _
        · exact h2 h
      rw [if_neg hno]
      exact ih' _ _ _ y (Or.inr (Or.inl rfl))

theorem findTurns_zero_const (c : Int) (l : List Int) (hl : ∀ x ∈ l, x = c) : findTurns (0 :: l) = [] :=
  const_no_turns c l hl 0 (0, 0) 1 0 (Or.inl rfl)

theorem findTurns_const (c : Int) (l : List Int) (hl : ∀ x ∈ l, x = c) : findTurns l = [] := by
  cases l with
  | nil => rfl
  | cons x xs =>
    exact const_no_turns c xs (fun y hy => hl y (List.mem_cons_of_mem _ hy)) 0 (0, x) 1 x (Or.inl rfl)

theorem newTurns_length_le_one (ts : TurnState) (xs : List Int) (flush : Bool)
    (h : findTurns (ts.tail ++ xs) = []) : (newTurns ts xs flush).2.length ≤ 1 := by
  unfold newTurns
  by_cases hx : xs.isEmpty = true
  · simp [hx]
  · simp only [hx, h, Bool.false_eq_true, if_false, List.map_nil, List.nil_append]
    have key : ∀ (c : Prop) [Decidable c] (a b : TurnState × List Pt),
        a.2.length ≤ 1 → b.2.length ≤ 1 → (if c then a else b).2.length ≤ 1 := by
      intro c _ a b ha hb; split_ifs <;> assumption
    apply key <;> simp

/-- For a sequence whose first-node loads are all equal, the first pass is fed nothing and the
second pass at most one turning point. -/
theorem loads_of_const (law : Law) (s : List Vec) (c : Int) (hc : ∀ x ∈ s.map rep, x = c) :
    procLoads {} (adjustFirstRunR (dropTrailingNonReversals s)).1
        (adjustFirstRunR (dropTrailingNonReversals s)).2 = [] ∧
    (procLoads (process law {} (adjustFirstRunR (dropTrailingNonReversals s)).1
        (adjustFirstRunR (dropTrailingNonReversals s)).2) (dropTrailingNonReversals s) true).length ≤ 1 := by
  have hcc : ∀ x ∈ s.map rep ++ s.map rep, x = c := by
    intro x hx; rcases List.mem_append.mp hx with h | h <;> exact hc x h
  have hdrop : dropTrailingNonReversals s = s := by
    unfold dropTrailingNonReversals
    simp [findTurns_const c _ hcc]
  rw [hdrop]
  have hflag : (adjustFirstRunR s).2 = false := by
    unfold adjustFirstRunR
    simp only [List.map_cons, rep_replicate_zero, List.tail_cons, List.cons_append]
    rw [findTurns_zero_const c _ hcc]; rfl
  rw [hflag]
  have hnt : newTurns {} ((adjustFirstRunR s).1.map rep) false =
      (canonTs (0 :: s.map rep), newTurnsOf [] (0 :: s.map rep)) := by
    rw [adjustFirstRun_reps]
    have := newTurns_canon [] (0 :: s.map rep) (List.cons_ne_nil _ _)
    simpa [canonTs_nil] using this
  have hno : newTurnsOf [] (0 :: s.map rep) = [] := by
    have := findTurns_zero_const c _ hc
    simp [newTurnsOf, this]
  refine ⟨?_, ?_⟩
  · unfold procLoads
    rw [show ({} : State).ts = {} from rfl, hnt, hno]; rfl
  · unfold procLoads
    rw [List.length_map]
    apply newTurns_length_le_one
    rw [process_ts, show ({} : State).ts = {} from rfl, hnt]
    simp only [canonTs, findTurns_zero_const c _ hc, lastIdx_nil, List.drop_zero, List.cons_append]
    exact findTurns_zero_const c _ hcc

end PylifeVerif.HCM
