/-
Linear-algebra lemmas for the mesh operators (`Model/Mesh.lean`) over ℝ.
-/
import Model.Mesh
import Mathlib.Tactic.Ring
import Mathlib.Tactic.FieldSimp
import Mathlib.Tactic.Linarith
import Mathlib.Tactic.IntervalCases
import Mathlib.Tactic.LinearCombination
import Mathlib.Tactic.NormNum.OfScientific
import Mathlib.Data.Real.Basic
import Mathlib.Algebra.BigOperators.Group.List.Basic

namespace PylifeVerif.Mesh

theorem V3.eq_of (a b : V3 ℝ) (hx : a.x = b.x) (hy : a.y = b.y) (hz : a.z = b.z) : a = b := by
  cases a; cases b; simp_all

@[simp] theorem lit_zero : (0.0 : ℝ) = 0 := by norm_num
@[simp] theorem lit_one : (1.0 : ℝ) = 1 := by norm_num

theorem isZero_iff (x : ℝ) : isZero x = true ↔ x = 0 := by
  simp only [isZero, lit_zero, Bool.and_eq_true, decide_eq_true_eq]
  exact ⟨fun h => le_antisymm h.1 h.2, fun h => by simp [h]⟩

theorem isZero_false_iff (x : ℝ) : isZero x = false ↔ x ≠ 0 := by
  rw [Ne, ← isZero_iff]; simp

/-! ### sums -/

theorem foldl_add_eq {β : Type} (f : β → ℝ) (l : List β) (acc : ℝ) :
    l.foldl (fun acc r => acc + f r) acc = acc + (l.map f).sum := by
  induction l generalizing acc with
  | nil => simp
  | cons a l ih => simp [ih, add_assoc]

theorem sumMap_eq_sum {β : Type} (f : β → ℝ) (l : List β) : sumMap f l = (l.map f).sum := by
  simp [sumMap, foldl_add_eq]

/-! ### 3×3 inverse -/

/-- `(gᵀ m) m⁻¹ = gᵀ`, component `k`. -/
theorem row_mul_inv3 (m : M3 ℝ) (hd : det3 m ≠ 0) (g : V3 ℝ) (k : Nat) :
    (g.x * m.a11 + g.y * m.a21 + g.z * m.a31) * (inv3 m).get 0 k
      + (g.x * m.a12 + g.y * m.a22 + g.z * m.a32) * (inv3 m).get 1 k
      + (g.x * m.a13 + g.y * m.a23 + g.z * m.a33) * (inv3 m).get 2 k
      = match k with | 0 => g.x | 1 => g.y | _ => g.z := by
  rcases k with _ | _ | k <;> simp only [inv3, M3.get] <;> generalize hdg : det3 m = d at hd ⊢ <;>
    field_simp <;> rw [← hdg] <;> simp only [det3] <;> ring

/-- `m⁻¹ (m v) = v`. -/
theorem inv3_mulVec_mulVec (m : M3 ℝ) (hd : det3 m ≠ 0) (v : V3 ℝ) : (inv3 m).mulVec (m.mulVec v) = v := by
  apply V3.eq_of <;> simp only [inv3, M3.mulVec] <;> generalize hdg : det3 m = d at hd ⊢ <;>
    field_simp <;> rw [← hdg] <;> simp only [det3] <;> ring

/-- `m (m⁻¹ v) = v`. -/
theorem mulVec_inv3_mulVec (m : M3 ℝ) (hd : det3 m ≠ 0) (v : V3 ℝ) : m.mulVec ((inv3 m).mulVec v) = v := by
  apply V3.eq_of <;> simp only [inv3, M3.mulVec] <;> generalize hdg : det3 m = d at hd ⊢ <;>
    field_simp <;> rw [← hdg] <;> simp only [det3] <;> ring

/-! ### the element gradient as a row vector times `J⁻¹` -/

/-- `gradComp` regrouped: `Σⱼ (Σₐ fₐ ∂φₐ/∂ξⱼ) · J⁻¹[j,k]`. -/
theorem gradComp_eq (fs : List ℝ) (d : Nat → Nat → ℝ) (jinv : M3 ℝ) (k : Nat) :
    gradComp fs d jinv k =
      (((List.range fs.length).zip fs).map (fun af => af.2 * d af.1 0)).sum * jinv.get 0 k
      + (((List.range fs.length).zip fs).map (fun af => af.2 * d af.1 1)).sum * jinv.get 1 k
      + (((List.range fs.length).zip fs).map (fun af => af.2 * d af.1 2)).sum * jinv.get 2 k := by
  unfold gradComp
  rw [sumMap_eq_sum]
  generalize (List.range fs.length).zip fs = l
  induction l with
  | nil => simp
  | cons a l ih =>
    simp only [List.map_cons, List.sum_cons, ih]
    simp [sumMap]
    ring

/-- If `Σₐ fₐ ∂φₐ/∂ξⱼ = Σₘ gₘ J[m,j]` for `j = 0,1,2` and `J` is invertible, the element gradient is `g`. -/
theorem gradVec_eq_of_row (fs : List ℝ) (d : Nat → Nat → ℝ) (J : M3 ℝ) (g : V3 ℝ) (hd : det3 J ≠ 0)
    (h0 : (((List.range fs.length).zip fs).map (fun af => af.2 * d af.1 0)).sum = g.x * J.a11 + g.y * J.a21 + g.z * J.a31)
    (h1 : (((List.range fs.length).zip fs).map (fun af => af.2 * d af.1 1)).sum = g.x * J.a12 + g.y * J.a22 + g.z * J.a32)
    (h2 : (((List.range fs.length).zip fs).map (fun af => af.2 * d af.1 2)).sum = g.x * J.a13 + g.y * J.a23 + g.z * J.a33) :
    gradVec fs d (inv3 J) = g := by
  apply V3.eq_of <;> simp only [gradVec, gradComp_eq, h0, h1, h2]
  · exact row_mul_inv3 J hd g 0
  · exact row_mul_inv3 J hd g 1
  · exact row_mul_inv3 J hd g 2

/-! ### normal equations -/

theorem normalRhs_linear (A : List (V3 ℝ)) (g : V3 ℝ) :
    normalRhs (A.map fun a => (a, a.dot g)) = (normalMatrix A).mulVec g := by
  apply V3.eq_of <;> simp only [normalRhs, normalMatrix, M3.mulVec, sumMap_eq_sum, List.map_map] <;>
  · induction A with
    | nil => simp
    | cons a A ih =>
      simp only [List.map_cons, List.sum_cons, Function.comp] at ih ⊢
      rw [ih]; simp only [V3.dot]; ring

theorem sum_map_eq_zero {β : Type} (f : β → ℝ) (l : List β) (h : ∀ a ∈ l, f a = 0) : (l.map f).sum = 0 := by
  induction l with
  | nil => simp
  | cons a l ih =>
    simp only [List.map_cons, List.sum_cons]
    rw [h a (by simp), ih (fun b hb => h b (by simp [hb]))]; simp

theorem sum_map_congr {β : Type} (f g : β → ℝ) (l : List β) (h : ∀ a, f a = g a) : (l.map f).sum = (l.map g).sum := by
  have : f = g := funext h
  rw [this]

/-! ### surface of a block -/

theorem axisCount_eq (n i : Nat) :
    axisCount n i = (if i < n then 1 else 0) + (if 1 ≤ i ∧ i ≤ n then 1 else 0) := by
  unfold axisCount
  induction n with
  | zero => simp; omega
  | succ n ih =>
    rw [List.range_succ, List.filter_append, List.length_append, ih]
    by_cases h1 : n = i
    · subst h1; simp; split_ifs <;> omega
    · by_cases h2 : n + 1 = i
      · subst h2; simp
      · simp [h1, h2]; split_ifs <;> omega

end PylifeVerif.Mesh
