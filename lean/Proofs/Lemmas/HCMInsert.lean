/-
Helper lemmas for `Proofs/C04Insert.lean`: for one-point load sequences the HCM detector only sees
the VALUES of the turning points that `newTurns` hands to it.
-/
import Proofs.Lemmas.HCMCommon
import Proofs.Lemmas.Turns
import Proofs.Lemmas.Sym
import Proofs.C04Basic

namespace PylifeVerif.HCM.Insert
open PylifeVerif.HCM PylifeVerif.Rainflow

/-! ### Part H: the HCM loop does not look at the turn bookkeeping -/

/-- forget the turn bookkeeping (`ts`) and the remembered last sample -/
def core (st : State) : State := { st with ts := {}, lastSample := [] }

theorem processSample_core (law : Law) (load : Vec) (fuel : Nat) (st : State) :
    processSample law load fuel (core st) =
      (core (processSample law load fuel st).1, (processSample law load fuel st).2) := by
  fun_induction processSample law load fuel st
  case case7 ih =>
    rw [← ih, processSample]
    simp +zetaDelta only [gt_iff_lt, ge_iff_le] at *
    simp [core, closedHyst, *]
  all_goals (rw [processSample] <;> simp +zetaDelta only [gt_iff_lt, ge_iff_le] at * <;>
    simp [core, noteStrain, halfHyst, closedHyst, *] <;> rfl)

theorem processSample_ts (law : Law) (load : Vec) (fuel : Nat) (st : State) :
    (processSample law load fuel st).1.ts = st.ts ∧
      (processSample law load fuel st).1.lastSample = st.lastSample := by
  fun_induction processSample law load fuel st <;> first | exact ⟨rfl, rfl⟩ | assumption

/-- first part of `turnStep`: the ghost record of the fed point -/
def addFed (st : State) (load : Vec) : State := { st with fed := st.fed ++ [(st.run, load)] }

/-- last part of `turnStep`: bookkeeping after the HCM loop -/
def finish (pl cur : Int) (r : State × HPoint) : State × Int :=
  let st := if cur.natAbs > r.1.loadMax then { r.1 with loadMax := cur.natAbs } else r.1
  let st := { st with iz := st.iz + 1, res := r.2 :: st.res }
  (updateLF st pl cur r.2, cur)

theorem turnStep_eq (law : Law) (st : State) (pl : Int) (load : Vec) :
    turnStep law (st, pl) load =
      finish pl (rep load) (processSample law load (st.res.length / 2 + 2) (addFed st load)) := rfl

theorem finish_core (pl cur : Int) (s : State) (p : HPoint) :
    finish pl cur (core s, p) = (core (finish pl cur (s, p)).1, (finish pl cur (s, p)).2) := by
  unfold finish
  by_cases h : cur.natAbs > s.loadMax
  · have h' : cur.natAbs > (core s).loadMax := h
    simp only [h, h', if_true]
    unfold updateLF
    by_cases h2 : pl < cur
    · simp only [h2, if_true]; rfl
    · simp only [h2, if_false]; rfl
  · have h' : ¬ cur.natAbs > (core s).loadMax := h
    simp only [h, h', if_false]
    unfold updateLF
    by_cases h2 : pl < cur
    · simp only [h2, if_true]; rfl
    · simp only [h2, if_false]; rfl

theorem finish_ts (pl cur : Int) (s : State) (p : HPoint) :
    (finish pl cur (s, p)).1.ts = s.ts ∧ (finish pl cur (s, p)).1.lastSample = s.lastSample := by
  unfold finish
  by_cases h : cur.natAbs > s.loadMax
  · simp only [h, if_true]
    unfold updateLF
    by_cases h2 : pl < cur
    · simp [h2]
    · simp [h2]
  · simp only [h, if_false]
    unfold updateLF
    by_cases h2 : pl < cur
    · simp [h2]
    · simp [h2]

theorem turnStep_core (law : Law) (st : State) (pl : Int) (load : Vec) :
    turnStep law (core st, pl) load =
      (core (turnStep law (st, pl) load).1, (turnStep law (st, pl) load).2) := by
  rw [turnStep_eq, turnStep_eq]
  have h := processSample_core law load (st.res.length / 2 + 2) (addFed st load)
  have e : addFed (core st) load = core (addFed st load) := rfl
  have e2 : (core st).res = st.res := rfl
  rw [e, e2, h, finish_core]

theorem turnStep_ts (law : Law) (st : State) (pl : Int) (load : Vec) :
    (turnStep law (st, pl) load).1.ts = st.ts ∧
      (turnStep law (st, pl) load).1.lastSample = st.lastSample := by
  rw [turnStep_eq]
  have h := processSample_ts law load (st.res.length / 2 + 2) (addFed st load)
  have f := finish_ts pl (rep load) (processSample law load (st.res.length / 2 + 2) (addFed st load)).1
    (processSample law load (st.res.length / 2 + 2) (addFed st load)).2
  exact ⟨f.1.trans h.1, f.2.trans h.2⟩

theorem foldl_core (law : Law) (loads : List Vec) : ∀ (st : State) (pl : Int),
    loads.foldl (turnStep law) (core st, pl) =
      (core (loads.foldl (turnStep law) (st, pl)).1, (loads.foldl (turnStep law) (st, pl)).2) := by
  induction loads with
  | nil => intro st pl; rfl
  | cons l ls ih =>
    intro st pl
    simp only [List.foldl_cons]
    rw [turnStep_core, ih]

theorem foldl_ts (law : Law) (loads : List Vec) : ∀ (st : State) (pl : Int),
    (loads.foldl (turnStep law) (st, pl)).1.ts = st.ts ∧
      (loads.foldl (turnStep law) (st, pl)).1.lastSample = st.lastSample := by
  induction loads with
  | nil => intro st pl; exact ⟨rfl, rfl⟩
  | cons l ls ih =>
    intro st pl
    simp only [List.foldl_cons]
    have h := turnStep_ts law st pl l
    have h2 := ih (turnStep law (st, pl) l).1 (turnStep law (st, pl) l).2
    exact ⟨h2.1.trans h.1, h2.2.trans h.2⟩

/-- the preparation at the start of `process` -/
def prep (st : State) (nNodes : Nat) : State :=
  let st := if st.started then st else
    { st with started := true, eMinLF := List.replicate nNodes 0, eMaxLF := List.replicate nNodes 0 }
  { st with run := st.run + 1 }

/-- `process` with the loads of the turning points given explicitly and no turn bookkeeping -/
def feed (law : Law) (st : State) (nNodes : Nat) (loads : List Vec) : State :=
  let r := loads.foldl (turnStep law) (prep st nNodes, st.prevLoad)
  { r.1 with prevLoad := r.2 }

/-- the load vectors that `process` hands to the HCM loop -/
def loadsOf (st : State) (samples : List Vec) (flush : Bool) : List Vec :=
  (newTurns st.ts (samples.map rep) flush).2.map fun p =>
    if p.1 < st.ts.head then st.lastSample else samples.toArray[p.1 - st.ts.head]!

theorem process_eq (law : Law) (st : State) (samples : List Vec) (flush : Bool) :
    process law st samples flush =
      (let st2 := { prep st (samples.headD []).length with
          ts := (newTurns st.ts (samples.map rep) flush).1,
          lastSample := samples.getLastD st.lastSample }
       let r := (loadsOf st samples flush).foldl (turnStep law) (st2, st.prevLoad)
       { r.1 with prevLoad := r.2 }) := by
  obtain ⟨ts, res, iz, ir, loadMax, run, eMinLF, eMaxLF, started, lastSample, prevLoad, sv, nF, recs, fed⟩ := st
  cases started <;> rfl

theorem process_core (law : Law) (st : State) (samples : List Vec) (flush : Bool) :
    core (process law st samples flush) =
      feed law (core st) (samples.headD []).length (loadsOf st samples flush) := by
  rw [process_eq]
  unfold feed
  have e : ∀ (ts : TurnState) (ls : Vec), prep (core st) (samples.headD []).length =
      core { prep st (samples.headD []).length with ts := ts, lastSample := ls } := by
    intro ts ls
    obtain ⟨ts, res, iz, ir, loadMax, run, eMinLF, eMaxLF, started, lastSample, prevLoad, sv, nF, recs, fed⟩ := st
    cases started <;> rfl
  simp only []
  rw [e (newTurns st.ts (samples.map rep) flush).1 (samples.getLastD st.lastSample)]
  have e2 : (core st).prevLoad = st.prevLoad := rfl
  rw [e2, foldl_core]
  rfl

theorem process_ts (law : Law) (st : State) (samples : List Vec) (flush : Bool) :
    (process law st samples flush).ts = (newTurns st.ts (samples.map rep) flush).1 ∧
      (process law st samples flush).lastSample = samples.getLastD st.lastSample := by
  rw [process_eq]
  exact foldl_ts law _ _ _

/-! ### `newTurns` with and without flush, for an arbitrary bookkeeping state -/

theorem lastIdx_lt (q : List Int) (hq : q ≠ []) : lastIdx (findTurns q) < q.length := by
  unfold lastIdx
  cases h : (findTurns q).getLast? with
  | none => exact List.length_pos_of_ne_nil hq
  | some p =>
    exact Sym.findTurns_index_lt q p (List.mem_of_getLast? h)

theorem getLast!_drop_append (t c : List Int) (hc : c ≠ []) (k : Nat) (hk : k < (t ++ c).length) :
    ((t ++ c).drop k).getLast! = c.getLast hc := by
  have hne : (t ++ c).drop k ≠ [] := by
    intro h; have := congrArg List.length h; simp at this; simp at hk; omega
  rw [List.getLast!_of_getLast? (a := c.getLast hc)]
  rw [List.getLast?_drop, if_neg (by omega), List.getLast?_append_of_ne_nil _ hc,
    List.getLast?_eq_some_getLast hc]

theorem newTurns_eq (ts : TurnState) (c : List Int) (hc : c ≠ []) (flush : Bool) :
    newTurns ts c flush =
      (if flush then { tail := [c.getLast hc], head := ts.head + c.length }
        else { tail := (ts.tail ++ c).drop (lastIdx (findTurns (ts.tail ++ c))),
               head := ts.head + c.length },
       shiftPts (ts.head - ts.tail.length) (findTurns (ts.tail ++ c)) ++
         (if flush then [(ts.head + c.length - 1, c.getLast hc)] else [])) := by
  have hemp : c.isEmpty = false := by cases c <;> simp_all
  have hne : ts.tail ++ c ≠ [] := by simp [hc]
  have hlt := lastIdx_lt (ts.tail ++ c) hne
  have hl := getLast!_drop_append ts.tail c hc _ hlt
  have hne' : ((ts.tail ++ c).drop (lastIdx (findTurns (ts.tail ++ c)))).isEmpty = false := by
    rw [List.isEmpty_eq_false_iff]
    intro h; have := congrArg List.length h; simp at this; simp at hlt; omega
  unfold newTurns
  simp only [hemp, Bool.false_eq_true, if_false]
  change (if (flush && !((ts.tail ++ c).drop (lastIdx (findTurns (ts.tail ++ c)))).isEmpty) = true then _ else _) = _
  rw [hne']
  cases flush
  · simp [shiftPts]; rfl
  · simp [shiftPts]; rw [← hl, List.getLast!_eq_getLast?_getD]; rfl

/-! ### one-point sequences: the loads are the values of the turning points -/

open PylifeVerif.C04 in
theorem one_rep (c : List Int) : (one c).map rep = c := by
  induction c with
  | nil => rfl
  | cons x xs ih => simp only [one, List.map_cons] at ih ⊢; rw [ih]; rfl

open PylifeVerif.C04 in
theorem one_get (c : List Int) (k : Nat) (x : Int) (h : c[k]? = some x) :
    (one c).toArray[k]! = [x] := by
  simp [one, h]

open PylifeVerif.C04 in
theorem loadsOf_one (st : State) (c : List Int) (hc : c ≠ []) (flush : Bool)
    (hlen : st.ts.tail.length ≤ st.ts.head)
    (H : ∀ q ∈ findTurns (st.ts.tail ++ c), q.1 < st.ts.tail.length → st.lastSample = [q.2]) :
    loadsOf st (one c) flush = one ((newTurns st.ts c flush).2.map (·.2)) := by
  unfold loadsOf
  rw [one_rep]
  simp only [one, List.map_map]
  apply List.map_congr_left
  intro p hp
  rw [newTurns_eq st.ts c hc flush, List.mem_append] at hp
  simp only [Function.comp]
  rcases hp with hp | hp
  · simp only [shiftPts, List.mem_map] at hp
    obtain ⟨q, hq, rfl⟩ := hp
    have hv := Sym.findTurns_index_valid _ q hq
    by_cases h1 : q.1 < st.ts.tail.length
    · rw [if_pos (by simp only; omega)]
      exact H q hq h1
    · rw [if_neg (by simp only; omega)]
      rw [List.getElem?_append_right (by omega)] at hv
      have : q.1 + (st.ts.head - st.ts.tail.length) - st.ts.head = q.1 - st.ts.tail.length := by omega
      simp only [this]
      exact one_get c _ _ hv
  · cases flush with
    | false => simp at hp
    | true =>
      simp only [if_true, List.mem_singleton] at hp
      subst hp
      have hpos := List.length_pos_of_ne_nil hc
      rw [if_neg (by simp only; omega)]
      have : st.ts.head + c.length - 1 - st.ts.head = c.length - 1 := by omega
      simp only [this]
      apply one_get
      rw [List.getLast_eq_getElem]
      exact List.getElem?_eq_getElem _

/-! ### the two passes on a one-point sequence -/

/-- `dropTrailingNonReversals` on values -/
def trimI (s : List Int) : List Int :=
  match (((findTurns (s ++ s)).map (·.1)).filter (· < s.length)).getLast? with
  | none => s
  | some t => if t = s.length - 1 ∨ t = 0 then s else s.take (t + 1)

/-- the flush flag of `adjustFirstRunR` on values -/
def flushI (t : List Int) : Bool :=
  ((findTurns ((0 :: t) ++ t)).map (·.1)).contains t.length

open PylifeVerif.C04 in
theorem drop_one (s : List Int) : dropTrailingNonReversals (one s) = one (trimI s) := by
  unfold dropTrailingNonReversals trimI
  simp only [one_rep]
  cases (((findTurns (s ++ s)).map (·.1)).filter (· < s.length)).getLast? with
  | none => rfl
  | some t =>
    simp only []
    split_ifs
    · rfl
    · simp [one, List.map_take]

open PylifeVerif.C04 in
theorem adjust_one (t : List Int) (ht : t ≠ []) :
    adjustFirstRunR (one t) = (one (0 :: t), flushI t) := by
  cases t with
  | nil => exact absurd rfl ht
  | cons x xs =>
    unfold adjustFirstRunR flushI
    have e : (List.replicate ((one (x :: xs)).headD []).length 0 :: one (x :: xs)) = one (0 :: x :: xs) := rfl
    simp only [e, one_rep]
    simp [one]

/-- every reported turn is the pending candidate or lies strictly inside the scanned part -/
theorem aux_mem (xs : List Int) : ∀ (dir : Int) (cand : Pt) (i : Nat) (prev : Int) (q : Pt),
    q ∈ findTurnsAux dir cand i prev xs → q = cand ∨ (i ≤ q.1 ∧ q.1 + 1 < i + xs.length) := by
  induction xs with
  | nil => intro dir cand i prev q h; simp [findTurnsAux] at h
  | cons x xs ih =>
    intro dir cand i prev q h
    simp only [findTurnsAux] at h
    simp only [List.length_cons]
    split_ifs at h with h1 h2
    · rcases ih _ _ _ _ q h with h | h
      · exact Or.inl h
      · exact Or.inr (by omega)
    · rcases List.mem_cons.mp h with h | h
      · exact Or.inl h
      · rcases ih _ _ _ _ q h with h | h
        · right; rw [h]; simp only
          cases xs with
          | nil => simp [findTurnsAux] at *
          | cons y ys => simp only [List.length_cons]; omega
        · exact Or.inr (by omega)
    · rcases ih _ _ _ _ q h with h | h
      · right; rw [h]; simp only
        cases xs with
        | nil => simp [findTurnsAux] at *
        | cons y ys => simp only [List.length_cons]; omega
      · exact Or.inr (by omega)

/-- A turn of `T ++ c` that lies in a prefix `T` without turns has the value of the last sample
of `T` (it sits at the start of the final plateau of `T`). -/
theorem no_turn_prefix (T c : List Int) (hT : T ≠ []) (h0 : findTurns T = []) (q : Pt)
    (hq : q ∈ findTurns (T ++ c)) (hlt : q.1 < T.length) : q.2 = T.getLast hT := by
  cases T with
  | nil => exact absurd rfl hT
  | cons x xs =>
    simp only [List.cons_append, findTurns] at hq h0
    rw [findTurnsAux_append, h0, List.nil_append] at hq
    rcases aux_mem c _ _ _ _ q hq with h | h
    · rw [h, scanSt_cand xs 0 (0, x) 1 x rfl, scanSt_prev]
    · rw [scanSt_i] at h
      simp only [List.length_cons] at hlt
      omega

theorem findTurns_tail_nil (p : List Int) : findTurns (p.drop (lastIdx (findTurns p))) = [] := by
  have h := findTurns_restart p []
  simp only [List.append_nil] at h
  have h2 : shiftPts (lastIdx (findTurns p)) (findTurns (p.drop (lastIdx (findTurns p)))) = [] := by
    have := congrArg List.length h
    simp only [List.length_append] at this
    exact List.eq_nil_of_length_eq_zero (by omega)
  simpa [shiftPts] using h2

/-- results of the two `newTurns` calls of `twoPassR` on the trimmed value sequence `t` -/
def r1 (t : List Int) : TurnState × List Pt := newTurns {} (0 :: t) (flushI t)
def r2 (t : List Int) : TurnState × List Pt := newTurns (r1 t).1 t true

/-- the values of the turning points that the two passes feed to the HCM loop -/
def fedI (t : List Int) : List Int × List Int := ((r1 t).2.map (·.2), (r2 t).2.map (·.2))

theorem r1_tail (t : List Int) :
    (r1 t).1.tail = (if flushI t then [(0 :: t).getLast (List.cons_ne_nil _ _)]
      else (0 :: t).drop (lastIdx (findTurns (0 :: t)))) ∧ (r1 t).1.head = t.length + 1 := by
  unfold r1
  rw [newTurns_eq _ _ (List.cons_ne_nil _ _)]
  cases flushI t <;> simp

theorem r1_ok (t : List Int) :
    (r1 t).1.tail.length ≤ (r1 t).1.head ∧
    ∀ q ∈ findTurns ((r1 t).1.tail ++ t), q.1 < (r1 t).1.tail.length →
      [(0 :: t).getLast (List.cons_ne_nil _ _)] = [q.2] := by
  obtain ⟨ht, hh⟩ := r1_tail t
  rw [ht, hh]
  cases flushI t with
  | true =>
    simp only [if_true, List.length_singleton]
    refine ⟨by omega, fun q hq hlt => ?_⟩
    have hv := Sym.findTurns_index_valid _ q hq
    have : q.1 = 0 := by omega
    rw [this] at hv
    simp at hv
    rw [hv]
  | false =>
    simp only [Bool.false_eq_true, if_false]
    refine ⟨by simp only [List.length_drop, List.length_cons]; omega, fun q hq hlt => ?_⟩
    have hlt' := lastIdx_lt (0 :: t) (List.cons_ne_nil _ _)
    have hne : (0 :: t).drop (lastIdx (findTurns (0 :: t))) ≠ [] := by
      intro h; have := congrArg List.length h; simp at this; simp at hlt'; omega
    rw [no_turn_prefix _ t hne (findTurns_tail_nil _) q hq hlt, List.getLast_drop]

open PylifeVerif.C04 in
/-- **Part H.**  On a one-point sequence the two passes are the HCM loop run on the values of the
turning points of the trimmed sequence. -/
theorem twoPass_one (law : Law) (s : List Int) (hs : trimI s ≠ []) :
    core (twoPassR law (one s)) =
      feed law (feed law {} 1 (one (fedI (trimI s)).1)) 1 (one (fedI (trimI s)).2) := by
  unfold twoPassR
  rw [drop_one]
  simp only []
  rw [adjust_one _ hs]
  simp only []
  generalize trimI s = t at hs
  have hn1 : ((one (0 :: t)).headD []).length = 1 := rfl
  have hn2 : ((one t).headD []).length = 1 := by
    cases t with
    | nil => exact absurd rfl hs
    | cons x xs => rfl
  have hts := process_ts law {} (one (0 :: t)) (flushI t)
  rw [one_rep] at hts
  have hl1 : (one (0 :: t)).getLastD ({} : State).lastSample =
      [(0 :: t).getLast (List.cons_ne_nil _ _)] := by
    unfold one
    rw [List.getLastD_eq_getLast?, List.getLast?_map,
      List.getLast?_eq_some_getLast (List.cons_ne_nil _ _)]
    rfl
  rw [hl1] at hts
  have hok := r1_ok t
  rw [process_core, hn2, loadsOf_one _ t hs true (by rw [hts.1]; exact hok.1)
    (by rw [hts.1, hts.2]; exact hok.2)]
  rw [process_core, hn1, loadsOf_one _ (0 :: t) (List.cons_ne_nil _ _) (flushI t) (Nat.le_refl _)
    (by intro q _ h; exact absurd h (Nat.not_lt_zero _))]
  rw [hts.1]
  rfl


/-! ## Part T: turning points under the insertion of a non-reversal sample -/

/-- values of a list of points -/
def vals (l : List Pt) : List Int := l.map (·.2)

/-- index map of an insertion at position `k` -/
def bumpN (k j : Nat) : Nat := if j < k then j else j + 1
def bump (k : Nat) (p : Pt) : Pt := (bumpN k p.1, p.2)

theorem vals_bump (k : Nat) (l : List Pt) : vals (l.map (bump k)) = vals l := by
  simp [vals, bump, Function.comp_def]

theorem vals_shiftPts (k : Nat) (l : List Pt) : vals (shiftPts k l) = vals l := by
  simp [vals, shiftPts, Function.comp_def]

theorem idx_bump (k : Nat) (l : List Pt) :
    (l.map (bump k)).map (·.1) = (l.map (·.1)).map (bumpN k) := by
  simp [bump, Function.comp_def]

theorem shift_bump (k : Nat) (l : List Pt) (h : ∀ q ∈ l, k ≤ q.1) :
    shiftPts 1 l = l.map (bump k) := by
  unfold shiftPts
  apply List.map_congr_left
  intro q hq
  have := h q hq
  simp only [bump, bumpN, if_neg (show ¬ q.1 < k by omega)]

theorem bump_id (k : Nat) (l : List Pt) (h : ∀ q ∈ l, q.1 < k) : l.map (bump k) = l := by
  conv => rhs; rw [← List.map_id l]
  apply List.map_congr_left
  intro q hq
  have := h q hq
  simp only [bump, bumpN, if_pos this, id]

/-- the scan position moves by one: the pending candidate stays, everything later moves -/
theorem Kaux (k : Nat) (xs : List Int) : ∀ (dir : Int) (cand : Pt) (i : Nat) (prev : Int),
    cand.1 < k → k ≤ i →
    findTurnsAux dir cand (i + 1) prev xs = (findTurnsAux dir cand i prev xs).map (bump k) := by
  induction xs with
  | nil => intros; simp [findTurnsAux]
  | cons x xs ih =>
    intro dir cand i prev hc hk
    have hall : ∀ q ∈ findTurnsAux (sgn (x - prev)) (i, x) (i + 1) x xs, k ≤ q.1 := by
      intro q hq
      rcases aux_mem xs _ _ _ _ q hq with h | h
      · rw [h]; exact hk
      · omega
    have hs := findTurnsAux_shift 1 xs (sgn (x - prev)) (i, x) (i + 1) x
    rw [shift_bump k _ hall] at hs
    simp only [findTurnsAux]
    split_ifs with h1 h2
    · exact ih dir cand (i + 1) x hc (by omega)
    · rw [List.map_cons, ← hs]
      congr 1
      simp only [bump, bumpN, if_pos hc]
    · exact hs

theorem scanSt_cand_lt (xs : List Int) : ∀ (dir : Int) (cand : Pt) (i : Nat) (prev : Int),
    cand.1 < i → (scanSt dir cand i prev xs).2.1.1 < (scanSt dir cand i prev xs).2.2.1 := by
  induction xs with
  | nil => intro dir cand i prev h; simpa [scanSt] using h
  | cons x xs ih =>
    intro dir cand i prev h
    simp only [scanSt]
    split_ifs
    · exact ih _ _ _ _ (by omega)
    · exact ih _ _ _ _ (by simp)

/-- insertion of a non-reversal sample `v` behind the non-empty block `A`: a repetition of the last
sample of `A`, or a value strictly between it and the next sample -/
def InsOK (A : List Int) (v : Int) (B : List Int) : Prop :=
  ∃ x, A.getLast? = some x ∧
    (v = x ∨ ∃ y B', B = y :: B' ∧ ((x < v ∧ v < y) ∨ (y < v ∧ v < x)))

/-- one step of the scan at the inserted sample -/
theorem Kstep (dir : Int) (cand : Pt) (i : Nat) (x v : Int) (B : List Int) (hc : cand.1 < i)
    (h : v = x ∨ ∃ y B', B = y :: B' ∧ ((x < v ∧ v < y) ∨ (y < v ∧ v < x))) :
    findTurnsAux dir cand i x (v :: B) = (findTurnsAux dir cand i x B).map (bump i) := by
  rcases h with h | ⟨y, B', rfl, h⟩
  · subst h
    simp only [findTurnsAux, sgn_self, if_true]
    exact Kaux i B dir cand i v hc (Nat.le_refl _)
  · obtain ⟨d, hd0, h1, h2, h3⟩ : ∃ d : Int, d ≠ 0 ∧ sgn (v - x) = d ∧ sgn (y - v) = d ∧
        sgn (y - x) = d := by
      rcases h with h | h
      · exact ⟨1, by decide, Sym.sgn_pos (by omega), Sym.sgn_pos (by omega), Sym.sgn_pos (by omega)⟩
      · exact ⟨-1, by decide, Sym.sgn_neg (by omega), Sym.sgn_neg (by omega), Sym.sgn_neg (by omega)⟩
    have hall : ∀ q ∈ findTurnsAux d (i, y) (i + 1) y B', i ≤ q.1 := by
      intro q hq
      rcases aux_mem B' _ _ _ _ q hq with h | h
      · rw [h]; exact Nat.le_refl _
      · omega
    have hs := findTurnsAux_shift 1 B' d (i, y) (i + 1) y
    rw [shift_bump i _ hall] at hs
    simp only [findTurnsAux, h1, h2, h3, if_neg hd0, ne_eq, not_true_eq_false, and_false, if_false]
    split_ifs with h4
    · rw [List.map_cons, ← hs]
      congr 1
      simp only [bump, bumpN, if_pos hc]
    · exact hs

/-- **Key lemma.**  The turning points after the insertion are those before it, moved. -/
theorem findTurns_ins (A B : List Int) (v : Int) (h : InsOK A v B) :
    findTurns (A ++ v :: B) = (findTurns (A ++ B)).map (bump A.length) := by
  obtain ⟨x, hx, h⟩ := h
  cases A with
  | nil => simp at hx
  | cons a A' =>
    simp only [List.cons_append, findTurns]
    rw [findTurnsAux_append, findTurnsAux_append A' B, List.map_append]
    have hl : (scanSt 0 (0, a) 1 a A').2.2.2 = x := by
      rw [scanSt_prev]
      have := List.getLast?_eq_some_getLast (List.cons_ne_nil a A')
      rw [hx] at this
      exact (Option.some.inj this).symm
    have hi := scanSt_i A' 0 (0, a) 1 a
    have hc := scanSt_cand_lt A' 0 (0, a) 1 a (by simp)
    rw [hi] at hc
    have e : (a :: A').length = 1 + A'.length := by simp only [List.length_cons]; omega
    rw [hl, hi, e]
    congr 1
    · refine (bump_id _ _ ?_).symm
      intro q hq
      rcases aux_mem A' _ _ _ _ q hq with h | h
      · rw [h]; simp only; omega
      · omega
    · exact Kstep _ _ _ x v B hc h

theorem InsOK.append_right {A B : List Int} {v : Int} (h : InsOK A v B) (C : List Int) :
    InsOK A v (B ++ C) := by
  obtain ⟨x, hx, h⟩ := h
  refine ⟨x, hx, ?_⟩
  rcases h with h | ⟨y, B', rfl, h⟩
  · exact Or.inl h
  · exact Or.inr ⟨y, B' ++ C, rfl, h⟩

theorem InsOK.prepend {A B : List Int} {v : Int} (h : InsOK A v B) (C : List Int) :
    InsOK (C ++ A) v B := by
  obtain ⟨x, hx, h⟩ := h
  refine ⟨x, ?_, h⟩
  have hA : A ≠ [] := by intro h0; rw [h0] at hx; simp at hx
  rw [List.getLast?_append_of_ne_nil _ hA, hx]

theorem InsOK.take {A B : List Int} {v : Int} (h : InsOK A v B) (m : Nat) (hm : 1 ≤ m) :
    InsOK A v (B.take m) := by
  obtain ⟨x, hx, h⟩ := h
  refine ⟨x, hx, ?_⟩
  rcases h with h | ⟨y, B', rfl, h⟩
  · exact Or.inl h
  · refine Or.inr ⟨y, B'.take (m - 1), ?_, h⟩
    obtain ⟨m', rfl⟩ : ∃ m', m = m' + 1 := ⟨m - 1, by omega⟩
    simp

theorem InsOK.ne_nil {A B : List Int} {v : Int} (h : InsOK A v B) : A ≠ [] := by
  obtain ⟨x, hx, _⟩ := h
  intro h0; rw [h0] at hx; simp at hx

/-- two insertions: in a block `X ++ B` and in the following copy `A ++ B` -/
theorem findTurns_ins2 (X A B : List Int) (v : Int) (hX : InsOK X v B) (hA : InsOK A v B) :
    findTurns ((X ++ v :: B) ++ (A ++ v :: B)) =
      ((findTurns ((X ++ B) ++ (A ++ B))).map (bump (X.length + B.length + A.length))).map
        (bump X.length) := by
  have e1 : (X ++ v :: B) ++ (A ++ v :: B) = X ++ v :: (B ++ (A ++ v :: B)) := by simp
  have e2 : X ++ (B ++ (A ++ v :: B)) = (X ++ B ++ A) ++ v :: B := by simp
  have e3 : (X ++ B ++ A) ++ B = (X ++ B) ++ (A ++ B) := by simp
  rw [e1, findTurns_ins X _ v (hX.append_right _), e2,
    findTurns_ins (X ++ B ++ A) B v (hA.prepend _), e3]
  simp only [List.length_append]

theorem filter_bump (k n0 K : Nat) (h1 : k ≤ n0) (h2 : n0 ≤ K) (l : List Nat) :
    ((l.map (bumpN K)).map (bumpN k)).filter (· < n0 + 1) = (l.filter (· < n0)).map (bumpN k) := by
  induction l with
  | nil => rfl
  | cons j l ih =>
    simp only [List.map_cons, List.filter_cons, ih]
    by_cases hj : j < n0
    · have e1 : bumpN K j = j := by simp only [bumpN, if_pos (show j < K by omega)]
      have e2 : bumpN k j < n0 + 1 := by unfold bumpN; split_ifs <;> omega
      rw [e1]
      simp [hj, e2]
    · have e2 : ¬ bumpN k (bumpN K j) < n0 + 1 := by unfold bumpN; split_ifs <;> omega
      simp [hj, e2]

/-- indices of the turning points of the doubled sequence that lie in the first copy -/
def idxf (s : List Int) : List Nat := ((findTurns (s ++ s)).map (·.1)).filter (· < s.length)

theorem trimI_eq (s : List Int) : trimI s =
    match (idxf s).getLast? with
    | none => s
    | some t => if t = s.length - 1 ∨ t = 0 then s else s.take (t + 1) := rfl

theorem idxf_ins (A B : List Int) (v : Int) (h : InsOK A v B) :
    idxf (A ++ v :: B) = (idxf (A ++ B)).map (bumpN A.length) := by
  unfold idxf
  rw [findTurns_ins2 A A B v h h, idx_bump, idx_bump]
  have e : (A ++ v :: B).length = (A ++ B).length + 1 := by
    simp only [List.length_append, List.length_cons]; omega
  rw [e]
  exact filter_bump _ _ _ (by simp only [List.length_append]; omega)
    (by simp only [List.length_append]; omega) _

/-- a reported turn is the pending candidate (only if a direction is known) or lies behind it -/
theorem aux_mem0 (xs : List Int) : ∀ (dir : Int) (cand : Pt) (i : Nat) (prev : Int) (q : Pt),
    q ∈ findTurnsAux dir cand i prev xs → (dir ≠ 0 ∧ q = cand) ∨ i ≤ q.1 := by
  induction xs with
  | nil => intro dir cand i prev q h; simp [findTurnsAux] at h
  | cons x xs ih =>
    intro dir cand i prev q h
    simp only [findTurnsAux] at h
    split_ifs at h with h1 h2
    · rcases ih _ _ _ _ q h with h | h
      · exact Or.inl h
      · exact Or.inr (by omega)
    · rcases List.mem_cons.mp h with h | h
      · exact Or.inl ⟨h2.1, h⟩
      · rcases ih _ _ _ _ q h with h | h
        · right; rw [h.2]; exact Nat.le_refl _
        · exact Or.inr (by omega)
    · rcases ih _ _ _ _ q h with h | h
      · right; rw [h.2]; exact Nat.le_refl _
      · exact Or.inr (by omega)

theorem findTurns_pos (s : List Int) (q : Pt) (h : q ∈ findTurns s) : 0 < q.1 := by
  cases s with
  | nil => simp [findTurns] at h
  | cons a s' =>
    simp only [findTurns] at h
    rcases aux_mem0 s' _ _ _ _ q h with h | h
    · exact absurd rfl h.1
    · omega

theorem idxf_mem (s : List Int) (t : Nat) (h : t ∈ idxf s) : 0 < t ∧ t < s.length := by
  unfold idxf at h
  rw [List.mem_filter, List.mem_map] at h
  obtain ⟨⟨q, hq, rfl⟩, h2⟩ := h
  exact ⟨findTurns_pos _ q hq, by simpa using h2⟩

/-- **Trimming and insertion.**  Either the inserted sample is trimmed away, or the trimmed
sequences are related by the same insertion. -/
theorem trim_ins (A B : List Int) (v : Int) (h : InsOK A v B) (hB : B ≠ []) :
    trimI (A ++ v :: B) = trimI (A ++ B) ∨
    ∃ B1, B1 ≠ [] ∧ trimI (A ++ v :: B) = A ++ v :: B1 ∧ trimI (A ++ B) = A ++ B1 ∧ InsOK A v B1 := by
  have hA := List.length_pos_of_ne_nil h.ne_nil
  have hBl := List.length_pos_of_ne_nil hB
  rw [trimI_eq, trimI_eq, idxf_ins A B v h, List.getLast?_map]
  cases hg : (idxf (A ++ B)).getLast? with
  | none => exact Or.inr ⟨B, hB, rfl, rfl, h⟩
  | some t0 =>
    obtain ⟨hpos, hlt⟩ := idxf_mem _ t0 (List.mem_of_getLast? hg)
    simp only [Option.map_some, List.length_append, List.length_cons] at hlt ⊢
    by_cases hk : t0 < A.length
    · left
      have e : bumpN A.length t0 = t0 := by simp only [bumpN, if_pos hk]
      rw [e, if_neg (by omega), if_neg (by omega), List.take_append_of_le_length (by omega),
        List.take_append_of_le_length (by omega)]
    · right
      have e : bumpN A.length t0 = t0 + 1 := by simp only [bumpN, if_neg hk]
      rw [e]
      by_cases hc : t0 + 1 = A.length + B.length
      · rw [if_pos (by omega), if_pos (by omega)]
        exact ⟨B, hB, rfl, rfl, h⟩
      · rw [if_neg (by omega), if_neg (by omega)]
        refine ⟨B.take (t0 + 1 - A.length), ?_, ?_, ?_, h.take _ (by omega)⟩
        · intro h0
          have := congrArg List.length h0
          simp only [List.length_take, List.length_nil] at this
          omega
        · rw [List.take_append, List.take_of_length_le (by omega)]
          have : t0 + 1 + 1 - A.length = (t0 + 1 - A.length) + 1 := by omega
          rw [this, List.take_succ_cons]
        · rw [List.take_append, List.take_of_length_le (by omega)]

/-! ### the fed values in closed form -/

theorem fed1_eq (t : List Int) :
    (fedI t).1 = vals (findTurns (0 :: t)) ++
      (if flushI t then [(0 :: t).getLast (List.cons_ne_nil _ _)] else []) := by
  unfold fedI r1
  rw [newTurns_eq _ _ (List.cons_ne_nil _ _)]
  cases flushI t <;> simp [vals, shiftPts]

theorem fed2_eq (t : List Int) (ht : t ≠ []) :
    (fedI t).2 = vals (findTurns ((if flushI t then [(0 :: t).getLast (List.cons_ne_nil _ _)]
      else (0 :: t).drop (lastIdx (findTurns (0 :: t)))) ++ t)) ++ [t.getLast ht] := by
  unfold fedI r2
  rw [newTurns_eq _ _ ht, (r1_tail t).1]
  simp [vals, shiftPts]

theorem vals_newTurnsOf (p c : List Int) :
    vals (findTurns (p.drop (lastIdx (findTurns p)) ++ c)) = vals (newTurnsOf p c) := by
  unfold newTurnsOf; rw [vals_shiftPts]

theorem mem_bump (k n0 K : Nat) (h1 : k ≤ n0) (h2 : n0 < K) (l : List Nat) :
    n0 + 1 ∈ (l.map (bumpN K)).map (bumpN k) ↔ n0 ∈ l := by
  simp only [List.mem_map]
  constructor
  · rintro ⟨a, ⟨j, hj, rfl⟩, h⟩
    have : j = n0 := by
      unfold bumpN at h
      split_ifs at h <;> omega
    rw [← this]; exact hj
  · intro h
    refine ⟨n0, ⟨n0, h, ?_⟩, ?_⟩
    · simp only [bumpN, if_pos h2]
    · simp only [bumpN, if_neg (show ¬ n0 < k by omega)]

theorem flush_ins (A B : List Int) (v : Int) (h : InsOK A v B) (hB : B ≠ []) :
    flushI (A ++ v :: B) = flushI (A ++ B) := by
  have hA := List.length_pos_of_ne_nil h.ne_nil
  have hBl := List.length_pos_of_ne_nil hB
  unfold flushI
  have e1 : (0 :: (A ++ v :: B)) ++ (A ++ v :: B) = ((0 :: A) ++ v :: B) ++ (A ++ v :: B) := by simp
  have e2 : (0 :: (A ++ B)) ++ (A ++ B) = ((0 :: A) ++ B) ++ (A ++ B) := by simp
  have hX : InsOK (0 :: A) v B := h.prepend [0]
  rw [e1, e2, findTurns_ins2 (0 :: A) A B v hX h, idx_bump, idx_bump, Bool.eq_iff_iff,
    List.contains_iff_mem, List.contains_iff_mem]
  have e3 : (A ++ v :: B).length = (A ++ B).length + 1 := by
    simp only [List.length_append, List.length_cons]; omega
  rw [e3]
  exact mem_bump _ _ _ (by simp only [List.length_append, List.length_cons]; omega)
    (by simp only [List.length_append, List.length_cons]; omega) _

theorem last_ins (C A B : List Int) (v : Int) (hB : B ≠ []) :
    (C ++ (A ++ v :: B)).getLast (by simp) = B.getLast hB ∧
    (C ++ (A ++ B)).getLast (by simp [hB]) = B.getLast hB := by
  constructor
  · rw [List.getLast_append_of_ne_nil _ (by simp), List.getLast_append_of_ne_nil _ (by simp),
      List.getLast_cons hB]
  · rw [List.getLast_append_of_ne_nil _ (by simp [hB]), List.getLast_append_of_ne_nil _ hB]

/-- **The fed values do not see the inserted sample.** -/
theorem fed_ins (A B : List Int) (v : Int) (h : InsOK A v B) (hB : B ≠ []) :
    fedI (A ++ v :: B) = fedI (A ++ B) := by
  have hz : (0 :: (A ++ v :: B)).getLast (List.cons_ne_nil _ _) =
      (0 :: (A ++ B)).getLast (List.cons_ne_nil _ _) := by
    have := last_ins [0] A B v hB
    exact this.1.trans this.2.symm
  have hz' : (A ++ v :: B).getLast (by simp) = (A ++ B).getLast (by simp [hB]) := by
    have := last_ins [] A B v hB
    exact this.1.trans this.2.symm
  have hv1 : vals (findTurns (0 :: (A ++ v :: B))) = vals (findTurns (0 :: (A ++ B))) := by
    have := findTurns_ins (0 :: A) B v (h.prepend [0])
    simp only [List.cons_append] at this
    rw [this, vals_bump]
  refine Prod.ext ?_ ?_
  · rw [fed1_eq, fed1_eq, flush_ins A B v h hB, hv1, hz]
  · rw [fed2_eq _ (by simp), fed2_eq _ (by simp [hB]), flush_ins A B v h hB, hz, hz']
    congr 1
    cases flushI (A ++ B) with
    | true =>
      simp only [if_true]
      have := findTurns_ins ([(0 :: (A ++ B)).getLast (List.cons_ne_nil _ _)] ++ A) B v (h.prepend _)
      simp only [List.append_assoc] at this
      rw [this, vals_bump]
    | false =>
      simp only [Bool.false_eq_true, if_false]
      rw [vals_newTurnsOf, vals_newTurnsOf]
      have a1 := findTurns_append_eq (0 :: (A ++ v :: B)) (A ++ v :: B)
      have a0 := findTurns_append_eq (0 :: (A ++ B)) (A ++ B)
      have hX : InsOK (0 :: A) v B := h.prepend [0]
      have e1 : (0 :: (A ++ v :: B)) ++ (A ++ v :: B) = ((0 :: A) ++ v :: B) ++ (A ++ v :: B) := by simp
      have e2 : (0 :: (A ++ B)) ++ (A ++ B) = ((0 :: A) ++ B) ++ (A ++ B) := by simp
      have hv2 := congrArg vals (findTurns_ins2 (0 :: A) A B v hX h)
      rw [vals_bump, vals_bump, ← e1, ← e2, a1, a0] at hv2
      simp only [vals, List.map_append] at hv2 hv1 ⊢
      rw [hv1] at hv2
      exact List.append_cancel_left hv2

/-! ### a non-constant sequence has a turning point in the first copy of its doubling -/

theorem trimI_ne_nil (s : List Int) (hs : s ≠ []) : trimI s ≠ [] := by
  rw [trimI_eq]
  cases (idxf s).getLast? with
  | none => exact hs
  | some t =>
    simp only []
    split_ifs
    · exact hs
    · cases s with
      | nil => exact absurd rfl hs
      | cons a s' => simp

/-- a scan that reports nothing is monotone -/
theorem mono_scan (xs : List Int) : ∀ (dir : Int) (cand : Pt) (i : Nat) (prev : Int),
    findTurnsAux dir cand i prev xs = [] →
    (dir = 0 → ((scanSt dir cand i prev xs).1 = 0 ∧ ∀ x ∈ xs, x = prev) ∨
        ((scanSt dir cand i prev xs).1 = 1 ∧ prev < (scanSt dir cand i prev xs).2.2.2) ∨
        ((scanSt dir cand i prev xs).1 = -1 ∧ (scanSt dir cand i prev xs).2.2.2 < prev)) ∧
    (dir = 1 → (scanSt dir cand i prev xs).1 = 1 ∧ prev ≤ (scanSt dir cand i prev xs).2.2.2) ∧
    (dir = -1 → (scanSt dir cand i prev xs).1 = -1 ∧ (scanSt dir cand i prev xs).2.2.2 ≤ prev) := by
  induction xs with
  | nil =>
    intro dir cand i prev _
    simp only [scanSt]
    refine ⟨fun h => Or.inl ⟨h, by simp⟩, fun h => ⟨h, Int.le_refl _⟩, fun h => ⟨h, Int.le_refl _⟩⟩
  | cons x xs ih =>
    intro dir cand i prev h
    simp only [findTurnsAux] at h
    simp only [scanSt]
    rcases Rainflow.sgn_cases (x - prev) with hs | hs | hs
    · have hx : x = prev := by omega
      subst hx
      simp only [hs.1, if_true] at h ⊢
      obtain ⟨i0, i1, i2⟩ := ih dir cand (i + 1) x h
      refine ⟨fun hd => ?_, i1, i2⟩
      rcases i0 hd with h' | h' | h'
      · exact Or.inl ⟨h'.1, by simpa using h'.2⟩
      · exact Or.inr (Or.inl h')
      · exact Or.inr (Or.inr h')
    · simp only [hs.1, show ¬ ((1 : Int) = 0) by decide, if_false] at h ⊢
      split_ifs at h with h2
      obtain ⟨_, i1, _⟩ := ih 1 (i, x) (i + 1) x h
      have := i1 rfl
      refine ⟨fun hd => Or.inr (Or.inl ⟨this.1, by omega⟩), fun hd => ⟨this.1, by omega⟩,
        fun hd => ?_⟩
      exact absurd ⟨by omega, by omega⟩ h2
    · simp only [hs.1, show ¬ ((-1 : Int) = 0) by decide, if_false] at h ⊢
      split_ifs at h with h2
      obtain ⟨_, _, i2⟩ := ih (-1) (i, x) (i + 1) x h
      have := i2 rfl
      refine ⟨fun hd => Or.inr (Or.inr ⟨this.1, by omega⟩), fun hd => ?_,
        fun hd => ⟨this.1, by omega⟩⟩
      exact absurd ⟨by omega, by omega⟩ h2

theorem idxf_ne_nil (a : Int) (s' : List Int) (h : ∃ x ∈ s', x ≠ a) : idxf (a :: s') ≠ [] := by
  have hmem : ∀ q : Pt, q ∈ findTurns ((a :: s') ++ (a :: s')) → q.1 < (a :: s').length →
      idxf (a :: s') ≠ [] := by
    intro q hq hlt h0
    have : q.1 ∈ idxf (a :: s') := by
      unfold idxf
      rw [List.mem_filter]
      exact ⟨List.mem_map.mpr ⟨q, hq, rfl⟩, by simpa using hlt⟩
    rw [h0] at this
    simp at this
  have hdec : findTurns ((a :: s') ++ (a :: s')) = findTurnsAux 0 (0, a) 1 a s' ++
      findTurnsAux (scanSt 0 (0, a) 1 a s').1 (scanSt 0 (0, a) 1 a s').2.1
        (scanSt 0 (0, a) 1 a s').2.2.1 (scanSt 0 (0, a) 1 a s').2.2.2 (a :: s') := by
    simp only [List.cons_append, findTurns]
    rw [findTurnsAux_append]
  cases hF : findTurnsAux 0 (0, a) 1 a s' with
  | cons q F =>
    refine hmem q (by rw [hdec, hF]; simp) ?_
    have hq : q ∈ findTurnsAux 0 (0, a) 1 a s' := by rw [hF]; simp
    rcases aux_mem s' _ _ _ _ q hq with h | h
    · rw [h]; simp
    · simp only [List.length_cons]; omega
  | nil =>
    have hc := scanSt_cand_lt s' 0 (0, a) 1 a (by simp)
    rw [scanSt_i] at hc
    have hm := (mono_scan s' 0 (0, a) 1 a hF).1 rfl
    obtain ⟨x, hx, hxa⟩ := h
    rcases hm with hm | hm | hm
    · exact absurd (hm.2 x hx) hxa
    · refine hmem (scanSt 0 (0, a) 1 a s').2.1 ?_ (by simp only [List.length_cons]; omega)
      rw [hdec, hF, List.nil_append]
      simp only [findTurnsAux, hm.1]
      have : sgn (a - (scanSt 0 (0, a) 1 a s').2.2.2) = -1 := Sym.sgn_neg (by omega)
      simp [this]
    · refine hmem (scanSt 0 (0, a) 1 a s').2.1 ?_ (by simp only [List.length_cons]; omega)
      rw [hdec, hF, List.nil_append]
      simp only [findTurnsAux, hm.1]
      have : sgn (a - (scanSt 0 (0, a) 1 a s').2.2.2) = 1 := Sym.sgn_pos (by omega)
      simp [this]

/-! ### a non-reversal sample appended at the end is trimmed away -/

theorem trim_append_of_idxf (s : List Int) (v : Int) (h : idxf (s ++ [v]) = idxf s)
    (hne : idxf s ≠ []) : trimI (s ++ [v]) = trimI s := by
  rw [trimI_eq, trimI_eq, h]
  cases hg : (idxf s).getLast? with
  | none => rw [List.getLast?_eq_none_iff] at hg; exact absurd hg hne
  | some t =>
    obtain ⟨hpos, hlt⟩ := idxf_mem _ t (List.mem_of_getLast? hg)
    simp only [List.length_append, List.length_singleton]
    rw [if_neg (by omega), List.take_append_of_le_length (by omega)]
    split_ifs with hc
    · rw [List.take_of_length_le (by omega)]
    · rfl

theorem idxf_dup_end (s : List Int) (z : Int) (hz : s.getLast? = some z) :
    idxf (s ++ [z]) = idxf s := by
  have h : InsOK s z [] := ⟨z, hz, Or.inl rfl⟩
  have := idxf_ins s [] z h
  simp only [List.append_nil] at this
  rw [this]
  conv => rhs; rw [← List.map_id (idxf s)]
  apply List.map_congr_left
  intro t ht
  have := (idxf_mem s t ht).2
  simp only [bumpN, if_pos this, id]

theorem filter_split (n : Nat) (l1 l2 : List Nat) (h1 : ∀ t ∈ l1, t < n) (h2 : ∀ t ∈ l2, n ≤ t) :
    (l1 ++ l2).filter (· < n) = l1 := by
  rw [List.filter_append]
  have e1 : l1.filter (· < n) = l1 := List.filter_eq_self.mpr (by simpa using h1)
  have e2 : l2.filter (· < n) = [] := by
    rw [List.filter_eq_nil_iff]
    intro t ht; have := h2 t ht; simp; omega
  rw [e1, e2, List.append_nil]

theorem idxf_strict_end (a : Int) (s' : List Int) (z v : Int)
    (hz : (a :: s').getLast? = some z) (hv : (z < v ∧ v < a) ∨ (a < v ∧ v < z)) :
    idxf ((a :: s') ++ [v]) = idxf (a :: s') := by
  have hl : (scanSt 0 (0, a) 1 a s').2.2.2 = z := by
    rw [scanSt_prev]
    have := List.getLast?_eq_some_getLast (List.cons_ne_nil a s')
    rw [hz] at this
    exact (Option.some.inj this).symm
  have hi := scanSt_i s' 0 (0, a) 1 a
  have hc := scanSt_cand_lt s' 0 (0, a) 1 a (by simp)
  rw [hi] at hc
  obtain ⟨d, hd0, h1, h2, h3⟩ : ∃ d : Int, d ≠ 0 ∧ sgn (v - z) = d ∧ sgn (a - v) = d ∧
      sgn (a - z) = d := by
    rcases hv with h | h
    · exact ⟨1, by decide, Sym.sgn_pos (by omega), Sym.sgn_pos (by omega), Sym.sgn_pos (by omega)⟩
    · exact ⟨-1, by decide, Sym.sgn_neg (by omega), Sym.sgn_neg (by omega), Sym.sgn_neg (by omega)⟩
  -- the common part: turns inside the first copy and the candidate decided at the junction
  let E : List Pt := if (scanSt 0 (0, a) 1 a s').1 ≠ 0 ∧ d ≠ (scanSt 0 (0, a) 1 a s').1
    then [(scanSt 0 (0, a) 1 a s').2.1] else []
  have hcommon : ∀ t ∈ ((findTurnsAux 0 (0, a) 1 a s' ++ E).map (·.1)), t < 1 + s'.length := by
    intro t ht
    rw [List.mem_map] at ht
    obtain ⟨q, hq, rfl⟩ := ht
    rcases List.mem_append.mp hq with hq | hq
    · rcases aux_mem s' _ _ _ _ q hq with h | h
      · rw [h]; simp only; omega
      · omega
    · simp only [E] at hq
      split_ifs at hq
      · rw [List.mem_singleton.mp hq]; exact hc
      · simp at hq
  have hD0 : (findTurns ((a :: s') ++ (a :: s'))).map (·.1) =
      (findTurnsAux 0 (0, a) 1 a s' ++ E).map (·.1) ++
      (findTurnsAux d (1 + s'.length, a) (1 + s'.length + 1) a s').map (·.1) := by
    rw [← List.map_append]
    congr 1
    simp only [List.cons_append, findTurns]
    rw [findTurnsAux_append, hl, hi]
    simp only [findTurnsAux, h3, if_neg hd0, E]
    split_ifs <;> simp
  have hD1 : (findTurns (((a :: s') ++ [v]) ++ ((a :: s') ++ [v]))).map (·.1) =
      (findTurnsAux 0 (0, a) 1 a s' ++ E).map (·.1) ++
      (findTurnsAux d (1 + s'.length + 1, a) (1 + s'.length + 1 + 1) a (s' ++ [v])).map (·.1) := by
    rw [← List.map_append]
    congr 1
    have e : ((a :: s') ++ [v]) ++ ((a :: s') ++ [v]) = a :: (s' ++ v :: a :: (s' ++ [v])) := by simp
    rw [e]
    simp only [findTurns]
    rw [findTurnsAux_append, hl, hi]
    simp only [findTurnsAux, h1, h2, if_neg hd0, E, ne_eq, not_true_eq_false, and_false, if_false]
    split_ifs <;> simp
  unfold idxf
  have e : ((a :: s') ++ [v]).length = 1 + s'.length + 1 := by
    simp only [List.length_append, List.length_cons, List.length_nil]; omega
  have e' : (a :: s').length = 1 + s'.length := by simp only [List.length_cons]; omega
  rw [hD0, hD1, e, e']
  rw [filter_split _ _ _ (fun t ht => by have := hcommon t ht; omega) ?_,
    filter_split _ _ _ hcommon ?_]
  · intro t ht
    rw [List.mem_map] at ht
    obtain ⟨q, hq, rfl⟩ := ht
    rcases aux_mem s' _ _ _ _ q hq with h | h
    · rw [h]; exact Nat.le_refl _
    · omega
  · intro t ht
    rw [List.mem_map] at ht
    obtain ⟨q, hq, rfl⟩ := ht
    rcases aux_mem _ _ _ _ _ q hq with h | h
    · rw [h]; exact Nat.le_refl _
    · omega



open PylifeVerif.C04 (one)

/-! ### constant sequences record nothing -/

theorem finish_fields (pl cur : Int) (s : State) (p : HPoint) :
    (finish pl cur (s, p)).1.recs = s.recs ∧ (finish pl cur (s, p)).1.iz = s.iz + 1 ∧
    (finish pl cur (s, p)).1.ir = s.ir ∧ (finish pl cur (s, p)).1.res = p :: s.res ∧
    cur.natAbs ≤ (finish pl cur (s, p)).1.loadMax ∧ s.loadMax ≤ (finish pl cur (s, p)).1.loadMax := by
  unfold finish
  by_cases h : cur.natAbs > s.loadMax
  · simp only [h, if_true]
    unfold updateLF
    by_cases h2 : pl < cur
    · simp [h2]; omega
    · simp [h2]; omega
  · simp only [h, if_false]
    unfold updateLF
    by_cases h2 : pl < cur
    · simp [h2]; omega
    · simp [h2]; omega

/-- case b) of the HCM loop: nothing recorded -/
theorem turnStep_b (law : Law) (st : State) (pl : Int) (load : Vec) (h : st.iz < st.ir) :
    (turnStep law (st, pl) load).1.recs = st.recs ∧ (turnStep law (st, pl) load).1.iz = st.iz + 1 ∧
    (turnStep law (st, pl) load).1.ir = st.ir ∧
    (∃ p, (turnStep law (st, pl) load).1.res = p :: st.res) ∧
    (rep load).natAbs ≤ (turnStep law (st, pl) load).1.loadMax := by
  rw [turnStep_eq]
  have hp : processSample law load (st.res.length / 2 + 2) (addFed st load) =
      (noteStrain (addFed st load) (primary law load), primary law load) := by
    rw [processSample]
    have h1 : ¬ (addFed st load).iz = (addFed st load).ir := Nat.ne_of_lt h
    have h2 : (addFed st load).iz < (addFed st load).ir := h
    simp only [h1, h2, if_true, if_false]
  rw [hp]
  obtain ⟨f1, f2, f3, f4, f5, _⟩ := finish_fields pl (rep load) (noteStrain (addFed st load) (primary law load))
    (primary law load)
  exact ⟨f1, f2, f3, ⟨_, f4⟩, f5⟩

/-- case a) ii. of the HCM loop: nothing recorded -/
theorem turnStep_a2 (law : Law) (st : State) (pl : Int) (load : Vec) (h : st.iz = st.ir)
    (prev : HPoint) (tl : List HPoint) (hr : st.res = prev :: tl)
    (hm : (rep load).natAbs ≤ st.loadMax) :
    (turnStep law (st, pl) load).1.recs = st.recs := by
  rw [turnStep_eq]
  have hp : processSample law load (st.res.length / 2 + 2) (addFed st load) =
      (noteStrain (addFed st load) (secondary law prev load), secondary law prev load) := by
    rw [processSample]
    have h1 : (addFed st load).iz = (addFed st load).ir := h
    have h2 : (addFed st load).res = prev :: tl := hr
    have h3 : ¬ (rep load).natAbs > (addFed st load).loadMax := Nat.not_lt.mpr hm
    simp only [h1, h2, h3, if_true, if_false]
  rw [hp]
  exact (finish_fields pl (rep load) _ _).1

theorem prep_fields (st : State) (n : Nat) :
    (prep st n).recs = st.recs ∧ (prep st n).iz = st.iz ∧ (prep st n).ir = st.ir ∧
    (prep st n).res = st.res ∧ (prep st n).loadMax = st.loadMax := by
  obtain ⟨ts, res, iz, ir, loadMax, run, eMinLF, eMaxLF, started, lastSample, prevLoad, sv, nF, recs, fed⟩ := st
  cases started <;> exact ⟨rfl, rfl, rfl, rfl, rfl⟩

theorem const_feed (law : Law) (a : Int) (L1 : List Int) (h : L1 = [] ∨ L1 = [a]) :
    (feed law (feed law {} 1 (one L1)) 1 (one [a])).recs = [] := by
  rcases h with rfl | rfl
  · have e : (feed law (feed law {} 1 (one [])) 1 (one [a])).recs =
        (turnStep law (prep (feed law {} 1 (one [])) 1, (feed law {} 1 (one [])).prevLoad) [a]).1.recs := rfl
    rw [e, (turnStep_b law _ _ [a] (by show (0 : Nat) < 1; omega)).1]
    rfl
  · obtain ⟨b1, b2, b3, ⟨p, b4⟩, b5⟩ := turnStep_b law (prep {} 1) ({} : State).prevLoad [a] (by decide)
    have f : ∀ st : State, st = feed law {} 1 (one [a]) →
        st.recs = [] ∧ st.iz = 1 ∧ st.ir = 1 ∧ st.res = [p] ∧ a.natAbs ≤ st.loadMax := by
      intro st hst
      subst hst
      exact ⟨b1, b2, b3, b4, b5⟩
    obtain ⟨c1, c2, c3, c4, c5⟩ := f _ rfl
    obtain ⟨d1, d2, d3, d4, d5⟩ := prep_fields (feed law {} 1 (one [a])) 1
    have e : (feed law (feed law {} 1 (one [a])) 1 (one [a])).recs =
        (turnStep law (prep (feed law {} 1 (one [a])) 1, (feed law {} 1 (one [a])).prevLoad) [a]).1.recs := rfl
    rw [e, turnStep_a2 law _ _ [a] (by rw [d2, d3, c2, c3]) p [] (by rw [d4, c4])
      (by rw [d5]; exact c5), d1, c1]

theorem ft_rep (n : Nat) (a : Int) (dir : Int) (cand : Pt) (i : Nat) :
    findTurnsAux dir cand i a (List.replicate n a) = [] := by
  have := findTurnsAux_replicate n a [] dir cand i
  simpa [findTurnsAux] using this

theorem ft_rep0 (n : Nat) (a : Int) (cand : Pt) (i : Nat) (prev : Int) :
    findTurnsAux 0 cand i prev (List.replicate n a) = [] := by
  cases n with
  | zero => rfl
  | succ n =>
    simp only [List.replicate_succ, findTurnsAux]
    split_ifs with h1 h2
    · have : a = prev := by have := sgn_eq_zero h1; omega
      subst this
      exact ft_rep n a 0 cand (i + 1)
    · exact absurd rfl h2.1
    · exact ft_rep n a _ _ _

theorem findTurns_rep (n : Nat) (a : Int) : findTurns (List.replicate n a) = [] := by
  cases n with
  | zero => rfl
  | succ n => simp only [List.replicate_succ, findTurns]; exact ft_rep n a 0 _ _

theorem findTurns_zero_rep (n : Nat) (a : Int) : findTurns (0 :: List.replicate n a) = [] := by
  simp only [findTurns]; exact ft_rep0 n a _ _ _

theorem trimI_rep (n : Nat) (a : Int) : trimI (List.replicate n a) = List.replicate n a := by
  rw [trimI_eq]
  have : idxf (List.replicate n a) = [] := by
    unfold idxf
    rw [List.replicate_append_replicate, findTurns_rep]
    rfl
  rw [this]
  rfl

/-- a constant sequence records nothing -/
theorem const_twoPass (law : Law) (n : Nat) (a : Int) (hn : 0 < n) :
    (twoPassR law (one (List.replicate n a))).recs = [] := by
  have hne : List.replicate n a ≠ [] := by
    intro h; have := congrArg List.length h; simp at this; omega
  have hc : (twoPassR law (one (List.replicate n a))).recs =
      (core (twoPassR law (one (List.replicate n a)))).recs := rfl
  rw [hc, twoPass_one law _ (by rw [trimI_rep]; exact hne), trimI_rep]
  have hl : (List.replicate n a).getLast hne = a := by simp
  have hl0 : (0 :: List.replicate n a).getLast (List.cons_ne_nil _ _) = a := by
    rw [List.getLast_cons hne, hl]
  have h2 : (fedI (List.replicate n a)).2 = [a] := by
    rw [fed2_eq _ hne, hl, hl0]
    cases flushI (List.replicate n a) with
    | true =>
      simp only [if_true]
      have : [a] ++ List.replicate n a = List.replicate (1 + n) a := by
        rw [← List.replicate_append_replicate]; rfl
      rw [this, findTurns_rep]; rfl
    | false =>
      simp only [Bool.false_eq_true, if_false, findTurns_zero_rep, lastIdx_nil, List.drop_zero,
        List.cons_append, List.replicate_append_replicate]
      rfl
  have h1 : (fedI (List.replicate n a)).1 = [] ∨ (fedI (List.replicate n a)).1 = [a] := by
    rw [fed1_eq, findTurns_zero_rep, hl0]
    cases flushI (List.replicate n a)
    · left; rfl
    · right; rfl
  rw [h2]
  exact const_feed law a _ h1

end PylifeVerif.HCM.Insert
