/-
Common upstream module of all rainflow lemma files.  Its only purpose is to make Lean generate the
auxiliary equation / match-congruence declarations of the model functions ONCE, here, so that
independent lemma files that are later imported together do not each generate (and then clash on)
their own copies.
-/
import Model.Rainflow.Spec

namespace PylifeVerif.Rainflow.Common
open PylifeVerif.Rainflow

theorem fpClose_pos' (c b a : Pt) (rest : List Pt) (d : Int)
    (h : absDiff b.2 c.2 ≤ absDiff a.2 b.2 ∧ absDiff b.2 c.2 ≤ absDiff c.2 d) :
    fpClose (c :: b :: a :: rest) d =
      ((b, c) :: (fpClose (a :: rest) d).1, (fpClose (a :: rest) d).2) := by
  rw [fpClose]; simp [h]

theorem fpClose_neg' (c b a : Pt) (rest : List Pt) (d : Int)
    (h : ¬ (absDiff b.2 c.2 ≤ absDiff a.2 b.2 ∧ absDiff b.2 c.2 ≤ absDiff c.2 d)) :
    fpClose (c :: b :: a :: rest) d = ([], c :: b :: a :: rest) := by
  rw [fpClose]; simp [h]

theorem fpClose_nil' (d : Int) : fpClose [] d = ([], []) := by simp [fpClose]
theorem fpClose_one' (c : Pt) (d : Int) : fpClose [c] d = ([], [c]) := by simp [fpClose]
theorem fpClose_two' (c b : Pt) (d : Int) : fpClose [c, b] d = ([], [c, b]) := by simp [fpClose]

theorem fpClose_true' (st : List Pt) (d : Int) : (fpClose st d).2.length ≤ st.length + 0 := by
  fun_induction fpClose st d with
  | case1 c b a rest d h r ih => simp only [List.length_cons, Nat.add_zero] at ih ⊢; exact Nat.le_trans ih (by omega)
  | case2 c b a rest d h => simp
  | case3 st d h => simp

end PylifeVerif.Rainflow.Common
