/-
Helper lemmas for C14, part 3: integer class counts (`natTo`, `linspace`, `minL`, `maxL`, `autoEdges`: the edges numpy
derives from a bin count cover every value, so every cycle is counted) and the composition of two re-binnings when the
last binning coarsens the middle one (`kap_compose_coarsen`).
-/
import Proofs.Lemmas.CollectiveBase

namespace PylifeVerif.Collective

/-! ### `natTo`, `linspace` -/

theorem natTo_eq (n : Nat) : (natTo n : ℝ) = (n : ℝ) := by
  induction n with
  | zero => simp [natTo]
  | succ k ih => simp [natTo, ih]

theorem linspace_length (a b : ℝ) (n : Nat) : (linspace a b n).length = n + 1 := by
  simp [linspace]

theorem linspace_cons (a b : ℝ) (n : Nat) (hn : 0 < n) : ∃ rest, linspace a b n = a :: rest ∧ rest ≠ [] ∧
    (a :: rest).getLast (List.cons_ne_nil _ _) = b := by
  obtain ⟨m, rfl⟩ : ∃ m, n = m + 1 := ⟨n - 1, by omega⟩
  refine ⟨((List.range m).map fun k => natTo (k + 1) * ((b - a) / natTo (m + 1)) + a) ++ [b], ?_, ?_, ?_⟩
  · simp only [linspace, List.range_succ_eq_map, List.map_cons, List.map_map, List.cons_append, natTo_eq]
    simp [Function.comp_def]
  · simp
  · simp [List.getLast_cons]

/-- A pairwise ordered list is `Mono`. -/
theorem mono_of_pairwise : ∀ (l : List ℝ), l.Pairwise (· ≤ ·) → Mono l
  | [], _ => trivial
  | [_], _ => trivial
  | a :: b :: rest, h => by
    rw [List.pairwise_cons] at h
    exact ⟨h.1 b (List.mem_cons_self ..), mono_of_pairwise (b :: rest) h.2⟩

theorem linspace_mono (a b : ℝ) (n : Nat) (h : a ≤ b) : Mono (linspace a b n) := by
  apply mono_of_pairwise
  unfold linspace
  rcases Nat.eq_zero_or_pos n with rfl | hn
  · simp
  have hnR : (0 : ℝ) < (n : ℝ) := by exact_mod_cast hn
  have hstep : 0 ≤ (b - a) / (n : ℝ) := div_nonneg (by linarith) (le_of_lt hnR)
  simp only [natTo_eq]
  rw [List.pairwise_append]
  refine ⟨?_, List.pairwise_singleton _ _, ?_⟩
  · rw [List.pairwise_map]
    refine List.Pairwise.imp ?_ List.pairwise_lt_range
    intro i j hij
    have : (i : ℝ) ≤ (j : ℝ) := by exact_mod_cast le_of_lt hij
    nlinarith [mul_le_mul_of_nonneg_right this hstep]
  · intro x hx y hy
    rw [List.mem_singleton] at hy
    rw [hy]
    rw [List.mem_map] at hx
    obtain ⟨k, hk, rfl⟩ := hx
    rw [List.mem_range] at hk
    have hk' : (k : ℝ) ≤ (n : ℝ) := by exact_mod_cast le_of_lt hk
    have h1 : (k : ℝ) * ((b - a) / (n : ℝ)) ≤ (n : ℝ) * ((b - a) / (n : ℝ)) :=
      mul_le_mul_of_nonneg_right hk' hstep
    have h2 : (n : ℝ) * ((b - a) / (n : ℝ)) = b - a := by
      field_simp
    linarith

/-! ### `minL`, `maxL` -/

theorem foldl_min_le : ∀ (xs : List ℝ) (m : ℝ),
    xs.foldl (fun m y => if y < m then y else m) m ≤ m ∧
      ∀ y ∈ xs, xs.foldl (fun m y => if y < m then y else m) m ≤ y
  | [], m => ⟨le_refl _, fun y hy => by simp at hy⟩
  | x :: xs, m => by
    rw [List.foldl_cons]
    obtain ⟨h1, h2⟩ := foldl_min_le xs (if x < m then x else m)
    have hm : (if x < m then x else m) ≤ m := by split_ifs with h <;> linarith
    have hx : (if x < m then x else m) ≤ x := by split_ifs with h <;> linarith
    refine ⟨le_trans h1 hm, ?_⟩
    intro y hy
    rcases List.mem_cons.mp hy with rfl | hy
    · exact le_trans h1 hx
    · exact h2 y hy

theorem le_foldl_max : ∀ (xs : List ℝ) (m : ℝ),
    m ≤ xs.foldl (fun m y => if m < y then y else m) m ∧
      ∀ y ∈ xs, y ≤ xs.foldl (fun m y => if m < y then y else m) m
  | [], m => ⟨le_refl _, fun y hy => by simp at hy⟩
  | x :: xs, m => by
    rw [List.foldl_cons]
    obtain ⟨h1, h2⟩ := le_foldl_max xs (if m < x then x else m)
    have hm : m ≤ (if m < x then x else m) := by split_ifs with h <;> linarith
    have hx : x ≤ (if m < x then x else m) := by split_ifs with h <;> linarith
    refine ⟨le_trans hm h1, ?_⟩
    intro y hy
    rcases List.mem_cons.mp hy with rfl | hy
    · exact le_trans hx h1
    · exact h2 y hy

theorem minL_le (l : List ℝ) : ∀ x ∈ l, minL l ≤ x := by
  cases l with
  | nil => intro x hx; simp at hx
  | cons a as =>
    intro x hx
    obtain ⟨h1, h2⟩ := foldl_min_le as a
    rcases List.mem_cons.mp hx with rfl | hx
    · exact h1
    · exact h2 x hx

theorem le_maxL (l : List ℝ) : ∀ x ∈ l, x ≤ maxL l := by
  cases l with
  | nil => intro x hx; simp at hx
  | cons a as =>
    intro x hx
    obtain ⟨h1, h2⟩ := le_foldl_max as a
    rcases List.mem_cons.mp hx with rfl | hx
    · exact h1
    · exact h2 x hx

theorem minL_le_maxL (l : List ℝ) : minL l ≤ maxL l := by
  cases l with
  | nil => simp [minL, maxL]
  | cons a as =>
    exact le_trans (minL_le (a :: as) a (List.mem_cons_self ..)) (le_maxL (a :: as) a (List.mem_cons_self ..))

/-! ### `autoEdges` -/

/-- `linspace a b n` (`n ≥ 1`, `a ≤ b`) as a gap-free binning from `a` to `b`. -/
theorem linspace_spec (a b : ℝ) (n : Nat) (hn : 0 < n) (h : a ≤ b) : ∃ rest, linspace a b n = a :: rest ∧ rest ≠ [] ∧
    Mono (a :: rest) ∧ (a :: rest).getLast (List.cons_ne_nil _ _) = b := by
  obtain ⟨rest, h1, h2, h3⟩ := linspace_cons a b n hn
  exact ⟨rest, h1, h2, h1 ▸ linspace_mono a b n h, h3⟩

/-- the automatic edges are weakly increasing, start at or below every value and end at or above every value -/
theorem autoEdges_spec (vals : List ℝ) (n : Nat) (hn : 0 < n) : ∃ e0 rest, autoEdges vals n = e0 :: rest ∧ rest ≠ [] ∧
    Mono (e0 :: rest) ∧ ∀ v ∈ vals, e0 ≤ v ∧ v ≤ (e0 :: rest).getLast (List.cons_ne_nil _ _) := by
  have hmm := minL_le_maxL vals
  unfold autoEdges
  simp only []
  split_ifs with hlt
  · obtain ⟨rest, h1, h2, h3, h4⟩ := linspace_spec (minL vals) (maxL vals) n hn hmm
    refine ⟨minL vals, rest, h1, h2, h3, ?_⟩
    intro v hv
    rw [h4]
    exact ⟨minL_le vals v hv, le_maxL vals v hv⟩
  · have hhalf : (0.5 : ℝ) = 1 / 2 := lit_half
    obtain ⟨rest, h1, h2, h3, h4⟩ := linspace_spec (minL vals - 0.5) (maxL vals + 0.5) n hn
      (by rw [hhalf]; linarith)
    refine ⟨minL vals - 0.5, rest, h1, h2, h3, ?_⟩
    intro v hv
    rw [h4, hhalf]
    have := minL_le vals v hv
    have := le_maxL vals v hv
    constructor <;> linarith

/-! ### every cycle is counted -/

theorem fsum_all {β : Type} (w : β → ℝ) (P : β → Bool) (l : List β) (h : ∀ x ∈ l, P x = true) :
    fsum w P l = (l.map w).sum := by
  unfold fsum
  rw [List.filter_eq_self.mpr h]

/-- One-dimensional histogram over edges that cover every point: the class contents sum to the whole weight. -/
theorem hist_count_total (e0 : ℝ) (rest : List ℝ) (pts : List (ℝ × ℝ)) (hne : rest ≠ []) (hm : Mono (e0 :: rest))
    (hcov : ∀ p ∈ pts, e0 ≤ p.1 ∧ p.1 ≤ (e0 :: rest).getLast (List.cons_ne_nil _ _)) :
    total (hist (e0 :: rest) pts) = (pts.map (·.2)).sum := by
  rw [hist_total e0 rest pts hne hm, fsum_all]
  intro p hp
  obtain ⟨a, b⟩ := hcov p hp
  simp [inRange, a, b]

/-- Two-dimensional histogram over edges that cover every point in both coordinates. -/
theorem hist2d_count_total (x0 y0 : ℝ) (xr yr : List ℝ) (pts : List (ℝ × ℝ × ℝ))
    (hx : xr ≠ []) (hy : yr ≠ []) (hmx : Mono (x0 :: xr)) (hmy : Mono (y0 :: yr))
    (hcx : ∀ p ∈ pts, x0 ≤ p.1 ∧ p.1 ≤ (x0 :: xr).getLast (List.cons_ne_nil _ _))
    (hcy : ∀ p ∈ pts, y0 ≤ p.2.1 ∧ p.2.1 ≤ (y0 :: yr).getLast (List.cons_ne_nil _ _)) :
    total ((hist2d (x0 :: xr) (y0 :: yr) pts).map total) = (pts.map (·.2.2)).sum := by
  rw [hist2d_rows_total _ y0 yr pts hy hmy]
  have hfil : (pts.filter fun p => inRange y0 ((y0 :: yr).getLast (List.cons_ne_nil _ _)) p.2.1) = pts := by
    apply List.filter_eq_self.mpr
    intro p hp
    obtain ⟨a, b⟩ := hcy p hp
    simp [inRange, a, b]
  rw [hfil, hist_count_total x0 xr _ hx hmx, List.map_map]
  · rfl
  · intro q hq
    rw [List.mem_map] at hq
    obtain ⟨p, hp, rfl⟩ := hq
    exact hcx p hp

/-- `range_histogram(n)`, n ≥ 1: every cycle is counted, the class contents sum to all cycles -/
theorem rangeHistogram_count_total (rows : List (Row ℝ)) (n : Nat) (hn : 0 < n) :
    total (rangeHistogram (autoEdges (rows.map rangeOf) n) rows) = (rows.map (·.cyc)).sum := by
  obtain ⟨e0, rest, he, hne, hm, hcov⟩ := autoEdges_spec (rows.map rangeOf) n hn
  unfold rangeHistogram
  rw [he, hist_count_total e0 rest _ hne hm, List.map_map]
  · rfl
  · intro q hq
    rw [List.mem_map] at hq
    obtain ⟨r, hr, rfl⟩ := hq
    exact hcov (rangeOf r) (List.mem_map_of_mem hr)

/-- `histogram(n)` (range × mean) -/
theorem rangeMeanHistogram_count_total (rows : List (Row ℝ)) (n : Nat) (hn : 0 < n) :
    total ((rangeMeanHistogram (autoEdges (rows.map rangeOf) n) (autoEdges (rows.map meanstress) n) rows).map total) =
      (rows.map (·.cyc)).sum := by
  obtain ⟨x0, xr, hex, hx, hmx, hcx⟩ := autoEdges_spec (rows.map rangeOf) n hn
  obtain ⟨y0, yr, hey, hy, hmy, hcy⟩ := autoEdges_spec (rows.map meanstress) n hn
  unfold rangeMeanHistogram
  rw [hex, hey, hist2d_count_total x0 y0 xr yr _ hx hy hmx hmy, List.map_map]
  · rfl
  · intro q hq
    rw [List.mem_map] at hq
    obtain ⟨r, hr, rfl⟩ := hq
    exact hcx (rangeOf r) (List.mem_map_of_mem hr)
  · intro q hq
    rw [List.mem_map] at hq
    obtain ⟨r, hr, rfl⟩ := hq
    exact hcy (meanstress r) (List.mem_map_of_mem hr)

/-- the recorder's `histogram([nx, ny])` (from × to) -/
theorem fromToHistogram_count_total (rows : List (Row ℝ)) (nx ny : Nat) (hx : 0 < nx) (hy : 0 < ny) :
    total ((fromToHistogram (autoEdges (rows.map (·.fr)) nx) (autoEdges (rows.map (·.to)) ny) rows).map total) =
      (rows.map (·.cyc)).sum := by
  obtain ⟨x0, xr, hex, hxr, hmx, hcx⟩ := autoEdges_spec (rows.map (·.fr)) nx hx
  obtain ⟨y0, yr, hey, hyr, hmy, hcy⟩ := autoEdges_spec (rows.map (·.to)) ny hy
  unfold fromToHistogram
  rw [hex, hey, hist2d_count_total x0 y0 xr yr _ hxr hyr hmx hmy, List.map_map]
  · rfl
  · intro q hq
    rw [List.mem_map] at hq
    obtain ⟨r, hr, rfl⟩ := hq
    exact hcx r.fr (List.mem_map_of_mem hr)
  · intro q hq
    rw [List.mem_map] at hq
    obtain ⟨r, hr, rfl⟩ := hq
    exact hcy r.to (List.mem_map_of_mem hr)

/-- `rebin_histogram(src, n)`: the breaks `linspace(min left, max right, n)` form a gap-free binning that covers every source class -/
theorem rebinN_breaks_spec (src : List (Bin ℝ)) (n : Nat) (hn : 0 < n) (hval : ∀ s ∈ src, s.l ≤ s.r) (hne : src ≠ []) :
    ∃ b0 rest, linspace (minL (src.map (·.l))) (maxL (src.map (·.r))) n = b0 :: rest ∧ rest ≠ [] ∧ Mono (b0 :: rest) ∧
      ∀ s ∈ src, b0 ≤ s.l ∧ s.r ≤ (b0 :: rest).getLast (List.cons_ne_nil _ _) := by
  have hL : ∀ s ∈ src, minL (src.map (·.l)) ≤ s.l := fun s hs =>
    minL_le (src.map (·.l)) s.l (List.mem_map_of_mem hs)
  have hR : ∀ s ∈ src, s.r ≤ maxL (src.map (·.r)) := fun s hs =>
    le_maxL (src.map (·.r)) s.r (List.mem_map_of_mem hs)
  obtain ⟨s0, hs0⟩ := List.exists_mem_of_ne_nil src hne
  have hab : minL (src.map (·.l)) ≤ maxL (src.map (·.r)) :=
    le_trans (hL s0 hs0) (le_trans (hval s0 hs0) (hR s0 hs0))
  obtain ⟨rest, h1, h2, h3, h4⟩ := linspace_spec _ _ n hn hab
  refine ⟨_, rest, h1, h2, h3, ?_⟩
  intro s hs
  rw [h4]
  exact ⟨hL s hs, hR s hs⟩

/-! ### composition when the last binning coarsens the middle one -/

theorem pairs_mem_of_mem : ∀ (l : List ℝ) (p : ℝ × ℝ), p ∈ pairs l → p.1 ∈ l ∧ p.2 ∈ l
  | [], p, hp => by simp [pairs] at hp
  | [_], p, hp => by simp [pairs] at hp
  | b0 :: b1 :: rest, p, hp => by
    simp only [pairs, List.mem_cons] at hp
    rcases hp with rfl | hp
    · exact ⟨List.mem_cons_self .., List.mem_cons_of_mem _ (List.mem_cons_self ..)⟩
    · obtain ⟨h1, h2⟩ := pairs_mem_of_mem (b1 :: rest) p hp
      exact ⟨List.mem_cons_of_mem _ h1, List.mem_cons_of_mem _ h2⟩

/-- A class inside the target class goes there completely. -/
theorem kap_inside (tl tr l r : ℝ) (h : l < r) (h1 : tl ≤ l) (h2 : r ≤ tr) : kap tl tr l r = 1 := by
  unfold kap
  rw [if_pos ⟨lt_of_lt_of_le h h2, lt_of_le_of_lt h1 h⟩, min_eq_right h2, max_eq_right h1]
  have : r - l ≠ 0 := by linarith
  field_simp

/-- Composition for one source class when both end points of the target class `(q1, q2]` are breaks of the middle
binning: distributing `(l, r]` over `B` and each class of `B` into `(q1, q2]` gives the direct share.  `B` need not
cover the source class. -/
theorem kap_compose_coarsen (l r q1 q2 b0 : ℝ) (rest : List ℝ) (hs : SMono (b0 :: rest)) (hpos : l < r) (hq : q1 ≤ q2)
    (h1 : q1 ∈ b0 :: rest) (h2 : q2 ∈ b0 :: rest) :
    ((pairs (b0 :: rest)).map fun p => kap p.1 p.2 l r * kap q1 q2 p.1 p.2).sum = kap q1 q2 l r := by
  have hle := le_of_lt hpos
  have hm := SMono.mono hs
  have href := refinesClass_of_mem q1 q2 (b0 :: rest) hs hq h1 h2
  have hstep : ((pairs (b0 :: rest)).map fun p => kap p.1 p.2 l r * kap q1 q2 p.1 p.2) =
      (pairs (b0 :: rest)).map fun p =>
        (1 / (r - l)) * (cl l r (cl q1 q2 p.2) - cl l r (cl q1 q2 p.1)) := by
    apply List.map_congr_left
    intro p hp
    have hp12 := pairs_strict _ hs p hp
    have hp12' := le_of_lt hp12
    rcases href p hp with h | h | ⟨h, h'⟩
    · rw [kap_disjoint_right q1 q2 _ _ h, cl_of_le h hq, cl_of_le (le_trans hp12' h) hq]; simp
    · rw [kap_disjoint_left q1 q2 _ _ h, cl_of_ge h hq, cl_of_ge (le_trans h hp12') hq]; simp
    · rw [kap_inside q1 q2 _ _ hp12 h h', cl_of_mem (le_trans h hp12') h', cl_of_mem h (le_trans hp12' h'),
        kap_clamp _ _ _ _ hp12' hpos]
      ring
  have tele := pairs_telescope (fun x => cl l r (cl q1 q2 x)) b0 rest
  obtain ⟨ha, _⟩ := mono_mem_bounds b0 rest hm q1 h1
  obtain ⟨_, hb⟩ := mono_mem_bounds b0 rest hm q2 h2
  rw [hstep, List.sum_map_mul_left, tele, cl_of_ge hb hq, cl_of_le ha hq, kap_clamp q1 q2 l r hq hpos]
  ring

/-! ### non-vacuity -/

example : autoEdges ([1, 3] : List ℝ) 2 = [1, 2, 3] := by
  simp [autoEdges, minL, maxL, linspace, natTo, List.range_succ]
  norm_num

/-- source class `(1/2, 5]` (not covered by `B = [0, 1, 2, 3]`), target class `(1, 3]` with both end points in `B` -/
example : ((pairs ([0, 1, 2, 3] : List ℝ)).map fun p => kap p.1 p.2 (1 / 2) 5 * kap 1 3 p.1 p.2).sum =
    kap 1 3 (1 / 2) 5 :=
  kap_compose_coarsen (1 / 2) 5 1 3 0 [1, 2, 3] ⟨by norm_num, by norm_num, by norm_num, trivial⟩
    (by norm_num) (by norm_num) (by simp) (by simp)

example : ∀ s ∈ ([⟨0, 1, 2⟩, ⟨1, 1, 5⟩, ⟨-1, 4, 1⟩] : List (Bin ℝ)), s.l ≤ s.r := by
  intro s hs
  simp at hs
  rcases hs with rfl | rfl | rfl <;> norm_num

end PylifeVerif.Collective
