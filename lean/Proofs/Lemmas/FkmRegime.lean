/-
Kernel-checked REFUTATION of the conjecture behind the second disjunct of `C10.Regime`
(`Proofs/C10.lean`: `Regime … := early = false ∨ countRun 1 ds ≤ countRun 2 ds + 1`).

Conjecture (auditor): for every output of the HCM model `HCM.twoPass` the number `n1` of hystereses recorded in the
first pass (`run_index = 1`) is at most one more than the number `n2` recorded in the second pass (`run_index = 2`).

It is FALSE, in the model and in the real code alike:

    [100,-200,300,-400,500,-600]        n1 = 5,  n2 = 3          (`regime_count_refuted`)
    [1,-2,3,-4,5,-6,7,-8,9,-10]         n1 = 9,  n2 = 5          (`regime_count_refuted_10`)

Reason.  In an alternating sequence with strictly growing absolute values every turning point of the first pass
exceeds the largest absolute load seen so far: nothing closes, every turning point after the first one records a
half-counted Memory-3 hysteresis (`2m − 1` of them for `2m` samples).  In the second pass the load maximum is already
known, and the `2m` samples close pairwise: `m` closed hystereses `(-200,100), (-400,300), (-600,500)`.
So `n1 − n2 = m − 1` is unbounded.  `alternating_pattern_upto_12` (and `…_scaled_…`, `…_mirrored_…`) check `n1 = 2m − 1`, `n2 = m` in the kernel for
`1 ≤ m ≤ 12` (a finite check of the pattern, NOT a proof for all `m`; the general statement is not proved here).

The last section restates the refutation in the terms of `Regime` itself: with `ds` the damage column of the rows of
these records (`C10.dam c (rowsOf …)` unfolded) `countRun 1 ds = 5` and `countRun 2 ds = 3` in ℝ, so the second
disjunct of `Regime` is false for this load sequence whatever the curve and the material are; `Regime` then holds only
through its first disjunct (no early failure).

`one` is `C04.one` / `C10.one` (a list of one-element load vectors); it is repeated here so that this file imports
nothing but the models.
-/
import Model.HCM
import Model.Assessment
import Proofs.RealNum
import Proofs.Lemmas.FkmNonlinear
import Mathlib.Tactic.NormNum

namespace PylifeVerif.C10.RegimeRefuted
open PylifeVerif.HCM

/-- a one-point load sequence (`= C04.one = C10.one`) -/
def one (s : List Int) : List Vec := s.map fun x => [x]

/-- number of hystereses the code records in the first pass, stub law `lawLinear` -/
def n1 (s : List Int) : Nat := ((twoPass lawLinear (one s)).recs.filter (fun h => h.run = 1)).length

/-- number of hystereses the code records in the second pass -/
def n2 (s : List Int) : Nat := ((twoPass lawLinear (one s)).recs.filter (fun h => h.run = 2)).length

/-- the witness, with its records spelled out: five Memory-3 halves in pass 1, three closed hystereses in pass 2 -/
theorem regime_witness_records :
    (twoPass lawLinear (one [100,-200,300,-400,500,-600])).recs.map
        (fun h => (h.run, h.closed, h.loadMin, h.loadMax)) =
      [(1, false, [-100], [100]), (1, false, [-200], [200]), (1, false, [-300], [300]), (1, false, [-400], [400]),
       (1, false, [-500], [500]), (2, true, [-200], [100]), (2, true, [-400], [300]), (2, true, [-600], [500])] := by
  decide +kernel

theorem regime_count_refuted :
    let recs := (HCM.twoPass HCM.lawLinear (one [100,-200,300,-400,500,-600])).recs
    (recs.filter (fun h => h.run = 1)).length = 5 ∧ (recs.filter (fun h => h.run = 2)).length = 3 := by
  decide +kernel

theorem regime_count_refuted_10 :
    let recs := (HCM.twoPass HCM.lawLinear (one [1,-2,3,-4,5,-6,7,-8,9,-10])).recs
    (recs.filter (fun h => h.run = 1)).length = 9 ∧ (recs.filter (fun h => h.run = 2)).length = 5 := by
  decide +kernel

theorem n1_n2_witness : n1 [100,-200,300,-400,500,-600] = 5 ∧ n2 [100,-200,300,-400,500,-600] = 3 :=
  regime_count_refuted

theorem n1_n2_witness_10 : n1 [1,-2,3,-4,5,-6,7,-8,9,-10] = 9 ∧ n2 [1,-2,3,-4,5,-6,7,-8,9,-10] = 5 :=
  regime_count_refuted_10

/-- **The conjecture `n1 ≤ n2 + 1` is false.** -/
theorem not_forall_n1_le_n2_add_one : ¬ ∀ s : List Int, n1 s ≤ n2 s + 1 := by
  intro h
  have h6 := h [100,-200,300,-400,500,-600]
  rw [n1_n2_witness.1, n1_n2_witness.2] at h6
  exact absurd h6 (by decide)

/-- no constant slack repairs it for these two witnesses: the gap is 2 and 4 -/
theorem not_forall_n1_le_n2_add_three : ¬ ∀ s : List Int, n1 s ≤ n2 s + 3 := by
  intro h
  have h10 := h [1,-2,3,-4,5,-6,7,-8,9,-10]
  rw [n1_n2_witness_10.1, n1_n2_witness_10.2] at h10
  exact absurd h10 (by decide)

/-! ### the pattern: alternating, strictly growing absolute values -/

/-- `[1, -2, 3, -4, …, -(2m)]` -/
def alt (m : Nat) : List Int :=
  (List.range (2 * m)).map fun (i : Nat) => if i % 2 = 0 then (Int.ofNat i + 1) else -(Int.ofNat i + 1)

example : alt 3 = [1, -2, 3, -4, 5, -6] := by decide

/-- `2m − 1` half hystereses in pass 1, `m` closed ones in pass 2 — checked for `1 ≤ m ≤ 12` (a finite check, not
the general claim). -/
theorem alternating_pattern_upto_12 :
    ∀ m ∈ List.range 13, 1 ≤ m → n1 (alt m) = 2 * m - 1 ∧ n2 (alt m) = m := by
  decide +kernel

/-- the same for the sequences scaled by `100` -/
theorem alternating_pattern_scaled_upto_12 :
    ∀ m ∈ List.range 13, 1 ≤ m →
      n1 ((alt m).map (· * 100)) = 2 * m - 1 ∧ n2 ((alt m).map (· * 100)) = m := by
  decide +kernel

/-- the same for the sequences mirrored and scaled by `-7` -/
theorem alternating_pattern_mirrored_upto_12 :
    ∀ m ∈ List.range 13, 1 ≤ m →
      n1 ((alt m).map (· * -7)) = 2 * m - 1 ∧ n2 ((alt m).map (· * -7)) = m := by
  decide +kernel

/-- in pass 1 all of them are Memory-3 halves, in pass 2 all are closed (same finite range) -/
theorem alternating_pattern_kinds_upto_12 :
    ∀ m ∈ List.range 13, ∀ h ∈ (twoPass lawLinear (one (alt m))).recs,
      (h.run = 1 → h.closed = false ∧ h.zeroMean = true) ∧ (h.run = 2 → h.closed = true) := by
  decide +kernel

/-! ### the same in the terms of `C10.Regime` (`countRun` over ℝ) -/

open PylifeVerif.FkmNl PylifeVerif.Assess

theorem countRun_eq_length (run : Nat) (ds : List (ℝ × Nat)) :
    countRun run ds = ((ds.filter (fun d => d.2 = run)).length : ℝ) := by
  induction ds with
  | nil => simp [countRun, lit_0]
  | cons d rest ih =>
    obtain ⟨x, r⟩ := d
    by_cases h : r = run
    · simp [countRun, h, ih, lit_1]
    · simp [countRun, h, ih]

/-- the number of rows of run `run` in the damage column of the assessment is the number of records of that run -/
theorem countRun_rows (conv : Int → ℝ) (M E : ℝ) (c : PramCurve ℝ) (k run : Nat) (recs : List Hyst) :
    countRun run ((rowsOf conv M E k recs).map fun r => (rowD c r, r.run)) =
      ((recs.filter (fun h => h.run = run)).length : ℝ) := by
  rw [countRun_eq_length]
  congr 1
  unfold rowsOf
  induction recs with
  | nil => rfl
  | cons h rest ih =>
    by_cases e : h.run = run
    · simpa [List.filter_cons, rowOfProj, projK, e] using ih
    · simpa [List.filter_cons, rowOfProj, projK, e] using ih

/-- **The second disjunct of `C10.Regime` fails on `[100,-200,300,-400,500,-600]`** for every curve, material and
unit conversion: `countRun 1 ds = 5`, `countRun 2 ds = 3`, and `5 ≤ 3 + 1` is false.  (`ds` is `C10.dam c rows`
unfolded.) -/
theorem regime_second_disjunct_refuted (conv : Int → ℝ) (M E : ℝ) (c : PramCurve ℝ) :
    let rows := rowsOf conv M E 0 (twoPass lawLinear (one [100,-200,300,-400,500,-600])).recs
    let ds := rows.map fun r => (rowD c r, r.run)
    countRun 1 ds = 5 ∧ countRun 2 ds = 3 ∧ ¬ (countRun 1 ds ≤ countRun 2 ds + 1) := by
  intro rows ds
  have h1 : countRun 1 ds = 5 := by
    rw [countRun_rows, regime_count_refuted.1]; norm_num
  have h2 : countRun 2 ds = 3 := by
    rw [countRun_rows, regime_count_refuted.2]; norm_num
  refine ⟨h1, h2, ?_⟩
  rw [h1, h2]; norm_num

end PylifeVerif.C10.RegimeRefuted
