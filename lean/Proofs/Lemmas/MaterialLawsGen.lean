/-
Bridge between the GENERATED material-law definitions (Generated/MaterialLaws.lean, translated from the
Python source) at `α := ℝ` and the clean real functions of Proofs/Lemmas/MaterialLaws.lean.
-/
import Proofs.Lemmas.MaterialLaws
import Generated.MaterialLaws
import Model.MaterialLaws

-- fall-back alternatives (`<;> ring`, `first | … | …`) keep the proofs stable under harmless re-orderings of the
-- translated source; on the current source some of them are not reached
set_option linter.unusedTactic false
set_option linter.unreachableTactic false
set_option linter.unusedVariables false
set_option linter.unnecessarySeqFocus false

namespace PylifeVerif.C16L
open PylifeVerif.Generated

theorem lit_one : (1.0 : ℝ) = 1 := by norm_num
theorem lit_two : (2.0 : ℝ) = 2 := by norm_num
theorem lit_three : (3.0 : ℝ) = 3 := by norm_num

theorem rsign_eq (x : ℝ) : Transc.sign x = rsign x := rfl

theorem ro_strain_eq_curve (E K n : ℝ) : RambergOsgood.strain E K n = curve E K (1 / n) := by
  funext σ
  simp only [RambergOsgood.strain, RambergOsgood.elastic_strain, RambergOsgood.plastic_strain,
    RambergOsgood._get_abs_sign, RambergOsgood.attr_E, RambergOsgood.attr_K, RambergOsgood.attr_n,
    rsign_eq, transc_abs, transc_pow, lit_one, curve, plast] <;> ring

theorem ro_compliance_eq_compl {K n : ℝ} (hK : K ≠ 0) (hn : n ≠ 0) (E σ : ℝ) :
    RambergOsgood.tangential_compliance E K n σ = compl E K (1 / n) σ := by
  simp only [RambergOsgood.tangential_compliance, RambergOsgood.attr_E, RambergOsgood.attr_K,
    RambergOsgood.attr_n, transc_abs, transc_pow, lit_one, compl]
  have h : (1:ℝ) / (n * K) = 1 / n / K := by rw [div_div]
  first | rw [h] | (rw [← h] <;> ring) | (field_simp <;> ring)

/-- interface lemmas for the Masing range functions (robust against a re-ordering of the factors) -/
theorem ro_delta_strain_eq (E K n Δσ : ℝ) :
    RambergOsgood.delta_strain E K n Δσ = 2 * RambergOsgood.strain E K n (Δσ / 2) := by
  simp only [RambergOsgood.delta_strain, lit_two] <;> ring

theorem ro_delta_stress_eq (E K n : ℝ) (f : ℝ → ℝ) (Δε : ℝ) :
    RambergOsgood.delta_stress E K n f Δε = 2 * f (Δε / 2) := by
  simp only [RambergOsgood.delta_stress, lit_two] <;> ring

theorem ro_lower_hysteresis_eq (E K n σ σmax : ℝ) :
    RambergOsgood.lower_hysteresis E K n σ σmax
      = RambergOsgood.strain E K n σmax - RambergOsgood.delta_strain E K n (σmax - σ) := by
  simp only [RambergOsgood.lower_hysteresis] <;> ring

end PylifeVerif.C16L
