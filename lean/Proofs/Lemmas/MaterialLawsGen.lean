/-
Bridge between the GENERATED material-law definitions (Generated/MaterialLaws.lean, translated from the
Python source) at `α := ℝ` and (a) the clean real functions of Proofs/Lemmas/MaterialLaws.lean (`curve`, `compl`),
(b) the hand-written textbook model Model/MaterialLaws.lean.

Every property theorem of Proofs/C16.lean goes through the interface lemmas of THIS file and never unfolds a generated
definition itself.  The interface lemmas are proved by `gen_bridge`:
  * `unfold_generated_material_laws` (regenerated together with the module) unfolds EVERY generated definition, so the
    proofs do not name helper methods / locals that a refactoring may add, rename or inline;
  * `np_log1p` / `np_expm1` / `py_max` / `py_min` are rewritten to their real meaning, literals are normalised by
    `norm_num`, `x ^ (2:ℝ)` becomes `x ^ 2`;
  * what remains must be an identity of fields: `ring1`, `ring_nf` (normalises inside `rpow` / `log` / `abs` atoms as
    well), `field_simp` with the side conditions in scope.
So a HARMLESS respelling of the source (`np.log1p(x)` for `np.log(1. + x)`, `x ** 2` / `np.square(x)` / `x * x`,
`(…) / E` for `1. / E * (…)`, re-ordered summands and factors, extra local temporaries, inlined or added helpers,
`0.5 * E / (1 + nu)` for `E / (2. * (1 + nu))`) keeps every theorem of C16 provable, while a changed coefficient,
sign, exponent or guard does not.
-/
import Proofs.Lemmas.MaterialLaws
import Proofs.Lemmas.GeneratedPrelude
import Generated.MaterialLaws
import Generated.MaterialLawsUnfold
import Model.MaterialLaws
import Mathlib.Tactic.SplitIfs

set_option linter.unusedTactic false
set_option linter.unreachableTactic false
set_option linter.unusedVariables false
set_option linter.unnecessarySeqFocus false
set_option linter.unusedSimpArgs false

namespace PylifeVerif.C16L
open PylifeVerif.Generated PylifeVerif.MaterialLaws

theorem lit_one : (1.0 : ℝ) = 1 := by norm_num
theorem lit_two : (2.0 : ℝ) = 2 := by norm_num
theorem lit_three : (3.0 : ℝ) = 3 := by norm_num

theorem rsign_eq (x : ℝ) : Transc.sign x = rsign x := rfl

/-- one scalar identity of fields, whatever the spelling -/
macro "gen_leaf" : tactic => `(tactic| first
  | rfl
  | ring1
  | (ring_nf; done)
  | (norm_num; done)
  | (norm_num; ring1)
  | (norm_num; ring_nf; done)
  | (field_simp; done)
  | (field_simp; ring1)
  | (field_simp; ring_nf; done)
  | (norm_num; field_simp; done)
  | (norm_num; field_simp; ring1)
  | (norm_num; field_simp; ring_nf; done)
  | (congr 1; ring_nf; done)
  | (norm_num; congr 1; ring_nf; done)
  | (congr 1 <;> ring_nf <;> done)
  | (congr 2 <;> ring_nf <;> done))

/-- real meaning of the transcendental symbols and of the prelude helpers -/
macro "gen_real" : tactic => `(tactic| simp only [rsign_eq, transc_abs, transc_pow, transc_log, transc_exp, transc_sqrt,
  np_log1p_real, np_expm1_real, py_max_real, py_min_real, Real.rpow_two, Real.rpow_natCast, lit_one, lit_two, lit_three,
  Prod.mk.injEq])

/-- generated definition(s) = hand-written expression: unfold everything generated, give the symbols their real
meaning, split tuples into components, close every component as an identity of fields -/
macro "gen_bridge" : tactic => `(tactic|
  ((try unfold_generated_material_laws) <;> (try gen_real) <;> (repeat' apply And.intro) <;> gen_leaf))

/-! ### Ramberg-Osgood -/

theorem ro_strain_eq_curve (E K n : ℝ) : RambergOsgood.strain E K n = curve E K (1 / n) := by
  funext σ
  simp only [curve, plast]
  gen_bridge

theorem ro_compliance_eq_compl {K n : ℝ} (hK : K ≠ 0) (hn : n ≠ 0) (E σ : ℝ) :
    RambergOsgood.tangential_compliance E K n σ = compl E K (1 / n) σ := by
  simp only [compl]
  gen_bridge

theorem ro_modulus_eq (E K n σ : ℝ) :
    RambergOsgood.tangential_modulus E K n σ = (RambergOsgood.tangential_compliance E K n σ)⁻¹ := by
  gen_bridge

/-- interface lemmas for the Masing range functions -/
theorem ro_delta_strain_eq (E K n Δσ : ℝ) :
    RambergOsgood.delta_strain E K n Δσ = 2 * RambergOsgood.strain E K n (Δσ / 2) := by
  gen_bridge

theorem ro_delta_stress_eq (E K n : ℝ) (f : ℝ → ℝ) (Δε : ℝ) :
    RambergOsgood.delta_stress E K n f Δε = 2 * f (Δε / 2) := by
  gen_bridge

theorem ro_lower_hysteresis_eq (E K n σ σmax : ℝ) :
    RambergOsgood.lower_hysteresis E K n σ σmax
      = RambergOsgood.strain E K n σmax - RambergOsgood.delta_strain E K n (σmax - σ) := by
  gen_bridge

/-- the guard of `lower_hysteresis`: it raises exactly for stress > max_stress -/
theorem ro_lower_hysteresis_guard (E K n σ σmax : ℝ) :
    RambergOsgood.lower_hysteresis_raises E K n σ σmax = false ↔ σ ≤ σmax := by
  unfold_generated_material_laws
  first
    | (simp; done)
    | (norm_num; done)
    | (simp; constructor <;> intro h <;> linarith)

/-! ### Hooke: generated = textbook model (Model/MaterialLaws.lean) -/

theorem hooke1d_stress_eq (E x : ℝ) : HookesLaw1d.stress E x = hooke1dStress E x := by
  simp only [hooke1dStress]; gen_bridge

theorem hooke1d_strain_eq (E x : ℝ) : HookesLaw1d.strain E x = hooke1dStrain E x := by
  simp only [hooke1dStrain]; gen_bridge

/-- the side conditions of the Hooke bridges: E ≠ 0, 1 + ν ≠ 0, 1 - ν ≠ 0, 1 - 2ν ≠ 0 (several spellings, for `field_simp`) -/
structure HookeSide (E nu : ℝ) : Prop where
  hE : E ≠ 0
  h3 : 1 + nu ≠ 0
  h4 : 1 - nu ≠ 0
  h6 : 1 - 2 * nu ≠ 0
  h6' : 1 - nu * 2 ≠ 0
  h5 : 1 - nu ^ 2 ≠ 0
  h5' : 1 - nu * nu ≠ 0
  h7 : (1 - nu) ^ 2 - nu ^ 2 ≠ 0
  h8 : 1 - nu / (1 - nu) ≠ 0
  h9 : 1 + nu / (1 - nu) ≠ 0
  h10 : 1 - nu - nu ≠ 0

theorem hookeSide {E nu : ℝ} (hE : 0 < E) (h1 : -1 < nu) (h2 : nu < 1 / 2) : HookeSide E nu := by
  have h3 : 1 + nu ≠ 0 := by linarith
  have h4 : 1 - nu ≠ 0 := by linarith
  have h6 : 1 - 2 * nu ≠ 0 := by linarith
  have h5 : 1 - nu ^ 2 ≠ 0 := by
    have : 1 - nu ^ 2 = (1 - nu) * (1 + nu) := by ring
    rw [this]; exact mul_ne_zero h4 h3
  refine ⟨hE.ne', h3, h4, h6, by linarith, h5, by rw [← pow_two]; exact h5, ?_, ?_, ?_, by linarith⟩
  · have : (1 - nu) ^ 2 - nu ^ 2 = 1 - 2 * nu := by ring
    rw [this]; exact h6
  · have : 1 - nu / (1 - nu) = (1 - 2 * nu) / (1 - nu) := by field_simp; ring
    rw [this]; exact div_ne_zero h6 h4
  · have : 1 + nu / (1 - nu) = 1 / (1 - nu) := by field_simp; ring
    rw [this]; exact div_ne_zero one_ne_zero h4

/-- bring the side conditions into the context (for `field_simp`) and bridge -/
macro "hooke_bridge" s:ident : tactic => `(tactic|
  (obtain ⟨hE, h3, h4, h6, h6', h5, h5', h7, h8, h9, h10⟩ := $s
   gen_bridge))

theorem hooke_G_eq (E nu : ℝ) :
    HookesLaw3d.attr_G E nu = shearModulus E nu ∧ HookesLaw2dPlaneStress.attr_G E nu = shearModulus E nu ∧
    HookesLaw2dPlaneStrain.attr_G E nu = shearModulus E nu := by
  simp only [shearModulus]; gen_bridge

theorem hooke_K_eq (E nu : ℝ) :
    HookesLaw3d.attr_K E nu = bulkModulus E nu ∧ HookesLaw2dPlaneStress.attr_K E nu = bulkModulus E nu ∧
    HookesLaw2dPlaneStrain.attr_K E nu = bulkModulus E nu := by
  simp only [bulkModulus]; gen_bridge

theorem hooke3d_strain_eq {E nu : ℝ} (s : HookeSide E nu) (a b c d e f : ℝ) :
    HookesLaw3d.strain E nu a b c d e f = hooke3dStrain E nu a b c d e f := by
  simp only [hooke3dStrain, shearModulus]; hooke_bridge s

theorem hooke3d_stress_eq {E nu : ℝ} (s : HookeSide E nu) (a b c d e f : ℝ) :
    HookesLaw3d.stress E nu a b c d e f = hooke3dStress E nu a b c d e f := by
  simp only [hooke3dStress, shearModulus]; hooke_bridge s

theorem planeStress_strain_eq {E nu : ℝ} (s : HookeSide E nu) (a b c : ℝ) :
    HookesLaw2dPlaneStress.strain E nu a b c = planeStressStrain E nu a b c := by
  simp only [planeStressStrain, shearModulus]; hooke_bridge s

theorem planeStress_stress_eq {E nu : ℝ} (s : HookeSide E nu) (a b c : ℝ) :
    HookesLaw2dPlaneStress.stress E nu a b c = planeStressStress E nu a b c := by
  simp only [planeStressStress, shearModulus]; hooke_bridge s

theorem planeStrain_strain_eq {E nu : ℝ} (s : HookeSide E nu) (a b c : ℝ) :
    HookesLaw2dPlaneStrain.strain E nu a b c = planeStrainStrain E nu a b c := by
  simp only [planeStrainStrain, shearModulus]; hooke_bridge s

theorem planeStrain_stress_eq {E nu : ℝ} (s : HookeSide E nu) (a b c : ℝ) :
    HookesLaw2dPlaneStrain.stress E nu a b c = planeStrainStress E nu a b c := by
  simp only [planeStrainStress, shearModulus]; hooke_bridge s

/-- the constructor guard of the three classes: it raises exactly outside -1 ≤ ν ≤ 1/2 -/
theorem hooke_init_guard_eq (E nu : ℝ) :
    (HookesLaw3d.init_raises E nu = false ↔ (-1 ≤ nu ∧ nu ≤ 1 / 2)) ∧
    (HookesLaw2dPlaneStress.init_raises E nu = false ↔ (-1 ≤ nu ∧ nu ≤ 1 / 2)) ∧
    (HookesLaw2dPlaneStrain.init_raises E nu = false ↔ (-1 ≤ nu ∧ nu ≤ 1 / 2)) := by
  unfold_generated_material_laws
  refine ⟨?_, ?_, ?_⟩ <;>
    first
      | (simp [lit_one, lit_two]; done)
      | (norm_num; done)
      | (simp [lit_one, lit_two]; norm_num; done)
      | (simp [lit_one, lit_two]; constructor <;> intro h <;> constructor <;> linarith [h.1, h.2])
      | (norm_num; constructor <;> intro h <;> constructor <;> linarith [h.1, h.2])

/-! ### true stress / strain -/

theorem true_strain_eq (e : ℝ) : true_strain e = Real.log (1 + e) := by gen_bridge

theorem true_stress_eq (s e : ℝ) : true_stress s e = s * (1 + e) := by gen_bridge

/-- `log (1/(1-Z))`, `-log (1-Z)` and `-log1p(-Z)` are the same real function (`Real.log_inv`, also at Z = 1) -/
theorem true_fracture_strain_eq (Z : ℝ) : true_fracture_strain Z = -Real.log (1 - Z) := by
  (try unfold_generated_material_laws) <;> (try gen_real) <;> first
    | (rw [one_div, Real.log_inv]; done)
    | rfl
    | (ring_nf; done)
    | (rw [← sub_eq_add_neg]; done)
    | (congr 2; ring_nf; done)
    | (rw [one_div, Real.log_inv]; congr 2; ring_nf; done)
    | (rw [← Real.log_inv]; congr 1; field_simp; done)

theorem true_fracture_stress_eq (F A Z : ℝ) : true_fracture_stress F A Z = F / (A * (1 - Z)) := by gen_bridge

end PylifeVerif.C16L
