/-
C12 — the guard `TransformGuard` ("the exact iso-damage amplitude stays positive along the run") holds for the
FKM-Goodman diagram with `0 ≤ M2`, `0 ≤ M < 1` for EVERY cycle and EVERY admissible target.

Route: no case split on the processing order is needed.  Every segment shift the code makes uses one of the three
segments `G0 = (1, ∞]` (slope 0), `G1 M = (-∞, 0]`, `G2 M2 = (0, 1]` with a goal (`leftBoundary s`, `s.lo` or the
target `g` for a segment containing `g`) whose abscissa lies in the closed x-range of that segment (`GoodStep`).
For such a step the `StepGuard` holds as soon as the step fires (`stepGuard_of_good`), and the R value after the step
is again admissible (`stepR_valid`); induction over the list of segments gives the `FoldGuard`s.
-/
import Proofs.Lemmas.MeanstressGoodman

namespace PylifeVerif.Meanstress
open ExtR

/-- `ValidR` is the match used inside `StepGuard`. -/
theorem validR_match {R : ExtR ℝ} :
    ValidR R → (match R with | fin r => r ≠ 1 | ninf => True | _ => False) := by
  cases R <;> exact id

theorem lin_pos_mid {M x : ℝ} (h1 : 0 ≤ M) (h2 : M < 1) (hx1 : -1 ≤ x) (_hx2 : x ≤ 1) : 0 < 1 + M * x := by
  nlinarith [mul_nonneg h1 (by linarith : (0:ℝ) ≤ x + 1)]

theorem lin_pos_right {M2 x : ℝ} (h0 : 0 ≤ M2) (hx : 1 ≤ x) : 0 < 1 + M2 * x := by
  nlinarith [mul_nonneg h0 (by linarith : (0:ℝ) ≤ x)]

/-- A cycle that fires on `(-∞, 0]` has its abscissa in `[-1, 1]`. -/
theorem pos_mem_G1 (M : ℝ) {R g : ExtR ℝ} (hR : ValidR R) (hm : memSeg (push R g) (G1 M)) :
    -1 ≤ pos R ∧ pos R ≤ 1 := by
  rcases R with r | _ | _ | _
  · simp only [push, memSeg, G1, ExtR.le, lit0, Bool.true_and, decide_eq_true_eq] at hm
    exact ⟨(m1_lt_pos (by linarith)).le, pos_le_1 hm⟩
  · exact absurd hR (by simp [ValidR])
  · simp [pos]
  · exact absurd hR (by simp [ValidR])

/-- A cycle that fires on `(0, 1]` has its abscissa in `[1, ∞)`. -/
theorem pos_mem_G2 (M2 : ℝ) {R g : ExtR ℝ} (hR : ValidR R) (hm : memSeg (push R g) (G2 M2)) :
    1 ≤ pos R := by
  rcases R with r | _ | _ | _
  · simp only [push, memSeg, G2, ExtR.le, lit0, lit1, Bool.and_eq_true, decide_eq_true_eq] at hm
    simp only [ValidR] at hR
    exact one_le_pos hm.1 (lt_of_le_of_ne hm.2 hR)
  · exact absurd hR (by simp [ValidR])
  · exfalso
    simp only [push] at hm
    split at hm <;> simp [memSeg, G2, ExtR.le] at hm
  · exact absurd hR (by simp [ValidR])

/-- The step `s` with goal `gs` is one of the three FKM-Goodman segments and the (stored) goal is admissible with its
abscissa in the closed x-range of the segment. -/
def GoodStep (M M2 : ℝ) (s : Seg ℝ) (gs : ExtR ℝ) : Prop :=
  ValidR (normGoal gs) ∧
  (s = G0 ∨ (s = G1 M ∧ -1 ≤ pos (normGoal gs) ∧ pos (normGoal gs) ≤ 1) ∨ (s = G2 M2 ∧ 1 ≤ pos (normGoal gs)))

/-- The intermediate lemma: a fired step of the FKM-Goodman diagram satisfies the `StepGuard`. -/
theorem stepGuard_of_good (M M2 : ℝ) (h0 : 0 ≤ M2) (h1 : 0 ≤ M) (h2 : M < 1) (s : Seg ℝ) (gs : ExtR ℝ) (c : Cyc ℝ)
    (hgood : GoodStep M M2 s gs) (hR : ValidR c.R) (hm : memSeg (push c.R gs) s) : StepGuard s gs c := by
  obtain ⟨hv, hs⟩ := hgood
  refine ⟨validR_match hR, validR_match hv, ?_, ?_⟩
  · rcases hs with rfl | ⟨rfl, _, _⟩ | ⟨rfl, _⟩
    · simp [G0]
    · obtain ⟨a, b⟩ := pos_mem_G1 M hR hm
      exact lin_pos_mid h1 h2 a b
    · exact lin_pos_right h0 (pos_mem_G2 M2 hR hm)
  · rcases hs with rfl | ⟨rfl, a, b⟩ | ⟨rfl, a⟩
    · simp [G0]
    · exact lin_pos_mid h1 h2 a b
    · exact lin_pos_right h0 a

theorem stepR_valid (s : Seg ℝ) (gs R : ExtR ℝ) (hv : ValidR (normGoal gs)) (hR : ValidR R) :
    ValidR (stepR s gs R) := by
  unfold stepR; split_ifs
  · exact hv
  · exact hR

/-- The R value stays admissible along a run of steps with admissible (stored) goals. -/
theorem fold_valid (goalOf : Seg ℝ → ExtR ℝ) (l : List (Seg ℝ)) (c : Cyc ℝ) (hR : ValidR c.R)
    (hv : ∀ s ∈ l, ValidR (normGoal (goalOf s))) :
    ValidR (l.foldl (fun c s => step s (goalOf s) c) c).R := by
  induction l generalizing c with
  | nil => exact hR
  | cons s ss ih =>
    simp only [List.foldl_cons]
    refine ih _ ?_ (fun t ht => hv t (List.mem_cons_of_mem _ ht))
    rw [step_R]; exact stepR_valid s _ _ (hv s List.mem_cons_self) hR

/-- A run of good steps satisfies the `FoldGuard`. -/
theorem foldGuard_of_good (M M2 : ℝ) (h0 : 0 ≤ M2) (h1 : 0 ≤ M) (h2 : M < 1) (goalOf : Seg ℝ → ExtR ℝ)
    (l : List (Seg ℝ)) (c : Cyc ℝ) (hR : ValidR c.R) (hgood : ∀ s ∈ l, GoodStep M M2 s (goalOf s)) :
    FoldGuard goalOf l c := by
  induction l generalizing c with
  | nil => trivial
  | cons s ss ih =>
    have hs := hgood s List.mem_cons_self
    refine ⟨fun hm => stepGuard_of_good M M2 h0 h1 h2 s (goalOf s) c hs hR hm, ?_⟩
    refine ih _ ?_ (fun t ht => hgood t (List.mem_cons_of_mem _ ht))
    rw [step_R]; exact stepR_valid s _ _ hs.1 hR

theorem normGoal_one : normGoal (fin (1:ℝ)) = ninf := by simp [normGoal, ExtR.isOne]
theorem normGoal_zero : normGoal (fin (0:ℝ)) = fin 0 := by simp [normGoal, ExtR.isOne]
theorem normGoal_ninf : normGoal (ninf : ExtR ℝ) = ninf := by simp [normGoal, ExtR.isOne]

theorem mem_goodman {M M2 : ℝ} {s : Seg ℝ} (hs : s ∈ goodman M M2) : s = G0 ∨ s = G1 M ∨ s = G2 M2 := by
  rw [goodman_eq] at hs
  simpa only [List.mem_cons, List.not_mem_nil, or_false] using hs

/-- left phase: goal `leftBoundary s` (`1 ↦ -∞` for `(1, ∞]`, `0` for the two others). -/
theorem good_leftBoundary (M M2 : ℝ) {s : Seg ℝ} (hs : s ∈ goodman M M2) : GoodStep M M2 s (leftBoundary s) := by
  rcases mem_goodman hs with rfl | rfl | rfl
  · have : leftBoundary G0 = fin 1 := by simp [leftBoundary, G0, ExtR.lt]
    rw [this]; exact ⟨by rw [normGoal_one]; trivial, Or.inl rfl⟩
  · have : leftBoundary (G1 M) = fin 0 := by simp [leftBoundary, G1, ExtR.lt]
    rw [this]
    refine ⟨by rw [normGoal_zero]; simp [ValidR], Or.inr (Or.inl ⟨rfl, ?_, ?_⟩)⟩ <;>
      rw [normGoal_zero] <;> norm_num [pos]
  · have : leftBoundary (G2 M2) = fin 0 := by simp [leftBoundary, G2, ExtR.lt]
    rw [this]
    refine ⟨by rw [normGoal_zero]; simp [ValidR], Or.inr (Or.inr ⟨rfl, ?_⟩)⟩
    rw [normGoal_zero]; norm_num [pos]

/-- right phase: goal `s.lo`. -/
theorem good_lo (M M2 : ℝ) {s : Seg ℝ} (hs : s ∈ goodman M M2) : GoodStep M M2 s s.lo := by
  rcases mem_goodman hs with rfl | rfl | rfl
  · have : G0.lo = fin 1 := by simp [G0]
    rw [this]; exact ⟨by rw [normGoal_one]; trivial, Or.inl rfl⟩
  · have : (G1 M).lo = ninf := rfl
    rw [this]
    refine ⟨by rw [normGoal_ninf]; trivial, Or.inr (Or.inl ⟨rfl, ?_, ?_⟩)⟩ <;>
      rw [normGoal_ninf] <;> norm_num [pos]
  · have : (G2 M2).lo = fin 0 := by simp [G2]
    rw [this]
    refine ⟨by rw [normGoal_zero]; simp [ValidR], Or.inr (Or.inr ⟨rfl, ?_⟩)⟩
    rw [normGoal_zero]; norm_num [pos]

/-- last phase: the target `g` on a segment that contains it. -/
theorem good_containing (M M2 : ℝ) (g : ExtR ℝ) (hg : ValidR g) {s : Seg ℝ}
    (hs : s ∈ segsContaining (goodman M M2) g) : GoodStep M M2 s g := by
  have hsD : s ∈ goodman M M2 := by
    unfold segsContaining at hs; simp only at hs; split at hs <;> exact (List.mem_filter.1 hs).1
  have hc := mem_containing hs
  rw [GoodStep, normGoal_valid hg]
  refine ⟨hg, ?_⟩
  rcases mem_goodman hsD with rfl | rfl | rfl
  · exact Or.inl rfl
  · refine Or.inr (Or.inl ⟨rfl, ?_⟩)
    rcases g with q | _ | _ | _
    · have hq : q ≤ 0 := by
        rcases hc with h | h
        · simpa [G1, ExtR.lt, ExtR.le] using h
        · have : q < 0 := by simpa [G1, ExtR.lt, ExtR.le] using h
          exact this.le
      exact ⟨(m1_lt_pos (by linarith)).le, pos_le_1 hq⟩
    · exact absurd hg (by simp [ValidR])
    · simp [pos]
    · exact absurd hg (by simp [ValidR])
  · refine Or.inr (Or.inr ⟨rfl, ?_⟩)
    rcases g with q | _ | _ | _
    · simp only [ValidR] at hg
      have hq : 0 ≤ q ∧ q < 1 := by
        rcases hc with h | h
        · have : 0 < q ∧ q ≤ 1 := by simpa [G2, ExtR.lt, ExtR.le] using h
          exact ⟨this.1.le, lt_of_le_of_ne this.2 hg⟩
        · simpa [G2, ExtR.lt, ExtR.le] using h
      exact one_le_pos hq.1 hq.2
    · exact absurd hg (by simp [ValidR])
    · rcases hc with h | h <;> simp [G2, ExtR.lt, ExtR.le] at h
    · exact absurd hg (by simp [ValidR])

/-- For the FKM-Goodman diagram with 0 ≤ M2, 0 ≤ M < 1 the guard "the iso-damage amplitude stays positive along the run"
holds for EVERY cycle and target: slope 0 beyond R = 1; 1 + M·x ≥ 1 - M > 0 for x ∈ [-1,1]; 1 + M2·x ≥ 1 for x ≥ 1. -/
theorem goodman_guard (M M2 : ℝ) (h0 : 0 ≤ M2) (h1 : 0 ≤ M) (h2 : M < 1) (g : ExtR ℝ) (c : Cyc ℝ)
    (hg : ValidR g) (hR : ValidR c.R) : TransformGuard (goodman M M2) g c := by
  have hL : ∀ s ∈ segsLeft (goodman M M2) g, GoodStep M M2 s (leftBoundary s) :=
    fun s hs => good_leftBoundary M M2 (mem_segsLeft hs)
  have hRt : ∀ s ∈ segsRight (goodman M M2) g, GoodStep M M2 s s.lo :=
    fun s hs => good_lo M M2 (mem_segsRight hs)
  have hC : ∀ s ∈ segsContaining (goodman M M2) g, GoodStep M M2 s g :=
    fun s hs => good_containing M M2 g hg hs
  have vL : ValidR (afterLeft (goodman M M2) g c).R :=
    fold_valid leftBoundary _ c hR (fun s hs => (hL s hs).1)
  have vR : ValidR (afterRight (goodman M M2) g c).R :=
    fold_valid (fun s => s.lo) _ _ vL (fun s hs => (hRt s hs).1)
  exact ⟨foldGuard_of_good M M2 h0 h1 h2 leftBoundary _ c hR hL,
    foldGuard_of_good M M2 h0 h1 h2 (fun s => s.lo) _ _ vL hRt,
    foldGuard_of_good M M2 h0 h1 h2 (fun _ => g) _ _ vR hC⟩

/-- Non-vacuity: a cycle in compression beyond R = 1 moved to R = 1/2 (crosses all three segments). -/
example : TransformGuard (goodman (1/2) (1/6)) (fin (1/2)) ⟨1, fin 3⟩ :=
  goodman_guard (1/2) (1/6) (by norm_num) (by norm_num) (by norm_num) _ _ (by norm_num [ValidR]) (by norm_num [ValidR])

end PylifeVerif.Meanstress
