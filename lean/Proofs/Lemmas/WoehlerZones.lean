/-
C18 (Wöhler analysis): the finite / infinite zones of `FatigueData`, their equivariance under load scaling,
cycle scaling and permutation of the tests, and the invariance of the likelihood functions.
-/
import Model.WoehlerAnalysis
import Proofs.RealNum
import Mathlib.Tactic.Linarith
import Mathlib.Tactic.NormNum
import Mathlib.Tactic.Ring
import Mathlib.Tactic.FieldSimp
import Mathlib.Algebra.BigOperators.Group.List.Basic

namespace PylifeVerif.WoehlerZones
open PylifeVerif.WoehlerAnalysis

noncomputable section

/-! ### literals -/
theorem lit0 : (0.0 : ℝ) = 0 := by norm_num
theorem lit1 : (1.0 : ℝ) = 1 := by norm_num
theorem lit2 : (2.0 : ℝ) = 2 := by norm_num

/-! ### `maxOf`, `minOf`, `eqα`, `sum` -/

theorem eqα_iff (a b : ℝ) : eqα a b = true ↔ a = b := by
  simp only [eqα, Bool.and_eq_true, decide_eq_true_eq]
  exact ⟨fun h => le_antisymm h.1 h.2, fun h => ⟨h.le, h.ge⟩⟩

theorem eqα_scale {c : ℝ} (hc : 0 < c) (a b : ℝ) : eqα (c * a) (c * b) = eqα a b := by
  simp only [eqα, mul_le_mul_iff_right₀ hc]

theorem maxOf_mem (x : ℝ) (xs : List ℝ) : maxOf x xs ∈ x :: xs := by
  induction xs generalizing x with
  | nil => simp [maxOf]
  | cons y ys ih =>
    simp only [maxOf]
    rcases List.mem_cons.1 (ih (if x < y then y else x)) with h | h
    · rw [h]; split_ifs <;> simp
    · exact List.mem_cons_of_mem _ (List.mem_cons_of_mem _ h)

theorem le_maxOf (x : ℝ) (xs : List ℝ) : ∀ z ∈ x :: xs, z ≤ maxOf x xs := by
  induction xs generalizing x with
  | nil => intro z hz; simp only [List.mem_singleton] at hz; simp [maxOf, hz]
  | cons y ys ih =>
    intro z hz
    simp only [maxOf]
    have h1 := ih (if x < y then y else x)
    have hx : x ≤ (if x < y then y else x) := by split_ifs with h <;> [exact h.le; exact le_rfl]
    have hy : y ≤ (if x < y then y else x) := by split_ifs with h <;> [exact le_rfl; exact not_lt.1 h]
    have h0 := h1 _ List.mem_cons_self
    rcases List.mem_cons.1 hz with rfl | hz
    · exact hx.trans h0
    rcases List.mem_cons.1 hz with rfl | hz
    · exact hy.trans h0
    · exact h1 z (List.mem_cons_of_mem _ hz)

theorem minOf_mem (x : ℝ) (xs : List ℝ) : minOf x xs ∈ x :: xs := by
  induction xs generalizing x with
  | nil => simp [minOf]
  | cons y ys ih =>
    simp only [minOf]
    rcases List.mem_cons.1 (ih (if y < x then y else x)) with h | h
    · rw [h]; split_ifs <;> simp
    · exact List.mem_cons_of_mem _ (List.mem_cons_of_mem _ h)

theorem minOf_le (x : ℝ) (xs : List ℝ) : ∀ z ∈ x :: xs, minOf x xs ≤ z := by
  induction xs generalizing x with
  | nil => intro z hz; simp only [List.mem_singleton] at hz; simp [minOf, hz]
  | cons y ys ih =>
    intro z hz
    simp only [minOf]
    have h1 := ih (if y < x then y else x)
    have hx : (if y < x then y else x) ≤ x := by split_ifs with h <;> [exact h.le; exact le_rfl]
    have hy : (if y < x then y else x) ≤ y := by split_ifs with h <;> [exact le_rfl; exact not_lt.1 h]
    have h0 := h1 _ List.mem_cons_self
    rcases List.mem_cons.1 hz with rfl | hz
    · exact h0.trans hx
    rcases List.mem_cons.1 hz with rfl | hz
    · exact h0.trans hy
    · exact h1 z (List.mem_cons_of_mem _ hz)

theorem maxOf_scale {c : ℝ} (hc : 0 < c) (x : ℝ) (xs : List ℝ) :
    maxOf (c * x) (xs.map (c * ·)) = c * maxOf x xs := by
  induction xs generalizing x with
  | nil => rfl
  | cons y ys ih =>
    simp only [List.map_cons, maxOf, mul_lt_mul_iff_right₀ hc]
    rw [← ih]; congr 1; split_ifs <;> rfl

theorem minOf_scale {c : ℝ} (hc : 0 < c) (x : ℝ) (xs : List ℝ) :
    minOf (c * x) (xs.map (c * ·)) = c * minOf x xs := by
  induction xs generalizing x with
  | nil => rfl
  | cons y ys ih =>
    simp only [List.map_cons, minOf, mul_lt_mul_iff_right₀ hc]
    rw [← ih]; congr 1; split_ifs <;> rfl

/-- maximum of a list (`0` for the empty list) -/
def maxL : List ℝ → ℝ
  | [] => 0.0
  | x :: xs => maxOf x xs

/-- minimum of a list (`0` for the empty list) -/
def minL : List ℝ → ℝ
  | [] => 0.0
  | x :: xs => minOf x xs

theorem maxL_mem {l : List ℝ} (h : l ≠ []) : maxL l ∈ l := by
  cases l with
  | nil => exact absurd rfl h
  | cons x xs => exact maxOf_mem x xs

theorem le_maxL {l : List ℝ} {z : ℝ} (hz : z ∈ l) : z ≤ maxL l := by
  cases l with
  | nil => cases hz
  | cons x xs => exact le_maxOf x xs z hz

theorem minL_mem {l : List ℝ} (h : l ≠ []) : minL l ∈ l := by
  cases l with
  | nil => exact absurd rfl h
  | cons x xs => exact minOf_mem x xs

theorem minL_le {l : List ℝ} {z : ℝ} (hz : z ∈ l) : minL l ≤ z := by
  cases l with
  | nil => cases hz
  | cons x xs => exact minOf_le x xs z hz

theorem maxL_perm {l₁ l₂ : List ℝ} (h : l₁.Perm l₂) : maxL l₁ = maxL l₂ := by
  by_cases h1 : l₁ = []
  · subst h1; rw [← h.nil_eq]
  · have h2 : l₂ ≠ [] := fun e => h1 (by subst e; exact h.eq_nil)
    exact le_antisymm (le_maxL (h.mem_iff.1 (maxL_mem h1))) (le_maxL (h.mem_iff.2 (maxL_mem h2)))

theorem minL_perm {l₁ l₂ : List ℝ} (h : l₁.Perm l₂) : minL l₁ = minL l₂ := by
  by_cases h1 : l₁ = []
  · subst h1; rw [← h.nil_eq]
  · have h2 : l₂ ≠ [] := fun e => h1 (by subst e; exact h.eq_nil)
    exact le_antisymm (minL_le (h.mem_iff.2 (minL_mem h2))) (minL_le (h.mem_iff.1 (minL_mem h1)))

theorem maxL_scale {c : ℝ} (hc : 0 < c) (l : List ℝ) : maxL (l.map (c * ·)) = c * maxL l := by
  cases l with
  | nil => simp [maxL, lit0]
  | cons x xs => exact maxOf_scale hc x xs

theorem minL_scale {c : ℝ} (hc : 0 < c) (l : List ℝ) : minL (l.map (c * ·)) = c * minL l := by
  cases l with
  | nil => simp [minL, lit0]
  | cons x xs => exact minOf_scale hc x xs

theorem sum_eq (l : List ℝ) : WoehlerAnalysis.sum l = l.sum := by
  induction l with
  | nil => simp [WoehlerAnalysis.sum, lit0]
  | cons x xs ih => simp [WoehlerAnalysis.sum, ih]

theorem sum_perm {l₁ l₂ : List ℝ} (h : l₁.Perm l₂) : WoehlerAnalysis.sum l₁ = WoehlerAnalysis.sum l₂ := by
  rw [sum_eq, sum_eq, h.sum_eq]

/-! ### the zones in terms of `maxL` / `minL` -/

theorem maxRunoutLoad_eq (d : List (Test ℝ)) : maxRunoutLoad d = maxL ((runouts d).map (·.load)) := by
  unfold maxRunoutLoad
  cases (runouts d).map (·.load) <;> rfl

theorem mem_runouts {d : List (Test ℝ)} {t : Test ℝ} : t ∈ runouts d ↔ t ∈ d ∧ t.fracture = false := by
  simp [runouts]

theorem mem_fractures {d : List (Test ℝ)} {t : Test ℝ} : t ∈ fractures d ↔ t ∈ d ∧ t.fracture = true := by
  simp [fractures]

theorem runout_le_max {d : List (Test ℝ)} {t : Test ℝ} (ht : t ∈ d) (hf : t.fracture = false) :
    t.load ≤ maxRunoutLoad d := by
  rw [maxRunoutLoad_eq]
  exact le_maxL (List.mem_map.2 ⟨t, mem_runouts.2 ⟨ht, hf⟩, rfl⟩)

theorem finiteZone_of_no_runouts {d : List (Test ℝ)} (h : runouts d = []) : finiteZone d = d := by
  simp [finiteZone, h]

theorem infiniteZone_of_no_runouts {d : List (Test ℝ)} (h : runouts d = []) : infiniteZone d = [] := by
  simp [infiniteZone, h]

theorem finiteZone_of_runouts {d : List (Test ℝ)} (h : runouts d ≠ []) :
    finiteZone d = d.filter fun t => decide (maxRunoutLoad d < t.load) := by
  simp only [finiteZone, List.isEmpty_iff, h, if_false, fractures, List.filter_filter]
  apply List.filter_congr
  intro t ht
  cases hf : t.fracture
  · simp [not_lt.2 (runout_le_max ht hf)]
  · simp

theorem infiniteZone_of_runouts {d : List (Test ℝ)} (h : runouts d ≠ []) :
    infiniteZone d = d.filter fun t => !decide (maxRunoutLoad d < t.load) := by
  simp only [infiniteZone, List.isEmpty_iff, h, if_false]
  apply List.filter_congr
  intro t _
  simp [← not_lt]

/-! ### zone partition (model of `FatigueData._calc_finite_zone` at the automatic transition) -/

theorem zones_perm (d : List (Test ℝ)) : (finiteZone d ++ infiniteZone d).Perm d := by
  by_cases h : runouts d = []
  · rw [finiteZone_of_no_runouts h, infiniteZone_of_no_runouts h, List.append_nil]
  · rw [finiteZone_of_runouts h, infiniteZone_of_runouts h]
    exact List.filter_append_perm _ d

theorem mem_finiteZone_of_runouts {d : List (Test ℝ)} (h : runouts d ≠ []) {t : Test ℝ} :
    t ∈ finiteZone d ↔ t ∈ d ∧ maxRunoutLoad d < t.load := by
  rw [finiteZone_of_runouts h]; simp

theorem mem_infiniteZone {d : List (Test ℝ)} {t : Test ℝ} :
    t ∈ infiniteZone d ↔ runouts d ≠ [] ∧ t ∈ d ∧ t.load ≤ maxRunoutLoad d := by
  by_cases h : runouts d = []
  · simp [infiniteZone_of_no_runouts h, h]
  · rw [infiniteZone_of_runouts h]; simp [h]

theorem zones_disjoint (d : List (Test ℝ)) : ∀ t, t ∈ finiteZone d → t ∈ infiniteZone d → False := by
  intro t h1 h2
  obtain ⟨h, _, h3⟩ := mem_infiniteZone.1 h2
  exact absurd ((mem_finiteZone_of_runouts h).1 h1).2 (not_lt.2 h3)

theorem finiteZone_fracture (d : List (Test ℝ)) (h : runouts d ≠ []) : ∀ t ∈ finiteZone d, t.fracture = true := by
  intro t ht
  simp only [finiteZone, List.isEmpty_iff, h, if_false] at ht
  exact (mem_fractures.1 (List.mem_filter.1 ht).1).2

theorem transition_of_no_runouts {d : List (Test ℝ)} (h : runouts d = []) : transition d = 0 := by
  simp [transition, h, lit0]

theorem transition_of_finite {d : List (Test ℝ)} (h : runouts d ≠ []) (hf : finiteZone d ≠ []) :
    transition d = (minL ((finiteZone d).map (·.load)) + maxRunoutLoad d) / 2 := by
  simp only [transition, List.isEmpty_iff, h, if_false]
  cases hl : (finiteZone d).map (·.load) with
  | nil => exact absurd (List.map_eq_nil_iff.1 hl) hf
  | cons x xs => simp [minL, lit2]

theorem finiteZone_above_transition (d : List (Test ℝ)) (hpos : ∀ t ∈ d, 0 < t.load) :
    ∀ t ∈ finiteZone d, transition d < t.load := by
  intro t ht
  by_cases h : runouts d = []
  · rw [transition_of_no_runouts h]
    rw [finiteZone_of_no_runouts h] at ht
    exact hpos t ht
  · rw [transition_of_finite h (List.ne_nil_of_mem ht)]
    have h1 : minL ((finiteZone d).map (·.load)) ≤ t.load := minL_le (List.mem_map.2 ⟨t, ht, rfl⟩)
    have h2 := ((mem_finiteZone_of_runouts h).1 ht).2
    linarith

theorem infiniteZone_below_transition (d : List (Test ℝ)) (hf : finiteZone d ≠ []) :
    ∀ t ∈ infiniteZone d, t.load < transition d := by
  intro t ht
  obtain ⟨h, _, h3⟩ := mem_infiniteZone.1 ht
  rw [transition_of_finite h hf]
  have hm := minL_mem (l := (finiteZone d).map (·.load)) (by simpa using hf)
  obtain ⟨s, hs, hs'⟩ := List.mem_map.1 hm
  have h2 := ((mem_finiteZone_of_runouts h).1 hs).2
  rw [hs'] at h2
  linarith

/-- each test is in exactly one zone, decided by the side of the reported transition -/
theorem zones_partition (d : List (Test ℝ)) (hpos : ∀ t ∈ d, 0 < t.load) (hf : finiteZone d ≠ []) :
    (finiteZone d ++ infiniteZone d).Perm d ∧
    (∀ t ∈ d, (t ∈ finiteZone d ↔ transition d < t.load) ∧ (t ∈ infiniteZone d ↔ t.load < transition d)) := by
  refine ⟨zones_perm d, fun t ht => ?_⟩
  have hmem : t ∈ finiteZone d ∨ t ∈ infiniteZone d := List.mem_append.1 ((zones_perm d).mem_iff.2 ht)
  have ha := finiteZone_above_transition d hpos t
  have hb := infiniteZone_below_transition d hf t
  constructor
  · refine ⟨ha, fun h => ?_⟩
    rcases hmem with h1 | h1
    · exact h1
    · exact absurd (hb h1) (not_lt.2 h.le)
  · refine ⟨hb, fun h => ?_⟩
    rcases hmem with h1 | h1
    · exact absurd (ha h1) (not_lt.2 h.le)
    · exact h1

/-! ### equivariance of the zones -/

theorem runouts_scaleLoad (c : ℝ) (d : List (Test ℝ)) : runouts (scaleLoad c d) = scaleLoad c (runouts d) := by
  simp only [runouts, scaleLoad, List.filter_map]; rfl

theorem fractures_scaleLoad (c : ℝ) (d : List (Test ℝ)) : fractures (scaleLoad c d) = scaleLoad c (fractures d) := by
  simp only [fractures, scaleLoad, List.filter_map]; rfl

theorem runouts_scaleCycles (c : ℝ) (d : List (Test ℝ)) : runouts (scaleCycles c d) = scaleCycles c (runouts d) := by
  simp only [runouts, scaleCycles, List.filter_map]; rfl

theorem fractures_scaleCycles (c : ℝ) (d : List (Test ℝ)) :
    fractures (scaleCycles c d) = scaleCycles c (fractures d) := by
  simp only [fractures, scaleCycles, List.filter_map]; rfl

theorem loads_scaleLoad (c : ℝ) (d : List (Test ℝ)) :
    (scaleLoad c d).map (·.load) = (d.map (·.load)).map (c * ·) := by
  simp only [scaleLoad, List.map_map]; rfl

theorem loads_scaleCycles (c : ℝ) (d : List (Test ℝ)) : (scaleCycles c d).map (·.load) = d.map (·.load) := by
  simp only [scaleCycles, List.map_map]; rfl

theorem scaleLoad_eq_nil {c : ℝ} {d : List (Test ℝ)} : scaleLoad c d = [] ↔ d = [] := by
  simp [scaleLoad]

theorem scaleCycles_eq_nil {c : ℝ} {d : List (Test ℝ)} : scaleCycles c d = [] ↔ d = [] := by
  simp [scaleCycles]

theorem maxRunoutLoad_scaleLoad {c : ℝ} (hc : 0 < c) (d : List (Test ℝ)) :
    maxRunoutLoad (scaleLoad c d) = c * maxRunoutLoad d := by
  rw [maxRunoutLoad_eq, maxRunoutLoad_eq, runouts_scaleLoad, loads_scaleLoad, maxL_scale hc]

theorem maxRunoutLoad_scaleCycles (c : ℝ) (d : List (Test ℝ)) :
    maxRunoutLoad (scaleCycles c d) = maxRunoutLoad d := by
  rw [maxRunoutLoad_eq, maxRunoutLoad_eq, runouts_scaleCycles, loads_scaleCycles]

theorem filter_scaleLoad (c : ℝ) (p q : Test ℝ → Bool) (d : List (Test ℝ))
    (h : ∀ t ∈ d, p { t with load := c * t.load } = q t) :
    (scaleLoad c d).filter p = scaleLoad c (d.filter q) := by
  simp only [scaleLoad, List.filter_map]
  congr 1
  exact List.filter_congr fun t ht => h t ht

theorem filter_scaleCycles (c : ℝ) (p q : Test ℝ → Bool) (d : List (Test ℝ))
    (h : ∀ t ∈ d, p { t with cycles := c * t.cycles } = q t) :
    (scaleCycles c d).filter p = scaleCycles c (d.filter q) := by
  simp only [scaleCycles, List.filter_map]
  congr 1
  exact List.filter_congr fun t ht => h t ht

theorem finiteZone_scaleLoad {c : ℝ} (hc : 0 < c) (d : List (Test ℝ)) :
    finiteZone (scaleLoad c d) = scaleLoad c (finiteZone d) := by
  by_cases h : runouts d = []
  · rw [finiteZone_of_no_runouts h, finiteZone_of_no_runouts (by rw [runouts_scaleLoad, h]; rfl)]
  · rw [finiteZone_of_runouts h,
      finiteZone_of_runouts (by rw [runouts_scaleLoad]; exact fun e => h (scaleLoad_eq_nil.1 e)),
      maxRunoutLoad_scaleLoad hc]
    exact filter_scaleLoad c _ _ d fun t _ => by simp only [mul_lt_mul_iff_right₀ hc]

theorem infiniteZone_scaleLoad {c : ℝ} (hc : 0 < c) (d : List (Test ℝ)) :
    infiniteZone (scaleLoad c d) = scaleLoad c (infiniteZone d) := by
  by_cases h : runouts d = []
  · rw [infiniteZone_of_no_runouts h, infiniteZone_of_no_runouts (by rw [runouts_scaleLoad, h]; rfl)]; rfl
  · rw [infiniteZone_of_runouts h,
      infiniteZone_of_runouts (by rw [runouts_scaleLoad]; exact fun e => h (scaleLoad_eq_nil.1 e)),
      maxRunoutLoad_scaleLoad hc]
    exact filter_scaleLoad c _ _ d fun t _ => by simp only [mul_lt_mul_iff_right₀ hc]

theorem finiteZone_scaleCycles (c : ℝ) (d : List (Test ℝ)) :
    finiteZone (scaleCycles c d) = scaleCycles c (finiteZone d) := by
  by_cases h : runouts d = []
  · rw [finiteZone_of_no_runouts h, finiteZone_of_no_runouts (by rw [runouts_scaleCycles, h]; rfl)]
  · rw [finiteZone_of_runouts h,
      finiteZone_of_runouts (by rw [runouts_scaleCycles]; exact fun e => h (scaleCycles_eq_nil.1 e)),
      maxRunoutLoad_scaleCycles]
    exact filter_scaleCycles c _ _ d fun t _ => rfl

theorem infiniteZone_scaleCycles (c : ℝ) (d : List (Test ℝ)) :
    infiniteZone (scaleCycles c d) = scaleCycles c (infiniteZone d) := by
  by_cases h : runouts d = []
  · rw [infiniteZone_of_no_runouts h, infiniteZone_of_no_runouts (by rw [runouts_scaleCycles, h]; rfl)]; rfl
  · rw [infiniteZone_of_runouts h,
      infiniteZone_of_runouts (by rw [runouts_scaleCycles]; exact fun e => h (scaleCycles_eq_nil.1 e)),
      maxRunoutLoad_scaleCycles]
    exact filter_scaleCycles c _ _ d fun t _ => rfl

/-! #### the guess of the transition when the finite zone is empty -/

/-- `guessTransition` on the list of loads -/
def guessL (l : List ℝ) : ℝ :=
  if l = [] then 0 else
    if l.filter (fun x => decide (x < maxL l)) = [] then maxL l
    else maxL l + (maxL l - maxL (l.filter fun x => decide (x < maxL l))) / 2

theorem guessTransition_eq (d : List (Test ℝ)) : guessTransition d = guessL (d.map (·.load)) := by
  unfold guessTransition guessL
  cases hl : d.map (·.load) with
  | nil => simp [lit0]
  | cons x xs =>
    have hm : maxL (x :: xs) = maxOf x xs := rfl
    dsimp only
    rw [if_neg (List.cons_ne_nil _ _), hm]
    generalize (x :: xs).filter (fun l => decide (l < maxOf x xs)) = f
    cases f with
    | nil => simp
    | cons y ys => simp [maxL, lit2]

theorem guessL_scale {c : ℝ} (hc : 0 < c) (l : List ℝ) : guessL (l.map (c * ·)) = c * guessL l := by
  have hfil : (l.map (c * ·)).filter (fun x => decide (x < c * maxL l))
      = (l.filter fun x => decide (x < maxL l)).map (c * ·) := by
    rw [List.filter_map]; congr 1
    exact List.filter_congr fun x _ => by simp only [Function.comp, mul_lt_mul_iff_right₀ hc]
  unfold guessL
  rw [maxL_scale hc, hfil, maxL_scale hc]
  simp only [List.map_eq_nil_iff]
  split_ifs <;> ring

theorem perm_nil_iff {β : Type} {l₁ l₂ : List β} (h : l₁.Perm l₂) : l₁ = [] ↔ l₂ = [] :=
  ⟨fun e => by subst e; exact h.nil_eq.symm, fun e => by subst e; exact h.eq_nil⟩

theorem guessL_perm {l₁ l₂ : List ℝ} (h : l₁.Perm l₂) : guessL l₁ = guessL l₂ := by
  unfold guessL
  rw [maxL_perm h]
  have hfil : (l₁.filter fun x => decide (x < maxL l₂)).Perm (l₂.filter fun x => decide (x < maxL l₂)) :=
    h.filter _
  rw [maxL_perm hfil]
  simp only [perm_nil_iff h, perm_nil_iff hfil]

/-- `transition` in terms of `minL` / `maxL` / `guessL` -/
theorem transition_eq (d : List (Test ℝ)) : transition d =
    if runouts d = [] then 0
    else if finiteZone d = [] then guessL (d.map (·.load))
    else (minL ((finiteZone d).map (·.load)) + maxRunoutLoad d) / 2 := by
  by_cases h : runouts d = []
  · simp [transition_of_no_runouts h, h]
  · by_cases hf : finiteZone d = []
    · simp only [h, hf, if_false, if_true, ← guessTransition_eq]
      simp [transition, h, hf]
    · simp [transition_of_finite h hf, h, hf]

theorem transition_scaleLoad {c : ℝ} (hc : 0 < c) (d : List (Test ℝ)) :
    transition (scaleLoad c d) = c * transition d := by
  rw [transition_eq, transition_eq, runouts_scaleLoad, finiteZone_scaleLoad hc, loads_scaleLoad, loads_scaleLoad,
    guessL_scale hc, minL_scale hc, maxRunoutLoad_scaleLoad hc]
  simp only [scaleLoad_eq_nil]
  split_ifs <;> ring

theorem transition_scaleCycles (c : ℝ) (d : List (Test ℝ)) : transition (scaleCycles c d) = transition d := by
  rw [transition_eq, transition_eq, runouts_scaleCycles, finiteZone_scaleCycles, loads_scaleCycles, loads_scaleCycles,
    maxRunoutLoad_scaleCycles]
  simp only [scaleCycles_eq_nil]

/-! #### permutations -/

theorem fractures_perm {d₁ d₂ : List (Test ℝ)} (h : d₁.Perm d₂) : (fractures d₁).Perm (fractures d₂) := h.filter _

theorem runouts_perm {d₁ d₂ : List (Test ℝ)} (h : d₁.Perm d₂) : (runouts d₁).Perm (runouts d₂) := h.filter _

theorem maxRunoutLoad_perm {d₁ d₂ : List (Test ℝ)} (h : d₁.Perm d₂) : maxRunoutLoad d₁ = maxRunoutLoad d₂ := by
  rw [maxRunoutLoad_eq, maxRunoutLoad_eq]
  exact maxL_perm ((runouts_perm h).map _)

theorem finiteZone_perm {d₁ d₂ : List (Test ℝ)} (h : d₁.Perm d₂) : (finiteZone d₁).Perm (finiteZone d₂) := by
  by_cases h1 : runouts d₁ = []
  · rw [finiteZone_of_no_runouts h1, finiteZone_of_no_runouts ((perm_nil_iff (runouts_perm h)).1 h1)]; exact h
  · rw [finiteZone_of_runouts h1, finiteZone_of_runouts (fun e => h1 ((perm_nil_iff (runouts_perm h)).2 e)),
      maxRunoutLoad_perm h]
    exact h.filter _

theorem infiniteZone_perm {d₁ d₂ : List (Test ℝ)} (h : d₁.Perm d₂) : (infiniteZone d₁).Perm (infiniteZone d₂) := by
  by_cases h1 : runouts d₁ = []
  · rw [infiniteZone_of_no_runouts h1, infiniteZone_of_no_runouts ((perm_nil_iff (runouts_perm h)).1 h1)]
  · rw [infiniteZone_of_runouts h1, infiniteZone_of_runouts (fun e => h1 ((perm_nil_iff (runouts_perm h)).2 e)),
      maxRunoutLoad_perm h]
    exact h.filter _

theorem transition_perm {d₁ d₂ : List (Test ℝ)} (h : d₁.Perm d₂) : transition d₁ = transition d₂ := by
  rw [transition_eq, transition_eq, guessL_perm (h.map _), minL_perm ((finiteZone_perm h).map _),
    maxRunoutLoad_perm h]
  simp only [perm_nil_iff (runouts_perm h), perm_nil_iff (finiteZone_perm h)]

/-! ### likelihood invariance -/

theorem infFactor_scaleLoad (Φ : ℝ → ℝ) {c : ℝ} (hc : c ≠ 0) (SD TS : ℝ) (t : Test ℝ) :
    infFactor Φ (c * SD) TS { t with load := c * t.load } = infFactor Φ SD TS t := by
  simp only [infFactor, mul_div_mul_left _ _ hc]

theorem likInfinite_scaleLoad (Φ : ℝ → ℝ) {c SD : ℝ} (hc : 0 < c) (d : List (Test ℝ)) (TS : ℝ) :
    likInfinite Φ (scaleLoad c d) (c * SD) TS = likInfinite Φ d SD TS := by
  have key : (infiniteZone (scaleLoad c d)).map (infFactor Φ (c * SD) TS)
      = (infiniteZone d).map (infFactor Φ SD TS) := by
    rw [infiniteZone_scaleLoad hc, scaleLoad, List.map_map]
    exact List.map_congr_left fun t _ => infFactor_scaleLoad Φ hc.ne' SD TS t
  simp only [likInfinite, key]

theorem likInfinite_scaleCycles (Φ : ℝ → ℝ) (c : ℝ) (d : List (Test ℝ)) (SD TS : ℝ) :
    likInfinite Φ (scaleCycles c d) SD TS = likInfinite Φ d SD TS := by
  have key : (infiniteZone (scaleCycles c d)).map (infFactor Φ SD TS)
      = (infiniteZone d).map (infFactor Φ SD TS) := by
    rw [infiniteZone_scaleCycles, scaleCycles, List.map_map]
    exact List.map_congr_left fun t _ => rfl
  simp only [likInfinite, key]

theorem likFinite_scaleLoad {c SD : ℝ} (hc : 0 < c) (hSD : 0 < SD) (d : List (Test ℝ)) (k1 ND TN : ℝ) :
    likFinite (scaleLoad c d) (c * SD) k1 ND TN = likFinite d SD k1 ND TN := by
  unfold likFinite
  rw [fractures_scaleLoad, lit0, if_pos hSD, if_pos (mul_pos hc hSD), scaleLoad, List.map_map]
  congr 2
  exact List.map_congr_left fun t _ => by simp only [Function.comp, mul_div_mul_left _ _ hc.ne']

theorem logNormPdf_shift (x mu std a : ℝ) : logNormPdf (x + a) (mu + a) std = logNormPdf x mu std := by
  simp only [logNormPdf]; rw [show x + a - (mu + a) = x - mu by ring]

theorem log10_mul {c x : ℝ} (hc : c ≠ 0) (hx : x ≠ 0) :
    (Transc.log10 (c * x) : ℝ) = Transc.log10 x + Transc.log10 c := by
  simp only [transc_log10, Real.log_mul hc hx]; ring

theorem likFinite_scaleCycles {c SD ND : ℝ} (hc : 0 < c) (hSD : 0 < SD) (hND : 0 < ND) (d : List (Test ℝ))
    (hd : ∀ t ∈ d, 0 < t.load ∧ 0 < t.cycles) (k1 TN : ℝ) :
    likFinite (scaleCycles c d) SD k1 (c * ND) TN = likFinite d SD k1 ND TN := by
  unfold likFinite
  rw [fractures_scaleCycles, scaleCycles, List.map_map]
  congr 3
  apply List.map_congr_left
  intro t ht
  obtain ⟨hL, hN⟩ := hd t (mem_fractures.1 ht).1
  have hne : t.cycles * Transc.pow (t.load / SD) k1 ≠ 0 := by
    rw [transc_pow]
    exact (mul_pos hN (Real.rpow_pos_of_pos (div_pos hL hSD) k1)).ne'
  simp only [Function.comp]
  rw [mul_assoc, log10_mul hc.ne' hne, log10_mul hc.ne' hND.ne', logNormPdf_shift]

theorem likFinite_perm {d₁ d₂ : List (Test ℝ)} (h : d₁.Perm d₂) (SD k1 ND TN : ℝ) :
    likFinite d₁ SD k1 ND TN = likFinite d₂ SD k1 ND TN := by
  unfold likFinite
  rw [sum_perm ((fractures_perm h).map _)]

theorem likInfinite_perm (Φ : ℝ → ℝ) {d₁ d₂ : List (Test ℝ)} (h : d₁.Perm d₂) (SD TS : ℝ) :
    likInfinite Φ d₁ SD TS = likInfinite Φ d₂ SD TS := by
  have hp : ((infiniteZone d₁).map (infFactor Φ SD TS)).Perm ((infiniteZone d₂).map (infFactor Φ SD TS)) :=
    (infiniteZone_perm h).map _
  simp only [likInfinite, hp.any_eq, sum_perm (hp.map Transc.log)]

theorem likTotal_scaleLoad (Φ : ℝ → ℝ) {c : ℝ} (hc : 0 < c) (d : List (Test ℝ)) (cv : Curve ℝ) (hSD : 0 < cv.SD) :
    likTotal Φ (scaleLoad c d) { cv with SD := c * cv.SD } = likTotal Φ d cv := by
  simp only [likTotal, likFinite_scaleLoad hc hSD, likInfinite_scaleLoad Φ hc]

theorem likTotal_scaleCycles (Φ : ℝ → ℝ) {c : ℝ} (hc : 0 < c) (d : List (Test ℝ)) (cv : Curve ℝ)
    (hSD : 0 < cv.SD) (hND : 0 < cv.ND) (hd : ∀ t ∈ d, 0 < t.load ∧ 0 < t.cycles) :
    likTotal Φ (scaleCycles c d) { cv with ND := c * cv.ND } = likTotal Φ d cv := by
  simp only [likTotal, likFinite_scaleCycles hc hSD hND d hd, likInfinite_scaleCycles]

theorem likTotal_perm (Φ : ℝ → ℝ) {d₁ d₂ : List (Test ℝ)} (h : d₁.Perm d₂) (cv : Curve ℝ) :
    likTotal Φ d₁ cv = likTotal Φ d₂ cv := by
  simp only [likTotal, likFinite_perm h, likInfinite_perm Φ h]

/-! ### `irrelevantRunoutsDropped` -/

/-- the pure run-out levels: run-out loads `rl` that are no fracture load `fl` -/
def pureLevels (rl fl : List ℝ) : List ℝ := rl.filter fun l => !(fl.any (eqα l))

/-- the decision of `irrelevantRunoutsDropped` on the lists of pure run-out levels and fracture levels -/
def irrAux (d : List (Test ℝ)) (pure fl : List ℝ) : List (Test ℝ) :=
  match pure, fl with
  | p :: ps, f :: fs =>
    if ps.all (eqα p) then d
    else if maxOf p ps < minOf f fs then d.filter (fun t => !(decide (t.load < maxOf p ps))) else d
  | _, _ => d

theorem irrelevantRunoutsDropped_eq (d : List (Test ℝ)) : irrelevantRunoutsDropped d =
    irrAux d (pureLevels ((runouts d).map (·.load)) ((fractures d).map (·.load))) ((fractures d).map (·.load)) := by
  unfold irrelevantRunoutsDropped irrAux pureLevels
  dsimp only
  generalize List.map (fun x => x.load) (fractures d) = fl
  generalize List.filter (fun l => !fl.any (eqα l)) (List.map (fun x => x.load) (runouts d)) = pure
  cases pure <;> cases fl <;> rfl

/-- all entries of the list are equal -/
def AllEq (l : List ℝ) : Prop := ∀ a ∈ l, ∀ b ∈ l, a = b

theorem all_eqα_iff (p : ℝ) (ps : List ℝ) : ps.all (eqα p) = true ↔ AllEq (p :: ps) := by
  simp only [List.all_eq_true, eqα_iff, AllEq]
  constructor
  · intro h a ha b hb
    have key : ∀ x ∈ p :: ps, x = p := fun x hx => by
      rcases List.mem_cons.1 hx with rfl | hx
      · rfl
      · exact (h x hx).symm
    rw [key a ha, key b hb]
  · intro h b hb
    exact h p List.mem_cons_self b (List.mem_cons_of_mem _ hb)

/-- the condition under which tests are dropped: at least two pure run-out levels, the highest of them below every
fractured level -/
def Drop (pure fl : List ℝ) : Prop := pure ≠ [] ∧ fl ≠ [] ∧ ¬ AllEq pure ∧ maxL pure < minL fl

theorem irrAux_of_drop {d : List (Test ℝ)} {pure fl : List ℝ} (h : Drop pure fl) :
    irrAux d pure fl = d.filter fun t => !(decide (t.load < maxL pure)) := by
  obtain ⟨h1, h2, h3, h4⟩ := h
  cases pure with
  | nil => exact absurd rfl h1
  | cons p ps =>
    cases fl with
    | nil => exact absurd rfl h2
    | cons f fs =>
      have h3' : ¬ (ps.all (eqα p) = true) := fun e => h3 ((all_eqα_iff p ps).1 e)
      have h4' : maxOf p ps < minOf f fs := h4
      show (if ps.all (eqα p) = true then d
        else if maxOf p ps < minOf f fs then d.filter (fun t => !(decide (t.load < maxOf p ps))) else d) = _
      rw [if_neg h3', if_pos h4']
      rfl

theorem irrAux_of_not_drop {d : List (Test ℝ)} {pure fl : List ℝ} (h : ¬ Drop pure fl) : irrAux d pure fl = d := by
  cases pure with
  | nil => rfl
  | cons p ps =>
    cases fl with
    | nil => rfl
    | cons f fs =>
      simp only [irrAux]
      by_cases h1 : ps.all (eqα p) = true
      · rw [if_pos h1]
      · rw [if_neg h1]
        by_cases h2 : maxOf p ps < minOf f fs
        · exact absurd ⟨List.cons_ne_nil _ _, List.cons_ne_nil _ _, fun e => h1 ((all_eqα_iff p ps).2 e), h2⟩ h
        · rw [if_neg h2]

theorem AllEq_scale {c : ℝ} (hc : 0 < c) (l : List ℝ) : AllEq (l.map (c * ·)) ↔ AllEq l := by
  simp only [AllEq, List.forall_mem_map, mul_right_inj' hc.ne']

theorem AllEq_perm {l₁ l₂ : List ℝ} (h : l₁.Perm l₂) : AllEq l₁ ↔ AllEq l₂ := by
  simp only [AllEq, h.mem_iff]

theorem Drop_scale {c : ℝ} (hc : 0 < c) (pure fl : List ℝ) :
    Drop (pure.map (c * ·)) (fl.map (c * ·)) ↔ Drop pure fl := by
  simp only [Drop, AllEq_scale hc, maxL_scale hc, minL_scale hc, mul_lt_mul_iff_right₀ hc, ne_eq,
    List.map_eq_nil_iff]

theorem Drop_perm {p₁ p₂ f₁ f₂ : List ℝ} (hp : p₁.Perm p₂) (hf : f₁.Perm f₂) : Drop p₁ f₁ ↔ Drop p₂ f₂ := by
  simp only [Drop, AllEq_perm hp, maxL_perm hp, minL_perm hf, ne_eq, perm_nil_iff hp, perm_nil_iff hf]

theorem pureLevels_scale {c : ℝ} (hc : 0 < c) (rl fl : List ℝ) :
    pureLevels (rl.map (c * ·)) (fl.map (c * ·)) = (pureLevels rl fl).map (c * ·) := by
  unfold pureLevels
  rw [List.filter_map]
  congr 1
  apply List.filter_congr
  intro l _
  simp only [List.any_map, Function.comp_def, eqα_scale hc]

theorem pureLevels_perm {r₁ r₂ f₁ f₂ : List ℝ} (hr : r₁.Perm r₂) (hf : f₁.Perm f₂) :
    (pureLevels r₁ f₁).Perm (pureLevels r₂ f₂) := by
  unfold pureLevels
  have : (fun l => !(f₁.any (eqα l))) = fun l => !(f₂.any (eqα l)) := funext fun l => by rw [hf.any_eq]
  rw [this]
  exact hr.filter _

theorem irrelevantRunoutsDropped_scaleLoad {c : ℝ} (hc : 0 < c) (d : List (Test ℝ)) :
    irrelevantRunoutsDropped (scaleLoad c d) = scaleLoad c (irrelevantRunoutsDropped d) := by
  rw [irrelevantRunoutsDropped_eq, irrelevantRunoutsDropped_eq, runouts_scaleLoad, fractures_scaleLoad,
    loads_scaleLoad, loads_scaleLoad, pureLevels_scale hc]
  by_cases h : Drop (pureLevels ((runouts d).map (·.load)) ((fractures d).map (·.load))) ((fractures d).map (·.load))
  · rw [irrAux_of_drop h, irrAux_of_drop ((Drop_scale hc _ _).2 h), maxL_scale hc]
    exact filter_scaleLoad c _ _ d fun t _ => by simp only [mul_lt_mul_iff_right₀ hc]
  · rw [irrAux_of_not_drop h, irrAux_of_not_drop (fun e => h ((Drop_scale hc _ _).1 e))]

theorem irrelevantRunoutsDropped_scaleCycles (c : ℝ) (d : List (Test ℝ)) :
    irrelevantRunoutsDropped (scaleCycles c d) = scaleCycles c (irrelevantRunoutsDropped d) := by
  rw [irrelevantRunoutsDropped_eq, irrelevantRunoutsDropped_eq, runouts_scaleCycles, fractures_scaleCycles,
    loads_scaleCycles, loads_scaleCycles]
  by_cases h : Drop (pureLevels ((runouts d).map (·.load)) ((fractures d).map (·.load))) ((fractures d).map (·.load))
  · rw [irrAux_of_drop h, irrAux_of_drop h]
    exact filter_scaleCycles c _ _ d fun t _ => rfl
  · rw [irrAux_of_not_drop h, irrAux_of_not_drop h]

theorem irrelevantRunoutsDropped_perm {d₁ d₂ : List (Test ℝ)} (h : d₁.Perm d₂) :
    (irrelevantRunoutsDropped d₁).Perm (irrelevantRunoutsDropped d₂) := by
  have hf : ((fractures d₁).map (·.load)).Perm ((fractures d₂).map (·.load)) := (fractures_perm h).map _
  have hr : ((runouts d₁).map (·.load)).Perm ((runouts d₂).map (·.load)) := (runouts_perm h).map _
  have hp := pureLevels_perm hr hf
  rw [irrelevantRunoutsDropped_eq, irrelevantRunoutsDropped_eq]
  by_cases hd : Drop (pureLevels ((runouts d₁).map (·.load)) ((fractures d₁).map (·.load)))
      ((fractures d₁).map (·.load))
  · rw [irrAux_of_drop hd, irrAux_of_drop ((Drop_perm hp hf).1 hd), maxL_perm hp]
    exact h.filter _
  · rw [irrAux_of_not_drop hd, irrAux_of_not_drop (fun e => hd ((Drop_perm hp hf).2 e))]
    exact h

/-- what `irrelevantRunoutsDropped` does, in words: nothing unless `Drop` holds; then exactly the tests strictly below
the highest pure run-out level are removed -/
theorem irrelevantRunoutsDropped_spec (d : List (Test ℝ)) :
    let fl := (fractures d).map (·.load)
    let pure := pureLevels ((runouts d).map (·.load)) fl
    (Drop pure fl → irrelevantRunoutsDropped d = d.filter fun t => !(decide (t.load < maxL pure))) ∧
    (¬ Drop pure fl → irrelevantRunoutsDropped d = d) := by
  intro fl pure
  exact ⟨fun h => by rw [irrelevantRunoutsDropped_eq, irrAux_of_drop h],
    fun h => by rw [irrelevantRunoutsDropped_eq, irrAux_of_not_drop h]⟩

/-! ### non-vacuity: a data set with run-outs, a non-empty finite zone and positive loads / cycles -/

/-- one fracture above one run-out -/
def exampleData : List (Test ℝ) := [⟨3, 10, true⟩, ⟨2, 100, false⟩]

example : (∀ t ∈ exampleData, 0 < t.load ∧ 0 < t.cycles) ∧ runouts exampleData ≠ [] ∧
    finiteZone exampleData ≠ [] ∧ infiniteZone exampleData ≠ [] := by
  have hr : runouts exampleData ≠ [] := by simp [runouts, exampleData]
  have hm : maxRunoutLoad exampleData = 2 := by simp [maxRunoutLoad, runouts, exampleData, maxOf]
  refine ⟨by simp [exampleData], hr, ?_, ?_⟩
  · refine List.ne_nil_of_mem (a := ⟨3, 10, true⟩) ((mem_finiteZone_of_runouts hr).2 ⟨by simp [exampleData], ?_⟩)
    rw [hm]; norm_num
  · refine List.ne_nil_of_mem (a := ⟨2, 100, false⟩) (mem_infiniteZone.2 ⟨hr, by simp [exampleData], ?_⟩)
    rw [hm]

end

end PylifeVerif.WoehlerZones

