/-
Helper lemmas for `Proofs/C04InsertCode.lean`: the development of `Proofs/Lemmas/HCMInsert.lean`
for THE CODE's first-run flush decision (`adjustFirstRun` / `twoPass`: the flag is decided on the
zero-prefixed sequence doubled WITH the zero).  Everything that depends on the flush flag is restated
here for an arbitrary flag `f`; the flag of the code is `flushC`.
-/
import Proofs.Lemmas.HCMInsert

namespace PylifeVerif.HCM.Insert
open PylifeVerif.HCM PylifeVerif.Rainflow
open PylifeVerif.C04 (one)

/-! ### the two `newTurns` calls for an arbitrary first-run flush flag -/

def r1G (f : Bool) (t : List Int) : TurnState × List Pt := newTurns {} (0 :: t) f
def r2G (f : Bool) (t : List Int) : TurnState × List Pt := newTurns (r1G f t).1 t true

/-- the values of the turning points that the two passes feed to the HCM loop, first-run flag `f` -/
def fedG (f : Bool) (t : List Int) : List Int × List Int :=
  ((r1G f t).2.map (·.2), (r2G f t).2.map (·.2))

theorem r1G_tail (f : Bool) (t : List Int) :
    (r1G f t).1.tail = (if f then [(0 :: t).getLast (List.cons_ne_nil _ _)]
      else (0 :: t).drop (lastIdx (findTurns (0 :: t)))) ∧ (r1G f t).1.head = t.length + 1 := by
  unfold r1G
  rw [newTurns_eq _ _ (List.cons_ne_nil _ _)]
  cases f <;> simp

theorem r1G_ok (f : Bool) (t : List Int) :
    (r1G f t).1.tail.length ≤ (r1G f t).1.head ∧
    ∀ q ∈ findTurns ((r1G f t).1.tail ++ t), q.1 < (r1G f t).1.tail.length →
      [(0 :: t).getLast (List.cons_ne_nil _ _)] = [q.2] := by
  obtain ⟨ht, hh⟩ := r1G_tail f t
  rw [ht, hh]
  cases f with
  | true =>
    simp only [if_true, List.length_singleton]
    refine ⟨by omega, fun q hq hlt => ?_⟩
    have hv := Sym.findTurns_index_valid _ q hq
    have : q.1 = 0 := by omega
    rw [this] at hv
    simp at hv
    rw [hv]
  | false =>
    simp only [Bool.false_eq_true, if_false]
    refine ⟨by simp only [List.length_drop, List.length_cons]; omega, fun q hq hlt => ?_⟩
    have hlt' := lastIdx_lt (0 :: t) (List.cons_ne_nil _ _)
    have hne : (0 :: t).drop (lastIdx (findTurns (0 :: t))) ≠ [] := by
      intro h; have := congrArg List.length h; simp at this; simp at hlt'; omega
    rw [no_turn_prefix _ t hne (findTurns_tail_nil _) q hq hlt, List.getLast_drop]

/-- the two passes with a given first-run flag on a (trimmed, zero-prefixed) one-point sequence -/
theorem passes_one (law : Law) (t : List Int) (ht : t ≠ []) (f : Bool) :
    core (process law (process law {} (one (0 :: t)) f) (one t) true) =
      feed law (feed law {} 1 (one (fedG f t).1)) 1 (one (fedG f t).2) := by
  have hn1 : ((one (0 :: t)).headD []).length = 1 := rfl
  have hn2 : ((one t).headD []).length = 1 := by
    cases t with
    | nil => exact absurd rfl ht
    | cons x xs => rfl
  have hts := process_ts law {} (one (0 :: t)) f
  rw [one_rep] at hts
  have hl1 : (one (0 :: t)).getLastD ({} : State).lastSample =
      [(0 :: t).getLast (List.cons_ne_nil _ _)] := by
    unfold one
    rw [List.getLastD_eq_getLast?, List.getLast?_map,
      List.getLast?_eq_some_getLast (List.cons_ne_nil _ _)]
    rfl
  rw [hl1] at hts
  have hok := r1G_ok f t
  rw [process_core, hn2, loadsOf_one _ t ht true (by rw [hts.1]; exact hok.1)
    (by rw [hts.1, hts.2]; exact hok.2)]
  rw [process_core, hn1, loadsOf_one _ (0 :: t) (List.cons_ne_nil _ _) f (Nat.le_refl _)
    (by intro q _ h; exact absurd h (Nat.not_lt_zero _))]
  rw [hts.1]
  rfl

/-! ### the code's flag -/

/-- the flush flag of `adjustFirstRun` (THE CODE) on values -/
def flushC (t : List Int) : Bool :=
  ((findTurns ((0 :: t) ++ (0 :: t))).map (·.1)).contains t.length

theorem adjustC_one (t : List Int) (ht : t ≠ []) :
    adjustFirstRun (one t) = (one (0 :: t), flushC t) := by
  cases t with
  | nil => exact absurd rfl ht
  | cons x xs =>
    unfold adjustFirstRun flushC
    have e : (List.replicate ((one (x :: xs)).headD []).length 0 :: one (x :: xs)) = one (0 :: x :: xs) := rfl
    simp only [e, one_rep]
    simp [one]

/-- the fed values of the code -/
def fedC (t : List Int) : List Int × List Int := fedG (flushC t) t

/-- **Part H for the code.** -/
theorem twoPassC_one (law : Law) (s : List Int) (hs : trimI s ≠ []) :
    core (twoPass law (one s)) =
      feed law (feed law {} 1 (one (fedC (trimI s)).1)) 1 (one (fedC (trimI s)).2) := by
  unfold twoPass
  rw [drop_one]
  simp only []
  rw [adjustC_one _ hs]
  simp only []
  exact passes_one law _ hs _

/-! ### closed forms and invariance under the insertion, for an arbitrary flag -/

theorem fedG1_eq (f : Bool) (t : List Int) :
    (fedG f t).1 = vals (findTurns (0 :: t)) ++
      (if f then [(0 :: t).getLast (List.cons_ne_nil _ _)] else []) := by
  unfold fedG r1G
  rw [newTurns_eq _ _ (List.cons_ne_nil _ _)]
  cases f <;> simp [vals, shiftPts]

theorem fedG2_eq (f : Bool) (t : List Int) (ht : t ≠ []) :
    (fedG f t).2 = vals (findTurns ((if f then [(0 :: t).getLast (List.cons_ne_nil _ _)]
      else (0 :: t).drop (lastIdx (findTurns (0 :: t)))) ++ t)) ++ [t.getLast ht] := by
  unfold fedG r2G
  rw [newTurns_eq _ _ ht, (r1G_tail f t).1]
  simp [vals, shiftPts]

/-- the fed values for a fixed first-run flag do not see the inserted sample -/
theorem fedG_ins (f : Bool) (A B : List Int) (v : Int) (h : InsOK A v B) (hB : B ≠ []) :
    fedG f (A ++ v :: B) = fedG f (A ++ B) := by
  have hz : (0 :: (A ++ v :: B)).getLast (List.cons_ne_nil _ _) =
      (0 :: (A ++ B)).getLast (List.cons_ne_nil _ _) := by
    have := last_ins [0] A B v hB
    exact this.1.trans this.2.symm
  have hz' : (A ++ v :: B).getLast (by simp) = (A ++ B).getLast (by simp [hB]) := by
    have := last_ins [] A B v hB
    exact this.1.trans this.2.symm
  have hv1 : vals (findTurns (0 :: (A ++ v :: B))) = vals (findTurns (0 :: (A ++ B))) := by
    have := findTurns_ins (0 :: A) B v (h.prepend [0])
    simp only [List.cons_append] at this
    rw [this, vals_bump]
  refine Prod.ext ?_ ?_
  · rw [fedG1_eq, fedG1_eq, hv1, hz]
  · rw [fedG2_eq _ _ (by simp), fedG2_eq _ _ (by simp [hB]), hz, hz']
    congr 1
    cases f with
    | true =>
      simp only [if_true]
      have := findTurns_ins ([(0 :: (A ++ B)).getLast (List.cons_ne_nil _ _)] ++ A) B v (h.prepend _)
      simp only [List.append_assoc] at this
      rw [this, vals_bump]
    | false =>
      simp only [Bool.false_eq_true, if_false]
      rw [vals_newTurnsOf, vals_newTurnsOf]
      have a1 := findTurns_append_eq (0 :: (A ++ v :: B)) (A ++ v :: B)
      have a0 := findTurns_append_eq (0 :: (A ++ B)) (A ++ B)
      have hX : InsOK (0 :: A) v B := h.prepend [0]
      have e1 : (0 :: (A ++ v :: B)) ++ (A ++ v :: B) = ((0 :: A) ++ v :: B) ++ (A ++ v :: B) := by simp
      have e2 : (0 :: (A ++ B)) ++ (A ++ B) = ((0 :: A) ++ B) ++ (A ++ B) := by simp
      have hv2 := congrArg vals (findTurns_ins2 (0 :: A) A B v hX h)
      rw [vals_bump, vals_bump, ← e1, ← e2, a1, a0] at hv2
      simp only [vals, List.map_append] at hv2 hv1 ⊢
      rw [hv1] at hv2
      exact List.append_cancel_left hv2

/-- the code's flush flag is unchanged by the insertion -/
theorem flushC_ins (A B : List Int) (v : Int) (h : InsOK A v B) (hB : B ≠ []) :
    flushC (A ++ v :: B) = flushC (A ++ B) := by
  have hA := List.length_pos_of_ne_nil h.ne_nil
  have hBl := List.length_pos_of_ne_nil hB
  unfold flushC
  have e1 : (0 :: (A ++ v :: B)) ++ (0 :: (A ++ v :: B)) =
      ((0 :: A) ++ v :: B) ++ ((0 :: A) ++ v :: B) := by simp
  have e2 : (0 :: (A ++ B)) ++ (0 :: (A ++ B)) = ((0 :: A) ++ B) ++ ((0 :: A) ++ B) := by simp
  have hX : InsOK (0 :: A) v B := h.prepend [0]
  rw [e1, e2, findTurns_ins2 (0 :: A) (0 :: A) B v hX hX, idx_bump, idx_bump, Bool.eq_iff_iff,
    List.contains_iff_mem, List.contains_iff_mem]
  have e3 : (A ++ v :: B).length = (A ++ B).length + 1 := by
    simp only [List.length_append, List.length_cons]; omega
  rw [e3]
  exact mem_bump _ _ _ (by simp only [List.length_append, List.length_cons]; omega)
    (by simp only [List.length_append, List.length_cons]; omega) _

/-- **The code's fed values do not see the inserted sample.** -/
theorem fedC_ins (A B : List Int) (v : Int) (h : InsOK A v B) (hB : B ≠ []) :
    fedC (A ++ v :: B) = fedC (A ++ B) := by
  unfold fedC
  rw [flushC_ins A B v h hB, fedG_ins _ A B v h hB]

/-! ### constant sequences record nothing (any first-run flag) -/

theorem const_twoPassC (law : Law) (n : Nat) (a : Int) (hn : 0 < n) :
    (twoPass law (one (List.replicate n a))).recs = [] := by
  have hne : List.replicate n a ≠ [] := by
    intro h; have := congrArg List.length h; simp at this; omega
  have hc : (twoPass law (one (List.replicate n a))).recs =
      (core (twoPass law (one (List.replicate n a)))).recs := rfl
  rw [hc, twoPassC_one law _ (by rw [trimI_rep]; exact hne), trimI_rep]
  have hl : (List.replicate n a).getLast hne = a := by simp
  have hl0 : (0 :: List.replicate n a).getLast (List.cons_ne_nil _ _) = a := by
    rw [List.getLast_cons hne, hl]
  unfold fedC
  generalize flushC (List.replicate n a) = f
  have h2 : (fedG f (List.replicate n a)).2 = [a] := by
    rw [fedG2_eq _ _ hne, hl, hl0]
    cases f with
    | true =>
      simp only [if_true]
      have : [a] ++ List.replicate n a = List.replicate (1 + n) a := by
        rw [← List.replicate_append_replicate]; rfl
      rw [this, findTurns_rep]; rfl
    | false =>
      simp only [Bool.false_eq_true, if_false, findTurns_zero_rep, lastIdx_nil, List.drop_zero,
        List.cons_append, List.replicate_append_replicate]
      rfl
  have h1 : (fedG f (List.replicate n a)).1 = [] ∨ (fedG f (List.replicate n a)).1 = [a] := by
    rw [fedG1_eq, findTurns_zero_rep, hl0]
    cases f
    · left; rfl
    · right; rfl
  rw [h2]
  exact const_feed law a _ h1

end PylifeVerif.HCM.Insert
