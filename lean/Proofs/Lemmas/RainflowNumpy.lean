/-
Helper lemmas for `C03.findTurns_eq_numpy`: the numpy formulation of `find_turns`
(`findTurnsNumpyProd`) computes the declarative reversals.
-/
import Proofs.Lemmas.Common
import Proofs.Lemmas.Reversals
import Mathlib.Tactic.SplitIfs
import Mathlib.Data.List.Basic
import Mathlib.Tactic.Linarith

namespace PylifeVerif.Numpy
open PylifeVerif.Rainflow PylifeVerif.C02

/-! ### Part 1: start / end edge lists that alternate, and the `cut_ends` / `cut_starts` rules -/

/-- `Alt b lb S E`: the start edges `S` and end edges `E` are strictly increasing, all `≥ lb`, and
alternate; `b = true` means the next edge (if any) is an end, `b = false` that it is a start. -/
inductive Alt : Bool → Nat → List Nat → List Nat → Prop
  | nil (b : Bool) (lb : Nat) : Alt b lb [] []
  | start {lb s : Nat} {S E : List Nat} : lb ≤ s → Alt true (s+1) S E → Alt false lb (s :: S) E
  | stop {lb e : Nat} {S E : List Nat} : lb ≤ e → Alt false (e+1) S E → Alt true lb S (e :: E)

theorem Alt.mono {b : Bool} {lb lb' : Nat} {S E : List Nat} (h : Alt b lb S E) (hl : lb' ≤ lb) :
    Alt b lb' S E := by
  cases h with
  | nil => exact Alt.nil _ _
  | start h1 h2 => exact Alt.start (by omega) h2
  | stop h1 h2 => exact Alt.stop (by omega) h2

theorem Alt.lb_le {b : Bool} {lb : Nat} {S E : List Nat} (h : Alt b lb S E) :
    (∀ x ∈ S, lb ≤ x) ∧ (∀ x ∈ E, lb ≤ x) := by
  induction h with
  | nil => simp
  | start h1 _ ih =>
    refine ⟨fun x hx => ?_, fun x hx => ?_⟩
    · rcases List.mem_cons.mp hx with rfl | hx
      · exact h1
      · have := ih.1 x hx; omega
    · have := ih.2 x hx; omega
  | stop h1 _ ih =>
    refine ⟨fun x hx => ?_, fun x hx => ?_⟩
    · have := ih.1 x hx; omega
    · rcases List.mem_cons.mp hx with rfl | hx
      · exact h1
      · have := ih.2 x hx; omega

theorem Alt.length {b : Bool} {lb : Nat} {S E : List Nat} (h : Alt b lb S E) :
    if b then (E.length = S.length ∨ E.length = S.length + 1)
    else (S.length = E.length ∨ S.length = E.length + 1) := by
  induction h with
  | nil b => cases b <;> simp
  | start _ _ ih => simp only [if_true, Bool.false_eq_true, if_false, List.length_cons] at ih ⊢; omega
  | stop _ _ ih => simp only [if_true, Bool.false_eq_true, if_false, List.length_cons] at ih ⊢; omega

theorem getLast!_cons_cons (a b : Nat) (l : List Nat) : (a :: b :: l).getLast! = (b :: l).getLast! := by
  simp [List.getLast!_eq_getLast?_getD, List.getLast?_cons_cons]

/-- if the last edge is an end, the last start lies before the last end -/
theorem Alt.last_lt {b : Bool} {lb : Nat} {S E : List Nat} (h : Alt b lb S E) :
    (if b then E.length = S.length + 1 else S.length = E.length) → S ≠ [] →
      S.getLast! < E.getLast! := by
  induction h with
  | nil => intro _ h; exact absurd rfl h
  | @start lb s S E h1 h2 ih =>
    intro hl _
    simp only [Bool.false_eq_true, if_false, List.length_cons, if_true] at hl ih
    cases S with
    | nil =>
      cases E with
      | nil => simp at hl
      | cons e E' =>
        cases E' with
        | nil =>
          have := h2.lb_le.2 e (by simp)
          simp [List.getLast!_eq_getLast?_getD]; omega
        | cons _ _ => simp at hl
    | cons s' S' =>
      rw [getLast!_cons_cons]
      exact ih (by omega) (by simp)
  | @stop lb e S E h1 h2 ih =>
    intro hl hS
    simp only [Bool.false_eq_true, if_false, List.length_cons, if_true] at hl ih
    cases E with
    | nil =>
      cases S with
      | nil => exact absurd rfl hS
      | cons _ _ => simp at hl
    | cons e' E' =>
      rw [getLast!_cons_cons]
      exact ih (by omega) hS

/-- the pairing of start and end edges as computed by the numpy code -/
def numpyZip (starts0 ends0 : List Nat) : List (Nat × Nat) :=
  if starts0.isEmpty || ends0.isEmpty then [] else
    let cutEnds := ends0.head! < starts0.head!
    let cutStarts := starts0.getLast! > ends0.getLast!
    let ends := if cutEnds then ends0.tail else ends0
    let starts := if cutStarts then starts0.dropLast else starts0
    starts.zip ends

theorem zip_dropLast (S E : List Nat) (h : E.length + 1 ≤ S.length) :
    S.dropLast.zip E = S.zip E := by
  induction S generalizing E with
  | nil => simp
  | cons s S ih =>
    cases S with
    | nil =>
      cases E with
      | nil => simp
      | cons _ _ => simp at h
    | cons s' S' =>
      cases E with
      | nil => simp
      | cons e E' =>
        simp only [List.dropLast_cons_cons, List.zip_cons_cons]
        rw [ih E' (by simp only [List.length_cons] at h ⊢; omega)]

/-- **The cut rules.**  If the next edge is a start, the starts are zipped with the ends; if it is an
end, that first end is dropped.  (`cut_starts` only ever removes a start that `zip` would drop
anyway.) -/
theorem numpyZip_eq {b : Bool} {lb : Nat} {S E : List Nat} (h : Alt b lb S E) :
    numpyZip S E = S.zip (if b then E.tail else E) := by
  unfold numpyZip
  cases hS : S with
  | nil => simp
  | cons s S' =>
    cases hE : E with
    | nil => cases b <;> simp
    | cons e E' =>
      subst hS hE
      simp only [List.isEmpty_cons, Bool.or_self, Bool.false_eq_true, if_false, List.head!_cons,
        List.tail_cons]
      cases h with
      | @start _ _ _ _ h1 h2 =>
        have he := h2.lb_le.2 e (by simp)
        have hce : ¬ e < s := by omega
        simp only [hce, if_false, Bool.false_eq_true]
        by_cases hc : (s :: S').getLast! > (e :: E').getLast!
        · simp only [hc, if_true]
          apply zip_dropLast
          have hl := (Alt.start h1 h2).length
          simp only [Bool.false_eq_true, if_false] at hl
          rcases hl with hl | hl
          · have := (Alt.start h1 h2).last_lt (by simpa using hl) (by simp)
            omega
          · omega
        · simp only [hc, if_false]
      | @stop _ _ _ _ h1 h2 =>
        have hs := h2.lb_le.1 s (by simp)
        have hce : e < s := by omega
        simp only [hce, if_true]
        by_cases hc : (s :: S').getLast! > (e :: E').getLast!
        · simp only [hc, if_true]
          apply zip_dropLast
          have hl := (Alt.stop h1 h2).length
          simp only [if_true] at hl
          rcases hl with hl | hl
          · simp only [List.length_cons] at hl ⊢; omega
          · have := (Alt.stop h1 h2).last_lt (by simpa using hl) (by simp)
            omega
        · simp only [hc, if_false]

/-! ### Part 2: the edges of the zero pattern of a difference list -/

/-- start edges of `d` (a non-zero difference followed by a zero one), `k` = index of the head -/
def Sd : Nat → List Int → List Nat
  | k, a :: b :: r => (if a ≠ 0 ∧ b = 0 then [k] else []) ++ Sd (k+1) (b :: r)
  | _, _ => []

/-- end edges of `d` (a zero difference followed by a non-zero one) -/
def Ed : Nat → List Int → List Nat
  | k, a :: b :: r => (if a = 0 ∧ b ≠ 0 then [k] else []) ++ Ed (k+1) (b :: r)
  | _, _ => []

def headZero : List Int → Bool
  | a :: _ => decide (a = 0)
  | [] => false

theorem alt_edges (d : List Int) : ∀ k, Alt (headZero d) k (Sd k d) (Ed k d) := by
  induction d with
  | nil => intro k; exact Alt.nil _ _
  | cons a r ih =>
    intro k
    cases r with
    | nil => exact Alt.nil _ _
    | cons b r' =>
      have ih' := ih (k+1)
      simp only [Sd, Ed, headZero] at ih' ⊢
      by_cases ha : a = 0 <;> by_cases hb : b = 0
      · simp only [ha, hb, decide_true, ne_eq, not_true_eq_false, and_false, false_and, if_false,
          List.nil_append] at ih' ⊢
        exact ih'.mono (by omega)
      · simp only [ha, hb, decide_true, decide_false, ne_eq, not_true_eq_false, not_false_eq_true,
          and_self, if_false, if_true, List.nil_append, List.singleton_append] at ih' ⊢
        exact Alt.stop (Nat.le_refl _) ih'
      · simp only [ha, hb, decide_true, decide_false, ne_eq, not_true_eq_false, not_false_eq_true,
          and_self, if_false, if_true, List.nil_append,
          List.singleton_append] at ih' ⊢
        exact Alt.start (Nat.le_refl _) ih'
      · simp only [ha, hb, decide_false, ne_eq, not_false_eq_true, and_false, false_and, if_false,
          List.nil_append] at ih' ⊢
        exact ih'.mono (by omega)

/-- inside a run of zero differences: the first end edge sits just before the first non-zero
difference -/
theorem first_end (r : List Int) : ∀ k, headZero r = true →
    match r.find? (· ≠ 0) with
    | none => Ed k r = []
    | some x => ∃ e E1, Ed k r = e :: E1 ∧ k ≤ e ∧ r[e + 1 - k]? = some x := by
  induction r with
  | nil => intro k h; simp [headZero] at h
  | cons a r1 ih =>
    intro k h
    have ha : a = 0 := by simpa [headZero] using h
    subst ha
    cases r1 with
    | nil => simp [Ed]
    | cons c r2 =>
      by_cases hc : c = 0
      · subst hc
        have ih' := ih (k+1) (by simp [headZero])
        have hf : List.find? (· ≠ 0) ((0 : Int) :: 0 :: r2) = List.find? (· ≠ 0) (0 :: r2) := by simp
        have hE : Ed k (0 :: 0 :: r2) = Ed (k+1) (0 :: r2) := by simp [Ed]
        rw [hf, hE]
        cases hfind : List.find? (· ≠ 0) ((0 : Int) :: r2) with
        | none => rw [hfind] at ih'; exact ih'
        | some x =>
          rw [hfind] at ih'
          obtain ⟨e, E1, h1, h2, h3⟩ := ih'
          refine ⟨e, E1, h1, by omega, ?_⟩
          have : e + 1 - k = (e + 1 - (k + 1)) + 1 := by omega
          rw [this, List.getElem?_cons_succ]
          exact h3
      · have hf : List.find? (· ≠ 0) ((0 : Int) :: c :: r2) = some c := by simp [hc]
        rw [hf]
        refine ⟨k, Ed (k+1) (c :: r2), by simp [Ed, hc], Nat.le_refl _, ?_⟩
        have : k + 1 - k = 1 := by omega
        rw [this]; rfl

/-! ### Part 3: the plateau turns -/

def scanIdx (g : Int → List Int → Bool) : Nat → List Int → List Nat
  | _, [] => []
  | k, a :: r => (if g a r then [k] else []) ++ scanIdx g (k+1) r

/-- the first non-zero difference behind `a` has the opposite sign -/
def isRevD (a : Int) (r : List Int) : Bool :=
  match r.find? (· ≠ 0) with
  | none => false
  | some e => decide (a * e < 0)

/-- peak turn: the next difference has the opposite sign -/
def gK (a : Int) (r : List Int) : Bool :=
  match r with
  | b :: _ => decide (a * b < 0)
  | [] => false

/-- plateau turn: the next difference is zero and the first non-zero one has the opposite sign -/
def gP (a : Int) (r : List Int) : Bool := r.head? == some 0 && isRevD a r

theorem isRevD_zero (r : List Int) : isRevD 0 r = false := by
  unfold isRevD; split <;> simp

theorem gK_or_gP (a : Int) (r : List Int) : (gK a r || gP a r) = isRevD a r := by
  cases r with
  | nil => simp [gK, gP, isRevD]
  | cons b r' =>
    by_cases hb : b = 0
    · subst hb; simp [gK, gP]
    · simp [gK, gP, isRevD, hb]

def condD (D : List Int) (p : Nat × Nat) : Bool := decide (D[p.1]! * D[p.2+1]! < 0)

theorem plat_scan (d : List Int) : ∀ (pre : List Int),
    (((Sd pre.length d).zip (if headZero d then (Ed pre.length d).tail else Ed pre.length d)).filter
      (condD (pre ++ d))).map (·.1) = scanIdx gP pre.length d := by
  induction d with
  | nil => intro pre; simp [Sd, scanIdx]
  | cons a r ih =>
    intro pre
    cases r with
    | nil => simp [Sd, scanIdx, gP]
    | cons b r' =>
      have ih' := ih (pre ++ [a])
      have hl : (pre ++ [a]).length = pre.length + 1 := by simp
      have hD : pre ++ [a] ++ b :: r' = pre ++ a :: b :: r' := by simp
      rw [hl, hD] at ih'
      simp only [scanIdx] at ih' ⊢
      rw [← ih']
      simp only [Sd, Ed, headZero]
      by_cases ha : a = 0 <;> by_cases hb : b = 0
      · subst ha hb
        simp [gP, isRevD_zero]
      · subst ha
        simp [gP, hb]
      · subst hb
        have hfe := first_end (0 :: r') (pre.length + 1) (by simp [headZero])
        cases hfind : List.find? (· ≠ 0) ((0 : Int) :: r') with
        | none =>
          rw [hfind] at hfe
          have hgp : gP a (0 :: r') = false := by
            unfold gP isRevD; rw [hfind]; simp
          simp only [hfe, hgp]
          simp
        | some x =>
          rw [hfind] at hfe
          obtain ⟨e, E1, h1, h2, h3⟩ := hfe
          have hk : (pre ++ a :: 0 :: r')[pre.length]! = a := by simp
          have he : (pre ++ a :: 0 :: r')[e + 1]! = x := by
            rw [List.getElem!_eq_getElem?_getD, List.getElem?_append_right (by omega)]
            have : e + 1 - pre.length = (e + 1 - (pre.length + 1)) + 1 := by omega
            rw [this, List.getElem?_cons_succ, h3]; rfl
          have hgp : gP a (0 :: r') = decide (a * x < 0) := by
            unfold gP isRevD; rw [hfind]; simp
          have hc : condD (pre ++ a :: 0 :: r') (pre.length, e) = decide (a * x < 0) := by
            simp only [condD, hk, he]
          simp only [h1, hgp, ne_eq, ha, not_false_eq_true, and_self, if_true, decide_true,
            List.singleton_append, List.tail_cons, if_false, List.nil_append, not_true_eq_false]
          simp only [decide_false, Bool.false_eq_true, if_false, List.zip_cons_cons]
          by_cases hx : a * x < 0
          · rw [List.filter_cons_of_pos (by rw [hc]; simpa using hx)]
            simp [hx]
          · rw [List.filter_cons_of_neg (by rw [hc]; simpa using hx)]
            simp [hx]
      · simp [gP, ha, hb]

/-! ### Part 4: the numpy pipeline -/

/-- the `plateau_turns` part of the numpy code, as a function of the difference list -/
def platN (d : List Int) : List Nat :=
  let dA := d.toArray
  let dup : List Int := d.map fun x => if x = 0 then 1 else 0
  let edges := diffs dup
  let starts0 := whereIdx (fun e => e > 0) edges
  let ends0 := whereIdx (fun e => e < 0) edges
  if starts0.isEmpty || ends0.isEmpty then [] else
      let cutEnds := ends0.head! < starts0.head!
      let cutStarts := starts0.getLast! > ends0.getLast!
      let ends := if cutEnds then ends0.tail else ends0
      let starts := if cutStarts then starts0.dropLast else starts0
      ((starts.zip ends).filter fun (st, en) => dA[st]! * dA[en+1]! < 0).map (·.1)

theorem findTurnsNumpyProd_unfold (s : List Int) :
    findTurnsNumpyProd s =
      ((List.range ((diffs s).length - 1)).filter fun i =>
        ((List.range ((diffs s).length - 1)).map fun i =>
            decide ((diffs s).toArray[i]! * (diffs s).toArray[i+1]! < 0))[i]! ||
          (platN (diffs s)).contains i).map fun i => (i + 1, s.toArray[i+1]!) := rfl

def dupOf (d : List Int) : List Int := d.map fun x => if x = 0 then 1 else 0

theorem starts_eq (d : List Int) : ∀ k,
    (((diffs (dupOf d)).zipIdx k).filter (fun x => decide (x.1 > 0))).map (·.2) = Sd k d := by
  induction d with
  | nil => intro k; simp [dupOf, diffs, Sd]
  | cons a r ih =>
    intro k
    cases r with
    | nil => simp [dupOf, diffs, Sd]
    | cons b r' =>
      have ih' := ih (k+1)
      simp only [dupOf, List.map_cons, diffs, List.zipIdx_cons, Sd] at ih' ⊢
      rw [← ih', List.filter_cons]
      by_cases ha : a = 0 <;> by_cases hb : b = 0 <;> simp [ha, hb]

theorem ends_eq (d : List Int) : ∀ k,
    (((diffs (dupOf d)).zipIdx k).filter (fun x => decide (x.1 < 0))).map (·.2) = Ed k d := by
  induction d with
  | nil => intro k; simp [dupOf, diffs, Ed]
  | cons a r ih =>
    intro k
    cases r with
    | nil => simp [dupOf, diffs, Ed]
    | cons b r' =>
      have ih' := ih (k+1)
      simp only [dupOf, List.map_cons, diffs, List.zipIdx_cons, Ed] at ih' ⊢
      rw [← ih', List.filter_cons]
      by_cases ha : a = 0 <;> by_cases hb : b = 0 <;> simp [ha, hb]

/-- `platN` with the edge lists abstracted -/
def platOf (d : List Int) (starts0 ends0 : List Nat) : List Nat :=
  if starts0.isEmpty || ends0.isEmpty then [] else
    let cutEnds := ends0.head! < starts0.head!
    let cutStarts := starts0.getLast! > ends0.getLast!
    let ends := if cutEnds then ends0.tail else ends0
    let starts := if cutStarts then starts0.dropLast else starts0
    ((starts.zip ends).filter fun (st, en) => d.toArray[st]! * d.toArray[en+1]! < 0).map (·.1)

theorem platOf_eq (d : List Int) (S E : List Nat) :
    platOf d S E = ((numpyZip S E).filter (condD d)).map (·.1) := by
  have hc : (fun (x : Nat × Nat) => match x with
      | (st, en) => decide (d.toArray[st]! * d.toArray[en+1]! < 0)) = condD d := by
    funext x; cases x; simp [condD]
  unfold platOf numpyZip
  rw [hc]
  split <;> rfl

theorem platN_eq (d : List Int) :
    platN d = ((numpyZip (Sd 0 d) (Ed 0 d)).filter (condD d)).map (·.1) := by
  have hs : whereIdx (fun e : Int => decide (e > 0)) (diffs (dupOf d)) = Sd 0 d := starts_eq d 0
  have he : whereIdx (fun e : Int => decide (e < 0)) (diffs (dupOf d)) = Ed 0 d := ends_eq d 0
  have h0 : platN d = platOf d (whereIdx (fun e : Int => decide (e > 0)) (diffs (dupOf d)))
      (whereIdx (fun e : Int => decide (e < 0)) (diffs (dupOf d))) := rfl
  rw [h0, hs, he, platOf_eq]

/-- **The plateau turns of the numpy code**: start edges whose matching end edge leaves the plateau
in the opposite direction. -/
theorem platN_scan (d : List Int) : platN d = scanIdx gP 0 d := by
  rw [platN_eq, numpyZip_eq (alt_edges d 0)]
  have := plat_scan d []
  simpa using this

/-! ### Part 5: index scans as filters over `range` -/

theorem scanIdx_eq_filter (g : Int → List Int → Bool) (d : List Int) : ∀ k,
    scanIdx g k d =
      ((List.range d.length).filter fun i => g d[i]! (d.drop (i+1))).map (· + k) := by
  induction d with
  | nil => intro k; simp [scanIdx]
  | cons a r ih =>
    intro k
    simp only [scanIdx, List.length_cons, List.range_succ_eq_map, List.filter_cons, ih (k+1)]
    have h0 : g (a :: r)[0]! (List.drop (0 + 1) (a :: r)) = g a r := by simp
    rw [h0, List.filter_map]
    have hf : ((fun i => g (a :: r)[i]! (List.drop (i + 1) (a :: r))) ∘ Nat.succ) =
        fun i => g r[i]! (List.drop (i + 1) r) := by
      funext i; simp
    have hm : ((fun x => x + k) ∘ Nat.succ) = fun x => x + (k + 1) := by
      funext x; simp only [Function.comp, Nat.succ_eq_add_one]; omega
    rw [hf]
    split <;> simp [List.map_map, hm]

theorem mem_scanIdx (g : Int → List Int → Bool) (d : List Int) (i : Nat) :
    i ∈ scanIdx g 0 d ↔ i < d.length ∧ g d[i]! (d.drop (i+1)) = true := by
  rw [scanIdx_eq_filter]
  simp

theorem getElem!_map_range (f : Nat → Bool) (m i : Nat) (h : i < m) :
    ((List.range m).map f)[i]! = f i := by
  rw [List.getElem!_eq_getElem?_getD]
  simp [h]

/-- the selection of the numpy code is the scan with `isRevD` -/
theorem numpy_select (d : List Int) :
    ((List.range (d.length - 1)).filter fun i =>
        ((List.range (d.length - 1)).map fun i => decide (d.toArray[i]! * d.toArray[i+1]! < 0))[i]! ||
          (platN d).contains i) = scanIdx isRevD 0 d := by
  rw [scanIdx_eq_filter, platN_scan]
  simp only [Nat.add_zero, List.map_id']
  cases hn : d.length with
  | zero => simp
  | succ m =>
    have hlast : isRevD d[m]! (d.drop (m+1)) = false := by
      rw [List.drop_of_length_le (by omega)]; simp [isRevD]
    rw [List.range_succ, List.filter_append]
    simp only [Nat.add_sub_cancel, List.filter_cons, hlast, List.filter_nil, Bool.false_eq_true,
      if_false, List.append_nil]
    apply List.filter_congr
    intro i hi
    have hi : i < m := List.mem_range.mp hi
    rw [getElem!_map_range _ m i hi, ← gK_or_gP]
    congr 1
    · have hd : d.drop (i+1) = d[i+1] :: d.drop (i+2) := List.drop_eq_getElem_cons (by omega)
      rw [hd]
      simp only [gK]
      have e1 : d.toArray[i]! = d[i]! := by simp
      have e2 : d.toArray[i+1]! = d[i+1] := by
        simp [List.getElem!_eq_getElem?_getD, List.getElem?_eq_getElem (show i + 1 < d.length by omega)]
      rw [e1, e2]
    · rw [Bool.eq_iff_iff, List.contains_iff_mem, mem_scanIdx]
      constructor
      · exact fun h => h.2
      · exact fun h => ⟨by omega, h⟩

/-! ### Part 6: from differences back to samples -/

theorem find_diffs (v : Int) (post : List Int) :
    (diffs (v :: post)).find? (· ≠ 0) = (post.find? (· ≠ v)).map (· - v) := by
  induction post with
  | nil => simp [diffs]
  | cons w post' ih =>
    by_cases hw : w = v
    · subst hw
      simp only [diffs, Int.sub_self, ne_eq, not_true_eq_false, decide_false, Bool.false_eq_true,
        not_false_eq_true, List.find?_cons_of_neg]
      exact ih
    · have : w - v ≠ 0 := by omega
      simp [diffs, hw, this]

theorem isRevD_diffs (p v : Int) (post : List Int) :
    isRevD (v - p) (diffs (v :: post)) = isRevLocal p v post := by
  unfold isRevD isRevLocal
  rw [find_diffs]
  by_cases hpv : p = v
  · subst hpv
    simp only [Int.sub_self, Int.zero_mul, Int.lt_irrefl, decide_false, if_true]
    cases List.find? (· ≠ p) post <;> rfl
  · rw [if_neg hpv]
    cases hf : List.find? (· ≠ v) post with
    | none => rfl
    | some n =>
      simp only [Option.map_some]
      have hn : n ≠ v := by simpa using List.find?_some hf
      rw [decide_eq_decide, mul_neg_iff]
      constructor <;> intro h <;> omega

theorem scan_revList (s : List Int) : ∀ pre : List Int,
    (scanIdx isRevD pre.length (diffs s)).map (fun i => (i + 1, (pre ++ s)[i+1]!)) =
      revList (pre.length + 1) s := by
  induction s with
  | nil => intro pre; simp [diffs, scanIdx, revList]
  | cons p r ih =>
    intro pre
    cases r with
    | nil => simp [diffs, scanIdx, revList]
    | cons v post =>
      have ih' := ih (pre ++ [p])
      have hl : (pre ++ [p]).length = pre.length + 1 := by simp
      have hD : pre ++ [p] ++ v :: post = pre ++ p :: v :: post := by simp
      rw [hl, hD] at ih'
      simp only [diffs, scanIdx, revList, List.map_append, ih', isRevD_diffs]
      congr 1
      split <;> simp

/-- **`findTurnsNumpyProd` computes the list-level reversals.** -/
theorem findTurnsNumpyProd_eq_revList (s : List Int) : findTurnsNumpyProd s = revList 1 s := by
  rw [findTurnsNumpyProd_unfold, numpy_select]
  have := scan_revList s []
  simpa using this

/-- The sign of a product: multiplying the signs decides the same thing as multiplying the numbers (over `Int`). -/
theorem sign_mul_sign_neg (a b : Int) : (a.sign * b.sign < 0) = (a * b < 0) := by
  rw [← Int.sign_mul]
  exact propext Int.sign_neg_iff

/-- The transcription of the code after repair c6242ee (signs multiplied) selects exactly what the
product formulation selects. -/
theorem findTurnsNumpy_eq_prod (s : List Int) : findTurnsNumpy s = findTurnsNumpyProd s := by
  simp only [findTurnsNumpy, findTurnsNumpyProd, sign_mul_sign_neg]

/-- **`findTurnsNumpy` computes the list-level reversals.** -/
theorem findTurnsNumpy_eq_revList (s : List Int) : findTurnsNumpy s = revList 1 s := by
  rw [findTurnsNumpy_eq_prod, findTurnsNumpyProd_eq_revList]

end PylifeVerif.Numpy
