/-
C12 — the guard `TransformGuard` for diagrams in standard form (`Proofs/Lemmas/MeanstressPotential.lean`):
it holds as soon as the iso-damage potential is positive at the cycle's ray and at the target.

Route: along a run every cycle position is the cycle's own ray, a kink of the Haigh line (`leftBoundary s`, `s.lo`;
`R = 1 ↦ -∞`) or the target.  On a segment `s` that fires, the potential is `k·(1 + s.M·x)` with `k > 0` at the cycle's
position and at the step's goal (`CompatPos`), so `1 + s.M·x > 0` at both as soon as the potential is positive there.
At the kinks the potential is positive for every non-degenerate diagram (`GoodD`), hence the invariant
"R admissible and potential positive at R" is kept along the run.
-/
import Proofs.Lemmas.MeanstressPotential
import Proofs.Lemmas.MeanstressGuard

namespace PylifeVerif.Meanstress
open ExtR

theorem pos_of_mul_pos_left' {k y : ℝ} (hk : 0 < k) (h : 0 < k * y) : 0 < y := by
  by_contra hn
  have hn : y ≤ 0 := not_lt.1 hn
  nlinarith [mul_nonneg hk.le (neg_nonneg.2 hn)]

/-- `h` has the form `k·(1 + M·x)`, `k > 0`, on the segment `s` and at the (stored) goal of the step. -/
def StepPot (h : ℝ → ℝ) (s : Seg ℝ) (gs : ExtR ℝ) : Prop :=
  ∃ k, 0 < k ∧ (∀ R, memSeg R s → R.isOne = false → h (pos R) = k * (1 + s.M * pos R)) ∧
    h (pos (normGoal gs)) = k * (1 + s.M * pos (normGoal gs))

/-- A fired step satisfies the `StepGuard` if the potential is positive at the cycle and at the goal. -/
theorem stepGuard_of_pot {h : ℝ → ℝ} {s : Seg ℝ} {gs : ExtR ℝ} {c : Cyc ℝ} (hp : StepPot h s gs)
    (hR : ValidR c.R) (hc : 0 < h (pos c.R)) (hv : ValidR (normGoal gs)) (hgp : 0 < h (pos (normGoal gs)))
    (hm : memSeg (push c.R gs) s) : StepGuard s gs c := by
  obtain ⟨k, hk, hform, hgoal⟩ := hp
  have e := hform _ hm (by rw [isOne_push]; exact isOne_valid hR)
  rw [pos_push] at e
  refine ⟨validR_match hR, validR_match hv, ?_, ?_⟩
  · rw [e] at hc; exact pos_of_mul_pos_left' hk hc
  · rw [hgoal] at hgp; exact pos_of_mul_pos_left' hk hgp

/-- Along a run of steps whose goals are admissible with positive potential, the `FoldGuard` holds and the invariant
"R admissible, potential positive at R" is kept. -/
theorem foldGuard_of_pot (h : ℝ → ℝ) (goalOf : Seg ℝ → ExtR ℝ) (l : List (Seg ℝ)) (c : Cyc ℝ)
    (hp : ∀ s ∈ l, StepPot h s (goalOf s))
    (hgoal : ∀ s ∈ l, ValidR (normGoal (goalOf s)) ∧ 0 < h (pos (normGoal (goalOf s))))
    (hR : ValidR c.R) (hc : 0 < h (pos c.R)) :
    FoldGuard goalOf l c ∧ ValidR (l.foldl (fun c s => step s (goalOf s) c) c).R ∧
      0 < h (pos (l.foldl (fun c s => step s (goalOf s) c) c).R) := by
  induction l generalizing c with
  | nil => exact ⟨trivial, hR, hc⟩
  | cons s ss ih =>
    have hs := hgoal s List.mem_cons_self
    have hR' : ValidR (step s (goalOf s) c).R ∧ 0 < h (pos (step s (goalOf s) c).R) := by
      rw [step_R]; unfold stepR; split_ifs
      · exact hs
      · exact ⟨hR, hc⟩
    obtain ⟨a, b, d⟩ := ih (step s (goalOf s) c) (fun t ht => hp t (List.mem_cons_of_mem _ ht))
      (fun t ht => hgoal t (List.mem_cons_of_mem _ ht)) hR'.1 hR'.2
    exact ⟨⟨fun hm => stepGuard_of_pot (hp s List.mem_cons_self) hR hc hs.1 hs.2 hm, a⟩, b, d⟩

/-- The potential is positive (and the R value admissible) at the two kinks each segment uses as intermediate goals. -/
def KinksPos (h : ℝ → ℝ) (D : List (Seg ℝ)) : Prop :=
  ∀ s ∈ D, (ValidR (normGoal (leftBoundary s)) ∧ 0 < h (pos (normGoal (leftBoundary s)))) ∧
    (ValidR (normGoal s.lo) ∧ 0 < h (pos (normGoal s.lo)))

/-- Any diagram with an iso-damage potential (positive factors) that is positive at the kinks: the guard holds as soon as
the potential is positive at the cycle's ray and at the target. -/
theorem transformGuard_of_compatPos {h : ℝ → ℝ} {D : List (Seg ℝ)} {g : ExtR ℝ} {c : Cyc ℝ} (hcp : CompatPos h D g)
    (hk : KinksPos h D) (hg : ValidR g) (hgp : 0 < h (pos g)) (hR : ValidR c.R) (hc : 0 < h (pos c.R)) :
    TransformGuard D g c := by
  obtain ⟨A1, A2, A3⟩ := foldGuard_of_pot h leftBoundary (segsLeft D g) c
    (fun s hs => by obtain ⟨k, hk', f1, f2, _, _⟩ := hcp s (mem_segsLeft hs); exact ⟨k, hk', f1, f2⟩)
    (fun s hs => (hk s (mem_segsLeft hs)).1) hR hc
  obtain ⟨B1, B2, B3⟩ := foldGuard_of_pot h (fun s => s.lo) (segsRight D g) (afterLeft D g c)
    (fun s hs => by obtain ⟨k, hk', f1, _, f3, _⟩ := hcp s (mem_segsRight hs); exact ⟨k, hk', f1, f3⟩)
    (fun s hs => (hk s (mem_segsRight hs)).2) A2 A3
  obtain ⟨C1, _, _⟩ := foldGuard_of_pot h (fun _ => g) (segsContaining D g) (afterRight D g c)
    (fun s hs => by obtain ⟨k, hk', f1, _, _, f4⟩ := hcp s (mem_segsContaining_D hs); exact ⟨k, hk', f1, f4 hs⟩)
    (fun s hs => by rw [normGoal_valid hg]; exact ⟨hg, hgp⟩) B2 B3
  exact ⟨A1, B1, C1⟩

/-- Both ends of every chain segment: the segment's iso-damage line has positive amplitude (this is `GoodC`). -/
theorem chain_good (Mn : ℝ) : ∀ (bs : List (ℝ × ℝ)) (b : ℝ), GoodC b bs Mn → ∀ s ∈ chainR b bs Mn,
    (∀ a, s.lo = fin a → 0 < 1 + s.M * px a) ∧ (∀ c, s.hi = fin c → c < 1 → 0 < 1 + s.M * px c) := by
  intro bs
  induction bs with
  | nil =>
    intro b hg s hs
    rw [chainR, List.mem_singleton] at hs; subst hs
    simp only [GoodC] at hg
    refine ⟨fun a ha => ?_, fun c hc hc1 => ?_⟩
    · simp only [ExtR.fin.injEq] at ha; subst ha; exact hg
    · simp only [ExtR.fin.injEq] at hc; subst hc; exact absurd hc1 (lt_irrefl _)
  | cons p rest ih =>
    obtain ⟨M, r⟩ := p
    intro b hg s hs
    obtain ⟨g1, g2, g3⟩ := hg
    rcases List.mem_cons.1 hs with rfl | hs
    · refine ⟨fun a ha => ?_, fun c hc _ => ?_⟩
      · simp only [ExtR.fin.injEq] at ha; subst ha; exact g1
      · simp only [ExtR.fin.injEq] at hc; subst hc; exact g2
    · exact ih r g3 s hs

section Std
variable (Minf M0 r1 : ℝ) (bs : List (ℝ × ℝ)) (Mn : ℝ)

/-- For a non-degenerate diagram in standard form the potential `hD` is positive at every kink. -/
theorem diagram_kinksPos (hs : SortedR r1 bs) (hg : GoodD Minf M0 r1 bs Mn) :
    KinksPos (hD Minf M0 r1 bs Mn) (diagram Minf M0 r1 bs Mn) := by
  have hr1 := sortedR_lt1 hs
  have hcp := diagram_compat Minf M0 r1 bs Mn hs hg (g := ninf) trivial
  obtain ⟨g1, g2, g3, g4⟩ := hg
  intro s hsD
  obtain ⟨k, hk, _, f2, f3, _⟩ := hcp s hsD
  rw [f2, f3]
  rcases List.mem_cons.1 hsD with rfl | hsD'
  · -- (1, ∞]: both goals are `1 ↦ -∞`
    have e : (Sinf Minf).lo = fin 1 := rfl
    rw [leftBoundary_Sinf, e, normGoal_one]
    have : 0 < 1 + (Sinf Minf).M * pos ninf := by
      show 0 < 1 + Minf * (-1); linarith
    exact ⟨⟨trivial, mul_pos hk this⟩, ⟨trivial, mul_pos hk this⟩⟩
  rcases List.mem_cons.1 hsD' with rfl | hsC
  · -- (-∞, r1]
    have e : (S0 M0 r1).lo = ninf := rfl
    rw [leftBoundary_S0 M0 hr1, e, normGoal_ninf, normGoal_fin hr1.ne]
    have h1 : 0 < 1 + (S0 M0 r1).M * pos (fin r1) := g3
    have h2 : 0 < 1 + (S0 M0 r1).M * pos ninf := by
      show 0 < 1 + M0 * (-1); linarith
    exact ⟨⟨hr1.ne, mul_pos hk h1⟩, ⟨trivial, mul_pos hk h2⟩⟩
  · -- chain segment
    obtain ⟨a, c, e1, e2, e3, e4, e5⟩ := mem_chainR hs hsC
    obtain ⟨p1, p2⟩ := chain_good Mn bs r1 g4 s hsC
    have ha1 : a < 1 := by linarith
    have hlo : ValidR (normGoal s.lo) ∧ 0 < k * (1 + s.M * pos (normGoal s.lo)) := by
      rw [e1, normGoal_fin ha1.ne]
      exact ⟨ha1.ne, mul_pos hk (p1 a e1)⟩
    refine ⟨?_, hlo⟩
    unfold leftBoundary
    rw [e2]
    by_cases hc1 : c < 1
    · simp only [lt_fin_fin, lit1, hc1, decide_true, if_true]
      rw [normGoal_fin hc1.ne]
      exact ⟨hc1.ne, mul_pos hk (p2 c e2 hc1)⟩
    · simp only [lt_fin_fin, lit1, hc1, decide_false]
      exact hlo

/-- The guard holds as soon as the potential is positive at the cycle and at the target. -/
theorem diagram_guard_of_pos (hs : SortedR r1 bs) (hgood : GoodD Minf M0 r1 bs Mn) (g : ExtR ℝ) (c : Cyc ℝ)
    (hg : ValidR g) (hR : ValidR c.R)
    (hc : 0 < hD Minf M0 r1 bs Mn (pos c.R)) (hgp : 0 < hD Minf M0 r1 bs Mn (pos g)) :
    TransformGuard (diagram Minf M0 r1 bs Mn) g c :=
  transformGuard_of_compatPos (diagram_compat Minf M0 r1 bs Mn hs hgood hg)
    (diagram_kinksPos Minf M0 r1 bs Mn hs hgood) hg hgp hR hc

end Std

end PylifeVerif.Meanstress
