/-
Real-number meaning of the numpy helpers of `Generated/Prelude.lean` that are written in a Float-accurate way
(`np_log1p`, `np_expm1`: Kahan's correction factor): over ℝ they ARE `log (1 + x)` and `exp x - 1`.
The simp set `gen_prelude_real` (a list of lemma names, used as `simp only [np_log1p_real, np_expm1_real, …]`) lets the
property proofs see the same real expression whichever spelling (`np.log(1. + x)` / `np.log1p(x)`) the source uses.
-/
import Proofs.RealNum
import Generated.Prelude
import Mathlib.Tactic.Ring
import Mathlib.Tactic.Linarith
import Mathlib.Tactic.FieldSimp
import Mathlib.Tactic.NormNum

namespace PylifeVerif.Generated

theorem np_log1p_real (x : ℝ) : np_log1p x = Real.log (1 + x) := by
  unfold np_log1p
  have h1 : (1.0 : ℝ) = 1 := by norm_num
  simp only [h1, transc_log]
  by_cases hx : x = 0
  · subst hx; simp
  · have hne : (1 + x < 1 ∨ 1 < 1 + x) := by
      rcases lt_or_gt_of_ne hx with h | h
      · left; linarith
      · right; linarith
    rw [if_pos hne, show 1 + x - 1 = x by ring, div_self hx, mul_one]

theorem np_expm1_real (x : ℝ) : np_expm1 x = Real.exp x - 1 := by
  unfold np_expm1
  have h1 : (1.0 : ℝ) = 1 := by norm_num
  simp only [h1, transc_log, transc_exp, Real.log_exp]
  by_cases hx : x = 0
  · subst hx; simp
  · have hne : (Real.exp x < 1 ∨ 1 < Real.exp x) := by
      rcases lt_or_gt_of_ne hx with h | h
      · left; exact Real.exp_lt_one_iff.mpr h
      · right; exact Real.one_lt_exp_iff.mpr h
    have hpos := Real.exp_pos x
    rw [if_pos hne, if_neg (by linarith), div_self hx, mul_one]

theorem py_max_real (a b : ℝ) : py_max a b = max a b := by
  unfold py_max; split_ifs with h
  · exact (max_eq_right h.le).symm
  · exact (max_eq_left (not_lt.mp h)).symm

theorem py_min_real (a b : ℝ) : py_min a b = min a b := by
  unfold py_min; split_ifs with h
  · exact (min_eq_right h.le).symm
  · exact (min_eq_left (not_lt.mp h)).symm

end PylifeVerif.Generated
