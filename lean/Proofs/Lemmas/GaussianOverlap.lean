import Mathlib.Probability.Distributions.Gaussian.Real
import Mathlib.Probability.CDF
import Mathlib.MeasureTheory.Group.Convolution
import Mathlib.MeasureTheory.Integral.DominatedConvergence

/-!
# The Gaussian overlap (stress–strength interference) integral

`P(S ≤ L)` for independent `L ~ N(0, vL)`, `S ~ N(Δ, vS)` equals `Φ(−Δ / √(vL + vS))`.
-/

namespace PylifeVerif.GaussianOverlap

open MeasureTheory ProbabilityTheory
open scoped NNReal

/-- standard normal distribution function Φ -/
noncomputable def stdNormalCdf (x : ℝ) : ℝ := (gaussianReal 0 1).real (Set.Iic x)

/-- a set of non-zero Lebesgue measure has positive standard-normal probability -/
private theorem stdGauss_real_pos {s : Set ℝ} (hs : volume s ≠ 0) :
    0 < (gaussianReal 0 1).real s := by
  have h1 : (gaussianReal 0 1) s ≠ 0 := fun h =>
    hs (gaussianReal_absolutelyContinuous' 0 (one_ne_zero) h)
  rw [Measure.real, ENNReal.toReal_pos_iff]
  exact ⟨pos_iff_ne_zero.2 h1, measure_lt_top _ _⟩

theorem stdNormalCdf_neg (x : ℝ) : stdNormalCdf (-x) = 1 - stdNormalCdf x := by
  have := nullSingletonClass_gaussianReal (μ := 0) (v := 1) one_ne_zero
  have hmap : (gaussianReal 0 1).map (fun y => -y) = gaussianReal 0 1 := by
    rw [gaussianReal_map_neg, neg_zero]
  unfold stdNormalCdf
  conv_lhs => rw [← hmap]
  rw [map_measureReal_apply (by fun_prop) measurableSet_Iic]
  have hpre : (fun y : ℝ => -y) ⁻¹' Set.Iic (-x) = (Set.Iio x)ᶜ := by
    ext y; simp
  rw [hpre, probReal_compl_eq_one_sub measurableSet_Iio, measureReal_congr Iio_ae_eq_Iic]

theorem stdNormalCdf_mem_Ioo (x : ℝ) : 0 < stdNormalCdf x ∧ stdNormalCdf x < 1 := by
  have hpos : ∀ y : ℝ, 0 < stdNormalCdf y := fun y =>
    stdGauss_real_pos (by simp)
  refine ⟨hpos x, ?_⟩
  have := hpos (-x)
  rw [stdNormalCdf_neg] at this
  linarith

theorem stdNormalCdf_strictMono : StrictMono stdNormalCdf := by
  intro x y hxy
  have hU : Set.Iic y = Set.Iic x ∪ Set.Ioc x y := (Set.Iic_union_Ioc_eq_Iic hxy.le).symm
  have hd : Disjoint (Set.Iic x) (Set.Ioc x y) := Set.Iic_disjoint_Ioc le_rfl
  have hp : 0 < (gaussianReal 0 1).real (Set.Ioc x y) :=
    stdGauss_real_pos (by simp [hxy])
  unfold stdNormalCdf
  rw [hU, measureReal_union hd measurableSet_Ioc]
  linarith

theorem stdNormalCdf_continuous : Continuous stdNormalCdf := by
  have := nullSingletonClass_gaussianReal (μ := 0) (v := 1) one_ne_zero
  have hint : Integrable (fun _ : ℝ => (1 : ℝ)) (gaussianReal 0 1) := integrable_const _
  have hc := hint.continuous_primitive 0
  have heq : stdNormalCdf = fun b => stdNormalCdf 0 + ∫ _ in (0 : ℝ)..b, (1 : ℝ) ∂(gaussianReal 0 1) := by
    funext b
    rw [← intervalIntegral.integral_Iic_sub_Iic hint.integrableOn hint.integrableOn]
    simp [stdNormalCdf]
  rw [heq]
  exact continuous_const.add hc

/-- cdf of N(m, v) is Φ((x-m)/√v) -/
theorem gaussianReal_Iic (m : ℝ) {v : ℝ≥0} (hv : v ≠ 0) (x : ℝ) :
    (gaussianReal m v).real (Set.Iic x) = stdNormalCdf ((x - m) / Real.sqrt v) := by
  have hs : 0 < Real.sqrt v := Real.sqrt_pos.2 (by positivity)
  have hmap : gaussianReal m v
      = ((gaussianReal 0 1).map (Real.sqrt v * ·)).map (· + m) := by
    rw [gaussianReal_map_const_mul, gaussianReal_map_add_const]
    congr 1
    · simp
    · apply NNReal.eq
      simp [Real.sq_sqrt]
  rw [hmap, stdNormalCdf, Measure.map_map (by fun_prop) (by fun_prop)]
  rw [map_measureReal_apply (by fun_prop) measurableSet_Iic]
  congr 1
  ext y
  simp only [Set.mem_preimage, Function.comp_apply, Set.mem_Iic]
  rw [le_div_iff₀ hs]
  constructor <;> intro h <;> linarith

theorem stdNormalCdf_measurable : Measurable stdNormalCdf :=
  stdNormalCdf_strictMono.monotone.measurable

theorem stdNormalCdf_nonneg (x : ℝ) : 0 ≤ stdNormalCdf x := (stdNormalCdf_mem_Ioo x).1.le

theorem stdNormalCdf_le_one (x : ℝ) : stdNormalCdf x ≤ 1 := (stdNormalCdf_mem_Ioo x).2.le

/-- Convolution form: `P(L' + S ≤ 0)` for `L' ~ N(0, vL)`, `S ~ N(Δ, vS)` as an integral against the law
of `L'`. -/
private theorem conv_Iic_zero (Δ : ℝ) {vL vS : ℝ≥0} (hS : vS ≠ 0) :
    ((gaussianReal 0 vL) ∗ (gaussianReal Δ vS)).real (Set.Iic 0)
      = ∫ x, stdNormalCdf ((-x - Δ) / Real.sqrt vS) ∂(gaussianReal 0 vL) := by
  have hmeas : Measurable fun x : ℝ => stdNormalCdf ((-x - Δ) / Real.sqrt vS) :=
    stdNormalCdf_measurable.comp (by fun_prop)
  have hint : Integrable (fun x : ℝ => stdNormalCdf ((-x - Δ) / Real.sqrt vS)) (gaussianReal 0 vL) := by
    refine Integrable.mono' (integrable_const (1 : ℝ)) hmeas.aestronglyMeasurable (ae_of_all _ fun x => ?_)
    rw [Real.norm_eq_abs, abs_of_nonneg (stdNormalCdf_nonneg _)]
    exact stdNormalCdf_le_one _
  have hinner : ∀ x : ℝ, ∫⁻ y, (Set.Iic (0 : ℝ)).indicator 1 (x + y) ∂(gaussianReal Δ vS)
      = ENNReal.ofReal (stdNormalCdf ((-x - Δ) / Real.sqrt vS)) := by
    intro x
    have hfun : (fun y : ℝ => (Set.Iic (0 : ℝ)).indicator (1 : ℝ → ENNReal) (x + y))
        = (Set.Iic (-x)).indicator 1 := by
      funext y
      by_cases h : x + y ≤ 0
      · have h' : y ≤ -x := by linarith
        simp [Set.indicator, h, h']
      · have h' : ¬ y ≤ -x := fun h' => h (by linarith)
        simp [Set.indicator, h, h']
    rw [hfun, lintegral_indicator_one measurableSet_Iic, ← gaussianReal_Iic Δ hS, ofReal_measureReal]
  have hmeasure : ((gaussianReal 0 vL) ∗ (gaussianReal Δ vS)) (Set.Iic 0)
      = ENNReal.ofReal (∫ x, stdNormalCdf ((-x - Δ) / Real.sqrt vS) ∂(gaussianReal 0 vL)) := by
    rw [← lintegral_indicator_one measurableSet_Iic,
      Measure.lintegral_conv (measurable_one.indicator measurableSet_Iic)]
    simp_rw [hinner]
    rw [ofReal_integral_eq_lintegral_ofReal hint (ae_of_all _ fun x => stdNormalCdf_nonneg _)]
  rw [Measure.real, hmeasure, ENNReal.toReal_ofReal]
  exact integral_nonneg fun x => stdNormalCdf_nonneg _

/-- MAIN GOAL. Overlap integral: load L ~ N(0, vL) (density gaussianPDFReal 0 vL), strength S ~ N(Δ, vS)
independent; P(S ≤ L) = ∫ φ_L(x) · Φ((x − Δ)/√vS) dx = Φ(−Δ/√(vL+vS)). -/
theorem gaussian_overlap (Δ : ℝ) {vL vS : ℝ≥0} (hL : vL ≠ 0) (hS : vS ≠ 0) :
    ∫ x, gaussianPDFReal 0 vL x * stdNormalCdf ((x - Δ) / Real.sqrt vS)
      = stdNormalCdf (-Δ / Real.sqrt ((vL : ℝ) + vS)) := by
  have hLS : vL + vS ≠ 0 := by
    intro h
    exact hL (by simpa using (add_eq_zero.1 h).1)
  have hconv := conv_Iic_zero Δ (vL := vL) hS
  rw [gaussianReal_conv_gaussianReal, zero_add, gaussianReal_Iic Δ hLS, zero_sub, NNReal.coe_add,
    integral_gaussianReal_eq_integral_smul hL] at hconv
  rw [hconv, ← integral_neg_eq_self]
  refine integral_congr_ae (ae_of_all _ fun x => ?_)
  simp only [smul_eq_mul]
  congr 1
  simp [gaussianPDFReal]

/-- the same in the σ-parametrisation of `scipy.stats.norm`
(pdf(x, loc=0, scale=σL) * cdf(x, loc=Δ, scale=σS)) -/
theorem gaussian_overlap_sigma (Δ σL σS : ℝ) (hL : 0 < σL) (hS : 0 < σS) :
    ∫ x, ((σL * Real.sqrt (2 * Real.pi))⁻¹ * Real.exp (-(x ^ 2) / (2 * σL ^ 2)))
        * stdNormalCdf ((x - Δ) / σS)
      = stdNormalCdf (-Δ / Real.sqrt (σL ^ 2 + σS ^ 2)) := by
  obtain ⟨vL, cL⟩ : ∃ vL : ℝ≥0, (vL : ℝ) = σL ^ 2 := ⟨⟨σL ^ 2, sq_nonneg σL⟩, rfl⟩
  obtain ⟨vS, cS⟩ : ∃ vS : ℝ≥0, (vS : ℝ) = σS ^ 2 := ⟨⟨σS ^ 2, sq_nonneg σS⟩, rfl⟩
  have hvL : vL ≠ 0 := by
    intro h
    rw [h, NNReal.coe_zero] at cL
    exact (pow_pos hL 2).ne cL
  have hvS : vS ≠ 0 := by
    intro h
    rw [h, NNReal.coe_zero] at cS
    exact (pow_pos hS 2).ne cS
  have h := gaussian_overlap Δ hvL hvS
  rw [cL, cS, Real.sqrt_sq hS.le] at h
  rw [← h]
  refine integral_congr_ae (ae_of_all _ fun x => ?_)
  have hsq : Real.sqrt (2 * Real.pi * σL ^ 2) = σL * Real.sqrt (2 * Real.pi) := by
    rw [Real.sqrt_mul (by positivity), Real.sqrt_sq hL.le, mul_comm]
  simp only [gaussianPDFReal, cL, sub_zero, hsq]

theorem stdNormalCdf_zero : stdNormalCdf 0 = 1 / 2 := by
  have h := stdNormalCdf_neg 0
  rw [neg_zero] at h
  linarith

/-- non-vacuity: equal unit scatter, unit safety margin -/
example : ∫ x, ((1 * Real.sqrt (2 * Real.pi))⁻¹ * Real.exp (-(x ^ 2) / (2 * (1 : ℝ) ^ 2)))
        * stdNormalCdf ((x - 1) / 1)
      = stdNormalCdf (-1 / Real.sqrt (1 ^ 2 + 1 ^ 2)) :=
  gaussian_overlap_sigma 1 1 1 one_pos one_pos

end PylifeVerif.GaussianOverlap
