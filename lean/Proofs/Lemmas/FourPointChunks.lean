/-
Stack lemmas for the chunk independence of the four-point detector: a provisional closing with
the last sample of a chunk does not change what later closings do.
-/
import Proofs.Lemmas.Turns

namespace PylifeVerif.Rainflow

/-- Directed strict zig-zag of a stack (top first): `up` is the direction in which the signal
leaves the top element, i.e. the top is a minimum iff `up`. -/
def ZZd : Bool → List Pt → Prop
  | up, c :: b :: rest => dlt up c.2 b.2 ∧ ZZd (!up) (b :: rest)
  | _, _ => True

/-- the top of the stack lies strictly / weakly before `v` in direction `up` -/
def TopLt (up : Bool) : List Pt → Int → Prop
  | c :: _, v => dlt up c.2 v
  | [], _ => True

def TopLe (up : Bool) : List Pt → Int → Prop
  | c :: _, v => dle up c.2 v
  | [], _ => True

/-- `AltEnd` relative to the top of a stack. -/
def AltTop (up : Bool) (st : List Pt) : List Int → Int → Int → Prop
  | [], d, nxt => TopLe up st d ∧ dle up d nxt
  | w :: l, d, nxt => TopLt up st w ∧ AltEnd (!up) w l d nxt

theorem altTop_cons (up : Bool) (p : Pt) (st : List Pt) (l : List Int) (d nxt : Int) :
    AltTop up (p :: st) l d nxt ↔ AltEnd up p.2 l d nxt := by
  cases l <;> simp [AltTop, AltEnd, TopLe, TopLt]

theorem fpClose_pos (c b a : Pt) (rest : List Pt) (d : Int)
    (h : absDiff b.2 c.2 ≤ absDiff a.2 b.2 ∧ absDiff b.2 c.2 ≤ absDiff c.2 d) :
    fpClose (c :: b :: a :: rest) d =
      ((b, c) :: (fpClose (a :: rest) d).1, (fpClose (a :: rest) d).2) := by
  rw [fpClose]; simp [h]

theorem fpClose_neg (c b a : Pt) (rest : List Pt) (d : Int)
    (h : ¬ (absDiff b.2 c.2 ≤ absDiff a.2 b.2 ∧ absDiff b.2 c.2 ≤ absDiff c.2 d)) :
    fpClose (c :: b :: a :: rest) d = ([], c :: b :: a :: rest) := by
  rw [fpClose]; simp [h]

/-- Closing keeps the zig-zag shape, and the new top lies (weakly) before the old one. -/
theorem fpClose_inv (st : List Pt) (d : Int) : ∀ up : Bool, ZZd up st →
    ZZd up (fpClose st d).2 ∧
    (∀ v, TopLt up st v → TopLt up (fpClose st d).2 v) ∧
    (∀ v, TopLe up st v → TopLe up (fpClose st d).2 v) := by
  fun_induction fpClose st d with
  | case1 c b a rest d h r ih =>
    intro up hz
    have hz' : ZZd up (a :: rest) := by
      cases up <;> simp_all [ZZd]
    obtain ⟨i1, i2, i3⟩ := ih up hz'
    refine ⟨i1, fun v hv => i2 v ?_, fun v hv => i3 v ?_⟩
    · cases up <;> simp_all [ZZd, TopLt, dlt, absDiff] <;> omega
    · cases up <;> simp_all [ZZd, TopLe, dlt, dle, absDiff] <;> omega
  | case2 c b a rest d h =>
    intro up hz; exact ⟨hz, fun v hv => hv, fun v hv => hv⟩
  | case3 st d h =>
    intro up hz; exact ⟨hz, fun v hv => hv, fun v hv => hv⟩


theorem dlt_not (up : Bool) (a b : Int) : dlt (!up) a b ↔ dlt up b a := by
  cases up <;> simp [dlt]

/-- Pushing a decided turn that lies strictly beyond the top keeps the zig-zag shape. -/
theorem fpPush_zz (st : List Pt) (p : Pt) (up : Bool) (hz : ZZd up st) (hp : TopLt up st p.2) :
    ZZd (!up) (fpPush st p).2 := by
  obtain ⟨i1, i2, _⟩ := fpClose_inv st p.2 up hz
  have h2 := i2 p.2 hp
  simp only [fpPush]
  cases hst : (fpClose st p.2).2 with
  | nil => simp [ZZd]
  | cons b rest =>
    rw [hst] at i1 h2
    simp only [ZZd, Bool.not_not]
    exact ⟨(dlt_not up _ _).2 h2, i1⟩

/-- Feeding decided turns whose values continue the zig-zag of the stack: afterwards the stack
is a zig-zag whose top lies weakly before `d`, and `d` weakly before `nxt`. -/
theorem fpFeed_inv (N : List Pt) (d nxt : Int) : ∀ (st : List Pt) (up : Bool), ZZd up st →
    AltTop up st (N.map (·.2)) d nxt →
    ∃ up', ZZd up' (fpFeed st N).2 ∧ TopLe up' (fpFeed st N).2 d ∧ dle up' d nxt := by
  induction N with
  | nil =>
    intro st up hz ha
    exact ⟨up, hz, ha.1, ha.2⟩
  | cons p N ih =>
    intro st up hz ha
    simp only [List.map_cons, AltTop] at ha
    have hz' := fpPush_zz st p up hz ha.1
    simp only [fpFeed]
    apply ih _ (!up) hz'
    simp only [fpPush]
    rw [altTop_cons]
    exact ha.2

theorem fpFeed_append (l l' : List Pt) : ∀ st : List Pt,
    fpFeed st (l ++ l') =
      ((fpFeed st l).1 ++ (fpFeed (fpFeed st l).2 l').1, (fpFeed (fpFeed st l).2 l').2) := by
  induction l with
  | nil => intro st; simp [fpFeed]
  | cons p l ih =>
    intro st
    simp only [List.cons_append, fpFeed, ih, List.append_assoc]

/-- **Provisional closing is harmless (closing afterwards).**  If the stack is a zig-zag, `d`
lies weakly beyond its top and `d'` weakly beyond `d`, then closing with `d` and afterwards
with `d'` gives the same cycles and the same stack as closing with `d'` directly. -/
theorem fpClose_fpClose (st : List Pt) (d d' : Int) : ∀ up : Bool, ZZd up st → TopLe up st d →
    dle up d d' →
    (fpClose st d).1 ++ (fpClose (fpClose st d).2 d').1 = (fpClose st d').1 ∧
      (fpClose (fpClose st d).2 d').2 = (fpClose st d').2 := by
  fun_induction fpClose st d with
  | case1 c b a rest d h r ih =>
    intro up hz ht hd
    have hz' : ZZd up (a :: rest) := by
      cases up <;> simp_all [ZZd]
    have ht' : TopLe up (a :: rest) d := by
      cases up <;> simp_all [ZZd, TopLe, dlt, dle, absDiff] <;> omega
    have hc' : absDiff b.2 c.2 ≤ absDiff a.2 b.2 ∧ absDiff b.2 c.2 ≤ absDiff c.2 d' := by
      refine ⟨h.1, ?_⟩
      cases up <;> simp_all [ZZd, TopLe, dlt, dle, absDiff] <;> omega
    obtain ⟨i1, i2⟩ := ih up hz' ht' hd
    rw [fpClose_pos c b a rest d' hc']
    simp only [List.cons_append, r]
    exact ⟨by rw [i1], i2⟩
  | case2 c b a rest d h =>
    intro up hz ht hd; simp
  | case3 st d h =>
    intro up hz ht hd; simp

/-- feed decided turns, then close provisionally with the last sample -/
def fpFeedClose (st : List Pt) (N : List Pt) (d' : Int) : List Cycle × List Pt :=
  ((fpFeed st N).1 ++ (fpClose (fpFeed st N).2 d').1, (fpClose (fpFeed st N).2 d').2)

/-- **Provisional closing is harmless.**  Same as `fpClose_fpClose`, with the next chunk's
decided turns `N` and provisional end `d'` fed afterwards. -/
theorem fpClose_fpFeedClose (st : List Pt) (d d' : Int) (N : List Pt) (up : Bool)
    (hz : ZZd up st) (ht : TopLe up st d) (hd : dle up d (nextVal N d')) :
    (fpClose st d).1 ++ (fpFeedClose (fpClose st d).2 N d').1 = (fpFeedClose st N d').1 ∧
      (fpFeedClose (fpClose st d).2 N d').2 = (fpFeedClose st N d').2 := by
  cases N with
  | nil =>
    simp only [fpFeedClose, fpFeed, List.nil_append]
    exact fpClose_fpClose st d d' up hz ht hd
  | cons p N =>
    obtain ⟨h1, h2⟩ := fpClose_fpClose st d p.2 up hz ht hd
    simp only [fpFeedClose, fpFeed, fpPush, h2]
    rw [← h1]
    simp [List.append_assoc]


/-! ### Canonical state of the four-point detector -/

/-- State of the four-point detector after the signal `p` has been fed, in any chunking
(`chunks` is the recorder's list of chunk sizes, the only chunk dependent part). -/
def fpCanon (p : List Int) (chunks : List Nat) : DetState :=
  match p with
  | [] => { chunks := chunks }
  | s0 :: _ =>
    { ts := canonTs p,
      stack := (fpFeedClose [(0, s0)] (findTurns p) p.getLast!).2,
      last := some p.getLast!,
      cycles := (fpFeedClose [(0, s0)] (findTurns p) p.getLast!).1,
      chunks := chunks }

theorem getLast!_cons (a : Int) (l : List Int) :
    (a :: l).getLast! = (a :: l).getLast (List.cons_ne_nil _ _) := by
  rw [List.getLast!_eq_getLast?_getD, List.getLast?_eq_some_getLast (List.cons_ne_nil _ _)]
  rfl

theorem getLast!_append_cons (p : List Int) (a : Int) (l : List Int) :
    (p ++ a :: l).getLast! = (a :: l).getLast! := by
  rw [List.getLast!_eq_getLast?_getD, List.getLast!_eq_getLast?_getD,
    List.getLast?_append_of_ne_nil _ (List.cons_ne_nil _ _)]

theorem newTurnsOf_nil (c : List Int) : newTurnsOf [] c = findTurns c := by
  simp [newTurnsOf, findTurns]

/-- The facts about the stack after all decided turns of `p = s0 :: xs` have been fed, which
make the provisional closing with the last sample of `p` harmless for an extension by `c`. -/
theorem fpFeed_findTurns_inv (s0 : Int) (xs c : List Int) :
    ∃ up, ZZd up (fpFeed [(0, s0)] (findTurns (s0 :: xs))).2 ∧
      TopLe up (fpFeed [(0, s0)] (findTurns (s0 :: xs))).2 (s0 :: xs).getLast! ∧
      dle up (s0 :: xs).getLast!
        (nextVal (newTurnsOf (s0 :: xs) c) (s0 :: xs ++ c).getLast!) := by
  obtain ⟨up, h⟩ := findTurns_altEnd s0 xs c
  rw [getLast!_cons, show (s0 :: xs ++ c) = s0 :: (xs ++ c) from rfl, getLast!_cons]
  refine fpFeed_inv _ _ _ [(0, s0)] up (by simp [ZZd]) ?_
  rw [altTop_cons]
  exact h

/-- One `process` call with a non-empty chunk, started in the canonical state of `p`. -/
theorem fpProcess_canon (p c : List Int) (ch : List Nat) (hc : c ≠ []) :
    fpProcess (fpCanon p ch) c = fpCanon (p ++ c) (ch ++ [c.length]) := by
  cases c with
  | nil => exact absurd rfl hc
  | cons c0 cs =>
    cases p with
    | nil =>
      have hn := newTurns_canon [] (c0 :: cs) hc
      rw [canonTs_nil, newTurnsOf_nil] at hn
      simp only [fpProcess, fpCanon, hn, fpFeedClose, List.nil_append]
      simp
    | cons s0 xs =>
      have hn := newTurns_canon (s0 :: xs) (c0 :: cs) hc
      obtain ⟨up, hz, ht, hd⟩ := fpFeed_findTurns_inv s0 xs (c0 :: cs)
      obtain ⟨h1, h2⟩ := fpClose_fpFeedClose _ _ (s0 :: xs ++ c0 :: cs).getLast!
        (newTurnsOf (s0 :: xs) (c0 :: cs)) up hz ht hd
      have hl : (s0 :: xs ++ c0 :: cs).getLast! = (c0 :: cs).getLast! :=
        getLast!_append_cons _ _ _
      rw [hl] at h1 h2
      have hF : ∀ d', fpFeedClose [(0, s0)] (findTurns (s0 :: xs ++ c0 :: cs)) d' =
          fpFeedClose [(0, s0)] (findTurns (s0 :: xs) ++ newTurnsOf (s0 :: xs) (c0 :: cs)) d' := by
        intro d'; rw [findTurns_append_eq]
      simp only [fpProcess, fpCanon, hn, List.cons_append]
      simp only [← List.cons_append, hF, hl]
      simp only [fpFeedClose, fpFeed_append] at h1 h2 ⊢
      simp only [Option.isNone_some, Bool.false_eq_true, if_false, DetState.mk.injEq, true_and,
        and_true]
      refine ⟨h2, ?_⟩
      simp only [List.append_assoc]
      rw [← h1]

end PylifeVerif.Rainflow
