/-
Helper lemmas for C07: the binned look-up of `Model/Notch.lean` over a linearly ordered field.
-/
import Model.Notch
import Mathlib.Algebra.Order.Field.Basic
import Mathlib.Algebra.Order.AbsoluteValue.Basic
import Mathlib.Tactic.Linarith
import Mathlib.Tactic.Ring
import Mathlib.Tactic.FieldSimp
import Mathlib.Tactic.Positivity

set_option linter.unusedSectionVars false

namespace PylifeVerif.Notch

variable {α : Type} [Field α] [LinearOrder α] [IsStrictOrderedRing α]

theorem absM_eq (x : α) : absM x = |x| := by
  unfold absM
  split_ifs with h
  · exact (abs_of_neg h).symm
  · exact (abs_of_nonneg (not_lt.mp h)).symm

theorem signM_pos {x : α} (h : 0 < x) : signM x = 1 := by simp [signM, h]
theorem signM_neg {x : α} (h : x < 0) : signM x = -1 := by simp [signM, h, not_lt.mpr h.le]
theorem signM_zero : signM (0 : α) = 0 := by simp [signM]

theorem signM_mul_abs (x : α) : signM x * |x| = x := by
  rcases lt_trichotomy x 0 with h | h | h
  · rw [signM_neg h, abs_of_neg h]; ring
  · subst h; simp [signM_zero]
  · rw [signM_pos h, abs_of_pos h]; ring

theorem signM_neg_arg (x : α) : signM (-x) = -signM x := by
  rcases lt_trichotomy x 0 with h | h | h
  · rw [signM_neg h, signM_pos (neg_pos.mpr h)]; ring
  · subst h; simp [signM_zero]
  · rw [signM_pos h, signM_neg (neg_neg_of_pos h)]

/-! ### edges -/

theorem edge_eq (n : ℕ) (maxL : α) (i : ℕ) : edge n maxL i = (i : α) / (n : α) * maxL := rfl

theorem edge_zero (n : ℕ) (maxL : α) : edge n maxL 0 = 0 := by simp [edge_eq]

theorem edge_top {n : ℕ} (hn : 0 < n) (maxL : α) : edge n maxL n = maxL := by
  have : (n : α) ≠ 0 := Nat.cast_ne_zero.mpr hn.ne'
  rw [edge_eq, div_self this, one_mul]

theorem edge_two_top {n : ℕ} (hn : 0 < n) (maxL : α) : edge n maxL (2 * n) = 2 * maxL := by
  have : (n : α) ≠ 0 := Nat.cast_ne_zero.mpr hn.ne'
  rw [edge_eq]; push_cast; field_simp

/-- class width: consecutive edges differ by `maxL / n` -/
theorem edge_succ_sub {n : ℕ} (hn : 0 < n) (maxL : α) (i : ℕ) :
    edge n maxL (i + 1) - edge n maxL i = maxL / n := by
  have : (n : α) ≠ 0 := Nat.cast_ne_zero.mpr hn.ne'
  rw [edge_eq, edge_eq]; push_cast; field_simp; ring

theorem edge_strictMono {n : ℕ} (hn : 0 < n) {maxL : α} (hM : 0 < maxL) : StrictMono (edge n maxL) := by
  intro i j hij
  have hn' : (0 : α) < n := Nat.cast_pos.mpr hn
  rw [edge_eq, edge_eq]
  have : (i : α) < j := Nat.cast_lt.mpr hij
  exact mul_lt_mul_of_pos_right (div_lt_div_of_pos_right this hn') hM

/-- scaling the maximum scales every edge: `edge n (c·M) i = c · edge n M i` -/
theorem edge_scale (n : ℕ) (c M : α) (i : ℕ) : edge n (c * M) i = c * edge n M i := by
  rw [edge_eq, edge_eq]; ring

/-! ### the search -/

variable {β : Type}

theorem lookupAbs_range'_some (e : ℕ → α) (v : ℕ → β) (a : α) :
    ∀ (m s k : ℕ), s ≤ k → k < s + m → a ≤ e k → (∀ j, s ≤ j → j < k → e j < a) →
      lookupAbs ((List.range' s m).map fun k => (e k, v k)) a = some (v k)
  | 0, s, k, h1, h2, _, _ => by omega
  | m + 1, s, k, h1, h2, hle, hlt => by
    rw [List.range'_succ, List.map_cons, lookupAbs]
    rcases Nat.eq_or_lt_of_le h1 with rfl | hsk
    · rw [if_pos hle]
    · rw [if_neg (not_le.mpr (hlt s le_rfl hsk))]
      exact lookupAbs_range'_some e v a m (s + 1) k hsk (by omega) hle
        (fun j hj hjk => hlt j (by omega) hjk)

theorem lookupAbs_range'_none (e : ℕ → α) (v : ℕ → β) (a : α) :
    ∀ (m s : ℕ), (∀ j, s ≤ j → j < s + m → e j < a) →
      lookupAbs ((List.range' s m).map fun k => (e k, v k)) a = none
  | 0, s, _ => by simp [lookupAbs]
  | m + 1, s, h => by
    rw [List.range'_succ, List.map_cons, lookupAbs, if_neg (not_le.mpr (h s le_rfl (by omega)))]
    exact lookupAbs_range'_none e v a m (s + 1) (fun j hj hjm => h j (by omega) (by omega))

theorem table_eq (n : ℕ) (maxL : α) (m : ℕ) (law : α → β) :
    table n maxL m law
      = (List.range' 0 m).map fun k => (edge n maxL (k + 1), law (edge n maxL (k + 1))) := by
  rw [table, List.range_eq_range']

/-- the search on the table, in terms of the class index `i = k + 1` -/
theorem lookupAbs_table_some {n : ℕ} {maxL : α} {m : ℕ} (law : α → β) {a : α} {i : ℕ}
    (hi1 : 1 ≤ i) (him : i ≤ m) (hle : a ≤ edge n maxL i) (hlt : ∀ j, 1 ≤ j → j < i → edge n maxL j < a) :
    lookupAbs (table n maxL m law) a = some (law (edge n maxL i)) := by
  rw [table_eq]
  obtain ⟨k, rfl⟩ : ∃ k, i = k + 1 := ⟨i - 1, by omega⟩
  exact lookupAbs_range'_some (fun k => edge n maxL (k + 1)) (fun k => law (edge n maxL (k + 1))) a m 0 k
    (Nat.zero_le _) (by omega) hle (fun j _ hjk => hlt (j + 1) (by omega) (by omega))

theorem lookupAbs_table_none {n : ℕ} {maxL : α} {m : ℕ} (law : α → β) {a : α}
    (h : ∀ j, 1 ≤ j → j ≤ m → edge n maxL j < a) : lookupAbs (table n maxL m law) a = none := by
  rw [table_eq]
  exact lookupAbs_range'_none _ _ a m 0 (fun j _ hjm => h (j + 1) (by omega) (by omega))

/-- the class of a value `0 ≤ a ≤ edge m`: the unique `i ∈ 1..m` with `edge (i−1) < a ≤ edge i`
(`i = 1` also takes `a = 0`) -/
theorem exists_class {n : ℕ} (hn : 0 < n) {maxL : α} (hM : 0 < maxL) {m : ℕ} (hm : 1 ≤ m) {a : α}
    (ha0 : 0 ≤ a) (ham : a ≤ edge n maxL m) :
    ∃ i, 1 ≤ i ∧ i ≤ m ∧ a ≤ edge n maxL i ∧ (∀ j, j < i → edge n maxL j ≤ a) ∧
      (∀ j, 1 ≤ j → j < i → edge n maxL j < a) := by
  classical
  have hmono := edge_strictMono hn hM
  have hex : ∃ i, 1 ≤ i ∧ a ≤ edge n maxL i := ⟨m, hm, ham⟩
  let i := Nat.find hex
  have hi : 1 ≤ i ∧ a ≤ edge n maxL i := Nat.find_spec hex
  have him : i ≤ m := Nat.find_min' hex ⟨hm, ham⟩
  have hmin : ∀ j, 1 ≤ j → j < i → edge n maxL j < a := fun j hj hji =>
    not_le.mp (fun hle => Nat.find_min hex hji ⟨hj, hle⟩)
  refine ⟨i, hi.1, him, hi.2, fun j hji => ?_, hmin⟩
  rcases Nat.eq_zero_or_pos j with rfl | hj
  · rw [edge_zero]; exact ha0
  · exact (hmin j hj hji).le

/-- the single look-up of a point whose maximum and load are both scaled by `c > 0` selects the class of the unscaled load -/
theorem binned_scaled_some {n : ℕ} {M0 : α} {m : ℕ} (law : α → α) {c x0 : α} (hc : 0 < c) {i : ℕ}
    (hi1 : 1 ≤ i) (him : i ≤ m) (hle : |x0| ≤ edge n M0 i) (hlt : ∀ j, 1 ≤ j → j < i → edge n M0 j < |x0|) :
    binned n (c * M0) m law (c * x0) = some (signM (c * x0) * law (edge n (c * M0) i)) := by
  rw [binned, lookup, absM_eq, abs_mul, abs_of_pos hc,
    lookupAbs_table_some law hi1 him (by rw [edge_scale]; exact mul_le_mul_of_nonneg_left hle hc.le)
      (fun j hj hji => by rw [edge_scale]; exact mul_lt_mul_of_pos_left (hlt j hj hji) hc)]
  rfl

theorem mapM_option_eq_some {γ δ : Type} (f : γ → Option δ) (g : γ → δ) :
    ∀ (l : List γ), (∀ p ∈ l, f p = some (g p)) → l.mapM f = some (l.map g)
  | [], _ => rfl
  | a :: l, h => by
    rw [List.mapM_cons, h a (List.mem_cons_self), mapM_option_eq_some f g l (fun p hp => h p (List.mem_cons_of_mem _ hp))]
    rfl

theorem zipWith_map_eq_map_zip {γ δ ε : Type} (f : γ → δ → ε) (g : δ → δ) :
    ∀ (xs : List γ) (Ms : List δ),
      List.zipWith f xs (Ms.map g) = (Ms.zip xs).map (fun p => f p.2 (g p.1))
  | [], Ms => by cases Ms <;> simp
  | x :: xs, [] => by simp
  | x :: xs, M :: Ms => by simp [zipWith_map_eq_map_zip f g xs Ms]

/-! ### Series look-up (`fillna(0)`) and per-point tables -/

/-- over an ordered field there is no NaN: `fillna(0)` is the identity -/
theorem fillna0_eq (x : α) : fillna0 x = x := by simp [fillna0]

theorem lookupSeries_eq (tbl : List (α × α)) (x : α) : lookupSeries tbl x = lookup tbl x := by
  rw [lookupSeries, fillna0_eq]

/-- column `j` of the per-point table is the single table of point `j` -/
theorem column_tableMulti (n : ℕ) (maxLs : List α) (m : ℕ) (law : α → α) (j : ℕ) (M : α)
    (hj : maxLs[j]? = some M) : column (tableMulti n maxLs m law) j = table n M m law := by
  simp only [column, tableMulti, table, List.map_map]
  apply List.map_congr_left
  intro k _
  simp [List.getD_eq_getElem?_getD, List.getElem?_map, hj]

theorem mapM_option_cons {γ δ : Type} (f : γ → Option δ) (a : γ) (l : List γ) :
    (a :: l).mapM f = match f a, l.mapM f with
      | some b, some bs => some (b :: bs)
      | _, _ => none := by
  rw [List.mapM_cons]
  cases f a <;> cases l.mapM f <;> rfl

theorem mapM_option_eq_none_iff {γ δ : Type} (f : γ → Option δ) :
    ∀ (l : List γ), l.mapM f = none ↔ ∃ a ∈ l, f a = none
  | [] => by simp
  | a :: l => by
    rw [mapM_option_cons]
    have ih := mapM_option_eq_none_iff f l
    cases h1 : f a with
    | none => simp [h1]
    | some b =>
      cases h2 : l.mapM f with
      | none =>
        obtain ⟨c, hc, hcn⟩ := ih.mp h2
        simp only [true_iff]
        exact ⟨c, List.mem_cons_of_mem _ hc, hcn⟩
      | some bs =>
        simp only [reduceCtorEq, false_iff]
        rintro ⟨c, hc, hcn⟩
        rcases List.mem_cons.mp hc with rfl | hc
        · rw [h1] at hcn; exact Option.some_ne_none _ hcn
        · have := ih.mpr ⟨c, hc, hcn⟩
          rw [h2] at this; exact Option.some_ne_none _ this

/-- the per-point look-ups from point `pre.length` on are the single look-ups of these points -/
theorem lookupFrom_tableMulti (n m : ℕ) (law : α → α) :
    ∀ (xs pre Ms : List α), Ms.length = xs.length →
      lookupFrom (tableMulti n (pre ++ Ms) m law) pre.length xs
        = (Ms.zip xs).mapM (fun p => binned n p.1 m law p.2)
  | [], pre, Ms, h => by
    have : Ms = [] := List.length_eq_zero_iff.mp h
    subst this; rfl
  | x :: xs, pre, [], h => by simp at h
  | x :: xs, pre, M :: Ms, h => by
    have hcol : column (tableMulti n (pre ++ M :: Ms) m law) pre.length = table n M m law :=
      column_tableMulti n _ m law _ M (by simp)
    have ih := lookupFrom_tableMulti n m law xs (pre ++ [M]) Ms (by simpa using h)
    rw [List.append_assoc, List.singleton_append, List.length_append, List.length_singleton] at ih
    rw [lookupFrom, hcol, ih, List.zip_cons_cons, mapM_option_cons]
    rfl

end PylifeVerif.Notch
