/-
Helper lemmas for C14 (load collectives, histograms, re-binning), part 1: everything that does not depend on the
definitions of `rebin` / `aggregate`.  Real-number semantics of `Model/Collective.lean`.
-/
import Model.Collective
import Proofs.RealNum
import Mathlib.Tactic.Ring
import Mathlib.Tactic.Linarith
import Mathlib.Tactic.FieldSimp
import Mathlib.Tactic.NormNum.OfScientific
import Mathlib.Algebra.Order.AbsoluteValue.Basic
import Mathlib.Algebra.BigOperators.Group.List.Basic

namespace PylifeVerif.Collective

/-! ### literals -/
@[simp] theorem lit_zero : (0.0 : ℝ) = 0 := by norm_num
@[simp] theorem lit_one : (1.0 : ℝ) = 1 := by norm_num
@[simp] theorem lit_two : (2.0 : ℝ) = 2 := by norm_num
@[simp] theorem lit_half : (0.5 : ℝ) = 1 / 2 := by norm_num

/-! ### sums -/
theorem total_eq_sum (l : List ℝ) : total l = l.sum := by
  induction l with
  | nil => simp [total]
  | cons x xs ih => simp only [total, List.foldr_cons, List.sum_cons] at ih ⊢; rw [ih]

theorem wsum_eq_sum (l : List (ℝ × ℝ)) : wsum l = (l.map (·.2)).sum := by
  induction l with
  | nil => simp [wsum]
  | cons x xs ih => simp only [wsum, List.foldr_cons, List.map_cons, List.sum_cons] at ih ⊢; rw [ih]

/-! ### monotone edge lists -/

/-- Weakly increasing list (numpy accepts repeated edges). -/
def Mono : List ℝ → Prop
  | a :: b :: rest => a ≤ b ∧ Mono (b :: rest)
  | _ => True

/-- Strictly increasing list. -/
def SMono : List ℝ → Prop
  | a :: b :: rest => a < b ∧ SMono (b :: rest)
  | _ => True

theorem SMono.mono : ∀ {l : List ℝ}, SMono l → Mono l
  | [], _ => trivial
  | [_], _ => trivial
  | _ :: b :: rest, h => ⟨le_of_lt h.1, SMono.mono (l := b :: rest) h.2⟩

theorem Mono.le_getLast : ∀ (a : ℝ) (rest : List ℝ), Mono (a :: rest) →
    a ≤ (a :: rest).getLast (List.cons_ne_nil _ _)
  | a, [], _ => le_refl a
  | a, b :: rest, h => by
    rw [List.getLast_cons_cons]
    exact le_trans h.1 (Mono.le_getLast b rest h.2)

/-! ### weighted filter sums -/

/-- `Σ w x` over the members of `l` satisfying `P`. -/
def fsum {β : Type} (w : β → ℝ) (P : β → Bool) (l : List β) : ℝ := ((l.filter P).map w).sum

theorem fsum_nil {β : Type} (w : β → ℝ) (P : β → Bool) : fsum w P [] = 0 := by simp [fsum]

theorem fsum_cons {β : Type} (w : β → ℝ) (P : β → Bool) (x : β) (l : List β) :
    fsum w P (x :: l) = (if P x then w x else 0) + fsum w P l := by
  unfold fsum
  by_cases h : P x <;> simp [h]

theorem wsum_filter (P : ℝ × ℝ → Bool) (l : List (ℝ × ℝ)) : wsum (l.filter P) = fsum (·.2) P l := by
  rw [wsum_eq_sum]; rfl

/-- Disjoint classes add up. -/
theorem fsum_split {β : Type} (w : β → ℝ) (P Q R : β → Bool) (l : List β)
    (h : ∀ x ∈ l, (R x = (P x || Q x)) ∧ ¬(P x = true ∧ Q x = true)) :
    fsum w P l + fsum w Q l = fsum w R l := by
  induction l with
  | nil => simp [fsum_nil]
  | cons x xs ih =>
    have hx := h x (List.mem_cons_self ..)
    have ih' := ih (fun y hy => h y (List.mem_cons_of_mem _ hy))
    have hx2 := hx.2
    rw [fsum_cons, fsum_cons, fsum_cons, hx.1]
    cases hp : P x <;> cases hq : Q x <;> simp [hp, hq] at hx2 ⊢ <;> linarith

theorem fsum_congr {β : Type} (w : β → ℝ) (P Q : β → Bool) (l : List β) (h : ∀ x ∈ l, P x = Q x) :
    fsum w P l = fsum w Q l := by
  unfold fsum
  rw [List.filter_congr h]

/-! ### numpy's bin rule -/

theorem inBin_last (lo hi v : ℝ) : inBin lo hi true v = (decide (lo ≤ v) && decide (v ≤ hi)) := by
  unfold inBin
  by_cases h1 : lo ≤ v <;> by_cases h2 : v < hi <;> by_cases h3 : v ≤ hi <;> simp [h1, h2, h3]
  exact absurd (le_of_lt h2) h3

theorem inBin_inner (lo hi v : ℝ) : inBin lo hi false v = (decide (lo ≤ v) && decide (v < hi)) := by
  unfold inBin; simp

/-- The weight inside the covered range `[e₀, eₙ]`. -/
noncomputable def inRange (lo hi : ℝ) (v : ℝ) : Bool := decide (lo ≤ v) && decide (v ≤ hi)

/-- Partition: the class contents of a histogram over weakly increasing edges sum to the weight of the points in `[e₀, eₙ]`. -/
theorem hist_total : ∀ (e0 : ℝ) (rest : List ℝ) (pts : List (ℝ × ℝ)), rest ≠ [] → Mono (e0 :: rest) →
    total (hist (e0 :: rest) pts) =
      fsum (·.2) (fun p => inRange e0 ((e0 :: rest).getLast (List.cons_ne_nil _ _)) p.1) pts
  | e0, [], _, h, _ => absurd rfl h
  | e0, [e1], pts, _, _ => by
    simp only [hist, classes, List.map_cons, List.map_nil, total_eq_sum, List.sum_cons, List.sum_nil, add_zero,
      wsum_filter, List.getLast_cons_cons, List.getLast_singleton]
    apply fsum_congr
    intro x _
    rw [inBin_last]; rfl
  | e0, e1 :: e2 :: rest, pts, _, hm => by
    have ih := hist_total e1 (e2 :: rest) pts (List.cons_ne_nil _ _) hm.2
    have hle := Mono.le_getLast e1 (e2 :: rest) hm.2
    simp only [hist, classes, List.map_cons, total_eq_sum, List.sum_cons] at ih ⊢
    have hL : (e0 :: e1 :: e2 :: rest).getLast (List.cons_ne_nil _ _) =
        (e1 :: e2 :: rest).getLast (List.cons_ne_nil _ _) := List.getLast_cons_cons ..
    rw [ih, wsum_filter, hL]
    generalize (e1 :: e2 :: rest).getLast (List.cons_ne_nil _ _) = L at hle ⊢
    apply fsum_split
    intro x _
    simp only [inBin_inner, inRange]
    have h01 := hm.1
    by_cases a : e0 ≤ x.1 <;> by_cases b : x.1 < e1 <;> by_cases c : e1 ≤ x.1 <;>
      by_cases d : x.1 ≤ L <;> simp [a, b, c, d] <;> linarith

/-- Exactly one class: over weakly increasing edges a value in `[e₀, eₙ]` lies in exactly one class, a value outside in none. -/
theorem classes_count : ∀ (e0 : ℝ) (rest : List ℝ) (v : ℝ), rest ≠ [] → Mono (e0 :: rest) →
    (classes (e0 :: rest)).countP (fun c => inBin c.1 c.2.1 c.2.2 v) =
      if inRange e0 ((e0 :: rest).getLast (List.cons_ne_nil _ _)) v then 1 else 0
  | e0, [], _, h, _ => absurd rfl h
  | e0, [e1], v, _, _ => by
    simp [classes, inBin_last, inRange]
  | e0, e1 :: e2 :: rest, v, _, hm => by
    have ih := classes_count e1 (e2 :: rest) v (List.cons_ne_nil _ _) hm.2
    have hle := Mono.le_getLast e1 (e2 :: rest) hm.2
    simp only [classes, List.countP_cons] at ih ⊢
    have hL : (e0 :: e1 :: e2 :: rest).getLast (List.cons_ne_nil _ _) =
        (e1 :: e2 :: rest).getLast (List.cons_ne_nil _ _) := List.getLast_cons_cons ..
    rw [ih, hL]
    generalize (e1 :: e2 :: rest).getLast (List.cons_ne_nil _ _) = L at hle ⊢
    simp only [inBin_inner, inRange]
    have h01 := hm.1
    by_cases a : e0 ≤ v <;> by_cases b : v < e1 <;> by_cases c : e1 ≤ v <;>
      by_cases d : v ≤ L <;> simp [a, b, c, d] <;> linarith

/-! ### two-dimensional histogram -/

theorem fsum_swap_aux (Pc R : ℝ → Bool) (pts : List (ℝ × ℝ × ℝ)) :
    fsum (·.2) (fun p => R p.1) ((pts.filter fun p => Pc p.1).map fun p => (p.2.1, p.2.2)) =
    fsum (·.2) (fun p => Pc p.1) ((pts.filter fun p => R p.2.1).map fun p => (p.1, p.2.2)) := by
  induction pts with
  | nil => simp [fsum]
  | cons x xs ih =>
    cases hp : Pc x.1 <;> cases hr : R x.2.1 <;>
      simp [hp, hr, fsum_cons, ih]

/-- Row totals of the two-dimensional histogram = one-dimensional histogram (over the first coordinate) of
the points whose second coordinate lies in the covered range. -/
theorem hist2d_rows_total (ex : List ℝ) (y0 : ℝ) (rest : List ℝ) (pts : List (ℝ × ℝ × ℝ))
    (hr : rest ≠ []) (hm : Mono (y0 :: rest)) :
    (hist2d ex (y0 :: rest) pts).map total =
      hist ex ((pts.filter fun p => inRange y0 ((y0 :: rest).getLast (List.cons_ne_nil _ _)) p.2.1).map
        fun p => (p.1, p.2.2)) := by
  have key : ∀ c : ℝ × ℝ × Bool,
      total (hist (y0 :: rest) ((pts.filter fun p => inBin c.1 c.2.1 c.2.2 p.1).map fun p => (p.2.1, p.2.2))) =
      wsum (((pts.filter fun p => inRange y0 ((y0 :: rest).getLast (List.cons_ne_nil _ _)) p.2.1).map
        fun p => (p.1, p.2.2)).filter fun p => inBin c.1 c.2.1 c.2.2 p.1) := by
    intro c
    rw [hist_total y0 rest _ hr hm, wsum_filter]
    exact fsum_swap_aux (fun v => inBin c.1 c.2.1 c.2.2 v)
      (fun v => inRange y0 ((y0 :: rest).getLast (List.cons_ne_nil _ _)) v) pts
  unfold hist2d
  rw [List.map_map]
  simp only [Function.comp_def, key]
  rfl

/-! ### re-binning -/

theorem minA_eq (a b : ℝ) : minA a b = min a b := by
  unfold minA
  rcases lt_or_ge b a with h | h
  · rw [if_pos h, min_eq_right (le_of_lt h)]
  · rw [if_neg (not_lt.mpr h), min_eq_left h]

theorem maxA_eq (a b : ℝ) : maxA a b = max a b := by
  unfold maxA
  rcases lt_or_ge a b with h | h
  · rw [if_pos h, max_eq_right (le_of_lt h)]
  · rw [if_neg (not_lt.mpr h), max_eq_left h]

/-- Fraction of the class `(l, r]` that falls into `(tl, tr]` (as the code computes it). -/
noncomputable def kap (tl tr l r : ℝ) : ℝ := if l < tr ∧ tl < r then (min tr r - max tl l) / (r - l) else 0

theorem share_eq (tl tr : ℝ) (s : Bin ℝ) : share tl tr s = s.v * kap tl tr s.l s.r := by
  unfold share kap
  split_ifs <;> simp [minA_eq, maxA_eq]

theorem share_fun (tl tr : ℝ) : share (α := ℝ) tl tr = fun s => s.v * kap tl tr s.l s.r :=
  funext (share_eq tl tr)

/-- Clamp `x` into `[l, r]`. -/
noncomputable def cl (l r x : ℝ) : ℝ := min r (max l x)

theorem cl_of_le {l r x : ℝ} (h : x ≤ l) (hlr : l ≤ r) : cl l r x = l := by
  unfold cl; rw [max_eq_left h, min_eq_right hlr]
theorem cl_of_ge {l r x : ℝ} (h : r ≤ x) (hlr : l ≤ r) : cl l r x = r := by
  unfold cl; rw [max_eq_right (le_trans hlr h), min_eq_left h]
theorem cl_of_mem {l r x : ℝ} (h1 : l ≤ x) (h2 : x ≤ r) : cl l r x = x := by
  unfold cl; rw [max_eq_right h1, min_eq_right h2]

/-- share = difference of the target's end points clamped into the source class. -/
theorem kap_clamp (tl tr l r : ℝ) (ht : tl ≤ tr) (hlr : l < r) :
    kap tl tr l r = (cl l r tr - cl l r tl) / (r - l) := by
  unfold kap
  have hle := le_of_lt hlr
  split_ifs with h
  · congr 1
    obtain ⟨h1, h2⟩ := h
    rcases le_total tr r with a | a
    · rw [cl_of_mem (le_of_lt h1) a, min_eq_left a]
      rcases le_total tl l with b | b
      · rw [cl_of_le b hle, max_eq_right b]
      · rw [cl_of_mem b (le_trans ht a), max_eq_left b]
    · rw [cl_of_ge a hle, min_eq_right a]
      rcases le_total tl l with b | b
      · rw [cl_of_le b hle, max_eq_right b]
      · rw [cl_of_mem b (le_of_lt h2), max_eq_left b]
  · rcases not_and_or.mp h with h | h
    · have h' : tr ≤ l := not_lt.mp h
      rw [cl_of_le h' hle, cl_of_le (le_trans ht h') hle]; simp
    · have h' : r ≤ tl := not_lt.mp h
      rw [cl_of_ge h' hle, cl_of_ge (le_trans h' ht) hle]; simp

/-- share = difference of the source's end points clamped into the target class. -/
theorem kap_clamp' (tl tr l r : ℝ) (ht : tl ≤ tr) (hlr : l < r) :
    kap tl tr l r = (cl tl tr r - cl tl tr l) / (r - l) := by
  unfold kap
  have hle := le_of_lt hlr
  split_ifs with h
  · congr 1
    obtain ⟨h1, h2⟩ := h
    rcases le_total tr r with a | a
    · rw [cl_of_ge a ht, min_eq_left a]
      rcases le_total tl l with b | b
      · rw [cl_of_mem b (le_of_lt h1), max_eq_right b]
      · rw [cl_of_le b ht, max_eq_left b]
    · rw [cl_of_mem (le_of_lt h2) a, min_eq_right a]
      rcases le_total tl l with b | b
      · rw [cl_of_mem b (le_of_lt h1), max_eq_right b]
      · rw [cl_of_le b ht, max_eq_left b]
  · rcases not_and_or.mp h with h | h
    · have h' : tr ≤ l := not_lt.mp h
      rw [cl_of_ge h' ht, cl_of_ge (le_trans h' hle) ht]; simp
    · have h' : r ≤ tl := not_lt.mp h
      rw [cl_of_le h' ht, cl_of_le (le_trans hle h') ht]; simp

theorem pairs_telescope (f : ℝ → ℝ) : ∀ (b0 : ℝ) (rest : List ℝ),
    ((pairs (b0 :: rest)).map fun p => f p.2 - f p.1).sum =
      f ((b0 :: rest).getLast (List.cons_ne_nil _ _)) - f b0
  | b0, [] => by simp [pairs]
  | b0, b1 :: rest => by
    have ih := pairs_telescope f b1 rest
    have hL : (b0 :: b1 :: rest).getLast (List.cons_ne_nil _ _) =
        (b1 :: rest).getLast (List.cons_ne_nil _ _) := List.getLast_cons_cons ..
    simp only [pairs, List.map_cons, List.sum_cons, ih, hL]
    ring

theorem pairs_bounds : ∀ (b0 : ℝ) (rest : List ℝ), Mono (b0 :: rest) → ∀ p ∈ pairs (b0 :: rest),
    b0 ≤ p.1 ∧ p.1 ≤ p.2 ∧ p.2 ≤ (b0 :: rest).getLast (List.cons_ne_nil _ _)
  | b0, [], _, p, hp => by simp [pairs] at hp
  | b0, b1 :: rest, hm, p, hp => by
    have hL : (b0 :: b1 :: rest).getLast (List.cons_ne_nil _ _) =
        (b1 :: rest).getLast (List.cons_ne_nil _ _) := List.getLast_cons_cons ..
    have hle := Mono.le_getLast b1 rest hm.2
    simp only [pairs, List.mem_cons] at hp
    rw [hL]
    rcases hp with rfl | hp
    · exact ⟨le_refl _, hm.1, hle⟩
    · obtain ⟨h1, h2, h3⟩ := pairs_bounds b1 rest hm.2 p hp
      exact ⟨le_trans hm.1 h1, h2, h3⟩

theorem pairs_strict : ∀ (l : List ℝ), SMono l → ∀ p ∈ pairs l, p.1 < p.2
  | [], _, p, hp => by simp [pairs] at hp
  | [_], _, p, hp => by simp [pairs] at hp
  | b0 :: b1 :: rest, hm, p, hp => by
    simp only [pairs, List.mem_cons] at hp
    rcases hp with rfl | hp
    · exact hm.1
    · exact pairs_strict (b1 :: rest) hm.2 p hp

theorem sum_map_sum_comm {β γ : Type} (l1 : List β) (l2 : List γ) (f : β → γ → ℝ) :
    (l1.map fun a => (l2.map fun b => f a b).sum).sum = (l2.map fun b => (l1.map fun a => f a b).sum).sum := by
  induction l1 with
  | nil => simp
  | cons a as ih => simp only [List.map_cons, List.sum_cons, ih, List.sum_map_add]

/-- One source class is fully distributed over a gap-free binning that covers it. -/
theorem kap_sum (l r b0 : ℝ) (rest : List ℝ) (hm : Mono (b0 :: rest)) (hpos : l < r)
    (hl : b0 ≤ l) (hr : r ≤ (b0 :: rest).getLast (List.cons_ne_nil _ _)) :
    ((pairs (b0 :: rest)).map fun p => kap p.1 p.2 l r).sum = 1 := by
  have hle := le_of_lt hpos
  have h1 : ((pairs (b0 :: rest)).map fun p => kap p.1 p.2 l r) =
      (pairs (b0 :: rest)).map fun p => (1 / (r - l)) * (cl l r p.2 - cl l r p.1) := by
    apply List.map_congr_left
    intro p hp
    rw [kap_clamp _ _ _ _ (pairs_bounds b0 rest hm p hp).2.1 hpos]; ring
  rw [h1, List.sum_map_mul_left, pairs_telescope (cl l r) b0 rest, cl_of_ge hr hle, cl_of_le hl hle]
  have : r - l ≠ 0 := by linarith
  field_simp

def RefinesClass (l r : ℝ) (B : List ℝ) : Prop :=
  ∀ p ∈ pairs B, p.2 ≤ l ∨ r ≤ p.1 ∨ (l ≤ p.1 ∧ p.2 ≤ r)

/-- Composition for one source class: distributing `(l, r]` over a refining binning `B` and each class of
`B` into `(tl, tr]` gives the direct share. -/
theorem kap_compose (l r tl tr b0 : ℝ) (rest : List ℝ) (hs : SMono (b0 :: rest)) (hpos : l < r) (ht : tl ≤ tr)
    (hl : b0 ≤ l) (hr : r ≤ (b0 :: rest).getLast (List.cons_ne_nil _ _)) (href : RefinesClass l r (b0 :: rest)) :
    ((pairs (b0 :: rest)).map fun p => kap p.1 p.2 l r * kap tl tr p.1 p.2).sum = kap tl tr l r := by
  have hle := le_of_lt hpos
  have hne : r - l ≠ 0 := by linarith
  have h1 : ((pairs (b0 :: rest)).map fun p => kap p.1 p.2 l r * kap tl tr p.1 p.2) =
      (pairs (b0 :: rest)).map fun p =>
        (1 / (r - l)) * (cl tl tr (cl l r p.2) - cl tl tr (cl l r p.1)) := by
    apply List.map_congr_left
    intro p hp
    have hp12 := pairs_strict _ hs p hp
    have hpne : p.2 - p.1 ≠ 0 := by linarith
    rw [kap_clamp _ _ _ _ (le_of_lt hp12) hpos, kap_clamp' tl tr _ _ ht hp12]
    rcases href p hp with h | h | ⟨h, h'⟩
    · rw [cl_of_le h hle, cl_of_le (le_trans (le_of_lt hp12) h) hle]; simp
    · rw [cl_of_ge h hle, cl_of_ge (le_trans h (le_of_lt hp12)) hle]; simp
    · rw [cl_of_mem (le_trans h (le_of_lt hp12)) h', cl_of_mem h (le_trans (le_of_lt hp12) h')]
      field_simp
  have tele := pairs_telescope (fun x => cl tl tr (cl l r x)) b0 rest
  rw [h1, List.sum_map_mul_left, tele]
  rw [cl_of_ge hr hle, cl_of_le hl hle, kap_clamp' tl tr l r ht hpos]
  ring

/-- In a strictly increasing list no element lies strictly inside a class. -/
theorem pairs_no_inner : ∀ (l : List ℝ), SMono l → ∀ p ∈ pairs l, ∀ x ∈ l, x ≤ p.1 ∨ p.2 ≤ x
  | [], _, p, hp, _, _ => by simp [pairs] at hp
  | [_], _, p, hp, _, _ => by simp [pairs] at hp
  | b0 :: b1 :: rest, hm, p, hp, x, hx => by
    have hmono := SMono.mono hm
    simp only [pairs, List.mem_cons] at hp
    rcases hp with rfl | hp
    · simp only [List.mem_cons] at hx
      rcases hx with rfl | rfl | hx
      · left; exact le_refl _
      · right; exact le_refl _
      · right
        -- x is a later break: b1 ≤ x
        have : ∀ (a : ℝ) (t : List ℝ), Mono (a :: t) → ∀ y ∈ t, a ≤ y := by
          intro a t
          induction t generalizing a with
          | nil => intro _ y hy; simp at hy
          | cons c t ih =>
            intro hm' y hy
            simp only [List.mem_cons] at hy
            rcases hy with rfl | hy
            · exact hm'.1
            · exact le_trans hm'.1 (ih c hm'.2 y hy)
        exact this b1 rest hmono.2 x hx
    · simp only [List.mem_cons] at hx
      rcases hx with rfl | hx
      · left
        exact le_trans (le_of_lt hm.1) (pairs_bounds b1 rest hmono.2 p hp).1
      · exact pairs_no_inner (b1 :: rest) hm.2 p hp x (List.mem_cons.mpr hx)

/-- A binning that contains both end points of a class among its breaks refines the class. -/
theorem refinesClass_of_mem (l r : ℝ) (B : List ℝ) (hs : SMono B) (hlr : l ≤ r) (hl : l ∈ B) (hr : r ∈ B) :
    RefinesClass l r B := by
  intro p hp
  rcases pairs_no_inner B hs p hp l hl with a | a
  · rcases pairs_no_inner B hs p hp r hr with b | b
    · right; left; exact b
    · right; right; exact ⟨a, b⟩
  · left; exact a

/-! ### same binning -/

theorem kap_self (l r : ℝ) (h : l < r) : kap l r l r = 1 := by
  unfold kap
  rw [if_pos ⟨h, h⟩, min_self, max_self]
  have : r - l ≠ 0 := by linarith
  field_simp

theorem kap_disjoint_left (tl tr l r : ℝ) (h : tr ≤ l) : kap tl tr l r = 0 := by
  unfold kap; rw [if_neg]; intro ⟨a, _⟩; linarith

theorem kap_disjoint_right (tl tr l r : ℝ) (h : r ≤ tl) : kap tl tr l r = 0 := by
  unfold kap; rw [if_neg]; intro ⟨_, a⟩; linarith

theorem binsOf_left_ge : ∀ (b0 : ℝ) (rest : List ℝ) (vals : List ℝ), Mono (b0 :: rest) →
    ∀ s ∈ binsOf (b0 :: rest) vals, b0 ≤ s.l
  | b0, [], vals, _, s, hs => by simp [binsOf, pairs] at hs
  | b0, b1 :: rest, [], _, s, hs => by simp [binsOf] at hs
  | b0, b1 :: rest, v :: vs, hm, s, hs => by
    simp only [binsOf, pairs, List.zipWith_cons_cons, List.mem_cons] at hs
    rcases hs with rfl | hs
    · exact le_refl _
    · exact le_trans hm.1 (binsOf_left_ge b1 rest vs hm.2 s hs)

/-- Re-binning to the histogram's own binning returns the contents unchanged. -/
theorem binsOf_mem : ∀ (breaks vals : List ℝ), SMono breaks →
    ∀ s ∈ binsOf breaks vals, s.l < s.r ∧ s.l ∈ breaks ∧ s.r ∈ breaks
  | [], vals, _, s, hs => by simp [binsOf, pairs] at hs
  | [_], vals, _, s, hs => by simp [binsOf, pairs] at hs
  | b0 :: b1 :: rest, [], _, s, hs => by simp [binsOf] at hs
  | b0 :: b1 :: rest, v :: vs, hm, s, hs => by
    simp only [binsOf, pairs, List.zipWith_cons_cons, List.mem_cons] at hs
    rcases hs with rfl | hs
    · exact ⟨hm.1, by simp, by simp⟩
    · obtain ⟨h1, h2, h3⟩ := binsOf_mem (b1 :: rest) vs hm.2 s hs
      exact ⟨h1, List.mem_cons_of_mem _ h2, List.mem_cons_of_mem _ h3⟩

theorem mono_mem_bounds : ∀ (b0 : ℝ) (rest : List ℝ), Mono (b0 :: rest) → ∀ x ∈ b0 :: rest,
    b0 ≤ x ∧ x ≤ (b0 :: rest).getLast (List.cons_ne_nil _ _)
  | b0, [], _, x, hx => by simp at hx; subst hx; simp
  | b0, b1 :: rest, hm, x, hx => by
    have hL : (b0 :: b1 :: rest).getLast (List.cons_ne_nil _ _) =
        (b1 :: rest).getLast (List.cons_ne_nil _ _) := List.getLast_cons_cons ..
    rw [hL]
    rcases List.mem_cons.mp hx with rfl | hx
    · exact ⟨le_refl _, le_trans hm.1 (Mono.le_getLast b1 rest hm.2)⟩
    · obtain ⟨h1, h2⟩ := mono_mem_bounds b1 rest hm.2 x hx
      exact ⟨le_trans hm.1 h1, h2⟩

/-! ### combining -/

theorem binTotal_cons (b : Bin ℝ) (l : List (Bin ℝ)) : binTotal (b :: l) = b.v + binTotal l := by
  simp [binTotal, total_eq_sum]

theorem binTotal_insert (b : Bin ℝ) : ∀ l : List (Bin ℝ), binTotal (insertBin b l) = binTotal l + b.v
  | [] => by simp [insertBin, binTotal, total_eq_sum]
  | c :: cs => by
    unfold insertBin
    split_ifs
    · simp only [binTotal_cons]; ring
    · simp only [binTotal_cons]; ring
    · simp only [binTotal_cons, binTotal_insert b cs]; ring

theorem binTotal_foldl (l : List (Bin ℝ)) : ∀ acc : List (Bin ℝ),
    binTotal (l.foldl (fun acc b => insertBin b acc) acc) = binTotal acc + binTotal l := by
  induction l with
  | nil => intro acc; simp [binTotal, total_eq_sum]
  | cons b bs ih =>
    intro acc
    rw [List.foldl_cons, ih, binTotal_insert, binTotal_cons]; ring

theorem binTotal_append (a b : List (Bin ℝ)) : binTotal (a ++ b) = binTotal a + binTotal b := by
  simp [binTotal, total_eq_sum]

/-! ### unoccupied (NaN) classes -/

theorem binTotal_present : ∀ l : List (OBin ℝ), binTotal (present l) = (l.map fun b => b.v.getD 0).sum
  | [] => by simp [present, binTotal, total_eq_sum]
  | b :: bs => by
    have ih := binTotal_present bs
    cases hv : b.v with
    | none => simp [present, hv, ih]
    | some v => simp [present, hv, binTotal_cons, ih]

theorem binTotal_getD (l : List (OBin ℝ)) :
    binTotal (l.map fun b => (⟨b.l, b.r, b.v.getD 0.0⟩ : Bin ℝ)) = binTotal (present l) := by
  rw [binTotal_present]
  simp [binTotal, total_eq_sum, Function.comp_def]

theorem share_of_not_overlaps (tl tr : ℝ) (s : Bin ℝ) (h : overlapsB tl tr s = false) : share tl tr s = 0 := by
  unfold share
  unfold overlapsB at h
  rw [if_neg]
  · simp
  · intro ⟨a, b⟩
    simp [a, b] at h

theorem sum_filter_share (tl tr : ℝ) : ∀ l : List (Bin ℝ),
    ((l.filter (overlapsB tl tr)).map (share tl tr)).sum = (l.map (share tl tr)).sum
  | [] => by simp
  | x :: xs => by
    have ih := sum_filter_share tl tr xs
    cases h : overlapsB tl tr x
    · simp [List.filter_cons, h, ih, share_of_not_overlaps tl tr x h]
    · simp [List.filter_cons, h, ih]

end PylifeVerif.Collective
