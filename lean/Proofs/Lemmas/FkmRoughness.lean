/-
The roughness factor `K_R,P` (`Assess.kRP`, eq. (2.5-37), `calculate_roughness_parameter`) over ℝ:

    K_R,P = (1 − a_RP · log10 R_z · log10 (2 R_m / R_m,N,min)) ^ b_RP     for R_z > 1,      1 otherwise.

`Transc.log10` at ℝ is `Real.log x / Real.log 10 = Real.logb 10 x` (`kRP_eq`), `Transc.pow` is `Real.rpow`.

  * `kRP_antitone`        a rougher surface (`R_z ≤ R_z'`) never has a larger `K_R,P`
  * `kRP_le_one`, `kRP_nonneg`, `kRP_pos`
  * `kRP_antitone_group`, `kRP_le_one_group`   the same for the three material groups of `consts`
  * non-vacuity: steel, `R_m = 600`, `R_z = 10`, `R_z' = 100`
  * `kRP_not_antitone_without_hbase`   the hypothesis `hbase` cannot be dropped

WHICH HYPOTHESIS OF THE FULL STATEMENT IS NEEDED.  The full statement "a rougher surface never increases `K_R,P`, for
EVERY `R_z`" needs `hbase`: the base `1 − a_RP · log10 R_z' · log10 (2 R_m / R_m,N,min)` of the ROUGHER surface must be
non-negative (then the base of the smoother surface is non-negative as well).  The base decreases without bound in
`R_z`; for steel with `R_m = 600` it is negative from `R_z ≈ 10^7.76` on, with `R_m = 2000` from `R_z = 10^(100/27) ≈ 5055`
on.  `Real.rpow` of a negative base is `exp (y · log |x|) · cos (y π)`, which is not monotone (the witness below:
`K_R,P = 0` at base `0`, `K_R,P > 0` at base `−0.08`); the Python code computes `negative ** 0.43 = NaN` there, for which
no order statement holds either.  The other hypotheses (`a_RP ≥ 0`, `b_RP ≥ 0`, `R_m,N,min > 0`) hold for every group
of `constants.py` (`consts_RP`); `R_m,N,min ≤ 2 R_m` (i.e. `log10 (2 R_m / R_m,N,min) ≥ 0`) is needed as well: for
`R_m < R_m,N,min / 2` the base GROWS with `R_z` and `K_R,P > 1` increases with the roughness.
-/
import Model.Assessment
import Proofs.RealNum
import Proofs.Lemmas.FkmNonlinear
import Mathlib.Analysis.SpecialFunctions.Log.Base
import Mathlib.Analysis.SpecialFunctions.Pow.Real
import Mathlib.Tactic.Linarith
import Mathlib.Tactic.NormNum
import Mathlib.Tactic.Positivity

namespace PylifeVerif.Assess
open PylifeVerif.FkmNl

/-- the base of the power in eq. (2.5-37) -/
noncomputable def kRPBase (k : Consts ℝ) (Rz Rm : ℝ) : ℝ :=
  1 - k.a_RP * Real.logb 10 Rz * Real.logb 10 (2 * Rm / k.R_m_N_min)

theorem kRP_eq (k : Consts ℝ) (Rz Rm : ℝ) :
    kRP k Rz Rm = if 1 < Rz then (kRPBase k Rz Rm) ^ k.b_RP else 1 := by
  simp only [kRP, kRPBase, transc_pow, transc_log10, lit_1, lit_2, Real.log_div_log]

theorem logb_ratio_nonneg (k : Consts ℝ) (Rm : ℝ) (hmin : 0 < k.R_m_N_min) (hRm : k.R_m_N_min ≤ 2 * Rm) :
    0 ≤ Real.logb 10 (2 * Rm / k.R_m_N_min) :=
  Real.logb_nonneg (by norm_num) ((one_le_div hmin).mpr hRm)

theorem kRPBase_le_one (k : Consts ℝ) (Rm Rz : ℝ) (ha : 0 ≤ k.a_RP) (hmin : 0 < k.R_m_N_min)
    (hRm : k.R_m_N_min ≤ 2 * Rm) (hRz : 1 ≤ Rz) : kRPBase k Rz Rm ≤ 1 := by
  have hL := logb_ratio_nonneg k Rm hmin hRm
  have hz : 0 ≤ Real.logb 10 Rz := Real.logb_nonneg (by norm_num) hRz
  have : 0 ≤ k.a_RP * Real.logb 10 Rz * Real.logb 10 (2 * Rm / k.R_m_N_min) := by positivity
  unfold kRPBase; linarith

theorem kRPBase_antitone (k : Consts ℝ) (Rm Rz Rz' : ℝ) (ha : 0 ≤ k.a_RP) (hmin : 0 < k.R_m_N_min)
    (hRm : k.R_m_N_min ≤ 2 * Rm) (hRz : 0 < Rz) (hle : Rz ≤ Rz') : kRPBase k Rz' Rm ≤ kRPBase k Rz Rm := by
  have hL := logb_ratio_nonneg k Rm hmin hRm
  have hz : Real.logb 10 Rz ≤ Real.logb 10 Rz' := Real.logb_le_logb_of_le (by norm_num) hRz hle
  have h1 : k.a_RP * Real.logb 10 Rz ≤ k.a_RP * Real.logb 10 Rz' := mul_le_mul_of_nonneg_left hz ha
  have h2 := mul_le_mul_of_nonneg_right h1 hL
  unfold kRPBase; linarith


/-- `K_R,P ≤ 1` (hypothesis `hbase` only matters for `1 < R_z`) -/
theorem kRP_le_one (k : Consts ℝ) (Rm Rz : ℝ) (ha : 0 ≤ k.a_RP) (hb : 0 ≤ k.b_RP) (hmin : 0 < k.R_m_N_min)
    (hRm : k.R_m_N_min ≤ 2 * Rm)
    (hbase : 1 < Rz → 0 ≤ 1 - k.a_RP * Real.logb 10 Rz * Real.logb 10 (2 * Rm / k.R_m_N_min)) :
    kRP k Rz Rm ≤ 1 := by
  rw [kRP_eq]
  split_ifs with h
  · exact Real.rpow_le_one (hbase h) (kRPBase_le_one k Rm Rz ha hmin hRm h.le) hb
  · exact le_rfl

theorem kRP_nonneg (k : Consts ℝ) (Rm Rz : ℝ)
    (hbase : 1 < Rz → 0 ≤ 1 - k.a_RP * Real.logb 10 Rz * Real.logb 10 (2 * Rm / k.R_m_N_min)) :
    0 ≤ kRP k Rz Rm := by
  rw [kRP_eq]
  split_ifs with h
  · exact Real.rpow_nonneg (hbase h) _
  · exact zero_le_one

theorem kRP_pos (k : Consts ℝ) (Rm Rz : ℝ)
    (hbase : 1 < Rz → 0 < 1 - k.a_RP * Real.logb 10 Rz * Real.logb 10 (2 * Rm / k.R_m_N_min)) :
    0 < kRP k Rz Rm := by
  rw [kRP_eq]
  split_ifs with h
  · exact Real.rpow_pos_of_pos (hbase h) _
  · exact zero_lt_one

/-- **A rougher surface never increases `K_R,P`**, as long as the base of the power of the rougher surface is
non-negative. -/
theorem kRP_antitone (k : Consts ℝ) (Rm Rz Rz' : ℝ) (ha : 0 ≤ k.a_RP) (hb : 0 ≤ k.b_RP) (hmin : 0 < k.R_m_N_min)
    (hRm : k.R_m_N_min ≤ 2 * Rm) (hle : Rz ≤ Rz')
    (hbase : 1 < Rz' → 0 ≤ 1 - k.a_RP * Real.logb 10 Rz' * Real.logb 10 (2 * Rm / k.R_m_N_min)) :
    kRP k Rz' Rm ≤ kRP k Rz Rm := by
  by_cases h : 1 < Rz
  · have h' : 1 < Rz' := lt_of_lt_of_le h hle
    rw [kRP_eq, kRP_eq, if_pos h, if_pos h']
    exact Real.rpow_le_rpow (hbase h') (kRPBase_antitone k Rm Rz Rz' ha hmin hRm (by linarith) hle) hb
  · have e : kRP k Rz Rm = 1 := by rw [kRP_eq, if_neg h]
    rw [e]
    exact kRP_le_one k Rm Rz' ha hb hmin hRm hbase

/-! ### the three material groups of the model -/

theorem consts_RP (g : Group) :
    0 ≤ (consts g : Consts ℝ).a_RP ∧ 0 ≤ (consts g : Consts ℝ).b_RP ∧ 0 < (consts g : Consts ℝ).R_m_N_min := by
  cases g <;> simp [consts] <;> norm_num

theorem kRP_antitone_group (g : Group) (Rm Rz Rz' : ℝ) (hRm : (consts g : Consts ℝ).R_m_N_min ≤ 2 * Rm)
    (hle : Rz ≤ Rz')
    (hbase : 1 < Rz' → 0 ≤ 1 - (consts g : Consts ℝ).a_RP * Real.logb 10 Rz' *
      Real.logb 10 (2 * Rm / (consts g : Consts ℝ).R_m_N_min)) :
    kRP (consts g) Rz' Rm ≤ kRP (consts g) Rz Rm :=
  kRP_antitone (consts g) Rm Rz Rz' (consts_RP g).1 (consts_RP g).2.1 (consts_RP g).2.2 hRm hle hbase

theorem kRP_le_one_group (g : Group) (Rm Rz : ℝ) (hRm : (consts g : Consts ℝ).R_m_N_min ≤ 2 * Rm)
    (hbase : 1 < Rz → 0 ≤ 1 - (consts g : Consts ℝ).a_RP * Real.logb 10 Rz *
      Real.logb 10 (2 * Rm / (consts g : Consts ℝ).R_m_N_min)) :
    kRP (consts g) Rz Rm ≤ 1 :=
  kRP_le_one (consts g) Rm Rz (consts_RP g).1 (consts_RP g).2.1 (consts_RP g).2.2 hRm hbase

/-! ### non-vacuity: steel, `R_m = 600`, `R_z = 10` and `R_z' = 100` -/

theorem logb_10_100 : Real.logb 10 100 = 2 := by
  have : (100 : ℝ) = 10 ^ (2 : ℕ) := by norm_num
  rw [this, Real.logb_pow, Real.logb_self_eq_one (by norm_num)]
  norm_num

theorem steel_base_pos :
    0 < 1 - (consts Group.Steel : Consts ℝ).a_RP * Real.logb 10 100 *
      Real.logb 10 (2 * 600 / (consts Group.Steel : Consts ℝ).R_m_N_min) := by
  have e : (2 * 600 / (consts Group.Steel : Consts ℝ).R_m_N_min) = 3 := by simp [consts]; norm_num
  have ea : (consts Group.Steel : Consts ℝ).a_RP = 27 / 100 := by simp [consts]; norm_num
  have h3 : Real.logb 10 3 < 1 := by
    have := Real.logb_lt_logb (b := 10) (by norm_num) (by norm_num : (0:ℝ) < 3) (by norm_num : (3:ℝ) < 10)
    rwa [Real.logb_self_eq_one (by norm_num)] at this
  rw [e, ea, logb_10_100]
  linarith

example : kRP (consts Group.Steel) 100 600 ≤ kRP (consts Group.Steel : Consts ℝ) 10 600 :=
  kRP_antitone_group Group.Steel 600 10 100 (by simp [consts]; norm_num) (by norm_num) (fun _ => steel_base_pos.le)

example : 0 < kRP (consts Group.Steel : Consts ℝ) 100 600 ∧ kRP (consts Group.Steel : Consts ℝ) 100 600 ≤ 1 :=
  ⟨kRP_pos _ 600 100 (fun _ => steel_base_pos),
   kRP_le_one_group Group.Steel 600 100 (by simp [consts]; norm_num) (fun _ => steel_base_pos.le)⟩


/-! ### the hypothesis `hbase` cannot be dropped -/

/-- Steel with `R_m = 2000` (so `log10 (2 R_m / R_m,N,min) = 1`): at `R_z = 10^(100/27)` the base is exactly `0`, hence
`K_R,P = 0`; at the rougher `R_z' = 10^4` the base is `-0.08` and `Real.rpow` gives
`exp (0.43 · log 0.08) · cos (0.43 π) > 0`.  (In double arithmetic the code gives NaN there.) -/
theorem kRP_not_antitone_without_hbase :
    ∃ (g : Group) (Rm Rz Rz' : ℝ), (consts g : Consts ℝ).R_m_N_min ≤ 2 * Rm ∧ Rz ≤ Rz' ∧
      kRP (consts g) Rz Rm < kRP (consts g) Rz' Rm := by
  have h10 : (0:ℝ) < 10 := by norm_num
  have h10' : (10:ℝ) ≠ 1 := by norm_num
  have e : (2 * 2000 / (consts Group.Steel : Consts ℝ).R_m_N_min) = 10 := by simp [consts]; norm_num
  have ea : (consts Group.Steel : Consts ℝ).a_RP = 27 / 100 := by simp [consts]; norm_num
  have eb : (consts Group.Steel : Consts ℝ).b_RP = 43 / 100 := by simp [consts]; norm_num
  have hlt : (10:ℝ) ^ ((100:ℝ) / 27) < 10 ^ (4:ℝ) := Real.rpow_lt_rpow_of_exponent_lt (by norm_num) (by norm_num)
  have h1 : (1:ℝ) < 10 ^ ((100:ℝ) / 27) := Real.one_lt_rpow (by norm_num) (by norm_num)
  refine ⟨Group.Steel, 2000, 10 ^ ((100:ℝ) / 27), 10 ^ (4:ℝ), by simp [consts]; norm_num, hlt.le, ?_⟩
  rw [kRP_eq, kRP_eq, if_pos h1, if_pos (lt_trans h1 hlt)]
  unfold kRPBase
  rw [e, ea, eb, Real.logb_rpow h10 h10', Real.logb_rpow h10 h10', Real.logb_self_eq_one (by norm_num)]
  have z : (1:ℝ) - 27 / 100 * (100 / 27) * 1 = 0 := by norm_num
  rw [z, Real.zero_rpow (by norm_num)]
  have n : (1:ℝ) - 27 / 100 * 4 * 1 < 0 := by norm_num
  rw [Real.rpow_def_of_neg n]
  apply mul_pos (Real.exp_pos _)
  apply Real.cos_pos_of_mem_Ioo
  constructor
  · have := Real.pi_pos; linarith
  · have := Real.pi_pos; linarith


end PylifeVerif.Assess
