/-
Property C15, `pf_arbitrary_load` = `np.trapezoid(load_pdf * cdf_S(load_values), x = load_values)` on ARBITRARY
(non-uniform) increasing sample points: error bound of the model's list trapezoid against the integral, and
convergence when the largest step tends to zero.
-/
import Proofs.Lemmas.Trapezoid
import Mathlib.Analysis.Calculus.IteratedDeriv.Lemmas

namespace PylifeVerif.TrapezoidLemmas

open PylifeVerif.FailureProb

/-- increasing on consecutive indices up to `n` implies increasing on all index pairs up to `n` -/
theorem nodes_mono (x : ℕ → ℝ) (n : ℕ) (hx : ∀ k < n, x k ≤ x (k + 1)) :
    ∀ i j, i ≤ j → j ≤ n → x i ≤ x j := by
  intro i j hij
  induction j, hij using Nat.le_induction with
  | base => intro _; exact le_refl _
  | succ j hij ih =>
    intro hj
    exact (ih (by omega)).trans (hx j (by omega))

/-- one panel: the single trapezoid on `[a, b]`, `a ≤ b`, against the integral -/
theorem trapezoid_panel_error_le (f : ℝ → ℝ) (hf : ContDiff ℝ 2 f) {a b : ℝ} (hab : a ≤ b) {ζ : ℝ}
    (hζ : ∀ y ∈ Set.Icc a b, |iteratedDeriv 2 f y| ≤ ζ) :
    |(b - a) * (f b + f a) / 2 - ∫ y in a..b, f y| ≤ (b - a) ^ 3 * ζ / 12 := by
  rcases hab.eq_or_lt with h | h
  · subst h; simp
  have hζ0 : 0 ≤ ζ := (abs_nonneg _).trans (hζ a ⟨le_refl _, hab⟩)
  have hb : ∀ y, |iteratedDerivWithin 2 f (Set.uIcc a b) y| ≤ ζ := by
    intro y
    rw [Set.uIcc_of_le hab]
    by_cases hy : y ∈ Set.Icc a b
    · rw [iteratedDerivWithin_eq_iteratedDeriv (uniqueDiffOn_Icc h) hf.contDiffAt hy]
      exact hζ y hy
    · rw [iteratedDerivWithin_succ, derivWithin_zero_of_notMem_closure
        (by rwa [closure_Icc]), abs_zero]
      exact hζ0
  have key := trapezoidal_error_le_of_c2 (f := f) (a := a) (b := b) hf.contDiffOn hb
    (N := 1) one_pos
  rw [trapezoidal_error, trapezoidal_integral_one, abs_of_nonneg (sub_nonneg.mpr hab)] at key
  have e : (b - a) * (f b + f a) / 2 = (b - a) / 2 * (f a + f b) := by ring
  rw [e]
  refine key.trans_eq ?_
  norm_num

/-- non-uniform composite trapezoidal rule: for a `C²` integrand with `|f''| ≤ ζ` between the first and the last node the
model's list trapezoid on increasing nodes `x 0 ≤ x 1 ≤ … ≤ x n` (repeated nodes allowed) differs from the integral by at
most `Σ hₖ³ ζ / 12`. -/
theorem trapezoid_nonuniform_error_le (f : ℝ → ℝ) (hf : ContDiff ℝ 2 f) (x : ℕ → ℝ) (n : ℕ)
    (hx : ∀ k < n, x k ≤ x (k + 1)) {ζ : ℝ} (hζ : ∀ y ∈ Set.Icc (x 0) (x n), |iteratedDeriv 2 f y| ≤ ζ) :
    |trapezoid ((List.range (n + 1)).map fun k => (x k, f (x k))) - ∫ y in (x 0)..(x n), f y|
      ≤ ∑ k ∈ Finset.range n, (x (k + 1) - x k) ^ 3 * ζ / 12 := by
  have hmono := nodes_mono x n hx
  rw [trapezoid_range x (fun k => f (x k)) n,
    ← intervalIntegral.sum_integral_adjacent_intervals
      (fun k _ => hf.continuous.intervalIntegrable (x k) (x (k + 1))),
    ← Finset.sum_sub_distrib]
  refine (Finset.abs_sum_le_sum_abs _ _).trans (Finset.sum_le_sum fun k hk => ?_)
  have hk' : k < n := Finset.mem_range.mp hk
  refine trapezoid_panel_error_le f hf (hx k hk') fun y hy => hζ y ⟨?_, ?_⟩
  · exact (hmono 0 k (Nat.zero_le _) hk'.le).trans hy.1
  · exact hy.2.trans (hmono (k + 1) n hk' (le_refl _))

/-- … hence at most `δ² (xₙ − x₀) ζ / 12` when no step is longer than `δ` -/
theorem trapezoid_nonuniform_error_le_mesh (f : ℝ → ℝ) (hf : ContDiff ℝ 2 f) (x : ℕ → ℝ) (n : ℕ)
    (hx : ∀ k < n, x k ≤ x (k + 1)) {ζ : ℝ} (hζ : ∀ y ∈ Set.Icc (x 0) (x n), |iteratedDeriv 2 f y| ≤ ζ)
    {δ : ℝ} (hδ : ∀ k < n, x (k + 1) - x k ≤ δ) :
    |trapezoid ((List.range (n + 1)).map fun k => (x k, f (x k))) - ∫ y in (x 0)..(x n), f y|
      ≤ δ ^ 2 * (x n - x 0) * ζ / 12 := by
  refine (trapezoid_nonuniform_error_le f hf x n hx hζ).trans ?_
  have hζ0 : 0 ≤ ζ :=
    (abs_nonneg _).trans (hζ (x 0) ⟨le_refl _, nodes_mono x n hx 0 n (Nat.zero_le _) (le_refl _)⟩)
  have hsum : ∑ k ∈ Finset.range n, (x (k + 1) - x k) = x n - x 0 := Finset.sum_range_sub x n
  have e : δ ^ 2 * (x n - x 0) * ζ / 12
      = ∑ k ∈ Finset.range n, δ ^ 2 * (x (k + 1) - x k) * ζ / 12 := by
    rw [← hsum, Finset.mul_sum, Finset.sum_mul, Finset.sum_div]
  rw [e]
  refine Finset.sum_le_sum fun k hk => ?_
  have hk' : k < n := Finset.mem_range.mp hk
  have h0 : 0 ≤ x (k + 1) - x k := sub_nonneg.mpr (hx k hk')
  have h1 := hδ k hk'
  have h2 : (x (k + 1) - x k) ^ 3 ≤ δ ^ 2 * (x (k + 1) - x k) := by
    have : (x (k + 1) - x k) ^ 2 ≤ δ ^ 2 := pow_le_pow_left₀ h0 h1 2
    calc (x (k + 1) - x k) ^ 3 = (x (k + 1) - x k) ^ 2 * (x (k + 1) - x k) := by ring
      _ ≤ δ ^ 2 * (x (k + 1) - x k) := mul_le_mul_of_nonneg_right this h0
  have h3 := mul_le_mul_of_nonneg_right h2 hζ0
  linarith

/-- non-vacuity: `f y = y²` (`f'' = 2`), the non-uniform nodes `x k = k²/4`, `k = 0..3` (steps 1/4, 3/4, 5/4) -/
example :
    |trapezoid ((List.range (3 + 1)).map fun k : ℕ => (((k : ℝ) ^ 2 / 4), (((k : ℝ) ^ 2 / 4)) ^ 2))
        - ∫ y in (((0 : ℕ) : ℝ) ^ 2 / 4)..(((3 : ℕ) : ℝ) ^ 2 / 4), y ^ 2|
      ≤ (5 / 4) ^ 2 * ((((3 : ℕ) : ℝ) ^ 2 / 4) - (((0 : ℕ) : ℝ) ^ 2 / 4)) * 2 / 12 := by
  refine trapezoid_nonuniform_error_le_mesh (fun y => y ^ 2) (contDiff_id.pow 2)
    (fun k : ℕ => (k : ℝ) ^ 2 / 4) 3 ?_ (ζ := 2) ?_ (δ := 5 / 4) ?_
  · intro k _; push_cast; nlinarith [(Nat.cast_nonneg k : (0 : ℝ) ≤ k)]
  · intro y _
    have : iteratedDeriv 2 (fun y : ℝ => y ^ 2) y = 2 := by
      rw [iteratedDeriv_succ, iteratedDeriv_one]
      have : deriv (fun y : ℝ => y ^ 2) = fun y => 2 * y := by
        funext z; simp
      rw [this]; simp
    rw [this]; norm_num
  · intro k hk
    interval_cases k <;> norm_num

end PylifeVerif.TrapezoidLemmas
