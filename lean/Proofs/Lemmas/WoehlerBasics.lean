/-
Foundation lemmas for C18 (Wöhler analysis): the list arithmetic, max/min, sort and the OLS closed form of
`Model/WoehlerAnalysis.lean`, specialised to ℝ.
-/
import Model.WoehlerAnalysis
import Proofs.RealNum
import Mathlib.Data.List.Sort
import Mathlib.Data.List.Perm.Basic
import Mathlib.Algebra.BigOperators.Group.List.Basic
import Mathlib.Algebra.BigOperators.Ring.List
import Mathlib.Tactic.Linarith
import Mathlib.Tactic.NormNum
import Mathlib.Tactic.Ring
import Mathlib.Tactic.FieldSimp

namespace PylifeVerif.WoehlerBasics

open PylifeVerif.WoehlerAnalysis

/-! ### literals -/
theorem lit_0 : (0.0 : ℝ) = 0 := by norm_num
theorem lit_1 : (1.0 : ℝ) = 1 := by norm_num
theorem lit_2 : (2.0 : ℝ) = 2 := by norm_num
theorem lit_3 : (3.0 : ℝ) = 3 := by norm_num

/-! ### list arithmetic -/

theorem sum_eq (l : List ℝ) : sum l = l.sum := by
  induction l with
  | nil => simp only [sum, lit_0, List.sum_nil]
  | cons x xs ih => simp only [sum, ih, List.sum_cons]

theorem lenα_eq {β : Type} (l : List β) : (lenα l : ℝ) = l.length := by
  induction l with
  | nil => simp only [lenα, lit_0, List.length_nil, Nat.cast_zero]
  | cons x xs ih => simp only [lenα, ih, lit_1, List.length_cons, Nat.cast_add, Nat.cast_one]

theorem mean_eq (l : List ℝ) : mean l = l.sum / l.length := by
  simp only [mean, sum_eq, lenα_eq]

theorem sum_perm {l₁ l₂ : List ℝ} (h : l₁.Perm l₂) : sum l₁ = sum l₂ := by
  simp only [sum_eq]; exact h.sum_eq

theorem mean_perm {l₁ l₂ : List ℝ} (h : l₁.Perm l₂) : mean l₁ = mean l₂ := by
  simp only [mean_eq, h.sum_eq, h.length_eq]

/-- sum of a constant -/
theorem sum_map_const' {β : Type} (l : List β) (a : ℝ) : (l.map fun _ => a).sum = l.length * a := by
  induction l with
  | nil => simp
  | cons x xs ih => simp only [List.map_cons, List.sum_cons, ih, List.length_cons, Nat.cast_add, Nat.cast_one]; ring

theorem sum_map_add' {β : Type} (l : List β) (f g : β → ℝ) :
    (l.map fun p => f p + g p).sum = (l.map f).sum + (l.map g).sum := by
  induction l with
  | nil => simp
  | cons x xs ih => simp only [List.map_cons, List.sum_cons, ih]; ring

theorem sum_map_sub' {β : Type} (l : List β) (f g : β → ℝ) :
    (l.map fun p => f p - g p).sum = (l.map f).sum - (l.map g).sum := by
  induction l with
  | nil => simp
  | cons x xs ih => simp only [List.map_cons, List.sum_cons, ih]; ring

theorem sum_map_mul_left' {β : Type} (l : List β) (c : ℝ) (f : β → ℝ) :
    (l.map fun p => c * f p).sum = c * (l.map f).sum := by
  induction l with
  | nil => simp
  | cons x xs ih => simp only [List.map_cons, List.sum_cons, ih]; ring

theorem length_cast_ne_zero {β : Type} {l : List β} (h : l ≠ []) : ((l.length : ℕ) : ℝ) ≠ 0 := by
  have : l.length ≠ 0 := fun h0 => h (List.length_eq_zero_iff.mp h0)
  exact_mod_cast this

theorem mean_map_add (l : List ℝ) (hl : l ≠ []) (a : ℝ) : mean (l.map (· + a)) = mean l + a := by
  have hn := length_cast_ne_zero hl
  have h1 : (l.map (· + a)).sum = l.sum + l.length * a := by
    have := sum_map_add' l (fun x => x) (fun _ => a)
    simpa only [List.map_id', sum_map_const'] using this
  simp only [mean_eq, h1, List.length_map]
  field_simp

theorem mean_map_mul (l : List ℝ) (c : ℝ) : mean (l.map (c * ·)) = c * mean l := by
  have h1 : (l.map (c * ·)).sum = c * l.sum := by
    have := sum_map_mul_left' l c (fun x => x)
    simpa only [List.map_id'] using this
  simp only [mean_eq, h1, List.length_map, mul_div_assoc]

/-! ### max / min -/

theorem maxOf_mem (x : ℝ) (xs : List ℝ) : maxOf x xs ∈ x :: xs := by
  induction xs generalizing x with
  | nil => simp [maxOf]
  | cons y ys ih =>
    simp only [maxOf]
    have := ih (if x < y then y else x)
    split_ifs at this ⊢ with h
    · exact List.mem_cons_of_mem _ this
    · rcases List.mem_cons.mp this with h1 | h1
      · rw [h1]; exact List.mem_cons_self
      · exact List.mem_cons_of_mem _ (List.mem_cons_of_mem _ h1)

theorem le_maxOf (x : ℝ) (xs : List ℝ) : ∀ y ∈ x :: xs, y ≤ maxOf x xs := by
  induction xs generalizing x with
  | nil => intro y hy; simp only [List.mem_singleton] at hy; simp [maxOf, hy]
  | cons z zs ih =>
    intro y hy
    simp only [maxOf]
    have ih' := ih (if x < z then z else x)
    have hm : (if x < z then z else x) ≤ maxOf (if x < z then z else x) zs := ih' _ List.mem_cons_self
    rcases List.mem_cons.mp hy with h1 | h1
    · subst h1
      refine le_trans ?_ hm
      split_ifs with h
      · exact h.le
      · exact le_rfl
    · rcases List.mem_cons.mp h1 with h2 | h2
      · subst h2
        refine le_trans ?_ hm
        split_ifs with h
        · exact le_rfl
        · exact not_lt.mp h
      · exact ih' y (List.mem_cons_of_mem _ h2)

theorem minOf_mem (x : ℝ) (xs : List ℝ) : minOf x xs ∈ x :: xs := by
  induction xs generalizing x with
  | nil => simp [minOf]
  | cons y ys ih =>
    simp only [minOf]
    have := ih (if y < x then y else x)
    split_ifs at this ⊢ with h
    · exact List.mem_cons_of_mem _ this
    · rcases List.mem_cons.mp this with h1 | h1
      · rw [h1]; exact List.mem_cons_self
      · exact List.mem_cons_of_mem _ (List.mem_cons_of_mem _ h1)

theorem minOf_le (x : ℝ) (xs : List ℝ) : ∀ y ∈ x :: xs, minOf x xs ≤ y := by
  induction xs generalizing x with
  | nil => intro y hy; simp only [List.mem_singleton] at hy; simp [minOf, hy]
  | cons z zs ih =>
    intro y hy
    simp only [minOf]
    have ih' := ih (if z < x then z else x)
    have hm : minOf (if z < x then z else x) zs ≤ (if z < x then z else x) := ih' _ List.mem_cons_self
    rcases List.mem_cons.mp hy with h1 | h1
    · subst h1
      refine le_trans hm ?_
      split_ifs with h
      · exact h.le
      · exact le_rfl
    · rcases List.mem_cons.mp h1 with h2 | h2
      · subst h2
        refine le_trans hm ?_
        split_ifs with h
        · exact le_rfl
        · exact not_lt.mp h
      · exact ih' y (List.mem_cons_of_mem _ h2)

theorem maxOf_perm {x y : ℝ} {xs ys : List ℝ} (h : (x :: xs).Perm (y :: ys)) : maxOf x xs = maxOf y ys :=
  le_antisymm (le_maxOf y ys _ (h.subset (maxOf_mem x xs))) (le_maxOf x xs _ (h.symm.subset (maxOf_mem y ys)))

theorem minOf_perm {x y : ℝ} {xs ys : List ℝ} (h : (x :: xs).Perm (y :: ys)) : minOf x xs = minOf y ys :=
  le_antisymm (minOf_le x xs _ (h.symm.subset (minOf_mem y ys))) (minOf_le y ys _ (h.subset (minOf_mem x xs)))

theorem maxOf_map_mul {c : ℝ} (hc : 0 < c) (x : ℝ) (xs : List ℝ) :
    maxOf (c * x) (xs.map (c * ·)) = c * maxOf x xs := by
  induction xs generalizing x with
  | nil => simp [maxOf]
  | cons y ys ih =>
    simp only [List.map_cons, maxOf]
    rw [← ih]
    congr 1
    by_cases h : x < y
    · rw [if_pos h, if_pos (mul_lt_mul_of_pos_left h hc)]
    · rw [if_neg h, if_neg (fun h' => h (lt_of_mul_lt_mul_left h' hc.le))]

theorem minOf_map_mul {c : ℝ} (hc : 0 < c) (x : ℝ) (xs : List ℝ) :
    minOf (c * x) (xs.map (c * ·)) = c * minOf x xs := by
  induction xs generalizing x with
  | nil => simp [minOf]
  | cons y ys ih =>
    simp only [List.map_cons, minOf]
    rw [← ih]
    congr 1
    by_cases h : y < x
    · rw [if_pos h, if_pos (mul_lt_mul_of_pos_left h hc)]
    · rw [if_neg h, if_neg (fun h' => h (lt_of_mul_lt_mul_left h' hc.le))]

theorem maxOf_map_add (a : ℝ) (x : ℝ) (xs : List ℝ) :
    maxOf (x + a) (xs.map (· + a)) = maxOf x xs + a := by
  induction xs generalizing x with
  | nil => simp [maxOf]
  | cons y ys ih =>
    simp only [List.map_cons, maxOf]
    rw [← ih]
    congr 1
    by_cases h : x < y
    · rw [if_pos h, if_pos (by linarith)]
    · rw [if_neg h, if_neg (by intro h'; exact h (by linarith))]

theorem minOf_map_add (a : ℝ) (x : ℝ) (xs : List ℝ) :
    minOf (x + a) (xs.map (· + a)) = minOf x xs + a := by
  induction xs generalizing x with
  | nil => simp [minOf]
  | cons y ys ih =>
    simp only [List.map_cons, minOf]
    rw [← ih]
    congr 1
    by_cases h : y < x
    · rw [if_pos h, if_pos (by linarith)]
    · rw [if_neg h, if_neg (by intro h'; exact h (by linarith))]

theorem eqα_iff (a b : ℝ) : eqα a b = true ↔ a = b := by
  simp only [eqα, Bool.and_eq_true, decide_eq_true_eq]
  exact ⟨fun h => le_antisymm h.1 h.2, fun h => ⟨h.le, h.ge⟩⟩

/-! ### sort -/

theorem insertSorted_eq (a : ℝ) (l : List ℝ) : insertSorted a l = l.orderedInsert (· ≤ ·) a := by
  induction l with
  | nil => rfl
  | cons b bs ih => simp only [insertSorted, List.orderedInsert_cons, ih]

theorem sort_eq_insertionSort (l : List ℝ) : sort l = l.insertionSort (· ≤ ·) := by
  induction l with
  | nil => rfl
  | cons a as ih => simp only [sort, List.insertionSort_cons, ih, insertSorted_eq]

theorem sort_perm (l : List ℝ) : (sort l).Perm l := by
  rw [sort_eq_insertionSort]; exact List.perm_insertionSort _ l

theorem sort_length (l : List ℝ) : (sort l).length = l.length := (sort_perm l).length_eq

theorem sort_pairwise (l : List ℝ) : (sort l).Pairwise (· ≤ ·) := by
  rw [sort_eq_insertionSort]; exact List.pairwise_insertionSort _ l

theorem sort_perm_eq {l₁ l₂ : List ℝ} (h : l₁.Perm l₂) : sort l₁ = sort l₂ :=
  List.Perm.eq_of_pairwise' (r := (· ≤ ·)) (sort_pairwise l₁) (sort_pairwise l₂)
    ((sort_perm l₁).trans (h.trans (sort_perm l₂).symm))

/-- a sorted list is a fixed point of `sort` -/
theorem sort_eq_self_of_pairwise {l : List ℝ} (h : l.Pairwise (· ≤ ·)) : sort l = l :=
  List.Perm.eq_of_pairwise' (r := (· ≤ ·)) (sort_pairwise l) h (sort_perm l)

/-- `sort` is characterised by: a sorted permutation -/
theorem eq_sort_of_perm_of_pairwise {l s : List ℝ} (hp : s.Perm l) (hs : s.Pairwise (· ≤ ·)) : s = sort l :=
  List.Perm.eq_of_pairwise' (r := (· ≤ ·)) hs (sort_pairwise l) (hp.trans (sort_perm l).symm)

theorem mem_sort {l : List ℝ} {x : ℝ} : x ∈ sort l ↔ x ∈ l := (sort_perm l).mem_iff

theorem sort_map_mul {c : ℝ} (hc : 0 < c) (l : List ℝ) : sort (l.map (c * ·)) = (sort l).map (c * ·) := by
  symm
  apply eq_sort_of_perm_of_pairwise ((sort_perm l).map _)
  exact (sort_pairwise l).map _ (fun a b hab => mul_le_mul_of_nonneg_left hab hc.le)

theorem sort_map_add (a : ℝ) (l : List ℝ) : sort (l.map (· + a)) = (sort l).map (· + a) := by
  symm
  apply eq_sort_of_perm_of_pairwise ((sort_perm l).map _)
  exact (sort_pairwise l).map _ (fun x y hxy => by linarith)

/-- any monotone map commutes with `sort` -/
theorem sort_map_mono {f : ℝ → ℝ} (hf : Monotone f) (l : List ℝ) : sort (l.map f) = (sort l).map f := by
  symm
  apply eq_sort_of_perm_of_pairwise ((sort_perm l).map _)
  exact (sort_pairwise l).map _ (fun x y hxy => hf hxy)

/-! ### ordinary least squares -/

/-- the OLS closed form in Mathlib vocabulary -/
theorem ols_eq (pts : List (ℝ × ℝ)) :
    ols pts =
      ((pts.map fun p => (p.1 - mean (pts.map (·.1))) * (p.2 - mean (pts.map (·.2)))).sum /
          (pts.map fun p => (p.1 - mean (pts.map (·.1))) * (p.1 - mean (pts.map (·.1)))).sum,
        mean (pts.map (·.2)) -
          (pts.map fun p => (p.1 - mean (pts.map (·.1))) * (p.2 - mean (pts.map (·.2)))).sum /
            (pts.map fun p => (p.1 - mean (pts.map (·.1))) * (p.1 - mean (pts.map (·.1)))).sum *
          mean (pts.map (·.1))) := by
  simp only [ols, sum_eq]

theorem ols_perm_invariant {p₁ p₂ : List (ℝ × ℝ)} (h : p₁.Perm p₂) : ols p₁ = ols p₂ := by
  have h1 : mean (p₁.map (·.1)) = mean (p₂.map (·.1)) := mean_perm (h.map _)
  have h2 : mean (p₁.map (·.2)) = mean (p₂.map (·.2)) := mean_perm (h.map _)
  simp only [ols_eq, h1, h2, (h.map _).sum_eq]

theorem ols_shift_equivariant (pts : List (ℝ × ℝ)) (h : pts ≠ []) (a b : ℝ) :
    ols (pts.map fun p => (p.1 + a, p.2 + b)) = ((ols pts).1, (ols pts).2 + b - (ols pts).1 * a) := by
  have hx : mean ((pts.map fun p => (p.1 + a, p.2 + b)).map (·.1)) = mean (pts.map (·.1)) + a := by
    rw [← mean_map_add _ (by simpa using h)]; simp only [List.map_map]; rfl
  have hy : mean ((pts.map fun p => (p.1 + a, p.2 + b)).map (·.2)) = mean (pts.map (·.2)) + b := by
    rw [← mean_map_add _ (by simpa using h)]; simp only [List.map_map]; rfl
  rw [ols_eq, ols_eq, hx, hy]
  simp only [List.map_map, Function.comp_def, add_sub_add_right_eq_sub]
  refine Prod.ext rfl ?_
  simp only
  ring

theorem ols_scale_y (pts : List (ℝ × ℝ)) (s : ℝ) :
    ols (pts.map fun p => (p.1, s * p.2)) = (s * (ols pts).1, s * (ols pts).2) := by
  have hx : mean ((pts.map fun p => (p.1, s * p.2)).map (·.1)) = mean (pts.map (·.1)) := by
    simp only [List.map_map]; rfl
  have hy : mean ((pts.map fun p => (p.1, s * p.2)).map (·.2)) = s * mean (pts.map (·.2)) := by
    rw [← mean_map_mul]; simp only [List.map_map]; rfl
  rw [ols_eq, ols_eq, hx, hy]
  simp only [List.map_map, Function.comp_def]
  have hxy : (pts.map fun p : ℝ × ℝ => (p.1 - mean (pts.map (·.1))) * (s * p.2 - s * mean (pts.map (·.2)))).sum
      = s * (pts.map fun p : ℝ × ℝ => (p.1 - mean (pts.map (·.1))) * (p.2 - mean (pts.map (·.2)))).sum := by
    rw [← sum_map_mul_left']
    congr 1; apply List.map_congr_left; intro p _; ring
  rw [hxy]
  refine Prod.ext ?_ ?_ <;> simp only <;> ring

theorem ols_scale_x (pts : List (ℝ × ℝ)) {c : ℝ} (hc : c ≠ 0) :
    ols (pts.map fun p => (c * p.1, p.2)) = ((ols pts).1 / c, (ols pts).2) := by
  have hx : mean ((pts.map fun p => (c * p.1, p.2)).map (·.1)) = c * mean (pts.map (·.1)) := by
    rw [← mean_map_mul]; simp only [List.map_map]; rfl
  have hy : mean ((pts.map fun p => (c * p.1, p.2)).map (·.2)) = mean (pts.map (·.2)) := by
    simp only [List.map_map]; rfl
  rw [ols_eq, ols_eq, hx, hy]
  simp only [List.map_map, Function.comp_def]
  have hxy : (pts.map fun p : ℝ × ℝ => (c * p.1 - c * mean (pts.map (·.1))) * (p.2 - mean (pts.map (·.2)))).sum
      = c * (pts.map fun p : ℝ × ℝ => (p.1 - mean (pts.map (·.1))) * (p.2 - mean (pts.map (·.2)))).sum := by
    rw [← sum_map_mul_left']
    congr 1; apply List.map_congr_left; intro p _; ring
  have hxx : (pts.map fun p : ℝ × ℝ => (c * p.1 - c * mean (pts.map (·.1))) * (c * p.1 - c * mean (pts.map (·.1)))).sum
      = c * (c * (pts.map fun p : ℝ × ℝ => (p.1 - mean (pts.map (·.1))) * (p.1 - mean (pts.map (·.1)))).sum) := by
    rw [← sum_map_mul_left', ← sum_map_mul_left']
    congr 1; apply List.map_congr_left; intro p _; ring
  rw [hxy, hxx, mul_div_mul_left _ _ hc]
  refine Prod.ext ?_ ?_
  · simp only; rw [div_div, mul_comm c]
  · simp only
    rw [show ∀ u v w : ℝ, u / (c * v) * (c * w) = u / v * w from fun u v w => by field_simp]

/-- a sum of squares is nonnegative -/
theorem sum_sq_nonneg {β : Type} (l : List β) (f : β → ℝ) : 0 ≤ (l.map fun p => f p * f p).sum := by
  induction l with
  | nil => simp
  | cons x xs ih => simp only [List.map_cons, List.sum_cons]; nlinarith [mul_self_nonneg (f x)]

/-- a vanishing sum of squares has vanishing terms -/
theorem eq_zero_of_sum_sq_eq_zero {β : Type} (l : List β) (f : β → ℝ) (h : (l.map fun p => f p * f p).sum = 0) :
    ∀ p ∈ l, f p = 0 := by
  induction l with
  | nil => intro p hp; cases hp
  | cons x xs ih =>
    simp only [List.map_cons, List.sum_cons] at h
    have h1 := sum_sq_nonneg xs f
    have h2 := mul_self_nonneg (f x)
    have hx0 : f x * f x = 0 := by linarith
    have hs0 : (xs.map fun p => f p * f p).sum = 0 := by linarith
    intro p hp
    rcases List.mem_cons.mp hp with rfl | hp
    · exact mul_self_eq_zero.mp hx0
    · exact ih hs0 p hp

/-- `Sxx > 0` as soon as two abscissae differ -/
theorem sxx_pos (pts : List (ℝ × ℝ)) (hx : ∃ p ∈ pts, ∃ q ∈ pts, p.1 ≠ q.1) :
    0 < (pts.map fun p => (p.1 - mean (pts.map (·.1))) * (p.1 - mean (pts.map (·.1)))).sum := by
  rcases (sum_sq_nonneg pts fun p => p.1 - mean (pts.map (·.1))).lt_or_eq with h | h
  · exact h
  · exfalso
    obtain ⟨p, hp, q, hq, hpq⟩ := hx
    have h0 := eq_zero_of_sum_sq_eq_zero pts (fun p => p.1 - mean (pts.map (·.1))) h.symm
    have h1 := h0 p hp
    have h2 := h0 q hq
    exact hpq (by linarith)

/-- collinear points with at least two different abscissae: exact recovery -/
theorem ols_collinear (pts : List (ℝ × ℝ)) (a b : ℝ) (hline : ∀ p ∈ pts, p.2 = a + b * p.1)
    (hx : ∃ p ∈ pts, ∃ q ∈ pts, p.1 ≠ q.1) : ols pts = (b, a) := by
  have hne : pts ≠ [] := by
    obtain ⟨p, hp, _⟩ := hx
    exact List.ne_nil_of_mem hp
  have hn := length_cast_ne_zero hne
  have hpos := sxx_pos pts hx
  have hy : mean (pts.map (·.2)) = a + b * mean (pts.map (·.1)) := by
    have e : pts.map (·.2) = (pts.map (·.1)).map (fun x => b * x + a) := by
      rw [List.map_map]; apply List.map_congr_left; intro p hp
      simp only [Function.comp_def, hline p hp]; ring
    rw [e]
    have e2 : (pts.map (·.1)).map (fun x => b * x + a) = ((pts.map (·.1)).map (b * ·)).map (· + a) := by
      simp only [List.map_map, Function.comp_def]
    rw [e2, mean_map_add _ (by simpa using hne), mean_map_mul]; ring
  rw [ols_eq, hy]
  have hxy : (pts.map fun p : ℝ × ℝ => (p.1 - mean (pts.map (·.1))) * (p.2 - (a + b * mean (pts.map (·.1))))).sum
      = b * (pts.map fun p : ℝ × ℝ => (p.1 - mean (pts.map (·.1))) * (p.1 - mean (pts.map (·.1)))).sum := by
    rw [← sum_map_mul_left']
    congr 1; apply List.map_congr_left; intro p hp; rw [hline p hp]; ring
  rw [hxy, mul_div_assoc, div_self hpos.ne']
  refine Prod.ext ?_ ?_ <;> simp only <;> ring

/-- the mean of a constant non-empty list -/
theorem mean_of_const (l : List ℝ) (hl : l ≠ []) (x₀ : ℝ) (h : ∀ x ∈ l, x = x₀) : mean l = x₀ := by
  have hn := length_cast_ne_zero hl
  have e : l = l.map fun _ => x₀ := by
    conv_lhs => rw [← List.map_id l]
    apply List.map_congr_left; intro x hx; simpa using h x hx
  rw [mean_eq, e, sum_map_const', List.length_map]
  field_simp

/-- all abscissae equal: the regression is degenerate (Sxx = 0) -/
theorem ols_sxx_zero_of_const (pts : List (ℝ × ℝ)) (x₀ : ℝ) (h : ∀ p ∈ pts, p.1 = x₀) :
    sum (pts.map fun p => (p.1 - mean (pts.map (·.1))) * (p.1 - mean (pts.map (·.1)))) = 0 := by
  rw [sum_eq]
  by_cases hne : pts = []
  · subst hne; simp
  · have hm : mean (pts.map (·.1)) = x₀ := by
      apply mean_of_const _ (by simpa using hne)
      intro x hx
      obtain ⟨p, hp, rfl⟩ := List.mem_map.mp hx
      exact h p hp
    rw [hm]
    have e : (pts.map fun p : ℝ × ℝ => (p.1 - x₀) * (p.1 - x₀)) = pts.map fun _ => (0 : ℝ) := by
      apply List.map_congr_left; intro p hp; rw [h p hp]; ring
    rw [e, sum_map_const']; ring

/-- with `Sxx = 0` the model's slope is `Sxy / 0 = 0` over ℝ (the code produces `nan`) -/
theorem ols_of_const_x (pts : List (ℝ × ℝ)) (x₀ : ℝ) (h : ∀ p ∈ pts, p.1 = x₀) :
    ols pts = (0, mean (pts.map (·.2))) := by
  have h0 := ols_sxx_zero_of_const pts x₀ h
  rw [sum_eq] at h0
  rw [ols_eq, h0]
  simp

/-- non-vacuity: three collinear points -/
example : ols [((1 : ℝ), (3 : ℝ)), (2, 5), (4, 9)] = (2, 1) :=
  ols_collinear _ 1 2 (by intro p hp; simp at hp; rcases hp with rfl | rfl | rfl <;> norm_num)
    ⟨(1, 3), by simp, (2, 5), by simp, by norm_num⟩

end PylifeVerif.WoehlerBasics
