/-
`Gradient3D.gradient_of` (`gradient3D` of `Model/Mesh.lean`): which nodes appear in the result, second-order
elements (mid-side nodes get exactly 0), the Jacobian hypotheses in terms of the element geometry (triple products
of the edges at the corners), and a two-element mesh on which every hypothesis is discharged.
-/
import Proofs.Lemmas.Mesh
import Proofs.Lemmas.MeshPipeline
import Mathlib.Data.List.Basic
import Mathlib.Data.List.Nodup
import Mathlib.Tactic.NormNum.Basic

namespace PylifeVerif.Mesh

/-! ## first-order elements (moved here from `Proofs/C19.lean`) -/

/-- Hexahedron: for `f = g·x + c` on the eight corners and an invertible Jacobian at the reference point `xi`
(the real code skips the point when `np.linalg.inv` raises), `Σₐ fₐ ∂φₐ/∂x_k = g_k`.  Holds at every `xi`, in
particular at the eight corners `hexXi` where the code evaluates it. -/
theorem hex_gradient_exact (h : Hex ℝ) (g : V3 ℝ) (c : ℝ)
    (hlin : ∀ q ∈ h.corners, q.f = g.dot q.p + c)
    (xi : V3 ℝ) (hdet : det3 (hexJ h xi) ≠ 0) :
    hexGradAt h xi = g := by
  have hz : isZero (det3 (hexJ h xi)) = false := (isZero_false_iff _).2 hdet
  simp only [hexGradAt, hz, Bool.false_eq_true, if_false]
  simp only [Hex.corners, List.mem_cons, List.not_mem_nil, or_false, forall_eq_or_imp, forall_eq] at hlin
  obtain ⟨h1, h2, h3, h4, h5, h6, h7, h8⟩ := hlin
  apply gradVec_eq_of_row _ _ _ _ hdet <;>
    simp [Hex.corners, List.range, List.range.loop, hexDphi, hexJ, hexJ1, hexJ2, hexJ3, phi, dphi, hexAx, hexAy, hexAz,
      h1, h2, h3, h4, h5, h6, h7, h8, V3.dot] <;> ring

/-- All eight nodal gradients of a hexahedral element equal `g`. -/
theorem hex_gradient_exact_all (h : Hex ℝ) (g : V3 ℝ) (c : ℝ)
    (hlin : ∀ q ∈ h.corners, q.f = g.dot q.p + c)
    (hdet : ∀ xi ∈ (hexXi : List (V3 ℝ)), det3 (hexJ h xi) ≠ 0) :
    ∀ v ∈ hexGrad h, v = g := by
  intro v hv
  simp only [hexGrad, List.mem_map] at hv
  obtain ⟨xi, hxi, rfl⟩ := hv
  exact hex_gradient_exact h g c hlin xi (hdet xi hxi)

/-- Tetrahedron: for `f = g·x + c` on the four corners and an invertible Jacobian the (constant) element
gradient is `g`. -/
theorem simplex_gradient_exact (t : Tet ℝ) (g : V3 ℝ) (c : ℝ)
    (hlin : ∀ q ∈ t.corners, q.f = g.dot q.p + c)
    (hdet : det3 (tetJ t) ≠ 0) :
    tetGradAt t = g := by
  have hz : isZero (det3 (tetJ t)) = false := (isZero_false_iff _).2 hdet
  simp only [tetGradAt, hz, Bool.false_eq_true, if_false]
  simp only [Tet.corners, List.mem_cons, List.not_mem_nil, or_false, forall_eq_or_imp, forall_eq] at hlin
  obtain ⟨h1, h2, h3, h4⟩ := hlin
  apply gradVec_eq_of_row _ _ _ _ hdet <;>
    simp [Tet.corners, List.range, List.range.loop, tetDphi, tetJ, h1, h2, h3, h4, V3.dot] <;> ring

/-- One element group (8 rows: hexahedron, 4 rows: tetrahedron) of a linear field: every row gets `g`. -/
theorem elemGrad_exact (grp : List (MRow ℝ)) (g : V3 ℝ) (c : ℝ)
    (hlin : ∀ r ∈ grp, r.v = g.dot r.p + c)
    (hshape : grp.length = 8 ∨ grp.length = 4)
    (hhex : grp.length = 8 → ∀ xi ∈ (hexXi : List (V3 ℝ)), det3 (hexJ (hexOfGroup grp) xi) ≠ 0)
    (htet : grp.length = 4 → det3 (tetJ (tetOfGroup grp)) ≠ 0) :
    ∀ e ∈ elemGrad grp, e.2 = some g := by
  have hcorner : ∀ i, i < grp.length → (grp.getD i ⟨0, 0, default, 0.0⟩).corner.f
      = g.dot (grp.getD i ⟨0, 0, default, 0.0⟩).corner.p + c := by
    intro i hi
    exact hlin _ (getD_mem grp _ i hi)
  intro e he
  rcases hshape with h8 | h4
  · have hall := hex_gradient_exact_all (hexOfGroup grp) g c (by
      intro q hq
      simp only [hexOfGroup, Hex.corners, List.mem_cons, List.not_mem_nil, or_false] at hq
      rcases hq with rfl | rfl | rfl | rfl | rfl | rfl | rfl | rfl <;> exact hcorner _ (by omega)) (hhex h8)
    simp only [elemGrad, h8] at he
    simp only [BEq.rfl, Bool.true_or, if_true, List.mem_map, List.mem_range] at he
    obtain ⟨i, hi, rfl⟩ := he
    simp only [Option.some.injEq]
    apply hall
    exact getD_mem _ _ i (by simpa [hexGrad, hexXi] using hi)
  · have ht := simplex_gradient_exact (tetOfGroup grp) g c (by
      intro q hq
      simp only [tetOfGroup, Tet.corners, List.mem_cons, List.not_mem_nil, or_false] at hq
      rcases hq with rfl | rfl | rfl | rfl <;> exact hcorner _ (by omega)) (htet h4)
    simp only [elemGrad, h4] at he
    simp only [show ((4 : Nat) == 8) = false from rfl, show ((4 : Nat) == 16) = false from rfl,
      show ((4 : Nat) == 20) = false from rfl, Bool.or_self, Bool.false_eq_true, if_false, BEq.rfl, Bool.true_or,
      if_true, List.mem_map, List.mem_range] at he
    obtain ⟨i, hi, rfl⟩ := he
    simp only [Option.some.injEq]
    have hx : ∀ v ∈ tetGrad (tetOfGroup grp), v = g := by
      intro v hv
      simp only [tetGrad, List.mem_cons, List.not_mem_nil, or_false, or_self] at hv
      rw [hv]; exact ht
    exact hx _ (getD_mem (tetGrad (tetOfGroup grp)) V3.zero i (by simpa [tetGrad] using hi))

/-- **`Gradient3D.gradient_of` is exact on linear fields for every node / element numbering and row order**
(that keeps each element's local node order): if every element has 8 or 4 rows, the field is `g·x + c` on
every row and the Jacobians the code inverts are invertible, every row of the result carries `g`.
(Which rows the result has: `gradient3D_nodes` below.) -/
theorem gradient3D_exact (rows : List (MRow ℝ)) (g : V3 ℝ) (c : ℝ)
    (hlin : ∀ r ∈ rows, r.v = g.dot r.p + c)
    (hshape : ∀ grp ∈ elemGroups rows, grp.length = 8 ∨ grp.length = 4)
    (hhex : ∀ grp ∈ elemGroups rows, grp.length = 8 → ∀ xi ∈ (hexXi : List (V3 ℝ)), det3 (hexJ (hexOfGroup grp) xi) ≠ 0)
    (htet : ∀ grp ∈ elemGroups rows, grp.length = 4 → det3 (tetJ (tetOfGroup grp)) ≠ 0) :
    ∀ e ∈ gradient3D rows, e.2 = some g := by
  intro e he
  have he' := mem_dedupFirst _ _ _ he
  rw [List.mem_flatMap] at he'
  obtain ⟨grp, hgrp, hmem⟩ := he'
  exact elemGrad_exact grp g c (fun r hr => hlin r (mem_elemGroups_sub rows grp hgrp r hr))
    (hshape grp hgrp) (hhex grp hgrp) (htet grp hgrp) e hmem

/-! ## 1. which nodes appear -/

/-- `dedupFirst`: a key survives iff it occurs and was not seen before. -/
theorem mem_keys_dedupFirst {β : Type} (l : List (Int × β)) (seen : List Int) (k : Int) :
    k ∈ (dedupFirst l seen).map (·.1) ↔ k ∈ l.map (·.1) ∧ k ∉ seen := by
  induction l generalizing seen with
  | nil => simp [dedupFirst]
  | cons a l ih =>
    obtain ⟨k', b⟩ := a
    unfold dedupFirst
    split_ifs with hs
    · have hs' : k' ∈ seen := by simpa using hs
      rw [ih]
      simp only [List.map_cons, List.mem_cons]
      constructor
      · rintro ⟨h1, h2⟩; exact ⟨Or.inr h1, h2⟩
      · rintro ⟨h1 | h1, h2⟩
        · subst h1; exact absurd hs' h2
        · exact ⟨h1, h2⟩
    · have hs' : k' ∉ seen := by simpa using hs
      simp only [List.map_cons, List.mem_cons, ih]
      constructor
      · rintro (h | ⟨h1, h2⟩)
        · subst h; exact ⟨Or.inl rfl, hs'⟩
        · exact ⟨Or.inr h1, fun h => h2 (Or.inr h)⟩
      · rintro ⟨h1 | h1, h2⟩
        · exact Or.inl h1
        · by_cases hk : k = k'
          · exact Or.inl hk
          · exact Or.inr ⟨h1, fun h => h.elim hk h2⟩

/-- `dedupFirst`: every key occurs once. -/
theorem nodup_keys_dedupFirst {β : Type} (l : List (Int × β)) (seen : List Int) :
    ((dedupFirst l seen).map (·.1)).Nodup := by
  induction l generalizing seen with
  | nil => simp [dedupFirst]
  | cons a l ih =>
    obtain ⟨k', b⟩ := a
    unfold dedupFirst
    split_ifs with hs
    · exact ih _
    · simp only [List.map_cons, List.nodup_cons]
      refine ⟨?_, ih _⟩
      rw [mem_keys_dedupFirst]
      simp

/-- `dedupFirst` changes nothing when every key is new. -/
theorem dedupFirst_eq_self {β : Type} (l : List (Int × β)) (seen : List Int)
    (hnd : (l.map (·.1)).Nodup) (hdis : ∀ k ∈ l.map (·.1), k ∉ seen) : dedupFirst l seen = l := by
  induction l generalizing seen with
  | nil => simp [dedupFirst]
  | cons a l ih =>
    obtain ⟨k', b⟩ := a
    simp only [List.map_cons, List.nodup_cons] at hnd
    have hk : k' ∉ seen := hdis k' (by simp)
    unfold dedupFirst
    have hc : seen.contains k' = false := by simpa using hk
    simp only [hc, Bool.false_eq_true, if_false]
    rw [ih _ hnd.2]
    intro k hkl hks
    rcases List.mem_cons.1 hks with rfl | hks
    · exact hnd.1 hkl
    · exact hdis k (by simp only [List.map_cons, List.mem_cons]; exact Or.inr hkl) hks

theorem map_range_getD {β γ : Type} (l : List β) (d : β) (f : β → γ) :
    (List.range l.length).map (fun i => f (l.getD i d)) = l.map f := by
  apply List.ext_getElem
  · simp
  · intro i h1 h2
    have hi : i < l.length := by simpa using h2
    simp [List.getD_eq_getElem?_getD, List.getElem?_eq_getElem hi]

/-- `_compute_gradient` returns one row per row of the element group, with that row's node id, in every branch. -/
theorem elemGrad_keys (grp : List (MRow ℝ)) : (elemGrad grp).map (·.1) = grp.map (·.node) := by
  unfold elemGrad
  simp only
  split_ifs
  · rw [List.map_map]; exact map_range_getD grp _ (·.node)
  · rw [List.map_map]; exact map_range_getD grp _ (·.node)
  · rw [List.map_map]; rfl

/-- **The result of `Gradient3D.gradient_of` has exactly one row per node id of the mesh.** -/
theorem gradient3D_nodes (rows : List (MRow ℝ)) :
    ((gradient3D rows).map (·.1)).Nodup ∧
      ∀ id : Int, id ∈ (gradient3D rows).map (·.1) ↔ id ∈ rows.map (·.node) := by
  refine ⟨nodup_keys_dedupFirst _ _, fun id => ?_⟩
  unfold gradient3D
  rw [mem_keys_dedupFirst]
  simp only [List.not_mem_nil, not_false_eq_true, and_true, List.map_flatMap, List.mem_flatMap, elemGrad_keys]
  constructor
  · rintro ⟨grp, hgrp, hid⟩
    obtain ⟨r, hr, rfl⟩ := List.mem_map.1 hid
    exact List.mem_map.2 ⟨r, mem_elemGroups_sub rows grp hgrp r hr, rfl⟩
  · intro hid
    obtain ⟨r, hr, rfl⟩ := List.mem_map.1 hid
    refine ⟨rows.filter (·.elem == r.elem), ?_, ?_⟩
    · simp only [elemGroups, List.mem_map]
      exact ⟨r.elem, (mem_sortedUnique _ _).2 (List.mem_map.2 ⟨r, hr, rfl⟩), rfl⟩
    · exact List.mem_map.2 ⟨r, List.mem_filter.2 ⟨hr, by simp⟩, rfl⟩

/-! ## 2. second-order elements: mid-side nodes get exactly 0 -/

/-- Number of corner rows `_compute_gradient` reads from an element group with `n` rows. -/
def ncorner (n : Nat) : Nat :=
  if n == 8 || n == 16 || n == 20 then 8 else if n == 4 || n == 10 then 4 else 0

theorem hexGrad_getD (h : Hex ℝ) (g : V3 ℝ) (hall : ∀ v ∈ hexGrad h, v = g) (i : Nat) :
    (hexGrad h).getD i V3.zero = if i < 8 then g else V3.zero := by
  have hlen : (hexGrad h).length = 8 := by simp [hexGrad, hexXi]
  split_ifs with hi
  · exact hall _ (getD_mem _ _ i (by omega))
  · simp [List.getD_eq_getElem?_getD, List.getElem?_eq_none (show (hexGrad h).length ≤ i by omega)]

theorem tetGrad_getD (t : Tet ℝ) (g : V3 ℝ) (hg : tetGradAt t = g) (i : Nat) :
    (tetGrad t).getD i V3.zero = if i < 4 then g else V3.zero := by
  have hlen : (tetGrad t).length = 4 := by simp [tetGrad]
  split_ifs with hi
  · have := getD_mem (tetGrad t) V3.zero i (by omega)
    simp only [tetGrad, List.mem_cons, List.not_mem_nil, or_false, or_self] at this
    rw [← hg]; exact this
  · simp [List.getD_eq_getElem?_getD, List.getElem?_eq_none (show (tetGrad t).length ≤ i by omega)]

theorem elemGrad_hex (grp : List (MRow ℝ)) (h : grp.length = 8 ∨ grp.length = 16 ∨ grp.length = 20) :
    elemGrad grp = (List.range grp.length).map fun i =>
      ((grp.getD i ⟨0, 0, default, 0.0⟩).node, some ((hexGrad (hexOfGroup grp)).getD i V3.zero)) := by
  unfold elemGrad hexOfGroup
  rcases h with h | h | h <;> simp [h]

theorem elemGrad_tet (grp : List (MRow ℝ)) (h : grp.length = 4 ∨ grp.length = 10) :
    elemGrad grp = (List.range grp.length).map fun i =>
      ((grp.getD i ⟨0, 0, default, 0.0⟩).node, some ((tetGrad (tetOfGroup grp)).getD i V3.zero)) := by
  unfold elemGrad tetOfGroup
  rcases h with h | h <;> simp [h]

/-- **One element group with 8/16/20 rows (hexahedron) or 4/10 rows (tetrahedron)** of a field that is `g·x + c`
on the corner rows: the corner rows get `g`, the mid-side rows (rows 8… of a hexahedron, 4… of a tetrahedron) get
exactly `0` — `_compute_gradient` only differentiates the first-order shape functions of the corners. -/
theorem elemGrad_quadratic (grp : List (MRow ℝ)) (g : V3 ℝ) (c : ℝ)
    (hlin : ∀ i, i < ncorner grp.length →
      (grp.getD i ⟨0, 0, default, 0.0⟩).v = g.dot (grp.getD i ⟨0, 0, default, 0.0⟩).p + c)
    (hshape : grp.length = 8 ∨ grp.length = 16 ∨ grp.length = 20 ∨ grp.length = 4 ∨ grp.length = 10)
    (hhex : ncorner grp.length = 8 → ∀ xi ∈ (hexXi : List (V3 ℝ)), det3 (hexJ (hexOfGroup grp) xi) ≠ 0)
    (htet : ncorner grp.length = 4 → det3 (tetJ (tetOfGroup grp)) ≠ 0) :
    elemGrad grp = (List.range grp.length).map fun i =>
      ((grp.getD i ⟨0, 0, default, 0.0⟩).node, some (if i < ncorner grp.length then g else V3.zero)) := by
  rcases (show (grp.length = 8 ∨ grp.length = 16 ∨ grp.length = 20) ∨ (grp.length = 4 ∨ grp.length = 10) by tauto)
    with h | h
  · have hn : ncorner grp.length = 8 := by rcases h with h | h | h <;> simp [ncorner, h]
    rw [hn] at hlin
    have hall := hex_gradient_exact_all (hexOfGroup grp) g c (by
      intro q hq
      simp only [hexOfGroup, Hex.corners, List.mem_cons, List.not_mem_nil, or_false] at hq
      rcases hq with rfl | rfl | rfl | rfl | rfl | rfl | rfl | rfl <;> exact hlin _ (by omega)) (hhex hn)
    rw [elemGrad_hex grp h, hn]
    apply List.map_congr_left
    intro i _
    rw [hexGrad_getD _ g hall]
  · have hn : ncorner grp.length = 4 := by rcases h with h | h <;> simp [ncorner, h]
    rw [hn] at hlin
    have ht := simplex_gradient_exact (tetOfGroup grp) g c (by
      intro q hq
      simp only [tetOfGroup, Tet.corners, List.mem_cons, List.not_mem_nil, or_false] at hq
      rcases hq with rfl | rfl | rfl | rfl <;> exact hlin _ (by omega)) (htet hn)
    rw [elemGrad_tet grp h, hn]
    apply List.map_congr_left
    intro i _
    rw [tetGrad_getD _ g ht]

/-- **The whole pipeline on meshes with first- and second-order elements**: every result row carries `g` (the node
is a corner in the element that reports it) or exactly `0` (it is a mid-side node there). -/
theorem gradient3D_exact_quadratic (rows : List (MRow ℝ)) (g : V3 ℝ) (c : ℝ)
    (hlin : ∀ r ∈ rows, r.v = g.dot r.p + c)
    (hshape : ∀ grp ∈ elemGroups rows,
      grp.length = 8 ∨ grp.length = 16 ∨ grp.length = 20 ∨ grp.length = 4 ∨ grp.length = 10)
    (hhex : ∀ grp ∈ elemGroups rows, ncorner grp.length = 8 →
      ∀ xi ∈ (hexXi : List (V3 ℝ)), det3 (hexJ (hexOfGroup grp) xi) ≠ 0)
    (htet : ∀ grp ∈ elemGroups rows, ncorner grp.length = 4 → det3 (tetJ (tetOfGroup grp)) ≠ 0) :
    ∀ e ∈ gradient3D rows, ∃ grp ∈ elemGroups rows, ∃ i, i < grp.length ∧
      (grp.getD i ⟨0, 0, default, 0.0⟩).node = e.1 ∧
      e.2 = some (if i < ncorner grp.length then g else V3.zero) := by
  intro e he
  have he' := mem_dedupFirst _ _ _ he
  rw [List.mem_flatMap] at he'
  obtain ⟨grp, hgrp, hmem⟩ := he'
  have hnc : ncorner grp.length ≤ grp.length := by
    rcases hshape grp hgrp with h | h | h | h | h <;> simp [ncorner, h]
  rw [elemGrad_quadratic grp g c
    (fun i hi => hlin _ (mem_elemGroups_sub rows grp hgrp _ (getD_mem grp _ i (by omega))))
    (hshape grp hgrp) (hhex grp hgrp) (htet grp hgrp)] at hmem
  obtain ⟨i, hi, rfl⟩ := List.mem_map.1 hmem
  exact ⟨grp, hgrp, i, List.mem_range.1 hi, rfl, rfl⟩

/-! ## 3. the Jacobian hypotheses in terms of the element geometry -/

def V3.cross (a b : V3 ℝ) : V3 ℝ := ⟨a.y * b.z - a.z * b.y, a.z * b.x - a.x * b.z, a.x * b.y - a.y * b.x⟩

/-- `u · (v × w)`: six times the signed volume of the tetrahedron spanned by `u, v, w`. -/
def triple (u v w : V3 ℝ) : ℝ := u.dot (v.cross w)

/-- The determinant of the matrix with columns `u, v, w`. -/
theorem det3_cols (u v w : V3 ℝ) : det3 ⟨u.x, v.x, w.x, u.y, v.y, w.y, u.z, v.z, w.z⟩ = triple u v w := by
  simp only [det3, triple, V3.dot, V3.cross]; ring

/-- Tetrahedron: the determinant the code inverts is the triple product of the three edges at the first corner
(6 × the signed volume). -/
theorem tetJ_det (t : Tet ℝ) :
    det3 (tetJ t) = triple (t.c2.p.sub t.c1.p) (t.c3.p.sub t.c1.p) (t.c4.p.sub t.c1.p) := by
  simp only [det3, tetJ, triple, V3.dot, V3.cross, V3.sub]; ring

/-- The triple products of the three element edges that meet at each of the eight corners of a hexahedron,
oriented along `+ξ₁, +ξ₂, +ξ₃`, in local node order. -/
def hexCornerTriples (h : Hex ℝ) : List ℝ :=
  [triple (h.c2.p.sub h.c1.p) (h.c4.p.sub h.c1.p) (h.c5.p.sub h.c1.p),
   triple (h.c2.p.sub h.c1.p) (h.c3.p.sub h.c2.p) (h.c6.p.sub h.c2.p),
   triple (h.c3.p.sub h.c4.p) (h.c3.p.sub h.c2.p) (h.c7.p.sub h.c3.p),
   triple (h.c3.p.sub h.c4.p) (h.c4.p.sub h.c1.p) (h.c8.p.sub h.c4.p),
   triple (h.c6.p.sub h.c5.p) (h.c8.p.sub h.c5.p) (h.c5.p.sub h.c1.p),
   triple (h.c6.p.sub h.c5.p) (h.c7.p.sub h.c6.p) (h.c6.p.sub h.c2.p),
   triple (h.c7.p.sub h.c8.p) (h.c7.p.sub h.c6.p) (h.c7.p.sub h.c3.p),
   triple (h.c7.p.sub h.c8.p) (h.c8.p.sub h.c5.p) (h.c8.p.sub h.c4.p)]

/-- **At each corner the Jacobian determinant of the trilinear map is the triple product of the three element edges
that meet there.** -/
theorem hexJ_corner_det (h : Hex ℝ) :
    det3 (hexJ h ⟨0, 0, 0⟩) = triple (h.c2.p.sub h.c1.p) (h.c4.p.sub h.c1.p) (h.c5.p.sub h.c1.p) ∧
    det3 (hexJ h ⟨1, 0, 0⟩) = triple (h.c2.p.sub h.c1.p) (h.c3.p.sub h.c2.p) (h.c6.p.sub h.c2.p) ∧
    det3 (hexJ h ⟨1, 1, 0⟩) = triple (h.c3.p.sub h.c4.p) (h.c3.p.sub h.c2.p) (h.c7.p.sub h.c3.p) ∧
    det3 (hexJ h ⟨0, 1, 0⟩) = triple (h.c3.p.sub h.c4.p) (h.c4.p.sub h.c1.p) (h.c8.p.sub h.c4.p) ∧
    det3 (hexJ h ⟨0, 0, 1⟩) = triple (h.c6.p.sub h.c5.p) (h.c8.p.sub h.c5.p) (h.c5.p.sub h.c1.p) ∧
    det3 (hexJ h ⟨1, 0, 1⟩) = triple (h.c6.p.sub h.c5.p) (h.c7.p.sub h.c6.p) (h.c6.p.sub h.c2.p) ∧
    det3 (hexJ h ⟨1, 1, 1⟩) = triple (h.c7.p.sub h.c8.p) (h.c7.p.sub h.c6.p) (h.c7.p.sub h.c3.p) ∧
    det3 (hexJ h ⟨0, 1, 1⟩) = triple (h.c7.p.sub h.c8.p) (h.c8.p.sub h.c5.p) (h.c8.p.sub h.c4.p) := by
  refine ⟨?_, ?_, ?_, ?_, ?_, ?_, ?_, ?_⟩ <;>
    simp only [det3, hexJ, hexJ1, hexJ2, hexJ3, triple, V3.dot, V3.cross, V3.sub, lit_one] <;> ring

/-- The same as a list over the reference corners `hexXi` the code evaluates. -/
theorem hexJ_corner_det_list (h : Hex ℝ) :
    (hexXi : List (V3 ℝ)).map (fun xi => det3 (hexJ h xi)) = hexCornerTriples h := by
  obtain ⟨h1, h2, h3, h4, h5, h6, h7, h8⟩ := hexJ_corner_det h
  simp only [hexXi, lit_zero, lit_one, List.map_cons, List.map_nil, hexCornerTriples, h1, h2, h3, h4, h5, h6, h7, h8]

/-- A hexahedron whose eight corner triple products are non-zero has an invertible Jacobian at every point where
`_compute_gradient_hexahedral` inverts it. -/
theorem hexJ_det_ne_zero_of_triples (h : Hex ℝ) (ht : ∀ t ∈ hexCornerTriples h, t ≠ 0) :
    ∀ xi ∈ (hexXi : List (V3 ℝ)), det3 (hexJ h xi) ≠ 0 := by
  intro xi hxi
  apply ht
  rw [← hexJ_corner_det_list]
  exact List.mem_map.2 ⟨xi, hxi, rfl⟩

/-- The `hhex` hypothesis of `gradient3D_exact` / `gradient3D_exact_quadratic` for one element group from its
geometry. -/
theorem hhex_of_triples (grp : List (MRow ℝ)) (ht : ∀ t ∈ hexCornerTriples (hexOfGroup grp), t ≠ 0) :
    ∀ xi ∈ (hexXi : List (V3 ℝ)), det3 (hexJ (hexOfGroup grp) xi) ≠ 0 :=
  hexJ_det_ne_zero_of_triples _ ht

/-- The `htet` hypothesis from the geometry. -/
theorem htet_of_triple (grp : List (MRow ℝ))
    (ht : triple ((tetOfGroup grp).c2.p.sub (tetOfGroup grp).c1.p) ((tetOfGroup grp).c3.p.sub (tetOfGroup grp).c1.p)
      ((tetOfGroup grp).c4.p.sub (tetOfGroup grp).c1.p) ≠ 0) :
    det3 (tetJ (tetOfGroup grp)) ≠ 0 := by
  rw [tetJ_det]; exact ht

/-! ## a 20-node hexahedron: "gradient = g at every node" is FALSE for second-order elements -/

/-- A mesh of one element in which every node id occurs once: nothing is dropped. -/
theorem gradient3D_single (rows : List (MRow ℝ)) (h1 : elemGroups rows = [rows]) (hnd : (rows.map (·.node)).Nodup) :
    gradient3D rows = elemGrad rows := by
  unfold gradient3D
  rw [h1]
  simp only [List.flatMap_cons, List.flatMap_nil, List.append_nil]
  apply dedupFirst_eq_self
  · rw [elemGrad_keys]; exact hnd
  · simp

/-- The unit cube as a 20-node hexahedron (corners 1..8, edge mid-points 9..20), `v = 2x + 3y − z + 1`. -/
noncomputable def q20 : List (MRow ℝ) :=
  [⟨1, 1, ⟨0, 0, 0⟩, 1⟩,
   ⟨2, 1, ⟨1, 0, 0⟩, 3⟩,
   ⟨3, 1, ⟨1, 1, 0⟩, 6⟩,
   ⟨4, 1, ⟨0, 1, 0⟩, 4⟩,
   ⟨5, 1, ⟨0, 0, 1⟩, 0⟩,
   ⟨6, 1, ⟨1, 0, 1⟩, 2⟩,
   ⟨7, 1, ⟨1, 1, 1⟩, 5⟩,
   ⟨8, 1, ⟨0, 1, 1⟩, 3⟩,
   ⟨9, 1, ⟨(1/2), 0, 0⟩, 2⟩,
   ⟨10, 1, ⟨1, (1/2), 0⟩, (9/2)⟩,
   ⟨11, 1, ⟨(1/2), 1, 0⟩, 5⟩,
   ⟨12, 1, ⟨0, (1/2), 0⟩, (5/2)⟩,
   ⟨13, 1, ⟨(1/2), 0, 1⟩, 1⟩,
   ⟨14, 1, ⟨1, (1/2), 1⟩, (7/2)⟩,
   ⟨15, 1, ⟨(1/2), 1, 1⟩, 4⟩,
   ⟨16, 1, ⟨0, (1/2), 1⟩, (3/2)⟩,
   ⟨17, 1, ⟨0, 0, (1/2)⟩, (1/2)⟩,
   ⟨18, 1, ⟨1, 0, (1/2)⟩, (5/2)⟩,
   ⟨19, 1, ⟨1, 1, (1/2)⟩, (11/2)⟩,
   ⟨20, 1, ⟨0, 1, (1/2)⟩, (7/2)⟩]

theorem q20_linear : ∀ r ∈ q20, r.v = (⟨2, 3, -1⟩ : V3 ℝ).dot r.p + 1 := by
  intro r hr
  simp only [q20, List.mem_cons, List.not_mem_nil, or_false] at hr
  rcases hr with rfl | rfl | rfl | rfl | rfl | rfl | rfl | rfl | rfl | rfl | rfl | rfl | rfl | rfl | rfl | rfl | rfl
    | rfl | rfl | rfl <;> norm_num [V3.dot]

theorem q20_groups : elemGroups q20 = [q20] := by
  rfl

theorem q20_nodes : q20.map (·.node) = [1, 2, 3, 4, 5, 6, 7, 8, 9, 10, 11, 12, 13, 14, 15, 16, 17, 18, 19, 20] := by
  rfl

theorem q20_hex : hexOfGroup q20 = ⟨⟨⟨0, 0, 0⟩, 1⟩, ⟨⟨1, 0, 0⟩, 3⟩, ⟨⟨1, 1, 0⟩, 6⟩, ⟨⟨0, 1, 0⟩, 4⟩,
    ⟨⟨0, 0, 1⟩, 0⟩, ⟨⟨1, 0, 1⟩, 2⟩, ⟨⟨1, 1, 1⟩, 5⟩, ⟨⟨0, 1, 1⟩, 3⟩⟩ := by
  rfl

theorem q20_hhex : ∀ xi ∈ (hexXi : List (V3 ℝ)), det3 (hexJ (hexOfGroup q20) xi) ≠ 0 := by
  apply hhex_of_triples
  rw [q20_hex]
  intro t ht
  simp only [hexCornerTriples, List.mem_cons, List.not_mem_nil, or_false] at ht
  rcases ht with rfl | rfl | rfl | rfl | rfl | rfl | rfl | rfl <;> norm_num [triple, V3.dot, V3.cross, V3.sub]

/-- The result on the 20-node unit cube with `f = 2x + 3y − z + 1`: `(2,3,−1)` at the 8 corners, `0` at the 12
mid-side nodes. -/
theorem gradient3D_q20 : gradient3D q20 = (List.range 20).map fun i =>
    ((q20.getD i ⟨0, 0, default, 0.0⟩).node, some (if i < 8 then (⟨2, 3, -1⟩ : V3 ℝ) else V3.zero)) := by
  rw [gradient3D_single q20 q20_groups (by rw [q20_nodes]; decide)]
  have h := elemGrad_quadratic q20 ⟨2, 3, -1⟩ 1
    (fun i hi => q20_linear _ (getD_mem q20 _ i (by
      have : ncorner q20.length = 8 := rfl
      have : q20.length = 20 := rfl
      omega)))
    (by right; right; left; rfl) (fun _ => q20_hhex) (fun h => by
      have : ncorner q20.length = 8 := rfl
      omega)
  exact h

/-- **Kernel-checked refutation of "the gradient of a linear field is `g` at every node" for second-order
elements**: on the 20-node unit cube with `f = 2x + 3y − z + 1` the mid-side node 9 gets the gradient `0`, while
corner node 1 gets `(2, 3, −1)`. -/
theorem gradient3D_midside_zero_witness :
    (9, some V3.zero) ∈ gradient3D q20 ∧ (1, some (⟨2, 3, -1⟩ : V3 ℝ)) ∈ gradient3D q20 ∧
      ¬ ∀ e ∈ gradient3D q20, e.2 = some (⟨2, 3, -1⟩ : V3 ℝ) := by
  have h9 : (9, some V3.zero) ∈ gradient3D q20 := by
    rw [gradient3D_q20]
    exact List.mem_map.2 ⟨8, by simp, rfl⟩
  refine ⟨h9, ?_, ?_⟩
  · rw [gradient3D_q20]
    exact List.mem_map.2 ⟨0, by simp, rfl⟩
  · intro hall
    have := hall _ h9
    simp only [Option.some.injEq, V3.zero, V3.mk.injEq, lit_zero] at this
    norm_num at this

/-! ## 4. non-vacuity on a mesh: two distorted hexahedra sharing a face -/

/-- Two hexahedra (element ids 40 and 5) sharing the face with node ids 20, 3, 31, 2; twelve nodes with
non-contiguous, unordered ids; the rows of the two elements interleaved; non-cube coordinates;
`v = 2x + 3y − z + 1`. -/
noncomputable def mesh2 : List (MRow ℝ) :=
  [⟨7, 40, ⟨0, 0, 0⟩, 1⟩,
   ⟨20, 5, ⟨1, 0, (1/10)⟩, (29/10)⟩,
   ⟨20, 40, ⟨1, 0, (1/10)⟩, (29/10)⟩,
   ⟨44, 5, ⟨2, (1/10), 0⟩, (53/10)⟩,
   ⟨3, 40, ⟨(11/10), 1, 0⟩, (31/5)⟩,
   ⟨6, 5, ⟨(21/10), 1, (1/10)⟩, (81/10)⟩,
   ⟨11, 40, ⟨0, (9/10), 0⟩, (37/10)⟩,
   ⟨3, 5, ⟨(11/10), 1, 0⟩, (31/5)⟩,
   ⟨15, 40, ⟨0, (1/10), 1⟩, (3/10)⟩,
   ⟨2, 5, ⟨1, 0, (11/10)⟩, (19/10)⟩,
   ⟨2, 40, ⟨1, 0, (11/10)⟩, (19/10)⟩,
   ⟨17, 5, ⟨2, 0, 1⟩, 4⟩,
   ⟨31, 40, ⟨1, 1, 1⟩, 5⟩,
   ⟨28, 5, ⟨(19/10), (11/10), 1⟩, (71/10)⟩,
   ⟨9, 40, ⟨(-1/10), 1, (6/5)⟩, (13/5)⟩,
   ⟨31, 5, ⟨1, 1, 1⟩, 5⟩]

noncomputable def mesh2_e5 : List (MRow ℝ) :=
  [⟨20, 5, ⟨1, 0, (1/10)⟩, (29/10)⟩,
   ⟨44, 5, ⟨2, (1/10), 0⟩, (53/10)⟩,
   ⟨6, 5, ⟨(21/10), 1, (1/10)⟩, (81/10)⟩,
   ⟨3, 5, ⟨(11/10), 1, 0⟩, (31/5)⟩,
   ⟨2, 5, ⟨1, 0, (11/10)⟩, (19/10)⟩,
   ⟨17, 5, ⟨2, 0, 1⟩, 4⟩,
   ⟨28, 5, ⟨(19/10), (11/10), 1⟩, (71/10)⟩,
   ⟨31, 5, ⟨1, 1, 1⟩, 5⟩]

noncomputable def mesh2_e40 : List (MRow ℝ) :=
  [⟨7, 40, ⟨0, 0, 0⟩, 1⟩,
   ⟨20, 40, ⟨1, 0, (1/10)⟩, (29/10)⟩,
   ⟨3, 40, ⟨(11/10), 1, 0⟩, (31/5)⟩,
   ⟨11, 40, ⟨0, (9/10), 0⟩, (37/10)⟩,
   ⟨15, 40, ⟨0, (1/10), 1⟩, (3/10)⟩,
   ⟨2, 40, ⟨1, 0, (11/10)⟩, (19/10)⟩,
   ⟨31, 40, ⟨1, 1, 1⟩, 5⟩,
   ⟨9, 40, ⟨(-1/10), 1, (6/5)⟩, (13/5)⟩]

/-- `groupby('element_id')`: element 5 first, each element's rows in frame order. -/
theorem mesh2_groups : elemGroups mesh2 = [mesh2_e5, mesh2_e40] := by
  rfl

theorem mesh2_linear : ∀ r ∈ mesh2, r.v = (⟨2, 3, -1⟩ : V3 ℝ).dot r.p + 1 := by
  intro r hr
  simp only [mesh2, List.mem_cons, List.not_mem_nil, or_false] at hr
  rcases hr with rfl | rfl | rfl | rfl | rfl | rfl | rfl | rfl | rfl | rfl | rfl | rfl | rfl | rfl | rfl | rfl <;>
    norm_num [V3.dot]

theorem mesh2_e5_hex : hexOfGroup mesh2_e5 =
    ⟨⟨⟨1, 0, (1/10)⟩, (29/10)⟩, ⟨⟨2, (1/10), 0⟩, (53/10)⟩, ⟨⟨(21/10), 1, (1/10)⟩, (81/10)⟩, ⟨⟨(11/10), 1, 0⟩, (31/5)⟩,
     ⟨⟨1, 0, (11/10)⟩, (19/10)⟩, ⟨⟨2, 0, 1⟩, 4⟩, ⟨⟨(19/10), (11/10), 1⟩, (71/10)⟩, ⟨⟨1, 1, 1⟩, 5⟩⟩ := by
  rfl

theorem mesh2_e40_hex : hexOfGroup mesh2_e40 =
    ⟨⟨⟨0, 0, 0⟩, 1⟩, ⟨⟨1, 0, (1/10)⟩, (29/10)⟩, ⟨⟨(11/10), 1, 0⟩, (31/5)⟩, ⟨⟨0, (9/10), 0⟩, (37/10)⟩,
     ⟨⟨0, (1/10), 1⟩, (3/10)⟩, ⟨⟨1, 0, (11/10)⟩, (19/10)⟩, ⟨⟨1, 1, 1⟩, 5⟩, ⟨⟨(-1/10), 1, (6/5)⟩, (13/5)⟩⟩ := by
  rfl

/-- The eight corner triple products of element 5 (6 × the corner tetrahedra volumes) are non-zero. -/
theorem mesh2_e5_triples : ∀ t ∈ hexCornerTriples (hexOfGroup mesh2_e5), t ≠ 0 := by
  rw [mesh2_e5_hex]
  intro t ht
  simp only [hexCornerTriples, List.mem_cons, List.not_mem_nil, or_false] at ht
  rcases ht with rfl | rfl | rfl | rfl | rfl | rfl | rfl | rfl <;> norm_num [triple, V3.dot, V3.cross, V3.sub]

theorem mesh2_e40_triples : ∀ t ∈ hexCornerTriples (hexOfGroup mesh2_e40), t ≠ 0 := by
  rw [mesh2_e40_hex]
  intro t ht
  simp only [hexCornerTriples, List.mem_cons, List.not_mem_nil, or_false] at ht
  rcases ht with rfl | rfl | rfl | rfl | rfl | rfl | rfl | rfl <;> norm_num [triple, V3.dot, V3.cross, V3.sub]

/-- **All hypotheses of `gradient3D_exact` hold on a two-element mesh with arbitrary numbering** (the Jacobian
hypothesis through the corner triple products), so every result row carries `g = (2, 3, −1)`. -/
theorem mesh2_exact : ∀ e ∈ gradient3D mesh2, e.2 = some (⟨2, 3, -1⟩ : V3 ℝ) := by
  apply gradient3D_exact mesh2 ⟨2, 3, -1⟩ 1 mesh2_linear
  · intro grp hgrp
    rw [mesh2_groups] at hgrp
    simp only [List.mem_cons, List.not_mem_nil, or_false] at hgrp
    rcases hgrp with rfl | rfl <;> exact Or.inl rfl
  · intro grp hgrp _
    rw [mesh2_groups] at hgrp
    simp only [List.mem_cons, List.not_mem_nil, or_false] at hgrp
    rcases hgrp with rfl | rfl
    · exact hhex_of_triples _ mesh2_e5_triples
    · exact hhex_of_triples _ mesh2_e40_triples
  · intro grp hgrp h4
    rw [mesh2_groups] at hgrp
    simp only [List.mem_cons, List.not_mem_nil, or_false] at hgrp
    rcases hgrp with rfl | rfl <;> exact absurd h4 (by decide)

/-- … and the result has exactly one row for each of the twelve node ids. -/
theorem mesh2_nodes : ((gradient3D mesh2).map (·.1)).Perm [7, 20, 3, 11, 15, 2, 31, 9, 44, 6, 17, 28] ∧
    (gradient3D mesh2).length = 12 := by
  obtain ⟨hnd, hmem⟩ := gradient3D_nodes mesh2
  have hp : ((gradient3D mesh2).map (·.1)).Perm [7, 20, 3, 11, 15, 2, 31, 9, 44, 6, 17, 28] := by
    rw [List.perm_ext_iff_of_nodup hnd (by decide)]
    intro id
    rw [hmem]
    have : mesh2.map (·.node) = [7, 20, 20, 44, 3, 6, 11, 3, 15, 2, 2, 17, 31, 28, 9, 31] := rfl
    rw [this]
    simp only [List.mem_cons, List.not_mem_nil, or_false]
    tauto
  exact ⟨hp, by simpa using hp.length_eq⟩

/-! ## the least-squares operator: a non-degenerate tetrahedron at the node gives full column rank -/

/-- With one position per node id, `nodePos` of a node is the position in any of its rows. -/
theorem nodePos_eq_of_mem (rows : List (MRow ℝ))
    (hcoord : ∀ r ∈ rows, ∀ r' ∈ rows, r.node = r'.node → r.p = r'.p) (r : MRow ℝ) (hr : r ∈ rows) :
    nodePos rows r.node = r.p := by
  set rs := rows.filter (·.node == r.node) with hrs
  have hr' : r ∈ rs := by simp [hrs, hr]
  obtain ⟨h, t, hht⟩ := List.exists_cons_of_ne_nil (List.ne_nil_of_mem hr')
  have hpos : nodePos rows r.node = h.p := by simp [nodePos, ← hrs, hht]
  have hh : h ∈ rows ∧ h.node = r.node := by
    have : h ∈ rs := by simp [hht]
    simpa [hrs] using this
  rw [hpos]
  exact hcoord h hh.1 r hr hh.2

/-- Another row of an element the node belongs to is a neighbour. -/
theorem mem_neighbors_of_elem (rows : List (MRow ℝ)) (r0 r1 : MRow ℝ) (h0 : r0 ∈ rows) (h1 : r1 ∈ rows)
    (he : r1.elem = r0.elem) (hne : r1.node ≠ r0.node) : r1.node ∈ neighbors rows r0.node := by
  simp only [neighbors, List.mem_filter, mem_sortedUnique, List.mem_map]
  refine ⟨⟨r1, ⟨h1, ?_⟩, rfl⟩, by simpa using hne⟩
  simp only [List.contains_eq_mem, List.mem_map, List.mem_filter, decide_eq_true_eq]
  exact ⟨r0, ⟨h0, by simp⟩, he.symm⟩

/-- Three vectors with non-zero triple product: only `0` is orthogonal to all of them. -/
theorem eq_zero_of_dot_eq_zero (a b c v : V3 ℝ) (ht : triple a b c ≠ 0)
    (ha : a.dot v = 0) (hb : b.dot v = 0) (hc : c.dot v = 0) : v = ⟨0, 0, 0⟩ := by
  have hd : det3 ⟨a.x, a.y, a.z, b.x, b.y, b.z, c.x, c.y, c.z⟩ ≠ 0 := by
    have : det3 ⟨a.x, a.y, a.z, b.x, b.y, b.z, c.x, c.y, c.z⟩ = triple a b c := by
      simp only [det3, triple, V3.dot, V3.cross]; ring
    rw [this]; exact ht
  have h := inv3_mulVec_mulVec _ hd v
  rw [← h]
  simp only [V3.dot] at ha hb hc
  simp only [M3.mulVec, ha, hb, hc]
  apply V3.eq_of <;> simp

/-- **The rank hypothesis of the least-squares operator from the geometry**: if node `id` is a corner of a
tetrahedral element (rows `r0` (the node itself), `r1, r2, r3` of one element id, the three others at different node
ids) whose edges at that corner have a non-zero triple product, the least-squares system `nbrDiffs rows id` of the
node has full column rank. -/
theorem nbrDiffs_full_rank_of_tet (rows : List (MRow ℝ))
    (hcoord : ∀ r ∈ rows, ∀ r' ∈ rows, r.node = r'.node → r.p = r'.p)
    (r0 r1 r2 r3 : MRow ℝ) (h0 : r0 ∈ rows) (h1 : r1 ∈ rows) (h2 : r2 ∈ rows) (h3 : r3 ∈ rows)
    (he1 : r1.elem = r0.elem) (he2 : r2.elem = r0.elem) (he3 : r3.elem = r0.elem)
    (hn1 : r1.node ≠ r0.node) (hn2 : r2.node ≠ r0.node) (hn3 : r3.node ≠ r0.node)
    (ht : triple (r1.p.sub r0.p) (r2.p.sub r0.p) (r3.p.sub r0.p) ≠ 0) :
    ∀ v : V3 ℝ, (∀ a ∈ nbrDiffs rows r0.node, a.dot v = 0) → v = ⟨0, 0, 0⟩ := by
  intro v hv
  have hmem : ∀ r ∈ rows, r.elem = r0.elem → r.node ≠ r0.node → (r.p.sub r0.p) ∈ nbrDiffs rows r0.node := by
    intro r hr he hn
    simp only [nbrDiffs, List.mem_map]
    refine ⟨r.node, mem_neighbors_of_elem rows r0 r h0 hr he hn, ?_⟩
    rw [nodePos_eq_of_mem rows hcoord r hr, nodePos_eq_of_mem rows hcoord r0 h0]
  exact eq_zero_of_dot_eq_zero _ _ _ v ht (hv _ (hmem r1 h1 he1 hn1)) (hv _ (hmem r2 h2 he2 hn2))
    (hv _ (hmem r3 h3 he3 hn3))

/-- Non-vacuity: node 7 of a one-tetrahedron mesh (ids 7, 20, 3, 11). -/
example : ∀ v : V3 ℝ, (∀ a ∈ nbrDiffs ([⟨7, 1, ⟨0, 0, 0⟩, 1⟩, ⟨20, 1, ⟨1, 0, 0⟩, 3⟩, ⟨3, 1, ⟨0, 1, 0⟩, 4⟩,
    ⟨11, 1, ⟨0, 0, 1⟩, 0⟩] : List (MRow ℝ)) 7, a.dot v = 0) → v = ⟨0, 0, 0⟩ := by
  apply nbrDiffs_full_rank_of_tet _ _ ⟨7, 1, ⟨0, 0, 0⟩, 1⟩ ⟨20, 1, ⟨1, 0, 0⟩, 3⟩ ⟨3, 1, ⟨0, 1, 0⟩, 4⟩ ⟨11, 1, ⟨0, 0, 1⟩, 0⟩
  · simp
  · simp
  · simp
  · simp
  · rfl
  · rfl
  · rfl
  · decide
  · decide
  · decide
  · norm_num [triple, V3.dot, V3.cross, V3.sub]
  · intro r hr r' hr' hn
    simp only [List.mem_cons, List.not_mem_nil, or_false] at hr hr'
    rcases hr with rfl | rfl | rfl | rfl <;> rcases hr' with rfl | rfl | rfl | rfl <;>
      first | rfl | exact absurd hn (by decide)

end PylifeVerif.Mesh
