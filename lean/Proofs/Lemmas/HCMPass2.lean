/-
Helper lemmas for C04 `pass2_eq_periodicRainflow`, part 1: the HCM loop above a base `M` of
largest absolute value ("rooted machine") is the four-point rewriting system of
`Proofs/Lemmas/Periodic.lean`.

* `mStep M A x`: one turning point `x` handled by the HCM closing rule on the stack part `A`
  (top first) that lies above the base `M`; closing the pair `(M, j)` resets the part to `[]`
  (the new point takes the place of the base).
* `mStep_spec`: the closings are `Step`s of the four-point system (`Dec`: the ranges of the stack
  decrease towards the top, hence the HCM test implies the four-point condition).
* `window`: over a closed word `M … M` the emitted cycles are `outOf` of that word.

The further parts are `HCMPass2Abs.lean` (load-only machine, return lemma, window shift),
`HCMPass2Sim.lean` (projection of the model to the load-only machine), `HCMPass2Turns.lean`
(values of the turning points), `HCMPass2Fed.lean` (what the two passes are fed) and
`HCMPass2Trim.lean` (the trimmed signal); the theorem is in `Proofs/C04Pass2.lean`.
-/
import Proofs.Lemmas.Periodic

namespace PylifeVerif.C04
open PylifeVerif.Rainflow PylifeVerif.HCM PylifeVerif.HCM.Spec

/-- ranges decrease towards the top (list: top first) -/
def Dec : List Int → Prop
  | j :: i :: h :: rest => absDiff j i < absDiff i h ∧ Dec (i :: h :: rest)
  | _ => True

theorem Dec.tail {j : Int} {l : List Int} (h : Dec (j :: l)) : Dec l := by
  match l, h with
  | [], _ => trivial
  | [_], _ => trivial
  | _ :: _ :: _, h => exact h.2

/-- The HCM loop for the turning point `x` on the stack part `A` (top first) above the base `M`. -/
def mStep (M : Int) : List Int → Int → List (Int × Int) × List Int
  | [], x => ([], [x])
  | [j], x => if absDiff x j < absDiff j M then ([], [x, j]) else ([(min M j, max M j)], [])
  | j :: i :: rest, x =>
    if absDiff x j < absDiff j i then ([], x :: j :: i :: rest)
    else
      let r := mStep M rest x
      ((min i j, max i j) :: r.1, r.2)

def mRun (M : Int) : List Int → List Int → List (Int × Int) × List Int
  | A, [] => ([], A)
  | A, x :: xs =>
    let r := mStep M A x
    let r' := mRun M r.2 xs
    (r.1 ++ r'.1, r'.2)

theorem mRun_append (M : Int) (xs ys : List Int) : ∀ A : List Int,
    mRun M A (xs ++ ys) =
      ((mRun M A xs).1 ++ (mRun M (mRun M A xs).2 ys).1, (mRun M (mRun M A xs).2 ys).2) := by
  induction xs with
  | nil => intro A; simp [mRun]
  | cons x xs ih => intro A; simp [mRun, ih]

/-- Outcome of `mStep` (words top first): either `x` is pushed on a suffix `A'` of `A` after
four-point steps, or everything is closed down to the base, lastly the pair `(M, j)`. -/
theorem mStep_spec (M : Int) (A : List Int) (x : Int) (hD : Dec (A ++ [M])) :
    (∃ A', (mStep M A x).2 = x :: A' ∧ Steps (x :: (A ++ [M])) (mStep M A x).1 (x :: (A' ++ [M])) ∧
        Dec (x :: (A' ++ [M])) ∧ ∀ a ∈ A', a ∈ A) ∨
    (∃ E' j, (mStep M A x).2 = [] ∧ (mStep M A x).1 = E' ++ [(min M j, max M j)] ∧
        Steps (x :: (A ++ [M])) E' [x, j, M] ∧ absDiff j M ≤ absDiff x j ∧ j ∈ A) := by
  fun_induction mStep M A x with
  | case1 x =>
    left; exact ⟨[], rfl, Steps.refl _, trivial, fun a h => h⟩
  | case2 j x h =>
    left; exact ⟨[j], rfl, Steps.refl _, ⟨h, trivial⟩, fun a h => h⟩
  | case3 j x h =>
    right; exact ⟨[], j, rfl, rfl, Steps.refl _, by omega, by simp⟩
  | case4 j i rest x h =>
    left; exact ⟨j :: i :: rest, rfl, Steps.refl _, ⟨h, hD⟩, fun a h => h⟩
  | case5 j i rest x h r ih =>
    have hD' : Dec (rest ++ [M]) := hD.tail.tail
    obtain ⟨hh, r0, hr⟩ : ∃ hh r0, rest ++ [M] = hh :: r0 := by
      cases rest with
      | nil => exact ⟨M, [], rfl⟩
      | cons a b => exact ⟨a, b ++ [M], rfl⟩
    have hstep : Step (x :: (j :: i :: rest ++ [M])) (min i j, max i j) (x :: (rest ++ [M])) := by
      have e : x :: (j :: i :: rest ++ [M]) = x :: j :: i :: hh :: r0 := by simp [← hr]
      rw [e, hr]
      apply Step.here
      have h1 : Dec (j :: i :: hh :: r0) := by rw [← hr]; simpa using hD
      have h1 := h1.1
      unfold C4 absDiff at *
      omega
    rcases ih hD' with ⟨A', h1, h2, h3, h4⟩ | ⟨E', j', h1, h2, h3, h4, h5⟩
    · left
      exact ⟨A', h1, Steps.head hstep h2, h3, fun a ha => by simp [h4 a ha]⟩
    · right
      refine ⟨(min i j, max i j) :: E', j', h1, ?_, Steps.head hstep h3, h4, by simp [h5]⟩
      show (min i j, max i j) :: r.1 = _
      rw [show r.1 = E' ++ [(min M j', max M j')] from h2]; rfl


/-- `mStep_spec` with the words in feed order (base first). -/
theorem mStep_spec_feed (M : Int) (A : List Int) (x : Int) (hD : Dec (A ++ [M])) :
    (∃ A', (mStep M A x).2 = x :: A' ∧
        Steps (M :: (A.reverse ++ [x])) (mStep M A x).1 (M :: (A'.reverse ++ [x])) ∧
        Dec (x :: (A' ++ [M])) ∧ ∀ a ∈ A', a ∈ A) ∨
    (∃ E' j, (mStep M A x).2 = [] ∧ (mStep M A x).1 = E' ++ [(min M j, max M j)] ∧
        Steps (M :: (A.reverse ++ [x])) E' [M, j, x] ∧ absDiff j M ≤ absDiff x j ∧ j ∈ A) := by
  rcases mStep_spec M A x hD with ⟨A', h1, h2, h3, h4⟩ | ⟨E', j, h1, h2, h3, h4, h5⟩
  · left
    refine ⟨A', h1, ?_, h3, h4⟩
    have := h2.reverse
    simpa using this
  · right
    refine ⟨E', j, h1, h2, ?_, h4, h5⟩
    have := h3.reverse
    simpa using this

/-- closing the pair `(M, j)` above a base of largest absolute value: the new point is `M` -/
theorem close_base_eq (M j x : Int) (hz : Zig [M, j, x]) (hj : j.natAbs ≤ M.natAbs)
    (hx : x.natAbs ≤ M.natAbs) (h : absDiff j M ≤ absDiff x j) : x = M := by
  obtain ⟨up, h1, h2, _⟩ := hz
  unfold absDiff at h
  cases up <;> simp at h1 h2 <;> omega

/-- History invariant: the word `H` fed since the base was reached reduces to the current stack,
possibly with one closed base pair `(M, m)` still in the word. -/
def K (M : Int) (H : List Int) (Es : List (Int × Int)) (A : List Int) : Prop :=
  (∃ E', Steps H E' (M :: A.reverse) ∧ Es.Perm E') ∨
  (∃ E' m, Steps H E' (M :: m :: M :: A.reverse) ∧ Es.Perm (E' ++ [(min m M, max m M)]))

theorem K_zig {M : Int} {H : List Int} {Es : List (Int × Int)} {A : List Int} (x : Int)
    (hK : K M H Es A) (hz : Zig (H ++ [x])) : Zig (M :: (A.reverse ++ [x])) := by
  rcases hK with ⟨E', hS, _⟩ | ⟨E', m, hS, _⟩
  · have := (hS.suffix [x]).zig hz
    simpa using this
  · have := (hS.suffix [x]).zig hz
    exact zig_infix [M, m] (M :: (A.reverse ++ [x])) [] (by simpa using this)

theorem K_step (M : Int) (H : List Int) (Es : List (Int × Int)) (A : List Int) (x : Int)
    (hK : K M H Es A) (hz : Zig (H ++ [x])) (hD : Dec (A ++ [M]))
    (hb : ∀ a ∈ A, a.natAbs ≤ M.natAbs) (hx : x.natAbs ≤ M.natAbs) :
    K M (H ++ [x]) (Es ++ (mStep M A x).1) (mStep M A x).2 ∧ Dec ((mStep M A x).2 ++ [M]) ∧
      (∀ a ∈ (mStep M A x).2, a.natAbs ≤ M.natAbs) := by
  have hzw := K_zig x hK hz
  rcases mStep_spec_feed M A x hD with ⟨A', h1, h2, h3, h4⟩ | ⟨E1, j, h1, h2, h3, h4, h5⟩
  · rw [h1]
    refine ⟨?_, by simpa using h3, ?_⟩
    · rcases hK with ⟨E', hS, hP⟩ | ⟨E', m, hS, hP⟩
      · left
        refine ⟨E' ++ (mStep M A x).1, ?_, hP.append_right _⟩
        have := (hS.suffix [x]).trans h2
        simpa using this
      · right
        refine ⟨E' ++ (mStep M A x).1, m, ?_, ?_⟩
        · have := (hS.suffix [x]).trans (h2.prefix [M, m])
          simpa using this
        · refine (hP.append_right _).trans ?_
          simp only [List.append_assoc]
          exact List.Perm.append_left _ List.perm_append_comm
    · intro a ha
      rcases List.mem_cons.1 ha with rfl | ha
      · exact hx
      · exact hb a (h4 a ha)
  · have hxM : x = M := close_base_eq M j x (h3.zig hzw) (hb j h5) hx h4
    rw [h1, h2]
    refine ⟨?_, trivial, by simp⟩
    subst hxM
    rcases hK with ⟨E', hS, hP⟩ | ⟨E', m, hS, hP⟩
    · right
      refine ⟨E' ++ E1, j, ?_, ?_⟩
      · have := (hS.suffix [x]).trans h3
        simpa using this
      · rw [← List.append_assoc, Int.min_comm, Int.max_comm]
        exact (hP.append_right _).append_right _
    · right
      obtain ⟨E5, u, hS5, hP5⟩ := five_nf x m j
      refine ⟨E' ++ E1 ++ E5, u, ?_, ?_⟩
      · have := ((hS.suffix [x]).trans (h3.prefix [x, m])).trans hS5
        simpa using this
      · have e1 : (Es ++ (E1 ++ [(min x j, max x j)])).Perm
            ((E' ++ E1) ++ [(min m x, max m x), (min j x, max j x)]) := by
          rw [Int.min_comm x j, Int.max_comm x j]
          have : (Es ++ (E1 ++ [(min j x, max j x)])).Perm
              ((E' ++ [(min m x, max m x)]) ++ (E1 ++ [(min j x, max j x)])) := hP.append_right _
          refine this.trans ?_
          simp only [List.append_assoc]
          apply List.Perm.append_left
          have e : E1 ++ [(min m x, max m x), (min j x, max j x)] =
              (E1 ++ [(min m x, max m x)]) ++ [(min j x, max j x)] := by simp
          rw [e, ← List.append_assoc]
          exact List.Perm.append_right _ List.perm_append_comm
        refine e1.trans ?_
        rw [List.append_assoc (E' ++ E1)]
        exact List.Perm.append_left _ hP5.symm


/-- When the value of the base recurs everything above the base is closed. -/
theorem mStep_base (M : Int) (A : List Int) (hz : Zig (M :: (A.reverse ++ [M])))
    (hD : Dec (A ++ [M])) (hb : ∀ a ∈ A, a.natAbs ≤ M.natAbs) : (mStep M A M).2 = [] := by
  rcases mStep_spec_feed M A M hD with ⟨A', h1, h2, h3, h4⟩ | ⟨E1, j, h1, _⟩
  · exfalso
    have hz' := h2.zig hz
    match A', h3, h4, hz' with
    | [], _, _, hz' =>
      obtain ⟨up, h, _⟩ := hz'
      cases up <;> simp at h
    | [j], h3, _, _ =>
      have := h3.1
      unfold absDiff at this
      omega
    | j :: i :: r, h3, h4, hz' =>
      have h5 := h3.1
      have hi := hb i (h4 i (by simp))
      have hj := hb j (h4 j (by simp))
      have hz3 : Zig [i, j, M] := zig_infix (M :: r.reverse) [i, j, M] [] (by simpa using hz')
      obtain ⟨up, h6, h7, _⟩ := hz3
      unfold absDiff at h5
      cases up <;> simp at h6 h7 <;> omega
  · exact h1

theorem K_run (M : Int) (xs : List Int) : ∀ (H : List Int) (Es : List (Int × Int)) (A : List Int),
    K M H Es A → Zig (H ++ xs) → Dec (A ++ [M]) → (∀ a ∈ A, a.natAbs ≤ M.natAbs) →
    (∀ x ∈ xs, x.natAbs ≤ M.natAbs) →
    K M (H ++ xs) (Es ++ (mRun M A xs).1) (mRun M A xs).2 ∧ Dec ((mRun M A xs).2 ++ [M]) ∧
      (∀ a ∈ (mRun M A xs).2, a.natAbs ≤ M.natAbs) ∧
      (xs.getLast? = some M → (mRun M A xs).2 = []) := by
  induction xs with
  | nil =>
    intro H Es A hK _ hD hb _
    simp only [mRun, List.append_nil]
    exact ⟨hK, hD, hb, by simp⟩
  | cons x xs ih =>
    intro H Es A hK hz hD hb hx
    have hz1 : Zig (H ++ [x]) := zig_infix [] (H ++ [x]) xs (by simpa using hz)
    obtain ⟨k1, k2, k3⟩ := K_step M H Es A x hK hz1 hD hb (hx x (by simp))
    obtain ⟨i1, i2, i3, i4⟩ := ih (H ++ [x]) (Es ++ (mStep M A x).1) (mStep M A x).2 k1
      (by simpa using hz) k2 k3 (fun y hy => hx y (by simp [hy]))
    simp only [mRun]
    refine ⟨by simpa using i1, i2, i3, ?_⟩
    intro hl
    cases xs with
    | nil =>
      simp only [List.getLast?_singleton, Option.some.injEq] at hl
      subst hl
      simp only [mRun]
      exact mStep_base x A (K_zig x hK hz1) hD hb
    | cons y ys =>
      apply i4
      simpa [List.getLast?_cons_cons] using hl

/-- **Window theorem.**  Started on the bare base `M` (largest absolute value) and fed a closed
alternating word `M … M`, the HCM closing rule ends on the bare base again and has emitted exactly
the cycles that the four-point counting (`outOf`) finds in that closed word. -/
theorem window (M : Int) (ys : List Int) (hz : Zig (M :: ys)) (hb : ∀ y ∈ ys, y.natAbs ≤ M.natAbs)
    (hl : ys.getLast? = some M) :
    (mRun M [] ys).2 = [] ∧ (outOf (M :: ys)).Perm (mRun M [] ys).1 := by
  have hK0 : K M [M] [] [] := Or.inl ⟨[], Steps.refl _, List.Perm.refl _⟩
  obtain ⟨k1, _, _, k4⟩ := K_run M ys [M] [] [] hK0 (by simpa using hz) trivial (by simp) hb
  have hA := k4 hl
  refine ⟨hA, ?_⟩
  rw [hA] at k1
  simp only [List.nil_append, List.singleton_append] at k1
  obtain ⟨t, ht⟩ : ∃ t, ys = t ++ [M] := by
    rcases List.eq_nil_or_concat ys with h | ⟨t, b, h⟩
    · subst h; simp at hl
    · refine ⟨t, ?_⟩
      have h : ys = t ++ [b] := by simpa using h
      subst h
      simp at hl
      rw [hl]
  rcases k1 with ⟨E', hS, _⟩ | ⟨E', m, hS, hP⟩
  · exfalso
    obtain ⟨N', hN⟩ := hS.ends M M t (by rw [ht])
    simp at hN
  · have := outOf_perm (M :: ys) hz E' M m M (by simpa using hS)
    exact this.trans hP.symm

end PylifeVerif.C04
