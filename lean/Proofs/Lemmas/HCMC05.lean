/-
Helper lemmas for C05 (`Proofs/C05Core.lean`):
* part 1: the HCM detector on ONE assessment point equals the guideline procedure `Spec.guideline`,
* part 2: the detector on several proportionally loaded points gives every point what it gets alone.

Part 1: `Rel`/`RelP` abstract a model state with one-element vectors to a `Spec.GState`; `ps_gstep`
(`processSample` = `gStep`), `turnStep_gTurn`, `fold_gTurn`, `process_one`, `twoPass_one`.  The fuel
`res.length / 2 + 2` is sufficient in both loops (invariant `res.length / 2 + 1 ≤ fuel`), `iz = res.length`,
`1 ≤ ir`; every load handed to the loop is an element of the chunk or the stored last sample
(`newTurns_idx`, `procLoads_map`).

Part 2: `Sim` relates the batch run (all points, decisions on point 0) with the run of point `k` alone:
residuals of the single run are the `k`-th components of the batch residuals (`compPt`), `loadMax` is
`c₀·M` resp. `c_k·M`, recorded columns agree under `proj'`.  The residual invariant that makes
`closedHyst` pick the same point per column in both runs is `SecChain`: every residual at a position
`≥ ir` (counted from the bottom) was reached from the residual below it by `secondary`; with
`SignPreserving` the order of stresses/strains of the two points of a closed hysteresis then equals the
order of the loads in every component (`sec_order`).  `ps_sim`, `ts_sim`, `fold_sim`, `process_sim`,
`twoPass_sim`; turning points of a positively scaled signal: `newTurns_scale` (with flush),
`dropBase_scale`, `flushBase_scale`.

Running strain extremes (`updateLF` is element-wise `vzip max` / `vzip min` since the fix 68eb0ef): in
part 1 the vectors must be non-empty (`turnStep_gTurn`, `fold_gTurn`, `process_one` carry
`eMinLF ≠ [] ∧ eMaxLF ≠ []`, established by `procInit`); in part 2 the relation `LFX` (k-th component
of the batch extremes = the single run's, right lengths, `projLF'` columns of the records agree) is
carried beside `Sim`: `ps_newrecs` (one-run fact: records appended by `processSample` carry the incoming
extremes), `ts_simLF`, `fold_simLF`, `process_simLF` (`PLF`, also relates `prevLoad` as `c₀·P` / `c_k·P`,
which decides the updated extreme), `twoProc_simLF`, `twoPass_simLF`.
-/
import Proofs.Lemmas.HCMCommon
import Proofs.Lemmas.Sym
import Mathlib.Tactic.Ring
import Mathlib.Tactic.Linarith

namespace PylifeVerif.HCM.C05L
open PylifeVerif.Rainflow PylifeVerif.HCM

/-! ## Part 1: one point = guideline -/

def ofG (g : Spec.GPoint) : HPoint := ⟨[g.load], [g.stress], [g.strain]⟩

/-- copy of `C05.toG` -/
def toG' (h : Hyst) : Spec.GHyst :=
  { loadMin := rep h.loadMin, loadMax := rep h.loadMax, sMin := rep h.sMin, sMax := rep h.sMax,
    eMin := rep h.eMin, eMax := rep h.eMax, eMinLF := rep h.eMinLF, eMaxLF := rep h.eMaxLF,
    closed := h.closed, run := h.run }

structure Rel (st : State) (g : Spec.GState) : Prop where
  res : st.res = g.res.map ofG
  iz : st.iz = g.res.length
  ir : st.ir = g.ir
  ir1 : 1 ≤ g.ir
  lmax : st.loadMax = g.lmax
  emin : rep st.eMinLF = g.eMinLF
  emax : rep st.eMaxLF = g.eMaxLF
  recs : st.recs.map toG' = g.recs

theorem ofG_load (j : Spec.GPoint) : (ofG j).load = [j.load] := by cases j; rfl

theorem rep_ofG_strain (j : Spec.GPoint) : rep (ofG j).strain = j.strain := by cases j; rfl

theorem primary_one (law : Law) (l : Int) : primary law [l] = ofG (Spec.gPrimary law l) := by
  simp [primary, ofG, Spec.gPrimary, vzip]

theorem secondary_one (law : Law) (p : Spec.GPoint) (l : Int) :
    secondary law (ofG p) [l] = ofG (Spec.gSecondary law p l) := by
  simp [secondary, ofG, Spec.gSecondary, vzip]

theorem toG'_half (st : State) (j : Spec.GPoint) :
    toG' (halfHyst st (ofG j)) =
      { loadMin := -(j.load.natAbs : Int), loadMax := j.load.natAbs,
        sMin := -(j.stress.natAbs : Int), sMax := j.stress.natAbs,
        eMin := -(j.strain.natAbs : Int), eMax := j.strain.natAbs,
        eMinLF := rep st.eMinLF, eMaxLF := rep st.eMaxLF, closed := false, run := st.run } := by
  simp [toG', halfHyst, ofG, vneg, vabs, rep]

theorem ite_lt_min (a b : Int) : (if a < b then a else b) = min a b := by
  split <;> omega
theorem ite_gt_max (a b : Int) : (if a > b then a else b) = max a b := by
  split <;> omega

theorem rep_ite (c : Prop) [Decidable c] (a b : Vec) :
    rep (if c then a else b) = if c then rep a else rep b := by
  split <;> rfl

@[simp] theorem rep_one (a : Int) : rep [a] = a := by simp [rep]

theorem toG'_closed (st : State) (i j : Spec.GPoint) :
    toG' (closedHyst st (ofG i) (ofG j)) =
      { loadMin := min i.load j.load, loadMax := max i.load j.load,
        sMin := min i.stress j.stress, sMax := max i.stress j.stress,
        eMin := min i.strain j.strain, eMax := max i.strain j.strain,
        eMinLF := rep st.eMinLF, eMaxLF := rep st.eMaxLF, closed := true, run := st.run } := by
  simp only [toG', closedHyst, ofG, if_true, Bool.false_eq_true, if_false, rep_ite, rep_one,
    ite_lt_min, ite_gt_max]

/-- frame: what `processSample` does not touch -/
theorem processSample_frame (law : Law) (load : Vec) (fuel : Nat) (st : State) :
    let r := (processSample law load fuel st).1
    r.ts = st.ts ∧ r.run = st.run ∧ r.fed = st.fed ∧ r.started = st.started ∧
    r.lastSample = st.lastSample ∧ r.prevLoad = st.prevLoad ∧ r.loadMax = st.loadMax ∧
    r.eMinLF = st.eMinLF ∧ r.eMaxLF = st.eMaxLF := by
  fun_induction processSample law load fuel st <;> simp_all +zetaDelta [noteStrain]

/-- `processSample` on one point = `gStep` -/
theorem ps_gstep (law : Law) (l : Int) : ∀ (fuel : Nat) (st : State) (g : Spec.GState),
    Rel st g → g.res.length / 2 + 1 ≤ fuel →
    Rel (processSample law [l] fuel st).1 (Spec.gStep law st.run l fuel g).1 ∧
    (processSample law [l] fuel st).2 = ofG (Spec.gStep law st.run l fuel g).2 ∧
    (processSample law [l] fuel st).1.strainValues =
      st.strainValues ++ [(Spec.gStep law st.run l fuel g).2.strain] ∧
    (Spec.gStep law st.run l fuel g).1.prevLoad = g.prevLoad ∧
    (Spec.gStep law st.run l fuel g).1.strains = g.strains := by
  intro fuel
  induction fuel with
  | zero => intro st g _ h; omega
  | succ fuel ih =>
    intro st g hr hf
    obtain ⟨hres, hiz, hir, hir1, hlm, hemin, hemax, hrecs⟩ := hr
    rw [processSample, Spec.gStep]
    obtain ⟨ts, res, iz, ir, loadMax, run, eMinLF, eMaxLF, started, lastSample, prevLoad, sv, nFirst, recs, fed⟩ := st
    obtain ⟨gres, gir, glmax, gemin, gemax, gprev, grecs, gstrains⟩ := g
    simp only at hres hiz hir hir1 hlm hemin hemax hrecs hf
    subst hres hiz hir hlm hemin hemax hrecs
    simp only [rep_one]
    rcases Nat.lt_trichotomy gres.length ir with hlt | heq | hgt
    · rw [if_neg (by omega), if_pos hlt, if_pos hlt]
      refine ⟨⟨?_, ?_, ?_, ?_, ?_, ?_, ?_, ?_⟩, ?_, ?_, ?_, ?_⟩ <;>
        first | assumption | rfl
    · rw [if_pos heq, if_neg (by omega), if_pos heq]
      cases gres with
      | nil => simp at heq; omega
      | cons j gres =>
        simp only [List.map_cons]
        by_cases hl : l.natAbs > loadMax
        · rw [if_pos hl, if_pos hl]
          refine ⟨⟨?_, ?_, ?_, ?_, ?_, ?_, ?_, ?_⟩, ?_, ?_, ?_, ?_⟩ <;>
            first | assumption | rfl | simp [noteStrain, primary_one, toG'_half]
        · rw [if_neg hl, if_neg hl]
          refine ⟨⟨?_, ?_, ?_, ?_, ?_, ?_, ?_, ?_⟩, ?_, ?_, ?_, ?_⟩ <;>
            first | assumption | rfl
    · rw [if_neg (by omega), if_neg (by omega), if_neg (by omega), if_neg (by omega)]
      rcases gres with _ | ⟨j, _ | ⟨i, rest⟩⟩
      · simp at hgt
      · simp at hgt; omega
      · simp only [List.map_cons, List.length_cons] at hgt hf ⊢
        simp only [ofG_load, rep_one]
        by_cases hc : (l - j.load).natAbs < (j.load - i.load).natAbs
        · have hc' : ¬ (l - j.load).natAbs ≥ (j.load - i.load).natAbs := by omega
          rw [if_pos hc, if_neg hc']
          refine ⟨⟨?_, ?_, ?_, ?_, ?_, ?_, ?_, ?_⟩, ?_, ?_, ?_, ?_⟩ <;>
            first | assumption | rfl
        · have hc' : (l - j.load).natAbs ≥ (j.load - i.load).natAbs := by omega
          rw [if_neg hc, if_pos hc']
          by_cases hge : rest.length + 1 + 1 - 2 ≥ ir
          · rw [if_pos hge]
            refine ih _ _ ⟨rfl, (by simp), rfl, hir1, rfl, rfl, rfl, ?_⟩ (by simp; omega)
            simp [toG'_closed]
          · rw [if_neg hge]
            cases fuel with
            | zero => omega
            | succ fuel =>
              rw [Spec.gStep]
              simp only
              rw [if_pos (show rest.length < ir by omega)]
              refine ⟨⟨?_, ?_, ?_, ?_, ?_, ?_, ?_, ?_⟩, ?_, ?_, ?_, ?_⟩ <;>
                first | assumption | rfl | simp [noteStrain, primary_one, toG'_closed]

/-- frame of `turnStep` -/
theorem turnStep_frame (law : Law) (st : State) (prev : Int) (load : Vec) :
    let r := turnStep law (st, prev) load
    r.1.ts = st.ts ∧ r.1.run = st.run ∧ r.1.fed = st.fed ++ [(st.run, load)] ∧ r.1.started = st.started ∧
    r.1.lastSample = st.lastSample ∧ r.2 = rep load := by
  have h := processSample_frame law load (st.res.length / 2 + 2) { st with fed := st.fed ++ [(st.run, load)] }
  simp only at h
  obtain ⟨h1, h2, h3, h4, h5, -⟩ := h
  simp only [turnStep, updateLF]
  split_ifs <;> simp_all

structure RelP (st : State) (prev : Int) (g : Spec.GState) : Prop where
  rel : Rel st g
  prev : g.prevLoad = prev
  strains : st.strainValues = g.strains

theorem rep_vzip_max (a : Vec) (x : Int) (h : a ≠ []) : rep (vzip max a [x]) = max (rep a) x := by
  cases a with
  | nil => exact absurd rfl h
  | cons y a => simp [vzip, rep]

theorem rep_vzip_min (a : Vec) (x : Int) (h : a ≠ []) : rep (vzip min a [x]) = min (rep a) x := by
  cases a with
  | nil => exact absurd rfl h
  | cons y a => simp [vzip, rep]

theorem vzip_one_ne (f : Int → Int → Int) (a : Vec) (x : Int) (h : a ≠ []) : vzip f a [x] ≠ [] := by
  cases a with
  | nil => exact absurd rfl h
  | cons y a => simp [vzip]

theorem ofG_strain (j : Spec.GPoint) : (ofG j).strain = [j.strain] := by cases j; rfl

/-- one step of the detector loop on one point = `gTurn`; the running strain extremes (kept per point
as vectors, element-wise `max`/`min`) must be non-empty vectors, which `process` guarantees -/
theorem turnStep_gTurn (law : Law) (st : State) (prev : Int) (g : Spec.GState) (l : Int)
    (h : RelP st prev g) (hne : st.eMinLF ≠ [] ∧ st.eMaxLF ≠ []) :
    RelP (turnStep law (st, prev) [l]).1 (turnStep law (st, prev) [l]).2 (Spec.gTurn law st.run g l) ∧
    (turnStep law (st, prev) [l]).1.eMinLF ≠ [] ∧ (turnStep law (st, prev) [l]).1.eMaxLF ≠ [] := by
  obtain ⟨hr, hp, hs⟩ := h
  obtain ⟨hne1, hne2⟩ := hne
  have hlen : st.res.length = g.res.length := by rw [hr.res]; simp
  have hr' : Rel { st with fed := st.fed ++ [(st.run, [l])] } g := ⟨hr.1, hr.2, hr.3, hr.4, hr.5, hr.6, hr.7, hr.8⟩
  have key := ps_gstep law l (g.res.length / 2 + 2) { st with fed := st.fed ++ [(st.run, [l])] } g hr' (by omega)
  have fr := processSample_frame law [l] (g.res.length / 2 + 2) { st with fed := st.fed ++ [(st.run, [l])] }
  simp only [turnStep, Spec.gTurn, hlen, rep_one]
  simp only at key fr
  generalize processSample law [l] (g.res.length / 2 + 2) _ = ps at key fr ⊢
  generalize Spec.gStep law st.run l (g.res.length / 2 + 2) g = gs at key ⊢
  obtain ⟨st', p⟩ := ps
  obtain ⟨g', q⟩ := gs
  obtain ⟨k1, k2, k3, k4, k5⟩ := key
  obtain ⟨f1, f2, f3, f4, f5, f6, f7, f8, f9⟩ := fr
  obtain ⟨r1, r2, r3, r4, r5, r6, r7, r8⟩ := k1
  simp only at k2 k3 k4 k5 f1 f2 f3 f4 f5 f6 f7 f8 f9 r1 r2 r3 r4 r5 r6 r7 r8 ⊢
  subst k2
  rw [k4, hp]
  rw [← f8] at hne1
  rw [← f9] at hne2
  by_cases hl : l.natAbs > st'.loadMax <;> by_cases hpl : prev < l <;>
    simp only [hl, if_true, if_false, updateLF, hpl, ofG_strain] <;>
    refine ⟨⟨⟨?_, ?_, ?_, ?_, ?_, ?_, ?_, ?_⟩, ?_, ?_⟩, ?_, ?_⟩ <;>
    first | assumption | rfl | (rw [rep_vzip_max _ _ hne2, r7]) | (rw [rep_vzip_min _ _ hne1, r6]) |
      exact vzip_one_ne _ _ _ hne1 | exact vzip_one_ne _ _ _ hne2 | (simp [*]; done) | (simp [*]; omega)

/-- frame of the fold over `turnStep` -/
theorem fold_frame (law : Law) : ∀ (loads : List Vec) (st : State) (prev : Int),
    let r := loads.foldl (turnStep law) (st, prev)
    r.1.ts = st.ts ∧ r.1.run = st.run ∧ r.1.fed = st.fed ++ loads.map (fun v => (st.run, v)) ∧
    r.1.started = st.started ∧ r.1.lastSample = st.lastSample := by
  intro loads
  induction loads with
  | nil => intro st prev; simp
  | cons v loads ih =>
    intro st prev
    have h := turnStep_frame law st prev v
    have h2 := ih (turnStep law (st, prev) v).1 (turnStep law (st, prev) v).2
    simp only [List.foldl_cons, List.map_cons] at h h2 ⊢
    obtain ⟨a1, a2, a3, a4, a5, -⟩ := h
    obtain ⟨b1, b2, b3, b4, b5⟩ := h2
    refine ⟨b1.trans a1, b2.trans a2, ?_, b4.trans a4, b5.trans a5⟩
    rw [b3, a3, a2]; simp

theorem fold_gTurn (law : Law) (run : Nat) : ∀ (ls : List Int) (st : State) (prev : Int) (g : Spec.GState),
    RelP st prev g → st.run = run → (st.eMinLF ≠ [] ∧ st.eMaxLF ≠ []) →
    let r := (ls.map fun x => [x]).foldl (turnStep law) (st, prev)
    RelP r.1 r.2 (ls.foldl (Spec.gTurn law run) g) ∧ r.1.eMinLF ≠ [] ∧ r.1.eMaxLF ≠ [] := by
  intro ls
  induction ls with
  | nil => intro st prev g h _ hne; exact ⟨by simpa using h, hne⟩
  | cons x ls ih =>
    intro st prev g h hrun hne
    simp only [List.map_cons, List.foldl_cons]
    have h1 := turnStep_gTurn law st prev g x h hne
    have h2 := (turnStep_frame law st prev [x]).2.1
    rw [hrun] at h1
    exact ih _ _ _ h1.1 (h2.trans hrun) h1.2

/-! ### `process`: the loads handed to the HCM loop -/

def procLoads (ts : TurnState) (last : Vec) (samples : List Vec) (flush : Bool) : List Vec :=
  (newTurns ts (samples.map rep) flush).2.map fun p =>
    if p.1 < ts.head then last else samples.toArray[p.1 - ts.head]!

def procInit (st : State) (samples : List Vec) (flush : Bool) : State :=
  { st with started := true,
            eMinLF := if st.started then st.eMinLF else List.replicate (samples.headD []).length 0,
            eMaxLF := if st.started then st.eMaxLF else List.replicate (samples.headD []).length 0,
            run := st.run + 1,
            ts := (newTurns st.ts (samples.map rep) flush).1,
            lastSample := samples.getLastD st.lastSample }

theorem process_eq (law : Law) (st : State) (samples : List Vec) (flush : Bool) :
    process law st samples flush =
      { ((procLoads st.ts st.lastSample samples flush).foldl (turnStep law) (procInit st samples flush, st.prevLoad)).1 with
        prevLoad := ((procLoads st.ts st.lastSample samples flush).foldl (turnStep law) (procInit st samples flush, st.prevLoad)).2 } := by
  obtain ⟨ts, res, iz, ir, loadMax, run, eMinLF, eMaxLF, started, lastSample, prevLoad, sv, nFirst, recs, fed⟩ := st
  cases started <;> rfl

theorem newTurns_idx (ts : TurnState) (samples : List Int) (flush : Bool) (h : ts.tail.length ≤ ts.head) :
    (∀ p ∈ (newTurns ts samples flush).2, p.1 < ts.head + samples.length) ∧
    (newTurns ts samples flush).1.tail.length ≤ (newTurns ts samples flush).1.head := by
  unfold newTurns
  by_cases he : samples.isEmpty
  · simp [he, h]
  · simp only [he, Bool.false_eq_true, if_false]
    have hne : samples ≠ [] := by simpa using he
    have hlen : 0 < samples.length := List.length_pos_iff.mpr hne
    have hloc : ∀ p ∈ (findTurns (ts.tail ++ samples)).map (fun p => (p.1 + (ts.head - ts.tail.length), p.2)),
        p.1 < ts.head + samples.length := by
      intro p hp
      obtain ⟨q, hq, rfl⟩ := List.mem_map.mp hp
      have := Sym.findTurns_index_lt _ q hq
      simp at this ⊢; omega
    split <;> split
    all_goals first
      | (refine ⟨?_, by simp; omega⟩
         intro p hp
         rcases List.mem_append.mp hp with hp | hp
         · exact hloc p hp
         · simp at hp; subst hp; simp; omega)
      | (refine ⟨hloc, ?_⟩
         simp; omega)

/-- base (scalar) loads selected by a list of turning points -/
def baseLoads (head : Nat) (x0 : Int) (L : List Int) (turns : List Pt) : List Int :=
  turns.map fun p => if p.1 < head then x0 else L.getD (p.1 - head) 0

theorem procLoads_map (f : Int → Vec) (ts : TurnState) (last : Vec) (x0 : Int) (L : List Int) (flush : Bool)
    (h : ts.tail.length ≤ ts.head) (hlast : last = f x0 ∨ ts.head = 0) :
    procLoads ts last (L.map f) flush =
      (baseLoads ts.head x0 L (newTurns ts (L.map fun x => rep (f x)) flush).2).map f := by
  unfold procLoads baseLoads
  rw [List.map_map, List.map_map]
  have hidx := (newTurns_idx ts (L.map fun x => rep (f x)) flush h).1
  apply List.map_congr_left
  intro p hp
  have := hidx p hp
  simp only [List.length_map] at this
  by_cases hlt : p.1 < ts.head
  · rcases hlast with hl | hl
    · simp [hlt, hl]
    · omega
  · have hi : p.1 - ts.head < L.length := by omega
    simp [hlt, hi]

theorem rep_replicate (n : Nat) : rep (List.replicate n 0) = 0 := by
  cases n <;> simp [rep, List.replicate]

theorem getLastD_one (L : List Int) (hL : L ≠ []) (d : Vec) :
    ∃ x0, (L.map fun x => [x]).getLastD d = [x0] := by
  refine ⟨L.getLast hL, ?_⟩
  rw [List.getLastD_eq_getLast?, List.getLast?_map, List.getLast?_eq_some_getLast hL]
  rfl

/-- `process` on a one-point chunk = fold of `gTurn` over the fed loads -/
theorem process_one (law : Law) (st : State) (g : Spec.GState) (L : List Int) (flush : Bool)
    (h : RelP st st.prevLoad g) (hts : st.ts.tail.length ≤ st.ts.head)
    (hlast : (∃ x0, st.lastSample = [x0]) ∨ st.ts.head = 0)
    (hst : (st.started = true ∧ st.eMinLF ≠ [] ∧ st.eMaxLF ≠ []) ∨
      (st.started = false ∧ rep st.eMinLF = 0 ∧ rep st.eMaxLF = 0)) (hL : L ≠ []) :
    ∃ ls : List Int,
      RelP (process law st (L.map fun x => [x]) flush) (process law st (L.map fun x => [x]) flush).prevLoad
        (ls.foldl (Spec.gTurn law (st.run + 1)) g) ∧
      (process law st (L.map fun x => [x]) flush).run = st.run + 1 ∧
      (process law st (L.map fun x => [x]) flush).fed = st.fed ++ ls.map (fun x => (st.run + 1, [x])) ∧
      (process law st (L.map fun x => [x]) flush).ts.tail.length ≤ (process law st (L.map fun x => [x]) flush).ts.head ∧
      (∃ x0, (process law st (L.map fun x => [x]) flush).lastSample = [x0]) ∧
      (process law st (L.map fun x => [x]) flush).started = true ∧
      (process law st (L.map fun x => [x]) flush).eMinLF ≠ [] ∧
      (process law st (L.map fun x => [x]) flush).eMaxLF ≠ [] := by
  obtain ⟨x0, hx0⟩ : ∃ x0 : Int, st.lastSample = [x0] ∨ st.ts.head = 0 := by
    rcases hlast with ⟨x0, hx⟩ | hx
    · exact ⟨x0, Or.inl hx⟩
    · exact ⟨0, Or.inr hx⟩
  have hpl := procLoads_map (fun x => [x]) st.ts st.lastSample x0 L flush hts hx0
  generalize baseLoads st.ts.head x0 L (newTurns st.ts (List.map (fun x => rep [x]) L) flush).2 = bl at hpl
  refine ⟨bl, ?_⟩
  rw [process_eq, hpl]
  have hinit : RelP (procInit st (L.map fun x => [x]) flush) st.prevLoad g := by
    obtain ⟨⟨r1, r2, r3, r4, r5, r6, r7, r8⟩, hp, hs⟩ := h
    refine ⟨⟨r1, r2, r3, r4, r5, ?_, ?_, r8⟩, hp, hs⟩
    · simp only [procInit]
      rcases hst with ⟨hs, -, -⟩ | ⟨-, hs, -⟩
      · rw [if_pos hs]; exact r6
      · split
        · exact r6
        · rw [rep_replicate, ← r6, hs]
    · simp only [procInit]
      rcases hst with ⟨hs, -, -⟩ | ⟨-, -, hs⟩
      · rw [if_pos hs]; exact r7
      · split
        · exact r7
        · rw [rep_replicate, ← r7, hs]
  have hinitne : (procInit st (L.map fun x => [x]) flush).eMinLF ≠ [] ∧
      (procInit st (L.map fun x => [x]) flush).eMaxLF ≠ [] := by
    simp only [procInit]
    rcases hst with ⟨hs, h1, h2⟩ | ⟨hs, -, -⟩
    · rw [if_pos hs, if_pos hs]; exact ⟨h1, h2⟩
    · cases L with
      | nil => exact absurd rfl hL
      | cons a L => simp [hs]
  have hf' := fold_gTurn law (st.run + 1) bl _ _ _ hinit rfl hinitne
  have hf := hf'.1
  have hfne := hf'.2
  have hfr := fold_frame law (bl.map fun x => [x]) (procInit st (L.map fun x => [x]) flush) st.prevLoad
  simp only at hf hfne hfr ⊢
  obtain ⟨f1, f2, f3, f4, f5⟩ := hfr
  have hnt := (newTurns_idx st.ts ((L.map fun x => [x]).map rep) flush hts).2
  generalize List.foldl (turnStep law) (procInit st (List.map (fun x => [x]) L) flush, st.prevLoad)
    (List.map (fun x => [x]) bl) = r at hf hfne f1 f2 f3 f4 f5 ⊢
  refine ⟨⟨?_, ?_, ?_⟩, ?_, ?_, ?_, ?_, ?_, hfne.1, hfne.2⟩
  · exact ⟨hf.rel.res, hf.rel.iz, hf.rel.ir, hf.rel.ir1, hf.rel.lmax, hf.rel.emin, hf.rel.emax, hf.rel.recs⟩
  · exact hf.prev
  · exact hf.strains
  · simp only [f2, procInit]
  · simp only [f3, procInit, List.map_map]; rfl
  · simp only [f1, procInit]; exact hnt
  · simp only [f5, procInit]; exact getLastD_one L hL _
  · simp only [f4, procInit]

/-! ### `twoPassR` on samples of the form `L.map f` -/

def dropBase (reps : List Int) (L : List Int) : List Int :=
  match (((findTurns (reps ++ reps)).map (·.1)).filter (· < reps.length)).getLast? with
  | none => L
  | some t => if t = reps.length - 1 ∨ t = 0 then L else L.take (t + 1)

theorem dropTrailing_map (f : Int → Vec) (L : List Int) :
    dropTrailingNonReversals (L.map f) = (dropBase (L.map fun x => rep (f x)) L).map f := by
  unfold dropTrailingNonReversals dropBase
  simp only [List.map_map, List.length_map, Function.comp_def]
  generalize (List.filter _ _).getLast? = o
  cases o with
  | none => rfl
  | some t =>
    simp only
    split
    · rfl
    · simp [List.map_take]

theorem dropBase_ne (reps L : List Int) (h : L ≠ []) : dropBase reps L ≠ [] := by
  unfold dropBase
  split
  · exact h
  · split
    · exact h
    · cases L with
      | nil => exact absurd rfl h
      | cons a L => simp

def flushBase (reps : List Int) : Bool :=
  ((findTurns (reps ++ reps.tail)).map (·.1)).contains (reps.length - 1)

theorem adjustFirstRun_map (f : Int → Vec) (L : List Int) (hL : L ≠ []) (n : Nat)
    (hn : ∀ x, (f x).length = n) (h0 : f 0 = List.replicate n 0) :
    adjustFirstRunR (L.map f) = ((0 :: L).map f, flushBase ((0 :: L).map fun x => rep (f x))) := by
  cases L with
  | nil => exact absurd rfl hL
  | cons a L =>
    unfold adjustFirstRunR flushBase
    simp only [List.map_cons, List.headD_cons, hn, ← h0, List.map_map, Function.comp_def, List.length_cons,
      List.length_map]

theorem twoPass_eq (law : Law) (f : Int → Vec) (L : List Int) (hL : L ≠ []) (n : Nat)
    (hn : ∀ x, (f x).length = n) (h0 : f 0 = List.replicate n 0) :
    twoPassR law (L.map f) =
      process law (process law {} ((0 :: dropBase (L.map fun x => rep (f x)) L).map f)
        (flushBase ((0 :: dropBase (L.map fun x => rep (f x)) L).map fun x => rep (f x))))
        ((dropBase (L.map fun x => rep (f x)) L).map f) true := by
  unfold twoPassR
  simp only [dropTrailing_map]
  rw [adjustFirstRun_map f _ (dropBase_ne _ _ hL) n hn h0]

theorem relP_init : RelP {} (0 : Int) {} :=
  ⟨⟨rfl, rfl, rfl, Nat.le_refl 1, rfl, rfl, rfl, rfl⟩, rfl, rfl⟩

theorem twoPass_one (law : Law) (s : List Int) : ∃ ls1 ls2 : List Int,
    RelP (twoPassR law (s.map fun x => [x])) (twoPassR law (s.map fun x => [x])).prevLoad
      (Spec.guideline law ls1 ls2) ∧
    (twoPassR law (s.map fun x => [x])).fed =
      ls1.map (fun x => (1, [x])) ++ ls2.map (fun x => (2, [x])) := by
  by_cases hs : s = []
  · subst hs
    exact ⟨[], [], ⟨⟨rfl, rfl, rfl, Nat.le_refl 1, rfl, rfl, rfl, rfl⟩, rfl, rfl⟩, rfl⟩
  · rw [twoPass_eq law (fun x => [x]) s hs 1 (fun _ => rfl) rfl]
    simp only [rep_one]
    generalize dropBase (List.map (fun x => x) s) s = s', (dropBase_ne (List.map (fun x => x) s) s hs) = hs'
    generalize flushBase (List.map (fun x => x) (0 :: s')) = flush
    obtain ⟨ls1, h1, hrun1, hfed1, hts1, hlast1, hst1⟩ :=
      process_one law {} {} (0 :: s') flush relP_init (Nat.le_refl 0) (Or.inr rfl) (Or.inr ⟨rfl, rfl, rfl⟩) (by simp)
    obtain ⟨ls2, h2, hrun2, hfed2, -, -, -⟩ :=
      process_one law _ _ s' true h1 hts1 (Or.inl hlast1) (Or.inl hst1) hs'
    refine ⟨ls1, ls2, ?_, ?_⟩
    · rw [hrun1] at h2
      exact h2
    · rw [hfed2, hfed1, hrun1]; rfl

/-! ## Part 2: several proportionally loaded points -/

def compV (k : Nat) (v : Vec) : Vec := [v.getD k 0]
def compPt (k : Nat) (p : HPoint) : HPoint := ⟨compV k p.load, compV k p.stress, compV k p.strain⟩

theorem getD_map' (f : Int → Int) (v : Vec) (k : Nat) (hk : k < v.length) :
    (v.map f).getD k 0 = f (v.getD k 0) := by
  simp [List.getD_eq_getElem?_getD, hk]

theorem getD_vzip (f : Int → Int → Int) (a b : Vec) (k : Nat) (ha : k < a.length) (hb : k < b.length) :
    (vzip f a b).getD k 0 = f (a.getD k 0) (b.getD k 0) := by
  simp [vzip, List.getD_eq_getElem?_getD, ha, hb]

theorem length_vzip (f : Int → Int → Int) (a b : Vec) : (vzip f a b).length = min a.length b.length := by
  simp [vzip]

theorem vzip_one (f : Int → Int → Int) (a b : Int) : vzip f [a] [b] = [f a b] := rfl

theorem compPt_primary (law : Law) (k : Nat) (v : Vec) (hk : k < v.length) :
    compPt k (primary law v) = primary law (compV k v) := by
  simp only [compPt, primary, compV, List.map_cons, List.map_nil, vzip_one, HPoint.mk.injEq, true_and]
  refine ⟨?_, ?_⟩
  · rw [getD_map' _ _ _ hk]
  · rw [getD_vzip _ _ _ _ (by simpa using hk) hk, getD_map' _ _ _ hk]

theorem compPt_secondary (law : Law) (k : Nat) (p : HPoint) (v : Vec) (hk : k < v.length)
    (h1 : k < p.load.length) (h2 : k < p.stress.length) (h3 : k < p.strain.length) :
    compPt k (secondary law p v) = secondary law (compPt k p) (compV k v) := by
  have hd : k < (vzip (· - ·) v p.load).length := by rw [length_vzip]; omega
  simp only [compPt, secondary, compV, List.map_cons, List.map_nil, vzip_one, HPoint.mk.injEq, true_and]
  refine ⟨?_, ?_⟩
  · rw [getD_vzip _ _ _ _ h2 (by simpa using hd), getD_map' _ _ _ hd, getD_vzip _ _ _ _ hk h1]
  · rw [getD_vzip _ _ _ _ h3 (by rw [length_vzip]; simp; omega),
      getD_vzip _ _ _ _ (by simpa using hd) hd, getD_map' _ _ _ hd, getD_vzip _ _ _ _ hk h1]

def fA (cs : List Int) (l : Int) : Vec := cs.map (· * l)
def fB (c : Int) (l : Int) : Vec := [c * l]

/-- copy of `C05.SignPreserving` -/
def SignPreserving' (law : Law) : Prop :=
  ∀ d : Int, (0 < d → 0 < law.dsigma d ∧ 0 < law.deps (law.dsigma d) d) ∧
             (d < 0 → law.dsigma d < 0 ∧ law.deps (law.dsigma d) d < 0) ∧
             (d = 0 → law.dsigma d = 0 ∧ law.deps (law.dsigma d) d = 0)

/-- copy of `C05.proj` -/
def proj' (k : Nat) (h : Hyst) : List Int × Bool × Bool × Nat :=
  ([h.loadMin.getD k 0, h.loadMax.getD k 0, h.sMin.getD k 0, h.sMax.getD k 0, h.eMin.getD k 0, h.eMax.getD k 0],
   h.closed, h.zeroMean, h.run)

structure WFP (cs : List Int) (p : HPoint) : Prop where
  load : ∃ l, p.load = fA cs l
  stress : p.stress.length = cs.length
  strain : p.strain.length = cs.length

theorem rep_eq_getD (v : Vec) : rep v = v.getD 0 0 := by cases v <;> rfl

theorem getD_fA (cs : List Int) (l : Int) (j : Nat) (hj : j < cs.length) :
    (fA cs l).getD j 0 = cs.getD j 1 * l := by
  unfold fA
  rw [getD_map' _ _ _ hj]
  simp [List.getD_eq_getElem?_getD, hj]

theorem length_fA (cs : List Int) (l : Int) : (fA cs l).length = cs.length := by simp [fA]

theorem compV_fA (cs : List Int) (l : Int) (k : Nat) (hk : k < cs.length) :
    compV k (fA cs l) = fB (cs.getD k 1) l := by
  simp only [compV, fB, getD_fA cs l k hk]

theorem getD_pos (cs : List Int) (hc : ∀ c ∈ cs, 0 < c) (j : Nat) (hj : j < cs.length) : 0 < cs.getD j 1 := by
  have : cs.getD j 1 = cs[j] := by simp [List.getD_eq_getElem?_getD, hj]
  rw [this]; exact hc _ (List.getElem_mem hj)

theorem wfp_primary (law : Law) (cs : List Int) (l : Int) : WFP cs (primary law (fA cs l)) :=
  ⟨⟨l, rfl⟩, by simp [primary, length_fA], by simp [primary, length_vzip, length_fA]⟩

theorem wfp_secondary (law : Law) (cs : List Int) (p : HPoint) (w : WFP cs p) (l : Int) :
    WFP cs (secondary law p (fA cs l)) := by
  obtain ⟨⟨l0, h0⟩, h1, h2⟩ := w
  refine ⟨⟨l, rfl⟩, ?_, ?_⟩ <;> simp [secondary, length_vzip, length_fA, h0, h1, h2]

/-- order of the two points of a closed hysteresis, in every component -/
theorem sec_order (law : Law) (hl : SignPreserving' law) (cs : List Int) (hc : ∀ c ∈ cs, 0 < c)
    (p0 p1 : HPoint) (l0 l1 : Int) (h0 : p0.load = fA cs l0) (h1 : p1.load = fA cs l1)
    (w0 : WFP cs p0) (hsec : p1 = secondary law p0 p1.load) (j : Nat) (hj : j < cs.length) :
    (p0.load.getD j 0 < p1.load.getD j 0 ↔ l0 < l1) ∧ (p0.load.getD j 0 > p1.load.getD j 0 ↔ l0 > l1) ∧
    (p0.stress.getD j 0 < p1.stress.getD j 0 ↔ l0 < l1) ∧ (p0.stress.getD j 0 > p1.stress.getD j 0 ↔ l0 > l1) ∧
    (p0.strain.getD j 0 < p1.strain.getD j 0 ↔ l0 < l1) ∧ (p0.strain.getD j 0 > p1.strain.getD j 0 ↔ l0 > l1) := by
  have hcp := getD_pos cs hc j hj
  have hs : p1.stress = vzip (· + ·) p0.stress ((vzip (· - ·) p1.load p0.load).map law.dsigma) :=
    congrArg HPoint.stress hsec
  have he : p1.strain = vzip (· + ·) p0.strain
      (vzip law.deps ((vzip (· - ·) p1.load p0.load).map law.dsigma) (vzip (· - ·) p1.load p0.load)) :=
    congrArg HPoint.strain hsec
  have hd : j < (vzip (· - ·) p1.load p0.load).length := by
    rw [length_vzip, h0, h1, length_fA, length_fA]; omega
  have e1 : p1.stress.getD j 0 = p0.stress.getD j 0 + law.dsigma (cs.getD j 1 * l1 - cs.getD j 1 * l0) := by
    rw [hs, getD_vzip _ _ _ _ (by rw [w0.stress]; exact hj) (by simpa using hd), getD_map' _ _ _ hd,
      getD_vzip _ _ _ _ (by rw [h1, length_fA]; exact hj) (by rw [h0, length_fA]; exact hj), h0, h1,
      getD_fA _ _ _ hj, getD_fA _ _ _ hj]
  have e2 : p1.strain.getD j 0 = p0.strain.getD j 0 +
      law.deps (law.dsigma (cs.getD j 1 * l1 - cs.getD j 1 * l0)) (cs.getD j 1 * l1 - cs.getD j 1 * l0) := by
    rw [he, getD_vzip _ _ _ _ (by rw [w0.strain]; exact hj) (by rw [length_vzip]; simp; omega),
      getD_vzip _ _ _ _ (by simpa using hd) hd, getD_map' _ _ _ hd,
      getD_vzip _ _ _ _ (by rw [h1, length_fA]; exact hj) (by rw [h0, length_fA]; exact hj), h0, h1,
      getD_fA _ _ _ hj, getD_fA _ _ _ hj]
  rw [e1, e2, h0, h1, getD_fA _ _ _ hj, getD_fA _ _ _ hj]
  generalize cs.getD j 1 = c at hcp ⊢
  obtain ⟨hp, hn, hz⟩ := hl (c * l1 - c * l0)
  rcases Int.lt_trichotomy l0 l1 with h | h | h
  · have hx : c * l0 < c * l1 := by nlinarith
    obtain ⟨a1, a2⟩ := hp (by omega)
    refine ⟨?_, ?_, ?_, ?_, ?_, ?_⟩ <;> constructor <;> intro _ <;> omega
  · subst h
    obtain ⟨a1, a2⟩ := hz (by omega)
    refine ⟨?_, ?_, ?_, ?_, ?_, ?_⟩ <;> constructor <;> intro _ <;> omega
  · have hx : c * l1 < c * l0 := by nlinarith
    obtain ⟨a1, a2⟩ := hn (by omega)
    refine ⟨?_, ?_, ?_, ?_, ?_, ?_⟩ <;> constructor <;> intro _ <;> omega

theorem getD_ite (c : Prop) [Decidable c] (a b : Vec) (k : Nat) :
    (if c then a else b).getD k 0 = if c then a.getD k 0 else b.getD k 0 := by
  split <;> rfl

theorem closed_proj (law : Law) (hl : SignPreserving' law) (cs : List Int) (hc : ∀ c ∈ cs, 0 < c)
    (k : Nat) (hk : k < cs.length) (a b : State) (hrun : b.run = a.run) (p0 p1 : HPoint)
    (w0 : WFP cs p0) (w1 : WFP cs p1) (hsec : p1 = secondary law p0 p1.load) :
    proj' k (closedHyst a p0 p1) = proj' 0 (closedHyst b (compPt k p0) (compPt k p1)) := by
  obtain ⟨l0, h0⟩ := w0.load
  obtain ⟨l1, h1⟩ := w1.load
  obtain ⟨a1, a2, a3, a4, a5, a6⟩ := sec_order law hl cs hc p0 p1 l0 l1 h0 h1 w0 hsec 0 (by omega)
  obtain ⟨b1, b2, b3, b4, b5, b6⟩ := sec_order law hl cs hc p0 p1 l0 l1 h0 h1 w0 hsec k hk
  simp only [proj', closedHyst, compPt, compV, rep_eq_getD, if_true, Bool.false_eq_true, if_false,
    List.getD_cons_zero, a1, a2, a3, a4, a5, a6, b1, b2, b3, b4, b5, b6, getD_ite, hrun]

theorem half_proj (cs : List Int) (k : Nat) (hk : k < cs.length) (a b : State) (hrun : b.run = a.run)
    (p : HPoint) (w : WFP cs p) :
    proj' k (halfHyst a p) = proj' 0 (halfHyst b (compPt k p)) := by
  obtain ⟨⟨l, h0⟩, h1, h2⟩ := w
  have hl : p.load.length = cs.length := by rw [h0, length_fA]
  simp only [proj', halfHyst, compPt, compV, vneg, vabs, hrun, List.map_cons, List.map_nil,
    List.getD_cons_zero]
  rw [getD_map' _ _ _ (by simp; omega), getD_map' _ _ _ (by omega),
    getD_map' _ _ _ (by simp; omega), getD_map' _ _ _ (by omega),
    getD_map' _ _ _ (by simp; omega), getD_map' _ _ _ (by omega)]

/-- every residual above the primary path was reached from the one below it on a secondary branch -/
def SecChain (law : Law) (ir : Nat) : List HPoint → Prop
  | p1 :: p0 :: rest =>
    ((p0 :: rest).length ≥ ir → p1 = secondary law p0 p1.load) ∧ SecChain law ir (p0 :: rest)
  | _ => True

theorem secChain_mono (law : Law) (ir : Nat) : ∀ l : List HPoint, SecChain law ir l → SecChain law (ir + 1) l
  | [] => fun _ => trivial
  | [_] => fun _ => trivial
  | p1 :: p0 :: rest => fun h => ⟨fun hh => h.1 (by omega), secChain_mono law ir (p0 :: rest) h.2⟩

theorem secChain_tail (law : Law) (ir : Nat) (p : HPoint) : ∀ l : List HPoint,
    SecChain law ir (p :: l) → SecChain law ir l
  | [] => fun _ => trivial
  | _ :: _ => fun h => h.2

structure Sim (law : Law) (cs : List Int) (k : Nat) (a b : State) : Prop where
  res : b.res = a.res.map (compPt k)
  wf : ∀ p ∈ a.res, WFP cs p
  chain : SecChain law a.ir a.res
  iz : a.iz = a.res.length
  izb : b.iz = a.iz
  irb : b.ir = a.ir
  ir1 : 1 ≤ a.ir
  lmax : ∃ M, a.loadMax = (rep cs).natAbs * M ∧ b.loadMax = (cs.getD k 1).natAbs * M
  run : b.run = a.run
  recs : a.recs.map (proj' k) = b.recs.map (proj' 0)

theorem dec_max (c : Int) (hc : 0 < c) (l : Int) (M : Nat) :
    ((c * l).natAbs > c.natAbs * M) ↔ (l.natAbs > M) := by
  rw [Int.natAbs_mul]
  exact Nat.mul_lt_mul_left (by omega)

theorem dec_ext (c : Int) (hc : 0 < c) (l l1 l0 : Int) :
    ((c * l - c * l1).natAbs < (c * l1 - c * l0).natAbs) ↔ ((l - l1).natAbs < (l1 - l0).natAbs) := by
  rw [← Int.mul_sub, ← Int.mul_sub, Int.natAbs_mul, Int.natAbs_mul]
  exact Nat.mul_lt_mul_left (by omega)

theorem rep_fA (cs : List Int) (h : 0 < cs.length) (l : Int) : rep (fA cs l) = rep cs * l := by
  cases cs with
  | nil => simp at h
  | cons c cs => simp [fA, rep]

theorem rep_pos (cs : List Int) (hc : ∀ c ∈ cs, 0 < c) (h : 0 < cs.length) : 0 < rep cs := by
  cases cs with
  | nil => simp at h
  | cons c cs => simpa [rep] using hc c (by simp)

theorem rep_fB (c l : Int) : rep (fB c l) = c * l := by simp [fB, rep]

theorem fA_zero (cs : List Int) : fA cs 0 = List.replicate cs.length 0 := by
  unfold fA
  apply List.ext_getElem <;> simp

theorem sim_noteStrain (law : Law) (cs : List Int) (k : Nat) (a b : State) (p q : HPoint)
    (h : Sim law cs k a b) : Sim law cs k (noteStrain a p) (noteStrain b q) :=
  ⟨h.res, h.wf, h.chain, h.iz, h.izb, h.irb, h.ir1, h.lmax, h.run, h.recs⟩

theorem sim_updateLF (law : Law) (cs : List Int) (k : Nat) (a b : State) (x y x' y' : Int) (p q : HPoint)
    (h : Sim law cs k a b) : Sim law cs k (updateLF a x y p) (updateLF b x' y' q) := by
  unfold updateLF
  by_cases h1 : x < y <;> by_cases h2 : x' < y' <;> simp only [h1, h2, if_true, if_false] <;>
    exact ⟨h.res, h.wf, h.chain, h.iz, h.izb, h.irb, h.ir1, h.lmax, h.run, h.recs⟩

/-! ### turning points of positively scaled signals -/

theorem findTurns_scale (c : Int) (hc : c ≠ 0) (s : List Int) :
    findTurns (s.map (c * ·)) = (findTurns s).map fun p => (p.1, c * p.2) := by
  have := Sym.findTurns_affine_ne c 0 hc s
  simpa using this

theorem getLast!_map_scale (c : Int) (l : List Int) (h : l ≠ []) :
    (l.map (c * ·)).getLast! = c * l.getLast! := by
  have hx : l.getLast? = some (l.getLast h) := List.getLast?_eq_some_getLast h
  simp [List.getLast!_eq_getLast?_getD, List.getLast?_map, hx]

theorem newTurns_scale (c : Int) (hc : c ≠ 0) (T : List Int) (h : Nat) (S : List Int) (flush : Bool) :
    newTurns ⟨T.map (c * ·), h⟩ (S.map (c * ·)) flush =
      (⟨(newTurns ⟨T, h⟩ S flush).1.tail.map (c * ·), (newTurns ⟨T, h⟩ S flush).1.head⟩,
       (newTurns ⟨T, h⟩ S flush).2.map fun p => (p.1, c * p.2)) := by
  unfold newTurns
  by_cases he : S = []
  · subst he; simp
  · simp only [List.isEmpty_map, List.isEmpty_iff, he, if_false, ← List.map_append, findTurns_scale c hc,
      List.getLast?_map, List.length_map, List.map_map]
    have aux : ∀ D : List Int,
        (if (flush && !(D.map (c * ·)).isEmpty) = true then
          (({ tail := [(D.map (c * ·)).getLast!], head := h + S.length } : TurnState),
            List.map ((fun p : Pt => (p.1 + (h - T.length), p.2)) ∘ fun p => (p.1, c * p.2)) (findTurns (T ++ S)) ++
              [(h + S.length - 1, (D.map (c * ·)).getLast!)])
        else ({ tail := D.map (c * ·), head := h + S.length },
            List.map ((fun p : Pt => (p.1 + (h - T.length), p.2)) ∘ fun p => (p.1, c * p.2)) (findTurns (T ++ S)))) =
        ({ tail := List.map (c * ·) (if (flush && !D.isEmpty) = true then
                (({ tail := [D.getLast!], head := h + S.length } : TurnState),
                  List.map (fun p : Pt => (p.1 + (h - T.length), p.2)) (findTurns (T ++ S)) ++ [(h + S.length - 1, D.getLast!)])
              else ({ tail := D, head := h + S.length },
                  List.map (fun p : Pt => (p.1 + (h - T.length), p.2)) (findTurns (T ++ S)))).1.tail,
           head := (if (flush && !D.isEmpty) = true then
                (({ tail := [D.getLast!], head := h + S.length } : TurnState),
                  List.map (fun p : Pt => (p.1 + (h - T.length), p.2)) (findTurns (T ++ S)) ++ [(h + S.length - 1, D.getLast!)])
              else ({ tail := D, head := h + S.length },
                  List.map (fun p : Pt => (p.1 + (h - T.length), p.2)) (findTurns (T ++ S)))).1.head },
         List.map (fun p : Pt => (p.1, c * p.2)) (if (flush && !D.isEmpty) = true then
                (({ tail := [D.getLast!], head := h + S.length } : TurnState),
                  List.map (fun p : Pt => (p.1 + (h - T.length), p.2)) (findTurns (T ++ S)) ++ [(h + S.length - 1, D.getLast!)])
              else ({ tail := D, head := h + S.length },
                  List.map (fun p : Pt => (p.1 + (h - T.length), p.2)) (findTurns (T ++ S)))).2) := by
      intro D
      by_cases hd : D = []
      · subst hd; simp [Function.comp_def]
      · rw [getLast!_map_scale c D hd]
        cases flush <;> simp [hd, Function.comp_def]
    cases (findTurns (T ++ S)).getLast? with
    | none => simp only [Option.map_none, ← List.map_drop]; exact aux _
    | some q => simp only [Option.map_some, ← List.map_drop]; exact aux _

theorem baseLoads_scale (c : Int) (h : Nat) (x0 : Int) (L : List Int) (turns : List Pt) :
    baseLoads h x0 L (turns.map fun p => (p.1, c * p.2)) = baseLoads h x0 L turns := by
  simp [baseLoads, Function.comp_def]

theorem dropBase_scale (c : Int) (hc : c ≠ 0) (S L : List Int) : dropBase (S.map (c * ·)) L = dropBase S L := by
  unfold dropBase
  rw [← List.map_append, findTurns_scale c hc, List.map_map, List.length_map]
  rfl

theorem flushBase_scale (c : Int) (hc : c ≠ 0) (S : List Int) : flushBase (S.map (c * ·)) = flushBase S := by
  unfold flushBase
  rw [← List.map_tail, ← List.map_append, findTurns_scale c hc, List.map_map, List.length_map]
  rfl

/-! ### the running strain extremes (kept per point, element-wise): one-run facts -/

/-- copy of `C05.projLF` -/
def projLF' (k : Nat) (h : Hyst) : Int × Int := (h.eMinLF.getD k 0, h.eMaxLF.getD k 0)

/-- the records appended by `processSample` carry the running extremes of the incoming state -/
theorem ps_newrecs (law : Law) (load : Vec) (fuel : Nat) (st : State) :
    ∃ news, (processSample law load fuel st).1.recs = st.recs ++ news ∧
      ∀ h ∈ news, h.eMinLF = st.eMinLF ∧ h.eMaxLF = st.eMaxLF := by
  fun_induction processSample law load fuel st with
  | case1 st => exact ⟨[], by simp, by simp⟩
  | case2 fuel st cur h prev rest hres hgt p st' =>
    exact ⟨[halfHyst st prev], rfl, by simp [halfHyst]⟩
  | case3 fuel st cur h prev rest hres hgt p => exact ⟨[], by simp [noteStrain], by simp⟩
  | case4 => exact ⟨[], by simp, by simp⟩
  | case5 => exact ⟨[], by simp [noteStrain], by simp⟩
  | case6 fuel st cur h hlt p1 p0 rest hres curExt prevExt hc p =>
    exact ⟨[], by simp [noteStrain], by simp⟩
  | case7 fuel st cur h hlt p1 p0 rest hres curExt prevExt hc st' hge ih =>
    obtain ⟨news, h1, h2⟩ := ih
    refine ⟨closedHyst st p0 p1 :: news, ?_, ?_⟩
    · rw [h1]; simp [st']
    · intro x hx
      rcases List.mem_cons.mp hx with rfl | hx
      · exact ⟨rfl, rfl⟩
      · exact h2 x hx
  | case8 fuel st cur h hlt p1 p0 rest hres curExt prevExt hc st' hge p =>
    exact ⟨[closedHyst st p0 p1], rfl, by simp [closedHyst]⟩
  | case9 => exact ⟨[], by simp, by simp⟩

structure LFX (cs : List Int) (k : Nat) (a b : State) : Prop where
  emin : b.eMinLF = compV k a.eMinLF
  emax : b.eMaxLF = compV k a.eMaxLF
  lmin : a.eMinLF.length = cs.length
  lmax : a.eMaxLF.length = cs.length
  recs : a.recs.map (projLF' k) = b.recs.map (projLF' 0)

theorem map_eq_replicate {α β : Type} (f : α → β) (x : β) (l : List α) (h : ∀ a ∈ l, f a = x) :
    l.map f = List.replicate l.length x := by
  induction l with
  | nil => rfl
  | cons a l ih =>
    simp only [List.map_cons, List.length_cons, List.replicate_succ]
    rw [h a (by simp), ih (fun b hb => h b (by simp [hb]))]

theorem compV_vzip (f : Int → Int → Int) (a b : Vec) (k : Nat) (ha : k < a.length) (hb : k < b.length) :
    compV k (vzip f a b) = vzip f (compV k a) (compV k b) := by
  simp only [compV, vzip_one, getD_vzip f a b k ha hb]

theorem compV_replicate (n : Nat) (j : Nat) (hj : j < n) : compV j (List.replicate n 0) = [0] := by
  simp [compV, List.getD_eq_getElem?_getD, hj]

theorem ite_state_eMinLF (c : Prop) [Decidable c] (s : State) (m : Nat) :
    (if c then { s with loadMax := m } else s).eMinLF = s.eMinLF := by split <;> rfl
theorem ite_state_eMaxLF (c : Prop) [Decidable c] (s : State) (m : Nat) :
    (if c then { s with loadMax := m } else s).eMaxLF = s.eMaxLF := by split <;> rfl
theorem ite_state_recs (c : Prop) [Decidable c] (s : State) (m : Nat) :
    (if c then { s with loadMax := m } else s).recs = s.recs := by split <;> rfl

section sim
variable (law : Law) (hl : SignPreserving' law) (cs : List Int) (hc : ∀ c ∈ cs, 0 < c) (k : Nat)
  (hk : k < cs.length)
include hl hc hk

theorem ps_sim (l : Int) : ∀ (fuel : Nat) (a b : State), Sim law cs k a b → a.res.length / 2 + 1 ≤ fuel →
    Sim law cs k (processSample law (fA cs l) fuel a).1 (processSample law (fB (cs.getD k 1) l) fuel b).1 ∧
    (processSample law (fB (cs.getD k 1) l) fuel b).2 = compPt k (processSample law (fA cs l) fuel a).2 ∧
    WFP cs (processSample law (fA cs l) fuel a).2 ∧
    (∀ p0 rest, (processSample law (fA cs l) fuel a).1.res = p0 :: rest →
      (processSample law (fA cs l) fuel a).1.ir ≤ (processSample law (fA cs l) fuel a).1.res.length →
      (processSample law (fA cs l) fuel a).2 = secondary law p0 (processSample law (fA cs l) fuel a).2.load) := by
  have hn : 0 < cs.length := by omega
  have hc0 := rep_pos cs hc hn
  have hck := getD_pos cs hc k hk
  have hprim : primary law (fB (cs.getD k 1) l) = compPt k (primary law (fA cs l)) := by
    rw [compPt_primary law k _ (by rw [length_fA]; exact hk), compV_fA cs l k hk]
  intro fuel
  induction fuel with
  | zero => intro a b _ h; omega
  | succ fuel ih =>
    intro a b hs hf
    obtain ⟨hres, hwf, hch, hiz, hizb, hirb, hir1, ⟨M, hMa, hMb⟩, hrun, hrecs⟩ := hs
    rw [processSample, processSample]
    obtain ⟨tsa, resa, iza, ira, lma, runa, eMinLFa, eMaxLFa, starteda, lastSamplea, prevLoada, sva, nFirsta, recsa, feda⟩ := a
    obtain ⟨tsb, resb, izb, irb, lmb, runb, eMinLFb, eMaxLFb, startedb, lastSampleb, prevLoadb, svb, nFirstb, recsb, fedb⟩ := b
    simp only at hres hwf hch hiz hizb hirb hir1 hMa hMb hrun hrecs hf
    subst hres hiz hizb hirb hMa hMb hrun
    simp only [rep_fA cs hn, rep_fB]
    rcases Nat.lt_trichotomy resa.length irb with hlt | heq | hgt
    · rw [if_neg (by omega), if_pos hlt, if_neg (by omega), if_pos hlt]
      refine ⟨⟨?_, ?_, ?_, ?_, ?_, ?_, ?_, ?_, ?_, ?_⟩, ?_, ?_, ?_⟩
      all_goals first | assumption | rfl | exact ⟨M, rfl, rfl⟩ | exact hprim | exact wfp_primary law cs l | skip
      intro p0 rest h1 h2
      simp only [noteStrain] at h1 h2
      omega
    · rw [if_pos heq, if_pos heq]
      cases resa with
      | nil => simp at heq; omega
      | cons prev resa =>
        have wprev : WFP cs prev := hwf prev (by simp)
        have hsecd : secondary law (compPt k prev) (fB (cs.getD k 1) l) =
            compPt k (secondary law prev (fA cs l)) := by
          obtain ⟨⟨l0, h0⟩, h1, h2⟩ := wprev
          rw [compPt_secondary law k prev _ (by rw [length_fA]; exact hk) (by rw [h0, length_fA]; exact hk)
            (by omega) (by omega), compV_fA cs l k hk]
        simp only [List.map_cons]
        by_cases hd : l.natAbs > M
        · rw [if_pos ((dec_max _ hc0 l M).mpr hd), if_pos ((dec_max _ hck l M).mpr hd)]
          refine ⟨⟨?_, ?_, ?_, ?_, ?_, ?_, ?_, ?_, ?_, ?_⟩, ?_, ?_, ?_⟩
          all_goals first | assumption | rfl | exact ⟨M, rfl, rfl⟩ | exact hprim | exact wfp_primary law cs l | skip
          · exact secChain_mono law irb _ hch
          · simp only [noteStrain]; omega
          · simp only [noteStrain, List.map_append, hrecs, List.map_cons, List.map_nil]
            refine congrArg _ (congrArg (fun x => [x]) (half_proj cs k hk _ _ ?_ prev wprev))
            rfl
          · intro p0 rest h1 h2
            simp only [noteStrain] at h1 h2
            omega
        · rw [if_neg (mt (dec_max _ hc0 l M).mp hd), if_neg (mt (dec_max _ hck l M).mp hd)]
          refine ⟨⟨?_, ?_, ?_, ?_, ?_, ?_, ?_, ?_, ?_, ?_⟩, ?_, ?_, ?_⟩
          all_goals first | assumption | rfl | exact ⟨M, rfl, rfl⟩ | exact hsecd | exact wfp_secondary law cs _ wprev l | skip
          intro p0 rest h1 h2
          simp only [noteStrain, List.cons.injEq] at h1
          rw [← h1.1]; rfl
    · rw [if_neg (by omega), if_neg (by omega), if_neg (by omega), if_neg (by omega)]
      rcases resa with _ | ⟨p1, _ | ⟨p0, rest⟩⟩
      · simp at hgt
      · simp at hgt; omega
      · have w1 : WFP cs p1 := hwf p1 (by simp)
        have w0 : WFP cs p0 := hwf p0 (by simp)
        have hsecd : secondary law (compPt k p1) (fB (cs.getD k 1) l) =
            compPt k (secondary law p1 (fA cs l)) := by
          obtain ⟨⟨l0, h0⟩, h1, h2⟩ := w1
          rw [compPt_secondary law k p1 _ (by rw [length_fA]; exact hk) (by rw [h0, length_fA]; exact hk)
            (by omega) (by omega), compV_fA cs l k hk]
        obtain ⟨l1, hl1⟩ := w1.load
        obtain ⟨l0, hl0⟩ := w0.load
        simp only [List.map_cons, List.length_cons] at hgt hf ⊢
        have e1 : rep (compPt k p1).load = cs.getD k 1 * l1 := by
          simp only [compPt, hl1, compV_fA cs _ k hk, rep_fB]
        have e0 : rep (compPt k p0).load = cs.getD k 1 * l0 := by
          simp only [compPt, hl0, compV_fA cs _ k hk, rep_fB]
        rw [e1, e0, hl1, hl0, rep_fA cs hn, rep_fA cs hn]
        by_cases hd : (l - l1).natAbs < (l1 - l0).natAbs
        · rw [if_pos ((dec_ext _ hc0 l l1 l0).mpr hd), if_pos ((dec_ext _ hck l l1 l0).mpr hd)]
          refine ⟨sim_noteStrain law cs k _ _ _ _ ⟨rfl, hwf, hch, rfl, rfl, rfl, hir1, ⟨M, rfl, rfl⟩, rfl, hrecs⟩,
            hsecd, wfp_secondary law cs _ w1 l, ?_⟩
          intro q0 rest' h1 h2
          simp only [noteStrain, List.cons.injEq] at h1
          rw [← h1.1]; rfl
        · rw [if_neg (mt (dec_ext _ hc0 l l1 l0).mp hd), if_neg (mt (dec_ext _ hck l l1 l0).mp hd)]
          have hsec : p1 = secondary law p0 p1.load := hch.1 (by simp; omega)
          have hsim' : Sim law cs k
              { ts := tsa, res := rest, iz := rest.length + 1 + 1 - 2, ir := irb, loadMax := (rep cs).natAbs * M,
                run := runb, eMinLF := eMinLFa, eMaxLF := eMaxLFa, started := starteda,
                lastSample := lastSamplea, prevLoad := prevLoada, strainValues := sva, nFirst := nFirsta,
                recs := recsa ++ [closedHyst
                  { ts := tsa, res := p1 :: p0 :: rest, iz := rest.length + 1 + 1, ir := irb,
                    loadMax := (rep cs).natAbs * M, run := runb, eMinLF := eMinLFa, eMaxLF := eMaxLFa,
                    started := starteda, lastSample := lastSamplea, prevLoad := prevLoada, strainValues := sva,
                    nFirst := nFirsta, recs := recsa, fed := feda } p0 p1], fed := feda }
              { ts := tsb, res := rest.map (compPt k), iz := rest.length + 1 + 1 - 2, ir := irb,
                loadMax := (cs.getD k 1).natAbs * M,
                run := runb, eMinLF := eMinLFb, eMaxLF := eMaxLFb, started := startedb,
                lastSample := lastSampleb, prevLoad := prevLoadb, strainValues := svb, nFirst := nFirstb,
                recs := recsb ++ [closedHyst
                  { ts := tsb, res := compPt k p1 :: compPt k p0 :: rest.map (compPt k), iz := rest.length + 1 + 1,
                    ir := irb, loadMax := (cs.getD k 1).natAbs * M, run := runb, eMinLF := eMinLFb,
                    eMaxLF := eMaxLFb, started := startedb, lastSample := lastSampleb, prevLoad := prevLoadb,
                    strainValues := svb, nFirst := nFirstb, recs := recsb, fed := fedb }
                  (compPt k p0) (compPt k p1)], fed := fedb } := by
            refine ⟨rfl, fun p hp => hwf p (by simp [hp]), secChain_tail law irb p0 rest (secChain_tail law irb p1 _ hch),
              by simp, rfl, rfl, hir1, ⟨M, rfl, rfl⟩, rfl, ?_⟩
            simp only [List.map_append, hrecs, List.map_cons, List.map_nil]
            refine congrArg _ (congrArg (fun x => [x]) (closed_proj law hl cs hc k hk _ _ ?_ p0 p1 w0 w1 hsec))
            rfl
          by_cases hge : rest.length + 1 + 1 - 2 ≥ irb
          · rw [if_pos hge, if_pos hge]
            exact ih _ _ hsim' (by simp; omega)
          · rw [if_neg hge, if_neg hge]
            refine ⟨sim_noteStrain law cs k _ _ _ _ hsim', hprim, wfp_primary law cs l, ?_⟩
            intro q0 rest' h1 h2
            simp only [noteStrain] at h1 h2
            omega

theorem ts_sim (l : Int) (a b : State) (pa pb : Int) (h : Sim law cs k a b) :
    Sim law cs k (turnStep law (a, pa) (fA cs l)).1 (turnStep law (b, pb) (fB (cs.getD k 1) l)).1 := by
  have hn : 0 < cs.length := by omega
  have hc0 := rep_pos cs hc hn
  have hck := getD_pos cs hc k hk
  have hlen : b.res.length = a.res.length := by rw [h.res]; simp
  have h' : Sim law cs k { a with fed := a.fed ++ [(a.run, fA cs l)] }
      { b with fed := b.fed ++ [(b.run, fB (cs.getD k 1) l)] } :=
    ⟨h.res, h.wf, h.chain, h.iz, h.izb, h.irb, h.ir1, h.lmax, h.run, h.recs⟩
  have key := ps_sim law hl cs hc k hk l (a.res.length / 2 + 2) _ _ h' (by simp)
  have hload := Common.processSample_load law (fA cs l) (a.res.length / 2 + 2)
    { a with fed := a.fed ++ [(a.run, fA cs l)] }
  simp only [turnStep, hlen, rep_fA cs hn, rep_fB]
  generalize processSample law (fA cs l) (a.res.length / 2 + 2) _ = psa at key hload ⊢
  generalize processSample law (fB (cs.getD k 1) l) (a.res.length / 2 + 2) _ = psb at key ⊢
  obtain ⟨a', p⟩ := psa
  obtain ⟨b', q⟩ := psb
  obtain ⟨hs, hq, hw, hpost⟩ := key
  simp only at hs hq hw hpost hload ⊢
  subst hq
  apply sim_updateLF
  obtain ⟨r1, r2, r3, r4, r5, r6, r7, ⟨M, hMa, hMb⟩, r9, r10⟩ := hs
  have hchain : SecChain law a'.ir (p :: a'.res) := by
    cases hres : a'.res with
    | nil => trivial
    | cons p0 rest =>
      rw [hres] at r3
      exact ⟨fun hge => hpost p0 rest hres (by rw [hres]; exact hge), r3⟩
  have hwf : ∀ x ∈ p :: a'.res, WFP cs x := by
    intro x hx
    rcases List.mem_cons.mp hx with rfl | hx
    · exact hw
    · exact r2 x hx
  rw [hMa, hMb]
  by_cases hd : l.natAbs > M
  · rw [if_pos ((dec_max _ hc0 l M).mpr hd), if_pos ((dec_max _ hck l M).mpr hd)]
    exact ⟨by simp [r1], hwf, hchain, by simp [r4], by simp [r5], r6, r7,
      ⟨l.natAbs, Int.natAbs_mul _ _, Int.natAbs_mul _ _⟩, r9, r10⟩
  · rw [if_neg (mt (dec_max _ hc0 l M).mp hd), if_neg (mt (dec_max _ hck l M).mp hd)]
    exact ⟨by simp [r1], hwf, hchain, by simp [r4], by simp [r5], r6, r7, ⟨M, hMa, hMb⟩, r9, r10⟩

theorem fold_sim : ∀ (ls : List Int) (a b : State) (pa pb : Int), Sim law cs k a b →
    Sim law cs k ((ls.map (fA cs)).foldl (turnStep law) (a, pa)).1
      ((ls.map (fB (cs.getD k 1))).foldl (turnStep law) (b, pb)).1 := by
  intro ls
  induction ls with
  | nil => intro a b pa pb h; exact h
  | cons x ls ih =>
    intro a b pa pb h
    simp only [List.map_cons, List.foldl_cons]
    exact ih (turnStep law (a, pa) (fA cs x)).1 (turnStep law (b, pb) (fB (cs.getD k 1) x)).1
      (turnStep law (a, pa) (fA cs x)).2 (turnStep law (b, pb) (fB (cs.getD k 1) x)).2
      (ts_sim law hl cs hc k hk x a b pa pb h)

/-- process-level simulation relation -/
structure PSim (a b : State) : Prop where
  sim : Sim law cs k a b
  head : b.ts.head = a.ts.head
  tail : ∃ T : List Int, a.ts.tail = T.map (rep cs * ·) ∧ b.ts.tail = T.map (cs.getD k 1 * ·)
  tl : a.ts.tail.length ≤ a.ts.head
  last : (∃ x0, a.lastSample = fA cs x0 ∧ b.lastSample = fB (cs.getD k 1) x0) ∨ a.ts.head = 0

theorem process_sim (L : List Int) (flush : Bool) (a b : State) (h : PSim law cs k a b) (hL : L ≠ []) :
    PSim law cs k (process law a (L.map (fA cs)) flush) (process law b (L.map (fB (cs.getD k 1))) flush) := by
  have hn : 0 < cs.length := by omega
  have hc0 := rep_pos cs hc hn
  have hck := getD_pos cs hc k hk
  obtain ⟨hs, hhead, ⟨T, hTa, hTb⟩, htl, hlast⟩ := h
  obtain ⟨x0, hx0⟩ : ∃ x0, (a.lastSample = fA cs x0 ∧ b.lastSample = fB (cs.getD k 1) x0) ∨ a.ts.head = 0 := by
    rcases hlast with ⟨x0, hx⟩ | hx
    · exact ⟨x0, Or.inl hx⟩
    · exact ⟨0, Or.inr hx⟩
  have htlb : b.ts.tail.length ≤ b.ts.head := by
    rw [hhead, hTb]; rw [hTa] at htl; simpa using htl
  have hla := procLoads_map (fA cs) a.ts a.lastSample x0 L flush htl
    (by rcases hx0 with h | h; exact Or.inl h.1; exact Or.inr h)
  have hlb := procLoads_map (fB (cs.getD k 1)) b.ts b.lastSample x0 L flush htlb
    (by rcases hx0 with h | h; exact Or.inl h.2; exact Or.inr (hhead.trans h))
  have hta : a.ts = ⟨T.map (rep cs * ·), a.ts.head⟩ := by rw [← hTa]
  have htb : b.ts = ⟨T.map (cs.getD k 1 * ·), a.ts.head⟩ := by rw [← hTb, ← hhead]
  have hra : (L.map fun x => rep (fA cs x)) = L.map (rep cs * ·) := by
    apply List.map_congr_left; intro x _; exact rep_fA cs hn x
  have hrb : (L.map fun x => rep (fB (cs.getD k 1) x)) = L.map (cs.getD k 1 * ·) := by
    apply List.map_congr_left; intro x _; exact rep_fB _ x
  have hnta : newTurns a.ts (L.map fun x => rep (fA cs x)) flush =
      (⟨(newTurns ⟨T, a.ts.head⟩ L flush).1.tail.map (rep cs * ·), (newTurns ⟨T, a.ts.head⟩ L flush).1.head⟩,
       (newTurns ⟨T, a.ts.head⟩ L flush).2.map fun p => (p.1, rep cs * p.2)) := by
    rw [hra, hta]; exact newTurns_scale (rep cs) (by omega) T a.ts.head L flush
  have hntb : newTurns b.ts (L.map fun x => rep (fB (cs.getD k 1) x)) flush =
      (⟨(newTurns ⟨T, a.ts.head⟩ L flush).1.tail.map (cs.getD k 1 * ·), (newTurns ⟨T, a.ts.head⟩ L flush).1.head⟩,
       (newTurns ⟨T, a.ts.head⟩ L flush).2.map fun p => (p.1, cs.getD k 1 * p.2)) := by
    rw [hrb, htb]; exact newTurns_scale (cs.getD k 1) (by omega) T a.ts.head L flush
  rw [hnta, baseLoads_scale] at hla
  rw [hntb, hhead, baseLoads_scale] at hlb
  have hidx := (newTurns_idx ⟨T, a.ts.head⟩ L flush (by rw [hTa] at htl; simpa using htl)).2
  generalize baseLoads a.ts.head x0 L (newTurns ⟨T, a.ts.head⟩ L flush).2 = bl at hla hlb
  rw [process_eq, process_eq, hla, hlb]
  have hinit : Sim law cs k (procInit a (L.map (fA cs)) flush) (procInit b (L.map (fB (cs.getD k 1))) flush) :=
    ⟨hs.res, hs.wf, hs.chain, hs.iz, hs.izb, hs.irb, hs.ir1, hs.lmax, by simp [procInit, hs.run], hs.recs⟩
  have hf := fold_sim law hl cs hc k hk bl _ _ a.prevLoad b.prevLoad hinit
  have fa := fold_frame law (bl.map (fA cs)) (procInit a (L.map (fA cs)) flush) a.prevLoad
  have fb := fold_frame law (bl.map (fB (cs.getD k 1))) (procInit b (L.map (fB (cs.getD k 1))) flush) b.prevLoad
  simp only at fa fb
  generalize List.foldl (turnStep law) (procInit a (L.map (fA cs)) flush, a.prevLoad) (bl.map (fA cs)) = ra at hf fa ⊢
  generalize List.foldl (turnStep law) (procInit b (L.map (fB (cs.getD k 1))) flush, b.prevLoad)
    (bl.map (fB (cs.getD k 1))) = rb at hf fb ⊢
  obtain ⟨a1, -, -, -, a5⟩ := fa
  obtain ⟨b1, -, -, -, b5⟩ := fb
  have ea : ra.1.ts = (newTurns a.ts (List.map rep (L.map (fA cs))) flush).1 := by rw [a1]; rfl
  have eb : rb.1.ts = (newTurns b.ts (List.map rep (L.map (fB (cs.getD k 1)))) flush).1 := by rw [b1]; rfl
  rw [List.map_map] at ea eb
  rw [show (rep ∘ fA cs) = fun x => rep (fA cs x) from rfl, hnta] at ea
  rw [show (rep ∘ fB (cs.getD k 1)) = fun x => rep (fB (cs.getD k 1) x) from rfl, hntb] at eb
  refine ⟨⟨hf.res, hf.wf, hf.chain, hf.iz, hf.izb, hf.irb, hf.ir1, hf.lmax, hf.run, hf.recs⟩, ?_, ?_, ?_, ?_⟩
  · simp only [ea, eb]
  · exact ⟨(newTurns ⟨T, a.ts.head⟩ L flush).1.tail, by simp only [ea], by simp only [eb]⟩
  · simp only [ea, List.length_map]; exact hidx
  · refine Or.inl ⟨L.getLast hL, ?_, ?_⟩
    · simp only [a5, procInit]
      rw [List.getLastD_eq_getLast?, List.getLast?_map, List.getLast?_eq_some_getLast hL]; rfl
    · simp only [b5, procInit]
      rw [List.getLastD_eq_getLast?, List.getLast?_map, List.getLast?_eq_some_getLast hL]; rfl

/-! ### simulation of the running strain extremes -/

theorem ts_simLF (l P : Int) (a b : State) (h : Sim law cs k a b) (hx : LFX cs k a b) :
    LFX cs k (turnStep law (a, rep cs * P) (fA cs l)).1
      (turnStep law (b, cs.getD k 1 * P) (fB (cs.getD k 1) l)).1 := by
  have hn : 0 < cs.length := by omega
  have hc0 := rep_pos cs hc hn
  have hck := getD_pos cs hc k hk
  have hlen : b.res.length = a.res.length := by rw [h.res]; simp
  have h' : Sim law cs k { a with fed := a.fed ++ [(a.run, fA cs l)] }
      { b with fed := b.fed ++ [(b.run, fB (cs.getD k 1) l)] } :=
    ⟨h.res, h.wf, h.chain, h.iz, h.izb, h.irb, h.ir1, h.lmax, h.run, h.recs⟩
  have key := ps_sim law hl cs hc k hk l (a.res.length / 2 + 2) _ _ h' (by simp)
  have fa := processSample_frame law (fA cs l) (a.res.length / 2 + 2) { a with fed := a.fed ++ [(a.run, fA cs l)] }
  have fb := processSample_frame law (fB (cs.getD k 1) l) (a.res.length / 2 + 2)
    { b with fed := b.fed ++ [(b.run, fB (cs.getD k 1) l)] }
  obtain ⟨nA, hnA, hnA'⟩ := ps_newrecs law (fA cs l) (a.res.length / 2 + 2)
    { a with fed := a.fed ++ [(a.run, fA cs l)] }
  obtain ⟨nB, hnB, hnB'⟩ := ps_newrecs law (fB (cs.getD k 1) l) (a.res.length / 2 + 2)
    { b with fed := b.fed ++ [(b.run, fB (cs.getD k 1) l)] }
  simp only [turnStep, hlen, rep_fA cs hn, rep_fB]
  simp only at fa fb hnA hnA' hnB hnB'
  generalize processSample law (fA cs l) (a.res.length / 2 + 2) _ = psa at key fa hnA ⊢
  generalize processSample law (fB (cs.getD k 1) l) (a.res.length / 2 + 2) _ = psb at key fb hnB ⊢
  obtain ⟨a', p⟩ := psa
  obtain ⟨b', q⟩ := psb
  obtain ⟨hs, hq, hw, -⟩ := key
  obtain ⟨-, -, -, -, -, -, -, fa8, fa9⟩ := fa
  obtain ⟨-, -, -, -, -, -, -, fb8, fb9⟩ := fb
  simp only at hs hq hw fa8 fa9 fb8 fb9 hnA hnB ⊢
  subst hq
  obtain ⟨xmin, xmax, lmin, lmax, xrecs⟩ := hx
  -- the records appended in this step
  have hlenAB : nA.length = nB.length := by
    have e1 := congrArg List.length hs.recs
    have e2 := congrArg List.length xrecs
    rw [hnA, hnB] at e1
    simp only [List.length_map, List.length_append] at e1 e2
    omega
  have hrecs' : a'.recs.map (projLF' k) = b'.recs.map (projLF' 0) := by
    rw [hnA, hnB, List.map_append, List.map_append, xrecs]
    congr 1
    rw [map_eq_replicate (projLF' k) (a.eMinLF.getD k 0, a.eMaxLF.getD k 0) nA
        (fun x hx => by simp only [projLF', (hnA' x hx).1, (hnA' x hx).2]),
      map_eq_replicate (projLF' 0) (a.eMinLF.getD k 0, a.eMaxLF.getD k 0) nB
        (fun x hx => by simp only [projLF', (hnB' x hx).1, (hnB' x hx).2, xmin, xmax, compV, List.getD_cons_zero]),
      hlenAB]
  have hpk : k < p.strain.length := by rw [hw.strain]; exact hk
  by_cases hPl : P < l
  · have h1 : rep cs * P < rep cs * l := by nlinarith
    have h2 : cs.getD k 1 * P < cs.getD k 1 * l := by nlinarith
    unfold updateLF
    rw [if_pos h1, if_pos h2]
    refine ⟨?_, ?_, ?_, ?_, ?_⟩ <;> simp only [ite_state_eMinLF, ite_state_eMaxLF, ite_state_recs]
    · rw [fa8, fb8, xmin]
    · rw [fa9, fb9, xmax, compPt, compV_vzip _ _ _ _ (by omega) hpk]
    · rw [fa8, lmin]
    · rw [fa9, length_vzip, lmax, hw.strain, Nat.min_self]
    · exact hrecs'
  · have h1 : ¬ rep cs * P < rep cs * l := by nlinarith
    have h2 : ¬ cs.getD k 1 * P < cs.getD k 1 * l := by nlinarith
    unfold updateLF
    rw [if_neg h1, if_neg h2]
    refine ⟨?_, ?_, ?_, ?_, ?_⟩ <;> simp only [ite_state_eMinLF, ite_state_eMaxLF, ite_state_recs]
    · rw [fa8, fb8, xmin, compPt, compV_vzip _ _ _ _ (by omega) hpk]
    · rw [fa9, fb9, xmax]
    · rw [fa8, length_vzip, lmin, hw.strain, Nat.min_self]
    · rw [fa9, lmax]
    · exact hrecs'

theorem fold_simLF : ∀ (ls : List Int) (a b : State) (P : Int), Sim law cs k a b → LFX cs k a b →
    LFX cs k ((ls.map (fA cs)).foldl (turnStep law) (a, rep cs * P)).1
      ((ls.map (fB (cs.getD k 1))).foldl (turnStep law) (b, cs.getD k 1 * P)).1 ∧
    ∃ P', ((ls.map (fA cs)).foldl (turnStep law) (a, rep cs * P)).2 = rep cs * P' ∧
      ((ls.map (fB (cs.getD k 1))).foldl (turnStep law) (b, cs.getD k 1 * P)).2 = cs.getD k 1 * P' := by
  have hn : 0 < cs.length := by omega
  intro ls
  induction ls with
  | nil => intro a b P _ hx; exact ⟨hx, P, rfl, rfl⟩
  | cons x ls ih =>
    intro a b P h hx
    simp only [List.map_cons, List.foldl_cons]
    have ea : turnStep law (a, rep cs * P) (fA cs x) =
        ((turnStep law (a, rep cs * P) (fA cs x)).1, rep cs * x) :=
      Prod.ext rfl ((turnStep_frame law a (rep cs * P) (fA cs x)).2.2.2.2.2.trans (rep_fA cs hn x))
    have eb : turnStep law (b, cs.getD k 1 * P) (fB (cs.getD k 1) x) =
        ((turnStep law (b, cs.getD k 1 * P) (fB (cs.getD k 1) x)).1, cs.getD k 1 * x) :=
      Prod.ext rfl ((turnStep_frame law b (cs.getD k 1 * P) (fB (cs.getD k 1) x)).2.2.2.2.2.trans (rep_fB _ x))
    rw [ea, eb]
    exact ih _ _ x (ts_sim law hl cs hc k hk x a b _ _ h) (ts_simLF law hl cs hc k hk x P a b h hx)

omit hl in
/-- both runs are fed loads at the same positions -/
theorem procLoads_sim (L : List Int) (flush : Bool) (a b : State) (h : PSim law cs k a b) :
    ∃ bl : List Int, procLoads a.ts a.lastSample (L.map (fA cs)) flush = bl.map (fA cs) ∧
      procLoads b.ts b.lastSample (L.map (fB (cs.getD k 1))) flush = bl.map (fB (cs.getD k 1)) := by
  have hn : 0 < cs.length := by omega
  have hc0 := rep_pos cs hc hn
  have hck := getD_pos cs hc k hk
  obtain ⟨hs, hhead, ⟨T, hTa, hTb⟩, htl, hlast⟩ := h
  obtain ⟨x0, hx0⟩ : ∃ x0, (a.lastSample = fA cs x0 ∧ b.lastSample = fB (cs.getD k 1) x0) ∨ a.ts.head = 0 := by
    rcases hlast with ⟨x0, hx⟩ | hx
    · exact ⟨x0, Or.inl hx⟩
    · exact ⟨0, Or.inr hx⟩
  have htlb : b.ts.tail.length ≤ b.ts.head := by
    rw [hhead, hTb]; rw [hTa] at htl; simpa using htl
  have hla := procLoads_map (fA cs) a.ts a.lastSample x0 L flush htl
    (by rcases hx0 with h | h; exact Or.inl h.1; exact Or.inr h)
  have hlb := procLoads_map (fB (cs.getD k 1)) b.ts b.lastSample x0 L flush htlb
    (by rcases hx0 with h | h; exact Or.inl h.2; exact Or.inr (hhead.trans h))
  have hta : a.ts = ⟨T.map (rep cs * ·), a.ts.head⟩ := by rw [← hTa]
  have htb : b.ts = ⟨T.map (cs.getD k 1 * ·), a.ts.head⟩ := by rw [← hTb, ← hhead]
  have hra : (L.map fun x => rep (fA cs x)) = L.map (rep cs * ·) := by
    apply List.map_congr_left; intro x _; exact rep_fA cs hn x
  have hrb : (L.map fun x => rep (fB (cs.getD k 1) x)) = L.map (cs.getD k 1 * ·) := by
    apply List.map_congr_left; intro x _; exact rep_fB _ x
  have hnta : newTurns a.ts (L.map fun x => rep (fA cs x)) flush =
      (⟨(newTurns ⟨T, a.ts.head⟩ L flush).1.tail.map (rep cs * ·), (newTurns ⟨T, a.ts.head⟩ L flush).1.head⟩,
       (newTurns ⟨T, a.ts.head⟩ L flush).2.map fun p => (p.1, rep cs * p.2)) := by
    rw [hra, hta]; exact newTurns_scale (rep cs) (by omega) T a.ts.head L flush
  have hntb : newTurns b.ts (L.map fun x => rep (fB (cs.getD k 1) x)) flush =
      (⟨(newTurns ⟨T, a.ts.head⟩ L flush).1.tail.map (cs.getD k 1 * ·), (newTurns ⟨T, a.ts.head⟩ L flush).1.head⟩,
       (newTurns ⟨T, a.ts.head⟩ L flush).2.map fun p => (p.1, cs.getD k 1 * p.2)) := by
    rw [hrb, htb]; exact newTurns_scale (cs.getD k 1) (by omega) T a.ts.head L flush
  rw [hnta, baseLoads_scale] at hla
  rw [hntb, hhead, baseLoads_scale] at hlb
  have hidx := (newTurns_idx ⟨T, a.ts.head⟩ L flush (by rw [hTa] at htl; simpa using htl)).2
  generalize baseLoads a.ts.head x0 L (newTurns ⟨T, a.ts.head⟩ L flush).2 = bl at hla hlb
  exact ⟨_, hla, hlb⟩

/-- process-level relation for the running strain extremes -/
structure PLF (a b : State) : Prop where
  prev : ∃ P, a.prevLoad = rep cs * P ∧ b.prevLoad = cs.getD k 1 * P
  recs : a.recs.map (projLF' k) = b.recs.map (projLF' 0)
  started : b.started = a.started
  lf : a.started = true → (b.eMinLF = compV k a.eMinLF ∧ b.eMaxLF = compV k a.eMaxLF ∧
    a.eMinLF.length = cs.length ∧ a.eMaxLF.length = cs.length)

theorem process_simLF (L : List Int) (flush : Bool) (a b : State) (h : PSim law cs k a b)
    (hp : PLF cs k a b) (hL : L ≠ []) :
    PLF cs k (process law a (L.map (fA cs)) flush) (process law b (L.map (fB (cs.getD k 1))) flush) := by
  obtain ⟨bl, hla, hlb⟩ := procLoads_sim law cs hc k hk L flush a b h
  obtain ⟨⟨P, hPa, hPb⟩, hrecs, hstarted, hlf⟩ := hp
  have hs := h.sim
  rw [process_eq, process_eq, hla, hlb, hPa, hPb]
  have hinit : Sim law cs k (procInit a (L.map (fA cs)) flush) (procInit b (L.map (fB (cs.getD k 1))) flush) :=
    ⟨hs.res, hs.wf, hs.chain, hs.iz, hs.izb, hs.irb, hs.ir1, hs.lmax, by simp [procInit, hs.run], hs.recs⟩
  have hinitLF : LFX cs k (procInit a (L.map (fA cs)) flush) (procInit b (L.map (fB (cs.getD k 1))) flush) := by
    cases L with
    | nil => exact absurd rfl hL
    | cons x L =>
      simp only [procInit, hstarted, List.map_cons, List.headD_cons, length_fA]
      by_cases hst : a.started = true
      · obtain ⟨e1, e2, e3, e4⟩ := hlf hst
        simp only [hst, if_true]
        exact ⟨e1, e2, e3, e4, hrecs⟩
      · simp only [hst, Bool.false_eq_true, if_false]
        exact ⟨(compV_replicate _ k hk).symm, (compV_replicate _ k hk).symm, by simp, by simp, hrecs⟩
  obtain ⟨hf, P', hP'a, hP'b⟩ := fold_simLF law hl cs hc k hk bl _ _ P hinit hinitLF
  have fa := fold_frame law (bl.map (fA cs)) (procInit a (L.map (fA cs)) flush) (rep cs * P)
  have fb := fold_frame law (bl.map (fB (cs.getD k 1))) (procInit b (L.map (fB (cs.getD k 1))) flush)
    (cs.getD k 1 * P)
  simp only at fa fb
  generalize List.foldl (turnStep law) (procInit a (L.map (fA cs)) flush, rep cs * P) (bl.map (fA cs)) = ra
    at hf fa hP'a ⊢
  generalize List.foldl (turnStep law) (procInit b (L.map (fB (cs.getD k 1))) flush, cs.getD k 1 * P)
    (bl.map (fB (cs.getD k 1))) = rb at hf fb hP'b ⊢
  obtain ⟨-, -, -, a4, -⟩ := fa
  obtain ⟨-, -, -, b4, -⟩ := fb
  refine ⟨⟨P', hP'a, hP'b⟩, hf.recs, ?_, fun _ => ⟨hf.emin, hf.emax, hf.lmin, hf.lmax⟩⟩
  simp only [a4, b4, procInit]

omit hl hc hk in
theorem pSim_init : PSim law cs k {} {} :=
  ⟨⟨rfl, by intro p hp; simp at hp, trivial, rfl, rfl, rfl, Nat.le_refl 1, ⟨0, rfl, rfl⟩, rfl, rfl⟩,
    rfl, ⟨[], rfl, rfl⟩, Nat.le_refl 0, Or.inr rfl⟩

/-- the two passes (any first-run flush flag) give point `k` the running strain extremes it gets alone -/
theorem twoProc_simLF (L' : List Int) (flush : Bool) (hL' : L' ≠ []) :
    (process law (process law {} ((0 :: L').map (fA cs)) flush) (L'.map (fA cs)) true).recs.map (projLF' k) =
      (process law (process law {} ((0 :: L').map (fB (cs.getD k 1))) flush)
        (L'.map (fB (cs.getD k 1))) true).recs.map (projLF' 0) := by
  have h0 := pSim_init law cs k
  have p0 : PLF cs k {} {} := ⟨⟨0, by simp, by simp⟩, rfl, rfl, fun h => by simp at h⟩
  have h1 := process_sim law hl cs hc k hk (0 :: L') flush _ _ h0 (by simp)
  have p1 := process_simLF law hl cs hc k hk (0 :: L') flush _ _ h0 p0 (by simp)
  exact (process_simLF law hl cs hc k hk L' true _ _ h1 p1 hL').recs

theorem twoPass_simLF (L : List Int) :
    (twoPassR law (L.map (fA cs))).recs.map (projLF' k) =
      (twoPassR law (L.map (fB (cs.getD k 1)))).recs.map (projLF' 0) := by
  have hn : 0 < cs.length := by omega
  have hc0 := rep_pos cs hc hn
  have hck := getD_pos cs hc k hk
  by_cases hL : L = []
  · subst hL; rfl
  · rw [twoPass_eq law (fA cs) L hL cs.length (length_fA cs) (fA_zero cs),
      twoPass_eq law (fB (cs.getD k 1)) L hL 1 (fun _ => rfl) (by simp [fB])]
    have hra : ∀ S : List Int, (S.map fun x => rep (fA cs x)) = S.map (rep cs * ·) := by
      intro S; apply List.map_congr_left; intro x _; exact rep_fA cs hn x
    have hrb : ∀ S : List Int, (S.map fun x => rep (fB (cs.getD k 1) x)) = S.map (cs.getD k 1 * ·) := by
      intro S; apply List.map_congr_left; intro x _; exact rep_fB _ x
    rw [hra, hra, hrb, hrb, dropBase_scale _ (by omega), dropBase_scale _ (by omega),
      flushBase_scale _ (by omega), flushBase_scale _ (by omega)]
    exact twoProc_simLF law hl cs hc k hk _ _ (dropBase_ne L L hL)

theorem twoPass_sim (L : List Int) :
    (twoPassR law (L.map (fA cs))).recs.map (proj' k) =
      (twoPassR law (L.map (fB (cs.getD k 1)))).recs.map (proj' 0) := by
  have hn : 0 < cs.length := by omega
  have hc0 := rep_pos cs hc hn
  have hck := getD_pos cs hc k hk
  by_cases hL : L = []
  · subst hL; rfl
  · rw [twoPass_eq law (fA cs) L hL cs.length (length_fA cs) (fA_zero cs),
      twoPass_eq law (fB (cs.getD k 1)) L hL 1 (fun _ => rfl) (by simp [fB])]
    have hra : ∀ S : List Int, (S.map fun x => rep (fA cs x)) = S.map (rep cs * ·) := by
      intro S; apply List.map_congr_left; intro x _; exact rep_fA cs hn x
    have hrb : ∀ S : List Int, (S.map fun x => rep (fB (cs.getD k 1) x)) = S.map (cs.getD k 1 * ·) := by
      intro S; apply List.map_congr_left; intro x _; exact rep_fB _ x
    rw [hra, hra, hrb, hrb, dropBase_scale _ (by omega), dropBase_scale _ (by omega),
      flushBase_scale _ (by omega), flushBase_scale _ (by omega)]
    have hL' := dropBase_ne L L hL
    generalize dropBase L L = L' at hL'
    generalize flushBase (0 :: L') = flush
    have h0 : PSim law cs k {} {} :=
      ⟨⟨rfl, by intro p hp; simp at hp, trivial, rfl, rfl, rfl, Nat.le_refl 1, ⟨0, rfl, rfl⟩, rfl, rfl⟩,
        rfl, ⟨[], rfl, rfl⟩, Nat.le_refl 0, Or.inr rfl⟩
    have h1 := process_sim law hl cs hc k hk (0 :: L') flush _ _ h0 (by simp)
    have h2 := process_sim law hl cs hc k hk L' true _ _ h1 hL'
    exact h2.sim.recs

end sim

end PylifeVerif.HCM.C05L
