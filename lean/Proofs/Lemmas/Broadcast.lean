/-
Helper lemmas for C13 (relational model of the Broadcaster).
-/
import Model.Broadcast
import Mathlib.Data.List.Nodup

namespace PylifeVerif.Broadcast

/-- decidable equality of `Except` values (for the kernel-checked witnesses; kept in this namespace) -/
instance instDecEqExcept {ε α : Type} [DecidableEq ε] [DecidableEq α] : DecidableEq (Except ε α)
  | .ok a, .ok b => if h : a = b then isTrue (h ▸ rfl) else isFalse (fun e => h (Except.ok.inj e))
  | .error a, .error b => if h : a = b then isTrue (h ▸ rfl) else isFalse (fun e => h (Except.error.inj e))
  | .ok _, .error _ => isFalse (fun e => nomatch e)
  | .error _, .ok _ => isFalse (fun e => nomatch e)

variable {V : Type}

/-- reading level `n` out of a key that was built by mapping over the level list -/
theorem rget_map (ns : List Name) (f : Name → Option Int) (n : Name) :
    rget ns (ns.map f) n = if n ∈ ns then f n else none := by
  induction ns with
  | nil => simp [rget]
  | cons m ms ih =>
    simp only [List.map_cons, rget, ih, List.mem_cons]
    by_cases h : m = n
    · subst h; simp
    · have h' : ¬ n = m := fun e => h e.symm
      simp [h, h']

theorem restrict_map (ns : List Name) (f : Name → Option Int) (sub : List Name)
    (hsub : ∀ n ∈ sub, n ∈ ns) : restrict ns (ns.map f) sub = sub.map f := by
  unfold restrict
  apply List.map_congr_left
  intro n hn
  rw [rget_map, if_pos (hsub n hn)]

theorem mem_shared {on pn : List Name} {n : Name} : n ∈ shared on pn ↔ n ∈ on ∧ n ∈ pn := by
  simp [shared]

theorem mem_total {on pn : List Name} {n : Name} : n ∈ total on pn ↔ n ∈ on ∨ n ∈ pn := by
  simp only [total, List.mem_append, List.mem_filter, Bool.not_eq_true', decide_eq_false_iff_not]
  constructor
  · rintro (h | ⟨h, _⟩)
    · exact Or.inl h
    · exact Or.inr h
  · rintro (h | h)
    · exact Or.inl h
    · by_cases ho : n ∈ on
      · exact Or.inl ho
      · exact Or.inr ⟨h, ho⟩

theorem subset_iff {a b : List Name} : subset a b = true ↔ ∀ n ∈ a, n ∈ b := by
  simp [subset]

theorem mem_resultNames {on pn : List Name} {n : Name} :
    n ∈ resultNames on pn ↔ n ∈ on ∨ n ∈ pn := by
  unfold resultNames
  split
  · next h =>
    have hs := subset_iff.mp h.2.2
    constructor
    · exact Or.inr
    · rintro (h' | h')
      · exact hs n h'
      · exact h'
  · exact mem_total

theorem agree_iff {on pn : List Name} {ko kp : Key} :
    agree on ko pn kp = true ↔ ∀ n, n ∈ on → n ∈ pn → get on ko n = get pn kp n := by
  simp only [agree, List.all_eq_true, mem_shared, beq_iff_eq]
  constructor
  · intro h n h1 h2; exact h n ⟨h1, h2⟩
  · intro h n hn; exact h n hn.1 hn.2

/-- a paired key restricted to the object's levels is the object row's own key -/
theorem restrict_pairKey_obj (ns on pn : List Name) (ko kp : Key) (hon : ∀ n ∈ on, n ∈ ns) :
    restrict ns (pairKey ns on ko pn kp) on = ownKey on ko := by
  unfold pairKey ownKey
  rw [restrict_map _ _ _ hon]
  apply List.map_congr_left
  intro n hn
  simp [hn]

/-- a paired key restricted to the parameter's levels is the parameter row's own key -/
theorem restrict_pairKey_prm (ns on pn : List Name) (ko kp : Key) (hpn : ∀ n ∈ pn, n ∈ ns)
    (hag : agree on ko pn kp = true) :
    restrict ns (pairKey ns on ko pn kp) pn = ownKey pn kp := by
  unfold pairKey ownKey
  rw [restrict_map _ _ _ hpn]
  apply List.map_congr_left
  intro n hn
  by_cases ho : n ∈ on
  · simp only [ho, if_true]
    exact agree_iff.mp hag n ho hn
  · simp [ho]

/-- `agree` looks at the object's key only through its own-key reading -/
theorem agree_congr_obj {on pn : List Name} {ko ko' kp : Key} (he : ownKey on ko' = ownKey on ko)
    (hag : agree on ko' pn kp = true) : agree on ko pn kp = true := by
  apply agree_iff.mpr
  intro n h1 h2
  have := agree_iff.mp hag n h1 h2
  unfold ownKey at he
  rw [← (List.map_inj_left.mp he) n h1]
  exact this

theorem agree_congr_prm {on pn : List Name} {ko kp kp' : Key} (he : ownKey pn kp' = ownKey pn kp)
    (hag : agree on ko pn kp' = true) : agree on ko pn kp = true := by
  apply agree_iff.mpr
  intro n h1 h2
  have := agree_iff.mp hag n h1 h2
  unfold ownKey at he
  rw [← (List.map_inj_left.mp he) n h2]
  exact this

/-- keys determine payloads (the operand's index has no two rows with one key and different data) -/
def Tbl.Functional (t : Tbl V) : Prop :=
  ∀ r ∈ t.rows, ∀ r' ∈ t.rows, ownKey t.names r.1 = ownKey t.names r'.1 → r.2 = r'.2

/-- no two rows of the operand have the same key (the operand's index is a key SET) -/
def Tbl.KeysNodup (t : Tbl V) : Prop := (t.rows.map fun r => ownKey t.names r.1).Nodup

/-- with distinct keys, the key determines the row -/
theorem Tbl.KeysNodup.row_eq {t : Tbl V} (h : t.KeysNodup) {r r' : Key × V} (hr : r ∈ t.rows) (hr' : r' ∈ t.rows)
    (he : ownKey t.names r.1 = ownKey t.names r'.1) : r = r' :=
  List.inj_on_of_nodup_map h hr hr' he

theorem Tbl.KeysNodup.functional {t : Tbl V} (h : t.KeysNodup) : t.Functional := by
  intro r hr r' hr' he
  rw [h.row_eq hr hr' he]

theorem Tbl.KeysNodup.rows_nodup {t : Tbl V} (h : t.KeysNodup) : t.rows.Nodup :=
  List.Nodup.of_map _ h

theorem at_of_mem {t : Tbl V} (hf : t.Functional) {r : Key × V} (hr : r ∈ t.rows) :
    t.at (ownKey t.names r.1) = some r.2 := by
  unfold Tbl.at
  cases h : t.rows.find? (fun r' => ownKey t.names r'.1 == ownKey t.names r.1) with
  | none =>
    have := List.find?_eq_none.mp h r hr
    simp at this
  | some x =>
    have hx := List.find?_some h
    have hm := List.mem_of_find?_eq_some h
    simp only [beq_iff_eq] at hx
    simp only [Option.map_some, Option.some.injEq]
    exact hf x hm r hr hx

theorem at_eq_none {t : Tbl V} {q : RKey} (h : ∀ r ∈ t.rows, ownKey t.names r.1 ≠ q) :
    t.at q = none := by
  unfold Tbl.at
  have : t.rows.find? (fun r => ownKey t.names r.1 == q) = none := by
    apply List.find?_eq_none.mpr
    intro r hr
    simpa using h r hr
  simp [this]

/-- membership in the paired part of the join -/
theorem mem_matched {ns : List Name} {obj prm : Tbl V} {r : Row V} :
    r ∈ matched ns obj prm ↔
      ∃ ro ∈ obj.rows, ∃ rp ∈ prm.rows, agree obj.names ro.1 prm.names rp.1 = true ∧
        r = ⟨pairKey ns obj.names ro.1 prm.names rp.1, some ro.2, some rp.2⟩ := by
  simp only [matched, List.mem_flatMap, List.mem_map, List.mem_filter]
  constructor
  · rintro ⟨ro, hro, rp, ⟨hrp, hag⟩, h⟩
    exact ⟨ro, hro, rp, hrp, hag, h.symm⟩
  · rintro ⟨ro, hro, rp, hrp, hag, rfl⟩
    exact ⟨ro, hro, rp, ⟨hrp, hag⟩, rfl⟩

theorem mem_unmatchedObj {obj prm : Tbl V} {ro : Key × V} :
    ro ∈ unmatchedObj obj prm ↔
      ro ∈ obj.rows ∧ ∀ rp ∈ prm.rows, agree obj.names ro.1 prm.names rp.1 = false := by
  simp [unmatchedObj]

theorem mem_unmatchedPrm {obj prm : Tbl V} {rp : Key × V} :
    rp ∈ unmatchedPrm obj prm ↔
      rp ∈ prm.rows ∧ ∀ ro ∈ obj.rows, agree obj.names ro.1 prm.names rp.1 = false := by
  simp [unmatchedPrm]

/-- the three kinds of rows of the join -/
inductive RowOrigin (obj prm : Tbl V) (ns : List Name) (r : Row V) : Prop where
  | pair (ro : Key × V) (rp : Key × V) (hro : ro ∈ obj.rows) (hrp : rp ∈ prm.rows)
      (hag : agree obj.names ro.1 prm.names rp.1 = true)
      (hr : r = ⟨pairKey ns obj.names ro.1 prm.names rp.1, some ro.2, some rp.2⟩)
  | objOnly (ro : Key × V) (hro : ro ∈ obj.rows)
      (hno : ∀ rp ∈ prm.rows, agree obj.names ro.1 prm.names rp.1 = false)
      (hkeep : keepsUnmatched obj.names prm.names = true)
      (hr : r = ⟨ns.map (get obj.names ro.1), some ro.2, none⟩)
  | prmOnly (rp : Key × V) (hrp : rp ∈ prm.rows)
      (hno : ∀ ro ∈ obj.rows, agree obj.names ro.1 prm.names rp.1 = false)
      (hkeep : keepsUnmatched prm.names obj.names = true)
      (hr : r = ⟨ns.map (get prm.names rp.1), none, some rp.2⟩)

theorem mem_joinRows {obj prm : Tbl V} {r : Row V} (h : r ∈ joinRows obj prm) :
    RowOrigin obj prm (resultNames obj.names prm.names) r := by
  simp only [joinRows, List.mem_append] at h
  rcases h with (h | h) | h
  · obtain ⟨ro, hro, rp, hrp, hag, hr⟩ := mem_matched.mp h
    exact .pair ro rp hro hrp hag hr
  · split at h
    · next hs =>
      obtain ⟨ro, hro, hr⟩ := List.mem_map.mp h
      obtain ⟨h1, h2⟩ := mem_unmatchedObj.mp hro
      exact .objOnly ro h1 h2 hs hr.symm
    · cases h
  · split at h
    · next hs =>
      obtain ⟨rp, hrp, hr⟩ := List.mem_map.mp h
      obtain ⟨h1, h2⟩ := mem_unmatchedPrm.mp hrp
      exact .prmOnly rp h1 h2 hs hr.symm
    · cases h

/-- an unpaired object row finds nothing in the parameter -/
theorem prm_at_objOnly {obj prm : Tbl V} (ns : List Name) (hpn : ∀ n ∈ prm.names, n ∈ ns)
    {ro : Key × V} (hno : ∀ rp ∈ prm.rows, agree obj.names ro.1 prm.names rp.1 = false) :
    prm.at (restrict ns (ns.map (get obj.names ro.1)) prm.names) = none := by
  apply at_eq_none
  intro rp hrp heq
  have hne := hno rp hrp
  rw [restrict_map _ _ _ hpn] at heq
  unfold ownKey at heq
  have : agree obj.names ro.1 prm.names rp.1 = true := by
    apply agree_iff.mpr
    intro n _ h2
    exact ((List.map_inj_left.mp heq) n h2).symm
  rw [this] at hne
  cases hne

theorem obj_at_prmOnly {obj prm : Tbl V} (ns : List Name) (hon : ∀ n ∈ obj.names, n ∈ ns)
    {rp : Key × V} (hno : ∀ ro ∈ obj.rows, agree obj.names ro.1 prm.names rp.1 = false) :
    obj.at (restrict ns (ns.map (get prm.names rp.1)) obj.names) = none := by
  apply at_eq_none
  intro ro hro heq
  have hne := hno ro hro
  rw [restrict_map _ _ _ hon] at heq
  unfold ownKey at heq
  have : agree obj.names ro.1 prm.names rp.1 = true := by
    apply agree_iff.mpr
    intro n h1 _
    exact (List.map_inj_left.mp heq) n h1
  rw [this] at hne
  cases hne

end PylifeVerif.Broadcast
