/-
Helper lemmas for C04 `pass2_eq_periodicRainflow`, part 6: the trimmed signal `trimI s` of a
non-constant signal ends with a turning point of the repeated signal (`CycEnd`), the first pass is
flushed, the fed values are `tv 0 0 t ++ [z]` and `tv 0 z t ++ [z]`, and trimming does not change
the cyclic reversal word (up to rotation).
-/
import Proofs.Lemmas.HCMPass2Fed
import Proofs.Lemmas.HCMInsert
import Proofs.Lemmas.Reversals
import Proofs.C04Insert

namespace PylifeVerif.C04
open PylifeVerif.Rainflow PylifeVerif.HCM PylifeVerif.HCM.Spec PylifeVerif.Sym PylifeVerif.HCM.Insert
open PylifeVerif.C02 (revList isRevLocal pending nextReverses findTurnsAux_eq findTurns_eq_revList)

theorem scanSt_snoc (xs : List Int) (y : Int) : ∀ (dir : Int) (cand : Pt) (i : Nat) (prev : Int),
    scanSt dir cand i prev (xs ++ [y]) =
      if sgn (y - (scanSt dir cand i prev xs).2.2.2) = 0 then
        ((scanSt dir cand i prev xs).1, (scanSt dir cand i prev xs).2.1,
          (scanSt dir cand i prev xs).2.2.1 + 1, y)
      else (sgn (y - (scanSt dir cand i prev xs).2.2.2), ((scanSt dir cand i prev xs).2.2.1, y),
          (scanSt dir cand i prev xs).2.2.1 + 1, y) := by
  induction xs with
  | nil => intro dir cand i prev; rfl
  | cons x xs ih =>
    intro dir cand i prev
    simp only [List.cons_append, scanSt]
    split_ifs <;> simp_all

/-- the last sample of a `CycEnd` signal is a turning point of `(a :: t) ++ t` -/
theorem CycEnd.junction_turn {t t0 : List Int} {p z q : Int} (h : CycEnd t t0 p z q) (a : Int) :
    (t.length, z) ∈ findTurns ((a :: t) ++ t) := by
  have hne : t0 ≠ [] := by intro h0; have := h.hp; simp [h0] at this
  have hσ : scanSt 0 (0, a) 1 a t = (sgn (z - p), (t.length, z), t.length + 1, z) := by
    rw [h.ht, scanSt_snoc, scanSt_prev, scanSt_i]
    have hl : (a :: t0).getLast (List.cons_ne_nil _ _) = p := by
      have h1 : (a :: t0).getLast? = some p := by
        cases t0 with
        | nil => exact absurd rfl hne
        | cons b r => rw [List.getLast?_cons_cons]; exact h.hp
      have := List.getLast?_eq_some_getLast (l := a :: t0) (List.cons_ne_nil _ _)
      rw [h1] at this
      exact (Option.some.inj this).symm
    rw [hl, if_neg (h.dne h.hpz)]
    simp only [List.length_append, List.length_singleton]
    have : 1 + t0.length = t0.length + 1 := by omega
    rw [this]
  simp only [List.cons_append, findTurns]
  rw [findTurnsAux_append, hσ, List.mem_append]
  right
  rw [findTurnsAux_eq, List.mem_append]
  left
  have hn : nextReverses (sgn (z - p)) z t = true := by
    unfold nextReverses
    have := h.find_t []
    simp only [List.append_nil] at this
    rw [this]
    simpa using h.hq
  simp [pending, hn, h.dne h.hpz]

theorem CycEnd.flush {t t0 : List Int} {p z q : Int} (h : CycEnd t t0 p z q) : flushI t = true := by
  unfold flushI
  rw [List.contains_iff_mem, List.mem_map]
  exact ⟨(t.length, z), h.junction_turn 0, rfl⟩

/-- **What is fed** to the two passes. -/
theorem CycEnd.fedI_eq {t t0 : List Int} {p z q : Int} (h : CycEnd t t0 p z q) :
    fedI t = (tv 0 0 t ++ [z], tv 0 z t ++ [z]) := by
  have htne : t ≠ [] := by rw [h.ht]; simp
  have hl : (0 :: t).getLast (List.cons_ne_nil _ _) = z := by simp [h.ht]
  have hl2 : t.getLast htne = z := by simp [h.ht]
  refine Prod.ext ?_ ?_
  · rw [fed1_eq, h.flush, hl]
    simp only [if_true, vals]
    rw [findTurns_vals]
  · rw [fed2_eq t htne, h.flush, hl, hl2]
    simp only [if_true, vals, List.singleton_append]
    rw [findTurns_vals]

/-! ### declarative reversals: position lemmas -/

theorem revList_ge (X : List Int) : ∀ (i : Nat), ∀ q ∈ revList i X, i ≤ q.1 := by
  induction X with
  | nil => intro i q hq; simp [revList] at hq
  | cons a X ih =>
    intro i q hq
    cases X with
    | nil => simp [revList] at hq
    | cons b rest =>
      simp only [revList, List.mem_append] at hq
      rcases hq with hq | hq
      · split_ifs at hq
        · simp only [List.mem_singleton] at hq; rw [hq]
        · simp at hq
      · have := ih (i + 1) q hq; omega

/-- the reversals of a signal, split at a position -/
theorem revList_split (pre : List Int) (p v : Int) (post : List Int) : ∀ (i : Nat),
    ∃ L1, revList i (pre ++ p :: v :: post) =
        L1 ++ (if isRevLocal p v post then [(i + pre.length, v)] else []) ++
          revList (i + pre.length + 1) (v :: post) ∧
      ∀ q ∈ L1, q.1 < i + pre.length := by
  induction pre with
  | nil =>
    intro i
    exact ⟨[], by simp [revList], by simp⟩
  | cons a pre ih =>
    intro i
    obtain ⟨b, rest, hb⟩ : ∃ b rest, pre ++ p :: v :: post = b :: rest := by
      cases pre with
      | nil => exact ⟨p, v :: post, rfl⟩
      | cons c r => exact ⟨c, r ++ p :: v :: post, rfl⟩
    obtain ⟨L1, h1, h2⟩ := ih (i + 1)
    refine ⟨(if isRevLocal a b rest then [(i, b)] else []) ++ L1, ?_, ?_⟩
    · rw [List.cons_append, hb, revList, ← hb, h1]
      simp only [List.length_cons, List.append_assoc]
      have e1 : i + 1 + pre.length = i + (pre.length + 1) := by omega
      rw [e1]
    · intro q hq
      simp only [List.length_cons]
      rcases List.mem_append.1 hq with hq | hq
      · split_ifs at hq
        · simp only [List.mem_singleton] at hq; rw [hq]; simp
        · simp at hq
      · have := h2 q hq; omega

/-! ### scanning the trimmed-away tail -/

theorem tv_const (d : List Int) (z : Int) (h : ∀ x ∈ d, x = z) (dir : Int) :
    tvSt dir z d = (dir, z) ∧ tv dir z d = [] := by
  induction d with
  | nil => exact ⟨rfl, rfl⟩
  | cons x d ih =>
    have hx : x = z := h x (by simp)
    subst hx
    have h0 : sgn (x - x) = 0 := PylifeVerif.Rainflow.sgn_self x
    simp only [tv, tvSt, h0, if_true]
    exact ih (fun y hy => h y (by simp [hy]))

theorem tv_nil_dir (xs : List Int) : ∀ (dir prev : Int), tv dir prev xs = [] → dir ≠ 0 →
    (tvSt dir prev xs).1 = dir := by
  induction xs with
  | nil => intro dir prev _ _; rfl
  | cons x xs ih =>
    intro dir prev h hd
    simp only [tv, tvSt] at h ⊢
    by_cases h0 : sgn (x - prev) = 0
    · simp only [h0, if_true] at h ⊢
      exact ih dir prev h hd
    · simp only [h0, if_false] at h ⊢
      by_cases hc : dir ≠ 0 ∧ sgn (x - prev) ≠ dir
      · rw [if_pos hc] at h; cases h
      · rw [if_neg hc] at h
        have hs : sgn (x - prev) = dir := by
          by_contra hne; exact hc ⟨hd, hne⟩
        rw [hs] at h ⊢
        exact ih dir x h hd

theorem tv_nil_first (d : List Int) (z n0 : Int) (h : tv 0 z d = [])
    (hf : d.find? (· ≠ z) = some n0) : (tvSt 0 z d).1 = sgn (n0 - z) := by
  induction d with
  | nil => simp at hf
  | cons x d ih =>
    by_cases hx : x = z
    · subst hx
      have h0 : sgn (x - x) = 0 := PylifeVerif.Rainflow.sgn_self x
      simp only [tv, tvSt, h0, if_true] at h ⊢
      exact ih h (by simpa using hf)
    · have hxn : x = n0 := by simpa [hx] using hf
      subst hxn
      have h0 : ¬ sgn (x - z) = 0 := fun h' => hx (by
        have := PylifeVerif.Rainflow.sgn_eq_zero h'; omega)
      simp only [tv, tvSt, h0, if_false, ne_eq, not_true_eq_false, false_and] at h ⊢
      exact tv_nil_dir d _ x h h0

theorem scanSt_tvSt (xs : List Int) : ∀ (dir : Int) (cand : Pt) (i : Nat) (prev : Int),
    (scanSt dir cand i prev xs).1 = (tvSt dir prev xs).1 ∧
    (scanSt dir cand i prev xs).2.2.2 = (tvSt dir prev xs).2 := by
  induction xs with
  | nil => intro dir cand i prev; exact ⟨rfl, rfl⟩
  | cons x xs ih =>
    intro dir cand i prev
    simp only [scanSt, tvSt]
    by_cases h : sgn (x - prev) = 0
    · have hx : x = prev := by have := PylifeVerif.Rainflow.sgn_eq_zero h; omega
      subst hx
      simp only [h, if_true]
      exact ih _ _ _ _
    · simp only [h, if_false]
      exact ih _ _ _ _

/-- a scan that is already moving from `z` to `m` in direction `δ` and keeps that direction at
the next different sample reports what the fresh scan from `z` reports -/
theorem tv_skip (X : List Int) (z m n1 δ : Int) (h1 : sgn (m - z) = δ) (hδ : δ ≠ 0)
    (hf : X.find? (· ≠ m) = some n1) (h2 : sgn (n1 - m) = δ) : tv δ m X = tv 0 z X := by
  cases X with
  | nil => simp at hf
  | cons x X =>
    by_cases hx : x = m
    · subst hx
      have h0 : sgn (x - x) = 0 := PylifeVerif.Rainflow.sgn_self x
      have h3 : ¬ sgn (x - z) = 0 := by rw [h1]; exact hδ
      simp only [tv, h0, if_true, ne_eq, not_true_eq_false, false_and, h1, if_false]
      rw [if_neg hδ]
    · have hxn : x = n1 := by simpa [hx] using hf
      subst hxn
      have h3 : sgn (x - z) = δ := by
        rcases PylifeVerif.Rainflow.sgn_cases (m - z) with a | a | a <;>
        rcases PylifeVerif.Rainflow.sgn_cases (x - m) with b | b | b <;>
        rcases PylifeVerif.Rainflow.sgn_cases (x - z) with c | c | c <;> omega
      have h4 : ¬ δ = 0 := hδ
      simp only [tv, h2, h3, h4, if_false, ne_eq, not_true_eq_false, and_false, false_and]

/-! ### the trimmed signal -/

theorem isRevLocal_true (p v : Int) (post : List Int) (h : isRevLocal p v post = true) :
    p ≠ v ∧ ∃ n, post.find? (· ≠ v) = some n ∧ ((p < v ∧ n < v) ∨ (p > v ∧ n > v)) := by
  unfold isRevLocal at h
  by_cases hpv : p = v
  · simp [hpv] at h
  · rw [if_neg hpv] at h
    refine ⟨hpv, ?_⟩
    cases hf : post.find? (· ≠ v) with
    | none => rw [hf] at h; simp at h
    | some n => rw [hf] at h; exact ⟨n, rfl, by simpa using h⟩

/-- `find?` in an append whose first part contains a witness -/
theorem find_append_left (l1 l2 : List Int) (P : Int → Bool) (w : Int) (hw : w ∈ l1) (hP : P w = true) :
    (l1 ++ l2).find? P = l1.find? P ∧ ∃ a, l1.find? P = some a := by
  cases h : l1.find? P with
  | none =>
    rw [List.find?_eq_none] at h
    exact absurd hP (h w hw)
  | some a => exact ⟨by rw [List.find?_append, h]; rfl, a, rfl⟩

theorem ext_sgn (p z n : Int) (h : (p < z ∧ n < z) ∨ (p > z ∧ n > z)) : sgn (n - z) ≠ sgn (z - p) := by
  rcases PylifeVerif.Rainflow.sgn_cases (n - z) with a | a | a <;>
  rcases PylifeVerif.Rainflow.sgn_cases (z - p) with b | b | b <;> omega

/-- Stage 1: position of the last turning point of the doubled signal inside the first copy. -/
theorem trim_stage1 (s : List Int) (h2 : ∃ a ∈ s, ∃ b ∈ s, a ≠ b) :
    ∃ pre p z d, s = pre ++ p :: z :: d ∧ trimI s = pre ++ [p, z] ∧
      isRevLocal p z (d ++ s) = true ∧
      ∀ x ∈ revList (pre.length + 1 + 1) (z :: (d ++ s)), s.length ≤ x.1 := by
  have hne := idxf_ne_nil' s h2
  obtain ⟨k, hk⟩ : ∃ k, (idxf s).getLast? = some k := ⟨_, List.getLast?_eq_some_getLast hne⟩
  have hkm : k ∈ idxf s := List.mem_of_getLast? hk
  obtain ⟨hk0, hkn⟩ := idxf_mem s k hkm
  have htrim : trimI s = s.take (k + 1) := by
    rw [trimI_eq, hk]
    simp only []
    split_ifs with hc
    · rw [List.take_of_length_le (by omega)]
    · rfl
  -- split `s` at position `k`
  have e1 : s.drop (k - 1) = s[k - 1] :: s.drop k := by
    have := List.drop_eq_getElem_cons (l := s) (i := k - 1) (by omega)
    rw [this]; congr 2; omega
  have e2 : s.drop k = s[k] :: s.drop (k + 1) := List.drop_eq_getElem_cons hkn
  have hs : s = s.take (k - 1) ++ s[k - 1] :: s[k] :: s.drop (k + 1) := by
    conv_lhs => rw [← List.take_append_drop (k - 1) s, e1, e2]
  have hpl : k = (s.take (k - 1)).length + 1 := by simp; omega
  obtain ⟨pre, p, z, d, hs', hpl'⟩ : ∃ pre p z d, s = pre ++ p :: z :: d ∧ k = pre.length + 1 :=
    ⟨s.take (k - 1), s[k - 1], s[k], s.drop (k + 1), hs, hpl⟩
  clear hs hpl e1 e2
  subst hpl'
  have hss : s ++ s = pre ++ p :: z :: (d ++ s) := by
    have : s ++ s = (pre ++ p :: z :: d) ++ s := by rw [← hs']
    rw [this]; simp
  obtain ⟨L1, hL, hL1⟩ := revList_split pre p z (d ++ s) 1
  rw [← hss, ← findTurns_eq_revList, Nat.add_comm 1 pre.length] at hL
  rw [Nat.add_comm 1 pre.length] at hL1
  have hmemk : ∃ qq ∈ findTurns (s ++ s), qq.1 = pre.length + 1 := by
    unfold idxf at hkm
    rw [List.mem_filter, List.mem_map] at hkm
    exact hkm.1
  have hrev : isRevLocal p z (d ++ s) = true := by
    obtain ⟨qq, hq1, hq2⟩ := hmemk
    rw [hL] at hq1
    simp only [List.mem_append] at hq1
    rcases hq1 with (hq1 | hq1) | hq1
    · have := hL1 qq hq1; omega
    · by_contra hc
      simp [hc] at hq1
    · have := revList_ge _ _ qq hq1; omega
  refine ⟨pre, p, z, d, hs', ?_, hrev, ?_⟩
  · rw [htrim]
    conv_lhs => rw [hs']
    have : pre.length + 1 + 1 = pre.length + 2 := by omega
    rw [this, List.take_append]
    simp
  · -- no turning point of the first copy behind `k`
    intro x hx
    by_contra hlt
    have hidx : idxf s = (L1.map (·.1)).filter (· < s.length) ++ [pre.length + 1] ++
        ((revList (pre.length + 1 + 1) (z :: (d ++ s))).map (·.1)).filter (· < s.length) := by
      unfold idxf
      rw [hL, hrev]
      simp only [if_true, List.map_append, List.filter_append, List.map_cons, List.map_nil]
      congr 2
      simp [hkn]
    have hRne : ((revList (pre.length + 1 + 1) (z :: (d ++ s))).map (·.1)).filter (· < s.length) ≠ [] := by
      intro h0
      rw [List.filter_eq_nil_iff] at h0
      exact h0 x.1 (List.mem_map.2 ⟨x, hx, rfl⟩) (by simpa using hlt)
    rw [hidx, List.getLast?_append_of_ne_nil _ hRne] at hk
    have := List.mem_of_getLast? hk
    rw [List.mem_filter, List.mem_map] at this
    obtain ⟨⟨y, hy1, hy2⟩, _⟩ := this
    have := revList_ge _ _ y hy1
    omega

/-- scan facts about the trimmed-away tail `d`, from "no turning point of the first copy behind
the last one" -/
theorem trim_stage2 (pre : List Int) (p z : Int) (d s : List Int) (hs : s = pre ++ p :: z :: d)
    (hR : ∀ x ∈ revList (pre.length + 1 + 1) (z :: (d ++ s)), s.length ≤ x.1) :
    tv 0 z d = [] ∧
    (((tvSt 0 z d).1 = 0 ∧ ∀ x ∈ d, x = z) ∨ ((tvSt 0 z d).1 = 1 ∧ z < (tvSt 0 z d).2) ∨
      ((tvSt 0 z d).1 = -1 ∧ (tvSt 0 z d).2 < z)) ∧
    ((tvSt 0 z d).1 = 0 ∨ nextReverses (tvSt 0 z d).1 (tvSt 0 z d).2 s = false) := by
  have hn : s.length = pre.length + 1 + 1 + d.length := by rw [hs]; simp; omega
  have hR' : findTurnsAux 0 (pre.length + 1, z) (pre.length + 1 + 1) z (d ++ s) =
      revList (pre.length + 1 + 1) (z :: (d ++ s)) := by
    rw [findTurnsAux_eq]; simp [pending]
  rw [← hR', findTurnsAux_append] at hR
  have hA : findTurnsAux 0 (pre.length + 1, z) (pre.length + 1 + 1) z d = [] := by
    rw [List.eq_nil_iff_forall_not_mem]
    intro q hq
    have h1 := hR q (List.mem_append_left _ hq)
    rcases aux_mem d _ _ _ _ q hq with h | h
    · rw [h] at h1; simp only at h1; omega
    · omega
  have hv := Sym.findTurnsAux_vals d 0 (pre.length + 1, z) (pre.length + 1 + 1) z rfl
  rw [hA] at hv
  have hst := scanSt_tvSt d 0 (pre.length + 1, z) (pre.length + 1 + 1) z
  have hm := (mono_scan d 0 (pre.length + 1, z) (pre.length + 1 + 1) z hA).1 rfl
  rw [hst.1, hst.2] at hm
  refine ⟨by simpa using hv.symm, hm, ?_⟩
  by_contra hc
  push Not at hc
  obtain ⟨hc1, hc2⟩ := hc
  have hc2 : nextReverses (tvSt 0 z d).1 (tvSt 0 z d).2 s = true := by simpa using hc2
  have hcand := Insert.scanSt_cand_lt d 0 (pre.length + 1, z) (pre.length + 1 + 1) z (by simp)
  rw [scanSt_i] at hcand
  have hmem : (scanSt 0 (pre.length + 1, z) (pre.length + 1 + 1) z d).2.1 ∈
      findTurnsAux (scanSt 0 (pre.length + 1, z) (pre.length + 1 + 1) z d).1
        (scanSt 0 (pre.length + 1, z) (pre.length + 1 + 1) z d).2.1
        (scanSt 0 (pre.length + 1, z) (pre.length + 1 + 1) z d).2.2.1
        (scanSt 0 (pre.length + 1, z) (pre.length + 1 + 1) z d).2.2.2 s := by
    rw [findTurnsAux_eq, hst.1, hst.2]
    simp [pending, hc1, hc2]
  have := hR _ (List.mem_append_right _ hmem)
  omega

theorem nextReverses_false (dir prev : Int) (xs : List Int) (w : Int) (hw : w ∈ xs) (hne : w ≠ prev)
    (h : nextReverses dir prev xs = false) :
    ∃ n1, xs.find? (· ≠ prev) = some n1 ∧ sgn (n1 - prev) = dir := by
  unfold nextReverses at h
  cases hf : xs.find? (· ≠ prev) with
  | none =>
    rw [List.find?_eq_none] at hf
    exact absurd (by simpa using hne) (hf w hw)
  | some n1 =>
    rw [hf] at h
    exact ⟨n1, rfl, by simpa using h⟩

/-- **The trimmed signal.**  `trimI s = t0 ++ [z]` ends with a turning point of the repeated
signal, so does the rotation `d ++ trimI s` of `s`, and the trimmed-away tail `d` does not change
what the scan restarted at `z` reports. -/
theorem trim_main (s : List Int) (h2 : ∃ a ∈ s, ∃ b ∈ s, a ≠ b) :
    ∃ t0 p z q q' d, s = trimI s ++ d ∧ CycEnd (trimI s) t0 p z q ∧
      CycEnd (d ++ trimI s) (d ++ t0) p z q' ∧
      ∀ ys, tv 0 z (d ++ (trimI s ++ ys)) = tv 0 z (trimI s ++ ys) := by
  obtain ⟨pre, p, z, d, hs, ht, hrev, hR⟩ := trim_stage1 s h2
  obtain ⟨hA, hm, hnr⟩ := trim_stage2 pre p z d s hs hR
  obtain ⟨hpz, n0, hf0, hext⟩ := isRevLocal_true p z (d ++ s) hrev
  have hst : s = trimI s ++ d := by rw [ht, hs]; simp
  have hpt0 : p ∈ pre ++ [p] := by simp
  have hzt : z ∈ trimI s := by rw [ht]; simp
  have hzs : z ∈ s := by rw [hs]; simp
  -- the rotation `d ++ t`
  have hC2 : CycEnd (d ++ trimI s) (d ++ (pre ++ [p])) p z n0 := by
    refine ⟨by rw [ht]; simp, by simp, hpz, ?_, ext_sgn p z n0 hext⟩
    have e : d ++ s = (d ++ (pre ++ [p])) ++ (z :: d) := by rw [hs]; simp
    obtain ⟨f1, a, f2⟩ := find_append_left (d ++ (pre ++ [p])) (z :: d) (· ≠ z) p
      (List.mem_append_right _ hpt0) (by simpa using hpz)
    rw [e, f1] at hf0
    exact hf0
  -- the scan state behind the tail
  obtain ⟨q, hq1, hq2, hskip⟩ : ∃ q, (pre ++ [p]).find? (· ≠ z) = some q ∧
      sgn (q - z) ≠ sgn (z - p) ∧
      ∀ ys, tv (tvSt 0 z d).1 (tvSt 0 z d).2 (trimI s ++ ys) = tv 0 z (trimI s ++ ys) := by
    rcases hm with ⟨hd0, hall⟩ | hdir
    · -- the tail repeats `z`
      obtain ⟨c1, _⟩ := tv_const d z hall 0
      refine ⟨n0, ?_, ext_sgn p z n0 hext, fun ys => by rw [c1]⟩
      have e : d ++ s = d ++ ((pre ++ [p]) ++ (z :: d)) := by rw [hs]; simp
      rw [e, List.find?_append] at hf0
      have hdn : d.find? (· ≠ z) = none := by
        rw [List.find?_eq_none]; intro x hx; simp [hall x hx]
      rw [hdn] at hf0
      obtain ⟨f1, a, f2⟩ := find_append_left (pre ++ [p]) (z :: d) (· ≠ z) p hpt0 (by simpa using hpz)
      simp only [Option.none_or] at hf0
      rw [f1] at hf0
      exact hf0
    · -- the tail moves on in the direction `δ` and the second copy continues it
      obtain ⟨δ, hδ, hd1, hmz⟩ : ∃ δ : Int, δ ≠ 0 ∧ (tvSt 0 z d).1 = δ ∧ sgn ((tvSt 0 z d).2 - z) = δ := by
        rcases hdir with ⟨h1, h2⟩ | ⟨h1, h2⟩
        · exact ⟨1, by decide, h1, Sym.sgn_pos (by omega)⟩
        · exact ⟨-1, by decide, h1, Sym.sgn_neg (by omega)⟩
      have hmne : z ≠ (tvSt 0 z d).2 := by
        intro h; rw [← h, Int.sub_self] at hmz; rw [Sym.sgn_zero] at hmz; exact hδ hmz.symm
      have hnr' : nextReverses (tvSt 0 z d).1 (tvSt 0 z d).2 s = false := by
        rcases hnr with h | h
        · rw [hd1] at h; exact absurd h hδ
        · exact h
      obtain ⟨n1, hn1, hn2⟩ := nextReverses_false _ _ s z hzs hmne hnr'
      rw [hd1] at hn2
      -- the first sample of `d` that differs from `z` goes in direction `δ`
      have hd_find : d.find? (· ≠ z) = some n0 ∧ sgn (n0 - z) = δ := by
        cases hdf : d.find? (· ≠ z) with
        | none =>
          rw [List.find?_eq_none] at hdf
          have := (tv_const d z (fun x hx => by simpa using hdf x hx) 0).1
          rw [this] at hd1
          exact absurd hd1.symm hδ
        | some nd =>
          have e : (d ++ s).find? (· ≠ z) = some nd := by rw [List.find?_append, hdf]; rfl
          rw [hf0] at e
          have := tv_nil_first d z nd hA hdf
          rw [hd1] at this
          rw [Option.some.inj e]
          exact ⟨rfl, this.symm⟩
      -- the first sample of `s`
      obtain ⟨hh, tl, htl⟩ : ∃ hh tl, pre ++ [p] = hh :: tl := by
        cases pre with
        | nil => exact ⟨p, [], rfl⟩
        | cons a r => exact ⟨a, r ++ [p], rfl⟩
      have hs2 : s = hh :: (tl ++ z :: d) := by
        rw [hs]
        have : pre ++ p :: z :: d = (pre ++ [p]) ++ z :: d := by simp
        rw [this, htl]; rfl
      have hhdir : sgn (hh - z) = δ := by
        rw [hs2] at hn1
        by_cases hhm : hh = (tvSt 0 z d).2
        · rw [hhm]; exact hmz
        · have : hh = n1 := by simpa [hhm] using hn1
          rw [this]
          rcases PylifeVerif.Rainflow.sgn_cases ((tvSt 0 z d).2 - z) with a | a | a <;>
          rcases PylifeVerif.Rainflow.sgn_cases (n1 - (tvSt 0 z d).2) with b | b | b <;>
          rcases PylifeVerif.Rainflow.sgn_cases (n1 - z) with c | c | c <;> omega
      have hhz : hh ≠ z := by
        intro h; rw [h, Int.sub_self, Sym.sgn_zero] at hhdir; exact hδ hhdir.symm
      have hzp : sgn (z - p) ≠ δ := by
        have := ext_sgn p z n0 hext
        rw [hd_find.2] at this
        exact fun h => this h.symm
      refine ⟨hh, by rw [htl]; simp [hhz], by rw [hhdir]; exact fun h => hzp h.symm, ?_⟩
      intro ys
      rw [hd1]
      apply tv_skip (trimI s ++ ys) z _ n1 δ hmz hδ _ hn2
      obtain ⟨f1, a, f2⟩ := find_append_left (trimI s) d (· ≠ (tvSt 0 z d).2) z hzt (by simpa using hmne)
      rw [hst, f1] at hn1
      obtain ⟨g1, _, _⟩ := find_append_left (trimI s) ys (· ≠ (tvSt 0 z d).2) z hzt (by simpa using hmne)
      rw [g1, hn1]
  have hC1 : CycEnd (trimI s) (pre ++ [p]) p z q :=
    ⟨by rw [ht]; simp, by simp, hpz, hq1, hq2⟩
  refine ⟨pre ++ [p], p, z, q, n0, d, hst, hC1, hC2, ?_⟩
  intro ys
  rw [tv_append, hA, List.nil_append]
  exact hskip ys

end PylifeVerif.C04
