/-
Hot-spot detection (`Model/Mesh.lean`, section HotSpot): the labels are the connected components of the
thresholded rows under the adjacency, numbered by descending peak value.
-/
import Model.Mesh
import Mathlib.Order.Basic
import Mathlib.Data.List.Basic
import Mathlib.Logic.Relation
import Mathlib.Data.Int.Order.Basic

namespace PylifeVerif.Mesh

variable {α : Type} [LinearOrder α]

/-- Label of row `i` in the result of `hotspotCore`. -/
def labelAt [Mul α] (n : Nat) (adj : Nat → Nat → Bool) (val : Nat → α) (frac : α) (cap : Option α) (i : Nat) : Nat :=
  (hotspotCore n adj val frac cap).getD i 0

/-- The rows that enter the maximum (`artefact_threshold`). -/
def candidates (n : Nat) (val : Nat → α) (cap : Option α) : List Nat :=
  match cap with
  | none => List.range n
  | some t => (List.range n).filter (fun i => val i < t)

/-- One step between thresholded adjacent rows. -/
def HotStep [Mul α] (n : Nat) (adj : Nat → Nat → Bool) (val : Nat → α) (thr : α) (a b : Nat) : Prop :=
  a < n ∧ b < n ∧ thr ≤ val a ∧ thr ≤ val b ∧ adj a b = true

/-! ## Helper lemmas -/

section Helpers

/-- The running maximum of `maxOf`. -/
theorem foldl_max_spec (xs : List α) (x : α) :
    (xs.foldl (fun m y => if m < y then y else m) x = x ∨
      xs.foldl (fun m y => if m < y then y else m) x ∈ xs) ∧
    x ≤ xs.foldl (fun m y => if m < y then y else m) x ∧
    ∀ y ∈ xs, y ≤ xs.foldl (fun m y => if m < y then y else m) x := by
  induction xs generalizing x with
  | nil => simp
  | cons a as ih =>
    simp only [List.foldl_cons]
    obtain ⟨h1, h2, h3⟩ := ih (if x < a then a else x)
    by_cases hxa : x < a
    · simp only [hxa, if_true] at h1 h2 h3 ⊢
      refine ⟨Or.inr ?_, le_trans (le_of_lt hxa) h2, ?_⟩
      · rcases h1 with h | h
        · rw [h]; exact List.mem_cons_self
        · exact List.mem_cons_of_mem _ h
      · intro y hy
        rcases List.mem_cons.1 hy with rfl | hy
        · exact h2
        · exact h3 y hy
    · simp only [hxa, if_false] at h1 h2 h3 ⊢
      refine ⟨?_, h2, ?_⟩
      · rcases h1 with h | h
        · exact Or.inl h
        · exact Or.inr (List.mem_cons_of_mem _ h)
      · intro y hy
        rcases List.mem_cons.1 hy with rfl | hy
        · exact le_trans (not_lt.1 hxa) h2
        · exact h3 y hy

/-- The running arg-max of `argmaxFirst`. -/
theorem foldl_argmax_spec (val : Nat → α) (l : List Nat) (i : Nat) :
    (l.foldl (fun best j => if val best < val j then j else best) i = i ∨
      l.foldl (fun best j => if val best < val j then j else best) i ∈ l) ∧
    val i ≤ val (l.foldl (fun best j => if val best < val j then j else best) i) ∧
    ∀ j ∈ l, val j ≤ val (l.foldl (fun best j => if val best < val j then j else best) i) := by
  induction l generalizing i with
  | nil => simp
  | cons a as ih =>
    simp only [List.foldl_cons]
    obtain ⟨h1, h2, h3⟩ := ih (if val i < val a then a else i)
    by_cases hxa : val i < val a
    · simp only [hxa, if_true] at h1 h2 h3 ⊢
      refine ⟨Or.inr ?_, le_trans (le_of_lt hxa) h2, ?_⟩
      · rcases h1 with h | h
        · rw [h]; exact List.mem_cons_self
        · exact List.mem_cons_of_mem _ h
      · intro y hy
        rcases List.mem_cons.1 hy with rfl | hy
        · exact h2
        · exact h3 y hy
    · simp only [hxa, if_false] at h1 h2 h3 ⊢
      refine ⟨?_, h2, ?_⟩
      · rcases h1 with h | h
        · exact Or.inl h
        · exact Or.inr (List.mem_cons_of_mem _ h)
      · intro y hy
        rcases List.mem_cons.1 hy with rfl | hy
        · exact le_trans (not_lt.1 hxa) h2
        · exact h3 y hy

theorem argmaxFirst_spec (val : Nat → α) (rem : List Nat) (p : Nat) (h : argmaxFirst val rem = some p) :
    p ∈ rem ∧ ∀ j ∈ rem, val j ≤ val p := by
  cases rem with
  | nil => simp [argmaxFirst] at h
  | cons i rest =>
    simp only [argmaxFirst, Option.some.injEq] at h
    obtain ⟨h1, h2, h3⟩ := foldl_argmax_spec val rest i
    rw [h] at h1 h2 h3
    refine ⟨?_, ?_⟩
    · rcases h1 with h | h
      · rw [h]; exact List.mem_cons_self
      · exact List.mem_cons_of_mem _ h
    · intro j hj
      rcases List.mem_cons.1 hj with rfl | hj
      · exact h2
      · exact h3 j hj

theorem argmaxFirst_none (val : Nat → α) (rem : List Nat) (h : argmaxFirst val rem = none) : rem = [] := by
  cases rem with
  | nil => rfl
  | cons i rest => simp [argmaxFirst] at h

/-! ### `growStep` and `grow` -/

theorem mem_growStep (adj : Nat → Nat → Bool) (rem S : List Nat) (x : Nat) :
    x ∈ growStep adj rem S ↔ x ∈ S ∨ (x ∈ rem ∧ x ∉ S ∧ ∃ j ∈ S, adj j x = true) := by
  simp [growStep, List.mem_append, List.mem_filter]

/-- `S` is closed under `adj` inside `rem`. -/
def Closed (adj : Nat → Nat → Bool) (rem S : List Nat) : Prop :=
  ∀ j ∈ S, ∀ i ∈ rem, adj j i = true → i ∈ S

/-- One adjacency step inside `rem`. -/
def RemStep (adj : Nat → Nat → Bool) (rem : List Nat) (a b : Nat) : Prop :=
  a ∈ rem ∧ b ∈ rem ∧ adj a b = true

theorem grow_succ (adj : Nat → Nat → Bool) (rem : List Nat) (fuel : Nat) (S : List Nat) :
    grow adj rem (fuel + 1) S =
      if (growStep adj rem S).length = S.length then S else grow adj rem fuel (growStep adj rem S) := by
  simp [grow]

theorem grow_invariant (P : List Nat → Prop) (adj : Nat → Nat → Bool) (rem : List Nat)
    (hstep : ∀ S, P S → P (growStep adj rem S)) : ∀ (fuel : Nat) (S : List Nat), P S → P (grow adj rem fuel S)
  | 0, S, h => by simpa [grow] using h
  | fuel + 1, S, h => by
    rw [grow_succ]
    split_ifs
    · exact h
    · exact grow_invariant P adj rem hstep fuel _ (hstep S h)

theorem filter_length_lt (l : List Nat) (p q : Nat → Bool) (hpq : ∀ x, p x = true → q x = true)
    (x : Nat) (hx : x ∈ l) (hq : q x = true) (hp : p x = false) :
    (l.filter p).length < (l.filter q).length := by
  induction l with
  | nil => simp at hx
  | cons a as ih =>
    have hle : ∀ (m : List Nat), (m.filter p).length ≤ (m.filter q).length := by
      intro m
      induction m with
      | nil => simp
      | cons b bs ihb =>
        by_cases hpb : p b = true
        · simp [hpb, hpq b hpb, ihb]
        · by_cases hqb : q b = true
          · simp [hpb, hqb]; omega
          · simp [hpb, hqb, ihb]
    rcases List.mem_cons.1 hx with rfl | hx
    · have := hle as
      simp [hp, hq]; omega
    · have := ih hx
      by_cases hpb : p a = true
      · simp [hpb, hpq a hpb]; omega
      · by_cases hqb : q a = true
        · simp [hpb, hqb]; omega
        · simp [hpb, hqb]; omega

theorem growStep_length_eq_closed (adj : Nat → Nat → Bool) (rem S : List Nat)
    (h : (growStep adj rem S).length = S.length) : Closed adj rem S := by
  intro j hj i hi hadj
  by_contra hni
  have hmem : i ∈ rem.filter (fun i => !S.contains i && S.any (fun j => adj j i)) := by
    simp only [List.mem_filter, hi, true_and, Bool.and_eq_true, Bool.not_eq_true', List.any_eq_true]
    exact ⟨by simpa using hni, j, hj, hadj⟩
  have hlen : (rem.filter (fun i => !S.contains i && S.any (fun j => adj j i))).length = 0 := by
    simp only [growStep, List.length_append] at h; omega
  rw [List.length_eq_zero_iff] at hlen
  rw [hlen] at hmem
  simp at hmem

theorem growStep_length_ne_exists (adj : Nat → Nat → Bool) (rem S : List Nat)
    (h : (growStep adj rem S).length ≠ S.length) :
    ∃ x ∈ rem, x ∉ S ∧ x ∈ growStep adj rem S := by
  have hne : rem.filter (fun i => !S.contains i && S.any (fun j => adj j i)) ≠ [] := by
    intro h0
    apply h
    unfold growStep
    rw [h0]
    simp
  obtain ⟨x, hx⟩ := List.exists_mem_of_ne_nil _ hne
  have hx' := hx
  simp only [List.mem_filter, Bool.and_eq_true, Bool.not_eq_true'] at hx'
  refine ⟨x, hx'.1, by simpa using hx'.2.1, ?_⟩
  simp only [growStep, List.mem_append]
  exact Or.inr hx

theorem grow_closed (adj : Nat → Nat → Bool) (rem : List Nat) :
    ∀ (fuel : Nat) (S : List Nat), (rem.filter (fun i => !S.contains i)).length < fuel →
      Closed adj rem (grow adj rem fuel S)
  | 0, S, h => by omega
  | fuel + 1, S, h => by
    rw [grow_succ]
    split_ifs with hlen
    · exact growStep_length_eq_closed adj rem S hlen
    · apply grow_closed adj rem fuel
      obtain ⟨x, hxrem, hxS, hxS'⟩ := growStep_length_ne_exists adj rem S hlen
      have := filter_length_lt rem (fun i => !(growStep adj rem S).contains i) (fun i => !S.contains i)
        (by
          intro y hy
          simp only [Bool.not_eq_true', List.contains_eq_mem, decide_eq_false_iff_not] at hy ⊢
          intro hyS
          exact hy ((mem_growStep adj rem S y).2 (Or.inl hyS)))
        x hxrem (by simpa using hxS) (by simpa using hxS')
      omega

/-- Everything about one hot spot `c = grow adj rem rem.length [p]`. -/
theorem grow_spec (adj : Nat → Nat → Bool) (rem : List Nat) (p : Nat) (hp : p ∈ rem) :
    p ∈ grow adj rem rem.length [p] ∧
    (∀ x ∈ grow adj rem rem.length [p], x ∈ rem) ∧
    Closed adj rem (grow adj rem rem.length [p]) ∧
    (∀ x ∈ grow adj rem rem.length [p], Relation.ReflTransGen (RemStep adj rem) p x) := by
  refine ⟨?_, ?_, ?_, ?_⟩
  · apply grow_invariant (fun S => p ∈ S)
    · intro S hS
      exact (mem_growStep adj rem S p).2 (Or.inl hS)
    · simp
  · have := grow_invariant (fun S => ∀ x ∈ S, x ∈ rem) adj rem (by
      intro S hS x hx
      rcases (mem_growStep adj rem S x).1 hx with h | h
      · exact hS x h
      · exact h.1) rem.length [p] (by simpa using hp)
    exact this
  · apply grow_closed
    have := filter_length_lt rem (fun i => !([p] : List Nat).contains i) (fun _ => true)
      (by intros; rfl) p hp rfl (by simp)
    simpa using this
  · have := grow_invariant
      (fun S => ∀ x ∈ S, x ∈ rem ∧ Relation.ReflTransGen (RemStep adj rem) p x) adj rem (by
      intro S hS x hx
      rcases (mem_growStep adj rem S x).1 hx with h | h
      · exact hS x h
      · obtain ⟨hxr, _, j, hj, hadj⟩ := h
        exact ⟨hxr, Relation.ReflTransGen.tail (hS j hj).2 ⟨(hS j hj).1, hxr, hadj⟩⟩)
      rem.length [p] (by
        intro x hx
        simp only [List.mem_singleton] at hx
        subst hx
        exact ⟨hp, Relation.ReflTransGen.refl⟩)
    exact fun x hx => (this x hx).2

/-! ### `labelOf` and `components` -/

theorem labelOf_nil (i : Nat) : labelOf [] i = 0 := rfl

theorem labelOf_cons (c : List Nat) (cs : List (List Nat)) (i : Nat) :
    labelOf (c :: cs) i = if i ∈ c then 1 else if labelOf cs i = 0 then 0 else labelOf cs i + 1 := by
  unfold labelOf
  rw [List.findIdx?_cons]
  by_cases h : i ∈ c
  · simp [h]
  · simp only [List.contains_eq_mem, h, decide_false, Bool.false_eq_true, if_false]
    cases List.findIdx? (fun x => decide (i ∈ x)) cs <;> simp

theorem labelOf_cons_mem (c : List Nat) (cs : List (List Nat)) (i : Nat) (h : i ∈ c) :
    labelOf (c :: cs) i = 1 := by
  rw [labelOf_cons, if_pos h]

theorem labelOf_cons_not_mem (c : List Nat) (cs : List (List Nat)) (i : Nat) (h : i ∉ c) :
    labelOf (c :: cs) i = if labelOf cs i = 0 then 0 else labelOf cs i + 1 := by
  rw [labelOf_cons, if_neg h]

theorem mem_remNext (rem c : List Nat) (x : Nat) :
    x ∈ rem.filter (fun i => !c.contains i) ↔ x ∈ rem ∧ x ∉ c := by
  simp [List.mem_filter]

/-- Unfolding of one round of `components`, with everything known about the hot spot found. -/
theorem components_succ_cases (adj : Nat → Nat → Bool) (val : Nat → α) (fuel : Nat) (rem : List Nat) :
    (rem = [] ∧ components adj val (fuel + 1) rem = []) ∨
    ∃ p c, p ∈ rem ∧ (∀ j ∈ rem, val j ≤ val p) ∧ p ∈ c ∧ (∀ x ∈ c, x ∈ rem) ∧ Closed adj rem c ∧
      (∀ x ∈ c, Relation.ReflTransGen (RemStep adj rem) p x) ∧
      components adj val (fuel + 1) rem =
        c :: components adj val fuel (rem.filter (fun i => !c.contains i)) := by
  cases hp : argmaxFirst val rem with
  | none =>
    left
    exact ⟨argmaxFirst_none val rem hp, by simp [components, hp]⟩
  | some p =>
    right
    obtain ⟨hprem, hmax⟩ := argmaxFirst_spec val rem p hp
    obtain ⟨h1, h2, h3, h4⟩ := grow_spec adj rem p hprem
    exact ⟨p, _, hprem, hmax, h1, h2, h3, h4, by simp [components, hp]⟩

theorem components_zero (adj : Nat → Nat → Bool) (val : Nat → α) (rem : List Nat) :
    components adj val 0 rem = [] := rfl

/-- A positive label only occurs on remaining rows. -/
theorem label_pos_mem (adj : Nat → Nat → Bool) (val : Nat → α) :
    ∀ (fuel : Nat) (rem : List Nat) (i : Nat), 1 ≤ labelOf (components adj val fuel rem) i → i ∈ rem
  | 0, rem, i, h => by simp [components_zero, labelOf_nil] at h
  | fuel + 1, rem, i, h => by
    rcases components_succ_cases adj val fuel rem with ⟨_, h0⟩ | ⟨p, c, _, _, _, hsub, _, _, heq⟩
    · simp [h0, labelOf_nil] at h
    · rw [heq] at h
      by_cases hic : i ∈ c
      · exact hsub i hic
      · rw [labelOf_cons_not_mem _ _ _ hic] at h
        have h' : 1 ≤ labelOf (components adj val fuel (rem.filter (fun i => !c.contains i))) i := by
          split_ifs at h with h0
          · omega
          · omega
        exact ((mem_remNext rem c i).1 (label_pos_mem adj val fuel _ i h')).1

/-- With enough fuel every remaining row gets a positive label. -/
theorem mem_label_pos (adj : Nat → Nat → Bool) (val : Nat → α) :
    ∀ (fuel : Nat) (rem : List Nat) (i : Nat), rem.length ≤ fuel → i ∈ rem →
      1 ≤ labelOf (components adj val fuel rem) i
  | 0, rem, i, hlen, hi => by
    have : rem = [] := List.length_eq_zero_iff.1 (by omega)
    simp [this] at hi
  | fuel + 1, rem, i, hlen, hi => by
    rcases components_succ_cases adj val fuel rem with ⟨h0, _⟩ | ⟨p, c, hp, _, hpc, hsub, _, _, heq⟩
    · simp [h0] at hi
    · rw [heq]
      by_cases hic : i ∈ c
      · rw [labelOf_cons_mem _ _ _ hic]
        exact Nat.le_refl 1
      · rw [labelOf_cons_not_mem _ _ _ hic]
        have hlt := filter_length_lt rem (fun i => !c.contains i) (fun _ => true)
          (by intros; rfl) p hp rfl (by simpa using hpc)
        have hlen' : (rem.filter (fun i => !c.contains i)).length ≤ fuel := by
          simp only [List.filter_true] at hlt; omega
        have := mem_label_pos adj val fuel _ i hlen' ((mem_remNext rem c i).2 ⟨hi, hic⟩)
        split_ifs with h0
        · omega
        · omega

/-- Adjacent remaining rows get the same label. -/
theorem label_adj (adj : Nat → Nat → Bool) (hsymm : ∀ i j, adj i j = adj j i) (val : Nat → α) :
    ∀ (fuel : Nat) (rem : List Nat) (i j : Nat), i ∈ rem → j ∈ rem → adj i j = true →
      labelOf (components adj val fuel rem) i = labelOf (components adj val fuel rem) j
  | 0, rem, i, j, _, _, _ => by simp [components_zero, labelOf_nil]
  | fuel + 1, rem, i, j, hi, hj, hadj => by
    rcases components_succ_cases adj val fuel rem with ⟨_, h0⟩ | ⟨p, c, _, _, _, _, hcl, _, heq⟩
    · simp [h0, labelOf_nil]
    · rw [heq]
      by_cases hic : i ∈ c
      · have hjc : j ∈ c := hcl i hic j hj hadj
        rw [labelOf_cons_mem _ _ _ hic, labelOf_cons_mem _ _ _ hjc]
      · have hjc : j ∉ c := fun hjc => hic (hcl j hjc i hi (by rw [hsymm]; exact hadj))
        rw [labelOf_cons_not_mem _ _ _ hic, labelOf_cons_not_mem _ _ _ hjc,
          label_adj adj hsymm val fuel _ i j ((mem_remNext rem c i).2 ⟨hi, hic⟩)
            ((mem_remNext rem c j).2 ⟨hj, hjc⟩) hadj]

theorem remStep_symm (adj : Nat → Nat → Bool) (hsymm : ∀ i j, adj i j = adj j i) (rem : List Nat) (a b : Nat)
    (h : RemStep adj rem a b) : RemStep adj rem b a :=
  ⟨h.2.1, h.1, by rw [hsymm]; exact h.2.2⟩

theorem remStep_chain_symm (adj : Nat → Nat → Bool) (hsymm : ∀ i j, adj i j = adj j i) (rem : List Nat) (a b : Nat)
    (h : Relation.ReflTransGen (RemStep adj rem) a b) : Relation.ReflTransGen (RemStep adj rem) b a := by
  induction h with
  | refl => exact Relation.ReflTransGen.refl
  | tail _ hbc ih => exact Relation.ReflTransGen.head (remStep_symm adj hsymm rem _ _ hbc) ih

/-- Rows with the same positive label are joined by a chain inside the remaining rows. -/
theorem label_connected (adj : Nat → Nat → Bool) (hsymm : ∀ i j, adj i j = adj j i) (val : Nat → α) :
    ∀ (fuel : Nat) (rem : List Nat) (i j : Nat), 1 ≤ labelOf (components adj val fuel rem) i →
      labelOf (components adj val fuel rem) i = labelOf (components adj val fuel rem) j →
      Relation.ReflTransGen (RemStep adj rem) i j
  | 0, rem, i, j, h, _ => by simp [components_zero, labelOf_nil] at h
  | fuel + 1, rem, i, j, hpos, heqL => by
    rcases components_succ_cases adj val fuel rem with ⟨_, h0⟩ | ⟨p, c, _, _, _, _, _, hreach, heq⟩
    · simp [h0, labelOf_nil] at hpos
    · rw [heq] at hpos heqL
      by_cases hic : i ∈ c
      · have hjc : j ∈ c := by
          by_contra hjc
          rw [labelOf_cons_mem _ _ _ hic, labelOf_cons_not_mem _ _ _ hjc] at heqL
          split_ifs at heqL; omega
        exact Relation.ReflTransGen.trans (remStep_chain_symm adj hsymm rem _ _ (hreach i hic)) (hreach j hjc)
      · have hjc : j ∉ c := by
          intro hjc
          rw [labelOf_cons_mem _ _ _ hjc, labelOf_cons_not_mem _ _ _ hic] at heqL
          split_ifs at heqL; omega
        rw [labelOf_cons_not_mem _ _ _ hic] at hpos heqL
        rw [labelOf_cons_not_mem _ _ _ hjc] at heqL
        have hpos' : 1 ≤ labelOf (components adj val fuel (rem.filter (fun i => !c.contains i))) i := by
          split_ifs at hpos <;> omega
        have heq' : labelOf (components adj val fuel (rem.filter (fun i => !c.contains i))) i =
            labelOf (components adj val fuel (rem.filter (fun i => !c.contains i))) j := by
          split_ifs at heqL <;> omega
        have := label_connected adj hsymm val fuel _ i j hpos' heq'
        refine Relation.ReflTransGen.mono ?_ _ _ this
        intro a b hab
        exact ⟨((mem_remNext rem c a).1 hab.1).1, ((mem_remNext rem c b).1 hab.2.1).1, hab.2.2⟩

/-- The peak of a hot spot dominates this and all later hot spots. -/
theorem label_peak (adj : Nat → Nat → Bool) (val : Nat → α) :
    ∀ (fuel : Nat) (rem : List Nat) (i : Nat), 1 ≤ labelOf (components adj val fuel rem) i →
      ∃ k ∈ rem, labelOf (components adj val fuel rem) k = labelOf (components adj val fuel rem) i ∧
        ∀ j', labelOf (components adj val fuel rem) i ≤ labelOf (components adj val fuel rem) j' →
          val j' ≤ val k
  | 0, rem, i, h => by simp [components_zero, labelOf_nil] at h
  | fuel + 1, rem, i, hpos => by
    rcases hc : components_succ_cases adj val fuel rem with ⟨_, h0⟩ | ⟨p, c, hp, hmax, hpc, _, _, _, heq⟩
    · simp [h0, labelOf_nil] at hpos
    · by_cases hic : i ∈ c
      · refine ⟨p, hp, ?_, ?_⟩
        · rw [heq, labelOf_cons_mem _ _ _ hic, labelOf_cons_mem _ _ _ hpc]
        · intro j' hj'
          apply hmax
          apply label_pos_mem adj val (fuel + 1) rem j'
          omega
      · have hpos2 := hpos
        rw [heq, labelOf_cons_not_mem _ _ _ hic] at hpos2
        have hpos' : 1 ≤ labelOf (components adj val fuel (rem.filter (fun i => !c.contains i))) i := by
          split_ifs at hpos2 <;> omega
        obtain ⟨k, hk, hkeq, hkmax⟩ := label_peak adj val fuel _ i hpos'
        have hkc := ((mem_remNext rem c k).1 hk)
        refine ⟨k, hkc.1, ?_, ?_⟩
        · rw [heq, labelOf_cons_not_mem _ _ _ hic, labelOf_cons_not_mem _ _ _ hkc.2, hkeq]
        · intro j' hj'
          apply hkmax
          rw [heq, labelOf_cons_not_mem _ _ _ hic] at hj'
          by_cases hjc : j' ∈ c
          · rw [labelOf_cons_mem _ _ _ hjc] at hj'
            split_ifs at hj' <;> omega
          · rw [labelOf_cons_not_mem _ _ _ hjc] at hj'
            split_ifs at hj' <;> omega

/-- Labels are used without gaps. -/
theorem label_contiguous (adj : Nat → Nat → Bool) (val : Nat → α) :
    ∀ (fuel : Nat) (rem : List Nat) (j l : Nat), 1 ≤ l → l ≤ labelOf (components adj val fuel rem) j →
      ∃ k ∈ rem, labelOf (components adj val fuel rem) k = l
  | 0, rem, j, l, h1, h2 => by simp [components_zero, labelOf_nil] at h2; omega
  | fuel + 1, rem, j, l, h1, h2 => by
    rcases components_succ_cases adj val fuel rem with ⟨_, h0⟩ | ⟨p, c, hp, _, hpc, _, _, _, heq⟩
    · simp [h0, labelOf_nil] at h2; omega
    · by_cases hl : l = 1
      · exact ⟨p, hp, by rw [heq, labelOf_cons_mem _ _ _ hpc, hl]⟩
      · rw [heq] at h2
        have hjc : j ∉ c := by
          intro hjc
          rw [labelOf_cons_mem _ _ _ hjc] at h2
          omega
        rw [labelOf_cons_not_mem _ _ _ hjc] at h2
        have h2' : l - 1 ≤ labelOf (components adj val fuel (rem.filter (fun i => !c.contains i))) j := by
          split_ifs at h2 <;> omega
        obtain ⟨k, hk, hkeq⟩ := label_contiguous adj val fuel _ j (l - 1) (by omega) h2'
        have hkc := ((mem_remNext rem c k).1 hk)
        refine ⟨k, hkc.1, ?_⟩
        rw [heq, labelOf_cons_not_mem _ _ _ hkc.2, hkeq]
        split_ifs <;> omega

/-! ### `hotspotCore` -/

/-- The thresholded rows. -/
def above (n : Nat) (val : Nat → α) (thr : α) : List Nat := (List.range n).filter (fun i => thr ≤ val i)

theorem mem_above (n : Nat) (val : Nat → α) (thr : α) (i : Nat) : i ∈ above n val thr ↔ i < n ∧ thr ≤ val i := by
  simp [above, List.mem_filter]

theorem above_length (n : Nat) (val : Nat → α) (thr : α) : (above n val thr).length ≤ n := by
  have := List.length_filter_le (fun i => decide (thr ≤ val i)) (List.range n)
  simpa [above] using this

theorem hotspotCore_eq [Mul α] (n : Nat) (adj : Nat → Nat → Bool) (val : Nat → α) (frac : α) (cap : Option α) :
    hotspotCore n adj val frac cap =
      match maxOf ((candidates n val cap).map val) with
      | none => (List.range n).map (fun _ => 0)
      | some m => (List.range n).map (labelOf (components adj val n (above n val (frac * m)))) := by
  cases cap with
  | none =>
    -- over a linear order no value is skipped (the model's NaN filter `val i ≤ val i` is the identity)
    have hf : (List.range n).filter (fun i => decide (val i ≤ val i)) = List.range n :=
      List.filter_eq_self.2 (fun a _ => by simp)
    simp only [hotspotCore, candidates, hf]
    rfl
  | some t => rfl

theorem labelAt_none [Mul α] (n : Nat) (adj : Nat → Nat → Bool) (val : Nat → α) (frac : α) (cap : Option α)
    (h : maxOf ((candidates n val cap).map val) = none) (i : Nat) : labelAt n adj val frac cap i = 0 := by
  unfold labelAt
  rw [hotspotCore_eq, h]
  simp only [List.getD_eq_getElem?_getD, List.getElem?_map]
  cases (List.range n)[i]? <;> simp

theorem labelAt_some [Mul α] (n : Nat) (adj : Nat → Nat → Bool) (val : Nat → α) (frac : α) (cap : Option α) (m : α)
    (h : maxOf ((candidates n val cap).map val) = some m) (i : Nat) (hi : i < n) :
    labelAt n adj val frac cap i = labelOf (components adj val n (above n val (frac * m))) i := by
  unfold labelAt
  rw [hotspotCore_eq, h]
  simp only [List.getD_eq_getElem?_getD, List.getElem?_map, List.getElem?_range hi, Option.map_some,
    Option.getD_some]

theorem hotStep_of_remStep [Mul α] (n : Nat) (adj : Nat → Nat → Bool) (val : Nat → α) (thr : α) (a b : Nat)
    (h : RemStep adj (above n val thr) a b) : HotStep n adj val thr a b := by
  obtain ⟨ha, hb, hab⟩ := h
  rw [mem_above] at ha hb
  exact ⟨ha.1, hb.1, ha.2, hb.2, hab⟩

end Helpers

/-! ## The properties -/

theorem maxOf_spec (l : List α) (m : α) (h : maxOf l = some m) : m ∈ l ∧ ∀ x ∈ l, x ≤ m := by
  cases l with
  | nil => simp [maxOf] at h
  | cons x xs =>
    simp only [maxOf, Option.some.injEq] at h
    obtain ⟨h1, h2, h3⟩ := foldl_max_spec xs x
    rw [h] at h1 h2 h3
    refine ⟨?_, ?_⟩
    · rcases h1 with h | h
      · rw [h]; exact List.mem_cons_self
      · exact List.mem_cons_of_mem _ h
    · intro y hy
      rcases List.mem_cons.1 hy with rfl | hy
      · exact h2
      · exact h3 y hy

theorem hotspotCore_length [Mul α] (n : Nat) (adj : Nat → Nat → Bool) (val : Nat → α) (frac : α) (cap : Option α) :
    (hotspotCore n adj val frac cap).length = n := by
  rw [hotspotCore_eq]
  cases maxOf ((candidates n val cap).map val) <;> simp

/-- No candidate at all (`max` of an empty selection is NaN in pandas): every label is 0. -/
theorem labelAt_no_candidate [Mul α] (n : Nat) (adj : Nat → Nat → Bool) (val : Nat → α) (frac : α) (cap : Option α)
    (h : candidates n val cap = []) (i : Nat) : labelAt n adj val frac cap i = 0 := by
  apply labelAt_none
  rw [h]
  rfl

/-- label ≥ 1 ⇔ value ≥ frac · max. -/
theorem labelAt_pos_iff [Mul α] (n : Nat) (adj : Nat → Nat → Bool) (val : Nat → α) (frac : α) (cap : Option α) (m : α)
    (hm : maxOf ((candidates n val cap).map val) = some m) (i : Nat) (hi : i < n) :
    1 ≤ labelAt n adj val frac cap i ↔ frac * m ≤ val i := by
  rw [labelAt_some n adj val frac cap m hm i hi]
  constructor
  · intro h
    exact ((mem_above n val (frac * m) i).1 (label_pos_mem adj val n _ i h)).2
  · intro h
    exact mem_label_pos adj val n _ i (above_length n val _) ((mem_above n val (frac * m) i).2 ⟨hi, h⟩)

/-- Each label class is closed under adjacency within the thresholded rows. -/
theorem labelAt_adj [Mul α] (n : Nat) (adj : Nat → Nat → Bool) (hsymm : ∀ i j, adj i j = adj j i)
    (val : Nat → α) (frac : α) (cap : Option α) (m : α)
    (hm : maxOf ((candidates n val cap).map val) = some m) (i j : Nat)
    (h : HotStep n adj val (frac * m) i j) :
    labelAt n adj val frac cap i = labelAt n adj val frac cap j := by
  obtain ⟨hi, hj, hvi, hvj, hadj⟩ := h
  rw [labelAt_some n adj val frac cap m hm i hi, labelAt_some n adj val frac cap m hm j hj]
  exact label_adj adj hsymm val n _ i j ((mem_above n val _ i).2 ⟨hi, hvi⟩) ((mem_above n val _ j).2 ⟨hj, hvj⟩) hadj

/-- Each label class is connected: two rows with the same positive label are joined by a chain of adjacent
thresholded rows. -/
theorem labelAt_connected [Mul α] (n : Nat) (adj : Nat → Nat → Bool) (hsymm : ∀ i j, adj i j = adj j i)
    (val : Nat → α) (frac : α) (cap : Option α) (m : α)
    (hm : maxOf ((candidates n val cap).map val) = some m) (i j : Nat) (hi : i < n) (hj : j < n)
    (hpos : 1 ≤ labelAt n adj val frac cap i)
    (h : labelAt n adj val frac cap i = labelAt n adj val frac cap j) :
    Relation.ReflTransGen (HotStep n adj val (frac * m)) i j := by
  rw [labelAt_some n adj val frac cap m hm i hi] at hpos h
  rw [labelAt_some n adj val frac cap m hm j hj] at h
  have := label_connected adj hsymm val n _ i j hpos h
  exact Relation.ReflTransGen.mono (hotStep_of_remStep n adj val (frac * m)) _ _ this

/-- Labels are numbered by descending peak: a class with a smaller label contains a row whose value is at least
every value of every class with a larger label. -/
theorem labelAt_descending_peak [Mul α] (n : Nat) (adj : Nat → Nat → Bool) (val : Nat → α) (frac : α) (cap : Option α)
    (i : Nat) (hi : i < n) (hpos : 1 ≤ labelAt n adj val frac cap i) :
    ∃ k, k < n ∧ labelAt n adj val frac cap k = labelAt n adj val frac cap i ∧
      ∀ j', j' < n → labelAt n adj val frac cap i ≤ labelAt n adj val frac cap j' → val j' ≤ val k := by
  cases hm : maxOf ((candidates n val cap).map val) with
  | none =>
    rw [labelAt_none n adj val frac cap hm i] at hpos
    omega
  | some m =>
    rw [labelAt_some n adj val frac cap m hm i hi] at hpos
    obtain ⟨k, hk, hkeq, hkmax⟩ := label_peak adj val n _ i hpos
    have hkn : k < n := ((mem_above n val _ k).1 hk).1
    refine ⟨k, hkn, ?_, ?_⟩
    · rw [labelAt_some n adj val frac cap m hm k hkn, labelAt_some n adj val frac cap m hm i hi, hkeq]
    · intro j' hj' hle
      rw [labelAt_some n adj val frac cap m hm j' hj', labelAt_some n adj val frac cap m hm i hi] at hle
      exact hkmax j' hle

/-- Labels are used without gaps: 1, 2, …, number of hot spots. -/
theorem labelAt_contiguous [Mul α] (n : Nat) (adj : Nat → Nat → Bool) (val : Nat → α) (frac : α) (cap : Option α)
    (j : Nat) (hj : j < n) (l : Nat) (hl : 1 ≤ l) (hlj : l ≤ labelAt n adj val frac cap j) :
    ∃ k, k < n ∧ labelAt n adj val frac cap k = l := by
  cases hm : maxOf ((candidates n val cap).map val) with
  | none =>
    rw [labelAt_none n adj val frac cap hm j] at hlj
    omega
  | some m =>
    rw [labelAt_some n adj val frac cap m hm j hj] at hlj
    obtain ⟨k, hk, hkeq⟩ := label_contiguous adj val n _ j l hl hlj
    have hkn : k < n := ((mem_above n val _ k).1 hk).1
    exact ⟨k, hkn, by rw [labelAt_some n adj val frac cap m hm k hkn, hkeq]⟩

/-- The row adjacency of the mesh frame is symmetric. -/
theorem rowAdj_symm (nodes elems : Array Int) (i j : Nat) : rowAdj nodes elems i j = rowAdj nodes elems j i := by
  unfold rowAdj
  rw [BEq.comm (a := nodes.getD i 0), BEq.comm (a := elems.getD i 0)]

/-! ## Non-vacuity: a five-row chain `0 - 1 - 2 - 3 - 4` with values `2, 1, -5, 2, -5` over `Int`, `frac = 0`:
thresholded rows `0, 1, 3`, hot spots `{0, 1}` (peak 2, found first) and `{3}`. -/

section Examples

/-- Chain adjacency. -/
def exAdj (a b : Nat) : Bool := a + 1 == b || b + 1 == a

/-- Example values. -/
def exVal (i : Nat) : Int := [2, 1, -5, 2, -5].getD i 0

example : hotspotCore 5 exAdj exVal 0 none = [1, 1, 0, 2, 0] := by decide
example : hotspotCore 5 exAdj exVal 0 (some 2) = [1, 1, 0, 2, 0] := by decide
example : hotspotCore 5 exAdj exVal 0 (some (-5)) = [0, 0, 0, 0, 0] := by decide
example : candidates 5 exVal (some (-5)) = [] := by decide
example : maxOf ((candidates 5 exVal none).map exVal) = some 2 := by decide
example : ∀ i j, exAdj i j = exAdj j i := by
  intro i j; unfold exAdj; rw [Bool.or_comm]
example : HotStep 5 exAdj exVal (0 * 2) 0 1 := by unfold HotStep; decide
example : labelAt 5 exAdj exVal 0 none 0 = 1 ∧ labelAt 5 exAdj exVal 0 none 1 = 1 ∧
    labelAt 5 exAdj exVal 0 none 3 = 2 := by decide

end Examples

end PylifeVerif.Mesh
