/- Helper lemmas for C11: normal forms of the per-class damage, ordering of the Miner variants, Gassner cycles under
   Miner-Haibach and Miner-elementary. -/
import Proofs.Lemmas.Miner
import Proofs.Lemmas.Woehler

set_option linter.unusedSimpArgs false

namespace PylifeVerif.Miner
open PylifeVerif

theorem two_lit : (2.0 : ℝ) = 2 := by norm_num
theorem one_lit : (1.0 : ℝ) = 1 := by norm_num
theorem zero_lit : (0.0 : ℝ) = 0 := by norm_num

/-- `n / (ND * x^(-k)) = n * x^k / ND` for a non-negative base (also when `x^k = 0`). -/
theorem div_basquin (n ND x k : ℝ) (hx : 0 ≤ x) : n / (ND * x ^ (-k)) = n * x ^ k / ND := by
  rw [Real.rpow_neg hx, ← div_div, div_inv_eq_mul]
  ring

theorem damageTerm_original_lt (c : Curve ℝ) (p : ℝ × ℝ) (h : p.1 < c.SD) :
    damageTerm (minerOriginal c) p = 0 := by
  simp [damageTerm, cycles, minerOriginal, h, zero_lit]

theorem damageTerm_ge (c : Curve ℝ) (p : ℝ × ℝ) (h : ¬ p.1 < c.SD) :
    damageTerm c p = p.2 / (c.ND * (p.1 / c.SD) ^ (-c.k1)) := by
  simp [damageTerm, cycles, h, basquin]

theorem damageTerm_haibach_lt (c : Curve ℝ) (p : ℝ × ℝ) (h : p.1 < c.SD) :
    damageTerm (minerHaibach c) p = p.2 / (c.ND * (p.1 / c.SD) ^ (-(2 * c.k1 - 1))) := by
  simp [damageTerm, cycles, minerHaibach, h, basquin, two_lit, one_lit]

theorem damageTerm_elementary_lt (c : Curve ℝ) (p : ℝ × ℝ) (h : p.1 < c.SD) :
    damageTerm (minerElementary c) p = p.2 / (c.ND * (p.1 / c.SD) ^ (-c.k1)) := by
  simp [damageTerm, cycles, minerElementary, h, basquin]


/-! ### Gassner / Haibach -/

/-- the denominator of `MinerHaibach.lifetime_multiple` (`sum1 + sum2`) -/
noncomputable def hsum (c : Curve ℝ) (M : ℝ) (l : Coll ℝ) : ℝ :=
  sumL ((l.filter fun p => decide (c.SD / M ≤ p.1 / M)).map fun p => p.2 * Transc.pow (p.1 / M) c.k1) +
  Transc.pow (c.SD / M) (1.0 - c.k1) *
    sumL ((l.filter fun p => decide (p.1 / M < c.SD / M)).map
      fun p => p.2 * Transc.pow (p.1 / M) (2.0 * c.k1 - 1.0))

theorem lifetimeMultipleHaibachAt_eq (c : Curve ℝ) (M : ℝ) (l : Coll ℝ) :
    lifetimeMultipleHaibachAt c M l = total l / hsum c M l := rfl

/-- the per-class weight in `hsum` -/
noncomputable def hweight (c : Curve ℝ) (M S : ℝ) : ℝ :=
  if c.SD / M ≤ S / M then (S / M) ^ c.k1 else (c.SD / M) ^ (1 - c.k1) * (S / M) ^ (2 * c.k1 - 1)

theorem hweight_nonneg (c : Curve ℝ) (hc : ValidCurve c) {M S : ℝ} (hM : 0 < M) (hS : 0 ≤ S) :
    0 ≤ hweight c M S := by
  have hs : 0 ≤ S / M := div_nonneg hS hM.le
  have hx : 0 ≤ c.SD / M := div_nonneg hc.SD_pos.le hM.le
  unfold hweight
  split_ifs
  · exact Real.rpow_nonneg hs _
  · exact mul_nonneg (Real.rpow_nonneg hx _) (Real.rpow_nonneg hs _)

theorem hsum_eq (c : Curve ℝ) (M : ℝ) (l : Coll ℝ) :
    hsum c M l = (l.map fun p => p.2 * hweight c M p.1).sum := by
  rw [sum_filter_split l (fun p => p.2 * hweight c M p.1) (fun p => decide (c.SD / M ≤ p.1 / M))]
  unfold hsum
  simp only [sumL_eq_sum, transc_pow, two_lit, one_lit]
  congr 1
  · congr 1
    apply List.map_congr_left
    intro p hp
    have := (List.mem_filter.mp hp).2
    simp only [decide_eq_true_eq] at this
    simp [hweight, this]
  · rw [← List.sum_map_mul_left]
    have hf : (l.filter fun p => !decide (c.SD / M ≤ p.1 / M)) =
        l.filter fun p => decide (p.1 / M < c.SD / M) := by
      apply List.filter_congr
      intro p _
      by_cases h : c.SD / M ≤ p.1 / M
      · simp [h, not_lt.mpr h]
      · simp [h, not_le.mp h]
    rw [hf]
    congr 1
    apply List.map_congr_left
    intro p hp
    have := (List.mem_filter.mp hp).2
    simp only [decide_eq_true_eq] at this
    simp only [hweight, not_le.mpr this, if_false]
    ring

theorem rpow_haibach_split {s a : ℝ} (hs : 0 ≤ s) (ha : 0 < a) (k : ℝ) :
    (s * a) ^ (2 * k - 1) = a⁻¹ ^ (1 - k) * s ^ (2 * k - 1) * a ^ k := by
  rw [Real.mul_rpow hs ha.le, Real.inv_rpow ha.le, ← Real.rpow_neg ha.le]
  have : a ^ (2 * k - 1) = a ^ (-(1 - k)) * a ^ k := by
    rw [← Real.rpow_add ha]; congr 1; ring
  rw [this]; ring

/-- the Haibach damage of one class, normalised by an arbitrary amplitude `M > 0` -/
theorem haibach_term (c : Curve ℝ) (hc : ValidCurve c) {M S : ℝ} (hM : 0 < M) (hS : 0 ≤ S) (n : ℝ) :
    damageTerm (minerHaibach c) (S, n) = n * hweight c M S / (c.ND * (M / c.SD) ^ (-c.k1)) := by
  have hSD := hc.SD_pos
  have ha : 0 < M / c.SD := div_pos hM hSD
  have hs : 0 ≤ S / M := div_nonneg hS hM.le
  have hx0 : 0 ≤ S / c.SD := div_nonneg hS hSD.le
  have hsa : S / c.SD = S / M * (M / c.SD) := by field_simp
  rw [div_basquin _ _ _ _ ha.le]
  by_cases h : S < c.SD
  · have hlt : ¬ c.SD / M ≤ S / M := not_le.mpr (div_lt_div_of_pos_right h hM)
    rw [damageTerm_haibach_lt c (S, n) h, div_basquin _ _ _ _ hx0]
    simp only [hweight, hlt, if_false]
    rw [hsa, rpow_haibach_split hs ha, inv_div]
    ring
  · have hle : c.SD / M ≤ S / M := div_le_div_of_nonneg_right (not_lt.mp h) hM.le
    rw [damageTerm_ge (minerHaibach c) (S, n) h]
    change n / (c.ND * (S / c.SD) ^ (-c.k1)) = _
    rw [div_basquin _ _ _ _ hx0]
    simp only [hweight, hle, if_true]
    rw [hsa, Real.mul_rpow hs ha.le]
    ring

/-- Haibach damage of the collective with all cycle counts multiplied by `t` -/
theorem damageSum_haibach_scaleCounts (c : Curve ℝ) (hc : ValidCurve c) {M : ℝ} (hM : 0 < M)
    (l : Coll ℝ) (hl : ValidColl l) (t : ℝ) :
    damageSum (minerHaibach c) (scaleCounts t l) =
      t * hsum c M l / (c.ND * (M / c.SD) ^ (-c.k1)) := by
  have h1 : t * hsum c M l / (c.ND * (M / c.SD) ^ (-c.k1)) =
      t / (c.ND * (M / c.SD) ^ (-c.k1)) * hsum c M l := by ring
  rw [h1, damageSum_eq, hsum_eq, scaleCounts, List.map_map, ← List.sum_map_mul_left]
  congr 1
  apply List.map_congr_left
  intro p hp
  simp only [Function.comp_apply]
  rw [haibach_term c hc hM (hl p hp).1]
  ring

theorem hweight_self_pos (c : Curve ℝ) (hc : ValidCurve c) {M : ℝ} (hM : 0 < M) :
    0 < hweight c M M := by
  have hx : 0 < c.SD / M := div_pos hc.SD_pos hM
  unfold hweight
  rw [div_self hM.ne']
  split_ifs
  · simp
  · simp only [Real.one_rpow, mul_one]
    exact Real.rpow_pos_of_pos hx _

theorem hsum_pos (c : Curve ℝ) (hc : ValidCurve c) (l : Coll ℝ) (hl : ValidColl l) (hload : Loaded l) :
    0 < hsum c (maxOcc l) l := by
  have hM := maxOcc_pos hload
  obtain ⟨p, hp, hp2, _⟩ := hload
  obtain ⟨⟨q, hq, hq2, hq1⟩, _⟩ := maxOcc_spec ⟨p, hp, hp2⟩
  rw [hsum_eq]
  have hnn : ∀ x ∈ l.map (fun p => p.2 * hweight c (maxOcc l) p.1), 0 ≤ x := by
    intro x hx
    obtain ⟨r, hr, rfl⟩ := List.mem_map.mp hx
    exact mul_nonneg (hl r hr).2 (hweight_nonneg c hc hM (hl r hr).1)
  have hqpos : 0 < q.2 * hweight c (maxOcc l) q.1 := by
    rw [hq1]; exact mul_pos hq2 (hweight_self_pos c hc hM)
  exact lt_of_lt_of_le hqpos
    (List.single_le_sum hnn _ (List.mem_map_of_mem (f := fun p => p.2 * hweight c (maxOcc l) p.1) hq))

/-! ### Gassner / elementary -/

/-- the numerator of the solidity: `Σ nᵢ (Sᵢ/M)^k` -/
noncomputable def esum (M k : ℝ) (l : Coll ℝ) : ℝ := (l.map fun p => p.2 * (p.1 / M) ^ k).sum

theorem solidityHaibach_eq (l : Coll ℝ) (k : ℝ) :
    solidityHaibach l k = esum (maxOcc l) k l / total l := by
  simp only [solidityHaibach, esum, sumL_eq_sum, transc_pow, div_eq_mul_inv]
  rw [← List.sum_map_mul_right]

/-- the elementary damage of one class, normalised by an arbitrary amplitude `M > 0` -/
theorem elementary_term (c : Curve ℝ) (hc : ValidCurve c) {M S : ℝ} (hM : 0 < M) (hS : 0 ≤ S) (n : ℝ) :
    damageTerm (minerElementary c) (S, n) = n * (S / M) ^ c.k1 / (c.ND * (M / c.SD) ^ (-c.k1)) := by
  have hSD := hc.SD_pos
  have ha : 0 < M / c.SD := div_pos hM hSD
  have hs : 0 ≤ S / M := div_nonneg hS hM.le
  have hx0 : 0 ≤ S / c.SD := div_nonneg hS hSD.le
  have hsa : S / c.SD = S / M * (M / c.SD) := by field_simp
  have hterm : damageTerm (minerElementary c) (S, n) = n / (c.ND * (S / c.SD) ^ (-c.k1)) := by
    by_cases h : S < c.SD
    · exact damageTerm_elementary_lt c (S, n) h
    · exact damageTerm_ge (minerElementary c) (S, n) h
  rw [hterm, div_basquin _ _ _ _ ha.le, div_basquin _ _ _ _ hx0, hsa, Real.mul_rpow hs ha.le]
  ring

theorem damageSum_elementary_scaleCounts (c : Curve ℝ) (hc : ValidCurve c) {M : ℝ} (hM : 0 < M)
    (l : Coll ℝ) (hl : ValidColl l) (t : ℝ) :
    damageSum (minerElementary c) (scaleCounts t l) =
      t * esum M c.k1 l / (c.ND * (M / c.SD) ^ (-c.k1)) := by
  have h1 : t * esum M c.k1 l / (c.ND * (M / c.SD) ^ (-c.k1)) =
      t / (c.ND * (M / c.SD) ^ (-c.k1)) * esum M c.k1 l := by ring
  rw [h1, damageSum_eq, esum, scaleCounts, List.map_map, ← List.sum_map_mul_left]
  congr 1
  apply List.map_congr_left
  intro p hp
  simp only [Function.comp_apply]
  rw [elementary_term c hc hM (hl p hp).1]
  ring

theorem esum_pos (k : ℝ) (l : Coll ℝ) (hl : ValidColl l) (hload : Loaded l) :
    0 < esum (maxOcc l) k l := by
  have hM := maxOcc_pos hload
  obtain ⟨p, hp, hp2, _⟩ := hload
  obtain ⟨⟨q, hq, hq2, hq1⟩, _⟩ := maxOcc_spec ⟨p, hp, hp2⟩
  unfold esum
  have hnn : ∀ x ∈ l.map (fun p => p.2 * (p.1 / maxOcc l) ^ k), 0 ≤ x := by
    intro x hx
    obtain ⟨r, hr, rfl⟩ := List.mem_map.mp hx
    exact mul_nonneg (hl r hr).2 (Real.rpow_nonneg (div_nonneg (hl r hr).1 hM.le) _)
  have hqpos : 0 < q.2 * (q.1 / maxOcc l) ^ k := by
    rw [hq1, div_self hM.ne', Real.one_rpow, mul_one]; exact hq2
  exact lt_of_lt_of_le hqpos
    (List.single_le_sum hnn _ (List.mem_map_of_mem (f := fun p => p.2 * (p.1 / maxOcc l) ^ k) hq))

/-! ### scaling the load level keeps the preconditions -/

theorem validColl_scaleAmps {l : Coll ℝ} (hl : ValidColl l) {t : ℝ} (ht : 0 < t) : ValidColl (scaleAmps t l) := by
  intro p hp
  obtain ⟨q, hq, rfl⟩ := List.mem_map.mp hp
  exact ⟨mul_nonneg ht.le (hl q hq).1, (hl q hq).2⟩

theorem loaded_scaleAmps {l : Coll ℝ} (hl : Loaded l) {t : ℝ} (ht : 0 < t) : Loaded (scaleAmps t l) := by
  obtain ⟨p, hp, hp2, hp1⟩ := hl
  exact ⟨(t * p.1, p.2), List.mem_map.mpr ⟨p, hp, rfl⟩, hp2, mul_pos ht hp1⟩

/-! ### native curves (failure probability, scatter): everything happens on the 50 % curve -/

@[simp] theorem at50_k1 (ppf : ℝ → ℝ) (w : Woehler.Curve ℝ) : (at50 ppf w).k1 = w.k1 := rfl
theorem at50_SD (ppf : ℝ → ℝ) (w : Woehler.Curve ℝ) : (at50 ppf w).SD = (Woehler.transform ppf w 0.5).SD := rfl
theorem at50_ND (ppf : ℝ → ℝ) (w : Woehler.Curve ℝ) : (at50 ppf w).ND = (Woehler.transform ppf w 0.5).ND := rfl

/-- the 50 % curve of a curve with positive parameters has positive `SD` and `ND` -/
theorem validCurve_at50 (ppf : ℝ → ℝ) (w : Woehler.Curve ℝ) (hTS : 0 < w.TS) (hTN : 0 < w.TN)
    (hSD : 0 < w.SD) (hND : 0 < w.ND) : ValidCurve (at50 ppf w) :=
  ⟨Woehler.transform_SD_pos ppf w 0.5 hTS hSD, Woehler.transform_ND_pos ppf w 0.5 hTS hTN hSD hND⟩

/-- the Miner modifiers act on `k_2` only and the transformation does not read `k_2` -/
theorem at50_minerOriginal (ppf : ℝ → ℝ) (w : Woehler.Curve ℝ) :
    at50 ppf (Woehler.minerOriginal w) = minerOriginal (at50 ppf w) := by
  simp [at50, ofWoehler, Woehler.transform, Woehler.minerOriginal, minerOriginal]

theorem at50_minerElementary (ppf : ℝ → ℝ) (w : Woehler.Curve ℝ) :
    at50 ppf (Woehler.minerElementary w) = minerElementary (at50 ppf w) := by
  simp [at50, ofWoehler, Woehler.transform, Woehler.minerElementary, minerElementary]

theorem at50_minerHaibach (ppf : ℝ → ℝ) (w : Woehler.Curve ℝ) :
    at50 ppf (Woehler.minerHaibach w) = minerHaibach (at50 ppf w) := by
  simp [at50, ofWoehler, Woehler.transform, Woehler.minerHaibach, minerHaibach]

theorem gassnerCyclesElementaryW_eq (ppf : ℝ → ℝ) (w : Woehler.Curve ℝ) (l : Coll ℝ) :
    gassnerCyclesElementaryW ppf w l = gassnerCyclesElementary (at50 ppf w) l := rfl

theorem gassnerCyclesHaibachW_eq (ppf : ℝ → ℝ) (w : Woehler.Curve ℝ) (l : Coll ℝ) :
    gassnerCyclesHaibachW ppf w l = gassnerCyclesHaibach (at50 ppf w) l := rfl

/-- the transformation is linear in `ND` -/
theorem transform_gassnerCurveW_ND (ppf : ℝ → ℝ) (w : Woehler.Curve ℝ) (l : Coll ℝ) (p : ℝ) :
    (Woehler.transform ppf (gassnerCurveW w l) p).ND =
      (Woehler.transform ppf w p).ND * lifetimeMultipleElementaryW w l := by
  unfold Woehler.transform gassnerCurveW
  dsimp only
  split_ifs <;> ring

theorem transform_gassnerCurveW_SD (ppf : ℝ → ℝ) (w : Woehler.Curve ℝ) (l : Coll ℝ) (p : ℝ) :
    (Woehler.transform ppf (gassnerCurveW w l) p).SD = (Woehler.transform ppf w p).SD := rfl

/-- the Gassner-shifted native curve has the 50 % curve shifted by the same factor, continued with `k_1` -/
theorem at50_gassnerCurveW (ppf : ℝ → ℝ) (w : Woehler.Curve ℝ) (l : Coll ℝ) :
    at50 ppf (gassnerCurveW w l) =
      { k1 := w.k1, k2 := some w.k1, SD := (at50 ppf w).SD,
        ND := (at50 ppf w).ND * lifetimeMultipleElementaryW w l } := by
  have h := transform_gassnerCurveW_ND ppf w l 0.5
  simp only [at50, ofWoehler] at h ⊢
  rw [h]
  simp [Woehler.transform, gassnerCurveW]

end PylifeVerif.Miner
