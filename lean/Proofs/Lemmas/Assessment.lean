/-
Helper lemmas for C10 (`Model/Assessment.lean`): the binned look-up under proportional loads, and the
monotonicity of the P_RAM lifetime in the damages / the component curve.
-/
import Model.Assessment
import Proofs.C09
import Mathlib.Tactic.Ring
import Mathlib.Tactic.Linarith
import Mathlib.Tactic.Positivity
import Mathlib.Data.List.Forall2

namespace PylifeVerif.Assess
open PylifeVerif.HCM PylifeVerif.FkmNl

/-! ### class selection is invariant under a common positive factor -/

theorem firstFrom_congr {p q : Nat → Bool} (h : ∀ i, p i = q i) (i fuel : Nat) :
    firstFrom p i fuel = firstFrom q i fuel := by
  have : p = q := funext h
  rw [this]

theorem natAbs_mul_pos (c x : Int) (hc : 0 < c) : ((c * x).natAbs : Int) = c * (x.natAbs : Int) := by
  rw [Int.natAbs_mul]
  push_cast
  rw [abs_of_pos hc]

/-- The class found with the FIRST point's load `c0/ck · x` in the first point's grid (maximum `c0·M`) is the class
found with the point's own load `x` in its own grid (maximum `ck·M`). -/
theorem classQ_first_eq_own (n : Nat) (M c0 ck x : Int) (cnt : Nat) (h0 : 0 < c0) (hk : 0 < ck) :
    classQ n (c0 * M) (c0 * x) ck cnt = classQ n (ck * M) x 1 cnt := by
  unfold classQ
  apply firstFrom_congr
  intro i
  have e : ((c0 * x).natAbs : Int) = c0 * (x.natAbs : Int) := natAbs_mul_pos c0 x h0
  rw [e]
  have key : ((n : Int) * (c0 * (x.natAbs : Int)) ≤ (i : Int) * (c0 * M) * ck) ↔
      ((n : Int) * (x.natAbs : Int) ≤ (i : Int) * (ck * M) * 1) := by
    have e1 : (n : Int) * (c0 * (x.natAbs : Int)) = c0 * ((n : Int) * (x.natAbs : Int)) := by ring
    have e2 : (i : Int) * (c0 * M) * ck = c0 * ((i : Int) * (ck * M) * 1) := by ring
    rw [e1, e2]
    constructor
    · intro h; exact Int.le_of_mul_le_mul_left h h0
    · intro h; exact Int.mul_le_mul_of_nonneg_left h h0.le
  exact decide_eq_decide.mpr key

theorem lawBatch_eq_lawOwn (n : Nat) (M c0 ck : Int) (t : Tables) (h0 : 0 < c0) (hk : 0 < ck) :
    lawBatch n (c0 * M) c0 ck t = lawOwn n (ck * M) t := by
  unfold lawOwn lawBatch
  simp only [classQ_first_eq_own n M c0 ck _ _ h0 hk, one_mul]

/-! ### the maximum absolute load scales with the loads -/

theorem foldl_maxAbs_scale (c : Int) (hc : 0 ≤ c) : ∀ (L : List Int) (m : Int),
    (L.map (c * ·)).foldl (fun m x => max m (x.natAbs : Int)) (c * m) = c * L.foldl (fun m x => max m (x.natAbs : Int)) m
  | [], m => rfl
  | x :: xs, m => by
    simp only [List.map_cons, List.foldl_cons]
    have e : ((c * x).natAbs : Int) = c * (x.natAbs : Int) := by
      rw [Int.natAbs_mul]; push_cast; rw [abs_of_nonneg hc]
    rw [e, ← mul_max_of_nonneg _ _ hc]
    exact foldl_maxAbs_scale c hc xs _

theorem maxAbsI_scale (c : Int) (hc : 0 ≤ c) (L : List Int) : maxAbsI (L.map (c * ·)) = c * maxAbsI L := by
  unfold maxAbsI
  have := foldl_maxAbs_scale c hc L 0
  rwa [mul_zero] at this

theorem foldl_maxAbs_ge (L : List Int) : ∀ m : Int, m ≤ L.foldl (fun m x => max m (x.natAbs : Int)) m := by
  induction L with
  | nil => intro m; exact le_rfl
  | cons x xs ih => intro m; exact le_trans (le_max_left _ _) (ih _)

theorem foldl_maxAbs_mono (L : List Int) : ∀ m m' : Int, m ≤ m' →
    L.foldl (fun m x => max m (x.natAbs : Int)) m ≤ L.foldl (fun m x => max m (x.natAbs : Int)) m' := by
  induction L with
  | nil => intro m m' h; exact h
  | cons x xs ih => intro m m' h; exact ih _ _ (max_le_max h le_rfl)

theorem foldl_maxAbs_absorb (L : List Int) : ∀ m v : Int, v ≤ m →
    L.foldl (fun m x => max m (x.natAbs : Int)) (max m v) = L.foldl (fun m x => max m (x.natAbs : Int)) m := by
  intro m v h; rw [max_eq_left h]

/-- a sample between its neighbours does not change the maximum absolute load -/
theorem maxAbsI_insert (pre post : List Int) (x y v : Int) (hv : (x ≤ v ∧ v ≤ y) ∨ (y ≤ v ∧ v ≤ x)) :
    maxAbsI (pre ++ x :: v :: y :: post) = maxAbsI (pre ++ x :: y :: post) := by
  unfold maxAbsI
  simp only [List.foldl_append, List.foldl_cons]
  generalize pre.foldl (fun m x => max m (x.natAbs : Int)) 0 = m
  have hle : (v.natAbs : Int) ≤ max (x.natAbs : Int) (y.natAbs : Int) := by
    rcases hv with h | h <;> omega
  have : max (max (max m (x.natAbs : Int)) (v.natAbs : Int)) (y.natAbs : Int) = max (max m (x.natAbs : Int)) (y.natAbs : Int) := by
    omega
  rw [this]

/-- … nor does a sample appended at the end that lies between the last and the first sample -/
theorem maxAbsI_append (s : List Int) (a z v : Int) (hs : s.head? = some a) (hz : s.getLast? = some z)
    (hv : (a ≤ v ∧ v ≤ z) ∨ (z ≤ v ∧ v ≤ a)) : maxAbsI (s ++ [v]) = maxAbsI s := by
  unfold maxAbsI
  simp only [List.foldl_append, List.foldl_cons, List.foldl_nil]
  have ha : (a.natAbs : Int) ≤ s.foldl (fun m x => max m (x.natAbs : Int)) 0 := by
    cases s with
    | nil => simp at hs
    | cons b t =>
      simp only [List.head?_cons, Option.some.injEq] at hs
      subst hs
      simp only [List.foldl_cons]
      exact le_trans (le_max_right _ _) (foldl_maxAbs_ge t _)
  have hzz : (z.natAbs : Int) ≤ s.foldl (fun m x => max m (x.natAbs : Int)) 0 := by
    obtain ⟨t, rfl⟩ : ∃ t, s = t ++ [z] := by
      rcases List.eq_nil_or_concat s with h | ⟨t, b, h⟩
      · subst h; simp at hz
      · subst h; simp only [List.concat_eq_append, List.getLast?_append, List.getLast?_singleton, Option.some_or, Option.some.injEq] at hz
        subst hz; exact ⟨t, by simp⟩
    simp only [List.foldl_append, List.foldl_cons, List.foldl_nil]
    exact le_max_right _ _
  have hle : (v.natAbs : Int) ≤ max (a.natAbs : Int) (z.natAbs : Int) := by
    rcases hv with h | h <;> omega
  exact max_eq_left (le_trans hle (max_le ha hzz))

/-! ### sign preservation of the look-up -/

/-- all values of the secondary-branch tables are positive (true for every monotone notch law) -/
def Tables.SecPos (t : Tables) : Prop :=
  t.dsig ≠ [] ∧ t.deps ≠ [] ∧ (∀ v ∈ t.dsig, 0 < v) ∧ (∀ v ∈ t.deps, 0 < v)

theorem getD_pos_of_all (tab : List Int) (hne : tab ≠ []) (hp : ∀ v ∈ tab, 0 < v) (cls : Nat) :
    0 < tab.getD (min cls tab.length - 1) 0 := by
  have hl : 0 < tab.length := List.length_pos_iff.mpr hne
  have hi : min cls tab.length - 1 < tab.length := by omega
  have e : tab.getD (min cls tab.length - 1) 0 = tab[min cls tab.length - 1] := by
    simp [List.getD_eq_getElem?_getD, List.getElem?_eq_getElem hi]
  rw [e]
  exact hp _ (List.getElem_mem hi)

theorem tval_sign (tab : List Int) (hne : tab ≠ []) (hp : ∀ v ∈ tab, 0 < v) (cls : Nat) (d : Int) :
    (0 < d → 0 < tval tab cls d) ∧ (d < 0 → tval tab cls d < 0) ∧ (d = 0 → tval tab cls d = 0) := by
  have h := getD_pos_of_all tab hne hp cls
  unfold tval
  refine ⟨fun hd => ?_, fun hd => ?_, fun hd => ?_⟩
  · rw [Int.sign_eq_one_of_pos hd, one_mul]; exact h
  · rw [Int.sign_eq_neg_one_of_neg hd]; omega
  · rw [hd]; simp

/-! ### the lifetime is antitone in the damages -/

/-- pointwise order of two damage columns with the same run labels -/
def DamLE (ds ds' : List (ℝ × Nat)) : Prop := List.Forall₂ (fun a b => a.1 ≤ b.1 ∧ a.2 = b.2) ds ds'

theorem DamLE.length_eq {ds ds' : List (ℝ × Nat)} (h : DamLE ds ds') : ds.length = ds'.length :=
  List.Forall₂.length_eq h

theorem DamLE.sumRun_le {ds ds' : List (ℝ × Nat)} (h : DamLE ds ds') (r : Nat) : sumRun r ds ≤ sumRun r ds' := by
  induction h with
  | nil => exact le_rfl
  | @cons a b as bs hab _ ih =>
    obtain ⟨a1, a2⟩ := a
    obtain ⟨b1, b2⟩ := b
    simp only at hab
    obtain ⟨h1, h2⟩ := hab
    subst h2
    simp only [sumRun]
    split_ifs <;> linarith

theorem DamLE.countRun_eq {ds ds' : List (ℝ × Nat)} (h : DamLE ds ds') (r : Nat) : countRun r ds = countRun r ds' := by
  induction h with
  | nil => rfl
  | @cons a b as bs hab _ ih =>
    obtain ⟨a1, a2⟩ := a
    obtain ⟨b1, b2⟩ := b
    simp only at hab
    obtain ⟨_, h2⟩ := hab
    subst h2
    simp only [countRun, ih]

theorem DamLE.sum_le {ds ds' : List (ℝ × Nat)} (h : DamLE ds ds') : (ds.map (·.1)).sum ≤ (ds'.map (·.1)).sum := by
  induction h with
  | nil => exact le_rfl
  | @cons a b as bs hab _ ih =>
    simp only [List.map_cons, List.sum_cons]
    linarith [hab.1]

theorem DamLE.nonneg {ds ds' : List (ℝ × Nat)} (h : DamLE ds ds') (h0 : ∀ p ∈ ds, 0 ≤ p.1) : ∀ p ∈ ds', 0 ≤ p.1 := by
  induction h with
  | nil => intro p hp; simp at hp
  | @cons a b as bs hab _ ih =>
    intro p hp
    rcases List.mem_cons.mp hp with rfl | hp
    · exact le_trans (h0 a List.mem_cons_self) hab.1
    · exact ih (fun q hq => h0 q (List.mem_cons_of_mem _ hq)) p hp

theorem DamLE.runs {ds ds' : List (ℝ × Nat)} (h : DamLE ds ds') (h0 : ∀ p ∈ ds, p.2 = 1 ∨ p.2 = 2) : ∀ p ∈ ds', p.2 = 1 ∨ p.2 = 2 := by
  induction h with
  | nil => intro p hp; simp at hp
  | @cons a b as bs hab _ ih =>
    intro p hp
    rcases List.mem_cons.mp hp with rfl | hp
    · rw [← hab.2]; exact h0 a List.mem_cons_self
    · exact ih (fun q hq => h0 q (List.mem_cons_of_mem _ hq)) p hp

/-- larger damages reach the damage sum one no later -/
theorem DamLE.firstGe_le {ds ds' : List (ℝ × Nat)} (h : DamLE ds ds') (v : ℝ) : ∀ acc acc' : ℝ, acc ≤ acc' →
    firstGe v (cumsumFrom acc' (ds'.map (·.1))) ≤ firstGe v (cumsumFrom acc (ds.map (·.1))) := by
  induction h with
  | nil => intro acc acc' _; exact le_rfl
  | @cons a b as bs hab _ ih =>
    intro acc acc' hacc
    simp only [List.map_cons, cumsumFrom, firstGe]
    have hle : acc + a.1 ≤ acc' + b.1 := by linarith [hab.1]
    by_cases hb : acc' + b.1 < v
    · have ha : acc + a.1 < v := lt_of_le_of_lt hle hb
      rw [if_pos hb, if_pos ha]
      exact Nat.succ_le_succ (ih _ _ hle)
    · rw [if_neg hb]; exact Nat.zero_le _

theorem length_eq_count12 : ∀ ds : List (ℝ × Nat), (∀ p ∈ ds, p.2 = 1 ∨ p.2 = 2) →
    (ds.length : ℝ) = countRun 1 ds + countRun 2 ds
  | [], _ => by simp [countRun, lit_0]
  | (d, q) :: rest, h => by
    have hr := length_eq_count12 rest (fun p hp => h p (List.mem_cons_of_mem _ hp))
    have hq := h (d, q) List.mem_cons_self
    simp only [List.length_cons, countRun, lit_1]
    push_cast
    rcases hq with hq | hq <;> simp only at hq <;> subst hq <;> simp <;> linarith

theorem countRun_nonneg (r : Nat) (ds : List (ℝ × Nat)) : 0 ≤ countRun r ds := by
  rw [countRun_eq]; positivity

/-- **Monotonicity of the lifetime in the damages.**  `ds'` has pointwise larger damages than `ds`.
`hD2`: when `ds` does not fail within the two recorded passes, its second pass damages at all (otherwise the code
returns `inf`, which the real-number model cannot express).  `hcnt`: when `ds'` fails within the two recorded passes but
`ds` does not, the first pass has at most one hysteresis more than the second (the early-failure lifetime counts
hystereses of both passes, the regular lifetime counts second-pass hystereses only). -/
theorem nCycles_antitone {ds ds' : List (ℝ × Nat)} (h : DamLE ds ds') (h0 : ∀ p ∈ ds, 0 ≤ p.1)
    (hrun : ∀ p ∈ ds, p.2 = 1 ∨ p.2 = 2)
    (hD2 : (lifetimeOfDamages ds).early = false → 0 < sumRun 2 ds)
    (hcnt : (lifetimeOfDamages ds).early = false → (lifetimeOfDamages ds').early = true →
      countRun 1 ds ≤ countRun 2 ds + 1) :
    (lifetimeOfDamages ds').nCycles ≤ (lifetimeOfDamages ds).nCycles := by
  have h0' := h.nonneg h0
  have hrun' := h.runs hrun
  have E := C09.early_failure_index ds
  have E' := C09.early_failure_index ds'
  simp only at E E'
  obtain ⟨_, _, _, hiff, hsum, hval⟩ := E
  obtain ⟨_, _, _, hiff', hsum', hval'⟩ := E'
  have hidx : (lifetimeOfDamages ds).idx = firstGe 1 (cumsumFrom 0 (ds.map (·.1))) := by
    simp only [lifetimeOfDamages, lit_1, lit_0]
  have hidx' : (lifetimeOfDamages ds').idx = firstGe 1 (cumsumFrom 0 (ds'.map (·.1))) := by
    simp only [lifetimeOfDamages, lit_1, lit_0]
  have hmono : (lifetimeOfDamages ds').idx ≤ (lifetimeOfDamages ds).idx := by
    rw [hidx, hidx']; exact h.firstGe_le 1 0 0 le_rfl
  by_cases he : (lifetimeOfDamages ds).early = true
  · -- both fail early
    have he' : (lifetimeOfDamages ds').early = true := by
      rw [hsum' h0']
      exact le_trans ((hsum h0).mp he) h.sum_le
    rw [(hval he).2, (hval' he').2]
    exact_mod_cast hmono
  · have hef : (lifetimeOfDamages ds).early = false := by simpa using he
    have hlt : sumRun 1 ds + sumRun 2 ds < 1 := by
      rw [← sumRun_split ds hrun]
      exact not_le.mp (fun hc => he ((hsum h0).mpr hc))
    have hD2p := hD2 hef
    have A := C09.lifetime_eq_accumulation ds h0 hrun hlt hD2p
    simp only at A
    obtain ⟨_, hx, _, _, hx1, _, _, hN⟩ := A
    rw [← countRun_eq] at hN
    have hn2 : 0 ≤ countRun 2 ds := countRun_nonneg 2 ds
    by_cases he' : (lifetimeOfDamages ds').early = true
    · -- the more damaged one fails within the recorded passes
      rw [(hval' he').2, hN]
      have hlen : (lifetimeOfDamages ds').idx < ds.length := by rw [h.length_eq]; exact hiff'.mp he'
      have hlenR : ((lifetimeOfDamages ds').idx : ℝ) + 1 ≤ (ds.length : ℝ) := by exact_mod_cast hlen
      have hc := hcnt hef he'
      rw [length_eq_count12 ds hrun] at hlenR
      nlinarith
    · have hlt' : sumRun 1 ds' + sumRun 2 ds' < 1 := by
        rw [← sumRun_split ds' hrun']
        exact not_le.mp (fun hc => he' ((hsum' h0').mpr hc))
      have h1 := h.sumRun_le 1
      have h2 := h.sumRun_le 2
      have hD2p' : 0 < sumRun 2 ds' := lt_of_lt_of_le hD2p h2
      have A' := C09.lifetime_eq_accumulation ds' h0' hrun' hlt' hD2p'
      simp only at A'
      obtain ⟨_, hx', _, _, _, _, _, hN'⟩ := A'
      rw [← countRun_eq, ← h.countRun_eq 2] at hN'
      rw [hN, hN', hx, hx']
      have hD1nn : 0 ≤ sumRun 1 ds := sumRun_nonneg 1 ds h0
      have hxle : (1 - sumRun 1 ds') / sumRun 2 ds' ≤ (1 - sumRun 1 ds) / sumRun 2 ds := by
        rw [div_le_div_iff₀ hD2p' hD2p]
        have : 0 ≤ 1 - sumRun 1 ds' := by linarith
        nlinarith
      nlinarith

/-! ### damages are antitone in the curve position and monotone in the damage parameter -/

theorem pramN_zero (c : PramCurve ℝ) (h : c.Adm) : pramN c 0 = 0 := by
  have hz := h.PZ_pos
  rw [pramN_eq, if_neg (not_le.mpr hz), zero_div, Real.zero_rpow (inv_ne_zero h.2.2.2.ne), mul_zero]

/-- the unit curve with the same slopes -/
noncomputable def unitCurve (c : PramCurve ℝ) : PramCurve ℝ := { d1 := c.d1, d2 := c.d2, PZ := 1, PD := 1 / 2 }

theorem unitCurve_adm (c : PramCurve ℝ) (h : c.Adm) : (unitCurve c).Adm :=
  ⟨by simp [unitCurve], by simp [unitCurve]; norm_num, h.2.2.1, h.2.2.2⟩

theorem pramN_unit (c : PramCurve ℝ) (h : c.Adm) (P : ℝ) : pramN c P = pramN (unitCurve c) (P / c.PZ) := by
  have hz := h.PZ_pos
  rw [pramN_eq, pramN_eq]
  simp only [unitCurve, div_one]
  by_cases hP : c.PZ ≤ P
  · rw [if_pos hP, if_pos ((one_le_div hz).mpr hP)]
  · rw [if_neg hP, if_neg (fun hc => hP ((one_le_div hz).mp hc))]

theorem pramN_antitone (c : PramCurve ℝ) (h : c.Adm) {P₁ P₂ : ℝ} (h0 : 0 < P₁) (h12 : P₁ ≤ P₂) :
    pramN c P₂ ≤ pramN c P₁ := by
  rcases eq_or_lt_of_le h12 with e | hlt
  · rw [e]
  · exact (pramN_strictAnti h h0 hlt).le

theorem rowD_zero (c : PramCurve ℝ) (h : c.Adm) (r : Row ℝ) (hP : r.P = 0) : rowD c r = 0 := by
  simp only [rowD, hP, pramN_zero c h, div_zero, ite_self]

/-- more damage for a larger damage parameter -/
theorem rowD_mono_P (c : PramCurve ℝ) (h : c.Adm) (r r' : Row ℝ) (h0 : 0 ≤ r.P) (hP : r.P ≤ r'.P)
    (hc : r.closed = r'.closed) : rowD c r ≤ rowD c r' := by
  rcases eq_or_lt_of_le h0 with e0 | hpos
  · rw [rowD_zero c h r e0.symm]; exact C09.rowD_nonneg c h r' (le_trans h0 hP)
  · have hN := pramN_antitone c h hpos hP
    have hN' : 0 < pramN c r'.P := pramN_pos h (lt_of_lt_of_le hpos hP)
    simp only [rowD, lit_1, lit_05, hc]
    split_ifs
    · exact div_le_div_of_nonneg_left (by norm_num) hN' hN
    · exact div_le_div_of_nonneg_left (by norm_num) hN' hN

/-- more damage on a lower curve (same slopes) -/
theorem rowD_anti_PZ (c c' : PramCurve ℝ) (h : c.Adm) (h' : c'.Adm) (hd1 : c'.d1 = c.d1) (hd2 : c'.d2 = c.d2)
    (hPZ : c'.PZ ≤ c.PZ) (r : Row ℝ) (h0 : 0 ≤ r.P) : rowD c r ≤ rowD c' r := by
  rcases eq_or_lt_of_le h0 with e0 | hpos
  · rw [rowD_zero c h r e0.symm, rowD_zero c' h' r e0.symm]
  · have hu : unitCurve c' = unitCurve c := by simp only [unitCurve, hd1, hd2]
    have hz := h.PZ_pos
    have hz' := h'.PZ_pos
    have hN : pramN c' r.P ≤ pramN c r.P := by
      rw [pramN_unit c h, pramN_unit c' h', hu]
      exact pramN_antitone _ (unitCurve_adm c h) (div_pos hpos hz) (div_le_div_of_nonneg_left hpos.le hz' hPZ)
    have hN' : 0 < pramN c' r.P := pramN_pos h' hpos
    simp only [rowD, lit_1, lit_05]
    split_ifs
    · exact div_le_div_of_nonneg_left (by norm_num) hN' hN
    · exact div_le_div_of_nonneg_left (by norm_num) hN' hN

theorem damLE_of_rows {α : Type} (f g : α → ℝ × Nat) (rows : List α) (hfg : ∀ r ∈ rows, (f r).1 ≤ (g r).1 ∧ (f r).2 = (g r).2) :
    DamLE (rows.map f) (rows.map g) := by
  induction rows with
  | nil => exact List.Forall₂.nil
  | cons r rs ih =>
    exact List.Forall₂.cons (hfg r List.mem_cons_self) (ih fun q hq => hfg q (List.mem_cons_of_mem _ hq))

theorem sumRun_pos (run : Nat) : ∀ ds : List (ℝ × Nat), (∀ p ∈ ds, 0 ≤ p.1) → (∃ p ∈ ds, p.2 = run ∧ 0 < p.1) →
    0 < sumRun run ds
  | [], _, ⟨p, hp, _⟩ => by simp at hp
  | (d, q) :: rest, h0, ⟨p, hp, hr, hpos⟩ => by
    have h0r : ∀ p ∈ rest, 0 ≤ p.1 := fun p hp => h0 p (List.mem_cons_of_mem _ hp)
    have hd : 0 ≤ d := h0 (d, q) List.mem_cons_self
    simp only [sumRun]
    rcases List.mem_cons.mp hp with rfl | hp'
    · simp only at hr hpos
      rw [if_pos hr]
      linarith [sumRun_nonneg run rest h0r]
    · have := sumRun_pos run rest h0r ⟨p, hp', hr, hpos⟩
      split_ifs <;> linarith

theorem rowD_pos (c : PramCurve ℝ) (h : c.Adm) (r : Row ℝ) (hP : 0 < r.P) : 0 < rowD c r := by
  have hN := pramN_pos h hP
  simp only [rowD, lit_1, lit_05]
  split_ifs <;> positivity

end PylifeVerif.Assess
