/-
Helper lemmas for C14, part 2: re-binning (`rebin`, `aggregate`, `shareC`, two-level, NaN contents) over ℝ.
-/
import Proofs.Lemmas.CollectiveBase

namespace PylifeVerif.Collective

/-! ### classes vs. pairs -/

/-- The classes of an edge list without the "last" flag are its consecutive pairs. -/
theorem classes_map_pairs : ∀ l : List ℝ, (classes l).map (fun c => (c.1, c.2.1)) = pairs l
  | [] => by simp [classes, pairs]
  | [_] => by simp [classes, pairs]
  | [_, _] => by simp [classes, pairs]
  | a :: b :: c :: rest => by
    exact congrArg (List.cons (a, b)) (classes_map_pairs (b :: c :: rest))

theorem classes_length (l : List ℝ) : (classes l).length = (pairs l).length := by
  rw [← classes_map_pairs, List.length_map]

theorem classes_mem_pairs (l : List ℝ) (c : ℝ × ℝ × Bool) (hc : c ∈ classes l) : (c.1, c.2.1) ∈ pairs l := by
  rw [← classes_map_pairs]
  exact List.mem_map.mpr ⟨c, hc, rfl⟩

/-- A sum over the classes of a function of the two bounds only is the sum over the pairs. -/
theorem classes_sum_pairs (l : List ℝ) (f : ℝ × ℝ → ℝ) :
    ((classes l).map fun c => f (c.1, c.2.1)).sum = ((pairs l).map f).sum := by
  rw [← classes_map_pairs, List.map_map]; rfl

theorem sum_ite_countP {β : Type} (P : β → Bool) : ∀ l : List β,
    (l.map fun c => if P c = true then (1 : ℝ) else 0).sum = (l.countP P : ℝ)
  | [] => by simp
  | x :: xs => by
    have ih := sum_ite_countP P xs
    cases h : P x <;> simp [h, ih]
    ring

/-! ### the share of a class, zero width included -/

/-- Fraction of the source class `(l, r]` (or of the point `r` when the class has no width) that the class `c` receives. -/
noncomputable def kapC (c : ℝ × ℝ × Bool) (l r : ℝ) : ℝ :=
  if l < r then kap c.1 c.2.1 l r else if inBin c.1 c.2.1 c.2.2 r then 1 else 0

theorem shareC_eq (c : ℝ × ℝ × Bool) (s : Bin ℝ) : shareC c s = s.v * kapC c s.l s.r := by
  unfold shareC kapC
  split_ifs <;> simp [share_eq]

theorem shareC_fun (c : ℝ × ℝ × Bool) : shareC (α := ℝ) c = fun s => s.v * kapC c s.l s.r :=
  funext (shareC_eq c)

theorem shareC_of_pos (c : ℝ × ℝ × Bool) (s : Bin ℝ) (h : s.l < s.r) : shareC c s = share c.1 c.2.1 s := by
  unfold shareC; rw [if_pos h]

theorem kapC_of_pos (c : ℝ × ℝ × Bool) (l r : ℝ) (h : l < r) : kapC c l r = kap c.1 c.2.1 l r := by
  unfold kapC; rw [if_pos h]

/-- One source class - of positive width or a point - is fully distributed over a gap-free binning that covers it. -/
theorem kapC_sum (l r b0 : ℝ) (rest : List ℝ) (hne : rest ≠ []) (hm : Mono (b0 :: rest)) (hlr : l ≤ r)
    (hl : b0 ≤ l) (hr : r ≤ (b0 :: rest).getLast (List.cons_ne_nil _ _)) :
    ((classes (b0 :: rest)).map fun c => kapC c l r).sum = 1 := by
  rcases lt_or_eq_of_le hlr with hpos | heq
  · have : ((classes (b0 :: rest)).map fun c => kapC c l r) =
        (classes (b0 :: rest)).map fun c => (fun p : ℝ × ℝ => kap p.1 p.2 l r) (c.1, c.2.1) := by
      apply List.map_congr_left; intro c _; exact kapC_of_pos c l r hpos
    rw [this, classes_sum_pairs (b0 :: rest) (fun p => kap p.1 p.2 l r)]
    exact kap_sum l r b0 rest hm hpos hl hr
  · subst heq
    have : ((classes (b0 :: rest)).map fun c => kapC c l l) =
        (classes (b0 :: rest)).map fun c => if (fun c : ℝ × ℝ × Bool => inBin c.1 c.2.1 c.2.2 l) c = true then (1 : ℝ) else 0 := by
      apply List.map_congr_left; intro c _
      unfold kapC; rw [if_neg (lt_irrefl l)]
    rw [this, sum_ite_countP, classes_count b0 rest l hne hm]
    simp [inRange, hl, hr]

/-- Total of the re-binned histogram = Σ content × (Σ shares over the target classes). -/
theorem total_rebin (src : List (Bin ℝ)) (breaks : List ℝ) :
    total (rebin src breaks) = (src.map fun s => s.v * ((classes breaks).map fun c => kapC c s.l s.r).sum).sum := by
  rw [total_eq_sum]
  unfold rebin aggregate
  simp only [total_eq_sum]
  have : ((classes breaks).map ((fun c : ℝ × ℝ × Bool => (List.map (shareC c) src).sum))) =
      (classes breaks).map fun c => (src.map fun s => s.v * kapC c s.l s.r).sum := by
    apply List.map_congr_left; intro c _; congr 1
    apply List.map_congr_left; intro s _; exact shareC_eq c s
  rw [this, sum_map_sum_comm]
  congr 1
  apply List.map_congr_left; intro s _
  rw [List.sum_map_mul_left]

theorem binTotal_rebinBins (src : List (Bin ℝ)) (breaks : List ℝ) :
    binTotal (rebinBins src breaks) = total (rebin src breaks) := by
  unfold binTotal rebinBins rebin
  rw [List.map_map]; rfl

/-- Re-binning conserves the total (gap-free target with at least one class that covers every source class). -/
theorem total_rebin_cover (src : List (Bin ℝ)) (b0 : ℝ) (rest : List ℝ) (hne : rest ≠ []) (hm : Mono (b0 :: rest))
    (hval : ∀ s ∈ src, s.l ≤ s.r)
    (hcov : ∀ s ∈ src, b0 ≤ s.l ∧ s.r ≤ (b0 :: rest).getLast (List.cons_ne_nil _ _)) :
    total (rebin src (b0 :: rest)) = binTotal src := by
  rw [total_rebin, binTotal, total_eq_sum]
  congr 1
  apply List.map_congr_left
  intro s hs
  rw [kapC_sum s.l s.r b0 rest hne hm (hval s hs) (hcov s hs).1 (hcov s hs).2]; ring

/-! ### source classes of positive width: the linear rule alone -/

/-- The re-bin by the linear rule alone (what `rebin` is when every source class has positive width). -/
noncomputable def rebinS (src : List (Bin ℝ)) (breaks : List ℝ) : List ℝ :=
  (pairs breaks).map fun p => total (src.map (share p.1 p.2))

noncomputable def rebinBinsS (src : List (Bin ℝ)) (breaks : List ℝ) : List (Bin ℝ) :=
  (pairs breaks).map fun p => ⟨p.1, p.2, total (src.map (share p.1 p.2))⟩

theorem aggregate_of_pos (src : List (Bin ℝ)) (hpos : ∀ s ∈ src, s.l < s.r) (c : ℝ × ℝ × Bool) :
    aggregate src c = total (src.map (share c.1 c.2.1)) := by
  unfold aggregate
  congr 1
  apply List.map_congr_left
  intro s hs
  exact shareC_of_pos c s (hpos s hs)

theorem rebin_eq_rebinS (src : List (Bin ℝ)) (breaks : List ℝ) (hpos : ∀ s ∈ src, s.l < s.r) :
    rebin src breaks = rebinS src breaks := by
  unfold rebin rebinS
  rw [← classes_map_pairs, List.map_map]
  apply List.map_congr_left
  intro c _
  exact aggregate_of_pos src hpos c

theorem rebinBins_eq_rebinBinsS (src : List (Bin ℝ)) (breaks : List ℝ) (hpos : ∀ s ∈ src, s.l < s.r) :
    rebinBins src breaks = rebinBinsS src breaks := by
  unfold rebinBins rebinBinsS
  rw [← classes_map_pairs, List.map_map]
  apply List.map_congr_left
  intro c _
  simp only [Function.comp, aggregate_of_pos src hpos c]

theorem rebinBins_pos (src : List (Bin ℝ)) (breaks : List ℝ) (hb : SMono breaks) :
    ∀ s ∈ rebinBins src breaks, s.l < s.r := by
  intro s hs
  unfold rebinBins at hs
  obtain ⟨c, hc, rfl⟩ := List.mem_map.mp hs
  exact pairs_strict _ hb _ (classes_mem_pairs breaks c hc)

theorem rebinBins_bounds (src : List (Bin ℝ)) (b0 : ℝ) (rest : List ℝ) (hm : Mono (b0 :: rest)) :
    ∀ s ∈ rebinBins src (b0 :: rest), b0 ≤ s.l ∧ s.l ≤ s.r ∧ s.r ≤ (b0 :: rest).getLast (List.cons_ne_nil _ _) := by
  intro s hs
  unfold rebinBins at hs
  obtain ⟨c, hc, rfl⟩ := List.mem_map.mp hs
  exact pairs_bounds b0 rest hm _ (classes_mem_pairs _ c hc)

/-- Re-binning (linear rule) to the histogram's own binning returns the contents unchanged. -/
theorem rebinS_self : ∀ (breaks vals : List ℝ), SMono breaks → vals.length = (pairs breaks).length →
    rebinS (binsOf breaks vals) breaks = vals
  | [], vals, _, hlen => by
    simp [pairs] at hlen; simp [rebinS, pairs, hlen]
  | [_], vals, _, hlen => by
    simp [pairs] at hlen; simp [rebinS, pairs, hlen]
  | b0 :: b1 :: rest, [], _, hlen => by simp [pairs] at hlen
  | b0 :: b1 :: rest, v :: vs, hm, hlen => by
    have hmono := SMono.mono hm
    have ih := rebinS_self (b1 :: rest) vs hm.2 (by simpa [pairs] using hlen)
    have hge := binsOf_left_ge b1 rest vs hmono.2
    unfold rebinS at ih ⊢
    simp only [pairs, binsOf, List.zipWith_cons_cons, List.map_cons, total_eq_sum, List.sum_cons,
      share_fun] at ih ⊢
    rw [List.cons.injEq]
    constructor
    · rw [kap_self b0 b1 hm.1]
      have : (List.map (fun s : Bin ℝ => s.v * kap b0 b1 s.l s.r)
          (List.zipWith (fun p v => (⟨p.1, p.2, v⟩ : Bin ℝ)) (pairs (b1 :: rest)) vs)).sum = 0 := by
        apply List.sum_eq_zero
        intro x hx
        obtain ⟨s, hs, rfl⟩ := List.mem_map.mp hx
        rw [kap_disjoint_left _ _ _ _ (hge s hs)]; ring
      rw [this]; ring
    · refine (List.map_congr_left ?_).trans ih
      intro p hp
      have hp1 := (pairs_bounds b1 rest hmono.2 p hp).1
      rw [kap_disjoint_right p.1 p.2 b0 b1 hp1]; ring

theorem rebin_self (breaks vals : List ℝ) (hs : SMono breaks) (hlen : vals.length = (pairs breaks).length) :
    rebin (binsOf breaks vals) breaks = vals := by
  rw [rebin_eq_rebinS _ _ (fun s h => (binsOf_mem breaks vals hs s h).1)]
  exact rebinS_self breaks vals hs hlen

/-- Composition step in the linear world: if the shares compose for every source class and every target class,
re-binning through `B` equals re-binning directly. -/
theorem rebinS_compose_of_kap (src : List (Bin ℝ)) (bbreaks cbreaks : List ℝ)
    (hk : ∀ s ∈ src, ∀ q ∈ pairs cbreaks,
      ((pairs bbreaks).map fun p => kap p.1 p.2 s.l s.r * kap q.1 q.2 p.1 p.2).sum = kap q.1 q.2 s.l s.r) :
    rebinS (rebinBinsS src bbreaks) cbreaks = rebinS src cbreaks := by
  unfold rebinS
  apply List.map_congr_left
  intro q hq
  unfold rebinBinsS
  simp only [total_eq_sum, List.map_map, share_fun, Function.comp_def]
  have h1 : ((pairs bbreaks).map fun p => (src.map fun s => s.v * kap p.1 p.2 s.l s.r).sum * kap q.1 q.2 p.1 p.2) =
      (pairs bbreaks).map fun p => (src.map fun s => s.v * (kap p.1 p.2 s.l s.r * kap q.1 q.2 p.1 p.2)).sum := by
    apply List.map_congr_left
    intro p _
    rw [← List.sum_map_mul_right]
    congr 1
    apply List.map_congr_left
    intro s _; ring
  rw [h1, sum_map_sum_comm]
  congr 1
  apply List.map_congr_left
  intro s hs
  rw [List.sum_map_mul_left, hk s hs q hq]

/-! ### histograms given by breaks and contents -/

theorem zipWith_bin_mem : ∀ (ps : List (ℝ × ℝ)) (vals : List ℝ) (s : Bin ℝ),
    s ∈ List.zipWith (fun p v => (⟨p.1, p.2, v⟩ : Bin ℝ)) ps vals → (s.l, s.r) ∈ ps
  | [], _, s, hs => by simp at hs
  | _ :: _, [], s, hs => by simp at hs
  | p :: ps, v :: vs, s, hs => by
    simp only [List.zipWith_cons_cons, List.mem_cons] at hs
    rcases hs with rfl | hs
    · exact List.mem_cons_self ..
    · exact List.mem_cons_of_mem _ (zipWith_bin_mem ps vs s hs)

theorem binsOf_bounds (b0 : ℝ) (rest : List ℝ) (vals : List ℝ) (hm : Mono (b0 :: rest)) :
    ∀ s ∈ binsOf (b0 :: rest) vals, b0 ≤ s.l ∧ s.l ≤ s.r ∧ s.r ≤ (b0 :: rest).getLast (List.cons_ne_nil _ _) := by
  intro s hs
  exact pairs_bounds b0 rest hm _ (zipWith_bin_mem _ vals s hs)

theorem binTotal_binsOf : ∀ (breaks vals : List ℝ), vals.length = (pairs breaks).length →
    binTotal (binsOf breaks vals) = total vals := by
  intro breaks vals hlen
  unfold binTotal binsOf
  congr 1
  rw [List.map_zipWith]
  generalize pairs breaks = ps at hlen
  induction vals generalizing ps with
  | nil => simp
  | cons v vs ih =>
    cases ps with
    | nil => simp at hlen
    | cons p ps =>
      simp only [List.zipWith_cons_cons, List.cons.injEq, true_and]
      exact ih ps (by simpa using hlen)

theorem hist_length (edges : List ℝ) (pts : List (ℝ × ℝ)) : (hist edges pts).length = (pairs edges).length := by
  unfold hist
  rw [List.length_map, classes_length]

/-! ### a zero-width last class (the shape `np.histogram` produces for a repeated last edge) -/

theorem pairs_append_singleton : ∀ (l : List ℝ) (hne : l ≠ []) (x : ℝ),
    pairs (l ++ [x]) = pairs l ++ [(l.getLast hne, x)]
  | [], h, _ => absurd rfl h
  | [a], _, x => by simp [pairs]
  | a :: b :: t, _, x => by
    have ih := pairs_append_singleton (b :: t) (List.cons_ne_nil _ _) x
    simp only [List.cons_append, pairs, List.getLast_cons_cons] at ih ⊢
    rw [ih]

theorem classes_append_singleton : ∀ (l : List ℝ) (hne : l ≠ []) (x : ℝ),
    classes (l ++ [x]) = (pairs l).map (fun p => (p.1, p.2, false)) ++ [(l.getLast hne, x, true)]
  | [], h, _ => absurd rfl h
  | [a], _, x => by simp [pairs, classes]
  | [a, b], _, x => by simp [pairs, classes]
  | a :: b :: c :: t, _, x => by
    have ih := classes_append_singleton (b :: c :: t) (List.cons_ne_nil _ _) x
    simp only [List.cons_append, pairs, classes, List.getLast_cons_cons, List.map_cons] at ih ⊢
    rw [ih]

theorem aggregate_append (X Y : List (Bin ℝ)) (c : ℝ × ℝ × Bool) :
    aggregate (X ++ Y) c = aggregate X c + aggregate Y c := by
  unfold aggregate; simp [total_eq_sum]

theorem binsOf_append_singleton (breaks vals : List ℝ) (hne : breaks ≠ []) (x v : ℝ)
    (hlen : vals.length = (pairs breaks).length) :
    binsOf (breaks ++ [x]) (vals ++ [v]) = binsOf breaks vals ++ [⟨breaks.getLast hne, x, v⟩] := by
  unfold binsOf
  rw [pairs_append_singleton breaks hne x, List.zipWith_append hlen.symm]
  rfl


theorem rebin_self_point_last (breaks vals : List ℝ) (v : ℝ) (hs : SMono breaks) (hne : breaks ≠ [])
    (hlen : vals.length = (pairs breaks).length) :
    rebin (binsOf (breaks ++ [breaks.getLast hne]) (vals ++ [v])) (breaks ++ [breaks.getLast hne]) = vals ++ [v] := by
  obtain ⟨b0, rest, rfl⟩ : ∃ b0 rest, breaks = b0 :: rest := by
    cases breaks with
    | nil => exact absurd rfl hne
    | cons b0 rest => exact ⟨b0, rest, rfl⟩
  have hX := binsOf_mem (b0 :: rest) vals hs
  have hXb := binsOf_bounds b0 rest vals hs.mono
  have hpos : ∀ s ∈ binsOf (b0 :: rest) vals, s.l < s.r := fun s h => (hX s h).1
  rw [binsOf_append_singleton _ _ hne _ _ hlen]
  unfold rebin
  rw [classes_append_singleton _ hne, List.map_append, List.map_map, List.map_singleton]
  generalize hL : (b0 :: rest).getLast hne = L at *
  have hLeq : (b0 :: rest).getLast (List.cons_ne_nil _ _) = L := hL
  congr 1
  · refine (List.map_congr_left ?_).trans (rebinS_self _ vals hs hlen)
    intro p hp
    have hp2 : p.2 ≤ L := hLeq ▸ (pairs_bounds b0 rest hs.mono p hp).2.2
    simp only [Function.comp, aggregate_append, aggregate_of_pos _ hpos]
    have : aggregate [(⟨L, L, v⟩ : Bin ℝ)] (p.1, p.2, false) = 0 := by
      simp [aggregate, total, shareC, inBin, not_lt.mpr hp2]
    rw [this, add_zero]
  · rw [aggregate_append, aggregate_of_pos _ hpos]
    have h0 : total ((binsOf (b0 :: rest) vals).map (share L L)) = 0 := by
      rw [total_eq_sum]
      apply List.sum_eq_zero
      intro x hx
      obtain ⟨s, hs', rfl⟩ := List.mem_map.mp hx
      have : s.r ≤ L := hLeq ▸ (hXb s hs').2.2
      rw [share_eq, kap_disjoint_right _ _ _ _ this]; ring
    have h1 : aggregate [(⟨L, L, v⟩ : Bin ℝ)] (L, L, true) = v := by
      simp [aggregate, total, shareC, inBin]
    simp only [h0, h1, zero_add]

/-! ### two-level re-binning -/

theorem share2_eq (p q : ℝ × ℝ × Bool) (c : Cell ℝ) :
    share2 p q c = c.v * (kapC p c.xl c.xr * kapC q c.yl c.yr) := by
  unfold share2
  rw [shareC_eq, shareC_eq]
  ring

/-- Sum of all cells of the two-level re-bin = Σ content × (Σ first-level shares) × (Σ second-level shares). -/
theorem total_rebin2 (cells : List (Cell ℝ)) (bx bys : List ℝ) :
    total ((rebin2 cells bx bys).map total) =
      (cells.map fun c => c.v * (((classes bx).map fun p => kapC p c.xl c.xr).sum *
        ((classes bys).map fun q => kapC q c.yl c.yr).sum)).sum := by
  unfold rebin2
  simp only [total_eq_sum, List.map_map, Function.comp_def]
  have inner : ∀ p : ℝ × ℝ × Bool, ((classes bys).map fun q => (cells.map (share2 p q)).sum).sum =
      (cells.map fun c => c.v * kapC p c.xl c.xr * ((classes bys).map fun q => kapC q c.yl c.yr).sum).sum := by
    intro p
    rw [sum_map_sum_comm]
    congr 1
    apply List.map_congr_left
    intro c _
    rw [← List.sum_map_mul_left]
    congr 1
    apply List.map_congr_left
    intro q _
    rw [share2_eq]; ring
  simp only [inner]
  rw [sum_map_sum_comm]
  congr 1
  apply List.map_congr_left
  intro c _
  have : ((classes bx).map fun p => c.v * kapC p c.xl c.xr * ((classes bys).map fun q => kapC q c.yl c.yr).sum) =
      (classes bx).map fun p => (c.v * ((classes bys).map fun q => kapC q c.yl c.yr).sum) * kapC p c.xl c.xr := by
    apply List.map_congr_left; intro p _; ring
  rw [this, List.sum_map_mul_left]
  ring

/-! ### unoccupied (NaN) classes -/

theorem shareC_of_not_occupies (c : ℝ × ℝ × Bool) (s : Bin ℝ) (h : occupies c s = false) : shareC c s = 0 := by
  unfold occupies at h
  unfold shareC
  split_ifs at h ⊢ with h1 h2
  · exact share_of_not_overlaps _ _ s h
  · rw [h] at h2; exact absurd h2 (by simp)
  · simp

theorem sum_filter_shareC (c : ℝ × ℝ × Bool) : ∀ l : List (Bin ℝ),
    ((l.filter (occupies c)).map (shareC c)).sum = (l.map (shareC c)).sum
  | [] => by simp
  | x :: xs => by
    have ih := sum_filter_shareC c xs
    cases h : occupies c x
    · simp [h, ih, shareC_of_not_occupies c x h]
    · simp [h, ih]

/-- With NaN counted as nothing, the re-bin with `nan_default` (either setting) has the contents of the plain
re-bin of the occupied source classes. -/
theorem aggregateOpt_getD (nd : Bool) (src : List (OBin ℝ)) (c : ℝ × ℝ × Bool) :
    (aggregateOpt nd src c).getD 0 = aggregate (present src) c := by
  unfold aggregateOpt aggregate
  simp only [total_eq_sum]
  rw [← sum_filter_shareC c (present src)]
  by_cases he : ((present src).filter (occupies c)).isEmpty = true
  · have : (present src).filter (occupies c) = [] := List.isEmpty_iff.mp he
    simp only [this]
    cases nd <;> simp
  · simp [he]

theorem rebinOpt_getD (nd : Bool) (src : List (OBin ℝ)) (breaks : List ℝ) :
    (rebinOpt nd src breaks).map (fun v => v.getD 0) = rebin (present src) breaks := by
  unfold rebinOpt rebin
  rw [List.map_map]
  apply List.map_congr_left
  intro c _
  exact aggregateOpt_getD nd src c

end PylifeVerif.Collective
