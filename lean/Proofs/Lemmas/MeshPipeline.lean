/-
The whole `Gradient.gradient_of` pipeline of `Model/Mesh.lean` (`gradientLsq`): sorted node ids, node table,
neighbour look-up through the id → position map, least squares.
-/
import Proofs.Lemmas.Mesh
import Mathlib.Data.List.Basic

namespace PylifeVerif.Mesh

/-! ### `np.unique` -/

theorem mem_insertSorted (x y : Int) (l : List Int) : y ∈ insertSorted x l ↔ y = x ∨ y ∈ l := by
  induction l with
  | nil => simp [insertSorted]
  | cons a l ih =>
    unfold insertSorted
    split_ifs with h1 h2
    · simp
    · have : x = a := by simpa using h2
      subst this; simp
    · simp [ih]; tauto

theorem mem_foldl_insertSorted (l acc : List Int) (y : Int) :
    y ∈ l.foldl (fun acc x => insertSorted x acc) acc ↔ y ∈ acc ∨ y ∈ l := by
  induction l generalizing acc with
  | nil => simp
  | cons a l ih => simp [ih, mem_insertSorted]; tauto

theorem mem_sortedUnique (l : List Int) (y : Int) : y ∈ sortedUnique l ↔ y ∈ l := by
  simp [sortedUnique, mem_foldl_insertSorted]

/-! ### the node table -/

/-- Position of node `id`: the coordinates of its first row (`groups.first()`). -/
def nodePos (rows : List (MRow ℝ)) (id : Int) : V3 ℝ :=
  (((rows.filter (·.node == id)).head?).map (·.p)).getD default

/-- The rows `x_j − x_i` of the least-squares system of node `id`. -/
def nbrDiffs (rows : List (MRow ℝ)) (id : Int) : List (V3 ℝ) :=
  (neighbors rows id).map fun nb => (nodePos rows nb).sub (nodePos rows id)

theorem sum_const_of_forall {β : Type} (f : β → ℝ) (l : List β) (v : ℝ) (h : ∀ a ∈ l, f a = v) :
    (l.map f).sum = (l.length : ℝ) * v := by
  induction l with
  | nil => simp
  | cons a l ih =>
    simp only [List.map_cons, List.sum_cons, List.length_cons]
    rw [h a (by simp), ih (fun b hb => h b (by simp [hb]))]
    push_cast; ring

/-- For a field that is linear in the node position the table entry of a node that occurs in the mesh is
`(position, g·position + c)`: the mean over the node's rows is the common value. -/
theorem nodeEntry_linear (rows : List (MRow ℝ)) (g : V3 ℝ) (c : ℝ)
    (hcoord : ∀ r ∈ rows, ∀ r' ∈ rows, r.node = r'.node → r.p = r'.p)
    (hlin : ∀ r ∈ rows, r.v = g.dot r.p + c)
    (id : Int) (hid : id ∈ rows.map (·.node)) :
    sumMap (·.v) (rows.filter (·.node == id)) / (((rows.filter (·.node == id)).length : Nat) : ℝ)
      = g.dot (nodePos rows id) + c := by
  obtain ⟨r0, hr0, hr0id⟩ := List.mem_map.1 hid
  set rs := rows.filter (·.node == id) with hrs
  have hr0' : r0 ∈ rs := by simp [hrs, hr0, hr0id]
  have hne : rs ≠ [] := List.ne_nil_of_mem hr0'
  obtain ⟨h, t, hht⟩ := List.exists_cons_of_ne_nil hne
  have hpos : nodePos rows id = h.p := by simp [nodePos, ← hrs, hht]
  have hmem : ∀ r ∈ rs, r ∈ rows ∧ r.node = id := by
    intro r hr; simpa [hrs] using hr
  have hh : h ∈ rs := by simp [hht]
  have hall : ∀ r ∈ rs, r.v = g.dot h.p + c := by
    intro r hr
    have := hcoord r (hmem r hr).1 h (hmem h hh).1 (by rw [(hmem r hr).2, (hmem h hh).2])
    rw [hlin r (hmem r hr).1, this]
  rw [sumMap_eq_sum, sum_const_of_forall _ _ _ hall, hpos]
  have hlen : ((rs.length : Nat) : ℝ) ≠ 0 := by
    have : rs.length ≠ 0 := by simp [hne]
    exact_mod_cast this
  field_simp

theorem indexOf_spec (ids : List Int) (nb : Int) (h : nb ∈ ids) :
    ∃ hlt : indexOf ids nb < ids.length, ids[indexOf ids nb] = nb := by
  have hex : ∃ x ∈ ids, (x == nb) = true := ⟨nb, h, by simp⟩
  have hlt : indexOf ids nb < ids.length := List.findIdx_lt_length_of_exists hex
  refine ⟨hlt, ?_⟩
  unfold indexOf at hlt ⊢
  have h2 := List.findIdx_getElem (w := hlt)
  simpa using h2

theorem nodeData_getD (rows : List (MRow ℝ)) (ids : List Int) (cnt : Nat → ℝ) (zero : V3 ℝ × ℝ) (i : Nat)
    (hi : i < ids.length) :
    (nodeData rows ids cnt).toArray.getD i zero =
      (nodePos rows ids[i], sumMap (·.v) (rows.filter (·.node == ids[i])) / cnt (rows.filter (·.node == ids[i])).length) := by
  simp [nodeData, nodePos, Array.getD, hi]

theorem mem_neighbors_nodes (rows : List (MRow ℝ)) (id nb : Int) (h : nb ∈ neighbors rows id) :
    nb ∈ rows.map (·.node) := by
  simp only [neighbors, List.mem_filter, mem_sortedUnique, List.mem_map] at h
  obtain ⟨⟨r, hr, rfl⟩, _⟩ := h
  exact List.mem_map.2 ⟨r, hr.1, rfl⟩

/-- **The pipeline is exact on linear fields for every node numbering**: each output row `(id, gradient)` of
`Gradient.gradient_of` carries `g`, provided the least-squares system of that node (rows `nbrDiffs rows id`)
has full column rank. -/
theorem gradientLsq_exact_aux (rtol : ℝ) (rows : List (MRow ℝ)) (g : V3 ℝ) (c : ℝ)
    (hcoord : ∀ r ∈ rows, ∀ r' ∈ rows, r.node = r'.node → r.p = r'.p)
    (hlin : ∀ r ∈ rows, r.v = g.dot r.p + c)
    (id : Int) (gr : V3 ℝ) (hmem : (id, gr) ∈ gradientLsq rtol (fun n => (n : ℝ)) rows) :
    id ∈ rows.map (·.node) ∧ gr = lstsq3 rtol ((nbrDiffs rows id).map fun a => (a, a.dot g)) := by
  simp only [gradientLsq, List.mem_map] at hmem
  obtain ⟨⟨id', pos⟩, hz, heq⟩ := hmem
  simp only [Prod.mk.injEq] at heq
  obtain ⟨rfl, hgr⟩ := heq
  obtain ⟨hpos, hidpos⟩ : ∃ h : pos < (sortedUnique (rows.map (·.node))).length,
      (sortedUnique (rows.map (·.node)))[pos] = id' := by
    obtain ⟨h1, h2⟩ := List.mem_zipIdx' hz
    exact ⟨h1, h2.symm⟩
  have hid : id' ∈ rows.map (·.node) := by
    rw [← mem_sortedUnique, ← hidpos]; exact List.getElem_mem _
  refine ⟨hid, ?_⟩
  rw [← hgr]
  congr 1
  simp only [nbrDiffs, List.map_map]
  apply List.map_congr_left
  intro nb hnb
  have hnbmem : nb ∈ sortedUnique (rows.map (·.node)) := (mem_sortedUnique _ _).2 (mem_neighbors_nodes rows id' nb hnb)
  obtain ⟨hlt, hget⟩ := indexOf_spec _ nb hnbmem
  simp only [Function.comp]
  rw [nodeData_getD _ _ _ _ _ hlt, nodeData_getD _ _ _ _ _ hpos, hget, hidpos]
  simp only
  rw [nodeEntry_linear rows g c hcoord hlin nb (mem_neighbors_nodes rows id' nb hnb),
    nodeEntry_linear rows g c hcoord hlin id' hid]
  simp only [V3.sub, V3.dot, Prod.mk.injEq, true_and]
  ring

/-- The result has one row per node id, ascending. -/
theorem gradientLsq_ids (rtol : ℝ) (cnt : Nat → ℝ) (rows : List (MRow ℝ)) :
    (gradientLsq rtol cnt rows).map (·.1) = sortedUnique (rows.map (·.node)) := by
  simp only [gradientLsq, List.map_map]
  have : ((fun x : Int × V3 ℝ => x.1) ∘ fun x : Int × Nat => (x.1, lstsq3 rtol ((neighbors rows x.1).map fun nb =>
      ((((nodeData rows (sortedUnique (rows.map (·.node))) cnt).toArray.getD (indexOf (sortedUnique (rows.map (·.node))) nb) (default, 0.0)).1.sub
        ((nodeData rows (sortedUnique (rows.map (·.node))) cnt).toArray.getD x.2 (default, 0.0)).1),
       ((nodeData rows (sortedUnique (rows.map (·.node))) cnt).toArray.getD (indexOf (sortedUnique (rows.map (·.node))) nb) (default, 0.0)).2 -
        ((nodeData rows (sortedUnique (rows.map (·.node))) cnt).toArray.getD x.2 (default, 0.0)).2)))) = Prod.fst := by
    funext x; rfl
  rw [this]
  exact List.zipIdx_map_fst _ _


/-! ### the `gradient_3D` pipeline -/

theorem mem_dedupFirst {β : Type} (l : List (Int × β)) (seen : List Int) (x : Int × β)
    (h : x ∈ dedupFirst l seen) : x ∈ l := by
  induction l generalizing seen with
  | nil => simp [dedupFirst] at h
  | cons a l ih =>
    obtain ⟨k, b⟩ := a
    unfold dedupFirst at h
    split_ifs at h with hs
    · exact List.mem_cons_of_mem _ (ih _ h)
    · rcases List.mem_cons.1 h with rfl | h'
      · simp
      · exact List.mem_cons_of_mem _ (ih _ h')

theorem getD_mem {β : Type} (l : List β) (d : β) (i : Nat) (h : i < l.length) : l.getD i d ∈ l := by
  simp [List.getD_eq_getElem?_getD, List.getElem?_eq_getElem h]

/-- The hexahedron `_compute_gradient_hexahedral` reads from an element group: its first eight rows. -/
def hexOfGroup (grp : List (MRow ℝ)) : Hex ℝ :=
  let c (i : Nat) : Corner ℝ := (grp.getD i ⟨0, 0, default, 0.0⟩).corner
  ⟨c 0, c 1, c 2, c 3, c 4, c 5, c 6, c 7⟩

/-- The tetrahedron `_compute_gradient_simplex` reads from an element group: its first four rows. -/
def tetOfGroup (grp : List (MRow ℝ)) : Tet ℝ :=
  let c (i : Nat) : Corner ℝ := (grp.getD i ⟨0, 0, default, 0.0⟩).corner
  ⟨c 0, c 1, c 2, c 3⟩

theorem mem_elemGroups_sub (rows grp : List (MRow ℝ)) (h : grp ∈ elemGroups rows) : ∀ r ∈ grp, r ∈ rows := by
  simp only [elemGroups, List.mem_map] at h
  obtain ⟨e, _, rfl⟩ := h
  intro r hr
  exact (List.mem_filter.1 hr).1

end PylifeVerif.Mesh
