/-
C04 (periodic rainflow): the cyclic reversal sequence `Spec.cyclicReversals` is
* invariant up to rotation under rotation of the input word (`cyclicReversals_rotate`),
* unchanged (up to rotation) by inserting an intermediate value between two neighbours
  (`cyclicReversals_insert`),
* strictly alternating around the cycle (`cyclicReversals_zig`).
Route: `cyclicReversals s = crev (cdedup s)` (`cyclicReversals_eq`), where `crev d` is the
sliding-window extremum filter `ext3` applied to `last :: d ++ [head]`.
-/
import Proofs.Lemmas.PeriodicDefs
import Mathlib.Data.List.Rotate
import Mathlib.Data.List.Chain
namespace PylifeVerif.C04
open PylifeVerif.HCM PylifeVerif.HCM.Spec

/-- local extremum test -/
def ext (p v q : Int) : Prop := (p < v ∧ q < v) ∨ (p > v ∧ q > v)
instance (p v q : Int) : Decidable (ext p v q) := by unfold ext; exact inferInstance

/-- `[v]` if `v` is a strict local extremum between `p` and `q` -/
def g (p v q : Int) : List Int := if ext p v q then [v] else []

/-- sliding-window filter: the interior strict local extrema of a word -/
def ext3 : List Int → List Int
  | p :: v :: q :: rest =>
    (if (p < v ∧ q < v) ∨ (p > v ∧ q > v) then [v] else []) ++ ext3 (v :: q :: rest)
  | _ => []

@[simp] theorem ext3_nil : ext3 [] = [] := rfl
@[simp] theorem ext3_one (a : Int) : ext3 [a] = [] := rfl
@[simp] theorem ext3_two (a b : Int) : ext3 [a, b] = [] := rfl
@[simp] theorem ext3_cons3 (p v q : Int) (r : List Int) :
    ext3 (p :: v :: q :: r) = g p v q ++ ext3 (v :: q :: r) := rfl

theorem ext3_append_pair (A B : List Int) (p q : Int) :
    ext3 (A ++ p :: q :: B) = ext3 (A ++ [p, q]) ++ ext3 (p :: q :: B) := by
  induction A with
  | nil => simp
  | cons a A ih =>
    match A, ih with
    | [], _ => simp
    | [b], _ => simp
    | b :: c :: A, ih =>
      simp only [List.cons_append, ext3_cons3, List.append_assoc] at ih ⊢
      rw [ih]

theorem ext3_range (L : List Int) :
    ext3 L = (List.range (L.length - 2)).filterMap
      (fun i => if ext L[i]! L[i+1]! L[i+2]! then some L[i+1]! else none) := by
  match L with
  | [] => simp
  | [a] => simp
  | [a, b] => simp
  | p :: v :: q :: rest =>
    have ih := ext3_range (v :: q :: rest)
    have e1 : rest.length + 1 + 1 + 1 - 2 = rest.length + 1 := by omega
    have e2 : rest.length + 1 + 1 - 2 = rest.length := by omega
    simp only [ext3_cons3, ih, List.length_cons, e1, e2]
    rw [List.range_succ_eq_map, List.filterMap_cons, List.filterMap_map]
    simp only [Function.comp_def]
    by_cases h : ext p v q <;> simp [g, h]

def cdedup (s : List Int) : List Int :=
  let d := dedup s
  if d.length > 1 ∧ d.head? = d.getLast? then d.dropLast else d

def crev (d : List Int) : List Int :=
  if d.length < 2 then d else ext3 (d.getLast?.getD 0 :: d ++ [d.head?.getD 0])

theorem idx0 (d : List Int) (i : Nat) (hi : i < d.length) :
   (d.getLast?.getD 0 :: d ++ [d.head?.getD 0])[i]! = d.toArray[(i + d.length - 1) % d.length]! := by
  rcases i with _ | i
  · have : (0 + d.length - 1) % d.length = d.length - 1 := by
      rw [Nat.zero_add]; exact Nat.mod_eq_of_lt (by omega)
    rw [this]
    simp [List.getLast?_eq_getElem?]
  · have : (i + 1 + d.length - 1) % d.length = i := by
      have : i + 1 + d.length - 1 = i + d.length := by omega
      rw [this, Nat.add_mod_right]; exact Nat.mod_eq_of_lt (by omega)
    rw [this]
    have hi' : i < d.length := by omega
    simp [List.getElem?_append_left hi']

theorem idx1 (d : List Int) (i : Nat) (hi : i < d.length) :
   (d.getLast?.getD 0 :: d ++ [d.head?.getD 0])[i+1]! = d.toArray[i]! := by
  simp [List.getElem?_append_left hi]

theorem idx2 (d : List Int) (i : Nat) (hi : i < d.length) :
   (d.getLast?.getD 0 :: d ++ [d.head?.getD 0])[i+2]! = d.toArray[(i + 1) % d.length]! := by
  by_cases h : i + 1 < d.length
  · rw [Nat.mod_eq_of_lt h]
    simp [List.getElem?_append_left h]
  · have : i + 1 = d.length := by omega
    rw [this, Nat.mod_self]
    simp [← this, List.head?_eq_getElem?]

theorem crev_range (d : List Int) :
    ext3 (d.getLast?.getD 0 :: d ++ [d.head?.getD 0]) =
    (List.range d.length).filterMap fun i =>
      let p := d.toArray[(i + d.length - 1) % d.length]!
      let v := d.toArray[i]!
      let q := d.toArray[(i + 1) % d.length]!
      if (p < v ∧ q < v) ∨ (p > v ∧ q > v) then some v else none := by
  rw [ext3_range]
  have : (d.getLast?.getD 0 :: d ++ [d.head?.getD 0]).length - 2 = d.length := by simp
  rw [this]
  apply List.filterMap_congr
  intro i hi
  rw [List.mem_range] at hi
  rw [idx0 d i hi, idx1 d i hi, idx2 d i hi]
  rfl

theorem cyclicReversals_eq (s : List Int) : cyclicReversals s = crev (cdedup s) := by
  unfold cyclicReversals crev
  simp only []
  rw [← cdedup]
  split
  · rfl
  · rw [crev_range]

abbrev AdjNe (l : List Int) : Prop := List.IsChain (fun a b : Int => a ≠ b) l

@[simp] theorem dedup_nil : dedup [] = [] := by simp [dedup]
@[simp] theorem dedup_one (a : Int) : dedup [a] = [a] := by simp [dedup]
theorem dedup_cons_cons (a b : Int) (r : List Int) :
    dedup (a :: b :: r) = if a = b then dedup (b :: r) else a :: dedup (b :: r) := by
  rw [dedup]

theorem head?_dedup (t : List Int) : (dedup t).head? = t.head? := by
  fun_induction dedup t with
  | case1 a rest ih => simpa using ih
  | case2 a b rest h ih => simp
  | case3 l h => rfl

theorem dedup_cons (x : Int) (t : List Int) :
    dedup (x :: t) = if t.head? = some x then dedup t else x :: dedup t := by
  cases t with
  | nil => simp
  | cons b r =>
    rw [dedup_cons_cons]
    simp [eq_comm]

theorem dedup_eq_nil (t : List Int) : dedup t = [] ↔ t = [] := by
  constructor
  · intro h
    have := head?_dedup t
    rw [h] at this
    simpa using this.symm
  · rintro rfl; simp

theorem dedup_snoc (t : List Int) (x : Int) :
    dedup (t ++ [x]) = if (dedup t).getLast? = some x then dedup t else dedup t ++ [x] := by
  induction t with
  | nil => simp
  | cons a t ih =>
    rw [List.cons_append, dedup_cons, dedup_cons, ih]
    cases t with
    | nil => by_cases h : x = a <;> simp [h, eq_comm]
    | cons b r =>
      have hne : dedup (b :: r) ≠ [] := by simp [dedup_eq_nil]
      by_cases h1 : a = b <;> by_cases h2 : (dedup (b :: r)).getLast? = some x <;>
        simp [h1, h2, List.getLast?_cons_of_ne_nil hne, eq_comm]

theorem adjNe_dedup (t : List Int) : AdjNe (dedup t) := by
  fun_induction dedup t with
  | case1 a rest ih => exact ih
  | case2 a b rest h ih =>
    rw [AdjNe, List.isChain_cons]
    refine ⟨?_, ih⟩
    rw [head?_dedup]
    simpa using h
  | case3 l h =>
    match l, h with
    | [], _ => exact List.IsChain.nil
    | [a], _ => exact List.IsChain.singleton a
    | a :: b :: r, h => exact absurd rfl (h a b r)


/-- the junction rule of `cdedup` on an already deduplicated word -/
def cd (d : List Int) : List Int :=
  if d.length > 1 ∧ d.head? = d.getLast? then d.dropLast else d

theorem cdedup_eq (s : List Int) : cdedup s = cd (dedup s) := rfl

theorem cd_of_ne (d : List Int) (h : d.head? ≠ d.getLast?) : cd d = d := by
  simp [cd, h]
theorem cd_of_eq (d : List Int) (h1 : 1 < d.length) (h : d.head? = d.getLast?) :
    cd d = d.dropLast := by
  simp [cd, h, h1]

theorem cd_rot1 (D : List Int) (x : Int) (hD : D ≠ []) :
    cd (if D.head? = some x then D else x :: D) = cd (if D.getLast? = some x then D else D ++ [x]) ∨
    ∃ E, cd (if D.head? = some x then D else x :: D) = x :: E ∧
         cd (if D.getLast? = some x then D else D ++ [x]) = E ++ [x] := by
  obtain ⟨D0, l, rfl⟩ : ∃ D0 l, D = D0 ++ [l] := by
    rcases List.eq_nil_or_concat D with h | ⟨L, b, h⟩
    · exact absurd h hD
    · exact ⟨L, b, by simpa using h⟩
  have hl : (D0 ++ [l]).getLast? = some l := by simp
  have hxl : ∀ x : Int, (x :: (D0 ++ [l])).getLast? = some l := by
    intro x; simp [List.getLast?_cons]
  have hxd : ∀ x : Int, (x :: (D0 ++ [l])).dropLast = x :: D0 := by
    intro x; rw [← List.cons_append, List.dropLast_concat]
  by_cases h1 : (D0 ++ [l]).head? = some x <;> by_cases h2 : l = x
  · left; rw [if_pos h1, if_pos (by rw [hl, h2])]
  · left
    rw [if_pos h1, if_neg (by rw [hl]; simpa using h2)]
    rw [cd_of_ne _ (by rw [h1, hl]; simpa [eq_comm] using h2), cd_of_eq _ (by simp)]
    · simp
    · rw [List.head?_append_of_ne_nil _ hD, h1]; simp
  · right
    subst h2
    refine ⟨D0, ?_, ?_⟩
    · rw [if_neg h1, cd_of_eq _ (by simp) (by rw [hxl]; simp), hxd]
    · rw [if_pos hl, cd_of_ne _ (by rw [hl]; exact h1)]
  · right
    refine ⟨D0 ++ [l], ?_, ?_⟩
    · rw [if_neg h1, cd_of_ne]
      rw [hxl]; simpa [eq_comm] using h2
    · rw [if_neg (by rw [hl]; simpa using h2), cd_of_ne]
      rw [List.head?_append_of_ne_nil _ hD]; simpa using h1

theorem cdedup_rot1 (x : Int) (t : List Int) :
    cdedup (x :: t) = cdedup (t ++ [x]) ∨
    ∃ E, cdedup (x :: t) = x :: E ∧ cdedup (t ++ [x]) = E ++ [x] := by
  by_cases ht : t = []
  · subst ht; left; simp
  · have := cd_rot1 (dedup t) x (by simpa [dedup_eq_nil] using ht)
    rw [cdedup_eq, cdedup_eq, dedup_cons, dedup_snoc, ← head?_dedup t]
    exact this


theorem crev_of_two_le (d : List Int) (h : 2 ≤ d.length) :
    crev d = ext3 (d.getLast?.getD 0 :: d ++ [d.head?.getD 0]) := by
  rw [crev, if_neg (by omega)]

theorem crev_cons_snoc (x l e0 : Int) (E0 : List Int) (he : (E0 ++ [l]).head? = some e0) :
    crev (x :: (E0 ++ [l])) = g l x e0 ++ ext3 (x :: (E0 ++ [l]) ++ [x]) ∧
    crev ((E0 ++ [l]) ++ [x]) = ext3 (x :: (E0 ++ [l]) ++ [x]) ++ g l x e0 := by
  constructor
  · obtain ⟨E1, hE1⟩ : ∃ E1, E0 ++ [l] = e0 :: E1 := by
      cases E0 with
      | nil => exact ⟨[], by simpa using he⟩
      | cons a E0' => exact ⟨E0' ++ [l], by simpa using he⟩
    rw [crev_of_two_le _ (by simp)]
    have : (x :: (E0 ++ [l])).getLast?.getD 0 = l := by simp [List.getLast?_cons]
    rw [this, hE1]
    simp
  · rw [crev_of_two_le _ (by simp)]
    have h1 : ((E0 ++ [l]) ++ [x]).getLast?.getD 0 = x := by simp
    have h2 : ((E0 ++ [l]) ++ [x]).head?.getD 0 = e0 := by
      rw [List.head?_append_of_ne_nil _ (by simp), he]; rfl
    rw [h1, h2]
    have h3 : x :: (E0 ++ [l] ++ [x]) ++ [e0] = (x :: E0) ++ l :: x :: [e0] := by simp
    rw [h3, ext3_append_pair]
    have h4 : (x :: E0) ++ [l, x] = x :: (E0 ++ [l]) ++ [x] := by simp
    rw [h4]
    simp

theorem crev_rot1 (x : Int) (E : List Int) : crev (x :: E) ~r crev (E ++ [x]) := by
  rcases List.eq_nil_or_concat E with h | ⟨E0, l, h⟩
  · subst h; exact List.IsRotated.refl _
  · have h : E = E0 ++ [l] := by simpa using h
    subst h
    obtain ⟨e0, he⟩ : ∃ e0, (E0 ++ [l]).head? = some e0 := by
      cases E0 <;> simp
    obtain ⟨h1, h2⟩ := crev_cons_snoc x l e0 E0 he
    rw [h1, h2]
    exact List.isRotated_append

theorem cyclicReversals_rot1 (x : Int) (t : List Int) :
    cyclicReversals (x :: t) ~r cyclicReversals (t ++ [x]) := by
  rw [cyclicReversals_eq, cyclicReversals_eq]
  rcases cdedup_rot1 x t with h | ⟨E, h1, h2⟩
  · rw [h]
  · rw [h1, h2]; exact crev_rot1 x E

theorem cyclicReversals_rotate (a b : List Int) :
    cyclicReversals (a ++ b) ~r cyclicReversals (b ++ a) := by
  induction a generalizing b with
  | nil => simpa using List.IsRotated.refl _
  | cons x a ih =>
    have h1 := cyclicReversals_rot1 x (a ++ b)
    have h2 := ih (b ++ [x])
    rw [List.append_assoc] at h1
    rw [List.append_assoc] at h2
    exact h1.trans h2

@[simp] theorem alt_nil (up : Bool) : Alt up [] := by simp [Alt]
@[simp] theorem alt_one (up : Bool) (a : Int) : Alt up [a] := by simp [Alt]
theorem alt_true_cons_cons (x y : Int) (r : List Int) :
    Alt true (x :: y :: r) ↔ x < y ∧ Alt false (y :: r) := by simp [Alt]
theorem alt_false_cons_cons (x y : Int) (r : List Int) :
    Alt false (x :: y :: r) ↔ y < x ∧ Alt true (y :: r) := by simp [Alt]

theorem alt_weaken_up (a b : Int) (w : List Int) (hab : a < b) (h : Alt true (b :: w)) :
    Alt true (a :: w) := by
  cases w with
  | nil => simp
  | cons e r =>
    rw [alt_true_cons_cons] at h ⊢
    exact ⟨by omega, h.2⟩

theorem alt_weaken_down (a b : Int) (w : List Int) (hab : b < a) (h : Alt false (b :: w)) :
    Alt false (a :: w) := by
  cases w with
  | nil => simp
  | cons e r =>
    rw [alt_false_cons_cons] at h ⊢
    exact ⟨by omega, h.2⟩

theorem g_turn_up (a b c : Int) (h1 : a < b) (h2 : c < b) : g a b c = [b] := by
  simp [g, ext, h1, h2]
theorem g_turn_down (a b c : Int) (h1 : b < a) (h2 : b < c) : g a b c = [b] := by
  simp [g, ext, h1, h2]
theorem g_mono_up (a b c : Int) (h1 : a < b) (h2 : b ≤ c) : g a b c = [] := by
  have : ¬ ext a b c := by unfold ext; omega
  simp [g, this]
theorem g_mono_down (a b c : Int) (h1 : b < a) (h2 : c ≤ b) : g a b c = [] := by
  have : ¬ ext a b c := by unfold ext; omega
  simp [g, this]

theorem alt_ext3 (rest : List Int) : ∀ (a b : Int), AdjNe (a :: b :: rest) →
    (a < b → Alt true (a :: ext3 (a :: b :: rest))) ∧
    (b < a → Alt false (a :: ext3 (a :: b :: rest))) := by
  induction rest with
  | nil => intro a b _; simp
  | cons c rest ih =>
    intro a b hc
    rw [AdjNe, List.isChain_cons_cons] at hc
    obtain ⟨hab, hc⟩ := hc
    have hbc : b ≠ c := by
      rw [List.isChain_cons_cons] at hc; exact hc.1
    obtain ⟨ih1, ih2⟩ := ih b c hc
    rw [ext3_cons3]
    constructor
    · intro h
      rcases Int.lt_or_gt_of_ne hbc with h' | h'
      · rw [g_mono_up a b c h (by omega)]
        exact alt_weaken_up a b _ h (ih1 h')
      · rw [g_turn_up a b c h h', List.singleton_append, alt_true_cons_cons]
        exact ⟨h, ih2 h'⟩
    · intro h
      rcases Int.lt_or_gt_of_ne hbc with h' | h'
      · rw [g_turn_down a b c h h', List.singleton_append, alt_false_cons_cons]
        exact ⟨h, ih1 h'⟩
      · rw [g_mono_down a b c h (by omega)]
        exact alt_weaken_down a b _ h (ih2 h')

theorem alt_tail (up : Bool) (a : Int) (w : List Int) (h : Alt up (a :: w)) : Alt (!up) w := by
  cases w with
  | nil => simp
  | cons e r =>
    cases up
    · rw [alt_false_cons_cons] at h; exact h.2
    · rw [alt_true_cons_cons] at h; exact h.2

theorem zig_ext3 (L : List Int) (h : AdjNe L) : Zig (ext3 L) := by
  match L, h with
  | [], _ => exact ⟨true, by simp⟩
  | [a], _ => exact ⟨true, by simp⟩
  | a :: b :: rest, h =>
    have hab : a ≠ b := by
      rw [AdjNe, List.isChain_cons_cons] at h; exact h.1
    obtain ⟨h1, h2⟩ := alt_ext3 rest a b h
    rcases Int.lt_or_gt_of_ne hab with h' | h'
    · exact ⟨_, alt_tail _ _ _ (h1 h')⟩
    · exact ⟨_, alt_tail _ _ _ (h2 h')⟩


theorem adjNe_dropLast (D : List Int) (h : AdjNe D) : AdjNe D.dropLast := by
  rcases List.eq_nil_or_concat D with h0 | ⟨D0, l, h0⟩
  · subst h0; exact List.IsChain.nil
  · have h0 : D = D0 ++ [l] := by simpa using h0
    subst h0
    rw [List.dropLast_concat]
    exact List.IsChain.left_of_append h

theorem adjNe_cd (D : List Int) (h : AdjNe D) : AdjNe (cd D) := by
  unfold cd; split
  · exact adjNe_dropLast D h
  · exact h

theorem cd_cyc (D : List Int) (h : AdjNe D) (h2 : 2 ≤ (cd D).length) :
    (cd D).getLast? ≠ (cd D).head? := by
  by_cases hc : D.length > 1 ∧ D.head? = D.getLast?
  · rw [cd, if_pos hc] at h2 ⊢
    obtain ⟨hc1, hc2⟩ := hc
    rcases List.eq_nil_or_concat D with h0 | ⟨D0, l, h0⟩
    · subst h0; simp at hc1
    have h0 : D = D0 ++ [l] := by simpa using h0
    subst h0
    rw [List.dropLast_concat] at h2 ⊢
    rcases List.eq_nil_or_concat D0 with h1 | ⟨D1, l', h1⟩
    · subst h1; simp at h2
    have h1 : D0 = D1 ++ [l'] := by simpa using h1
    subst h1
    have hne : l' ≠ l := by
      have h' : AdjNe (D1 ++ [l'] ++ [l]) := h
      simp at h'
      exact h'.2
    rw [List.head?_append_of_ne_nil _ (by simp), List.getLast?_concat] at hc2
    rw [hc2, List.getLast?_concat]
    simpa using hne
  · rw [cd, if_neg hc] at h2 ⊢
    intro he
    exact hc ⟨by omega, he.symm⟩

theorem crev_double (d0 t : List Int) (hd l : Int) (e : hd :: t = d0 ++ [l]) :
    ext3 (l :: (hd :: t) ++ [hd]) ++ ext3 (l :: (hd :: t) ++ [hd]) =
    ext3 (l :: ((hd :: t) ++ (hd :: t) ++ [hd])) := by
  have h1 : l :: ((hd :: t) ++ (hd :: t) ++ [hd]) = (l :: d0) ++ l :: hd :: (t ++ [hd]) := by
    have : (l :: d0) ++ l :: hd :: (t ++ [hd]) = l :: ((d0 ++ [l]) ++ (hd :: t) ++ [hd]) := by
      simp
    rw [this, ← e]
  have h2 : (l :: d0) ++ [l, hd] = l :: (hd :: t) ++ [hd] := by
    rw [e]; simp
  rw [h1, ext3_append_pair, h2]
  simp

theorem adjNe_double (t : List Int) (hd l : Int) (hc : AdjNe (hd :: t))
    (hl : (hd :: t).getLast? = some l) (hne : l ≠ hd) :
    AdjNe (l :: ((hd :: t) ++ (hd :: t) ++ [hd])) := by
  rw [AdjNe, List.isChain_cons, List.isChain_append, List.isChain_append]
  refine ⟨by simpa using hne, ⟨hc, hc, ?_⟩, List.IsChain.singleton _, ?_⟩
  · rw [hl]; simpa using hne
  · rw [List.getLast?_append_of_ne_nil _ (by simp), hl]; simpa using hne

theorem length_crev_lt (d : List Int) (h : d.length < 2) : crev d = d := by
  rw [crev, if_pos h]

theorem cyclicReversals_zig (s : List Int) (h : 2 ≤ (cyclicReversals s).length) :
    Zig (cyclicReversals s ++ cyclicReversals s) := by
  rw [cyclicReversals_eq] at h ⊢
  have hlen : 2 ≤ (cdedup s).length := by
    by_contra hc
    rw [length_crev_lt _ (by omega)] at h
    exact hc h
  have hadj : AdjNe (cdedup s) := adjNe_cd _ (adjNe_dedup s)
  have hcyc : (cdedup s).getLast? ≠ (cdedup s).head? := cd_cyc _ (adjNe_dedup s) hlen
  rw [crev_of_two_le _ hlen]
  generalize cdedup s = d at *
  match d, hlen, hadj, hcyc with
  | hd :: t, hlen, hadj, hcyc =>
    obtain ⟨d0, l, e⟩ : ∃ d0 l, hd :: t = d0 ++ [l] := by
      rcases List.eq_nil_or_concat (hd :: t) with h0 | ⟨D0, l, h0⟩
      · simp at h0
      · exact ⟨D0, l, by simpa using h0⟩
    have hl : (hd :: t).getLast? = some l := by rw [e]; simp
    have hne : l ≠ hd := by
      intro he; apply hcyc; rw [hl, he]; rfl
    rw [hl]
    show Zig (ext3 (l :: (hd :: t) ++ [hd]) ++ ext3 (l :: (hd :: t) ++ [hd]))
    rw [crev_double d0 t hd l e]
    exact zig_ext3 _ (adjNe_double t hd l hadj hl hne)

theorem g_congr (p v q p' q' : Int) (h : ext p v q ↔ ext p' v q') : g p v q = g p' v q' := by
  unfold g; rw [if_congr h rfl rfl]

theorem crev_insert (x v y : Int) (E : List Int)
    (hv : (x < v ∧ v < y) ∨ (y < v ∧ v < x)) :
    crev (x :: v :: y :: E) = crev (x :: y :: E) := by
  rw [crev_of_two_le _ (by simp), crev_of_two_le _ (by simp)]
  have h1 : (x :: v :: y :: E).getLast? = (y :: E).getLast? := by
    simp [List.getLast?_cons_cons]
  have h2 : (x :: y :: E).getLast? = (y :: E).getLast? := by
    simp [List.getLast?_cons_cons]
  rw [h1, h2]
  generalize (y :: E).getLast?.getD 0 = l
  obtain ⟨e0, E', he⟩ : ∃ e0 E', E ++ [x] = e0 :: E' := by
    cases E with
    | nil => exact ⟨x, [], rfl⟩
    | cons a E => exact ⟨a, E ++ [x], rfl⟩
  simp only [List.head?_cons, Option.getD_some, List.cons_append, he, ext3_cons3]
  have e1 : g x v y = [] := by
    have : ¬ ext x v y := by unfold ext; omega
    simp [g, this]
  have e2 : g l x v = g l x y := g_congr _ _ _ _ _ (by unfold ext; omega)
  have e3 : g v y e0 = g x y e0 := g_congr _ _ _ _ _ (by unfold ext; omega)
  rw [e1, e2, e3]
  simp

theorem cdedup_insert (x v y : Int) (R : List Int) (h1 : x ≠ v) (h2 : v ≠ y) (h3 : x ≠ y) :
    ∃ E, cdedup (x :: v :: y :: R) = x :: v :: y :: E ∧ cdedup (x :: y :: R) = x :: y :: E := by
  rw [cdedup_eq, cdedup_eq, dedup_cons_cons x v, if_neg h1, dedup_cons_cons v y, if_neg h2,
    dedup_cons_cons x y, if_neg h3]
  obtain ⟨F, hF⟩ : ∃ F, dedup (y :: R) = y :: F := by
    have := head?_dedup (y :: R)
    cases hG : dedup (y :: R) with
    | nil => rw [hG] at this; simp at this
    | cons a F =>
      rw [hG] at this
      simp at this
      exact ⟨F, by rw [this]⟩
  rw [hF]
  have hl1 : (x :: v :: y :: F).getLast? = (y :: F).getLast? := by
    simp [List.getLast?_cons_cons]
  have hl2 : (x :: y :: F).getLast? = (y :: F).getLast? := by
    simp [List.getLast?_cons_cons]
  by_cases hc : (y :: F).getLast? = some x
  · obtain ⟨E, hE⟩ : ∃ E, F = E ++ [x] := by
      rcases List.eq_nil_or_concat F with h0 | ⟨E, l, h0⟩
      · subst h0; simp at hc; exact absurd hc.symm h3
      · have h0 : F = E ++ [l] := by simpa using h0
        subst h0
        rw [← List.cons_append, List.getLast?_concat] at hc
        simp at hc
        exact ⟨E, by rw [hc]⟩
    subst hE
    have hd : (y :: (E ++ [x])).dropLast = y :: E := by
      rw [← List.cons_append, List.dropLast_concat]
    refine ⟨E, ?_, ?_⟩
    · rw [cd_of_eq _ (by simp) (by rw [hl1, hc]; rfl)]
      simpa using hd
    · rw [cd_of_eq _ (by simp) (by rw [hl2, hc]; rfl)]
      simpa using hd
  · refine ⟨F, ?_, ?_⟩
    · rw [cd_of_ne _ (by rw [hl1]; simpa [eq_comm] using hc)]
    · rw [cd_of_ne _ (by rw [hl2]; simpa [eq_comm] using hc)]

theorem cyclicReversals_insert_front (x v y : Int) (R : List Int)
    (hv : (x ≤ v ∧ v ≤ y) ∨ (y ≤ v ∧ v ≤ x)) :
    cyclicReversals (x :: v :: y :: R) = cyclicReversals (x :: y :: R) := by
  rw [cyclicReversals_eq, cyclicReversals_eq]
  by_cases h1 : x = v
  · subst h1
    rw [cdedup_eq, cdedup_eq, dedup_cons_cons x x, if_pos rfl]
  by_cases h2 : v = y
  · subst h2
    rw [cdedup_eq, cdedup_eq, dedup_cons_cons x v (v :: R), dedup_cons_cons v v, if_pos rfl,
      dedup_cons_cons x v R]
  have h3 : x ≠ y := by omega
  obtain ⟨E, e1, e2⟩ := cdedup_insert x v y R h1 h2 h3
  rw [e1, e2]
  exact crev_insert x v y E (by omega)

theorem cyclicReversals_insert (pre post : List Int) (x y v : Int)
    (hv : (x ≤ v ∧ v ≤ y) ∨ (y ≤ v ∧ v ≤ x)) :
    cyclicReversals (pre ++ x :: v :: y :: post) ~r cyclicReversals (pre ++ x :: y :: post) := by
  have h1 := cyclicReversals_rotate pre (x :: v :: y :: post)
  have h2 := cyclicReversals_rotate (x :: y :: post) pre
  have h3 := cyclicReversals_insert_front x v y (post ++ pre) hv
  simp only [List.cons_append] at h1 h2
  rw [h3] at h1
  exact h1.trans h2

/-! ### exported forms of the characterisation and of the cyclic adjacency facts -/

theorem cyclicReversals_of_short (s : List Int) (h : (cdedup s).length < 2) :
    cyclicReversals s = cdedup s := by
  rw [cyclicReversals_eq, length_crev_lt _ h]

theorem cyclicReversals_eq_ext3 (s : List Int) (h : Int) (t : List Int)
    (hd : cdedup s = h :: t) (ht : t ≠ []) :
    cyclicReversals s = ext3 ((h :: t).getLast (by simp) :: (h :: t) ++ [h]) := by
  have hlen : 2 ≤ (h :: t).length := by
    cases t with
    | nil => exact absurd rfl ht
    | cons a t => simp
  rw [cyclicReversals_eq, hd, crev_of_two_le _ hlen, List.getLast?_eq_some_getLast (by simp)]
  rfl

theorem adjNe_cdedup (s : List Int) : List.IsChain (fun a b : Int => a ≠ b) (cdedup s) :=
  adjNe_cd _ (adjNe_dedup s)

theorem cdedup_last_ne_head (s : List Int) (h : 2 ≤ (cdedup s).length) :
    (cdedup s).getLast? ≠ (cdedup s).head? :=
  cd_cyc _ (adjNe_dedup s) h

/-! ### non-vacuity -/
example : cyclicReversals [0, 1, 1, 3, 2, 2, -1, 0] = [3, -1] := by decide
example : cyclicReversals ([1, 3] ++ [2, 0]) = [3, 0] ∧ cyclicReversals ([2, 0] ++ [1, 3]) = [0, 3] := by
  decide
example : 2 ≤ (cyclicReversals [0, 2, 1, 3, -1]).length := by decide


end PylifeVerif.C04
