import Proofs.Lemmas.Meanstress
import Mathlib.Data.List.Basic
import Mathlib.Data.List.Range
import Mathlib.Algebra.BigOperators.Group.List.Basic
import Mathlib.Algebra.Order.Field.Basic
import Mathlib.Tactic.Positivity

/-!
# Re-binning of the transformed ranges (`rebin`, `classSum`, `linspace0`) over `ℝ`

* `rebin_conserves`: with strictly increasing breaks `0 = e₀ < e₁ < … < eₙ` and every range in
  `[0, eₙ]`, the class sums add up to the total cycle count.
* `rebin_exactly_one`: every such range lies in exactly one class.
* `linspace0_breaks`: the breaks produced by the model of `np.linspace(0, mx, n+1)` satisfy the
  hypotheses of the above.
-/

namespace PylifeVerif.Meanstress

/-- Sum of the counts of the items selected by `p`. -/
noncomputable def selSum (p : ℝ × ℝ → Bool) (items : List (ℝ × ℝ)) : ℝ :=
  ((items.filter p).map Prod.snd).sum

theorem foldl_add_snd (l : List (ℝ × ℝ)) (a : ℝ) :
    l.foldl (fun acc it => acc + it.2) a = a + (l.map Prod.snd).sum := by
  induction l generalizing a with
  | nil => simp
  | cons x xs ih => simp [List.foldl_cons, ih, add_assoc]

/-- The first class (left break `0`) is closed on both sides. -/
theorem classSum_zero (r : ℝ) (items : List (ℝ × ℝ)) :
    classSum 0 r items = selSum (fun it => decide (0 ≤ it.1 ∧ it.1 ≤ r)) items := by
  unfold classSum selSum
  rw [foldl_add_snd, lit0, zero_add]
  congr 2
  apply List.filter_congr
  intro it _
  simp

/-- All other classes are half open `(l, r]`. -/
theorem classSum_ne_zero (l r : ℝ) (hl : l ≠ 0) (items : List (ℝ × ℝ)) :
    classSum l r items = selSum (fun it => decide (l < it.1 ∧ it.1 ≤ r)) items := by
  unfold classSum selSum
  rw [foldl_add_snd, lit0, zero_add]
  congr 2
  apply List.filter_congr
  intro it _
  have : ¬ (l ≤ 0 ∧ 0 ≤ l) := fun h => hl (le_antisymm h.1 h.2)
  simp [this]

/-- Splitting a selection into two disjoint selections. -/
theorem selSum_split (p q r : ℝ × ℝ → Bool) (items : List (ℝ × ℝ))
    (h : ∀ it ∈ items, r it = (p it || q it) ∧ (p it && q it) = false) :
    selSum p items + selSum q items = selSum r items := by
  unfold selSum
  induction items with
  | nil => simp
  | cons x xs ih =>
    have hx := h x (by simp)
    have ih' := ih (fun it hit => h it (by simp [hit]))
    rcases hp : p x <;> rcases hq : q x <;> simp [hp, hq] at hx
    all_goals simp [hp, hq, hx]
    all_goals linarith

theorem selSum_all (r : ℝ × ℝ → Bool) (items : List (ℝ × ℝ)) (h : ∀ it ∈ items, r it = true) :
    selSum r items = (items.map Prod.snd).sum := by
  unfold selSum
  rw [List.filter_eq_self.mpr h]

/-- The classes to the right of a positive break `a` collect exactly the ranges in `(a, last]`. -/
theorem rebin_pos (a : ℝ) (rest : List ℝ) (items : List (ℝ × ℝ)) (ha : 0 < a)
    (hs : (a :: rest).Pairwise (· < ·)) :
    (rebin (a :: rest) items).sum =
      selSum (fun it => decide (a < it.1 ∧ it.1 ≤ (a :: rest).getLast (List.cons_ne_nil _ _))) items := by
  induction rest generalizing a with
  | nil =>
    have hnil : items.filter (fun it =>
        decide (a < it.1 ∧ it.1 ≤ [a].getLast (List.cons_ne_nil _ _))) = [] := by
      rw [List.filter_eq_nil_iff]
      intro it _ h
      rw [decide_eq_true_eq, List.getLast_singleton] at h
      exact absurd (lt_of_lt_of_le h.1 h.2) (lt_irrefl _)
    simp only [rebin, List.sum_nil]
    unfold selSum
    rw [hnil]
    simp
  | cons b es ih =>
    have hab : a < b := (List.pairwise_cons.mp hs).1 b (by simp)
    have hs' : (b :: es).Pairwise (· < ·) := (List.pairwise_cons.mp hs).2
    have hb : 0 < b := lt_trans ha hab
    have hlast : b ≤ (b :: es).getLast (List.cons_ne_nil _ _) := by
      rcases List.mem_cons.mp (List.getLast_mem (List.cons_ne_nil b es)) with h | h
      · exact le_of_eq h.symm
      · exact le_of_lt ((List.pairwise_cons.mp hs').1 _ h)
    simp only [rebin, List.sum_cons]
    rw [ih b hb hs', classSum_ne_zero a b (ne_of_gt ha), List.getLast_cons (List.cons_ne_nil b es)]
    apply selSum_split
    intro it _
    by_cases h1 : a < it.1 <;> by_cases h2 : it.1 ≤ b <;>
      by_cases h3 : it.1 ≤ (b :: es).getLast (List.cons_ne_nil _ _) <;>
      simp [h1, h2, h3] <;> linarith

theorem rebin_conserves (rest : List ℝ) (items : List (ℝ × ℝ)) (hne : rest ≠ [])
    (hs : (0 :: rest).Pairwise (· < ·))
    (hr : ∀ it ∈ items, 0 ≤ it.1 ∧ it.1 ≤ rest.getLast hne) :
    (rebin ((0:ℝ) :: rest) items).sum = (items.map Prod.snd).sum := by
  cases rest with
  | nil => exact absurd rfl hne
  | cons b es =>
    have hb : 0 < b := (List.pairwise_cons.mp hs).1 b (by simp)
    have hs' : (b :: es).Pairwise (· < ·) := (List.pairwise_cons.mp hs).2
    simp only [rebin, List.sum_cons]
    rw [rebin_pos b es items hb hs', classSum_zero,
      selSum_split _ _ (fun _ => true) items, selSum_all _ _ (fun _ _ => rfl)]
    intro it hit
    obtain ⟨h0, h3⟩ := hr it hit
    by_cases h2 : it.1 ≤ b
    · simp [h0, h2, not_lt.mpr h2]
    · simp [h2, h3, not_le.mp h2]

theorem rebin_exactly_one (rest : List ℝ) (x : ℝ) (hne : rest ≠ [])
    (hs : (0 :: rest).Pairwise (· < ·)) (hx : 0 ≤ x ∧ x ≤ rest.getLast hne) :
    (rebin ((0:ℝ) :: rest) [(x, 1)]).sum = 1 := by
  rw [rebin_conserves rest [(x, 1)] hne hs]
  · simp
  · intro it hit
    rw [List.mem_singleton] at hit
    subst hit
    exact hx

/-- The model of `np.linspace(0, mx, n+1)` is `i ↦ i * (mx / n)` throughout (for `n ≥ 1`). -/
theorem linspace0_eq (mx : ℝ) (n : ℕ) (hn : 1 ≤ n) :
    linspace0 mx n = (List.range (n + 1)).map fun (i : ℕ) => (i : ℝ) * (mx / (n : ℝ)) := by
  unfold linspace0
  apply List.map_congr_left
  intro i _
  split
  · next h =>
    subst h
    have : (i : ℝ) ≠ 0 := by exact_mod_cast (by omega : i ≠ 0)
    field_simp
  · rfl

theorem linspace0_breaks (mx : ℝ) (n : ℕ) (hmx : 0 < mx) (hn : 1 ≤ n) :
    ∃ rest : List ℝ, ∃ hne : rest ≠ [],
      linspace0 mx n = 0 :: rest ∧ (0 :: rest).Pairwise (· < ·) ∧ rest.getLast hne = mx := by
  have hnpos : (0 : ℝ) < n := by exact_mod_cast hn
  have hstep : 0 < mx / (n : ℝ) := div_pos hmx hnpos
  have heq : linspace0 mx n =
      0 :: (List.range n).map (fun (i : ℕ) => ((i + 1 : ℕ) : ℝ) * (mx / (n : ℝ))) := by
    rw [linspace0_eq mx n hn, List.range_succ_eq_map, List.map_cons, List.map_map]
    simp [Function.comp_def]
  have hpw : (linspace0 mx n).Pairwise (· < ·) := by
    rw [linspace0_eq mx n hn, List.pairwise_map]
    refine List.Pairwise.imp ?_ List.pairwise_lt_range
    intro i j hij
    have : (i : ℝ) < j := by exact_mod_cast hij
    exact mul_lt_mul_of_pos_right this hstep
  have hne : (List.range n).map (fun (i : ℕ) => ((i + 1 : ℕ) : ℝ) * (mx / (n : ℝ))) ≠ [] := by
    obtain ⟨m, rfl⟩ : ∃ m, n = m + 1 := ⟨n - 1, by omega⟩
    simp [List.range_succ]
  refine ⟨_, hne, heq, heq ▸ hpw, ?_⟩
  obtain ⟨m, rfl⟩ : ∃ m, n = m + 1 := ⟨n - 1, by omega⟩
  simp only [List.range_succ, List.map_append, List.map_cons, List.map_nil,
    List.getLast_append_singleton]
  have : ((m + 1 : ℕ) : ℝ) ≠ 0 := ne_of_gt hnpos
  field_simp

/-- Non-vacuity of `rebin_conserves`: breaks `0 < 1 < 2`, ranges on the breaks and in between. -/
example : (rebin ((0:ℝ) :: [1, 2]) [(0, 3), (1, 4), (1.5, 5), (2, 6)]).sum
    = ([(0, 3), (1, 4), (1.5, 5), ((2:ℝ), (6:ℝ))].map Prod.snd).sum := by
  apply rebin_conserves [1, 2] _ (by simp)
  · simp
  · intro it hit
    simp only [List.mem_cons, List.not_mem_nil, or_false] at hit
    rcases hit with rfl | rfl | rfl | rfl <;> norm_num

/-- The conserved total in the example is `18`, and the class sums are `[7, 11]`. -/
example : (rebin ((0:ℝ) :: [1, 2]) [(0, 3), (1, 4), (1.5, 5), (2, 6)]) = [7, 11] := by
  simp only [rebin, classSum_zero, classSum_ne_zero (1:ℝ) 2 one_ne_zero, selSum]
  norm_num [List.filter_cons]

/-- Non-vacuity of `linspace0_breaks` combined with `rebin_exactly_one`. -/
example (x : ℝ) (hx : 0 ≤ x ∧ x ≤ 10) : (rebin (linspace0 (10:ℝ) 4) [(x, 1)]).sum = 1 := by
  obtain ⟨rest, hne, heq, hs, hlast⟩ := linspace0_breaks 10 4 (by norm_num) (by norm_num)
  rw [heq]
  exact rebin_exactly_one rest x hne hs (by rw [hlast]; exact hx)

end PylifeVerif.Meanstress

